"""C09 — hierarchical key derivation follows BIP32 and commutes with going public
(pycoin.key.bip32, BIP32Node, BIP49Node, BIP84Node, HierarchicalKey, subpaths, electrum, ParseAPI.hparse/bip32/bip49/bip84,
bitcoinish.bipNN_as_string)."""
from __future__ import annotations

import hashlib
import hmac
import importlib
import itertools
import pkgutil
import re
import struct

from lib import hx, unhx, show_list
import grsenv  # first (also in the PYCOIN_NATIVE=none worker): Groestl stand-in hash before pycoin.symbols.* is imported

import pycoin.symbols
from pycoin.key.BIP49Node import BIP49Node
from pycoin.key.BIP84Node import BIP84Node
from pycoin.key.subpaths import subpaths_for_path_range

MANIFEST = {
    "text": "Lean theorems over an executable model of bip32.py / BIP32Node / subpaths / electrum / hparse: what from_master_secret returns is the "
            "BIP's master key generation for the seed (C09_master_from_seed; seeds of length 0,1,16,32,64,65 and the vectors' seeds run through bip32_master); "
            "conversely, wherever the BIP's master key is valid (1 <= parse256(I_L) < n) from_master_secret does return a node, and it is that master "
            "(C09_master_from_seed_complete, C09_master_from_seed_iff; hypothesis-free for every constructed secp256k1 generator object: C09_master_from_seed_complete_secp256k1); "
            "the HMAC outputs for which CKD declares a key invalid are counted (exactly 2^256-n values of I_L, below 2^-127 of all on secp256k1: "
            "C09_ckd_invalid_count; 'HMAC-SHA512 output is uniform' is the named assumption that turns the count into a probability); CKDpriv and CKDpub equal the "
            "BIP32 specification (written from the BIP text over Mathlib's elliptic-curve group) whenever I_L < n and the child is "
            "non-zero, for every index below 2^32; public and private derivation commute (group algebra over the C02 refinement of "
            "Curve.add / Generator.__mul__); child metadata; hardened-from-public refused; 78-byte serialisation and the Base58Check "
            "text form round-trip on every network (Groestlcoin family under its own checksum hash included) and every bip32/49/84 prefix pair of the generated network table (agreement of prefixes AND of the checksum hash between each bipNN_as_string closure and parse_b58_hashed decided over the table); subkey_for_path "
            "is the fold of subkey and H/p/' are interchangeable; range expansion is the ordered cartesian product; the sub-key "
            "cache is transparent for every history of calls; Electrum derivation commutes with going public. Model tied to the "
            "code by differential correspondence at the observe_at points on every run, with an independent BIP32 reference "
            "(hashlib/hmac + own affine secp256k1 arithmetic) and the BIP32 test vectors 1-3 as oracles on the implementation.",
    "note": "HMAC-SHA512, SHA-256 and RIPEMD-160 are function symbols in the theorems. The retry branch of "
            "subkey_secret_exponent_chain_code_pair (I_L >= n or child 0; probability ~2^-127) is modelled with fuel and described "
            "by its own theorem; no real input reaches it. Groestlcoin-family networks (grs, tgrs, grsrt) run and are modelled with the "
            "stand-in of translate/grs_stub.py in place of the absent groestlcoin_hash module. libsecp256k1 is absent; the in-process run uses the OpenSSL backend.",
    "technique": "Lean 4 proof (executable model, Mathlib group law through the C02 refinement, decide over generated tables) + "
                 "differential correspondence model vs implementation + independent reference oracle",
}
RULE = ("ops bip32_fam (histories over a family of objects: public copies, shared children)/bip32_texts (hwif, as_text, repr, wif)/bip32_address/c09pure <op> (same op under PYCOIN_NATIVE=none)/bip32_ckdraw/bip32_ckdpubraw/bip32_spec/bip32_master/bip32_node/bip32_pubcopy/bip32_ckd/bip32_path/bip32_nodepath/bip32_ser/bip32_deser/hwif/hparse/subpaths/"
        "bip32_hist/bip32_pathhist/bip32_subkeys/bip32_override/bip32_ctor/bip32_children/electrum_new/electrum_subkey/electrum_args/electrum_ser/electrum_deser/electrum_subkeys/electrum_sfp; boundary corpus (BIP32 vectors 1-3, indices 0, 1, "
        "2^24-1, 2^24, 2^31-1, 2^31 hardened and not, parents whose exponent has leading zero bytes, depth 255/256, every network "
        "x prefix kind, wrong-length / wrong-prefix / corrupted extended keys, path spellings, ranges) + seeded random seeds, paths, "
        "call histories; distinct = distinct op line; trivial = rejected before any derivation")
ASSUMPTIONS = [
    "hmac/hashlib (HMAC-SHA512, SHA-256, RIPEMD-160) are modelled by Pycoin.Hash.* (validated against hashlib by the C19 check and here "
    "through every derivation); they are function symbols in the theorems",
    "the optional groestlcoin_hash package is replaced (also where a real one is installed) by the stand-in of translate/grs_stub.py in harness, "
    "worker, translator and model; of the real Groestl hash only 'a function from byte strings to 32 bytes' is assumed",
    "path strings are ASCII (int() also accepts non-ASCII digits and spaces; not generated, not modelled)",
    "the retry loop of subkey_secret_exponent_chain_code_pair is run with fuel 64 by the model driver",
    "theorems quantify over keys k*G, whose order divides n (C02_order_G_secp256k1); #E(secp256k1) = n itself is proved in C02 (C02_card_points_secp256k1)",
]
TRUSTED = ["translate/gen_networks.py reads the bip32/49/84 prefixes from ParseAPI and by probing the bipNN_as_string closures",
           "harness reference: own affine secp256k1 arithmetic + hashlib/hmac (used by the oracle only)"]

KNOWN: dict = {}

# ------------------------------------------------------------------ networks

_NETS: dict = {}


def net(name: str):
    if name not in _NETS:
        _NETS[name] = importlib.import_module("pycoin.symbols." + name).network
    return _NETS[name]


def all_modules():
    return sorted(m.name for m in pkgutil.iter_modules(pycoin.symbols.__path__))


def supported(name: str) -> bool:
    """every module under pycoin/symbols (the Groestlcoin family runs under the stand-in hash)"""
    return True


def kinds_of(name: str):
    p = net(name).parse
    return [k for k in (32, 49, 84) if getattr(p, "_bip%d_prv_prefix" % k) is not None and getattr(p, "_bip%d_pub_prefix" % k) is not None]


def cls_for(name: str, kind: int):
    n = net(name)
    if kind == 32:
        return n.keys.bip32_seed.__self__
    return getattr(n.keys, "bip%d_deserialize" % kind).__self__


# ------------------------------------------------------------------ tokens

def s2h(s: str) -> str:
    return hx(s.encode("utf8"))


def h2s(h: str) -> str:
    return unhx(h).decode("utf8")


def kind_of(node) -> int:
    return 84 if isinstance(node, BIP84Node) else 49 if isinstance(node, BIP49Node) else 32


def show_node(n) -> str:
    se = n.secret_exponent()
    x, y = n.public_pair()
    return "%d:%d:%s:%d:%s:%s:%d,%d" % (kind_of(n), n.tree_depth(), hx(n.parent_fingerprint()), n.child_index(), hx(n.chain_code()),
                                        "-" if se is None else "%d" % se, x, y)


def parse_node_token(tok: str):
    k, depth, fp, idx, cc, key = tok.split(":")
    d = dict(chain_code=unhx(cc), depth=int(depth), parent_fingerprint=unhx(fp), child_index=int(idx))
    if key[0] == "s":
        d["secret_exponent"] = int(key[1:])
    elif key == "pinf":
        d["public_pair"] = (None, None)
    else:
        x, y = key[1:].split(",")
        d["public_pair"] = (int(x), int(y))
    return int(k), d


def mk_node(tok: str, netname: str = "btc"):
    k, d = parse_node_token(tok)
    return cls_for(netname, k)(**d)


def opt_bool(s: str):
    return None if s == "n" else s == "1"


def item(f):
    try:
        return show_node(f())
    except Exception as e:  # noqa: BLE001
        return "!" + type(e).__name__


def _text(f, raw=False):
    try:
        r = f()
        return r if raw else s2h(r)
    except Exception as e:  # noqa: BLE001
        return "!" + type(e).__name__


def fam_item(r) -> str:
    """an object of a family history: its fields and what its text accessors (as_text, repr) say"""
    return "%s|%s|%s" % (show_node(r), _text(lambda: r.as_text(as_private=r.secret_exponent() is not None)), _text(lambda: repr(r)))


def wallet_from(spec: str):
    n = net("btc")
    k, v = spec.split(":")
    if k == "seed":
        return n.keys.electrum_seed(seed=h2s(v))
    if k == "prv":
        return n.keys.electrum_private(master_private_key=int(v))
    if k == "mpk":
        return n.keys.electrum_public(master_public_key=unhx(v))
    cls = type(n.keys.electrum_private(master_private_key=1))
    if v == "inf":
        return cls(public_pair=(None, None))
    x, y = v.split(",")
    return cls(public_pair=(int(x), int(y)))


def show_wallet(w) -> str:
    se = w.secret_exponent()
    x, y = w.public_pair()
    try:
        mpk = hx(w.master_public_key())
    except Exception as e:  # noqa: BLE001
        mpk = "!" + type(e).__name__
    return "%s %d,%d %s" % ("-" if se is None else "%d" % se, x, y, mpk)


class _StubGen:
    """secp256k1's generator reporting another `order()`: bip32.py takes the generator as an argument and reads its order,
    so an order near 2^255 makes `I_L >= n` (the retry branch of subkey_secret_exponent_chain_code_pair) happen for real"""

    def __init__(self, order):
        self._order = order
        self._g = net("btc").generator

    def order(self):
        return self._order

    def infinity(self):
        return self._g.infinity()

    def Point(self, x, y):
        return self._g.Point(x, y)

    def __rmul__(self, e):
        return e * self._g

    __mul__ = __rmul__


# ------------------------------------------------------------------ implementation adapter

_PURE = None


def _pure_worker():
    """child process with PYCOIN_NATIVE=none (pure-Python curve arithmetic: the blinded table multiplication the model mirrors);
    pycoin fixes the backend at import time, hence a separate interpreter"""
    global _PURE
    if _PURE is None or _PURE.poll() is not None:
        import os
        import subprocess
        import sys
        here = os.path.dirname(os.path.dirname(os.path.abspath(__file__)))
        env = dict(os.environ, PYCOIN_NATIVE="none", PYTHONPATH=os.pathsep.join([os.environ.get("PYCOIN_REPO", "/repo"), here]))
        code = ("import sys\nimport props.c09 as c\n"
                "from pycoin.ecdsa.secp256k1 import secp256k1_generator as g\n"
                "assert all('noop' in b.__name__ for b in type(g).__mro__[1:3]), type(g).__mro__\n"
                "for line in sys.stdin:\n    sys.stdout.write(c.impl(line.rstrip('\\n')) + '\\n'); sys.stdout.flush()\n")
        _PURE = subprocess.Popen([sys.executable, "-c", code], stdin=subprocess.PIPE, stdout=subprocess.PIPE, env=env, text=True)
    return _PURE


def impl(op: str) -> str:
    a = op.split(" ")
    k = a[0]
    if k == "c09pure":
        w = _pure_worker()
        w.stdin.write(" ".join(a[1:]) + "\n")
        w.stdin.flush()
        r = w.stdout.readline()
        if not r:
            from lib import Infra
            raise Infra("pure-Python worker died")
        return r.rstrip("\n")
    try:
        if k == "bip32_master":
            return "ok " + show_node(cls_for("btc", int(a[1])).from_master_secret(unhx(a[2])))
        if k == "bip32_node":
            return "ok " + show_node(mk_node(a[1]))
        if k == "bip32_pubcopy":
            return "ok " + show_node(mk_node(a[1]).public_copy())
        if k == "bip32_ckd":
            node = mk_node(a[1])
            return "ok " + show_node(node.subkey(i=int(a[2]), is_hardened=a[3] == "1", as_private=opt_bool(a[4])))
        if k == "bip32_path":
            name, kind, seed, path, pub_first = a[1], int(a[2]), unhx(a[3]), h2s(a[4]), a[5] == "1"
            cls = cls_for(name, kind)
            m = net(name).keys.bip32_seed(seed) if kind == 32 else cls.from_master_secret(seed)
            if pub_first:
                m = m.public_copy()
            n = m.subkey_for_path(path)

            def t(p):
                try:
                    return s2h(n.hwif(as_private=p))
                except Exception as e:  # noqa: BLE001
                    return "!" + type(e).__name__
            return "ok %s %s %s" % (show_node(n), t(True), t(False))
        if k == "bip32_nodepath":
            return "ok " + show_node(mk_node(a[1]).subkey_for_path(h2s(a[2])))
        if k == "bip32_ckdraw":
            from pycoin.key.bip32 import subkey_secret_exponent_chain_code_pair
            x, y = a[6].split(",")
            r = subkey_secret_exponent_chain_code_pair(_StubGen(int(a[1])), int(a[2]), unhx(a[3]), int(a[4]), a[5] == "1", (int(x), int(y)))
            return "ok %d %s" % (r[0], hx(r[1]))
        if k == "bip32_ckdraw0":
            from pycoin.key.bip32 import subkey_secret_exponent_chain_code_pair
            r = subkey_secret_exponent_chain_code_pair(net("btc").generator, int(a[1]), unhx(a[2]), int(a[3]), a[4] == "1")
            return "ok %d %s" % (r[0], hx(r[1]))
        if k == "bip32_ckdpubraw":
            from pycoin.key.bip32 import subkey_public_pair_chain_code_pair
            x, y = a[2].split(",")
            pt, cc = subkey_public_pair_chain_code_pair(_StubGen(int(a[1])), (int(x), int(y)), unhx(a[3]), int(a[4]))
            return "ok %d,%d %s" % (pt[0], pt[1], hx(cc))
        if k == "bip32_spec":
            # the model side of this op runs the BIP32 *specification* (Spec/BIP32.lean); here: the implementation
            name, kind, seed, pub_first = a[1], int(a[2]), unhx(a[3]), a[5] == "1"
            idxs = [] if a[4] == "~" else [int(x) for x in a[4].split(",")]
            try:
                m = cls_for(name, kind).from_master_secret(seed)
            except ValueError:
                return "invalid"
            if pub_first:
                m = m.public_copy()
            path = "/".join("%d%s" % (i & 0x7FFFFFFF, "H" if i >> 31 else "") for i in idxs)
            try:
                n = m.subkey_for_path(path)
            except Exception as e:  # noqa: BLE001
                if type(e).__name__ == "PublicPrivateMismatchError":
                    return "failure"
                raise
            prv = s2h(n.hwif(as_private=True)) if n.secret_exponent() is not None else "-"
            return "ok %s %s" % (prv, s2h(n.hwif(as_private=False)))
        if k == "bip32_ser":
            return "ok " + hx(mk_node(a[1]).serialize(as_private=opt_bool(a[2])))
        if k == "bip32_deser":
            return "ok " + show_node(cls_for("btc", int(a[1])).deserialize(unhx(a[2])))
        if k == "hwif":
            return "ok " + s2h(mk_node(a[2], a[1]).hwif(as_private=a[3] == "1"))
        if k == "bip32_address":
            r = mk_node(a[2], a[1]).address()
            return "none" if r is None else "ok " + s2h(r)
        if k == "hparse":
            r = getattr(net(a[1]).parse, "bip%s" % a[2])(h2s(a[3]))
            return "none" if r is None else "ok %s %s" % (show_node(r), _text(lambda: r.as_text(as_private=r.secret_exponent() is not None)))
        if k == "bip32_fam":
            objs = [mk_node(a[2], a[1])]
            answers = []
            for st in ([] if a[3] == "~" else a[3].split(",")):
                parts = st[1:].split("/")
                o = objs[int(parts[0])] if int(parts[0]) < len(objs) else None
                if o is None:
                    objs.append(None)
                    answers.append("!NoObject")
                    continue
                try:
                    if st[0] == "c":
                        r = o.public_copy()
                    elif st[0] == "s":
                        r = o.subkey(i=int(parts[1]), is_hardened=parts[2] == "1", as_private=opt_bool(parts[3]))
                    else:
                        r = o.subkey_for_path(h2s(parts[1]))
                    objs.append(r)
                    answers.append(fam_item(r))
                except Exception as e:  # noqa: BLE001
                    objs.append(None)
                    answers.append("!" + type(e).__name__)
            return "ok " + ";".join(answers)
        if k == "bip32_texts":
            n = mk_node(a[2], a[1])

            def wif():
                w = n.wif()
                return "none" if w is None else s2h(w)
            return "ok " + "|".join([_text(lambda: n.hwif(as_private=True)), _text(lambda: n.hwif(as_private=False)),
                                     _text(lambda: n.as_text(as_private=True)), _text(lambda: n.as_text(as_private=False)),
                                     _text(lambda: repr(n)), _text(wif, raw=True)])
        if k == "subpaths":
            return "ok " + show_list(list(subpaths_for_path_range(h2s(a[1]))), s2h)
        if k in ("bip32_hist", "bip32_hist_fpu"):
            node = mk_node(a[1])
            if k == "bip32_hist_fpu":
                node.fingerprint(is_compressed=False)   # asked first: what a child records is the fingerprint of the compressed key
                node.hash160(is_compressed=False)
            calls = [] if a[2] == "~" else [c.split("/") for c in a[2].split(",")]
            return "ok " + ";".join(item(lambda c=c: node.subkey(i=int(c[0]), is_hardened=c[1] == "1", as_private=opt_bool(c[2])))
                                    for c in calls)
        if k == "bip32_pathhist":
            node = mk_node(a[1])
            paths = [] if a[2] == "~" else [h2s(p) for p in a[2].split(",")]
            return "ok " + ";".join(item(lambda p=p: node.subkey_for_path(p)) for p in paths)
        if k == "bip32_subkeys":
            return "ok " + ";".join(show_node(n) for n in list(mk_node(a[1]).subkeys(h2s(a[2]))))
        if k == "electrum_new":
            return "ok " + show_wallet(wallet_from(a[1]))
        if k == "bip32_override":
            r = mk_node(a[1]).override_network(net(a[2]))
            return "ok %s %s" % (show_node(r), _text(lambda: r.as_text(as_private=r.secret_exponent() is not None)))
        if k == "bip32_ctor":
            kw = dict(chain_code=unhx(a[5]), depth=int(a[2]), parent_fingerprint=unhx(a[3]), child_index=int(a[4]))
            if a[6] != "-":
                kw["secret_exponent"] = int(a[6])
            if a[7] != "-":
                kw["public_pair"] = (None, None) if a[7] == "inf" else tuple(int(t) for t in a[7].split(","))
            return "ok " + show_node(cls_for("btc", int(a[1]))(**kw))
        if k == "bip32_children":
            node = mk_node(a[1])
            return "ok " + ";".join(show_node(c) for c in node.children(max_level=int(a[2]), start_index=int(a[3]), include_hardened=a[4] == "1"))
        if k == "electrum_args":
            kw = {}
            for spec in ([] if a[1] == "~" else a[1].split("+")):
                kk, v = spec.split(":")
                if kk == "seed":
                    kw["initial_key"] = h2s(v)
                elif kk == "prv":
                    kw["master_private_key"] = int(v)
                elif kk == "mpk":
                    kw["master_public_key"] = unhx(v)
                else:
                    kw["public_pair"] = (None, None) if v == "inf" else tuple(int(t) for t in v.split(","))
            cls = type(net("btc").keys.electrum_private(master_private_key=1))
            return "ok " + show_wallet(cls(**kw))
        if k == "electrum_ser":
            return "ok " + hx(wallet_from(a[1]).serialize())
        if k == "electrum_deser":
            cls = type(net("btc").keys.electrum_private(master_private_key=1))
            w = cls.deserialize(unhx(a[1]))
            return "ok none" if w is None else "ok " + show_wallet(w)
        if k == "electrum_subkeys":
            w = wallet_from(a[1])
            for _ in range(int(a[3])):
                w = w.public_copy()
            return "ok " + ";".join(show_wallet(x) for x in w.subkeys(h2s(a[2])))
        if k == "electrum_sfp":
            return "ok " + show_wallet(wallet_from(a[1]).subkey_for_path(h2s(a[2])))
        if k == "electrum_subkey":
            w = wallet_from(a[1])
            if a[3] == "1":
                w = w.public_copy()
            return "ok " + show_wallet(w.subkey(h2s(a[2])))
    except Exception as e:  # noqa: BLE001
        return "err " + type(e).__name__
    return "bad-op"


# ------------------------------------------------------------------ independent reference (oracle only)
# own affine secp256k1 arithmetic (Python ints, pow(x, -1, p)) + hashlib/hmac; nothing from pycoin.

P = 2 ** 256 - 2 ** 32 - 977
N = 0xFFFFFFFFFFFFFFFFFFFFFFFFFFFFFFFEBAAEDCE6AF48A03BBFD25E8CD0364141
G = (0x79BE667EF9DCBBAC55A06295CE870B07029BFCDB2DCE28D959F2815B16F81798,
     0x483ADA7726A3C4655DA4FBFC0E1108A8FD17B448A68554199C47D08FFB10D4B8)


def ec_add(a, b):
    if a is None:
        return b
    if b is None:
        return a
    if a[0] == b[0]:
        if (a[1] + b[1]) % P == 0:
            return None
        lam = 3 * a[0] * a[0] * pow(2 * a[1], -1, P) % P
    else:
        lam = (b[1] - a[1]) * pow(b[0] - a[0], -1, P) % P
    x = (lam * lam - a[0] - b[0]) % P
    return (x, (lam * (a[0] - x) - a[1]) % P)


def ec_mul(k, pt=G):
    r = None
    while k:
        if k & 1:
            r = ec_add(r, pt)
        pt = ec_add(pt, pt)
        k >>= 1
    return r


def ser_p(pt):
    return bytes([2 + (pt[1] & 1)]) + pt[0].to_bytes(32, "big")


def hash160(b):
    return hashlib.new("ripemd160", hashlib.sha256(b).digest()).digest()


def ref_master(seed):
    i64 = hmac.new(b"Bitcoin seed", seed, hashlib.sha512).digest()
    k = int.from_bytes(i64[:32], "big")
    if k == 0 or k >= N:
        return None
    return dict(depth=0, fp=b"\0\0\0\0", idx=0, cc=i64[32:], k=k, K=ec_mul(k))


def ref_ckd(par, i):
    """BIP32 CKDpriv (when par has k) / CKDpub; i is the full 32-bit child number. None = invalid key per the BIP"""
    ser32 = i.to_bytes(4, "big")
    if i >= 2 ** 31:
        if par["k"] is None:
            return "refused"
        data = b"\0" + par["k"].to_bytes(32, "big") + ser32
    else:
        data = ser_p(par["K"]) + ser32
    i64 = hmac.new(par["cc"], data, hashlib.sha512).digest()
    il = int.from_bytes(i64[:32], "big")
    if il >= N:
        return None
    out = dict(depth=par["depth"] + 1, fp=hash160(ser_p(par["K"]))[:4], idx=i, cc=i64[32:])
    if par["k"] is not None:
        k = (il + par["k"]) % N
        if k == 0:
            return None
        out.update(k=k, K=ec_mul(k))
    else:
        pt = ec_add(ec_mul(il), par["K"])
        if pt is None:
            return None
        out.update(k=None, K=pt)
    return out


def ref_of_token(tok):
    k, depth, fp, idx, cc, se, pp = tok.split(":")
    x, y = pp.split(",")
    return dict(depth=int(depth), fp=unhx(fp), idx=int(idx), cc=unhx(cc), k=None if se == "-" else int(se), K=(int(x), int(y)))


def ref_public(n):
    return dict(n, k=None)


def ref_same(a, b):
    return all(a[f] == b[f] for f in ("depth", "fp", "idx", "cc", "k", "K"))


def ref_serialize(n, private):
    head = bytes([n["depth"]]) + n["fp"] + n["idx"].to_bytes(4, "big") + n["cc"]
    return head + (b"\0" + n["k"].to_bytes(32, "big") if private else ser_p(n["K"]))


B58 = "123456789ABCDEFGHJKLMNPQRSTUVWXYZabcdefghijkmnopqrstuvwxyz"


def ref_b58check(b, name):
    """Base58Check under the checksum hash the network module `name` is documented to use"""
    b = b + grsenv.HASHES[grsenv.hash_kind(name)](b)[:4]
    v = int.from_bytes(b, "big")
    s = ""
    while v:
        v, r = divmod(v, 58)
        s = B58[r] + s
    return "1" * (len(b) - len(b.lstrip(b"\0"))) + s


def _b58check_payload(text, name):
    v = 0
    for ch in text:
        i = B58.find(ch)
        if i < 0:
            return None
        v = v * 58 + i
    raw = b"\0" * (len(text) - len(text.lstrip("1"))) + v.to_bytes((v.bit_length() + 7) // 8, "big")
    if len(raw) < 4 or grsenv.HASHES[grsenv.hash_kind(name)](raw[:-4])[:4] != raw[-4:]:
        return None
    return raw[:-4]


BECH = "qpzry9x8gf2tvdw0s3jn54khce6mua7l"


def ref_segwit_v0(hrp, prog):
    """BIP173 encoder, version 0 (own implementation, oracle only)"""
    def polymod(values):
        gen = [0x3B6A57B2, 0x26508E6D, 0x1EA119FA, 0x3D4233DD, 0x2A1462B3]
        chk = 1
        for v in values:
            b = chk >> 25
            chk = (chk & 0x1FFFFFF) << 5 ^ v
            for i in range(5):
                chk ^= gen[i] if ((b >> i) & 1) else 0
        return chk
    acc, bits, data = 0, 0, [0]
    for byte in prog:
        acc = (acc << 8) | byte
        bits += 8
        while bits >= 5:
            bits -= 5
            data.append((acc >> bits) & 31)
    if bits:
        data.append((acc << (5 - bits)) & 31)
    hrpx = [ord(ch) >> 5 for ch in hrp] + [0] + [ord(ch) & 31 for ch in hrp]
    pm = polymod(hrpx + data + [0] * 6) ^ 1
    return hrp + "1" + "".join(BECH[d] for d in data + [(pm >> 5 * (5 - i)) & 31 for i in range(6)])


STEP_RE = re.compile(r"^(\d+)(['pH]?)$")


def ref_path(root, path):
    """plain-grammar paths only (digits with an optional hardening mark, '/' separated, optional .pub); None = outside the grammar"""
    force_pub = path.endswith(".pub")
    if force_pub:
        path = path[:-4]
    n = root
    if path:
        for v in path.split("/"):
            m = STEP_RE.match(v)
            if not m or int(m.group(1)) >= 2 ** 31:
                return None
            n = ref_ckd(n, int(m.group(1)) + (2 ** 31 if m.group(2) else 0))
            if n is None or n == "refused":
                return n
    return ref_public(n) if force_pub else n


def ref_subpaths(text):
    """the documented behaviour: comma lists and a-b ranges per component, hardening mark normalised to H, ordered product"""
    if text == "":
        return [""]
    pools = []
    for comp in text.split("/"):
        pool = []
        for r in comp.split(","):
            m = re.match(r"^(\d+)(?:-(\d+))?(['pH]?)$", r)
            if not m:
                return None
            h = "H" if m.group(3) else ""
            if m.group(2) is None:
                pool.append(m.group(1) + h)
            else:
                pool.extend("%d%s" % (t, h) for t in range(int(m.group(1)), int(m.group(2)) + 1))
        pools.append(pool)
    return ["/".join(t) for t in itertools.product(*pools)]


# BIP32 test vectors 1-3 (from the BIP text): seed hex -> {path: (xpub, xprv)}
VECTORS = {
    "000102030405060708090a0b0c0d0e0f": {
        "": ("xpub661MyMwAqRbcFtXgS5sYJABqqG9YLmC4Q1Rdap9gSE8NqtwybGhePY2gZ29ESFjqJoCu1Rupje8YtGqsefD265TMg7usUDFdp6W1EGMcet8",
             "xprv9s21ZrQH143K3QTDL4LXw2F7HEK3wJUD2nW2nRk4stbPy6cq3jPPqjiChkVvvNKmPGJxWUtg6LnF5kejMRNNU3TGtRBeJgk33yuGBxrMPHi"),
        "0H": ("xpub68Gmy5EdvgibQVfPdqkBBCHxA5htiqg55crXYuXoQRKfDBFA1WEjWgP6LHhwBZeNK1VTsfTFUHCdrfp1bgwQ9xv5ski8PX9rL2dZXvgGDnw",
               "xprv9uHRZZhk6KAJC1avXpDAp4MDc3sQKNxDiPvvkX8Br5ngLNv1TxvUxt4cV1rGL5hj6KCesnDYUhd7oWgT11eZG7XnxHrnYeSvkzY7d2bhkJ7"),
        "0H/1": ("xpub6ASuArnXKPbfEwhqN6e3mwBcDTgzisQN1wXN9BJcM47sSikHjJf3UFHKkNAWbWMiGj7Wf5uMash7SyYq527Hqck2AxYysAA7xmALppuCkwQ",
                 "xprv9wTYmMFdV23N2TdNG573QoEsfRrWKQgWeibmLntzniatZvR9BmLnvSxqu53Kw1UmYPxLgboyZQaXwTCg8MSY3H2EU4pWcQDnRnrVA1xe8fs"),
        "0H/1/2H": ("xpub6D4BDPcP2GT577Vvch3R8wDkScZWzQzMMUm3PWbmWvVJrZwQY4VUNgqFJPMM3No2dFDFGTsxxpG5uJh7n7epu4trkrX7x7DogT5Uv6fcLW5",
                    "xprv9z4pot5VBttmtdRTWfWQmoH1taj2axGVzFqSb8C9xaxKymcFzXBDptWmT7FwuEzG3ryjH4ktypQSAewRiNMjANTtpgP4mLTj34bhnZX7UiM"),
        "0H/1/2H/2": ("xpub6FHa3pjLCk84BayeJxFW2SP4XRrFd1JYnxeLeU8EqN3vDfZmbqBqaGJAyiLjTAwm6ZLRQUMv1ZACTj37sR62cfN7fe5JnJ7dh8zL4fiyLHV",
                      "xprvA2JDeKCSNNZky6uBCviVfJSKyQ1mDYahRjijr5idH2WwLsEd4Hsb2Tyh8RfQMuPh7f7RtyzTtdrbdqqsunu5Mm3wDvUAKRHSC34sJ7in334"),
        "0H/1/2H/2/1000000000": ("xpub6H1LXWLaKsWFhvm6RVpEL9P4KfRZSW7abD2ttkWP3SSQvnyA8FSVqNTEcYFgJS2UaFcxupHiYkro49S8yGasTvXEYBVPamhGW6cFJodrTHy",
                                 "xprvA41z7zogVVwxVSgdKUHDy1SKmdb533PjDz7J6N6mV6uS3ze1ai8FHa8kmHScGpWmj4WggLyQjgPie1rFSruoUihUZREPSL39UNdE3BBDu76"),
    },
    "fffcf9f6f3f0edeae7e4e1dedbd8d5d2cfccc9c6c3c0bdbab7b4b1aeaba8a5a29f9c999693908d8a8784817e7b7875726f6c696663605d5a5754514e4b484542": {
        "": ("xpub661MyMwAqRbcFW31YEwpkMuc5THy2PSt5bDMsktWQcFF8syAmRUapSCGu8ED9W6oDMSgv6Zz8idoc4a6mr8BDzTJY47LJhkJ8UB7WEGuduB",
             "xprv9s21ZrQH143K31xYSDQpPDxsXRTUcvj2iNHm5NUtrGiGG5e2DtALGdso3pGz6ssrdK4PFmM8NSpSBHNqPqm55Qn3LqFtT2emdEXVYsCzC2U"),
        "0": ("xpub69H7F5d8KSRgmmdJg2KhpAK8SR3DjMwAdkxj3ZuxV27CprR9LgpeyGmXUbC6wb7ERfvrnKZjXoUmmDznezpbZb7ap6r1D3tgFxHmwMkQTPH",
              "xprv9vHkqa6EV4sPZHYqZznhT2NPtPCjKuDKGY38FBWLvgaDx45zo9WQRUT3dKYnjwih2yJD9mkrocEZXo1ex8G81dwSM1fwqWpWkeS3v86pgKt"),
        "0/2147483647H": ("xpub6ASAVgeehLbnwdqV6UKMHVzgqAG8Gr6riv3Fxxpj8ksbH9ebxaEyBLZ85ySDhKiLDBrQSARLq1uNRts8RuJiHjaDMBU4Zn9h8LZNnBC5y4a",
                          "xprv9wSp6B7kry3Vj9m1zSnLvN3xH8RdsPP1Mh7fAaR7aRLcQMKTR2vidYEeEg2mUCTAwCd6vnxVrcjfy2kRgVsFawNzmjuHc2YmYRmagcEPdU9"),
        "0/2147483647H/1": ("xpub6DF8uhdarytz3FWdA8TvFSvvAh8dP3283MY7p2V4SeE2wyWmG5mg5EwVvmdMVCQcoNJxGoWaU9DCWh89LojfZ537wTfunKau47EL2dhHKon",
                            "xprv9zFnWC6h2cLgpmSA46vutJzBcfJ8yaJGg8cX1e5StJh45BBciYTRXSd25UEPVuesF9yog62tGAQtHjXajPPdbRCHuWS6T8XA2ECKADdw4Ef"),
        "0/2147483647H/1/2147483646H": ("xpub6ERApfZwUNrhLCkDtcHTcxd75RbzS1ed54G1LkBUHQVHQKqhMkhgbmJbZRkrgZw4koxb5JaHWkY4ALHY2grBGRjaDMzQLcgJvLJuZZvRcEL",
                                        "xprvA1RpRA33e1JQ7ifknakTFpgNXPmW2YvmhqLQYMmrj4xJXXWYpDPS3xz7iAxn8L39njGVyuoseXzU6rcxFLJ8HFsTjSyQbLYnMpCqE2VbFWc"),
        "0/2147483647H/1/2147483646H/2": ("xpub6FnCn6nSzZAw5Tw7cgR9bi15UV96gLZhjDstkXXxvCLsUXBGXPdSnLFbdpq8p9HmGsApME5hQTZ3emM2rnY5agb9rXpVGyy3bdW6EEgAtqt",
                                          "xprvA2nrNbFZABcdryreWet9Ea4LvTJcGsqrMzxHx98MMrotbir7yrKCEXw7nadnHM8Dq38EGfSh6dqA9QWTyefMLEcBYJUuekgW4BYPJcr9E7j"),
    },
    "4b381541583be4423346c643850da4b320e46a87ae3d2a4e6da11eba819cd4acba45d239319ac14f863b8d5ab5a0d0c64d2e8a1e7d1457df2e5a3c51c73235be": {
        "": ("xpub661MyMwAqRbcEZVB4dScxMAdx6d4nFc9nvyvH3v4gJL378CSRZiYmhRoP7mBy6gSPSCYk6SzXPTf3ND1cZAceL7SfJ1Z3GC8vBgp2epUt13",
             "xprv9s21ZrQH143K25QhxbucbDDuQ4naNntJRi4KUfWT7xo4EKsHt2QJDu7KXp1A3u7Bi1j8ph3EGsZ9Xvz9dGuVrtHHs7pXeTzjuxBrCmmhgC6"),
        "0H": ("xpub68NZiKmJWnxxS6aaHmn81bvJeTESw724CRDs6HbuccFQN9Ku14VQrADWgqbhhTHBaohPX4CjNLf9fq9MYo6oDaPPLPxSb7gwQN3ih19Zm4Y",
               "xprv9uPDJpEQgRQfDcW7BkF7eTya6RPxXeJCqCJGHuCJ4GiRVLzkTXBAJMu2qaMWPrS7AANYqdq6vcBcBUdJCVVFceUvJFjaPdGZ2y9WACViL4L"),
    },
}


# BIP84 / BIP49 test vectors: BIP39 seed of "abandon abandon ... about" (empty passphrase)
BIP39_SEED = "5eb00bbddcf069084889a8ab9155568165f5c453ccb85e70811aaed6f6da5fc19a5ac40b389cd370d086206dec8aa6c43daea6690f20ad3d8d48b2d2ce9e38e4"
ADDRESS_VECTORS = {
    ("btc", 84, "84H/0H/0H/0/0"): "bc1qcr8te4kr609gcawutmrza0j4xv80jy8z306fyu",
    ("btc", 84, "84H/0H/0H/0/1"): "bc1qnjg0jd8228aq7egyzacy8cys3knf9xvrerkf9g",
    ("btc", 84, "84H/0H/0H/1/0"): "bc1q8c6fshw2dlwun7ekn9qwf37cu2rn755upcp6el",
    ("xtn", 49, "49H/1H/0H/0/0"): "2Mww8dCYPUpKHofjgcXcBCEGmniw9CoaiD2",
}


def _request_token(tok):
    t = tok.split(":")
    return ":".join(t[:5]) + (":s" + t[5] if t[5] != "-" else ":p" + t[6])


# ------------------------------------------------------------------ oracle: the property on the implementation alone

def _check_node(tok, want, what):
    got = ref_of_token(tok)
    for f in ("depth", "fp", "idx", "cc", "k", "K"):
        if got[f] != want[f]:
            return "%s: field %s differs from the BIP32 reference" % (what, {"fp": "parent_fingerprint", "idx": "child_index", "cc": "chain_code",
                                                                            "k": "secret_exponent", "K": "public_pair", "depth": "depth"}[f])
    return None


def oracle(op: str, out: str):
    a = op.split(" ")
    k = a[0]
    if k == "c09pure":
        # both arithmetic configurations must give the same answer
        other = impl(" ".join(a[1:]))
        return None if other == out else "pure-Python and OpenSSL configurations disagree: %s" % other[:120]
    if k == "bip32_master" and out.startswith("ok "):
        want = ref_master(unhx(a[2]))
        if want is None:
            return "master key produced although I_L is 0 or >= n"
        return _check_node(out[3:], want, "master")
    if k == "bip32_ckd":
        par_tok = impl("bip32_node " + a[1])
        if not par_tok.startswith("ok "):
            return None
        par = ref_of_token(par_tok[3:])
        i, hard, priv = int(a[2]), a[3] == "1", opt_bool(a[4])
        if not 0 <= i < 2 ** 31:
            return None if out == "err ValueError" else "index outside 0..2^31-1 not refused with ValueError"
        want = ref_ckd(par, i + (2 ** 31 if hard else 0))
        if want == "refused":
            return None if out == "err PublicPrivateMismatchError" else "hardened derivation from a public-only node not refused"
        if want is None:
            return None  # BIP: invalid key, proceed with the next index (never reached with real HMAC outputs)
        if priv is None:
            priv = par["k"] is not None
        if not priv:
            want = ref_public(want)
        if not out.startswith("ok "):
            return "derivation raised %s" % out
        why = _check_node(out[3:], want, "child")
        if why:
            return why
        # going public commutes with non-hardened derivation
        if par["k"] is not None and not hard:
            pub = impl("bip32_pubcopy " + a[1])
            if pub.startswith("ok "):
                tok = pub[3:].split(":")
                pub_tok = ":".join(tok[:5]) + ":p" + tok[6]
                r = impl("bip32_ckd %s %d 0 n" % (pub_tok, i))
                if not r.startswith("ok "):
                    return "public derivation raised %s where the private one succeeded" % r
                why = _check_node(r[3:], ref_public(want), "child of the public copy")
                if why:
                    return "public and private derivation do not commute: " + why
    if k == "bip32_path":
        name, kind, seedh, path, pub_first = a[1], int(a[2]), a[3], h2s(a[4]), a[5] == "1"
        root = ref_master(unhx(seedh))
        if root is None:
            return None
        if pub_first:
            root = ref_public(root)
        want = ref_path(root, path)
        if want is None:
            return None
        if want == "refused":
            return None if out == "err PublicPrivateMismatchError" else "hardened derivation from a public-only node not refused"
        if not out.startswith("ok "):
            return "path derivation raised %s" % out
        tok, tprv, tpub = out[3:].split(" ")
        why = _check_node(tok, want, "node at path")
        if why:
            return why
        if kinds_of(name).count(kind):
            pp = net(name).parse
            pub_pfx = getattr(pp, "_bip%d_pub_prefix" % kind)
            prv_pfx = getattr(pp, "_bip%d_prv_prefix" % kind)
            if want["depth"] <= 255:
                if tpub != s2h(ref_b58check(pub_pfx + ref_serialize(want, False), name)):
                    return "public text form differs from BIP32 serialisation"
                if want["k"] is not None and tprv != s2h(ref_b58check(prv_pfx + ref_serialize(want, True), name)):
                    return "private text form differs from BIP32 serialisation"
                if want["k"] is None and tprv != "!PublicPrivateMismatchError":
                    return "private text form of a public node not refused"
        if name == "btc" and kind == 32 and not pub_first and seedh in VECTORS:
            norm = path.replace("'", "H").replace("p", "H")
            if norm in VECTORS[seedh]:
                xpub, xprv = VECTORS[seedh][norm]
                if tpub != s2h(xpub) or tprv != s2h(xprv):
                    return "BIP32 test vector not reproduced"
        # commutation along the whole path
        if not pub_first and not any(c in path for c in "'pH") and not path.endswith(".pub"):
            r = impl(" ".join(a[:5] + ["1"]))
            if not r.startswith("ok "):
                return "public derivation along a non-hardened path raised %s" % r
            tok2, _p2, tpub2 = r[3:].split(" ")
            if _check_node(tok2, ref_public(want), "x") or tpub2 != tpub:
                return "deriving from the public copy does not give the public half of the private derivation"
    if k == "bip32_ckdraw0":
        x, y = ec_mul(int(a[1]))
        if out != impl("bip32_ckdraw %d %s %s %s %s %d,%d" % (N, a[1], a[2], a[3], a[4], x, y)):
            return "private derivation without the public pair differs from the one given the pair secret*G"
    if k == "bip32_ckdraw" and out.startswith("ok "):
        n, se, cc, i, hard = int(a[1]), int(a[2]), unhx(a[3]), int(a[4]), a[5] == "1"
        x, y = (int(t) for t in a[6].split(","))
        if 0 <= i < 2 ** 32 and 0 <= se < 2 ** 256:
            ser32 = i.to_bytes(4, "big")
            data = (b"\0" + se.to_bytes(32, "big") if hard else ser_p((x, y))) + ser32
            for _ in range(200):
                i64 = hmac.new(cc, data, hashlib.sha512).digest()
                il = int.from_bytes(i64[:32], "big")
                if il < n and (il + se) % n != 0:
                    break
                data = b"\1" + i64[32:] + ser32
            if out != "ok %d %s" % ((il + se) % n, hx(i64[32:])):
                return "child exponent / chain code is not that of the first HMAC output with I_L < n and a non-zero child"
    if k == "bip32_ckdpubraw" and out.startswith("ok "):
        n, cc, i = int(a[1]), unhx(a[3]), int(a[4])
        x, y = (int(t) for t in a[2].split(","))
        if 0 <= i < 2 ** 31:
            i64 = hmac.new(cc, ser_p((x, y)) + i.to_bytes(4, "big"), hashlib.sha512).digest()
            want = ec_add(ec_mul(int.from_bytes(i64[:32], "big") % n), (x, y))
            if want is not None and out != "ok %d,%d %s" % (want[0], want[1], hx(i64[32:])):
                return "public child is not (I_L mod n)*G + K with chain code I_R"
    if k == "bip32_fam" and out.startswith("ok "):
        return _fam_oracle(a, out)
    if k == "bip32_texts" and out.startswith("ok "):
        return _texts_oracle(a, out)
    if k == "bip32_spec" and out.startswith("ok "):
        name, kind, seedh, pub_first = a[1], int(a[2]), a[3], a[5] == "1"
        idxs = [] if a[4] == "~" else [int(x) for x in a[4].split(",")]
        norm = "/".join("%d%s" % (i & 0x7FFFFFFF, "H" if i >> 31 else "") for i in idxs)
        tprv, tpub = out[3:].split(" ")
        if name == "btc" and kind == 32 and seedh in VECTORS and norm in VECTORS[seedh]:
            xpub, xprv = VECTORS[seedh][norm]
            if tpub != s2h(xpub) or (not pub_first and tprv != s2h(xprv)):
                return "BIP32 test vector not reproduced"
    if k == "bip32_nodepath":
        path = h2s(a[2])
        # spellings: H, p and ' are interchangeable
        body, suffix = (path[:-4], ".pub") if path.endswith(".pub") else (path, "")
        for ch in "Hp'":
            alt = "/".join(re.sub(r"['pH]$", ch, v) for v in body.split("/")) + suffix
            if alt != path:
                r = impl("bip32_nodepath %s %s" % (a[1], s2h(alt)))
                if r != out:
                    return "path spelling %r gives a different answer from %r" % (alt, path)
        par_tok = impl("bip32_node " + a[1])
        if par_tok.startswith("ok "):
            want = ref_path(ref_of_token(par_tok[3:]), path)
            if want == "refused":
                return None if out == "err PublicPrivateMismatchError" else "hardened derivation from a public-only node not refused"
            if want is not None:
                if not out.startswith("ok "):
                    return "path derivation raised %s" % out
                return _check_node(out[3:], want, "node at path")
    if k == "bip32_ser" and out.startswith("ok "):
        par_tok = impl("bip32_node " + a[1])
        n = ref_of_token(par_tok[3:])
        priv = opt_bool(a[2])
        if priv is None:
            priv = n["k"] is not None
        blob = unhx(out[3:])
        if len(blob) != 74:
            return "serialisation is not 74 bytes"
        if n["depth"] <= 255 and n["idx"] < 2 ** 32 and blob != ref_serialize(n, priv):
            return "serialisation differs from the BIP32 layout"
        back = impl("bip32_deser %s %s" % (a[1].split(":")[0], hx(b"\0\0\0\0" + blob)))
        want = n if priv else ref_public(n)
        if not back.startswith("ok ") or _check_node(back[3:], want, "x"):
            return "deserialize(serialize(node)) does not preserve every field"
    if k == "hwif" and out.startswith("ok "):
        name, kind = a[1], int(a[2].split(":")[0])
        text = h2s(out[3:])
        par_tok = impl("bip32_node " + a[2])
        n = ref_of_token(par_tok[3:])
        want = n if a[3] == "1" else ref_public(n)
        back = impl("hparse %s %d %s" % (name, kind, out[3:]))
        if not back.startswith("ok "):
            return "text form does not parse back on its own network (%s)" % back
        one = getattr(net(name).parse, "bip%d_%s" % (kind, "prv" if a[3] == "1" else "pub"))(text)
        if one is None or show_node(one) != back[3:].split(" ")[0]:
            return "hwif(as_private=%s) is not accepted by parse.bip%d_%s as the same node" % (a[3] == "1", kind, "prv" if a[3] == "1" else "pub")
        back_node, back_text = back[3:].split(" ")
        if _check_node(back_node, want, "x") or int(back_node.split(":")[0]) != kind:
            return "text round trip does not preserve every field"
        if back_text != out[3:]:
            return "as_text() of the parsed node is not the text it was parsed from"
        tok = back_node.split(":")
        again = impl("hwif %s %s %s" % (name, ":".join(tok[:5]) + (":s" + tok[5] if tok[5] != "-" else ":p" + tok[6]), a[3]))
        if again != out:
            return "parse followed by hwif does not reproduce the text"
        if not 111 <= len(text) <= 112:
            return "extended-key text is not 111 or 112 characters"
        # the other prefix kinds of the same network must not accept it as their own
        for other in kinds_of(name):
            if other != kind and impl("hparse %s %d %s" % (name, other, out[3:])) != "none":
                pfx = lambda kk: (getattr(net(name).parse, "_bip%d_prv_prefix" % kk), getattr(net(name).parse, "_bip%d_pub_prefix" % kk))  # noqa: E731
                if set(pfx(other)) & set(pfx(kind)):
                    continue  # the network gives two kinds the same prefix (LTC bip84 = BTC bip84 is fine; same-network clash is table business)
                return "text of kind bip%d also parses as bip%d" % (kind, other)
    if k == "bip32_address" and out.startswith("ok "):
        name, kind = a[1], int(a[2].split(":")[0])
        par_tok = impl("bip32_node " + a[2])
        n = ref_of_token(par_tok[3:])
        h = hash160(ser_p(n["K"]))
        aa = net(name).address
        if kind == 32:
            want = ref_b58check(aa._address_prefix + h, name) if aa._address_prefix is not None else None
        elif kind == 49:
            want = ref_b58check(aa._pay_to_script_prefix + hash160(b"\x00\x14" + h), name) if aa._pay_to_script_prefix is not None else None
        else:
            want = ref_segwit_v0(aa._bech32_hrp, h) if aa._bech32_hrp is not None else None
        if want is not None and out != "ok " + s2h(want):
            return "address is not the %s form of the node's key" % {32: "p2pkh", 49: "p2sh-p2wpkh (BIP49)", 84: "p2wpkh (BIP84)"}[kind]
    if k == "bip32_path" and out.startswith("ok ") and a[3] == BIP39_SEED and a[5] == "0":
        vec = ADDRESS_VECTORS.get((a[1], int(a[2]), h2s(a[4]).replace("'", "H").replace("p", "H")))
        if vec:
            got = impl("bip32_address %s %s" % (a[1], _request_token(out[3:].split(" ")[0])))
            if got != "ok " + s2h(vec):
                return "BIP49/BIP84 test vector address not reproduced: %s" % got
    if k == "hparse":
        if out.startswith("err "):
            return "parser raised %s instead of returning None" % out[4:]
        if out.startswith("ok "):
            name, kind = a[1], int(a[2])
            tok = out[3:].split(" ")[0].split(":")
            priv = tok[5] != "-"
            data = _b58check_payload(h2s(a[3]), name)
            if data is None:
                return "a text that is not Base58Check under the network's checksum hash is accepted as an extended key"
            marker_private = data is not None and data[:4] == getattr(net(name).parse, "_bip%d_prv_prefix" % kind)
            if marker_private != priv:
                # private version bytes over a public key field (or the reverse) are accepted and re-serialise differently:
                # strictness of the parser is C18's clause (known finding extkey-version-marker-mismatch there), not C09's
                return None
            again = impl("hwif %s %s %d" % (name, ":".join(tok[:5]) + (":s" + tok[5] if priv else ":p" + tok[6]), 1 if priv else 0))
            if again != "ok " + a[3]:
                return "accepted text is not the text form of the node it parsed to"
    if k == "subpaths":
        want = ref_subpaths(h2s(a[1]))
        if want is not None:
            if out != "ok " + show_list(want, s2h):
                return "range expansion is not the ordered cartesian product"
    if k in ("bip32_hist", "bip32_hist_fpu") and out.startswith("ok "):
        calls = [] if a[2] == "~" else a[2].split(",")
        answers = out[3:].split(";") if calls else []
        for c, ans in zip(calls, answers):
            i, h, p = c.split("/")
            fresh = impl("bip32_ckd %s %s %s %s" % (a[1], i, h, p))
            fresh = fresh[3:] if fresh.startswith("ok ") else "!" + fresh[4:]
            if fresh != ans:
                return "answer for subkey(%s) in a history differs from a fresh node's answer" % c
    if k == "bip32_pathhist" and out.startswith("ok "):
        paths = [] if a[2] == "~" else a[2].split(",")
        answers = out[3:].split(";") if paths else []
        for p, ans in zip(paths, answers):
            fresh = impl("bip32_nodepath %s %s" % (a[1], p))
            fresh = fresh[3:] if fresh.startswith("ok ") else "!" + fresh[4:]
            if fresh != ans:
                return "answer for subkey_for_path in a history differs from a fresh node's answer"
    if k == "bip32_subkeys" and out.startswith("ok "):
        want = ref_subpaths(h2s(a[2]))
        if want is not None:
            got = out[3:].split(";") if out != "ok " else []
            exp = []
            for p in want:
                r = impl("bip32_nodepath %s %s" % (a[1], s2h(p)))
                if not r.startswith("ok "):
                    return None
                exp.append(r[3:])
            if got != exp:
                return "subkeys(range) is not subkey_for_path over the expanded range"
    if k == "bip32_override" and out.startswith("ok "):
        src = impl("bip32_node " + a[1])
        got_node, got_text = out[3:].split(" ")
        if src.startswith("ok ") and got_node.split(":")[1:] != src[3:].split(":")[1:]:
            return "override_network changed a field of the node"
        if got_node.split(":")[0] != "32":
            return "override_network did not build a BIP32 node of the other network"
        if not got_text.startswith("!"):
            back = impl("hparse %s 32 %s" % (a[2], got_text))
            if not back.startswith("ok ") or back[3:].split(" ")[0] != got_node:
                return "the text of the overridden node does not parse back to it on the other network"
    if k == "bip32_ctor" and out.startswith("ok ") and (a[6] == "-") == (a[7] == "-"):
        return "BIP32Node built with %s of secret_exponent / public_pair" % ("neither" if a[6] == "-" else "both")
    if k == "bip32_children" and out.startswith("ok "):
        got = out[3:].split(";") if out[3:] else []
        want = []
        for i in range(int(a[3]), int(a[2]) + int(a[3]) + 1):
            for h in ("0", "1") if a[4] == "1" else ("0",):
                r = impl("bip32_ckd %s %d %s n" % (a[1], i, h))
                want.append(r[3:] if r.startswith("ok ") else r)
        if got != want:
            return "children() is not subkey(i) [, subkey(i, hardened)] for i = start .. start + max_level"
    if k == "electrum_sfp":
        if out != impl("electrum_subkey %s %s 0" % (a[1], a[2])):
            return "electrum: subkey_for_path(path) differs from subkey(path)"
    if k == "electrum_args" and out.startswith("ok "):
        if a[1] == "~" or "+" in a[1]:
            return "ElectrumWallet built from %s arguments" % ("no" if a[1] == "~" else "several")
    if k == "electrum_ser" and out.startswith("ok "):
        w = impl("electrum_new " + a[1])
        back = impl("electrum_deser " + out[3:])
        if w.startswith("ok ") and back != w:
            return "electrum: deserialize(serialize(w)) is not w"
        se = w[3:].split(" ")[0] if w.startswith("ok ") else "-"
        if se not in ("-", "0") and unhx(out[3:]) != int(se).to_bytes(32, "big"):
            return "electrum: a private wallet does not serialise to the 32 bytes of its exponent"
    if k == "electrum_deser" and out.startswith("ok ") and out != "ok none":
        if len(unhx(a[1])) not in (32, 64):
            return "electrum: deserialize accepted a blob that is neither 32 nor 64 bytes"
    if k == "electrum_subkeys" and out.startswith("ok ") and a[3] != "0":
        # commutation over a whole range: the public copy (taken once or twice) derives the public halves
        r = impl("electrum_subkeys %s %s 0" % (a[1], a[2]))
        if r.startswith("ok "):
            pub = [" ".join(["-"] + x.split(" ")[1:]) for x in r[3:].split(";")] if r[3:] else []
            if (out[3:].split(";") if out[3:] else []) != pub:
                return "electrum: subkeys(range) of the public copy are not the public halves of the private subkeys"
    if k == "electrum_subkeys" and out.startswith("ok ") and a[3] == "0":
        exp = []
        for p in subpaths_for_path_range(h2s(a[2]), hardening_chars="'pH"):
            r = impl("electrum_subkey %s %s 0" % (a[1], s2h(p)))
            if not r.startswith("ok "):
                exp = None
                break
            exp.append(r[3:])
        if exp and out[3:].split(";") != exp:
            return "electrum: subkeys(range) is not subkey over the expanded range"
    if k == "electrum_subkey" and out.startswith("err ") and a[3] == "0" and a[1].startswith("prv:") and len(h2s(a[2]).split("/")) in (1, 2):
        if impl("electrum_new " + a[1]).startswith("ok ") and impl("electrum_subkey %s %s 1" % (a[1], a[2])).startswith("ok "):
            return "electrum: private derivation raised %s where the derivation from the public copy succeeds" % out[4:]
    if k == "electrum_subkey" and out.startswith("ok ") and a[3] == "0" and not a[1].startswith(("pub:", "mpk:")):
        r = impl("electrum_subkey %s %s 1" % (a[1], a[2]))
        se, pp, mpk = out[3:].split(" ")
        if not r.startswith("ok "):
            return "electrum public derivation raised %s where the private one succeeded" % r
        se2, pp2, mpk2 = r[3:].split(" ")
        if se2 != "-" or pp2 != pp or mpk2 != mpk:
            return "electrum: deriving from the public copy does not give the public half of the private derivation"
        x, y = pp.split(",")
        if ec_mul(int(se)) != (int(x), int(y)):
            return "electrum: public pair is not secret * G"
    if k == "electrum_subkey" and out.startswith("ok "):
        w = impl("electrum_new " + a[1])
        if w.startswith("ok "):
            se0, pp0, mpk0 = w[3:].split(" ")
            path = h2s(a[2]).split("/")
            if len(path) in (1, 2):
                nn, fc = (path + ["0"])[:2]
                b = (nn + ":" + fc + ":").encode("utf8") + unhx(mpk0)
                off = int.from_bytes(hashlib.sha256(hashlib.sha256(b).digest()).digest(), "big")
                x0, y0 = (int(t) for t in pp0.split(","))
                want = ec_add(ec_mul(off % N), (x0, y0))
                x, y = out[3:].split(" ")[1].split(",")
                if want != (int(x), int(y)):
                    return "electrum subkey is not offset*G + master public key"
    return None


def _ref_text(name, kind, n, private):
    pfx = getattr(net(name).parse, "_bip%d_%s_prefix" % (kind, "prv" if private else "pub"))
    if pfx is None or n["depth"] > 255:
        return None
    return ref_b58check(pfx + ref_serialize(n, private), name)


def _fam_oracle(a, out):
    """each answer of a history over the family equals a fresh derivation from the root (BIP32 reference), a hardened child of a
    public-only object is refused, and no object whose lineage passed through public_copy()/a public object exposes a secret"""
    name, kind = a[1], int(a[2].split(":")[0])
    root = impl("bip32_node " + a[2])
    if not root.startswith("ok "):
        return None
    exp = [ref_of_token(root[3:])]
    steps = [] if a[3] == "~" else a[3].split(",")
    answers = out[3:].split(";") if steps else []
    for st, ans in zip(steps, answers):
        parts = st[1:].split("/")
        r = int(parts[0])
        src = exp[r] if r < len(exp) else None
        if src is None:
            exp.append(None)
            continue
        want = None
        if st[0] == "c":
            want = ref_public(src)
        elif st[0] == "s":
            i, hard, priv = int(parts[1]), parts[2] == "1", opt_bool(parts[3])
            if not 0 <= i < 2 ** 31:
                want = "!ValueError"
            else:
                w = ref_ckd(src, i + (2 ** 31 if hard else 0))
                if w == "refused":
                    want = "!PublicPrivateMismatchError"
                elif w is not None:
                    if priv is None:
                        priv = src["k"] is not None
                    want = w if priv else ref_public(w)
        else:
            w = ref_path(src, h2s(parts[1]))
            if w == "refused":
                want = "!PublicPrivateMismatchError"
            elif w is not None:
                want = w
        if ans.startswith("!"):
            if isinstance(want, dict):
                return "step %s raised %s where a fresh derivation from the root succeeds" % (st, ans[1:])
            if isinstance(want, str) and want != ans:
                return "step %s raised %s, expected %s" % (st, ans[1:], want[1:])
            exp.append(None)
            continue
        tok, text, rep = ans.split("|")
        got = ref_of_token(tok)
        if src["k"] is None and got["k"] is not None:
            return "step %s: a public-only object yielded a node carrying a secret exponent" % st
        if want == "!PublicPrivateMismatchError":
            return "step %s: hardened derivation from a public-only object not refused" % st
        if isinstance(want, str):
            return "step %s succeeded, expected %s" % (st, want[1:])
        if isinstance(want, dict):
            why = _check_node(tok, want, "step %s" % st)
            if why:
                return why + " (fresh derivation from the root)"
        if int(tok.split(":")[0]) != kind:
            return "step %s: the class of the node changed" % st
        if kind in kinds_of(name):
            t = _ref_text(name, kind, got, got["k"] is not None)
            if t is not None and text != s2h(t):
                return "step %s: as_text() is not the BIP32 serialisation with this class's prefix" % st
            tp = _ref_text(name, kind, got, False)
            if tp is not None and rep != s2h(("private_for <%s>" if got["k"] is not None else "<%s>") % tp):
                return "step %s: repr() does not embed the public text form of this class" % st
        exp.append(got)
    return None


def _texts_oracle(a, out):
    """every text accessor: text -> parse -> same class, same fields, same address kind"""
    name, kind = a[1], int(a[2].split(":")[0])
    if kind not in kinds_of(name):
        return None
    root = impl("bip32_node " + a[2])
    if not root.startswith("ok "):
        return None
    n = ref_of_token(root[3:])
    hw1, hw0, at1, at0, rep, wif = out[3:].split("|")
    node = mk_node(a[2], name)
    for label, text, private in (("hwif(as_private=True)", hw1, True), ("hwif(as_private=False)", hw0, False),
                                 ("as_text(as_private=True)", at1, True), ("as_text(as_private=False)", at0, False), ("repr()", rep, False)):
        if text.startswith("!"):
            if private and n["k"] is None and text == "!PublicPrivateMismatchError":
                continue
            if n["depth"] > 255:
                continue
            return "%s raised %s" % (label, text[1:])
        t = h2s(text)
        if label == "repr()":
            m = re.match(r"^(private_for )?<(.*)>$", t)
            if not m or bool(m.group(1)) != (n["k"] is not None):
                return "repr() does not have the form [private_for ]<text>"
            t = m.group(2)
        want = n if private else ref_public(n)
        hits = []
        for kk in kinds_of(name):
            obj = getattr(net(name).parse, "bip%d" % kk)(t)
            if obj is not None:
                hits.append((kk, obj))
        mine = [o for kk, o in hits if kk == kind]
        if not mine:
            return "%s does not parse back as a bip%d key of its own network (accepted as: %s)" % (label, kind, [kk for kk, _ in hits] or "nothing")
        obj = mine[0]
        if kind_of(obj) != kind or _check_node(show_node(obj), want, "x"):
            return "%s -> parse does not give the same class and fields" % label
        try:
            same_addr = obj.address() == node.address()
        except Exception:  # noqa: BLE001
            same_addr = True
        if not same_addr:
            return "%s -> parse changes the address kind" % label
        others = [kk for kk, _ in hits if kk != kind]
        pp = net(name).parse
        for kk in others:
            if not ({getattr(pp, "_bip%d_prv_prefix" % kk), getattr(pp, "_bip%d_pub_prefix" % kk)} &
                    {getattr(pp, "_bip%d_prv_prefix" % kind), getattr(pp, "_bip%d_pub_prefix" % kind)}):
                return "%s of a bip%d node also parses as bip%d" % (label, kind, kk)
    if n["k"] is not None and not wif.startswith("!"):
        wp = net(name).parse._wif_prefix
        if wp is not None and wif != s2h(ref_b58check(wp + n["k"].to_bytes(32, "big") + b"\x01", name)):
            return "wif() is not the compressed WIF of the node's secret exponent"
    if n["k"] is None and wif != "none":
        return "wif() of a public node is not None"
    return None


def trivial(op: str) -> bool:
    a = op.split(" ")
    if a[0] == "c09pure":
        a = a[1:]
    return a[0] in ("bip32_node",) or (a[0] == "hparse" and len(a[3]) < 100)


def neighbours(op, rng):
    a = op.split(" ")
    if a[0] == "bip32_ckd":
        for i in (0, 1, 2 ** 24 - 1, 2 ** 24, 2 ** 31 - 1, rng.randrange(2 ** 31)):
            for h in "01":
                yield "bip32_ckd %s %d %s %s" % (a[1], i, h, a[4])
    elif a[0] == "bip32_ckdraw":
        for i in (0, 2 ** 24, rng.randrange(2 ** 32)):
            yield " ".join(a[:3] + [hx(bytes(rng.randrange(256) for _ in range(32))), str(i)] + a[5:])
    elif a[0] == "bip32_path":
        for p in ("0", "0H", "1/2", "16777216", "2147483647H/16777215", "0/1/2/3"):
            yield " ".join(a[:4] + [s2h(p), a[5]])
    elif a[0] == "hparse":
        for name in ("btc", "xtn", "ltc"):
            for kind in kinds_of(name):
                yield "hparse %s %d %s" % (name, kind, a[3])
    elif a[0] in ("bip32_fam", "bip32_texts", "bip32_hist", "bip32_hist_fpu", "bip32_pathhist", "bip32_subkeys", "bip32_nodepath", "bip32_ser", "hwif"):
        yield op


# ------------------------------------------------------------------ generators

BOUNDARY_I = [0, 1, 2 ** 24 - 1, 2 ** 24, 2 ** 31 - 1]


def node_tok(kind, depth, fp, idx, cc, se=None, pp=None):
    return "%d:%d:%s:%d:%s:%s" % (kind, depth, hx(fp), idx, hx(cc), ("s%d" % se) if se is not None else "p%d,%d" % pp)


def gen(ctx, emit):
    rng = ctx.rng

    def rb(n):
        return bytes(rng.randrange(256) for _ in range(n))

    def rand_priv_tok(kind=32, depth=None, se=None):
        return node_tok(kind, rng.randrange(0, 5) if depth is None else depth, rb(4), rng.randrange(2 ** 32), rb(32),
                        se=rng.randrange(1, N) if se is None else se)

    def pub_tok_of(tok):
        r = impl("bip32_pubcopy " + tok)
        t = r[3:].split(":")
        return ":".join(t[:5]) + ":p" + t[6]

    # --- BIP32 test vectors 1-3, every listed path, both spellings, private and public roots
    for seedh, paths in VECTORS.items():
        emit("bip32_master 32 " + seedh)
    # master-key generation (C09_master_from_seed) on seeds of every length class: 0, 1, 16, 32, 64, 65 bytes
    # (HMAC-SHA512 pads / hashes keys, not messages: no length is special, which is what is checked), all three kinds
    for ln in (0, 1, 16, 32, 64, 65):
        for _ in range(ctx.n(2, 20)):
            sd = bytes(rng.randrange(256) for _ in range(ln))
            emit("bip32_master %d %s" % (rng.choice([32, 49, 84]), hx(sd) if sd else "-"))
        for p in paths:
            emit("bip32_path btc 32 %s %s 0" % (seedh, s2h(p)))
            if "H" in p:
                emit("bip32_path btc 32 %s %s 0" % (seedh, s2h(p.replace("H", "'"))))
                emit("bip32_path btc 32 %s %s 1" % (seedh, s2h(p)))
            emit("bip32_path btc 32 %s %s 0" % (seedh, s2h(p + ".pub")))
    emit("bip32_path btc 32 000102030405060708090a0b0c0d0e0f %s 1" % s2h("0/1/2"))
    # the specification itself (model side = Spec/BIP32.lean over the executable curve) on the vectors and on random chains
    def idx_list(p):
        return ",".join("%d" % (int(v[:-1]) + 2 ** 31 if v[-1] == "H" else int(v)) for v in p.split("/")) if p else "~"
    for seedh, paths in VECTORS.items():
        for p in paths:
            emit("bip32_spec btc 32 %s %s 0" % (seedh, idx_list(p)))
    emit("bip32_spec btc 32 000102030405060708090a0b0c0d0e0f 0,1,16777216 1")
    emit("bip32_spec btc 32 000102030405060708090a0b0c0d0e0f 0,2147483648 1")
    for _ in range(ctx.n(6, 150)):
        depth = rng.randint(1, 3)
        pub_first = rng.random() < 0.3
        idxs = [rng.choice(BOUNDARY_I + [rng.randrange(2 ** 31)]) + (0 if pub_first or rng.random() < 0.5 else 2 ** 31) for _ in range(depth)]
        kind = rng.choice([32, 49, 84])
        emit("bip32_spec %s %d %s %s %d" % (rng.choice(["btc", "xtn", "ltc"]), kind, hx(bytes(rng.randrange(256) for _ in range(16))),
                                            ",".join(map(str, idxs)), 1 if pub_first else 0))
    emit("bip32_path btc 32 000102030405060708090a0b0c0d0e0f %s 0" % s2h("0/1/2"))

    # --- the pure-Python arithmetic configuration (child process, PYCOIN_NATIVE=none)
    for p in ("0H/1/2H/2/1000000000", "0/1", "16777216/16777215H"):
        emit("c09pure bip32_path btc 32 000102030405060708090a0b0c0d0e0f %s 0" % s2h(p))
    emit("c09pure bip32_path btc 32 000102030405060708090a0b0c0d0e0f %s 1" % s2h("0/1"))
    for _ in range(ctx.n(6, 150)):
        t = rand_priv_tok()
        emit("c09pure bip32_ckd %s %d %s %s" % (t, rng.choice(BOUNDARY_I + [rng.randrange(2 ** 31)]), rng.choice("01"), rng.choice("01n")))
        if rng.random() < 0.5:
            emit("c09pure bip32_ckd %s %d 0 n" % (pub_tok_of(t), rng.choice(BOUNDARY_I)))
    emit("c09pure electrum_subkey prv:%d %s 1" % (rng.randrange(1, N), s2h("5/1")))
    # --- index boundaries, hardened and not, private and public parents, every as_private
    base = rand_priv_tok()
    base_pub = pub_tok_of(base)
    for i in BOUNDARY_I + [2 ** 31, 2 ** 32 - 1, 2 ** 32, -1]:
        for h in "01":
            emit("bip32_ckd %s %d %s n" % (base, i, h))
            emit("bip32_ckd %s %d %s n" % (base_pub, i, h))
    for p in "01n":
        emit("bip32_ckd %s 5 0 %s" % (base, p))
        emit("bip32_ckd %s 5 1 %s" % (base, p))
        emit("bip32_ckd %s 5 0 %s" % (base_pub, p))
    # --- bip32.py called directly with a generator reporting an order near 2^255 / 2^254: the retry loop runs for real
    for _ in range(ctx.n(40, 2000)):
        order = rng.choice([N, 2 ** 255, 2 ** 255 + 12345, 2 ** 254 + 1, N - 1, 3 * 2 ** 254])
        se = rng.randrange(1, order)
        pub = ec_mul(se)
        hard = rng.choice("01")
        i = rng.choice(BOUNDARY_I + [2 ** 31, 2 ** 32 - 1, rng.randrange(2 ** 32)])
        emit("bip32_ckdraw %d %d %s %d %s %d,%d" % (order, se, hx(rb(32)), i, hard, pub[0], pub[1]))
        if rng.random() < 0.3:
            emit("bip32_ckdpubraw %d %d,%d %s %d" % (order, pub[0], pub[1], hx(rb(32)), rng.choice(BOUNDARY_I + [rng.randrange(2 ** 31)])))
    emit("bip32_ckdraw %d 5 %s %d 0 %d,%d" % (2 ** 255, "00" * 32, 2 ** 32, G[0], G[1]))
    emit("bip32_ckdpubraw %d %d,%d %s %d" % (2 ** 255, G[0], G[1], "00" * 32, 2 ** 31))
    # --- parents whose secret exponent has leading zero bytes (fixed-width 32-byte serialisation in the hardened data)
    for se in (1, 2, 255, 256, 2 ** 64 - 1, 2 ** 200 + 12345, 2 ** 248 - 1, 2 ** 248, N - 1):
        t = rand_priv_tok(se=se)
        emit("bip32_ckd %s %d 1 n" % (t, rng.choice(BOUNDARY_I)))
        emit("bip32_ckd %s %d 0 n" % (t, rng.choice(BOUNDARY_I)))
        emit("bip32_ser %s 1" % t)
        emit("hwif btc %s 1" % t)
    # --- constructor refusals
    for se in (0, N, N + 1, -1, 2 ** 256):
        emit("bip32_node " + rand_priv_tok(se=se))
    emit("bip32_node " + node_tok(32, 0, b"\0" * 4, 0, b"\1" * 31, se=5))
    emit("bip32_node " + node_tok(32, 0, b"\0" * 3, 0, b"\1" * 32, se=5))
    emit("bip32_node " + node_tok(32, 0, b"\0" * 4, 0, b"\1" * 32, pp=(1, 1)))
    emit("bip32_node 32:0:00000000:0:%s:pinf" % ("01" * 32))
    # --- depth 255 / 256: serialisation holds one byte
    for depth in (0, 1, 254, 255, 256, 1000):
        t = rand_priv_tok(depth=depth)
        for p in "01n":
            emit("bip32_ser %s %s" % (t, p))
        emit("hwif btc %s 1" % t)
        emit("hwif btc %s 0" % t)
        emit("bip32_ckd %s 0 0 n" % t)
    t255 = rand_priv_tok(depth=255)
    emit("bip32_nodepath %s %s" % (t255, s2h("0")))
    emit("bip32_ser %s 1" % node_tok(32, 1, rb(4), 2 ** 32, rb(32), se=7))
    emit("bip32_ser %s 1" % base_pub)

    # --- every network x every prefix kind it defines: text round trip, private and public
    mods = all_modules()
    texts = []
    t_pub = {kind: pub_tok_of(rand_priv_tok(kind=kind)) for kind in (32, 49, 84)}
    for m in mods:
        for kind in (32, 49, 84):
            t = rand_priv_tok(kind=kind)
            if kind in kinds_of(m):
                for p in "10":
                    tt = t if p == "1" else t_pub[kind]      # the public form from a public-only node: no multiplication in the model
                    emit("hwif %s %s %s" % (m, tt, p))
                    r = impl("hwif %s %s %s" % (m, tt, p))
                    if r.startswith("ok "):
                        texts.append((m, kind, r[3:]))
            elif m in ("bch", "doge", "zec", "dash"):
                emit("hwif %s %s 1" % (m, t))   # kind not defined on this network: TypeError as coded
    # address form per class: BIP32Node p2pkh, BIP49Node p2sh-p2wpkh, BIP84Node p2wpkh; BIP84/BIP49 test vectors
    for (name, kind, path) in ADDRESS_VECTORS:
        emit("bip32_path %s %d %s %s 0" % (name, kind, BIP39_SEED, s2h(path)))
    for m in ("btc", "xtn", "ltc", "doge", "bch"):
        for kind in (32, 49, 84):
            t = rand_priv_tok(kind=kind)
            emit("bip32_address %s %s" % (m, t))
            emit("bip32_address %s %s" % (m, pub_tok_of(t)))
    for _ in range(ctx.n(10, 300)):
        emit("bip32_address %s %s" % (rng.choice(mods), rand_priv_tok(kind=rng.choice([32, 49, 84]))))
    # public-only nodes, both parities of y
    for _ in range(ctx.n(6, 60)):
        emit("hwif %s %s 0" % (rng.choice(mods), pub_tok_of(rand_priv_tok())))
    # --- parsing: cross-network, cross-kind, malformed
    for m, kind, tx in rng.sample(texts, min(len(texts), ctx.n(40, 400))):
        m2 = rng.choice(["btc", "xtn", "ltc", m])
        k2 = rng.choice([32, 49, 84])
        emit("hparse %s %d %s" % (m2, k2, tx))
    xprv = [t for t in texts if t[0] == "btc" and t[1] == 32][0][2]
    raw = h2s(xprv)
    def a2b_hashed_base58(text, m="btc"):
        return _b58check_payload(text, m)

    blob = a2b_hashed_base58(raw)

    def b58c(b, m="btc"):
        return s2h(ref_b58check(b, m))
    # the Groestlcoin family against the networks with the same version bytes (GRS = BTC's, TGRS/GRSRT = XTN's): each side's own
    # text on the other side, and each side's payload under the other side's checksum hash — refused all four ways
    fam = [m for m in mods if grsenv.hash_kind(m) == "groestl"]
    for m, kind, tx in [t for t in texts if t[0] in fam or t[0] in ("btc", "xtn")]:
        payload = a2b_hashed_base58(h2s(tx), m)
        if payload is None:
            continue        # not under the network's documented checksum hash: the `hwif` oracle reports it
        for o in (fam if m not in fam else ["btc", "xtn"] + [f for f in fam if f != m]):
            emit("hparse %s %d %s" % (o, kind, tx))
            emit("hparse %s %d %s" % (m, kind, b58c(payload, o)))
    bad = [blob[:-1], blob + b"\0", blob[:45], blob[:46], blob[:13], blob[:12], blob[:5], blob[:4], b"",
           blob[:45] + b"\0" + b"\0" * 32, blob[:45] + b"\0" + N.to_bytes(32, "big"), blob[:45] + b"\0" + (N - 1).to_bytes(32, "big"),
           blob[:45] + b"\1" + b"\0" * 32, blob[:45] + b"\4" + b"\0" * 32, blob[:45] + b"\2" + (5).to_bytes(32, "big"),
           blob[:45] + b"\2" + (1).to_bytes(32, "big"), blob[:45] + b"\3" + (1).to_bytes(32, "big"),
           blob[:45] + b"\2" + (P + 1).to_bytes(32, "big"), blob[:45] + b"\4" + G[0].to_bytes(32, "big") + G[1].to_bytes(32, "big"),
           blob[:45] + b"\0" + b"\0" * 31 + b"\1" + b"\7", blob[:46] + blob[47:], b"\x04\x88\xb2\x1e" + blob[4:]]
    # a right extended key with ONE checksum byte off (each of the four positions), on btc and on the Groestlcoin family
    for m, kind, tx in [t for t in texts if t[0] == "btc" or t[0] in fam][: ctx.n(12, 60)]:
        payload = a2b_hashed_base58(h2s(tx), m)
        if payload is None:
            continue
        chk = grsenv.HASHES[grsenv.hash_kind(m)](payload)[:4]
        for i in range(4):
            badc = bytearray(chk)
            badc[i] ^= 1 << rng.randrange(8)
            emit("hparse %s %d %s" % (m, kind, s2h(grsenv.b58enc(payload + bytes(badc)))))
    for b in bad:
        for kind in (32, 49, 84):
            emit("hparse btc %d %s" % (kind, b58c(b)))
        emit("bip32_deser 32 %s" % hx(b))
    for t in (raw[:-1], raw + "1", raw[:50] + ("2" if raw[50] != "2" else "3") + raw[51:], "", "xprv", "0", " " + raw, raw.lower(), "l" + raw[1:], "é" + raw[1:]):
        emit("hparse btc 32 %s" % s2h(t))
    for _ in range(ctx.n(150, 3000)):
        m, kind, tx = rng.choice(texts)
        b = bytearray(a2b_hashed_base58(h2s(tx), m) or b"\0" * 78)
        mode = rng.randrange(6)
        if mode == 0:
            b[rng.randrange(len(b))] ^= 1 << rng.randrange(8)
        elif mode == 1:
            b = b[:rng.randrange(len(b))]
        elif mode == 2:
            b += rb(rng.randint(1, 3))
        elif mode == 3:
            b[45] = rng.choice([0, 1, 2, 3, 4, 5])
        elif mode == 4:
            b[46:78] = rng.choice([0, N, N - 1, P, 2 ** 256 - 1, rng.randrange(2 ** 256)]).to_bytes(32, "big")
        else:
            b[0:4] = rng.choice([b"\x04\x88\xad\xe4", b"\x04\x88\xb2\x1e", b"\x04\x9d\x78\x78", b"\x04\xb2\x47\x46", rb(4)])
        emit("hparse %s %d %s" % (m, rng.choice([kind, 32]), b58c(bytes(b), m)))
    for _ in range(ctx.n(10, 200)):
        emit("bip32_deser %d %s" % (rng.choice([32, 49, 84]), hx(rb(rng.choice([0, 4, 12, 13, 45, 46, 47, 77, 78, 79, 110])))))

    # --- random seeds and paths (each step costs one scalar multiplication in the model)
    def rand_path(depth, hardened_ok=True, spelling="H"):
        parts = []
        for _ in range(depth):
            i = rng.choice(BOUNDARY_I + [rng.randrange(2 ** 31), rng.randrange(100)])
            parts.append("%d%s" % (i, rng.choice([spelling, ""]) if hardened_ok else ""))
        return "/".join(parts)
    for _ in range(ctx.n(10, 400)):
        seed = rb(rng.choice([16, 32, 64, 1, 0, 100]))
        kind = rng.choice([32, 32, 49, 84])
        name = rng.choice(["btc", "xtn", "ltc"]) if kind != 32 else rng.choice(mods)
        emit("bip32_path %s %d %s %s 0" % (name, kind, hx(seed), s2h(rand_path(rng.randint(1, 3), spelling=rng.choice("Hp'")))))
    for _ in range(ctx.n(6, 200)):
        emit("bip32_path btc 32 %s %s 0" % (hx(rb(16)), s2h(rand_path(rng.randint(1, 3), hardened_ok=False))))
    for _ in range(ctx.n(3, 60)):
        emit("bip32_path btc 32 %s %s 1" % (hx(rb(16)), s2h(rand_path(rng.randint(1, 2)))))
    for _ in range(ctx.n(20, 1500)):
        t = rand_priv_tok(kind=rng.choice([32, 49, 84]))
        if rng.random() < 0.35:
            t = pub_tok_of(t)
        emit("bip32_ckd %s %d %s %s" % (t, rng.choice(BOUNDARY_I + [rng.randrange(2 ** 31)] * 3), rng.choice("01"), rng.choice("01n")))
    # --- path syntax
    node = rand_priv_tok()
    node_pub = pub_tok_of(node)
    for p in ("", ".pub", "0", "0H", "0p", "0'", "0H.pub", "1/2", "1/2.pub", "1H/2p/3'", "007", "+5", " 5", "5 ", "1_0", "1__0", "_1", "1_", "-1", "-0",
              "0/", "/0", "0//1", "H", "0HH", "0h", "0x10", "1.5", "2147483647", "2147483648", "2147483647H", "2147483648H", "99999999999999999999",
              "0.pu", "pub", "0.pub.pub", "0/.pub", "0H/1/2H/2/1000000000", "\t7\n", "0/1/2/3/4/5"):
        emit("bip32_nodepath %s %s" % (node, s2h(p)))
        if len(p) < 8:
            emit("bip32_nodepath %s %s" % (node_pub, s2h(p)))
    for _ in range(ctx.n(6, 300)):
        emit("bip32_nodepath %s %s" % (rng.choice([node, node_pub, rand_priv_tok()]), s2h(rand_path(rng.randint(1, 3), spelling=rng.choice("Hp'")) + rng.choice(["", "", ".pub"]))))

    # --- cache: repeated and permuted call histories on one node object
    hist_calls = ["0/0/n", "0/0/1", "0/0/0", "0/1/n", "0/1/1", "0/1/0", "1/0/n", "1/0/0", "1/1/0", "2147483647/0/n", "2147483648/0/n", "-1/0/n",
                  "16777216/0/1", "16777215/1/0"]
    for _ in range(ctx.n(6, 120)):
        calls = [rng.choice(hist_calls) for _ in range(rng.randint(4, 14))]
        emit("bip32_hist %s %s" % (rng.choice([node, node, node_pub]), ",".join(calls)))
    emit("bip32_hist %s %s" % (node, "0/0/0,0/0/1,0/0/n,0/0/0,0/1/0,0/1/1,0/0/1,0/1/n"))
    emit("bip32_hist %s %s" % (node, "0/1/1,0/0/1,0/1/0,0/0/0"))
    emit("bip32_hist %s %s" % (node_pub, "0/0/1,0/0/0,0/0/n,0/1/n,0/0/1"))
    emit("bip32_hist %s ~" % node)
    for _ in range(ctx.n(4, 60)):
        calls = [rng.choice(hist_calls) for _ in range(rng.randint(2, 8))]
        emit("bip32_hist_fpu %s %s" % (rng.choice([node, node_pub, rand_priv_tok()]), ",".join(calls)))
    emit("bip32_hist_fpu %s %s" % (node, "0/0/n,0/1/0,1/0/n"))
    # --- a FAMILY of objects derived from one root: public copies, shared children, each with its own cache
    fam_fixed = [
        # memoised hardened public child on the private node, then the public copy must still refuse it
        "s0/7/1/0,c0,s2/7/1/n,p2/%s,s2/7/0/n,s0/7/1/0" % s2h("7H"),
        # memoised private child on the private node, then the public copy asked for as_private=True
        "s0/3/0/n,c0,s2/3/0/1,s2/3/0/n,s1/0/0/n,c1,s5/0/0/1,s5/0/1/n",
        # children are shared objects: the child reached twice keeps its cache; public copies of children
        "s0/1/0/n,s0/1/0/n,s1/2/1/n,s2/2/1/n,c1,s5/2/0/n,s5/2/1/n,p0/%s,p0/%s,p0/%s" % (s2h("1/2H"), s2h("1/2H.pub"), s2h("1.pub")),
        "c0,c1,s2/0/0/1,s1/0/0/0,p1/%s,p2/%s,s9/0/0/n,c9" % (s2h("0/1"), s2h("0H")),
        "p0/%s,c1,p2/%s,p0/%s,s0/5/1/0,c0,p6/%s" % (s2h("5H/1"), s2h("2"), s2h("5H.pub"), s2h("5'")),
    ]
    for kind in (32, 49, 84):
        for st in fam_fixed[:2] if kind != 32 else fam_fixed:
            emit("bip32_fam btc %s %s" % (rand_priv_tok(kind=kind), st))
    emit("bip32_fam btc %s %s" % (pub_tok_of(rand_priv_tok()), fam_fixed[3]))
    emit("bip32_fam btc %s ~" % rand_priv_tok())
    for _ in range(ctx.n(6, 150)):
        nobj, steps = 1, []
        for _s in range(rng.randint(6, 12)):
            r = rng.randrange(nobj) if rng.random() < 0.9 else nobj + 1
            kind_s = rng.choice("csssspp")
            if kind_s == "c":
                steps.append("c%d" % r)
            elif kind_s == "s":
                steps.append("s%d/%d/%s/%s" % (r, rng.choice([0, 0, 1, 7, 2 ** 31 - 1, 2 ** 31]), rng.choice("01"), rng.choice("01n")))
            else:
                steps.append("p%d/%s" % (r, s2h(rng.choice(["0", "0H", "0.pub", "7H", "7", "0/1", "1H/0", ".pub", "0'/1.pub", "x"]))))
            nobj += 1
        emit("bip32_fam %s %s %s" % (rng.choice(["btc", "xtn", "ltc"]), rand_priv_tok(kind=rng.choice([32, 32, 49, 84])), ",".join(steps)))
    # --- every text accessor of every node class (hwif, as_text, repr, wif): private, public, derived children
    for name in ("btc", "xtn", "ltc"):
        for kind in (32, 49, 84):
            t = rand_priv_tok(kind=kind)
            emit("bip32_texts %s %s" % (name, t))
            emit("bip32_texts %s %s" % (name, pub_tok_of(t)))
    for _ in range(ctx.n(6, 200)):
        m = rng.choice(mods)
        t = rand_priv_tok(kind=rng.choice(kinds_of(m)))
        emit("bip32_texts %s %s" % (m, t if rng.random() < 0.6 else pub_tok_of(t)))
    emit("bip32_texts btc %s" % rand_priv_tok(depth=256))
    emit("bip32_texts doge %s" % rand_priv_tok(kind=49))
    path_pool = ["0", "0H", "0/1", "0/1.pub", "0.pub", "0H/1", "0H/1H", "0/1/2", "1", "1/0", "0p", "0'", "", ".pub", "0/x", "0//", "0/1H"]
    for _ in range(ctx.n(5, 100)):
        ps = [rng.choice(path_pool) for _ in range(rng.randint(4, 12))]
        emit("bip32_pathhist %s %s" % (rng.choice([node, node, node_pub]), ",".join(s2h(p) for p in ps)))
    emit("bip32_pathhist %s %s" % (node, ",".join(s2h(p) for p in ["0/1.pub", "0/1", "0.pub", "0", "0/1", "0H/1", "0p/1", "0'/1.pub"])))

    # --- ranges
    for t in ("", "0", "0/1H/0-4", "0/2,5,9-11", "3H/2/5/15-20p", "5-6/7-8p,15/1-2", "0-0", "5-3", "1-2-3", "-5", "3--1", "a", "a-b", "1,,2", "1/", "/",
              "0,", "07", "07-09", "1-2H/3'", "1 - 2", "+1-+2", "1_0-1_1", "H", "0-2'", "9-11,0", "0-1/0-1/0-1", "x,1-", "1-,x", ",", "0/1-2/x-3/,"):
        emit("subpaths " + s2h(t))
    for _ in range(ctx.n(150, 5000)):
        comps = []
        for _c in range(rng.randint(1, 4)):
            els = []
            for _e in range(rng.randint(1, 3)):
                lo = rng.randrange(0, 30)
                r = rng.random()
                el = "%d" % lo if r < 0.5 else "%d-%d" % (lo, lo + rng.randint(-1, 4))
                if rng.random() < 0.3:
                    el += rng.choice("Hp'")
                if rng.random() < 0.04:
                    el = rng.choice(["", "x", "-", "1-", "-1", "1-2-3", "H", " 1", "0x1"])
                els.append(el)
            comps.append(",".join(els))
        emit("subpaths " + s2h("/".join(comps)))
    # --- path elements go through int(): every Unicode decimal-digit block (category Nd) and every Unicode white-space
    # character int()/strip() accept, their neighbours that are refused, mixtures with ASCII digits / underscores / markers
    # (the model's table Subpaths.uniZeros / isPySpace is compared with the interpreter here; CLAUSE_MAP C09 Q3)
    import unicodedata as _ud
    zeros = [c for c in range(128, 0x110000) if _ud.category(chr(c)) == "Nd" and _ud.decimal(chr(c)) == 0]
    spaces = [chr(c) for c in range(128, 0x3001) if chr(c).isspace()]
    for z in zeros:
        d = rng.randrange(10)
        e = rng.randrange(10)
        emit("subpaths " + s2h(chr(z + d) + "/" + chr(z + e) + "-" + chr(z + 9) + rng.choice(["", "H", "p", "'"])))
        for c in (z - 1, z + 10):
            if _ud.category(chr(c)) != "Nd" and not chr(c).isspace() and c not in range(0xd800, 0xe000):
                emit("subpaths " + s2h("1" + chr(c)))
    for sp in spaces + ["\u200b", "\u180e", "\ufeff"]:
        emit("subpaths " + s2h(sp + "1" + sp + "/2" + sp + "-3"))
        emit("subpaths " + s2h("1" + sp + "2"))
    for t in ("\u0663/\uff14H", "1\u0662_\u0663", "\u0661_", "_\u0661", "\u0661__2", "\u00b2", "\u2167", "\u2460", "-\u0665", "+\u0665",
              "\u2212" + "5", "\u0661\u06f2\u07c3-\u0967\u09e8\u0a6a", "\u00a0\u0661\u3000H", "0x\u0661", "\U0001d7ce-\U0001d7d1"):
        emit("subpaths " + s2h(t))
    for t in ("\u0663/\uff14H", "\u00a01\u2003/2", "1\u0085", "\u1810p/\u0967'", "\u00b2", "1\u200b", "\U0001d7ce/\U0001d7ff", "\u0662_\u0661/1"):
        emit("bip32_path btc 32 000102030405060708090a0b0c0d0e0f %s 0" % s2h(t))
        emit("bip32_path btc 32 000102030405060708090a0b0c0d0e0f %s 1" % s2h(t))
    for t in ("0-2", "0-1/0-1H", "1,3.pub", "0-1/x"):
        emit("bip32_subkeys %s %s" % (node, s2h(t)))
    emit("bip32_subkeys %s %s" % (node_pub, s2h("0-1/2")))

    # --- Electrum
    emit("electrum_new seed:%s" % s2h("0123456789abcdef0123456789abcdef"))
    for se in (1, 2, N - 1, 0, N, rng.randrange(1, N)):
        emit("electrum_new prv:%d" % se)
    g2 = ec_mul(2)
    for spec in ("pub:%d,%d" % G, "pub:%d,%d" % g2, "pub:1,1", "pub:inf", "mpk:" + hx(G[0].to_bytes(32, "big") + G[1].to_bytes(32, "big")),
                 "mpk:" + hx(G[0].to_bytes(32, "big")), "mpk:-", "mpk:" + hx(b"\0" * 64)):
        emit("electrum_new " + spec)
    for _ in range(ctx.n(10, 300)):
        se = rng.randrange(1, N)
        path = rng.choice(["%d" % rng.randrange(1000), "%d/%d" % (rng.randrange(1000), rng.randrange(2)), "0", "0/1", "x", "", "1/2/3", "5/"])
        emit("electrum_subkey prv:%d %s 0" % (se, s2h(path)))
        if rng.random() < 0.3:
            emit("electrum_subkey prv:%d %s 1" % (se, s2h(path)))
    emit("electrum_subkey seed:%s %s 0" % (s2h("0123456789abcdef0123456789abcdef"), s2h("3/1")))
    for _ in range(ctx.n(8, 300)):
        emit("bip32_ckdraw0 %d %s %d %d" % (rng.choice([1, 2, N - 1, rng.randrange(1, N)]), hx(rb(32)), rng.choice([0, 1, 2 ** 31 - 1, 2 ** 31, 2 ** 32 - 1, rng.randrange(2 ** 32)]), rng.randrange(2)))
    # --- BIP32Node: constructor with both / neither key argument, override_network, children
    cc, fp = hx(rb(32)), hx(rb(4))
    for kind in (32, 49, 84):
        for se_, pp_ in (("-", "-"), ("5", "%d,%d" % G), ("5", "-"), ("-", "%d,%d" % G), ("-", "inf"), ("0", "-"), ("0", "%d,%d" % G), ("5", "inf")):
            emit("bip32_ctor %d 1 %s 7 %s %s %s" % (kind, fp, cc, se_, pp_))
    emit("bip32_ctor 32 1 %s 7 %s 5 -" % (fp, hx(rb(31))))
    emit("bip32_ctor 32 1 %s 7 %s 5 -" % (hx(rb(3)), cc))
    onets = [m for m in all_modules() if supported(m) and 32 in kinds_of(m)]
    for kind in (32, 49, 84):
        t = rand_priv_tok(kind=kind)
        for m in rng.sample(onets, min(len(onets), ctx.n(4, 40))):
            emit("bip32_override %s %s" % (t, m))
        emit("bip32_override %s %s" % (pub_tok_of(t), rng.choice(onets)))
    emit("bip32_override %s ltc" % rand_priv_tok(depth=255))
    emit("bip32_override %s ltc" % rand_priv_tok(depth=256))
    t = rand_priv_tok()
    for mx, st, hd in ((0, 0, 1), (1, 0, 1), (2, 5, 0), (1, 2 ** 31 - 2, 0), (1, 2 ** 31 - 1, 0), (0, 2 ** 31 - 1, 1)):
        emit("bip32_children %s %d %d %d" % (t, mx, st, hd))
    emit("bip32_children %s 1 0 0" % pub_tok_of(t))
    emit("bip32_children %s 1 0 1" % pub_tok_of(t))
    # constructor with none / several arguments, serialize / deserialize, subkeys(range), subkey_for_path
    gpub = "pub:%d,%d" % G
    mpk = "mpk:" + hx(G[0].to_bytes(32, "big") + G[1].to_bytes(32, "big"))
    for specs in ("~", "prv:5", gpub, mpk, "prv:5+" + gpub, "prv:5+" + mpk, gpub + "+" + mpk, "prv:5+" + gpub + "+" + mpk,
                  "seed:%s+prv:5" % s2h("ab"), "prv:0+" + gpub, "pub:inf", "pub:inf+prv:7"):
        emit("electrum_args " + specs)
    for spec in ("prv:1", "prv:2", "prv:%d" % (N - 1), "pub:%d,%d" % G, "pub:%d,%d" % g2, mpk, "pub:inf", "seed:%s" % s2h("0123456789abcdef")):
        emit("electrum_ser " + spec)
    for blob in (b"", b"\x00" * 32, (1).to_bytes(32, "big"), (N - 1).to_bytes(32, "big"), N.to_bytes(32, "big"), b"\xff" * 32,
                 G[0].to_bytes(32, "big") + G[1].to_bytes(32, "big"), G[0].to_bytes(32, "big") + (P - G[1]).to_bytes(32, "big"),
                 b"\x00" * 64, b"\x01" * 64, b"\x01" * 31, b"\x01" * 33, b"\x01" * 63, b"\x01" * 65, b"\x02" + G[0].to_bytes(32, "big")):
        emit("electrum_deser " + hx(blob))
    for _ in range(ctx.n(12, 400)):
        se = rng.randrange(1, N)
        emit("electrum_ser prv:%d" % se)
        emit("electrum_deser " + hx(rng.randbytes(rng.choice([32, 32, 64, 31, 33, 0, 65]))))
        x, y = ec_mul(rng.randrange(1, N))
        emit("electrum_deser " + hx(x.to_bytes(32, "big") + y.to_bytes(32, "big")))
        emit("electrum_ser pub:%d,%d" % (x, y))
        path = rng.choice(["%d" % rng.randrange(1000), "%d/%d" % (rng.randrange(1000), rng.randrange(2)), "x", "1/2/3"])
        emit("electrum_sfp prv:%d %s" % (se, s2h(path)))
    for rngtxt in ("0-2", "0-1/0-1", "3", "0,5/1", "0-1/0,1", "2-1", "x", "0-1/2/3", "1H", "0-1'"):
        for mode in (0, 1, 2):
            emit("electrum_subkeys prv:%d %s %d" % (rng.randrange(1, N), s2h(rngtxt), mode))
    emit("electrum_subkeys pub:%d,%d %s 1" % (G[0], G[1], s2h("0-1")))
