"""Generators for C03M (model of pycoin's VM vs the real VM).  Only `ctx.rng` is used for randomness."""
from __future__ import annotations

import hashlib
import struct

from lib import hx, show_list

from pycoin.coins.bitcoin.SolutionChecker import BitcoinSolutionChecker
from pycoin.ecdsa.secp256k1 import secp256k1_generator as G
from pycoin.encoding.sec import public_pair_to_sec
from pycoin.encoding.hash import hash160
from pycoin.satoshi import der, flags as F

ALL_FLAGS = [getattr(F, k) for k in sorted(vars(F)) if k.startswith("VERIFY_") and k != "VERIFY_NONE"]
FLAG_BITS = 0
for _f in ALL_FLAGS:
    FLAG_BITS |= _f
CTX0 = "0:4294967295:1:0"

# ---------------------------------------------------------------- script building (independent of pycoin's compiler)

def push(d: bytes) -> bytes:
    """canonical (minimal) push"""
    n = len(d)
    if n == 0:
        return b"\x00"
    if n == 1 and 1 <= d[0] <= 16:
        return bytes([0x50 + d[0]])
    if n == 1 and d[0] == 0x81:
        return b"\x4f"
    if n <= 75:
        return bytes([n]) + d
    if n <= 255:
        return b"\x4c" + bytes([n]) + d
    if n <= 65535:
        return b"\x4d" + struct.pack("<H", n) + d
    return b"\x4e" + struct.pack("<L", n) + d


def push_form(d: bytes, form: int) -> bytes:
    """a chosen push form: 0 direct, 1 PUSHDATA1, 2 PUSHDATA2, 4 PUSHDATA4"""
    n = len(d)
    if form == 0 and 1 <= n <= 75:
        return bytes([n]) + d
    if form == 1 and n <= 255:
        return b"\x4c" + bytes([n]) + d
    if form == 2 and n <= 65535:
        return b"\x4d" + struct.pack("<H", n) + d
    if form == 4:
        return b"\x4e" + struct.pack("<L", n) + d
    return push(d)


def num(v: int) -> bytes:
    if v == 0:
        return b""
    neg = v < 0
    v = abs(v)
    out = bytearray()
    while v:
        out.append(v & 0xFF)
        v >>= 8
    if out[-1] & 0x80:
        out.append(0x80 if neg else 0)
    elif neg:
        out[-1] |= 0x80
    return bytes(out)


OPERANDS = [
    b"", b"\x00", b"\x80", b"\x00\x80", b"\x01", b"\x81", b"\x02", b"\x10", b"\x11", b"\x7f", b"\xff", b"\x80\x00",
    b"\xff\x00", b"\x01\x00", b"\x00\x00", b"\x01\x80", b"\xff\xff\xff\x7f", b"\xff\xff\xff\xff", b"\x00\x00\x00\x80",
    b"\xff\xff\xff\xff\x00", b"\x00\x00\x00\x00\x00", b"\x00\x00\x00\x80\x00", b"\x00\x00\x00\x00\x80", b"\x01\x00\x00\x00\x00",
    b"\x00\x00\x40\x00", b"\x00\x00\x00\x80\x00\x00", b"\x03", b"\x04", b"\x05", b"\x06", b"\x14", b"\x15",
    b"\x00\x65\xcd\x1d", b"\xff\x64\xcd\x1d", b"\x01\x65\xcd\x1d", b"abc", b"\x00" * 20, b"\x07" * 32, b"\x02" + b"\x11" * 32,
    b"\xaa" * 520, b"\xaa" * 521,
]


def rnd_operand(rng):
    r = rng.random()
    if r < 0.7:
        return rng.choice(OPERANDS)
    if r < 0.85:
        return num(rng.choice([1, -1]) * rng.randrange(0, 1 << rng.choice([7, 8, 15, 16, 23, 24, 31, 32, 39, 40])))
    return bytes(rng.randrange(256) for _ in range(rng.choice([1, 2, 3, 4, 5, 6, 9, 33])))


def rnd_flags(rng):
    r = rng.random()
    if r < 0.25:
        return 0
    if r < 0.4:
        return FLAG_BITS
    if r < 0.6:
        return rng.choice(ALL_FLAGS) | (rng.choice(ALL_FLAGS) if rng.random() < 0.5 else 0)
    return rng.getrandbits(16) & FLAG_BITS


def ev(flags, script, stack=(), wit=0, ctx=CTX0, table=()):
    return "vm_eval %d %d %s %s %s %s" % (flags, wit, hx(script), show_list(stack, hx), ctx,
                                          show_list(table, lambda t: "%s:%s:%s" % (hx(t[0]), hx(t[1]), hx(t[2]))))


def vf(flags, sig, spk, witness=(), ctx=CTX0, table=()):
    return "vm_verify %d %s %s %s %s %s" % (flags, hx(sig), hx(spk), show_list(witness, hx), ctx,
                                            show_list(table, lambda t: "%s:%s:%s" % (hx(t[0]), hx(t[1]), hx(t[2]))))


# ---------------------------------------------------------------- unit ops

def gen_units(ctx, emit):
    rng = ctx.rng
    for b in OPERANDS[:36]:
        for m in (0, 1):
            emit("vm_num_dec %s %d" % (hx(b), m))
            emit("vm_bool %s %d" % (hx(b), m))
    for v in [0, 1, -1, 127, 128, -127, -128, 255, 256, -255, -256, 32767, 32768, -32768, 65535, 65536, 2 ** 31 - 1, 2 ** 31,
              -(2 ** 31), 2 ** 32, 2 ** 39, -(2 ** 39), 2 ** 63, 2 ** 64 - 1]:
        emit("vm_num_enc %d" % v)
    for _ in range(ctx.n(300, 20000)):
        emit("vm_num_enc %d" % (rng.choice([1, -1]) * rng.randrange(0, 1 << rng.randint(1, 72))))
        b = bytes(rng.randrange(256) for _ in range(rng.randint(0, 9)))
        if rng.random() < 0.5 and b:
            b = b[:-1] + bytes([rng.choice([0, 0x80, b[-1]])])
        emit("vm_num_dec %s %d" % (hx(b), rng.randrange(2)))
        emit("vm_bool %s %d" % (hx(b), rng.randrange(2)))
    # decoder: every opcode byte at pc 0 with 0..3 following bytes, and the length boundaries
    for op in range(256):
        for tail in (b"", b"\x01", b"\x01\x00", b"\x02\x00\x00\x00\x05\x06", bytes(80)):
            for m in (0, 1):
                emit("vm_getop %s 0 %d" % (hx(bytes([op]) + tail), m))
    for n in (0, 1, 2, 16, 17, 74, 75, 76, 77, 254, 255, 256, 257, 520, 521, 65535, 65536):
        for form in (0, 1, 2, 4):
            for d in ([bytes([0x42]) * n] + ([bytes([v]) for v in (0, 1, 16, 17, 0x80, 0x81)] if n == 1 else [])):
                s = push_form(d, form)
                for m in (0, 1):
                    emit("vm_getop %s 0 %d" % (hx(s), m))
                    emit("vm_getop %s 0 %d" % (hx(s[:-1]), m))
        emit("vm_pushdata %s" % hx(bytes([0x42]) * n))
    for v in list(range(0, 18)) + [0x80, 0x81, 0xff]:
        emit("vm_pushdata %s" % hx(bytes([v])))
    for _ in range(ctx.n(300, 20000)):
        s = bytes(rng.randrange(256) if rng.random() < 0.5 else rng.choice([0, 1, 2, 0x4b, 0x4c, 0x4d, 0x4e, 0x4f, 0x51, 0x60, 0x61])
                  for _ in range(rng.randint(1, 12)))
        emit("vm_getop %s %d %d" % (hx(s), rng.randrange(len(s)), rng.randrange(2)))
        emit("vm_pushonly %s" % hx(s))
        sig = bytes(rng.randrange(256) for _ in range(rng.choice([0, 1, 1, 2, 3, 76])))
        body = b"".join(rng.choice([push(sig), push(sig), bytes([rng.randrange(256)]), push_form(sig, rng.choice([0, 1, 2, 4])), s])
                        for _ in range(rng.randint(0, 5)))
        emit("vm_delsig %s %s" % (hx(body), hx(sig)))
    # conditional stack
    for w in ["-", "I", "i", "N", "n", "E", "F", "Z", "IZ", "iZ", "IF", "iF", "IE", "iE", "IEE", "iEE", "IEF", "iEFZ", "IiEF", "iIEF", "iiE", "iiEFEF", "IIEEFF",
              "nEF", "NEF", "IFF", "IFE", "iiiFFFZ", "IiEiFEF"]:
        emit("vm_cond " + w)
    for _ in range(ctx.n(300, 20000)):
        emit("vm_cond " + "".join(rng.choice("IiNnEEFFF" if rng.random() < 0.8 else "IiNnEFZ") for _ in range(rng.randint(1, 14))))


# ---------------------------------------------------------------- DER / encodings

def der_sig(r, s, hashtype=1):
    return der.sigencode_der(r, s) + bytes([hashtype])


def gen_encodings(ctx, emit):
    rng = ctx.rng
    n = G.order()
    p = G.p()
    base = der_sig(0x1122334455, 0x66778899)
    sigs = [b"", b"\x01", b"\x30", b"\x30\x01", b"\x30\x00\x01", b"\x30\x02\x02\x01", b"\x30\x02\x02\x01\x01\x02\x01\x01\x01",
            b"\x30\x06\x02\x01\x01\x02\x01\x01\x01", b"\x30\x80\x02\x01\x01\x02\x01\x01\x01", b"\x30\x81\x06\x02\x01\x01\x02\x01\x01\x01",
            b"\x30\x06\x02\x00\x02\x01\x01\x01", b"\x30\x06\x02\x81\x01\x01\x02\x01\x01\x01", b"\x30\x06\x03\x01\x01\x02\x01\x01\x01",
            b"\x30\x06\x02\x01\x01\x02\x85\x01\x01", b"\x30\x06\x02\x01\x81\x02\x01\x01\x01", b"\x30\x07\x02\x02\x00\x01\x02\x01\x01\x01",
            b"\x30\x06\x02\x01\x01\x02\x01\x01", b"\x31\x06\x02\x01\x01\x02\x01\x01\x01", b"\x30\x06\x02\x01\x01\x02\x01\x81\x01",
            base, base[:-1] + b"\x00", base[:-1] + b"\x02", base[:-1] + b"\x03", base[:-1] + b"\x04", base[:-1] + b"\x81", base[:-1] + b"\x83", base[:-1] + b"\x84",
            base[:-1] + b"\xff", base + b"\x01", base[:-1],
            der_sig(1, n // 2), der_sig(1, n // 2 + 1), der_sig(1, p // 2), der_sig(1, p // 2 + 1), der_sig(1, n - 1), der_sig(1, p - 1), der_sig(1, p), der_sig(n - 1, 1),
            der_sig(2 ** 255, 2 ** 255), der_sig(2 ** 256 - 1, 2 ** 256 - 1), der_sig(2 ** 264, 1)]
    fl = [0, F.VERIFY_DERSIG, F.VERIFY_LOW_S, F.VERIFY_STRICTENC, F.VERIFY_DERSIG | F.VERIFY_LOW_S | F.VERIFY_STRICTENC, F.VERIFY_NULLFAIL]
    for s in sigs:
        emit("vm_der %s" % hx(s))
        for f in fl:
            emit("vm_sigenc %d %s" % (f, hx(s)))
    for _ in range(ctx.n(400, 30000)):
        s = bytearray(rng.choice(sigs[19:]) if rng.random() < 0.7 else rng.choice(sigs))
        for _m in range(rng.randint(0, 2)):
            if not s:
                break
            r = rng.random()
            i = rng.randrange(len(s))
            if r < 0.4:
                s[i] = rng.choice([0, 1, 2, 0x30, 0x80, 0x81, 0xff, s[i] ^ (1 << rng.randrange(8))])
            elif r < 0.6:
                del s[i]
            elif r < 0.8:
                s.insert(i, rng.choice([0, 0x80, 2, 1]))
            else:
                s = s[:i]
        emit("vm_der %s" % hx(bytes(s)))
        emit("vm_sigenc %d %s" % (rng.choice(fl), hx(bytes(s))))
    keys = [b"", b"\x02", b"\x04", b"\x02" + b"\x11" * 32, b"\x03" + b"\x11" * 32, b"\x04" + b"\x11" * 64, b"\x05" + b"\x11" * 32,
            b"\x06" + b"\x11" * 64, b"\x07" + b"\x11" * 64, b"\x02" + b"\x11" * 64, b"\x04" + b"\x11" * 32, b"\x00" + b"\x11" * 32,
            b"\x02" + b"\x11" * 31, b"\x02" + b"\x11" * 33, b"\x04" + b"\x11" * 63, b"\x04" + b"\x11" * 65, b"\x08" + b"\x11" * 64]
    for k in keys:
        emit("vm_pubenc %s" % hx(k))
        emit("vm_secshape %s" % hx(k))
    # witness program / p2sh shapes
    for first in (0x00, 0x4f, 0x50, 0x51, 0x52, 0x60, 0x61):
        for n_ in (0, 1, 2, 3, 20, 32, 39, 40, 41):
            body = bytes([0x09]) * n_
            for lenb in {n_, (n_ + 1) % 256, 0}:
                emit("vm_wpv %s" % hx(bytes([first, lenb]) + body))
    for s in (b"", b"\x00", b"\x00\x00", b"\x00\x01\x02"):
        emit("vm_wpv %s" % hx(s))
    for s in (b"\xa9\x14" + bytes(20) + b"\x87", b"\xa9\x13" + bytes(20) + b"\x87", b"\xa9\x14" + bytes(19) + b"\x87", b"\xa9\x14" + bytes(21) + b"\x87",
              b"\xa8\x14" + bytes(20) + b"\x87", b"\xa9\x14" + bytes(20) + b"\x88", b"", b"\xa9", b"\xa9\x75\x13" + bytes(19) + b"\x87"):
        emit("vm_p2sh %s" % hx(s))


# ---------------------------------------------------------------- opcode table: every byte x operand classes x executed/dead

ARITY = {0x63: 1, 0x64: 1, 0x69: 1, 0x6b: 1, 0x6c: 0, 0x6d: 2, 0x6e: 2, 0x6f: 3, 0x70: 4, 0x71: 6, 0x72: 4, 0x73: 1, 0x74: 0, 0x75: 1, 0x76: 1,
         0x77: 2, 0x78: 2, 0x79: 2, 0x7a: 2, 0x7b: 3, 0x7c: 2, 0x7d: 2, 0x82: 1, 0x87: 2, 0x88: 2, 0x8b: 1, 0x8c: 1, 0x8f: 1, 0x90: 1, 0x91: 1,
         0x92: 1, 0x93: 2, 0x94: 2, 0x9a: 2, 0x9b: 2, 0x9c: 2, 0x9d: 2, 0x9e: 2, 0x9f: 2, 0xa0: 2, 0xa1: 2, 0xa2: 2, 0xa3: 2, 0xa4: 2, 0xa5: 3,
         0xa6: 1, 0xa7: 1, 0xa8: 1, 0xa9: 1, 0xaa: 1, 0xac: 2, 0xad: 2, 0xae: 3, 0xaf: 3, 0xb1: 1, 0xb2: 1}
CTXS = [CTX0, "0:0:2:0", "499999999:0:2:0", "500000000:1:2:0", "500000001:4194305:2:0", "100:65535:1:0", "100:2147483648:2:0", "600000000:4194304:2:0",
        "4294967295:4294967294:2:5"]


def gen_optable(ctx, emit):
    rng = ctx.rng
    per = ctx.n(6, 60)
    for op in range(256):
        ar = ARITY.get(op, 0)
        tail = b"\x01\x07" if op in (0x4c,) else (b"\x01\x00\x07" if op == 0x4d else (b"\x01\x00\x00\x00\x07" if op == 0x4e else bytes(op if op <= 75 else 0)))
        body = bytes([op]) + tail
        # dead branch, both polarities, with and without stack content
        for fl in (0, FLAG_BITS):
            emit(ev(fl, b"\x00\x63" + body + b"\x68\x51"))
            emit(ev(fl, b"\x51\x64" + body + b"\x67\x52\x68"))
            emit(ev(fl, b"\x51\x63\x00\x63" + body + b"\x68\x68\x51", [b"\x01", b"\x02"]))
        for d in range(0, ar + 2):
            for _ in range(per if d >= ar else 1):
                stack = [rnd_operand(rng) for _ in range(d)]
                if op in (0x79, 0x7a) and stack and rng.random() < 0.6:
                    stack[-1] = num(rng.randrange(-1, d + 1))
                if op in (0xae, 0xaf) and rng.random() < 0.7:
                    nk = rng.randrange(0, 3)
                    ns = rng.randrange(0, nk + 1)
                    stack = [rng.choice([b"", b"\x01"])] + [rnd_operand(rng) for _ in range(ns)] + [num(ns)] + [rnd_operand(rng) for _ in range(nk)] + [num(nk)]
                emit(ev(rnd_flags(rng), body, stack, wit=rng.randrange(2) if op in (0x63, 0x64, 0xac, 0xad, 0xae, 0xaf) else 0, ctx=rng.choice(CTXS)))
        # operands pushed by the script itself, minimal flag on/off
        for fl in (0, F.VERIFY_MINIMALDATA):
            stack = [rnd_operand(rng) for _ in range(ar)]
            stack = [s for s in stack if len(s) <= 520]
            emit(ev(fl, b"".join(push(s) for s in stack) + body))
    # exhaustive small operand classes for the numeric / boolean opcodes
    small = OPERANDS[:24]
    for op in (0x69, 0x73, 0x8b, 0x8c, 0x8f, 0x90, 0x91, 0x92, 0x63, 0x64, 0xb1, 0xb2, 0x79, 0x7a):
        for a in small:
            for fl in (0, F.VERIFY_MINIMALDATA, F.VERIFY_MINIMALIF, F.VERIFY_CHECKLOCKTIMEVERIFY | F.VERIFY_CHECKSEQUENCEVERIFY):
                tail = b"\x51\x68" if op in (0x63, 0x64) else b""
                emit(ev(fl, bytes([op]) + tail, [b"\x09", b"\x08", a], ctx="100:5:2:0"))
    for op in (0x93, 0x94, 0x9a, 0x9b, 0x9c, 0x9d, 0x9e, 0x9f, 0xa0, 0xa1, 0xa2, 0xa3, 0xa4, 0x87, 0x88):
        for a in small[:16]:
            for b in small[:16]:
                if ctx.thorough or rng.random() < 0.25:
                    emit(ev(rng.choice([0, F.VERIFY_MINIMALDATA]), bytes([op]), [a, b]))
    for _ in range(ctx.n(300, 6000)):
        emit(ev(rng.choice([0, F.VERIFY_MINIMALDATA]), b"\xa5", [rnd_operand(rng), rnd_operand(rng), rnd_operand(rng)]))
    # CLTV / CSV around the thresholds
    for opnd in [0, 1, 99, 100, 101, 499999999, 500000000, 500000001, 65535, 65536, 4194304, 4194305, 4194304 + 65535, 2147483648, 2147483649, 4294967295,
                 4294967296, 2 ** 39 - 1, -1]:
        for c in CTXS:
            for op in (0xb1, 0xb2):
                emit(ev(F.VERIFY_CHECKLOCKTIMEVERIFY | F.VERIFY_CHECKSEQUENCEVERIFY, bytes([op, 0x82]), [num(opnd)], ctx=c))
    for op in (0xb1, 0xb2):
        for fl in (0, F.VERIFY_DISCOURAGE_UPGRADABLE_NOPS, F.VERIFY_CHECKLOCKTIMEVERIFY, F.VERIFY_CHECKSEQUENCEVERIFY):
            for st in ([], [b""], [b"\x01\x00"], [b"\x00" * 6], [b"\x01\x00\x00\x00\x00"]):
                for mf in (0, F.VERIFY_MINIMALDATA):
                    emit(ev(fl | mf, bytes([op]), st, ctx="100:5:2:0"))


# ---------------------------------------------------------------- limits

def gen_limits(ctx, emit):
    rng = ctx.rng
    for n in (199, 200, 201, 202):
        emit(ev(0, b"\x61" * n))
        emit(ev(0, b"\x51" + b"\x61" * n))
        emit(ev(0, b"\x00\x63" + b"\x61" * (n - 2) + b"\x68\x51"))          # dead NOPs count
        emit(ev(0, b"\x00\x63" + b"\x50" * 300 + b"\x61" * (n - 2) + b"\x68\x51"))  # dead OP_RESERVED does not count
        emit(ev(0, b"\x51" * 300 + b"\x61" * n))
    for nk in range(0, 22):
        for nops in (201 - nk - 2, 201 - nk - 1, 201 - nk, 201 - nk + 1):
            if nops < 0:
                continue
            keys = [b"\x02" + bytes([i + 1]) * 32 for i in range(nk)]
            emit(ev(0, b"\x61" * nops + b"\xae", [b""] + [num(0)] + keys + [num(nk)]))
            emit(ev(0, b"\x61" * nops + b"\xaf\x51", [b""] + [num(0)] + keys + [num(nk)]))
    for n in (998, 999, 1000, 1001, 1002):
        st = [b"\x01"] * n
        emit(ev(0, b"", st))
        emit(ev(0, b"\x61", st))
        emit(ev(0, b"\x51", st))
        emit(ev(0, b"\x51\x75", st))
        emit(ev(0, b"\x76", st))
        emit(ev(0, b"\x6f\x6d\x75", st))
        emit(ev(0, b"\x6b" * 3 + b"\x51" * 3, st))
        emit(ev(0, b"\x6b\x6b\x76\x76\x76\x6c", st))
        emit(ev(0, b"\x51\x63\x51\x67\x52\x68", st))
        emit(ev(0, b"\x75\x75\x75", st))
    for n in (519, 520, 521, 522):
        d = b"\x5a" * n
        for fl in (0, F.VERIFY_MINIMALDATA):
            emit(ev(fl, push_form(d, 2)))
            emit(ev(fl, push_form(d, 4)))
            emit(ev(fl, b"\x00\x63" + push_form(d, 2) + b"\x68\x51"))
            emit(ev(fl, b"\x82", [d]))
            emit(ev(fl, b"\x76\x87", [d]))
    for n in (9999, 10000, 10001):
        emit(ev(0, b"\x51" + push_form(b"\x00" * 500, 2) * ((n - 1) // 503) + b"\x61" * ((n - 1) % 503)))
        emit(ev(0, (push_form(b"\x00" * 500, 2) + b"\x75") * (n // 504) + b"\x00" * (n % 504)))
    # every push form per length, minimal flag, executed and dead
    for n in (0, 1, 2, 75, 76, 255, 256, 257, 519, 520):
        for form in (0, 1, 2, 4):
            for d in ([bytes([0x42]) * n] + ([bytes([v]) for v in (0, 1, 16, 17, 0x80, 0x81)] if n == 1 else [])):
                s = push_form(d, form)
                for fl in (0, F.VERIFY_MINIMALDATA):
                    emit(ev(fl, s))
                    emit(ev(fl, s[:-1]))
                    emit(ev(fl, b"\x00\x63" + s + b"\x68\x51"))
                    emit(ev(fl, b"\x00\x63" + s[:-1]))
    for s in (b"\x4c", b"\x4d", b"\x4d\x01", b"\x4e", b"\x4e\x01\x00\x00", b"\x4c\x51", b"\x4d\x51", b"\x4d\x01\x51", b"\x4e\x00\x00\x51", b"\x4c\x00", b"\x4d\x00\x00",
              b"\x4e\x00\x00\x00\x00", b"\x4e\xff\xff\xff\xff", b"\x4e\xff\xff\xff\x7f\x01", b"\x4d\xff\xff"):
        for fl in (0, F.VERIFY_MINIMALDATA):
            emit(ev(fl, s))
            emit(ev(fl, b"\x51" + s + b"\x51"))
            emit(ev(fl, b"\x00\x63" + s + b"\x68"))


# ---------------------------------------------------------------- random programs

DEAD_FILL = [0x50, 0x62, 0x65, 0x66, 0x7e, 0x7f, 0x83, 0x8d, 0x95, 0x89, 0x8a, 0xba, 0xff, 0x61, 0xb0, 0xb3, 0x6a, 0xab, 0xac, 0x69, 0x87, 0x51, 0x00]
COMMON = [0x51, 0x52, 0x00, 0x4f, 0x60, 0x61, 0x69, 0x6b, 0x6c, 0x6d, 0x6e, 0x6f, 0x70, 0x71, 0x72, 0x73, 0x74, 0x75, 0x76, 0x77, 0x78, 0x79, 0x7a, 0x7b, 0x7c,
          0x7d, 0x82, 0x87, 0x88, 0x8b, 0x8c, 0x8f, 0x90, 0x91, 0x92, 0x93, 0x94, 0x9a, 0x9b, 0x9c, 0x9d, 0x9e, 0x9f, 0xa0, 0xa1, 0xa2, 0xa3, 0xa4, 0xa5,
          0xa6, 0xa7, 0xa8, 0xa9, 0xaa, 0xab, 0xb0, 0xb1, 0xb2, 0xb3]


def rnd_program(rng, depth0=0, maxlen=30):
    """stack-typed synthesis: ops mostly chosen to fit the abstract depth; IF blocks nested"""
    out = bytearray()
    depth = depth0
    open_ifs = 0
    n = rng.randint(1, maxlen)
    for _ in range(n):
        r = rng.random()
        if r < 0.25 or depth == 0:
            d = rnd_operand(rng)
            if len(d) > 520 and rng.random() < 0.9:
                d = d[:4]
            out += push(d) if rng.random() < 0.9 else push_form(d, rng.choice([0, 1, 2, 4]))
            depth += 1
        elif r < 0.37:
            k = rng.random()
            if k < 0.45:
                out += bytes([rng.choice([0x63, 0x64])])
                depth -= 1
                open_ifs += 1
            elif k < 0.7 and open_ifs:
                out.append(0x67)
            elif open_ifs:
                out.append(0x68)
                open_ifs -= 1
            else:
                out.append(rng.choice([0x67, 0x68]) if rng.random() < 0.1 else 0x61)
        elif r < 0.43:
            out.append(rng.choice(DEAD_FILL))
        elif r < 0.45:
            out.append(rng.randrange(256))
        else:
            cands = [o for o in COMMON if ARITY.get(o, 0) <= depth] or [0x51]
            o = rng.choice(cands)
            if o in (0x79, 0x7a) and rng.random() < 0.8:
                out += push(num(rng.randrange(0, max(1, depth - 1))))
            out.append(o)
            depth = max(0, depth + {0x6d: -2, 0x6e: 2, 0x6f: 3, 0x70: 2, 0x75: -1, 0x76: 1, 0x77: -1, 0x78: 1, 0x7d: 1, 0x82: 1, 0x87: -1, 0x88: -2,
                                    0x93: -1, 0x94: -1, 0xa5: -2, 0x69: -1, 0x6b: -1, 0x6c: 1, 0x74: 1, 0x51: 1, 0x52: 1, 0x00: 1, 0x4f: 1, 0x60: 1}.get(o, -1 if 0x9a <= o <= 0xa4 else 0))
    if rng.random() < 0.85:
        out += b"\x68" * open_ifs
    return bytes(out)


def gen_random(ctx, emit):
    rng = ctx.rng
    for _ in range(ctx.n(2500, 150000)):
        d0 = rng.choice([0, 0, 1, 2, 3, 6])
        stack = [rnd_operand(rng) for _ in range(d0)]
        emit(ev(rnd_flags(rng), rnd_program(rng, d0), stack, wit=1 if rng.random() < 0.15 else 0, ctx=rng.choice(CTXS)))
    for _ in range(ctx.n(500, 30000)):
        s = bytes(rng.randrange(256) for _ in range(rng.randint(1, 10)))
        emit(ev(rnd_flags(rng), s, [rnd_operand(rng) for _ in range(rng.randrange(4))]))
    # conditionals: random IF/NOTIF/ELSE/ENDIF skeletons with dead filler
    for _ in range(ctx.n(600, 30000)):
        out = bytearray()
        for _i in range(rng.randint(1, 12)):
            r = rng.random()
            if r < 0.3:
                out += bytes([rng.choice([0x00, 0x51, 0x51, 0x52, 0x4f]), rng.choice([0x63, 0x64])])
            elif r < 0.4:
                out.append(rng.choice([0x63, 0x64]))
            elif r < 0.6:
                out.append(0x67)
            elif r < 0.85:
                out.append(0x68)
            else:
                out.append(rng.choice(DEAD_FILL))
        emit(ev(rng.choice([0, 0, F.VERIFY_MINIMALIF, FLAG_BITS]), bytes(out) + (b"\x51" if rng.random() < 0.7 else b""),
                [rnd_operand(rng) for _ in range(rng.randrange(3))], wit=rng.randrange(2)))


from props import c03m_gensig as _sig  # noqa: E402


def gen(ctx, emit):
    gen_units(ctx, emit)
    gen_encodings(ctx, emit)
    gen_optable(ctx, emit)
    gen_limits(ctx, emit)
    gen_random(ctx, emit)
    _sig.gen_sigs(ctx, emit)
    _sig.gen_verify(ctx, emit)
