"""C03 generators for quantifier items the earlier rounds did not produce (audit docs/CLAUSE_MAP.md, C03 rows Q4 and S21):

* multi-input transactions (2-5 inputs) validated at EVERY input index, with real signatures over the consensus digest of THAT
  index (SIGHASH_ALL / NONE / SINGLE with and without a matching output / ANYONECANPAY, and non-standard hash-type bytes) for bare,
  P2SH, P2WPKH, P2WSH, P2SH-P2WPKH and P2SH-P2WSH spends; amounts that matter for witness inputs (0, 1, 2^63, 21e14); per-input
  sequences, lock time and version around the CLTV / CSV thresholds evaluated at index > 0 (CSV reads THIS input's sequence, CLTV
  fails when THIS input's sequence is final); near-miss signatures (made for another index, another amount, output 0 instead of
  output idx, another input's sequence) that consensus rejects;
* native and P2SH-wrapped P2WPKH rows of the deterministic pipeline table (witness item count 0/1/3, program sizes 19/21/31/33,
  uncompressed / hybrid key under WITNESS_PUBKEYTYPE, non-empty scriptSig for native, superfluous scriptSig pushes for wrapped,
  witness on a non-witness spend), each under every flag class of that table.

All of these are `spec_verify` cases: the verdict comes from the Lean consensus spec, the digests of the signatures from
harness/sighashlib.py (not from pycoin), the transaction bytes from txlib.ref_wire (not from pycoin's serialiser)."""
from __future__ import annotations

import txlib
import sighashlib as SH
import c03spec as S
from c03spec import F, Case

from pycoin.ecdsa.secp256k1 import secp256k1_generator as G


def _C():
    from props import c03
    return c03


FINAL = 0xFFFFFFFF
STD_HT = [1, 2, 3, 0x81, 0x82, 0x83]
ODD_HT = [0, 4, 0x80, 0x41, 0xFF, 0x21, 0x1F, 0x23, 0xC3, 0x7F]
WITNESS_AMOUNTS = [0, 1, 2 ** 63, 21 * 10 ** 14]
KINDS = [("bare", "pk"), ("bare", "pkh"), ("bare", "ms"), ("p2sh", "ms"), ("p2sh", "pk"), ("p2wpkh", "wpkh"), ("p2sh-p2wpkh", "wpkh"),
         ("p2wsh", "ms"), ("p2wsh", "pk"), ("p2sh-p2wsh", "ms"), ("p2sh-p2wsh", "pkh"), ("p2sh", "pkh")]


def sign_digest(ki: int, digest: bytes, ht: int) -> bytes:
    C = _C()
    r, s = G.sign(C.SECRETS[ki], int.from_bytes(digest, "big"))
    if s > S.N // 2:
        s = S.N - s
    return C.der_sig(r, s) + bytes([ht & 0xFF])


class Spend:
    """one input: wrapper kind x inner template, keys, optional prefix (a CLTV / CSV snippet) in front of the inner script"""

    def __init__(self, kind, templ, keys, m=1, prefix=b"", keyform="c"):
        C = _C()
        self.kind, self.templ, self.keys, self.m = kind, templ, list(keys), m
        self.pks = [C.sec(k, keyform) for k in self.keys]
        if templ == "wpkh":
            self.inner = C.sc("DUP", "HASH160", S.push(C.h160(self.pks[0])), "EQUALVERIFY", "CHECKSIG")
            self.signers = self.keys[:1]
        elif templ == "pk":
            self.inner = prefix + C.sc(S.push(self.pks[0]), "CHECKSIG")
            self.signers = self.keys[:1]
        elif templ == "pkh":
            self.inner = prefix + C.sc("DUP", "HASH160", S.push(C.h160(self.pks[0])), "EQUALVERIFY", "CHECKSIG")
            self.signers = self.keys[:1]
        else:
            self.inner = prefix + C.sc(S.push_int(m), *[S.push(p) for p in self.pks], S.push_int(len(self.pks)), "CHECKMULTISIG")
            self.signers = self.keys[:m]
        self.sv = "1" if kind in ("p2wpkh", "p2sh-p2wpkh", "p2wsh", "p2sh-p2wsh") else "0"

    def digest(self, f, idx, amount, ht):
        if self.sv == "1":
            return SH.bip143_sighash("btc", f, idx, self.inner, amount, ht)
        return SH.legacy_sighash("btc", f, idx, self.inner, ht)

    def finish(self, sigs):
        """(scriptSig, scriptPubKey, witness) once the signatures are known"""
        C = _C()
        if self.templ == "wpkh":
            spk0 = C.sc(0, S.push(C.h160(self.pks[0])))
            wit = [sigs[0], self.pks[0]]
            if self.kind == "p2wpkh":
                return b"", spk0, wit
            return S.push(spk0), C.sc("HASH160", S.push(C.h160(spk0)), "EQUAL"), wit
        if self.templ == "pk":
            stack = [sigs[0]]
        elif self.templ == "pkh":
            stack = [sigs[0], self.pks[0]]
        else:
            stack = [b""] + list(sigs)
        c = C.wrap(None, self.kind, self.inner, stack, 0, "1:0:0:0")
        return c.a[0], c.a[1], list(c.a[2])


def outpoint(j):
    return bytes([0x31 + j]) * 32, (7 * j + 1) % 5


def build_multi(spends, version, lock_time, seqs, amounts, outs, hts, miss=None):
    """sign every input over the reference digest of ITS index and return (fields, [(scriptSig, scriptPubKey, witness)]).
    hts[j]: hash type of input j (an int, or a list with one entry per signer).  miss = (j, what): input j is signed over a digest
    consensus does not prescribe for it: what in other-index | output-0 | other-seq | amount+1 | amount-1 | version+1 | locktime+1"""
    k = len(spends)
    skel = [(outpoint(j)[0], outpoint(j)[1], b"", seqs[j], []) for j in range(k)]
    f0 = (version, lock_time, skel, outs)
    parts = []
    for j, sp in enumerate(spends):
        fd, jd, amt = f0, j, amounts[j]
        if miss is not None and miss[0] == j:
            what = miss[1]
            if what == "other-index":
                jd = (j - 1) % k
            elif what == "output-0":
                # the digest SIGHASH_SINGLE would have if it committed to output 0 instead of output j
                sw = list(outs)
                if j < len(sw):
                    sw[0], sw[j] = sw[j], sw[0]
                fd = (version, lock_time, skel, sw)
            elif what == "other-seq":
                sk = list(skel)
                o = (j - 1) % k
                a, b = sk[j], sk[o]
                sk[j], sk[o] = a[:3] + (b[3],) + a[4:], b[:3] + (a[3],) + b[4:]
                fd = (version, lock_time, sk, outs)
            elif what == "amount+1":
                amt = amt + 1
            elif what == "amount-1":
                amt = amt - 1
            elif what == "version+1":
                fd = ((version + 1) & 0xFFFFFFFF, lock_time, skel, outs)
            elif what == "locktime+1":
                fd = (version, (lock_time + 1) & 0xFFFFFFFF, skel, outs)
            else:
                raise ValueError(what)
        hl = hts[j] if isinstance(hts[j], (list, tuple)) else [hts[j]] * len(sp.signers)
        sigs = [sign_digest(ki, sp.digest(fd, jd, amt, hl[n]), hl[n]) for n, ki in enumerate(sp.signers)]
        parts.append(sp.finish(sigs) + (sigs,))
    f = (version, lock_time, [(skel[j][0], skel[j][1], parts[j][0], seqs[j], parts[j][2]) for j in range(k)], outs)
    return f, parts


def cases_of(f, spends, parts, amounts, flags, which, tag, out):
    """one spec_verify case per input index in `which` (the whole transaction travels in the context)"""
    txhex = txlib.ref_wire(f).hex()
    version, lock_time, ins, _outs = f
    for j in which:
        ssig, spk, wit, sigs = parts[j]
        ctx = S.fmt_ctx(version, lock_time, ins[j][3], amounts[j], txhex, j)
        c = Case("verify", flags, (ssig, spk, list(wit)), ctx, tag=tag)
        sp = spends[j]
        if len(sigs) == 1:
            c.hints = [(sigs[0], sp.pks[0], sp.inner, sp.sv)]
        out.append(c)


def std_outs(n):
    C = _C()
    pool = [(5000, C.sc("DUP", "HASH160", S.push(b"\x5a" * 20), "EQUALVERIFY", "CHECKSIG")), (0, b"\x6a"), (21 * 10 ** 14, b"\x51"), (1, b""),
            (2 ** 63, C.sc(0, S.push(b"\x07" * 32))), (7, b"\x6a" * 253)]
    return pool[:n]


def spend_of(kind, templ, j, prefix=b"", keyform="c"):
    if templ == "ms":
        return Spend(kind, templ, [(j + 1) % 5, (j + 2) % 5, (j + 3) % 5], m=2, prefix=prefix, keyform=keyform)
    return Spend(kind, templ, [j % 5], prefix=prefix, keyform=keyform)


# ------------------------------------------------------------------------------------------------ deterministic tables
def multi_table(out, thorough):
    C = _C()
    W, P = F["WITNESS"], F["P2SH"]
    PW = P | W
    LOCK = PW | F["CHECKLOCKTIMEVERIFY"] | F["CHECKSEQUENCEVERIFY"]
    STD = C.STD
    # (a) every spend kind x the six standard hash types x input position against the number of outputs (SIGHASH_SINGLE with and
    #     without a matching output), validated at every index; the two other inputs rotate through the kinds and hash types
    n = 0
    for ki_, (kind, templ) in enumerate(KINDS):
        for hi, ht in enumerate(STD_HT):
            for idx, n_out in ((1, 1), (1, 2), (2, 3), (2, 2)):
                n += 1
                spends, hts = [], []
                for j in range(3):
                    if j == idx:
                        spends.append(spend_of(kind, templ, j))
                        hts.append(ht)
                    else:
                        k2, t2 = KINDS[(ki_ + 3 * j + hi + 1) % len(KINDS)]
                        spends.append(spend_of(k2, t2, j))
                        hts.append(STD_HT[(hi + j + n) % 6])
                seqs = [FINAL, 0xFFFFFFFE, 5][n % 3:] + [FINAL, 0xFFFFFFFE, 5][:n % 3]
                amounts = [WITNESS_AMOUNTS[(n + j) % 4] for j in range(3)]
                f, parts = build_multi(spends, 1 + n % 2, [0, 499999999, 500000000][n % 3], seqs, amounts, std_outs(n_out), hts)
                for fl in ((PW, STD) if thorough else ((STD,) if n % 2 else (PW,))):
                    cases_of(f, spends, parts, amounts, fl, range(3), "multi-%s-%s" % (kind, templ), out)
    # (b) amounts of witness inputs at index > 0: the right amount, and a signature made for amount +- 1
    for kind, templ in [k for k in KINDS if "w" in k[0]]:
        for ai, amount in enumerate(WITNESS_AMOUNTS):
            for idx in (1, 2):
                for miss in (None, "amount+1" if amount < 2 ** 63 else "amount-1"):
                    spends = [spend_of("bare", "pk", 0), spend_of(kind, templ, 1) if idx == 1 else spend_of("p2wpkh", "wpkh", 1), spend_of(kind, templ, 2)]
                    amounts = [amount + 1, amount if idx == 1 else 3, amount if idx == 2 else 3]
                    f, parts = build_multi(spends, 2, 0, [0, 1, 2], amounts, std_outs(2), [1, STD_HT[ai], STD_HT[(ai + 3) % 6]],
                                           miss=None if miss is None else (idx, miss))
                    cases_of(f, spends, parts, amounts, PW if ai % 2 else STD, [idx], "multi-amount" + ("" if miss is None else "-miss"), out)
    # (c) near misses at index > 0: signatures over a digest consensus does not prescribe for this input
    for ki_, (kind, templ) in enumerate(KINDS):
        for idx in (1, 2):
            for what, ht in (("other-index", 1), ("other-index", 0x81), ("output-0", 3), ("output-0", 0x83), ("other-seq", 1), ("other-seq", 0x82),
                             ("version+1", 2), ("locktime+1", 0x83)):
                if what == "other-seq" and ht == 0x82 and Spend(kind, templ, [0]).sv == "0":
                    pass  # legacy ANYONECANPAY|NONE still commits to this input's sequence: a miss
                spends = [spend_of(KINDS[(ki_ + 5) % len(KINDS)][0], KINDS[(ki_ + 5) % len(KINDS)][1], 0), None, None]
                spends[idx] = spend_of(kind, templ, idx)
                spends[3 - idx] = spend_of("bare", "pkh", 3 - idx)
                amounts = [1000, 2000, 3000]
                f, parts = build_multi(spends, 1, 7, [3, 4, 5], amounts, std_outs(3), [1, ht, ht], miss=(idx, what))
                cases_of(f, spends, parts, amounts, PW, [idx], "multi-miss-" + what, out)
    # (d) CLTV / CSV evaluated at index > 0: operand, lock time / version, THIS input's sequence, the OTHER inputs' sequence
    D, T = 1 << 31, 1 << 22
    cltv = [(100, 100, 0xFFFFFFFE, FINAL), (100, 100, FINAL, 0), (101, 100, 0, FINAL), (100, 101, 0, 0), (500000000, 500000001, 5, FINAL),
            (499999999, 500000000, 5, 5), (500000000, 499999999, 5, 5), (0, 0, 0, FINAL), (0xFFFFFFFF, 0xFFFFFFFF, 0xFFFFFFFE, FINAL), (-1, 100, 0, 0),
            (0, 0, FINAL, 0)]
    csv = [(10, 2, 10, 9), (10, 2, 9, 10), (10, 1, 10, 10), (10, 2, 10 | D, 10), (10, 2, 10, 10 | D), (T | 10, 2, T | 10, 10), (T | 10, 2, 10, T | 10),
           (D | 10, 1, FINAL, 0), (0xFFFF, 2, 0xFFFF | (1 << 23), 0), (10, 0xFFFFFFFF, 10, 0), (10, 0, 10, 10), (0, 2, 0, D), (-1, 2, 10, 10),
           (10, 2, FINAL, 10), (10, 3, 11, 0)]
    rows = [("CHECKLOCKTIMEVERIFY", n_, 1, lt, sq, oq) for n_, lt, sq, oq in cltv] + [("CHECKSEQUENCEVERIFY", n_, ver, 0, sq, oq) for n_, ver, sq, oq in csv]
    for ri, (opn, operand, ver, lt, sq, oq) in enumerate(rows):
        prefix = C.sc(S.push_int(operand), opn, "DROP")
        for wi, (kind, templ) in enumerate((("bare", "pk"), ("p2sh", "pk"), ("p2wsh", "pk"), ("p2sh-p2wsh", "ms"), ("bare", "ms"), ("p2sh", "pkh"), ("p2wsh", "pkh"))):
            if not thorough and wi >= 4 and (ri + wi) % 3:
                continue
            k = 2 + (ri + wi) % 2
            idx = k - 1 if wi % 2 == 0 else 1
            spends = [spend_of("bare", "pk", j) for j in range(k)]
            spends[idx] = spend_of(kind, templ, idx, prefix=prefix)
            seqs = [oq] * k
            seqs[idx] = sq
            amounts = [1000 + j for j in range(k)]
            f, parts = build_multi(spends, ver, lt, seqs, amounts, std_outs(2), [STD_HT[(ri + j) % 6] for j in range(k)])
            for fl in (LOCK, STD, PW):
                cases_of(f, spends, parts, amounts, fl, [idx] if fl != LOCK else range(k), "multi-locktime", out)


def multi_scenarios(rng, n, out):
    """seeded: 2-5 inputs of random kinds, hash types (standard and not), sequences, lock time, version, amounts, outputs, flags;
    one input in five carries a near-miss signature; every index is validated"""
    C = _C()
    D, T = 1 << 31, 1 << 22
    for _ in range(n):
        k = rng.choice([2, 2, 3, 3, 4, 5])
        version = rng.choice([1, 2, 2, 3, 0, 0xFFFFFFFF, 0x80000000])
        lock_time = rng.choice([0, 1, 100, 499999999, 500000000, 500000001, 0xFFFFFFFF, rng.getrandbits(32)])
        seqs = [rng.choice([FINAL, 0xFFFFFFFE, 0, 1, 10, 0xFFFF, 0x10000, T, T | 7, D, D | 9, 0x7FFFFFFF, rng.getrandbits(32)]) for _j in range(k)]
        n_out = rng.choice([0, 1, 1, 2, k - 1, k, k + 1])
        outs = [(rng.choice([0, 1, 5000, 2 ** 63, 21 * 10 ** 14, rng.getrandbits(64)]), rng.choice([b"", b"\x51", b"\x6a", b"\x6a" * 253, bytes(rng.getrandbits(8) for _b in range(25))]))
                for _o in range(n_out)]
        spends, hts, amounts = [], [], []
        for j in range(k):
            kind, templ = rng.choice(KINDS)
            prefix = b""
            if templ != "wpkh" and rng.random() < 0.3:
                if rng.random() < 0.5:
                    operand = rng.choice([lock_time, lock_time, max(lock_time - 1, 0), lock_time + 1, 0, 499999999, 500000000, -1])
                    prefix = C.sc(S.push_int(operand), "CHECKLOCKTIMEVERIFY", "DROP")
                else:
                    q = seqs[j]
                    operand = rng.choice([q & 0x7FFFFFFF, q & (T | 0xFFFF), (q & (T | 0xFFFF)) + 1, max((q & 0xFFFF) - 1, 0), 0, 10, T | 10, D | 10, -1])
                    prefix = C.sc(S.push_int(operand), "CHECKSEQUENCEVERIFY", "DROP")
            keyform = "c" if rng.random() < 0.85 else rng.choice(["u", "h"])
            if templ == "ms":
                nk = rng.choice([1, 2, 3, 3])
                sp = Spend(kind, templ, [rng.randrange(5) for _q in range(nk)], m=rng.randint(1, nk), prefix=prefix, keyform=keyform)
            else:
                sp = Spend(kind, templ, [rng.randrange(5)], prefix=prefix, keyform=keyform)
            spends.append(sp)
            hts.append([rng.choice(STD_HT) if rng.random() < 0.8 else rng.choice(ODD_HT) for _s in sp.signers])
            amounts.append(rng.choice(WITNESS_AMOUNTS + [12345678, 2 ** 64 - 1]))
        miss = None
        if rng.random() < 0.2:
            j = rng.randrange(k)
            what = rng.choice(["other-index", "output-0", "other-seq", "version+1", "locktime+1"] + (["amount+1"] if amounts[j] < 2 ** 64 - 1 else ["amount-1"]))
            miss = (j, what)
        f, parts = build_multi(spends, version, lock_time, seqs, amounts, outs, hts, miss=miss)
        flags = C.rand_verify_flags(rng) if rng.random() < 0.6 else rng.choice([F["P2SH"] | F["WITNESS"], C.STD,
                                                                                  F["P2SH"] | F["WITNESS"] | F["CHECKLOCKTIMEVERIFY"] | F["CHECKSEQUENCEVERIFY"]])
        cases_of(f, spends, parts, amounts, flags, range(k), "multi-random" + ("-miss" if miss else ""), out)


# ------------------------------------------------------------------------------------------------ P2WPKH rows of the pipeline table
def p2wpkh_table(out, thorough):
    """native and P2SH-wrapped P2WPKH (and witnesses on non-witness spends) x every flag class of pipeline_table (+ WITNESS_PUBKEYTYPE alone)"""
    C = _C()
    W, P = F["WITNESS"], F["P2SH"]
    STD = C.STD
    flag_sets = [0, P, P | W, P | W | F["CLEANSTACK"], STD, STD & ~F["DISCOURAGE_UPGRADABLE_WITNESS_PROGRAM"], P | F["SIGPUSHONLY"], P | W | F["MINIMALIF"],
                 F["SIGPUSHONLY"], P | W | F["WITNESS_PUBKEYTYPE"], P | W | F["NULLFAIL"], P | W | F["STRICTENC"]]
    amount = 1000
    info = Case("eval", 0, (b"", []), C.fixed_ctx(amount=amount)).txinfo()
    info1 = Case("eval", 0, (b"", []), C.fixed_ctx(amount=amount + 1)).txinfo()
    p2pkh = lambda pk: C.sc("DUP", "HASH160", S.push(C.h160(pk)), "EQUALVERIFY", "CHECKSIG")
    rows = []   # (name, scriptSig for native | None = not applicable, program, witness)
    pk, pku, pkh_, other = C.sec(0, "c"), C.sec(0, "u"), C.sec(0, "h"), C.sec(1, "c")
    code = p2pkh(pk)
    sig = C.sign(info, 0, code, 1, "1", high_s=False)
    sig83 = C.sign(info, 0, code, 0x83, "1", high_s=False)
    sig_legacy = C.sign(info, 0, code, 1, "0", high_s=False)
    sig_amt = C.sign(info1, 0, code, 1, "1", high_s=False)
    sig_u = C.sign(info, 0, p2pkh(pku), 1, "1", high_s=False)
    sig_h = C.sign(info, 0, p2pkh(pkh_), 1, "1", high_s=False)
    prog = C.h160(pk)
    rows += [("ok", prog, [sig, pk]), ("ok-ht83", prog, [sig83, pk]), ("wit0", prog, []), ("wit1-sig", prog, [sig]), ("wit1-key", prog, [pk]),
             ("wit3-dummy", prog, [b"", sig, pk]), ("wit3-extra", prog, [sig, pk, b"\x01"]), ("wit3-keys", prog, [sig, pk, pk]),
             ("prog19", prog[:19], [sig, pk]), ("prog21", prog + b"\x00", [sig, pk]), ("prog31", C.sha256(code)[:31], [sig, pk]),
             ("prog31-script", C.sha256(code)[:31], [sig, pk, code]), ("prog33", C.sha256(code) + b"\x00", [sig, pk]),
             ("prog33-script", C.sha256(code) + b"\x00", [sig, pk, code]), ("prog32-p2pkh-script", C.sha256(code), [sig, pk, code]),
             ("uncompressed", C.h160(pku), [sig_u, pku]), ("hybrid", C.h160(pkh_), [sig_h, pkh_]), ("uncompressed-empty-sig", C.h160(pku), [b"", pku]),
             ("wrong-key", prog, [sig, other]), ("key-for-other-hash", C.h160(other), [sig, pk]), ("sig-legacy-digest", prog, [sig_legacy, pk]),
             ("sig-other-amount", prog, [sig_amt, pk]), ("empty-sig", prog, [b"", pk]), ("sig-and-key-swapped", prog, [pk, sig])]
    for name, pr, wit in rows:
        spk0 = C.sc(0, S.push(pr))
        p2sh_spk = C.sc("HASH160", S.push(C.h160(spk0)), "EQUAL")
        shapes = [("native", b"", spk0)]
        if name in ("ok", "wit1-sig", "wit3-dummy", "uncompressed"):
            shapes += [("native-sig-00", b"\x00", spk0), ("native-sig-51", b"\x51", spk0), ("native-sig-61", b"\x61", spk0),
                       ("native-sig-push-program", S.push(spk0), spk0)]
        shapes.append(("wrapped", S.push(spk0), p2sh_spk))
        if name in ("ok", "wit1-sig", "wit3-dummy", "uncompressed"):
            shapes += [("wrapped-sig+push-before", b"\x51" + S.push(spk0), p2sh_spk), ("wrapped-sig+sigpush-before", S.push(sig) + S.push(spk0), p2sh_spk),
                       ("wrapped-sig-pushdata1", C.push_form(spk0, 1), p2sh_spk), ("wrapped-sig+nop-before", b"\x61" + S.push(spk0), p2sh_spk),
                       ("wrapped-sig+nop-after", S.push(spk0) + b"\x61", p2sh_spk), ("wrapped-sig-empty", b"", p2sh_spk),
                       ("wrapped-sig-twice", S.push(spk0) + S.push(spk0), p2sh_spk)]
        for sname, ssig, spk in shapes:
            for fl in flag_sets:
                out.append(Case("verify", fl, (ssig, spk, list(wit)), C.fixed_ctx(ssig, wit, amount=amount), tag="ptable-p2wpkh-" + sname.split("-")[0]))
    # a witness on a spend that is not a witness spend (WITNESS_UNEXPECTED), with signatures that are otherwise fine
    legacy_code = p2pkh(pk)
    lsig = C.sign(info, 0, legacy_code, 1, "0", high_s=False)
    redeem = C.sc(S.push(pk), "CHECKSIG")
    rsig = C.sign(info, 0, redeem, 1, "0", high_s=False)
    unexpected = [(C.pushes([lsig, pk]), legacy_code), (C.pushes([rsig]), redeem),
                  (C.pushes([rsig]) + S.push(redeem), C.sc("HASH160", S.push(C.h160(redeem)), "EQUAL")),
                  (b"", b"\x51"), (S.push(b"\x51"), C.sc("HASH160", S.push(C.h160(b"\x51")), "EQUAL"))]
    for ssig, spk in unexpected:
        for wit in ([], [b"\x01"], [b""], [sig, pk]):
            for fl in flag_sets:
                out.append(Case("verify", fl, (ssig, spk, list(wit)), C.fixed_ctx(ssig, wit, amount=amount), tag="ptable-witness-unexpected"))
