"""C15 — header-chain tracking (pycoin/blockchain/BlockChain.py, ChainFinder.py).

One op describes a whole history:

    c15 <anchor> <iter> <headers> <steps>

    anchor   the parent_hash the BlockChain is created with (a number; hashes are numbers)
    iter     0 | 1: iteration order of the sets inside ChainFinder (insertion order | reversed); CPython leaves it
             unspecified, the harness pins it so that ties between equally heavy chains are reproducible
    headers  h:p:w,h:p:w,…   the forest: hash, previous_block_hash, difficulty (hash unique)
    steps    step,step,…     A<h>.<h>…[!r.r.…]   add_headers([those headers in that order]) (duplicates allowed, may be empty)
                             L<index>[!r.r.…]     lock_to_index(index)
                             P<h>.<h>…            preload_locked_blocks([those headers]) (the theorems cover it as the first call on a
                                                  fresh object, with a chain from the anchor; the generator emits it only there)
             after `!` comes the scripted pop order of the set that `meld_new_hashes` drains during that call: `pop()`
             returns the first listed hash that is still in the set, else the oldest member

Answer: `ok <step>|<step>|…`, each step
    ops=<+h@i.-h@i…>;cb=<same, as seen by the change callback>;lk=<start>:<h:p:w.…> what did_lock_to_index_f was called with (~: not called);
    len=N;locked=K;chain=h.h.h (hash_for_index 0..N-1);last=h;idx=h:i.h:-.… (index_for_hash of every header);
    tup=h:p:w.… (tuple_for_index 0..N-1);neg=h.h… (hash_for_index -1..-N);oob=x,y (hash_for_index(-N-1), hash_for_index(N): a hash or E for
    IndexError; correspondence only);nt=h:p:w (tuple_for_index(-1), E when it raises);ul=unlocked_length();known=bits (is_hash_known of every header);
    q=<+h@i…> the queue of a consumer that feeds every callback's ops through BlockChain._update_q
or `err <ExceptionClass>` for the step that raised (the history stops there), or `outside` for a `lock_to_index` beyond the
reported chain (outside the property: the call is not made and the history stops).
"""
from __future__ import annotations

import itertools

import pycoin.blockchain.ChainFinder as _cfmod
from pycoin.blockchain.BlockChain import BlockChain, _update_q

MANIFEST = {
    "text": "Lean theorems over an executable model of ChainFinder (load_nodes/meld_new_hashes with the set.pop() order a parameter, "
            "maximum_path, find_ancestral_path) and BlockChain (add_headers, lock_to_index, preload_locked_blocks, every lookup incl. negative indices, "
            "locked_length/unlocked_length, is_hash_known, the did_lock_to_index_f arguments, the queue helper _update_q), by induction over arbitrary "
            "histories and, inside each call, over the melding loop with an invariant relative to the pending set. For every forest, batching, pop order "
            "and interleaving of lock_to_index: the finder ends sound and complete (C15_chainfinder_inv); parent_lookup and weight_lookup record exactly "
            "the delivered headers that are not locked, _locked_chain is the concatenation of the items handed to did_lock_to_index_f and a chain of "
            "delivered headers from the first anchor (C15_dicts_record_delivered, _exact); hence, with Delivered(history) = all headers of all batches and "
            "no hypothesis on what the dicts hold, the reported chain is a chain of Spec.Chain from the first anchor and its unlocked part a "
            "maximum-total-weight chain from the current anchor among ALL delivered headers (C15_heaviest_over_spec; C15_heaviest_extending_locked: heaviest "
            "among the chains from the first anchor that extend the locked prefix; C15_heaviest_no_lock: heaviest outright when nothing was locked); "
            "replaying all returned ops from the empty list reproduces the reported chain (C15_replay_ops) and so does the queue a consumer keeps through "
            "_update_q (C15_update_q); length, tuple_for_index (hash, parent, weight; locked and unlocked part), hash_for_index (also -1..-length), "
            "index_for_hash (None off the chain), is_hash_known, last_block_hash, locked_length, unlocked_length agree with that one chain "
            "(C15_index_maps_agree, C15_lookups_over_spec); lock_to_index emits no ops and calls did_lock_to_index_f with the newly locked items and the old "
            "locked length exactly when something new is locked (C15_lock_callback); the same from an object with a preloaded locked prefix "
            "(C15_preloaded_history); well-formed histories never raise (C15_never_raises). The pre-repair meld_new_hashes is refuted on the three-header witness. "
            "Model tied to the code by differential correspondence on whole histories (all forests on <=3 headers x weights x batchings x pop orders, "
            "samples of 4..6, random histories with forks, orphans, duplicates, zero weights, locks and preloaded prefixes, two objects fed interleaved, "
            "_update_q on arbitrary queues) and a reference oracle on the implementation; the finder invariant is also evaluated on the real objects after "
            "every step (op c15inv).",
    "note": "set.pop()/iteration order is pinned by a set subclass bound to the name `set` in the ChainFinder module namespace (no source change). "
            "Three defects repaired earlier (fix: commits): lost orphan subtrees in meld_new_hashes, chain switch at lock_to_index on ties, "
            "locked duplicate wiping the unlocked chain. C15_heaviest_over_spec_partial is kept; its hypothesis is what C15_dicts_record_delivered proves. "
            "What the code keeps after lock_to_index: every registered header except the newly locked ones, i.e. also side branches hanging below the lock "
            "point; they can no longer reach the current anchor (their top is a locked hash or the first anchor, which have no entry), the maximality "
            "statement is over all delivered headers anyway. weight_lookup/unlocked_block_storage are never pruned. Hypotheses that remain: no delivered "
            "header carries the first anchor's hash; a hash names one header (Spec.Chain.Consistent) for the statements against the specification. "
            "Observed, outside the property: tuple_for_index(i) for i < -length() hands the still negative index to _locked_chain[i], which wraps around "
            "instead of raising (model and code agree; not judged). Two objects created without a storage argument share the default dict "
            "unlocked_block_storage; with real hashes (one header per hash) the ops are unaffected.",
    "technique": "Lean 4 proof (induction over histories and over the melding loop of an executable model) + differential correspondence model vs implementation + reference oracle",
}
RULE = ("one op = one history (forest, delivery order and batching, lock_to_index calls, optional preloaded prefix, scripted pop order) or one "
        "_update_q call; distinct = distinct op line; trivial = fewer than two add_headers steps or a forest that is a single chain delivered in order")
ASSUMPTIONS = ["hashes are distinct numbers standing in for header hashes; the headers form a forest (no cycles) and no header has the anchor as its own hash",
               "a hash names one header: a re-delivered header equals the stored one (the harness compares header objects by hash)",
               "CPython set iteration/pop order is unspecified: the harness pins it (insertion order or its reverse; scripted pop) and the theorems hold for every order",
               "after lock_to_index the 'anchor' is the last locked block: maximality is among chains extending the locked prefix",
               "preload_locked_blocks is covered as the first call on a fresh object with a chain of distinct headers from the anchor"]
TRUSTED = ["harness/props/c15.py ScriptedSet: a `set` subclass with a scripted pop order, bound to the name `set` in pycoin.blockchain.ChainFinder's module namespace"]


# ------------------------------------------------------------------ scripted sets (DESIGN §2.4)

class _Script:
    rank: list = []
    rev: bool = False


class ScriptedSet(set):
    """a set whose pop()/iteration order is fixed: insertion order (or reversed), pop() by the scripted ranking"""

    def __init__(self, it=()):
        super().__init__()
        self._o = {}
        for x in it:
            self.add(x)

    def add(self, x):
        super().add(x)
        self._o.setdefault(x, None)

    def discard(self, x):
        super().discard(x)
        self._o.pop(x, None)

    def remove(self, x):
        super().remove(x)
        del self._o[x]

    def update(self, *others):
        for o in others:
            for x in list(o):
                self.add(x)

    def pop(self):
        if not self._o:
            raise KeyError("pop from an empty set")
        for r in _Script.rank:
            if r in self._o:
                x = r
                break
        else:
            x = next(iter(self._o))
        self.remove(x)
        return x

    def __iter__(self):
        ks = list(self._o)
        return iter(ks[::-1] if _Script.rev else ks)


# `set()` inside ChainFinder.load_nodes / meld_new_hashes resolves through the module namespace first
_cfmod.set = ScriptedSet


class Hdr(object):
    __slots__ = ("h", "previous_block_hash", "difficulty")

    def __init__(self, h, p, w):
        self.h = h
        self.previous_block_hash = p
        self.difficulty = w

    def hash(self):
        return self.h

    # a hash names one header: a re-delivered header is a new object that equals the old one (`_update_q` compares the
    # blocks inside ops; the model's ops carry the hash of the stored block).  By hash only: in the two-object histories
    # the objects share the default storage dict and the same number stands for different headers in the two forests
    def __eq__(self, o):
        return isinstance(o, Hdr) and self.h == o.h

    def __hash__(self):
        return hash(self.h)


class _Q(list):
    """the queue `_update_q` works on: `pop()` takes the newest entry, `put_nowait` appends"""
    put_nowait = list.append


# ------------------------------------------------------------------ op syntax

def parse_op(op: str):
    a = op.split(" ")
    anchor, rev = int(a[1]), a[2] == "1"
    hdrs = {}
    if a[3] != "~":
        for e in a[3].split(","):
            h, p, w = (int(x) for x in e.split(":"))
            hdrs[h] = (p, w)
    steps = []
    if a[4] != "~":
        for s in a[4].split(","):
            body, _, rk = s[1:].partition("!")
            rank = [int(x) for x in rk.split(".")] if rk else []
            if s[0] in "AP":
                steps.append((s[0], [int(x) for x in body.split(".")] if body else [], rank))
            else:
                steps.append(("L", int(body), rank))
    return anchor, rev, hdrs, steps


def show_op(anchor, rev, hdrs, steps) -> str:
    hs = ",".join("%d:%d:%d" % (h, p, w) for h, (p, w) in hdrs.items()) or "~"
    ss = []
    for k, body, rank in steps:
        s = k + (".".join(map(str, body)) if k in "AP" else str(body))
        if rank:
            s += "!" + ".".join(map(str, rank))
        ss.append(s)
    return "c15 %d %d %s %s" % (anchor, 1 if rev else 0, hs, ",".join(ss) or "~")


def _dots(xs):
    xs = list(xs)
    return ".".join(xs) if xs else "~"


def _show_ops(ops, hid=None):
    hid = hid or (lambda x: x)
    return _dots(("+" if o[0] == "add" else "-") + "%d@%d" % (hid(o[1].hash()) if o[1] is not None else -1, o[2]) for o in ops)


# ------------------------------------------------------------------ implementation

def _up_path(pl, t):
    if not t:
        return False
    for x, y in zip(t, t[1:]):
        if pl.get(x) != y:
            return False
    return t[-1] not in pl


def _inv_bits(bc) -> str:
    """the finder-side hypotheses of the theorems, evaluated on the real objects"""
    cf = bc.chain_finder
    pl, trees, dbt = cf.parent_lookup, cf.trees_from_bottom, cf.descendents_by_top
    sound = all(t and t[0] == b and _up_path(pl, t) for b, t in trees.items()) and \
        all(b in trees and trees[b][-1] == top for top, s in dbt.items() for b in s)
    covers = all(any(h in t and b in dbt.get(t[-1], ()) for b, t in trees.items()) for h in pl)
    c = bc._longest_chain_cache
    cache = True if c is None else _up_path(pl, list(c) + [bc.parent_hash])
    missing = {k for k in cf.missing_parents() if dbt[k]} == {p for p in pl.values() if p not in pl}
    return "%d%d%d%d" % (sound, covers, cache, missing)


def impl_inv(op: str) -> str:
    anchor, rev, hdrs, steps = parse_op(op)
    _Script.rev = rev
    bc = BlockChain(anchor, unlocked_block_storage={})
    out = []
    for k, body, rank in steps:
        _Script.rank = rank
        try:
            if k == "L" and body > bc.length():
                out.append("outside")
                break
            if k == "A":
                bc.add_headers([Hdr(h, *hdrs[h]) for h in body])
            elif k == "P":
                bc.preload_locked_blocks([Hdr(h, *hdrs[h]) for h in body])
            else:
                bc.lock_to_index(body)
            out.append(_inv_bits(bc))
        except Exception as e:  # noqa: BLE001
            out.append("err " + type(e).__name__)
            break
    return "ok " + ("|".join(out) if out else "~")


def _hx(f):
    try:
        return str(f())
    except IndexError:
        return "E"


def _show_item(t):
    return "%d:%d:%s" % (t[0], t[1], "-" if t[2] is None else t[2])


class _Runner(object):
    """one BlockChain object driven step by step; `out` collects what each step lets the outside see"""

    # hooks overridden by _RealRunner (real Block header objects): header object of an id, id of a hash the chain hands
    # out, the key a caller would look an id up with
    def mk(self, h):
        return Hdr(h, *self.hdrs[h])

    def hid(self, x):
        return x

    def key(self, h):
        return h

    def __init__(self, anchor, hdrs, shared_storage=False):
        self.hdrs = hdrs
        self.cb_seen = []
        self.lk_seen = []
        self.q = _Q()
        kw = {} if shared_storage else {"unlocked_block_storage": {}}
        self.bc = BlockChain(self.key(anchor), did_lock_to_index_f=lambda items, start: self.lk_seen.append((start, list(items))), **kw)

        def cb(bc, ops):
            self.cb_seen.append(list(ops))
            _update_q(self.q, ops)
        self._cb = cb   # kept alive here: callbacks are a WeakSet
        self.bc.add_change_callback(self._cb)
        self.out = []
        self.dead = False

    def step(self, k, body, rank):
        if self.dead:
            return
        bc, hdrs = self.bc, self.hdrs
        _Script.rank = rank
        del self.cb_seen[:]
        del self.lk_seen[:]
        try:
            if k == "L" and body > bc.length():
                # locking beyond the reported chain is outside the property: the history ends, the call is not made
                self.out.append("outside")
                self.dead = True
                return
            s_lk = "~"
            if k == "A":
                ops = bc.add_headers([self.mk(h) for h in body])
                s_ops = _show_ops(ops, self.hid)
                s_cb = _dots(_show_ops(o, self.hid) for o in self.cb_seen) if self.cb_seen else "none"
            elif k == "P":
                bc.preload_locked_blocks([self.mk(h) for h in body])
                s_ops, s_cb = "~", "~"
            else:
                bc.lock_to_index(body)
                s_ops, s_cb = "~", "~"
                if self.lk_seen:
                    s_lk = "/".join("%d:%s" % (st, _dots(_show_item(self.tup(t)) for t in items)) for st, items in self.lk_seen)
            n = bc.length()
            chain = [self.hid(bc.hash_for_index(i)) for i in range(n)]
            tups = [self.tup(bc.tuple_for_index(i)) for i in range(n)]
            neg = [self.hid(bc.hash_for_index(-i - 1)) for i in range(n)]
            oob = _hx(lambda: self.hid(bc.hash_for_index(-n - 1))) + "," + _hx(lambda: self.hid(bc.hash_for_index(n)))
            try:
                nt = _show_item(self.tup(bc.tuple_for_index(-1)))
            except IndexError:
                nt = "E"
            self.out.append("ops=%s;cb=%s;lk=%s;len=%d;locked=%d;chain=%s;last=%d;idx=%s;tup=%s;neg=%s;oob=%s;nt=%s;ul=%d;known=%s;q=%s" % (
                s_ops, s_cb, s_lk, n, bc.locked_length(), _dots(map(str, chain)), self.hid(bc.last_block_hash()),
                _dots("%d:%s" % (h, "-" if bc.index_for_hash(self.key(h)) is None else bc.index_for_hash(self.key(h))) for h in hdrs),
                _dots(_show_item(t) for t in tups),
                _dots(map(str, neg)), oob, nt, bc.unlocked_length(),
                "".join("1" if bc.is_hash_known(self.key(h)) else "0" for h in hdrs) or "~",
                self.show_q()))
        except Exception as e:  # noqa: BLE001
            self.out.append("err " + type(e).__name__)
            self.dead = True

    def tup(self, t):
        return (self.hid(t[0]), self.hid(t[1]), t[2])

    def show_q(self):
        return _show_ops(self.q, self.hid)

    def result(self):
        return "|".join(self.out) if self.out else "~"


class _RealRunner(_Runner):
    """the same history on REAL header objects of a network's Block class, each parsed from its wire bytes (so that
    previous_block_hash is what the wire parser produces and hash() what the class computes); ids <-> 32-byte hashes are
    translated at the boundary, lookups are made with plain bytes as a caller holding a hash from the wire would"""

    def __init__(self, net, anchor, hdrs):
        import hashlib, io
        import msglib as MS
        from pycoin.networks.registry import network_for_netcode
        self.net = network_for_netcode(net.upper())
        self._io, self._MS = io, MS
        self._bytes = {}     # id -> header bytes
        self._h = {}         # id -> 32-byte hash (plain bytes)
        self._id = {}        # plain bytes -> id
        self._abs = hdrs
        self._sha = lambda b: hashlib.sha256(hashlib.sha256(b).digest()).digest()
        for h in sorted(set(hdrs) | {anchor} | {p for p, _w in hdrs.values()}):
            self._real(h)
        _Runner.__init__(self, anchor, hdrs)

    def _real(self, h):
        if h in self._h:
            return self._h[h]
        if h not in self._abs:
            x = self._sha(b"header that was never delivered %d" % h)      # the anchor, or a parent nobody delivers
        else:
            p, w = self._abs[h]
            prev = self._real(p)
            root = self._sha(b"merkle root of %d" % h)
            if self.net.symbol.lower() in ("btg", "xtg"):
                # Equihash solutions of different lengths: serialised headers differ in length
                raw = self._MS.btg_header_bytes(2, prev, root, 491407 + h, 1700000000 + h, w, root, bytes([h & 255]) * (20 + 37 * (h % 4)))
            else:
                raw = self._MS.header_bytes(2, prev, root, 1700000000 + h, w, h)
            self._bytes[h] = raw
            x = bytes(self.net.block.parse_as_header(self._io.BytesIO(raw)).hash())
        self._h[h] = x
        self._id[x] = h
        return x

    def mk(self, h):
        return self.net.block.parse_as_header(self._io.BytesIO(self._bytes[h]))

    def hid(self, x):
        return self._id.get(bytes(x), -2) if x is not None else -1

    def key(self, h):
        return self._real(h)

    def step(self, k, body, rank):
        _Runner.step(self, k, body, [self._real(r) for r in rank])

    def show_q(self):
        """real Block objects compare by identity, so `_update_q` does not meld an add with the remove of a RE-DELIVERED copy of
        the same header (a new object); what the property speaks about is what the queued ops replay to: that list is shown as
        one add per position (the form the model's melded queue has), or the raw queue when it does not replay"""
        lst, base = [], None          # the queue starts at the first index it ever saw (a preloaded / locked prefix is not in it)
        for o in self.q:
            hh = self.hid(o[1].hash()) if o[1] is not None else -1
            if base is None and o[0] == "add":
                base = o[2]
            if o[0] == "add" and base is not None and o[2] == base + len(lst):
                lst.append(hh)
            elif o[0] == "remove" and lst and o[2] == base + len(lst) - 1 and lst[-1] == hh:
                lst.pop()
            else:
                return _show_ops(self.q, self.hid)
        return _dots("+%d@%d" % (hh, (base or 0) + i) for i, hh in enumerate(lst))


def parse_two(op: str):
    """c15two <iter> <anchorA> <headersA> <anchorB> <headersB> <steps>; every step is prefixed by 0 or 1 (the object)"""
    a = op.split(" ")
    subs = []
    for anchor, hs in ((a[2], a[3]), (a[4], a[5])):
        _an, _rev, hdrs, _st = parse_op("c15 %s %s %s ~" % (anchor, a[1], hs))
        subs.append((int(anchor), hdrs))
    tagged = []
    if a[6] != "~":
        for st in a[6].split(","):
            _an, _rev, _h, one = parse_op("c15 0 0 ~ " + st[1:])
            tagged.append((int(st[0]), one[0]))
    return a[1] == "1", subs, tagged


def sub_op(op: str, which: int) -> str:
    rev, subs, tagged = parse_two(op)
    return show_op(subs[which][0], rev, subs[which][1], [st for w, st in tagged if w == which])


def impl_two(op: str) -> str:
    rev, subs, tagged = parse_two(op)
    _Script.rev = rev
    runners = [_Runner(anchor, hdrs, shared_storage=True) for anchor, hdrs in subs]
    for w, (k, body, rank) in tagged:
        runners[w].step(k, body, rank)
    return "ok " + runners[0].result() + "#" + runners[1].result()


def _parse_qops(s):
    out = []
    if s != "~":
        for x in s.split("."):
            h, idx = x[1:].split("@")
            out.append(("add" if x[0] == "+" else "remove", None if h == "-1" else Hdr(int(h), 0, 0), int(idx)))
    return out


def _ref_update_q(q, ops):
    """reference for `_update_q`, written from its comment: leading removes that undo the newest queued entry (same block
    and index) cancel against it; the rest is queued; popping an empty queue raises"""
    q, ops = list(q), list(ops)
    while ops and ops[0][0] == "remove":
        if not q:
            return None
        if q[-1][1:] != ops[0][1:]:
            break
        q.pop()
        ops.pop(0)
    return q + ops


def impl_q(op: str) -> str:
    a = op.split(" ")
    q = _Q(_parse_qops(a[1]))
    try:
        _update_q(q, _parse_qops(a[2]))
    except Exception as e:  # noqa: BLE001
        return "err " + type(e).__name__
    return "ok " + _show_ops(q)


def impl(op: str) -> str:
    if op.startswith("c15q "):
        return impl_q(op)
    if op.startswith("c15inv "):
        return impl_inv(op)
    if op.startswith("c15two "):
        return impl_two(op)
    if op.startswith("c15real "):
        net, rest = op.split(" ", 2)[1:]
        anchor, rev, hdrs, steps = parse_op("c15 " + rest)
        _Script.rev = rev
        try:
            r = _RealRunner(net, anchor, hdrs)
        except Exception as e:  # noqa: BLE001
            return "err build " + type(e).__name__
        for k, body, rank in steps:
            r.step(k, body, rank)
        return "ok " + r.result()
    if not op.startswith("c15 "):
        return "bad-op"
    anchor, rev, hdrs, steps = parse_op(op)
    _Script.rev = rev
    r = _Runner(anchor, hdrs)
    for k, body, rank in steps:
        r.step(k, body, rank)
    return "ok " + r.result()


# ------------------------------------------------------------------ oracle: the property on the implementation alone

def _best_weight(anchor, delivered, hdrs, locked):
    """maximum total weight of a chain of delivered headers descending from `anchor`; chains may not pass through a
    locked block (those lie below the anchor or on abandoned forks of the locked prefix)"""
    memo = {}

    def up(h):
        # weight of the path h .. child-of-anchor, or None when h does not descend from the anchor
        stack = []
        while h not in memo:
            if h == anchor:
                break
            if h not in delivered or h in locked:
                memo[h] = None
                break
            stack.append(h)
            h = hdrs[h][0]
        base = 0 if h == anchor else memo[h]
        for x in reversed(stack):
            base = None if base is None else base + hdrs[x][1]
            memo[x] = base
        return base

    best = 0
    for h in delivered:
        v = up(h)
        if v is not None and v > best:
            best = v
    return best


def oracle(op: str, out: str):
    if op.startswith("c15real "):
        if out.startswith("err build"):
            return "real header objects could not be built / parsed: " + out
        return oracle("c15 " + op.split(" ", 2)[2], out)
    if op.startswith("c15q "):
        a = op.split(" ")
        want = _ref_update_q(_parse_qops(a[1]), _parse_qops(a[2]))
        want = "err IndexError" if want is None else "ok " + _show_ops(want)
        return None if out == want else "_update_q gives %s, the reference %s" % (out, want)
    if op.startswith("c15inv ") and out.startswith("ok"):
        for i, o in enumerate([] if out == "ok ~" else out[3:].split("|")):
            if o.startswith("err") or o == "outside":
                return None   # judged on the twin `c15` op
            if o != "1111":
                return "step %d: finder state sound/covering/cache-path/missing-parents = %s (the hypotheses of the C15 theorems fail)" % (i, o)
        return None
    if op.startswith("c15two ") and out.startswith("ok"):
        parts = out[3:].split("#")
        for w in (0, 1):
            alone_op = sub_op(op, w)
            alone = impl(alone_op)
            if alone != "ok " + parts[w]:
                return "object %d of two BlockChains fed interleaved answers %s, the same history alone gives %s" % (w, parts[w][:300], alone[:300])
            why = oracle(alone_op, "ok " + parts[w])
            if why:
                return "object %d: %s" % (w, why)
        return None
    if not op.startswith("c15 ") or not out.startswith("ok"):
        return None
    anchor0, _rev, hdrs, steps = parse_op(op)
    outs = [] if out == "ok ~" else out[3:].split("|")
    delivered = set()
    locked = []           # reference locked prefix
    replay = []           # ops applied to an initially empty list (to the preloaded chain after a preload)
    npre = 0              # number of preloaded blocks: they never went through a callback
    prev_chain = []
    for i, (k, body, _rank) in enumerate(steps):
        if i >= len(outs):
            return "history stopped early"
        o = outs[i]
        if o == "outside":
            return None       # locking beyond the reported chain is outside the property; the history ends
        if k == "P":
            # covered as the first call on a fresh object with a chain of distinct headers from the anchor; else correspondence only
            par, ok = anchor0, i == 0 and len(set(body)) == len(body)
            for h in body:
                ok = ok and hdrs[h][0] == par and h != anchor0
                par = h
            if not ok:
                return None
        if o.startswith("err "):
            return "step %d (%s) raised %s" % (i, k, o[4:])
        f = dict(x.split("=", 1) for x in o.split(";"))
        chain = [] if f["chain"] == "~" else [int(x) for x in f["chain"].split(".")]
        if len(chain) != int(f["len"]):
            return "step %d: length() disagrees with hash_for_index" % i
        want_lk = "~"
        if k == "A":
            delivered.update(body)
            ops = [] if f["ops"] == "~" else f["ops"].split(".")
            if f["cb"] != f["ops"]:
                return "step %d: the change callback saw %s, add_headers returned %s" % (i, f["cb"], f["ops"])
            for x in ops:
                h, idx = (int(y) for y in x[1:].split("@"))
                if x[0] == "+":
                    if idx != len(replay):
                        return "step %d: op %s does not append at the end of the replayed list (length %d)" % (i, x, len(replay))
                    replay.append(h)
                else:
                    if not replay or idx != len(replay) - 1 or replay[-1] != h:
                        return "step %d: op %s does not remove the last element of the replayed list %s" % (i, x, replay)
                    replay.pop()
        elif k == "P":
            delivered.update(body)
            locked = list(body)
            replay = list(body)
            npre = len(body)
            if f["ops"] != "~" or f["cb"] != "~":
                return "step %d: preload_locked_blocks emitted ops" % i
        else:
            if chain != prev_chain:
                return "step %d: lock_to_index changed the reported chain from %s to %s" % (i, prev_chain, chain)
            if len(locked) < body <= len(prev_chain):
                want_lk = "%d:%s" % (len(locked), _dots("%d:%d:%d" % (h, hdrs[h][0], hdrs[h][1]) for h in prev_chain[len(locked):body]))
                locked = prev_chain[:body]
            if f["ops"] != "~" or f["cb"] != "~":
                return "step %d: lock_to_index emitted ops" % i
        if f["lk"] != want_lk:
            return "step %d: did_lock_to_index_f was called with %s, expected %s" % (i, f["lk"], want_lk)
        if int(f["locked"]) != len(locked):
            return "step %d: locked_length() is %s, expected %d" % (i, f["locked"], len(locked))
        if int(f["ul"]) != len(chain) - len(locked):
            return "step %d: unlocked_length() is %s, length() %d, locked_length() %d" % (i, f["ul"], len(chain), len(locked))
        # the reported chain: starts with the locked prefix, follows parent links from the anchor, delivered headers only
        if chain[:len(locked)] != locked:
            return "step %d: reported chain %s does not start with the locked prefix %s" % (i, chain, locked)
        par = anchor0
        for h in chain:
            if h not in delivered or hdrs[h][0] != par:
                return "step %d: reported chain %s is not a path of delivered headers from the anchor" % (i, chain)
            par = h
        anchor = locked[-1] if locked else anchor0
        got = sum(hdrs[h][1] for h in chain[len(locked):])
        best = _best_weight(anchor, delivered, hdrs, set(locked))
        if got != best:
            return "step %d: reported chain %s has weight %d above the anchor %d, a chain of weight %d exists" % (i, chain, got, anchor, best)
        if replay != chain:
            return "step %d: replaying the returned ops gives %s, reported chain is %s" % (i, replay, chain)
        want = _dots("+%d@%d" % (h, j) for j, h in enumerate(chain) if j >= npre)
        if f["q"] != want:
            return "step %d: the queue fed through _update_q holds %s, the reported chain is %s" % (i, f["q"], chain)
        # lookups
        if int(f["last"]) != (chain[-1] if chain else anchor0):
            return "step %d: last_block_hash() is %s" % (i, f["last"])
        want = _dots("%d:%s" % (h, chain.index(h) if h in chain else "-") for h in hdrs)
        if f["idx"] != want:
            return "step %d: index_for_hash gives %s, chain is %s" % (i, f["idx"], chain)
        want = "".join("1" if h in chain else "0" for h in hdrs) or "~"
        if f["known"] != want:
            return "step %d: is_hash_known gives %s, chain is %s" % (i, f["known"], chain)
        want = _dots("%d:%d:%d" % (h, hdrs[h][0], hdrs[h][1]) for h in chain)
        if f["tup"] != want:
            return "step %d: tuple_for_index gives %s, expected %s" % (i, f["tup"], want)
        if f["neg"] != _dots(str(h) for h in reversed(chain)):
            return "step %d: hash_for_index(-1..-n) gives %s, chain is %s" % (i, f["neg"], chain)
        want = "%d:%d:%d" % (chain[-1], hdrs[chain[-1]][0], hdrs[chain[-1]][1]) if chain else "E"
        if f["nt"] != want:
            return "step %d: tuple_for_index(-1) gives %s, expected %s" % (i, f["nt"], want)
        prev_chain = chain
    return None


# ------------------------------------------------------------------ known findings, triviality, neighbours

KNOWN: dict = {}


def trivial(op: str) -> bool:
    if op.startswith("c15real "):
        return True   # a second look (other header class) at a history already counted
    if op.startswith("c15q "):
        return op.split(" ")[2] == "~"
    if op.startswith("c15inv "):
        return True   # a second look at a history already counted
    if op.startswith("c15two "):
        return trivial(sub_op(op, 0)) and trivial(sub_op(op, 1))
    _a, _r, hdrs, steps = parse_op(op)
    adds = [s for s in steps if s[0] == "A" and s[1]]
    if len(adds) < 2:
        return True
    order = [h for s in adds for h in s[1]]
    return all(hdrs[order[i]][0] == order[i - 1] for i in range(1, len(order)))


def neighbours(op, rng):
    if op.startswith("c15real "):
        net = op.split(" ")[1]
        for o in neighbours("c15 " + op.split(" ", 2)[2], rng):
            if o.startswith("c15 "):
                yield "c15real %s %s" % (net, o[4:])
        return
    if op.startswith("c15q "):
        yield op
        return
    if op.startswith("c15two "):
        yield op
        for w in (0, 1):
            for o in neighbours(sub_op(op, w), rng):
                yield o
        return
    if op.startswith("c15inv "):
        op = "c15" + op[6:]
    anchor, rev, hdrs, steps = parse_op(op)
    yield op
    yield show_op(anchor, not rev, hdrs, steps)
    # every pop order of every step (bounded), every split of one batch
    for i, (k, body, rank) in enumerate(steps):
        if k == "P":
            continue
        if k == "A" and 1 < len(set(body)) <= 4:
            for perm in itertools.permutations(sorted(set(body))):
                yield show_op(anchor, rev, hdrs, steps[:i] + [(k, body, list(perm))] + steps[i + 1:])
            for cut in range(1, len(body)):
                yield show_op(anchor, rev, hdrs, steps[:i] + [(k, body[:cut], []), (k, body[cut:], [])] + steps[i + 1:])
    for _ in range(40):
        s2 = [(k, body, [] if k == "P" else rng.sample(sorted(hdrs), len(hdrs))) for k, body, _r in steps]
        yield show_op(anchor, rev, hdrs, s2)
    hl = sorted(hdrs)
    for _ in range(40):
        h2 = dict(hdrs)
        h = rng.choice(hl)
        h2[h] = (h2[h][0], rng.choice([1, 2, 5]))
        yield show_op(anchor, rev, h2, steps)


# ------------------------------------------------------------------ generation

def _acyclic(par):
    for h in par:
        seen = set()
        x = h
        while x in par:
            if x in seen:
                return False
            seen.add(x)
            x = par[x]
    return True


def _compositions(n):
    if n == 0:
        yield []
        return
    for first in range(1, n + 1):
        for rest in _compositions(n - first):
            yield [first] + rest


ANCHOR = 0
UNKNOWN = 99


def small_histories(n, weights=(1, 2, 5), rev=False):
    """all forests on headers 1..n (labelled by first arrival), parent in {anchor, another header, an unknown hash},
    all weights, all batchings of the arrival order 1..n, all pop orders of every batch with more than one member"""
    labels = list(range(1, n + 1))
    for parents in itertools.product(*[[ANCHOR, UNKNOWN] + [j for j in labels if j != i] for i in labels]):
        par = dict(zip(labels, parents))
        if not _acyclic(par):
            continue
        for ws in itertools.product(weights, repeat=n):
            hdrs = {h: (par[h], w) for h, w in zip(labels, ws)}
            for comp in _compositions(n):
                batches, k = [], 0
                for c in comp:
                    batches.append(labels[k:k + c])
                    k += c
                for ranks in itertools.product(*[list(itertools.permutations(b)) if len(b) > 1 else [()] for b in batches]):
                    yield ANCHOR, rev, hdrs, [("A", b, list(r)) for b, r in zip(batches, ranks)]


def with_lock(rng, hist):
    """insert one or two lock_to_index calls at random places (index mostly within the chain reported so far)"""
    anchor, rev, hdrs, steps = hist
    steps = list(steps)
    for _ in range(rng.choice([1, 1, 2])):
        pos = rng.randint(1, len(steps))
        steps.insert(pos, ("L", rng.randint(0, len(hdrs)), rng.sample(sorted(hdrs), len(hdrs)) if rng.random() < 0.5 else []))
    return anchor, rev, hdrs, steps


def random_history(rng, nmax=30):
    n = rng.randint(2, nmax)
    hashes = rng.sample(range(1, 90), n)
    anchor = 0
    hdrs = {}
    style = rng.random()
    for i, h in enumerate(hashes):
        r = rng.random()
        if i == 0 or r < 0.08:
            p = anchor
        elif r < 0.14:
            p = rng.choice([100, 101, 102])       # never delivered: a permanent orphan
        elif style < 0.5 and r < 0.75:
            p = hashes[i - 1]                     # long chains
        else:
            p = rng.choice(hashes[:i])            # forks
        hdrs[h] = (p, rng.choice([1, 1, 1, 2, 5, 0] if style > 0.8 else [1, 1, 1, 2, 5]))
    order = list(hashes)
    m = rng.random()
    if m < 0.4:
        rng.shuffle(order)
    elif m < 0.8:
        # mostly in order with a few displaced blocks (orphans resolved later)
        for _ in range(rng.randint(1, 4)):
            i, j = rng.randrange(n), rng.randrange(n)
            order.insert(j, order.pop(i))
    if rng.random() < 0.3:
        order = order[:rng.randint(1, n)]         # some headers never arrive
    for _ in range(rng.randint(0, 3)):            # duplicates
        order.insert(rng.randrange(len(order) + 1), rng.choice(order))
    steps, k = [], 0
    chain_guess = 0
    while k < len(order):
        c = rng.choice([1, 1, 2, 3, rng.randint(1, 8)])
        b = order[k:k + c]
        k += c
        mode = rng.random()
        rank = [] if mode < 0.3 else (rng.sample(b, len(b)) if mode < 0.7 else rng.sample(sorted(hdrs), len(hdrs)))
        steps.append(("A", b, rank))
        chain_guess += len(b)
        if rng.random() < 0.2:
            steps.append(("L", rng.randint(0, max(1, min(n, chain_guess) // rng.choice([1, 2, 3]))),
                          rng.sample(sorted(hdrs), len(hdrs)) if rng.random() < 0.5 else []))
    if rng.random() < 0.1:
        steps.append(("A", [], []))
    return anchor, rng.random() < 0.5, hdrs, steps


def gen(ctx, emit):
    rng = ctx.rng
    pool = []

    def E(hist):
        op = show_op(*hist)
        emit(op, "history")
        if len(pool) < 40000 or rng.random() < 0.05:
            pool.append(hist)
        if rng.random() < (0.15 if ctx.thorough else 0.4):
            emit("c15inv" + op[3:], "finder-invariant")
        # the same history on real header objects of a network's Block class (parsed from wire bytes); weights are the
        # headers' difficulty fields.  Bitcoin and Bitcoin Gold (variable-length headers).
        if rng.random() < (0.004 if ctx.thorough else 0.02) and all(0 <= w < 2 ** 32 for _p, w in hist[2].values()):
            emit("c15real %s %s" % (rng.choice(["btc", "btg"]), op[4:]), "real-headers")
    # boundary corpus: DESIGN §8 row 12 and relatives are in corpus/C15.txt; here the systematic part
    for n in (1, 2, 3):
        for hist in small_histories(n):
            E(hist)
    if ctx.thorough:
        for hist in small_histories(4):
            E(hist)
        # every forest on 5 and 6 headers (all parent functions), the other coordinates drawn at random
        for n in (5, 6):
            labels = list(range(1, n + 1))
            comps = list(_compositions(n))
            for parents in itertools.product(*[[ANCHOR, UNKNOWN] + [j for j in labels if j != i] for i in labels]):
                par = dict(zip(labels, parents))
                if not _acyclic(par):
                    continue
                hdrs = {h: (par[h], rng.choice([1, 2, 5])) for h in labels}
                batches, k = [], 0
                for c in rng.choice(comps):
                    batches.append(labels[k:k + c])
                    k += c
                hist = (ANCHOR, rng.random() < 0.5, hdrs, [("A", b, rng.sample(b, len(b))) for b in batches])
                E(with_lock(rng, hist) if rng.random() < 0.25 else hist)
    else:
        # a seeded sample of the forests on 4 headers: draw the coordinates directly
        labels = [1, 2, 3, 4]
        for _ in range(ctx.n(20000, 0)):
            while True:
                par = {i: rng.choice([ANCHOR, UNKNOWN] + [j for j in labels if j != i]) for i in labels}
                if _acyclic(par):
                    break
            hdrs = {h: (par[h], rng.choice([1, 2, 5])) for h in labels}
            comp = rng.choice(list(_compositions(4)))
            batches, k = [], 0
            for c in comp:
                batches.append(labels[k:k + c])
                k += c
            E((ANCHOR, rng.random() < 0.5, hdrs, [("A", b, rng.sample(b, len(b))) for b in batches]))
    # small forests with interleaved locks
    for _ in range(ctx.n(10000, 60000)):
        n = rng.choice([2, 3, 3, 4, 4, 5])
        labels = list(range(1, n + 1))
        while True:
            par = {i: rng.choice([ANCHOR, ANCHOR, UNKNOWN] + [j for j in labels if j != i]) for i in labels}
            if _acyclic(par):
                break
        hdrs = {h: (par[h], rng.choice([1, 2, 5])) for h in labels}
        comp = rng.choice(list(_compositions(n)))
        batches, k = [], 0
        for c in comp:
            batches.append(labels[k:k + c])
            k += c
        hist = (ANCHOR, rng.random() < 0.5, hdrs, [("A", b, rng.sample(b, len(b))) for b in batches])
        if rng.random() < 0.3:
            # a duplicate delivery
            st = hist[3]
            st.insert(rng.randint(1, len(st)), ("A", [rng.choice(labels)], []))
        E(with_lock(rng, hist))
    # a fresh object whose locked prefix is preloaded (preload_locked_blocks), then a history that may deliver the
    # preloaded headers again, their siblings, and lock further
    for _ in range(ctx.n(2500, 20000)):
        anchor, rev, hdrs, steps = random_history(rng, rng.choice([4, 6, 12]))
        tips = []
        for h in hdrs:
            path, x = [], h
            while x in hdrs and x not in path:
                path.append(x)
                x = hdrs[x][0]
            if x == anchor:
                tips.append(path[::-1])
        if not tips:
            continue
        pre = rng.choice(tips)
        pre = pre[:rng.randint(1, len(pre))]
        E((anchor, rev, hdrs, [("P", pre, [])] + steps))
    # random histories of up to 30 headers with forks, orphans, duplicates and locks
    for _ in range(ctx.n(3000, 40000)):
        E(random_history(rng, 30))
    if ctx.thorough:
        for _ in range(ctx.n(0, 3000)):
            E(random_history(rng, 60))
    # `_update_q` on its own: queues and op lists of every shape, also those no history produces (a remove that does not
    # undo the newest entry: the popped entry is put back; a remove on an empty queue: q.pop() raises)
    def rand_ops(n, removes_first):
        ops = []
        for j in range(n):
            kind = "-" if (removes_first and j < n // 2) or (not removes_first and rng.random() < 0.5) else "+"
            ops.append("%s%d@%d" % (kind, rng.choice([-1, 1, 2, 3]), rng.randint(0, 3)))
        return ".".join(ops) or "~"
    for qs in ("~", "+1@0", "+1@0.+2@1", "-1@0"):
        for os_ in ("~", "-1@0", "-2@1", "-2@1.-1@0", "-2@1.-1@0.+3@0", "-2@0", "-1@1", "+3@2", "+3@2.-3@2", "--1@0", "-2@1.-2@0.+1@1"):
            emit("c15q %s %s" % (qs, os_.replace("--1", "--1")), "update-q")
    for _ in range(ctx.n(1500, 20000)):
        emit("c15q %s %s" % (rand_ops(rng.randint(0, 4), False), rand_ops(rng.randint(0, 5), rng.random() < 0.7)), "update-q")
    # two BlockChain objects in one process, fed interleaved, overlapping hashes with different ancestry
    for _ in range(ctx.n(4000, 60000)):
        ha, hb = rng.choice(pool), rng.choice(pool)
        rev = ha[1]
        ta = [(0, st) for st in ha[3]]
        tb = [(1, st) for st in hb[3]]
        tagged = []
        while ta or tb:
            src = ta if (ta and (not tb or rng.random() < 0.5)) else tb
            tagged.append(src.pop(0))
        def one(st):
            return show_op(0, False, {}, [st]).split(" ")[4]
        emit("c15two %d %d %s %d %s %s" % (
            1 if rev else 0,
            ha[0], show_op(ha[0], rev, ha[2], []).split(" ")[3],
            hb[0], show_op(hb[0], rev, hb[2], []).split(" ")[3],
            ",".join("%d%s" % (w, one(st)) for w, st in tagged) or "~"), "two-objects")
