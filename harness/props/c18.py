"""C18 — text parsing is total, faithful and keeps kinds apart (every entry point of ParseAPI on every network)."""
from __future__ import annotations

import unicodedata

from lib import hx, unhx

import grsenv  # first (props.c08 does the same): Groestl stand-in hash before pycoin.symbols.* is imported
from props.c08 import NETS, NAMES, FAMILY, b58c, _quiet, show_info, th, text_of, _history, gen_history

from pycoin.encoding.b58 import b2a_base58
from pycoin.contrib import bech32m
from pycoin.key.BIP32Node import BIP32Node
from pycoin.key.BIP49Node import BIP49Node
from pycoin.key.BIP84Node import BIP84Node
from pycoin.key.electrum import ElectrumWallet
from pycoin.networks.Contract import Contract

MANIFEST = {
    "text": "Lean theorems over the model of every ParseAPI entry point (total functions text -> Except Err (Option Obj)): no parser takes an "
            "exception branch, accepted WIF/extended-key/address text has exactly the kind's payload length and in-range contents and "
            "re-serialises to itself (extended keys: outside the explicitly named class of the open finding extkey-version-marker-mismatch), accepted "
            "SEC text, public pairs, secret exponents, P:/H: seeds (= the BIP32 master of the seed bytes) and Electrum E: forms have in-range "
            "contents (1 <= se < n, coordinates < p, point on the curve) and the object's own text parses back to an equal object "
            "(C18_<kind>_reserialises / C18_<kind>_refuses generic under KeyLaws; C18_<kind>_reserialises_real / _refuses_real hypothesis-free for the real codecs and the secp256k1 curve model of every network: KeyLaws realKeyEnv and CodecLaws realEnv are proved), and a kernel-decided table theorem that on every network two checksummed kinds are separated by "
            "prefix or payload length; model tied to the code by differential correspondence over all entry points x all networks.",
    "note": "The re-serialisation theorems take the curve object as a parameter with the laws KeyLaws (points_for_x returns the two reduced points of an x, a reduced "
            "curve point is one of them, se*G is reduced, p and n at most 2^256, HMAC-SHA512 yields 64 bytes), as CodecLaws does for the codecs; a toy instance "
            "shows them satisfiable, and real_key_laws (Proofs/RealKeyEnv.lean) proves them from the C02 theorems for realKeyEnv (Model/RealKeyEnv.lean: the C02 curve model "
            "over the generator parameters all networks share, HMAC-SHA512 model), so the _real theorems carry no hypothesis. The driver evaluates realKeyEnv with one field "
            "replaced: se*G by a Jacobian ladder for speed, cross-checked against realKeyEnv.mulG (op c18mulg) and the implementation on every run. Electrum wallets re-serialise as plain keys (kind not compared). "
            "Python's int()/str.upper()/str.split() on non-ASCII digits and letters are outside the model (exercised by the totality oracle only). "
            "The Groestlcoin family (grs, tgrs, grsrt; coins/groestlcoin/parse.py) runs and is modelled under the stand-in of translate/grs_stub.py "
            "for the absent groestlcoin_hash package: which checksum hash each code path of a network uses is a probed field of the table, and a "
            "kernel-decided table theorem says every producing closure uses the hash the network's parser accepts.",
    "technique": "Lean 4 proof (generic in codecs and curve) + table decide +kernel + differential correspondence model vs implementation",
}
RULE = ("ops c18parse <net> <entry> <text>, c18made (the same on a text the network's own producer of that kind wrote: must be accepted), c18kinds <net> <text>; valid texts of every kind on every network through every entry point, "
        "checksummed payloads of lengths 0..80 for every prefix (every network's own checksum hash; the other hash's texts on the Groestlcoin family and on btc/xtn), boundary exponents/coordinates, colon and numeric forms, unicode noise; "
        "distinct = distinct op line; trivial = result None")
ASSUMPTIONS = ["codecs, curve arithmetic, HMAC-SHA512 and the Electrum stretch enter the theorems as functions (hypotheses: C11 round trips, "
               "to_bytes_32/from_bytes_32 round trip)",
               "object equality for re-serialisation = same kind, key material, compression flag and BIP32 fields",
               "the optional groestlcoin_hash package is replaced (also where a real one is installed) by the stand-in of translate/grs_stub.py "
               "in harness, translator and model; of the real Groestl hash only 'a function from byte strings to 32 bytes' is assumed"]

ENTRIES = ["bip32_seed", "hd_seed", "bip32_prv", "bip32_pub", "bip32", "bip49_prv", "bip49_pub", "bip49", "bip84_prv", "bip84_pub",
           "bip84", "electrum_seed", "electrum_prv", "electrum_pub", "p2pkh", "p2sh", "p2pkh_segwit", "p2sh_segwit", "p2tr", "script",
           "wif", "secret_exponent", "public_pair", "sec", "address", "payable", "hierarchical_key", "private_key", "secret",
           "public_key", "input", "tx", "spendable", "script_preimage", "call"]
CHECKSUMMED = ["p2pkh", "p2sh", "p2pkh_segwit", "p2sh_segwit", "p2tr", "wif", "bip32_prv", "bip32_pub", "bip49_prv", "bip49_pub",
               "bip84_prv", "bip84_pub"]
# entry points that read their text through parse_b58_hashed only (or first)
B58_ENTRIES = ["p2pkh", "p2sh", "wif", "bip32_prv", "bip32_pub", "bip32", "bip49_prv", "bip49_pub", "bip49", "bip84_prv", "bip84_pub", "bip84"]
ORDER = NETS["btc"].generator.order()
P = NETS["btc"].generator.p()


def entry_f(net, entry):
    return net.parse if entry == "call" else getattr(net.parse, entry)


def _txt(r):
    if r[0] == "err":
        return "err:" + r[1]
    return "None" if r[1] is None else r[1]


def show_key(k):
    se = k.secret_exponent()
    x, y = k.public_pair()
    return "se=%s x=%d y=%d c=%d" % ("-" if se is None else "%d" % se, x, y, 1 if k.is_compressed() else 0)


def show_obj(net, o):
    if isinstance(o, Contract):
        s = _quiet(o.script)
        return "contract %s script=%s address=%s" % (show_info(o.info()), hx(s[1]) if s[0] == "ok" else "err:" + s[1], _txt(_quiet(o.address)))
    if isinstance(o, BIP32Node):
        kind = 49 if isinstance(o, BIP49Node) else 84 if isinstance(o, BIP84Node) else 32
        prv = _txt(_quiet(o.hwif, True)) if o.secret_exponent() is not None else "-"
        return "bip%d depth=%d fp=%s idx=%d chain=%s %s text=%s prv=%s" % (
            kind, o.tree_depth(), hx(o.parent_fingerprint()), o.child_index(), hx(o.chain_code()), show_key(o), _txt(_quiet(o.as_text)), prv)
    if isinstance(o, ElectrumWallet):
        return "electrum %s text=%s" % (show_key(o), _txt(_quiet(o.as_text)))
    return "key %s text=%s" % (show_key(o), _txt(_quiet(o.as_text)))


def impl(op: str) -> str:
    a = op.split(" ")
    if a[0] in ("c18parse", "c18made"):
        net = NETS[a[1]]
        r = _quiet(entry_f(net, a[2]), text_of(a[3]))
        if r[0] == "err":
            return "err " + r[1]
        return "ok None" if r[1] is None else "ok " + show_obj(net, r[1])
    if a[0] == "c18kinds":
        net, text = NETS[a[1]], text_of(a[2])
        acc = []
        for e in CHECKSUMMED:
            r = _quiet(getattr(net.parse, e), text)
            if r[0] == "err":
                return "err %s:%s" % (e, r[1])
            if r[1] is not None:
                acc.append(e)
        return "ok " + (",".join(acc) if acc else "~")
    if a[0] == "c18history":
        return _history(text_of(a[1]), a[2], fresh=False)
    if a[0] == "c18mulg":
        pt = int(a[1]) * NETS["btc"].generator
        return "ok %d %d" % (pt[0], pt[1])
    if a[0] == "c18number":
        v = NETS["btc"].parse.as_number(text_of(a[1]))
        return "ok None" if v is None else "ok %x" % v
    return "bad-op"


# ------------------------------------------------------------------ oracle

def desc(o):
    """what makes two parsed objects equal: kind, key material, compression flag, BIP32 fields (no text forms)"""
    if isinstance(o, Contract):
        return "contract " + show_info(o.info())
    if isinstance(o, BIP32Node):
        kind = 49 if isinstance(o, BIP49Node) else 84 if isinstance(o, BIP84Node) else 32
        return "bip%d %d %s %d %s %s" % (kind, o.tree_depth(), hx(o.parent_fingerprint()), o.child_index(), hx(o.chain_code()), show_key(o))
    return "key " + show_key(o)   # Electrum wallets re-serialise as plain keys: compared by key material


def reserialise(net, o, entry):
    """None when the object re-serialises to text that parses to an equal object, else a description"""
    try:
        if isinstance(o, Contract):
            t = o.info().get("type")
            if t in ("p2pkh", "p2sh", "p2pkh_wit", "p2sh_wit", "p2tr"):
                text = o.address()
                if text is None:
                    return None  # the network has no prefix for this kind: nothing to re-parse
                if "address" in vars(net.parse):
                    return None  # Groestlcoin family without its hash library: parse.address is none_parser
                back = net.parse.address(text)
                if back is None or desc(back) != desc(o):
                    return "address() of the parsed contract does not parse back to it: %r" % (text,)
            return None
        if isinstance(o, BIP32Node):
            kind = "bip49" if isinstance(o, BIP49Node) else "bip84" if isinstance(o, BIP84Node) else "bip32"
            if o.secret_exponent() is not None:
                text = o.hwif(as_private=True)
                back = getattr(net.parse, kind)(text)
                if back is None or desc(back) != desc(o):
                    return "private hwif does not parse back to an equal node"
            text = o.hwif()
            back = getattr(net.parse, kind)(text)
            if back is None or desc(back) != desc(o.public_copy()):
                return "public hwif does not parse back to the public copy of the node"
            return None
        if o.secret_exponent():
            text = o.as_text()
            back = net.parse.wif(text)
        else:
            text = o.as_text()
            back = net.parse.sec(text)
        if back is None or desc(back) != desc(o):
            return "as_text() of the parsed key does not parse back to an equal key: %r" % (text,)
    except Exception as e:  # noqa: BLE001
        return "re-serialising the parsed object raises %s" % type(e).__name__
    return None


def same_text(net, o, text, entry):
    """an accepted checksummed string is the canonical text of what it denotes (wrong lengths / ignored bytes are not reinterpreted)"""
    try:
        if isinstance(o, Contract):
            want = o.address()
            return None if want in (text, text.lower()) else "accepted address re-encodes to %r" % (want,)
        if isinstance(o, BIP32Node):
            want = o.hwif(as_private=o.secret_exponent() is not None)
            return None if want == text else "accepted extended key re-encodes to a different string"
        if entry in ("wif", "private_key") and o.secret_exponent() and not text.strip().lstrip("+-").replace("_", "").isalnum():
            return None
        if entry == "wif":
            return None if o.wif() == text else "accepted WIF re-encodes to a different string"
    except Exception as e:  # noqa: BLE001
        return "re-encoding raises %s" % type(e).__name__
    return None


def _oracle(op: str, out: str):
    a = op.split(" ")
    if a[0] == "c18history":
        want = _history(text_of(a[1]), a[2], fresh=True)
        if want != out:
            got, exp = out[3:].split(" | "), want[3:].split(" | ")
            i = next((j for j in range(min(len(got), len(exp))) if got[j] != exp[j]), 0)
            return "a parser's answer on a shared parseable_str differs from its answer on a fresh string (call %d of %s)" % (i + 1, a[2])
        return None
    if out.startswith("err"):
        return "exception escapes the parser: %s" % out[4:]
    if a[0] == "c18kinds":
        kinds = [] if out == "ok ~" else out[3:].split(",")
        if len(kinds) > 1:
            return "one checksummed string is accepted as %s" % " and ".join(kinds)
        return None
    if a[0] == "c18made" and out == "ok None":
        return "a text the network's own %s producer wrote is refused by parse.%s" % (a[2], a[2])
    if a[0] in ("c18parse", "c18made") and out != "ok None":
        net, entry, text = NETS[a[1]], a[2], text_of(a[3])
        o = entry_f(net, entry)(text)
        if entry in B58_ENTRIES:
            kinds = grsenv.kind_of_text(text)
            if kinds and grsenv.hash_kind(a[1]) not in kinds:
                return "a Base58Check text under another checksum hash (%s) is accepted by %s" % (",".join(kinds), entry)
        why = reserialise(net, o, entry)
        if why:
            return why
        if entry in CHECKSUMMED:
            return same_text(net, o, text, entry)
    return None


def trivial(op: str) -> bool:
    return False


def neighbours(op, rng):
    a = op.split(" ")
    if a[0] == "c18parse":
        for e in ENTRIES:
            if e not in ("electrum_seed",):
                yield "c18parse %s %s %s" % (a[1], e, a[3])
        yield "c18kinds %s %s" % (a[1], a[3])


def _marker_mismatch(v):
    """an extended-key string whose version bytes say private while the key field holds a public key, or the reverse"""
    a = str(v["input"]).split(" ")
    if a[0] != "c18parse" or "re-encodes to a different string" not in v["what"]:
        return False
    net = NETS[a[1]]
    data = grsenv.b58c_dec(grsenv.hash_kind(a[1]), text_of(a[3]))
    if data is None or len(data) != 78:
        return False
    p = net.parse
    prv = {x for x in (p._bip32_prv_prefix, p._bip49_prv_prefix, p._bip84_prv_prefix) if x}
    pub = {x for x in (p._bip32_pub_prefix, p._bip49_pub_prefix, p._bip84_pub_prefix) if x}
    return (data[:4] in prv and data[45] != 0) or (data[:4] in pub and data[45] == 0)


KNOWN = {"extkey-version-marker-mismatch": _marker_mismatch}


# ------------------------------------------------------------------ generators

def model_safe(s: str) -> bool:
    """inside the model: encodable, and no non-ASCII character on which Python's int()/upper()/split() differ from the ASCII rules"""
    try:
        s.encode("utf8")
    except UnicodeEncodeError:
        return False
    for c in s:
        if ord(c) < 128:
            continue
        if unicodedata.category(c) == "Nd":
            return False
        if any(ord(u) < 128 for u in c.upper()) or any(ord(u) < 128 for u in c.lower()):
            return False
    return True


def _gen(ctx, emit):
    rng = ctx.rng

    def rb(n):
        return bytes(rng.randrange(256) for _ in range(n))

    def every(name, text, entries=ENTRIES, kinds=True):
        if not model_safe(text):
            # outside the model: totality is still checked on the implementation
            for e in entries:
                r = _quiet(entry_f(NETS[name], e), text)
                if r[0] == "err":
                    ctx.violation("exception escapes the parser: %s" % r[1], "c18parse %s %s <%r>" % (name, e, text), expected="object or None",
                                  observed="err " + r[1], kind="oracle")
            return
        for e in entries:
            if e == "electrum_seed" or (text.startswith("E:") and len(text) == 34 and e in ("hierarchical_key", "secret", "call")):
                continue    # 100 000 rounds of SHA-256: exercised a handful of times below
            emit("c18parse %s %s %s" % (name, e, th(text)))
        if kinds:
            emit("c18kinds %s %s" % (name, th(text)))

    few = ("btc", "xtn", "ltc", "polis", "chc", "dcr", "grs", "bc")
    quick_entries = ["call", "secret", "payable", "public_key"]
    b58nets = list(NAMES)

    # 1. valid texts of every kind on every network
    seeds = [b"verif-%d" % i for i in range(3)]
    for name in NAMES:
        net = NETS[name]
        texts = []
        made = []          # (entry point, text the network's own producer of that kind wrote)
        for se, comp in ((1, True), (ORDER - 1, False), (rng.randrange(1, ORDER), True), (rng.randrange(1, ORDER), False)):
            k = net.keys.private(se, is_compressed=comp)
            r = _quiet(k.wif)
            if r[0] == "ok" and r[1]:
                made.append(("wif", r[1]))
            for f in (k.wif, k.as_text, k.sec_as_hex, lambda: "%d" % se, lambda: "%x" % se, lambda: "0x%x" % se,
                      lambda: "%d/%d" % k.public_pair(), lambda: "%d,%d" % k.public_pair(),
                      lambda: "%d/%s" % (k.public_pair()[0], "odd" if k.public_pair()[1] & 1 else "even"),
                      lambda: "%x/%x" % k.public_pair(), lambda: hx(k.sec()), lambda: hx(k.sec(is_compressed=not comp))):
                r = _quiet(f)
                if r[0] == "ok" and r[1]:
                    texts.append(r[1])
        node = net.keys.bip32_seed(rng.choice(seeds))
        sub = node.subkey_for_path("0H/1/%d" % rng.randrange(1000))
        for nd in (node, sub, sub.public_copy()):
            blob_prv = nd.serialize(as_private=True) if nd.secret_exponent() else None
            blob_pub = nd.serialize(as_private=False)
            for kind in ("bip32", "bip49", "bip84"):
                f = getattr(net, kind + "_as_string")
                for blob, prv in ((blob_prv, True), (blob_pub, False)):
                    if blob is not None:
                        r = _quiet(f, blob, prv)
                        if r[0] == "ok":
                            texts.append(r[1])
                            made.append(("%s_%s" % (kind, "prv" if prv else "pub"), r[1]))
                            made.append((kind, r[1]))
        h20, h32 = rb(20), rb(32)
        for kind, h in (("p2pkh", h20), ("p2sh", h20), ("p2pkh_wit", h20), ("p2sh_wit", h32), ("p2tr", h32)):
            r = _quiet(getattr(net.address, "for_" + kind), h)
            if r[0] == "ok" and r[1]:
                texts.append(r[1])
                made.append(({"p2pkh_wit": "p2pkh_segwit", "p2sh_wit": "p2sh_segwit"}.get(kind, kind), r[1]))
                made.append(("address", r[1]))
        for entry, t in made if (ctx.thorough or name in few or name in FAMILY) else rng.sample(made, min(len(made), 8)):
            emit("c18made %s %s %s" % (name, entry, th(t)))
        for t in texts:
            every(name, t, ENTRIES if name in ("btc", "polis") else ["call", rng.choice(["secret", "payable", "public_key", "wif", "sec", "address", "bip32", rng.choice(CHECKSUMMED)])],
                  kinds=name in few or name in FAMILY or rng.random() < 0.3)
        # every valid Base58 text of this network re-encoded under the OTHER checksum hash (same payload, same version bytes:
        # what a network of the other family writes): no checksummed entry point may accept it — on the Groestlcoin family and
        # on the networks that share its version bytes
        if name in FAMILY or name in ("btc", "xtn"):
            other = "sha256d" if name in FAMILY else "groestl"
            for t in texts:
                d = grsenv.b58c_dec(grsenv.hash_kind(name), t)
                if d is not None:
                    every(name, grsenv.b58c_enc(other, d), ["call", "hierarchical_key", "private_key", "address", rng.choice(B58_ENTRIES)])

    # 2. checksummed Base58 with every prefix of the network, payloads of every length 0..80
    quick_lens = [0, 19, 20, 21, 32, 33, 34, 73, 74, 75]
    for name in b58nets:
        p = NETS[name].parse
        prefixes = sorted({getattr(p, at) for at in vars(p) if at.endswith("_prefix") and isinstance(getattr(p, at), bytes)})
        for pfx in prefixes:
            lens = list(range(0, 81)) if (ctx.thorough or name in ("polis", "chc")) else quick_lens + [rng.randrange(81) for _ in range(2)]
            for ln in lens:
                body = bytearray(rb(ln))
                if ln and rng.random() < 0.4:
                    body[-1] = 1
                if ln >= 42 and rng.random() < 0.5:
                    body[41] = rng.choice([0, 2, 3])   # the private/public marker byte of an extended key
                t = b58c(name, pfx + bytes(body))
                every(name, t, (["call"] if rng.random() < 0.3 else []) + ([rng.choice(CHECKSUMMED)] if rng.random() < 0.2 else []))
    # boundary contents: exponents 0, n-1, n, 2^256-1; flag bytes; extended keys with bad key material
    def b32(v):
        return v.to_bytes(32, "big")
    for name in (("btc", "xtn", "polis", "chc", "dcr", "ltc", "grs", "tgrs", "grsrt") if ctx.thorough else ("btc", "polis", "dcr", "grs")):
        net = NETS[name]
        p = net.parse
        for se in (0, 1, ORDER - 1, ORDER, ORDER + 1, 2 ** 256 - 1):
            for tail in (b"", b"\x01", b"\x00", b"\x02", b"\xff", b"\x01\x01"):
                every(name, b58c(name, p._wif_prefix + b32(se) + tail), ["wif", "private_key", "secret", "call"])
        every(name, b58c(name, p._wif_prefix + b32(5)[1:]), ["wif", "call"])
        every(name, b58c(name, p._wif_prefix + b"\0" + b32(5)), ["wif", "call"])
        good = net.keys.bip32_seed(b"boundary").subkey(7)
        head = good.serialize(as_private=True)[:41]
        x_ok = good.public_pair()[0]
        x_bad = next(x for x in range(x_ok + 1, x_ok + 50) if not _has_point(x))
        for kind in ("bip32", "bip49", "bip84"):
            for prv in (True, False):
                pfx = getattr(p, "_%s_%s_prefix" % (kind, "prv" if prv else "pub"))
                if pfx is None:
                    continue
                keyparts = [b"\0" + b32(0), b"\0" + b32(1), b"\0" + b32(ORDER - 1), b"\0" + b32(ORDER), b"\0" + b32(2 ** 256 - 1),
                            b"\x02" + b32(x_ok), b"\x03" + b32(x_ok), b"\x02" + b32(x_bad), b"\x04" + b32(x_ok), b"\x05" + b32(x_ok),
                            b"\x01" + b32(x_ok), b"\x02" + b32(P), b"\x02" + b32(P + 1), b"\x02" + b32(0), b"\0" + b32(5)[:-1], b"\0" + b32(5) + b"\0",
                            b"\x02" + b32(x_ok)[:-1], b"", b"\0",
                            # key material that is a VALID public key in another encoding (65-byte uncompressed / hybrid SEC of the
                            # real point): a decoder that leaves the length to the SEC parser takes the 110-byte payload for a key
                            b"\x04" + b32(x_ok) + b32(good.public_pair()[1]),
                            bytes([6 + (good.public_pair()[1] & 1)]) + b32(x_ok) + b32(good.public_pair()[1]),
                            b"\x04" + b32(x_ok) + b32(P - good.public_pair()[1])]
                for kp in keyparts:
                    every(name, b58c(name, pfx + head + kp), [kind + "_prv", kind + "_pub", kind, "hierarchical_key", "call"])
                for cut in (0, 1, 4, 5, 8, 9, 12, 13, 40, 41, 44):
                    every(name, b58c(name, (pfx + head + b"\0" + b32(5))[:cut + len(pfx)]), [kind + "_prv", kind, "call"])
                # wrong total length with VALID key material still at the very end: bytes deleted or inserted right after the
                # version bytes or inside the depth / fingerprint / child-number fields (a decoder that locates the key from
                # the end, or accepts a blob with or without its 4 version bytes, takes these for keys)
                full = head + (b"\0" + b32(5) if prv else b"\x02" + b32(x_ok))
                ents = [kind + ("_prv" if prv else "_pub"), kind, "call"]
                for drop in (1, 2, 3, 4, 5, 8):
                    for at in (0, 1, 5):
                        every(name, b58c(name, pfx + full[:at] + full[at + drop:]), ents)
                for add in (1, 2, 4):
                    every(name, b58c(name, pfx + b"\0" * add + full), ents)
                    every(name, b58c(name, pfx + pfx[:add] + full), ents)
    # bad checksums / non-alphabet characters / bare Base58
    for name in ("btc", "polis", "tgrs"):
        net = NETS[name]
        w = net.keys.private(77).wif()
        for t in (w[:-1] + ("1" if w[-1] != "1" else "2"), w + "1", w[:-1], "0" + w, w.replace(w[5], "l", 1), w + " ", " " + w, w.lower(),
                  b2a_base58(b""), b2a_base58(b"\0"), b2a_base58(b"\x80" + rb(3)), b2a_base58(rb(4)), b2a_base58(rb(5)), "1", "11", "1111"):
            every(name, t, ["wif", "address", "bip32", "call"])

    # 3. Bech32 forms on the networks with an HRP
    for name in NAMES:
        hrp = NETS[name].parse._bech32_hrp
        if not hrp:
            continue
        for ver, ln, spec in ((0, 20, 1), (0, 32, 1), (1, 32, 2), (0, 20, 2), (1, 32, 1), (0, 21, 1), (2, 32, 2), (16, 2, 2), (1, 20, 2), (0, 0, 1)):
            s = bech32m.bech32_encode(hrp, [ver] + bech32m.convertbits(rb(ln), 8, 5), spec)
            every(name, s, ["p2pkh_segwit", "p2sh_segwit", "p2tr", "address", "call"])
        every(name, bech32m.bech32_encode(hrp, [], 1), ["p2tr", "address"])
        every(name, hrp + "1", ["address"], kinds=False)

    # 4. colon-prefixed forms, numeric forms, public pairs, SEC text
    gx, gy = NETS["btc"].generator[0], NETS["btc"].generator[1]
    x_no = next(x for x in range(2, 60) if not _has_point(x))
    x_yes = next(x for x in range(2, 60) if _has_point(x))
    colon = ["P:", "P:foo", "P:" + "x" * 100, "H:", "H:00", "H:000102030405060708090a0b0c0d0e0f", "H:0", "H:zz", "H:0G", "HP:abc", ":abc", ":", "::", "PH:abc",
             "X:abc", "p:foo", "h:00", "P:a:b", "H:00:11", "P:\u00e9\u00e8", "P: spaced out ", "E:", "E:00", "E:zz", "E:" + "00" * 15, "E:" + "00" * 17,
             "E:" + "00" * 31, "E:" + "00" * 32, "E:" + "00" * 33, "E:" + "ff" * 32, "E:" + b32(ORDER).hex(), "E:" + b32(ORDER - 1).hex(), "E:" + b32(1).hex(),
             "E:" + "00" * 63, "E:" + "00" * 64, "E:" + "00" * 65, "E:" + b32(gx).hex() + b32(gy).hex(), "E:" + b32(gx).hex() + b32(gy + 1).hex(),
             "E:" + b32(2 ** 256 - 1).hex() + b32(gy).hex(), "e:" + "11" * 32, "E:" + "11" * 32 + ":", "BTCSEC:", "BTCSEC:zz"]
    numeric = ["0", "1", "-1", "+1", "00", "007", "12", "1_000", "1__0", "_1", "1_", " 12 ", "\t12\n", "1 2", "0x10", "0X10", "0x", "0x_1", "-0x10", "0b11", "0o7",
               "10", "ff", "FF", "0xff", "deadbeef", "1e5", "1.0", "", " ", "%d" % ORDER, "%d" % (ORDER - 1), "%d" % (ORDER + 1), "%x" % ORDER, "%x" % (ORDER - 1),
               "-%d" % (ORDER - 1), "%d" % (2 ** 256), "9" * 80, "f" * 80, "1" * 4300, "1" * 4301, "a" * 5000, "0" * 4400 + "1"]
    pairs = ["%d/even" % x_no, "%d/odd" % x_no, "%d/even" % x_yes, "%d/odd" % x_yes, "%d,even" % x_yes, "%x/even" % gx, "%d/%d" % (gx, gy), "%d,%d" % (gx, gy),
             "%d/%d" % (gx, gy + 1), "%d/%d" % (gx, P - gy), "0/even", "0/0", "0/1", "1/0", "/", ",", "/even", "even/even", "5/", "5/evn", "5/EVEN",
             "%d/even/odd" % x_yes, "%d,%d/%d" % (gx, gy, gy), "%d/%d,%d" % (gx, gy, gy), "%d/odd,%d" % (x_yes, gy), "%d /even" % x_yes, " %d/ even" % x_yes,
             "%d/%d" % (gx + P, gy), "%d/%d" % (gx, gy + P), "%d/%d" % (gx - P, gy), "-%d/even" % x_yes, "%d/even" % (x_yes + P), "%d/odd" % (2 ** 256 + 5),
             "0x%x/0x%x" % (gx, gy), "%d/-%d" % (gx, P - gy)]
    k = NETS["btc"].keys.private(123456789)
    secs = [hx(k.sec()), hx(k.sec(is_compressed=False)), hx(k.sec()).upper(), "05" + hx(k.sec())[2:], "04" + hx(k.sec())[2:], hx(k.sec())[:-2], hx(k.sec()) + "00",
            "02" + b32(x_no).hex(), "02" + b32(P + x_yes).hex(), "04" + b32(gx).hex() + b32(gy + 1).hex(), "06" + hx(k.sec(is_compressed=False))[2:], "02", "", "0",
            "BTCSEC:" + hx(k.sec()), "BTCSEC" + hx(k.sec()), "XTNSEC:" + hx(k.sec()), "btcsec:" + hx(k.sec()), " " + hx(k.sec()), "BTCSEC:BTCSEC:" + hx(k.sec())]
    for name in few:
        pfx = NETS[name].parse._sec_prefix
        for t in colon + numeric + pairs + secs + [pfx + hx(k.sec()), pfx + ":" + hx(k.sec()), pfx]:
            every(name, t, ENTRIES if name == "btc" else (quick_entries + ["bip32_seed", "hd_seed", "electrum_prv", "electrum_pub", "sec", "public_pair", "secret_exponent"]
                                                           if name in ("polis", "grs", "xtn") or ctx.thorough else ["call", "public_key"]),
                  kinds=False)
    for t in numeric + [" 0x1f ", "\u00a012", "1\u2000", "+ 1", "--1", "1_2_3", "0x1_f", "0xg", "x10", "١٢٣", "１２"]:
        if model_safe(t):
            emit("c18number %s" % th(t))
    # the driver's fast scalar multiplication against the C02 curve model and the implementation
    for se in [1, 2, 3, ORDER - 1, ORDER // 2, 2 ** 255 % ORDER] + [rng.randrange(1, ORDER) for _ in range(ctx.n(30, 300))]:
        emit("c18mulg %d" % se)
    # the Electrum seed form (slow: 100 000 hash rounds) — a handful
    for t in ("E:00112233445566778899aabbccddeeff", "E:" + rb(16).hex()):
        for e in ("electrum_seed", "hierarchical_key", "call"):
            emit("c18parse btc %s %s" % (e, th(t)))
    emit("c18parse xtn electrum_seed %s" % th("E:ffffffffffffffffffffffffffffffff"))
    # Electrum public keys with coordinates at the field boundary: x, x+p (refused), y+p where it fits, p itself, 2^256-1
    gobj = NETS["btc"].generator
    for x in [1, 2, 3, 4, 6] + [rng.randrange(1, 2 ** 32) for _ in range(ctx.n(6, 60))]:
        try:
            pts = gobj.points_for_x(x)
        except ValueError:
            continue
        for (_, y) in pts:
            for (xx, yy) in ((x, y), (x + P, y), (x, y + P), (x + P, y + P), (P, y), (x, P), (2 ** 256 - 1, y)):
                if xx < 2 ** 256 and yy < 2 ** 256:
                    for nm in ("btc", rng.choice(["xtn", "ltc", "polis", "grs"])):
                        for e in ("electrum_pub", "hierarchical_key", "call"):
                            emit("c18parse %s %s %s" % (nm, e, th("E:%064x%064x" % (xx, yy))))

    # 6. one parseable_str object through several networks' parsers (every family of entry point)
    gen_history(ctx, emit, "c18history", ["address", "payable", "call", "wif", "private_key", "secret", "bip32", "bip32_prv", "hierarchical_key", "p2sh", "public_key"])
    # 5. script text (compile) and unicode noise
    scripts = ["", " ", "OP_DUP OP_HASH160 %s OP_EQUALVERIFY OP_CHECKSIG" % rb(20).hex(), "OP_0 %s" % rb(20).hex(), "OP_1 %s" % rb(32).hex(), "op_dup", "OP_dup", "DUP",
               "dup", "1ADD", "1add", "OP_1add", "1 2 ADD", "[ab] 'hi' 0x4c 99", "[zz]", "[", "]", "[]", "''", "'", "'a b'", "0x", "0xzz", "0X01", "-1", "-0", "17", "016", "1_6",
               "18446744073709551615", "18446744073709551616", "-18446744073709551615", "abc", "abcd", "OP_RETURN deadbeef", "OP_FOO", "OP_", "OP_PUSHDATA1", "OP_PUSH_20",
               "\tOP_1\n OP_2\r\x0bOP_3\x0c", "OP_1\u00a0OP_2", "OP_1\u2003OP_2", "OP_1\x1cOP_2", "OP_1\x85OP_2", "OP_1\u200bOP_2", "\u00e9", "'\u00e9'", "'\U0001f600'", "OP_\u00e9"]
    for t in scripts:
        for name in ("btc", "grs"):
            every(name, t, ["script", "payable", "call"], kinds=False)
    alphabet = "0123456789abcdefABCDEFxX_+-:/,. \t\n'[]OP_1EHlIO\u00e9\u00df\u0131\u017f\u0661\uff11\u2003\u00a0\U0001f600\ud800"
    for _ in range(ctx.n(150, 20000)):
        t = "".join(rng.choice(alphabet) for _ in range(rng.randrange(1, 12)))
        every(rng.choice(few), t, ["call", "public_key", "secret", "script", "bip32_seed", "hd_seed", "sec", "secret_exponent", "public_pair"], kinds=False)
    for _ in range(ctx.n(100, 10000)):
        t = "".join(chr(rng.choice([rng.randrange(32, 127), rng.randrange(0x80, 0x3000), rng.randrange(0x3000, 0x11000)])) for _ in range(rng.randrange(1, 10)))
        every(rng.choice(few), t, ["call", "public_key", "hierarchical_key"], kinds=False)


def _has_point(x):
    try:
        NETS["btc"].generator.points_for_x(x)
        return True
    except ValueError:
        return False


def oracle(op: str, out: str):
    """the property evaluated on the implementation; on the unchanged tree no step of it raises"""
    try:
        return _oracle(op, out)
    except Exception as e:  # noqa: BLE001
        return "evaluating the property on the implementation raised %s" % type(e).__name__


def gen(ctx, emit):
    import traceback
    try:
        _gen(ctx, emit)
    except Exception as e:  # noqa: BLE001
        tb = traceback.extract_tb(e.__traceback__)
        where = next((fr for fr in reversed(tb) if "/pycoin/" in fr.filename), tb[-1])
        ctx.violation("building the inputs through the public API raised %s" % type(e).__name__,
                      "<generator> %s:%d %s" % (where.filename.split("/pycoin/")[-1], where.lineno, where.name),
                      expected="the API calls the generators use succeed", observed=repr(e)[:200], kind="oracle")
