"""C08 — addresses and output scripts are in one-to-one correspondence on every network
(AddressAPI, ContractAPI, Contract, ParseAPI.address/p2pkh/p2sh/_bech32m, Key/BIP49Node/BIP84Node.address)."""
from __future__ import annotations

import contextlib
import hashlib
import importlib
import io
import pkgutil

from lib import hx, unhx
import grsenv  # first: the Groestl stand-in hash must be in place before pycoin.symbols.* is imported

import pycoin.symbols
from pycoin.encoding.hash import hash160
from pycoin.contrib import bech32m

MANIFEST = {
    "text": "Lean theorems over the model of AddressAPI/ContractAPI/ParseAPI.address and the generated table of all networks under "
            "pycoin/symbols: address round trip for every network and standard kind (C11 round trips as hypotheses + kernel-decided "
            "prefix side conditions over the whole table), accepted strings re-encode to themselves with a payload of the kind's length, "
            "cross-network acceptance for all ordered pairs, key/BIP49/BIP84 address definitions, faithful classification; every network "
            "of the table incl. the Groestlcoin family, whose Base58Check uses another checksum hash (per network and per code path a "
            "field of the table, found by probing; kernel-decided that address.b2a and parse_b58_hashed agree); model tied to "
            "the code by differential correspondence on every network and by the regenerated table.",
    "note": "Groestlcoin family (grs, tgrs, grsrt): runs and is modelled with the stand-in of translate/grs_stub.py in place of the absent "
            "groestlcoin_hash package; the theorems use of the checksum hash only that it yields 32 bytes.",
    "technique": "Lean 4 proof (generic in the codecs, table side conditions by decide +kernel) + differential correspondence model vs implementation",
}
RULE = ("ops c08txin (TxIn.public_key_sec/address on p2pkh solutions and near misses)/c08registry/c08netfor (every module name and symbol, unknown names)/c08contract (nulldata, nulldata_push, p2s, p2s_wit over push-size boundaries)/c08override (Contract.override_network across networks, with disassembly)/c08kind/c08addr/c08parse/c08info/c08forinfo/c08keyaddr/c08foraddress/c08keyseq (key-object histories) on all networks; kinds x networks x hashes, "
        "all ordered network pairs (incl. grs/tgrs/grsrt vs the networks sharing their version bytes, either checksum hash), payload lengths 0..40 per Base58 prefix, every push form of template data, random scripts, "
        "m-of-n with odd count opcodes; distinct = distinct op line; trivial = result None/unknown")
ASSUMPTIONS = ["Base58Check/Bech32 and the hashes enter the theorems as functions with the C11 round-trip facts as hypotheses",
               "the optional groestlcoin_hash package is replaced (also where a real one is installed) by the stand-in of translate/grs_stub.py "
               "in harness, translator and model; of the real Groestl hash only 'a function from byte strings to 32 bytes' is assumed"]
TRUSTED = ["translate/gen_networks.py reads the prefixes where AddressAPI/ParseAPI keep them and probes the *_as_string closures"]

NETS = {}
for _m in sorted(m.name for m in pkgutil.iter_modules(pycoin.symbols.__path__)):
    NETS[_m] = importlib.import_module("pycoin.symbols." + _m).network
NAMES = list(NETS)
FAMILY = [k for k in NAMES if grsenv.hash_kind(k) == "groestl"]       # grs, grsrt, tgrs: Base58Check under the Groestl hash


def b58c(name, payload):
    """reference Base58Check text of `payload` under the checksum hash the network `name` is documented to use"""
    return grsenv.b58c_enc(grsenv.hash_kind(name), payload)

STD = ("p2pkh", "p2sh", "p2pkh_wit", "p2sh_wit", "p2tr")


def _quiet(f, *a):
    """call f; map exceptions to the tag the model prints.  The Groestl hash prints a banner before raising."""
    buf = io.StringIO()
    try:
        with contextlib.redirect_stdout(buf):
            return ("ok", f(*a))
    except ImportError:
        return ("err", "UNSUPPORTED")
    except Exception as e:  # noqa: BLE001
        return ("err", type(e).__name__ if type(e).__name__ != "error" else "error")


def show_info(d):
    t = d.get("type")
    if t == "multisig":
        ks = d["sec_keys"]
        return "multisig:%d:%s" % (d["m"], "/".join(hx(k) for k in ks) if ks else "~")
    f = {"p2pkh": "hash160", "p2pkh_wit": "hash160", "p2sh_wit": "hash256", "p2sh": "hash160", "p2pk": "sec",
         "p2tr": "synthetic_key", "nulldata": "data", "unknown": "script"}[t]
    return "%s:%s" % (t, hx(d[f]))


def parse_info(s):
    a = s.split(":")
    if a[0] == "multisig":
        return dict(type="multisig", m=int(a[1]), sec_keys=[] if a[2] == "~" else [unhx(x) for x in a[2].split("/")])
    f = {"p2pkh": "hash160", "p2pkh_wit": "hash160", "p2sh_wit": "hash256", "p2sh": "hash160", "p2pk": "sec",
         "p2tr": "synthetic_key", "nulldata": "data", "unknown": "script"}[a[0]]
    return {"type": a[0], f: unhx(a[1])}


def show_addr(r):
    if r[0] == "err":
        return "err " + r[1]
    return "ok None" if r[1] is None else "ok " + r[1]


def show_contract(net, r):
    if r[0] == "err":
        return "err " + r[1]
    c = r[1]
    if c is None:
        return "ok None"
    s = _quiet(c.script)
    a = _quiet(c.address)
    return "ok %s script=%s address=%s" % (show_info(c.info()), hx(s[1]) if s[0] == "ok" else "err:" + s[1],
                                           ("None" if a[1] is None else a[1]) if a[0] == "ok" else "err:" + a[1])


def text_of(h):
    return unhx(h).decode("utf8")


def th(s):
    return hx(s.encode("utf8"))


def impl(op: str) -> str:
    a = op.split(" ")
    k = a[0]
    if k == "c08addr":
        return show_addr(_quiet(NETS[a[1]].address.for_script, unhx(a[2])))
    if k == "c08kind":
        f = getattr(NETS[a[1]].address, "for_" + a[2])
        return show_addr(_quiet(f, unhx(a[3])))
    if k == "c08parse":
        net = NETS[a[1]]
        return show_contract(net, _quiet(net.parse.address, text_of(a[2])))
    if k == "c08txin":
        net = NETS[a[1]]
        t = net.tx.TxIn(b"\0" * 32 if a[2] == "1" else b"\x11" * 32, 0xFFFFFFFF if a[2] == "1" else 0, unhx(a[3]))
        sec, ad = _quiet(t.public_key_sec), _quiet(t.address, net.address)
        return "ok sec=%s address=%s" % (("None" if sec[1] is None else hx(sec[1])) if sec[0] == "ok" else "err:" + sec[1],
                                         ("None" if ad[1] is None else ad[1]) if ad[0] == "ok" else "err:" + ad[1])
    if k == "c08registry":
        from pycoin.networks import registry
        r = _quiet(registry.network_codes)
        return "err " + r[1] if r[0] == "err" else "ok " + ",".join(r[1])
    if k == "c08netfor":
        from pycoin.networks import registry
        r = _quiet(registry.network_for_netcode, text_of(a[1]))
        if r[0] == "err":
            return "err " + r[1]
        mods = [m for m, n in NETS.items() if n is r[1]]
        return "ok " + (mods[0] if mods else "?")
    if k == "c08contract":
        c = NETS["btc"].contract
        f = {"nulldata": c.for_nulldata, "nulldata_push": c.for_nulldata_push, "p2s": c.for_p2s, "p2s_wit": c.for_p2s_wit}[a[1]]
        r = _quiet(f, unhx(a[2]))
        return "err " + r[1] if r[0] == "err" else "ok " + hx(r[1])
    if k == "c08override":
        r = _quiet(NETS[a[1]].parse.address, text_of(a[3]))
        if r[0] == "err":
            return "err " + r[1]
        if r[1] is None:
            return "ok None"
        c2 = r[1].override_network(NETS[a[2]])
        sc, ad, asm = _quiet(c2.script), _quiet(c2.address), _quiet(c2.disassemble)
        h = c2.hash160()
        return "ok script=%s address=%s asm=%s h160=%s" % (hx(sc[1]) if sc[0] == "ok" else "err:" + sc[1],
                                                           ("None" if ad[1] is None else ad[1]) if ad[0] == "ok" else "err:" + ad[1],
                                                           th(asm[1]) if asm[0] == "ok" else "err:" + asm[1], "None" if h is None else hx(h))
    if k == "c08foraddress":
        r = _quiet(NETS[a[1]].contract.for_address, text_of(a[2]))
        return "err " + r[1] if r[0] == "err" else ("ok None" if r[1] is None else "ok " + hx(r[1]))
    if k == "c08info":
        c = NETS["btc"].contract
        r = _quiet(c.info_for_script, unhx(a[1]))
        if r[0] == "err":
            return "err " + r[1]
        b = _quiet(c.for_info, r[1])
        return "ok %s rebuilt=%s" % (show_info(r[1]), hx(b[1]) if b[0] == "ok" else "err:" + b[1])
    if k == "c08forinfo":
        r = _quiet(NETS["btc"].contract.for_info, parse_info(a[1]))
        return "err " + r[1] if r[0] == "err" else "ok " + hx(r[1])
    if k == "c08keyaddr":
        net = NETS[a[1]]
        sec = unhx(a[3])
        if a[2] == "key":
            key = net.keys.public(sec)
            return show_addr(_quiet(key.address))
        blob = b"\0\0\0\0" + b"\x00" + b"\0\0\0\0" + b"\0\0\0\0" + b"\x07" * 32 + sec
        node = (net.keys.bip49_deserialize if a[2] == "bip49" else net.keys.bip84_deserialize)(blob)
        return show_addr(_quiet(node.address))
    if k == "c08history":
        return _history(text_of(a[1]), a[2], fresh=False)
    if k == "c08keyseq":
        key = _make_key(NETS[a[1]], a[2], int(a[3]), a[4] == "1", a[5] == "1")
        outs = []
        for st in a[8].split(","):
            r = _quiet(_key_step, key, st)
            if st == "public_copy":
                if r[0] == "ok":
                    key = r[1]
                outs.append("-" if r[0] == "ok" else "err:" + r[1])
            elif r[0] == "err":
                outs.append("err:" + r[1])
            else:
                v = r[1]
                outs.append("None" if v is None else hx(v) if isinstance(v, bytes) else v)
        return "ok " + ";".join(outs)
    if k == "c08compile":
        r = _quiet(NETS["btc"].script.compile, text_of(a[1]))
        return "err " + r[1] if r[0] == "err" else "ok " + hx(r[1])
    return "bad-op"


def _history(text, steps, fresh):
    """`net:entry` calls in turn on ONE parseable_str object (fresh=False) or each on a new plain str (fresh=True)"""
    from pycoin.networks.parseable_str import parseable_str
    from props import c18 as _c18
    ps = parseable_str(text)
    outs = []
    for st in steps.split(","):
        name, entry = st.split(":")
        net = NETS[name]
        r = _quiet(_c18.entry_f(net, entry), text if fresh else ps)
        outs.append("err " + r[1] if r[0] == "err" else "ok None" if r[1] is None else "ok " + _c18.show_obj(net, r[1]))
    return "ok " + " | ".join(outs)


SAME_NAME = {}
for _k, _n in NETS.items():
    SAME_NAME.setdefault(_n.network_name, []).append(_k)
SAME_NAME = {k: v for k, v in SAME_NAME.items() if len(v) > 1}


def gen_history(ctx, emit, op, entries):
    """all ordered pairs of same-named networks (both orders come from the pairs being ordered), texts made on either of
    them, plus sampled other pairs and longer mixed sequences"""
    rng = ctx.rng

    def texts_of(name):
        net = NETS[name]
        out = []
        h20, h32 = bytes(rng.randrange(256) for _ in range(20)), bytes(rng.randrange(256) for _ in range(32))
        for kind, h in (("p2pkh", h20), ("p2sh", h20), ("p2pkh_wit", h20), ("p2sh_wit", h32), ("p2tr", h32)):
            r = _quiet(getattr(net.address, "for_" + kind), h)
            if r[0] == "ok" and r[1]:
                out.append(r[1])
        k = net.keys.private(rng.randrange(1, 2 ** 200))
        node = net.keys.bip32_seed(b"history-%d" % rng.randrange(100))
        for f in (k.wif, lambda: node.hwif(as_private=True), node.hwif):
            r = _quiet(f)
            if r[0] == "ok" and r[1]:
                out.append(r[1])
        return out

    names = list(NAMES)
    pairs = [(a, b) for g in SAME_NAME.values() for a in g for b in g if a != b]
    pairs += [tuple(rng.sample(names, 2)) for _ in range(ctx.n(25, 400))]
    pairs += [(f, o) if rng.random() < 0.5 else (o, f) for f in FAMILY for o in ("btc", "xtn")]   # one object, both checksum hashes
    for a, b in pairs:
        for text in texts_of(a) + texts_of(b):
            for e in entries if len(entries) <= 2 else rng.sample(entries, ctx.n(2, 4)):
                emit("%s %s %s:%s,%s:%s" % (op, th(text), a, e, b, e))
    for _ in range(ctx.n(60, 1500)):
        g = rng.choice(list(SAME_NAME.values())) if rng.random() < 0.6 else rng.sample(names, 3)
        text = rng.choice(texts_of(rng.choice(g)))
        steps = ["%s:%s" % (rng.choice(g), rng.choice(entries)) for _ in range(rng.randint(2, 6))]
        emit("%s %s %s" % (op, th(text), ",".join(steps)))


def _make_key(net, kind, se, private, flag):
    """the key object a c08keyseq op talks about (the op also carries its two SEC encodings for the model)"""
    if kind == "key":
        k = net.keys.private(se, is_compressed=flag)
        return k if private else net.keys.public(k.sec(is_compressed=flag))
    node = net.keys.bip32_seed(se.to_bytes(32, "big"))
    if kind != "bip32":
        node = getattr(net.keys, kind + "_deserialize")(b"\0\0\0\0" + node.serialize(as_private=True))
    return node if private else node.public_copy()


def _key_step(key, st):
    if st == "public_copy":
        return key.public_copy()
    name, f = st.split(":")
    kw = {} if f == "d" else {"is_compressed": f == "c"}
    return getattr(key, name)(**kw)


def _hash160_ref(b):
    """HASH160 computed apart from pycoin's key classes"""
    sha = hashlib.sha256(b).digest()
    try:
        return hashlib.new("ripemd160", sha).digest()
    except ValueError:
        from pycoin.encoding.hash import ripemd160
        return ripemd160(sha).digest()


# ------------------------------------------------------------------ oracles: the property on the implementation alone

def _std_script(net, kind, h):
    return getattr(net.contract, "for_" + kind)(h)


def _payload_len_ok(name, net, text, info):
    """the decoded payload of an accepted address has the kind's length"""
    t = info.get("type")
    want = {"p2pkh": 20, "p2sh": 20, "p2pkh_wit": 20, "p2sh_wit": 32, "p2tr": 32}.get(t)
    if want is None:
        return False
    if t in ("p2pkh", "p2sh"):
        data = grsenv.b58c_dec(grsenv.hash_kind(name), text)
        if data is None:
            return False
        pfx = net.parse._address_prefix if t == "p2pkh" else net.parse._pay_to_script_prefix
        return len(data) - len(pfx) == want
    hrp, data, spec = bech32m.bech32_decode(text)
    if data is None:
        return False
    dec = bech32m.convertbits(data[1:], 5, 8, False)
    return dec is not None and len(dec) == want


def _parse_disabled(name):
    """grs.py replaces parse.address (and three other entry points) by none_parser when groestlcoin_hash is not installed:
    nothing parses there, which is the sandbox's condition, not a violation"""
    return "address" in vars(NETS[name].parse)


def _oracle2(a, k, out):
    if k == "c08txin" and out.startswith("ok "):
        sec = out.split(" ")[1][4:]
        ad = out.split(" ")[2][8:]
        if a[2] == "1" and (sec != "None" or ad != "(coinbase)"):
            return "the coinbase input reports a key or an address"
        if a[2] == "0" and not sec.startswith("err:"):
            if sec == "None" and ad != "(unknown)":
                return "an input that reveals no key reports an address"
            if sec != "None":
                want = impl("c08kind %s p2pkh %s" % (a[1], hx(_hash160_ref(unhx(sec)))))
                if want.startswith("ok ") and ad != want[3:]:
                    return "TxIn.address is not the address of the key the input reveals"
                ps = pushes(unhx(sec))
                if not any(unhx(a[3]).endswith(p_) for p_ in ps):
                    return "public_key_sec is not the data of the script's last push"
    if k == "c08registry":
        if not out.startswith("ok "):
            return "network_codes() raised: " + out
        got = out[3:].split(",")
        want = [NETS[m].symbol.upper() for m in NAMES]
        if sorted(got) != sorted(want) or len(set(got)) != len(got):
            return "network_codes() is not one symbol per module under pycoin/symbols"
    if k == "c08netfor":
        t = text_of(a[1])
        hit = [m for m in NAMES if m == t.lower() and NETS[m].symbol.upper() == t.upper()]
        if out.startswith("ok ") != bool(hit) or (hit and out != "ok " + hit[0]):
            return "network_for_netcode(%r): %s, registered modules with that symbol: %s" % (t, out, hit)
    if k == "c08contract" and out.startswith("ok "):
        d, sc = unhx(a[2]), unhx(out[3:])
        if a[1] == "nulldata" and sc != b"\x6a" + d:
            return "for_nulldata is not OP_RETURN followed by the data"
        small = ([bytes([0x50 + d[0]])] if len(d) == 1 and 1 <= d[0] <= 16 else []) + ([b"\x4f"] if d == b"\x81" else []) + ([b"\x00", b""] if not d else [])
        if a[1] == "nulldata_push" and (sc[:1] != b"\x6a" or sc[1:] not in pushes(d) + small):
            return "for_nulldata_push is not OP_RETURN followed by one push of the data"
        if a[1] == "p2s" and sc != b"\xa9\x14" + _hash160_ref(d) + b"\x87":
            return "for_p2s is not the P2SH script of hash160(script)"
        if a[1] == "p2s_wit" and sc != b"\x00\x20" + hashlib.sha256(d).digest():
            return "for_p2s_wit is not the P2WSH script of sha256(script)"
    if k == "c08override" and out.startswith("ok script="):
        src = impl("c08parse %s %s" % (a[1], a[3]))
        sc = out.split(" ")[1][len("script="):]
        ad = out.split(" ")[2][len("address="):]
        if " script=%s " % sc not in src + " ":
            return "override_network changed the script of the contract"
        h160 = out.split(" ")[4][len("h160="):]
        kind, _, payload = src[3:].split(" ")[0].partition(":")
        if (h160 != "None") != (kind in ("p2pkh", "p2sh", "p2pkh_wit")) or (h160 != "None" and h160 != payload):
            return "Contract.hash160() is not the 20-byte hash of a hash160-based contract (None otherwise)"
        want = impl("c08addr %s %s" % (a[2], sc))
        if want.startswith("ok ") and ad != want[3:]:
            return "the overridden contract's address is not the other network's address for its script"
    return None


def _oracle(op: str, out: str):
    r2 = _oracle2(op.split(" "), op.split(" ")[0], out)
    if r2:
        return r2
    a = op.split(" ")
    k = a[0]
    if k in ("c08kind", "c08addr") and _parse_disabled(a[1]):
        return None
    if k == "c08kind" and a[2] in STD and out.startswith("ok ") and out != "ok None":
        net, h, text = NETS[a[1]], unhx(a[3]), out[3:]
        if len(h) != (32 if a[2] in ("p2sh_wit", "p2tr") else 20):
            return None
        want = _std_script(net, a[2], h)
        if a[2] in ("p2pkh", "p2sh"):
            pfx = net.address._address_prefix if a[2] == "p2pkh" else net.address._pay_to_script_prefix
            if grsenv.b58c_dec(grsenv.hash_kind(a[1]), text) != pfx + h:
                return "for_%s is not Base58Check(prefix + hash) under the network's checksum hash" % a[2]
        c = _quiet(net.parse.address, text)
        if c[0] == "err" or c[1] is None:
            return "address produced by for_%s does not parse back on its own network" % a[2]
        if c[1].script() != want:
            return "address produced by for_%s parses back to a different script" % a[2]
        if net.address.for_script(want) != text:
            return "for_script(standard %s script) differs from for_%s(hash)" % (a[2], a[2])
    if k == "c08addr" and out.startswith("ok ") and out not in ("ok None", "ok ???") and not out.startswith("ok (nulldata"):
        net, script, text = NETS[a[1]], unhx(a[2]), out[3:]
        info = net.contract.info_for_script(script)
        if info["type"] in STD:
            c = _quiet(net.parse.address, text)
            if c[0] == "err" or c[1] is None:
                return "address of a script classified %s does not parse back" % info["type"]
            if c[1].script() != script:
                return "address of a script classified %s parses back to a different script" % info["type"]
    if k == "c08parse" and out.startswith("ok ") and out != "ok None":
        net, text = NETS[a[1]], text_of(a[2])
        c = net.parse.address(text)
        info = c.info()
        if info["type"] not in STD:
            return "string accepted as an address denotes a script of type %s" % info["type"]
        back = c.address()
        if back != text.lower() and back != text:
            return "accepted address does not re-encode to itself (gives %r)" % (back,)
        if net.address.for_script(c.script()) != back:
            return "for_script(parse(address).script()) differs from the contract's own address"
        if not _payload_len_ok(a[1], net, text, info):
            return "accepted address carries a payload of the wrong length for %s (or not under the network's checksum hash)" % info["type"]
        if info["type"] in ("p2pkh", "p2sh") and grsenv.hash_kind(a[1]) not in grsenv.kind_of_text(text):
            return "accepted a Base58 address whose checksum is not the network's checksum hash"
    if k == "c08info" and out.startswith("ok ") and not out.startswith("ok unknown"):
        script = unhx(a[1])
        rebuilt = out.split("rebuilt=")[1]
        if rebuilt != hx(script):
            return "script classified %s but rebuilding gives different bytes" % out[3:].split(":")[0]
    if k == "c08history":
        want = _history(text_of(a[1]), a[2], fresh=True)
        if want != out:
            got, exp = out[3:].split(" | "), want[3:].split(" | ")
            i = next((j for j in range(min(len(got), len(exp))) if got[j] != exp[j]), 0)
            return "a parser's answer on a shared parseable_str differs from its answer on a fresh string (call %d of %s)" % (i + 1, a[2])
    if k == "c08keyseq" and out.startswith("ok "):
        net, kind, flag = NETS[a[1]], a[2], a[5] == "1"
        secs = {True: unhx(a[6]), False: unhx(a[7])}
        for st, got in zip(a[8].split(","), out[3:].split(";")):
            if st == "public_copy":
                continue
            name, f = st.split(":")
            c = (f == "c") if f != "d" else (True if (name == "address" and kind in ("bip49", "bip84")) else flag)
            h = _hash160_ref(secs[c])
            if name == "sec":
                want = hx(secs[c])
            elif name == "hash160":
                want = hx(h)
            elif name == "fingerprint":
                want = hx(h[:4])
            elif kind in ("key", "bip32"):
                want = net.address.for_script(net.contract.for_p2pkh(h))
            elif kind == "bip84":
                want = net.address.for_script(net.contract.for_p2pkh_wit(h))
            else:
                want = net.address.for_script(net.contract.for_p2sh(_hash160_ref(net.contract.for_p2pkh_wit(h))))
            if got != ("None" if want is None else want):
                return "a key object's %s is not that of the script paying to HASH160 of its %s SEC (after the calls %s)" % (
                    name, "compressed" if c else "uncompressed", a[8])
    if k == "c08keyaddr" and out.startswith("ok ") and out != "ok None":
        net, sec = NETS[a[1]], unhx(a[3])
        h = hash160(sec)
        if a[2] == "key":
            want = net.address.for_script(net.contract.for_p2pkh(h))
        elif a[2] == "bip84":
            want = net.address.for_script(net.contract.for_p2pkh_wit(h))
        else:
            inner = net.contract.for_p2pkh_wit(h)
            want = net.address.for_script(net.contract.for_p2sh(hash160(inner)))
        if want != out[3:]:
            return "%s address is not the address of the script paying to the key's hash" % a[2]
    return None


def trivial(op: str) -> bool:
    return False


def neighbours(op, rng):
    a = op.split(" ")
    if a[0] in ("c08kind",):
        for _ in range(20):
            yield "c08kind %s %s %s" % (a[1], a[2], hx(bytes(rng.randrange(256) for _ in range(len(unhx(a[3]))))))
    if a[0] == "c08parse":
        # the same text on every network
        for n in NAMES:
            yield "c08parse %s %s" % (n, a[2])


KNOWN = {}


# ------------------------------------------------------------------ generators

def pushes(data: bytes):
    """every way the script encoding can push `data`"""
    n = len(data)
    out = []
    if 1 <= n <= 75:
        out.append(bytes([n]) + data)
    if n <= 255:
        out.append(b"\x4c" + bytes([n]) + data)
    out.append(b"\x4d" + n.to_bytes(2, "little") + data)
    out.append(b"\x4e" + n.to_bytes(4, "little") + data)
    return out


def _gen(ctx, emit):
    rng = ctx.rng

    def rb(n):
        return bytes(rng.randrange(256) for _ in range(n))

    def hashes(n):
        base = [b"\0" * n, b"\xff" * n, bytes(range(n)), bytes([0x12] * n), bytes([0x99] * n)]
        return base + [rb(n) for _ in range(ctx.n(2, 40))]

    # TxIn.public_key_sec / address: pay-to-public-key-hash solutions, and scripts that are not
    for name in rng.sample(NAMES, min(len(NAMES), ctx.n(6, 60))) + ["btc"]:
        sig = b"\x30" + rb(rng.choice([8, 69, 70, 71])) + b"\x01"
        for sec in (b"\x02" + rb(32), b"\x04" + rb(64), rb(33), b"\x02"):
            good = pushes(sig)[0] + pushes(sec)[0]
            emit("c08txin %s 0 %s" % (name, hx(good)))
        emit("c08txin %s 1 %s" % (name, hx(good)))
        emit("c08txin %s 0 %s" % (name, hx(pushes(b"\x31" + sig[1:])[0] + pushes(sec)[0])))      # first push is not a DER signature
        emit("c08txin %s 0 %s" % (name, hx(pushes(sig)[0] + b"\x76")))                            # second item is an opcode
        emit("c08txin %s 0 %s" % (name, hx(pushes(sig)[0] + b"\x00")))                            # … is OP_0
        emit("c08txin %s 0 %s" % (name, hx(pushes(sig)[0] + pushes(sec)[0] + b"\xac")))           # three items
        emit("c08txin %s 0 %s" % (name, hx(pushes(sig)[0])))                                       # one item
        emit("c08txin %s 0 %s" % (name, hx(pushes(sig)[0] + pushes(sec)[0][:-3])))                # truncated push
        emit("c08txin %s 0 %s" % (name, hx(b"\x4c" + bytes([len(sig)]) + sig + pushes(sec)[0]))) # non-minimal first push
        emit("c08txin %s 0 -" % name)
        emit("c08txin %s 0 %s" % (name, hx(rb(rng.randrange(1, 12)))))
    # registry, the remaining contract builders, Contract.override_network
    emit("c08registry")
    for name in NAMES:
        emit("c08netfor " + th(name))
        emit("c08netfor " + th(NETS[name].symbol))
        emit("c08netfor " + th(NETS[name].symbol.lower().capitalize()))
    for t in ("", "nosuch", "btc2", "b", "BTCX", "x" * 40, "btc_", "_btc", "network", "symbols", "__init__"):
        emit("c08netfor " + th(t))
    for n in (0, 1, 2, 20, 40, 75, 76, 80, 255, 256, 520):
        d = rb(n)
        for kind in ("nulldata", "nulldata_push", "p2s", "p2s_wit"):
            emit("c08contract %s %s" % (kind, hx(d)))
    emit("c08contract nulldata_push 01")
    emit("c08contract nulldata_push 81")
    emit("c08contract nulldata_push 10")
    b58nets = list(NAMES)
    made = []  # (net, text) of every address produced, for the cross-network stream
    # 1. all kinds x all networks x hashes; and for_script of the standard script
    for name in NAMES:
        net = NETS[name]
        for kind in STD:
            for h in hashes(32 if kind in ("p2sh_wit", "p2tr") else 20)[: ctx.n(4, 45)]:
                emit("c08kind %s %s %s" % (name, kind, hx(h)))
                script = _std_script(net, kind, h)
                emit("c08addr %s %s" % (name, hx(script)))
                r = _quiet(getattr(net.address, "for_" + kind), h)
                if r[0] == "ok" and r[1]:
                    made.append((name, r[1]))
                    emit("c08parse %s %s" % (name, th(r[1])))
                    emit("c08foraddress %s %s" % (name, th(r[1])))
        for kind in STD:
            r = _quiet(getattr(net.address, "for_" + kind), rb(32 if kind in ("p2sh_wit", "p2tr") else 20))
            if r[0] == "ok" and r[1]:
                emit("c08override %s %s %s" % (name, rng.choice(NAMES), th(r[1])))
        # wrong-size arguments to the producers (assertions in the segwit ones)
        for kind in STD + ("p2s", "p2s_wit"):
            for ln in (0, 1, 19, 20, 21, 31, 32, 33, 40):
                emit("c08kind %s %s %s" % (name, kind, hx(rb(ln))))
    # 2. cross-network: every string produced on A parsed on B (all ordered pairs, sampled strings)
    by_net = {}
    for name, text in made:
        by_net.setdefault(name, []).append(text)
    for a in NAMES:
        texts = by_net.get(a, [])
        if not texts:
            continue
        for b in NAMES:
            for text in rng.sample(texts, min(len(texts), ctx.n(2, 12))):
                emit("c08parse %s %s" % (b, th(text)))
    # 2b. the Groestlcoin family against the networks that share its version bytes (GRS P2SH 05 = BTC's; TGRS/GRSRT 6f/c4 =
    #     XTN's, …): a text made on one side must be refused on the other because the checksums differ — both ways, texts
    #     made by the networks themselves and by the reference encoder under either checksum hash
    for f in FAMILY:
        fa = NETS[f].address
        for o in NAMES:
            oa = NETS[o].address
            if o in FAMILY and o <= f:
                continue
            shared = [(kind, pf) for kind, pf, po in (("p2pkh", fa._address_prefix, oa._address_prefix),
                                                       ("p2sh", fa._pay_to_script_prefix, oa._pay_to_script_prefix)) if pf is not None and pf == po]
            if not shared and o not in ("btc", "xtn", "ltc"):
                continue
            for kind, pf in shared or [("p2pkh", fa._address_prefix)]:
                h = rb(20)
                for x, y in ((f, o), (o, f)):
                    r = _quiet(getattr(NETS[x].address, "for_" + kind), h)
                    if r[0] == "ok" and r[1]:
                        emit("c08parse %s %s" % (y, th(r[1])))
                        emit("c08parse %s %s" % (x, th(r[1])))
                        emit("c08foraddress %s %s" % (y, th(r[1])))
                for hk in ("sha256d", "groestl"):
                    t = grsenv.b58c_enc(hk, pf + h)
                    emit("c08parse %s %s" % (f, th(t)))
                    emit("c08parse %s %s" % (o, th(t)))
    # 2c. a right payload with ONE checksum byte off (each of the four positions), under the network's own hash: refused
    #     (a comparison of fewer than four bytes, or of the wrong slice, accepts some of these)
    for name in FAMILY + ["btc", "dcr"] + rng.sample(NAMES, ctx.n(3, 20)):
        aa = NETS[name].address
        for pf in (aa._address_prefix, aa._pay_to_script_prefix):
            if pf is None:
                continue
            payload = pf + rb(20)
            chk = grsenv.HASHES[grsenv.hash_kind(name)](payload)[:4]
            for i in range(4):
                bad = bytearray(chk)
                bad[i] ^= 1 << rng.randrange(8)
                emit("c08parse %s %s" % (name, th(grsenv.b58enc(payload + bytes(bad)))))
            emit("c08parse %s %s" % (name, th(grsenv.b58enc(payload + chk[:3]))))
            emit("c08parse %s %s" % (name, th(grsenv.b58enc(payload + chk + chk[:1]))))
    # 3. payload lengths 0..40 for every Base58 prefix of every network (address, p2sh, wif, bip32…: any kind's
    #    prefix must not make an address out of a payload of the wrong length)
    for name in b58nets:
        p = NETS[name].parse
        prefixes = {getattr(p, at) for at in ("_address_prefix", "_pay_to_script_prefix", "_wif_prefix", "_bip32_prv_prefix",
                                              "_bip32_pub_prefix", "_bip49_prv_prefix", "_bip84_pub_prefix")}
        for pfx in sorted(x for x in prefixes if isinstance(x, bytes)):
            lens = list(range(0, 41)) if pfx in (p._address_prefix, p._pay_to_script_prefix) else [0, 1, 19, 20, 21, 32, 33, 34, 74]
            for ln in lens:
                emit("c08parse %s %s" % (name, th(b58c(name, pfx + rb(ln)))))
    # bech32: every witness version / length / checksum constant on the networks with an HRP
    for name in NAMES:
        hrp = NETS[name].parse._bech32_hrp
        if not hrp:
            continue
        for ver in (0, 1, 2, 16):
            for ln in (2, 19, 20, 21, 31, 32, 33, 40):
                for spec in (bech32m.Encoding.BECH32, bech32m.Encoding.BECH32M):
                    data = [ver] + bech32m.convertbits(rb(ln), 8, 5)
                    s = bech32m.bech32_encode(hrp, data, spec)
                    emit("c08parse %s %s" % (name, th(s)))
                    if rng.random() < 0.3:
                        emit("c08parse %s %s" % (name, th(s.upper())))
        for other in ("bc", "tb", "ltc", hrp + "x", hrp[:-1]):
            s = bech32m.bech32_encode(other, [0] + bech32m.convertbits(rb(20), 8, 5), bech32m.Encoding.BECH32) if other else None
            if s:
                emit("c08parse %s %s" % (name, th(s)))
    # garbage text
    for s in ["", " ", "1", "11111", "bc1", "bc1q", "0", "BC1QW508D6QEJXTDG4Y5R3ZARVARY0C5XW7KV8F3T4", "3P14159f73E4gFr7JterCCQh9QjiTjiZrG", "x" * 200]:
        for name in ("btc", "xtn", "ltc", "polis", "chc", "grs"):
            emit("c08parse %s %s" % (name, th(s)))
    # 4. classification: templates with every push form of the embedded data
    def wrap(kind, push):
        return {"p2pkh": b"\x76\xa9" + push + b"\x88\xac", "p2sh": b"\xa9" + push + b"\x87", "wit": b"\x00" + push,
                "p2tr": b"\x51" + push, "p2pk": push + b"\xac"}[kind]
    scripts = []
    for kind, lens in (("p2pkh", (19, 20, 21)), ("p2sh", (19, 20, 21)), ("wit", (19, 20, 21, 31, 32, 33)), ("p2tr", (31, 32, 33)),
                       ("p2pk", (32, 33, 65, 75, 76, 120, 121))):
        for ln in lens:
            d = rb(ln)
            for p in pushes(d):
                scripts.append(wrap(kind, p))
                scripts.append(wrap(kind, p) + b"\x61")
                scripts.append(wrap(kind, p)[:-1])
    # data that looks like another template
    inner = b"\x76\xa9\x14" + rb(20) + b"\x88\xac"
    scripts += [b"\x6a" + inner, b"\x6a", b"\x6a\x04abcd", b"", b"\x00", b"\x51", b"\xac", b"\x00\x14", b"\x76\xa9\x14" + inner[:20] + b"\x88\xac",
                b"\xa9\x14" + inner[:20] + b"\x87", b"\x00\x20" + inner + rb(7), b"\x51\x20" + b"\x00\x14" + rb(30), b"\x05", b"\x4c", b"\x4d\x01",
                b"\x4e\x01\x00\x00", b"\x4c\x05ab", b"\x76\xa9\x05", b"\x76\xa9\x4c"]
    # multisig m-of-n, all push forms of keys, odd count opcodes
    def msig(m_op, keys, n_op, tail=b"\xae", forms=None):
        body = b""
        for i, k in enumerate(keys):
            ps = pushes(k)
            body += ps[(forms[i] if forms else 0) % len(ps)]
        return bytes([m_op]) + body + bytes([n_op]) + tail
    for n in (1, 2, 3, 15, 16, 17, 20):
        keys = [b"\x02" + rb(32) if rng.random() < 0.6 else b"\x04" + rb(64) for _ in range(n)]
        for m in sorted({1, 2, n, min(n, 15), min(n, 16)}):
            if m < 1 or m > 16:
                continue
            scripts.append(msig(0x50 + m, keys, 0x50 + n))
            scripts.append(msig(0x50 + m, keys, 0x50 + n, forms=[rng.randrange(4) for _ in keys]))
            scripts.append(msig(0x50 + m, keys, 0x50 + n, tail=b"\xae\x61"))
            scripts.append(msig(0x50 + m, keys, 0x50 + n, tail=b"\xaf"))
            scripts.append(msig(0x50 + m, keys, 0x50 + n, tail=b""))
            scripts.append(msig(0x50 + m, keys[:-1], 0x50 + n))
            scripts.append(msig(0x50 + m, keys[:-1] + [rb(32)], 0x50 + n))
    for n in (17, 18, 33):
        keys = [b"\x02" + rb(32) for _ in range(n)]
        scripts.append(msig(0x51, keys, 0x50 + n))          # count opcode beyond OP_16 (OP_NOP, OP_VER, …)
    scripts.append(msig(0x51, [b"\x02" + rb(32)], 0x01, tail=b"\x51\xae"))   # count given as a data push
    scripts.append(msig(0x60, [b"\x02" + rb(32)] * 16, 0x60))                # m = 16 (excluded by `< OP_16`)
    scripts.append(msig(0x51, [rb(76)], 0x51))
    scripts.append(msig(0x51, [rb(120)], 0x51))
    scripts.append(msig(0x51, [rb(121)], 0x51))
    for _ in range(ctx.n(300, 40000)):
        ln = rng.choice([1, 2, 3, 5, 22, 23, 25, 34, 35, 40, 70])
        s = bytearray(rb(ln))
        if rng.random() < 0.5:
            s[0] = rng.choice([0x00, 0x51, 0x52, 0x76, 0xa9, 0x6a, 0x21, 0x41, 0x14, 0x20])
        scripts.append(bytes(s))
    # mutate template instances: flip/insert/delete one byte
    base = [wrap("p2pkh", pushes(rb(20))[0]), wrap("p2sh", pushes(rb(20))[0]), wrap("wit", pushes(rb(20))[0]), wrap("wit", pushes(rb(32))[0]),
            wrap("p2tr", pushes(rb(32))[0]), wrap("p2pk", pushes(b"\x03" + rb(32))[0]), msig(0x52, [b"\x02" + rb(32)] * 3, 0x53)]
    for s in base:
        scripts.append(s)
        for _ in range(ctx.n(12, 1500)):
            t = bytearray(s)
            i = rng.randrange(len(t))
            w = rng.randrange(3)
            if w == 0:
                t[i] = rng.randrange(256)
            elif w == 1:
                t.insert(i, rng.randrange(256))
            else:
                del t[i]
            scripts.append(bytes(t))
    for s in scripts:
        emit("c08info %s" % hx(s))
        for name in ("btc", rng.choice(NAMES)):
            emit("c08addr %s %s" % (name, hx(s)))
    # 5. for_info directly (text building: decimal-looking and opcode-looking hex, empty data)
    for d in [b"", b"\x01", b"\x10", b"\x11", b"\x12", b"\x16", b"\x17", b"\x99", b"\x00", b"\x00\x01", b"\x12\x34", b"\x1a\xdd", b"\xad\xd0", b"\x81",
              b"\x18\x44\x67\x44\x07\x37\x09\x55\x16\x15", b"\x18\x44\x67\x44\x07\x37\x09\x55\x16\x16", b"\x09" * 8, b"\x10" * 9, b"\x12" * 20, b"\x12" * 32, rb(20), rb(32), rb(33), rb(75), rb(76), rb(255), rb(256)]:
        for t in ("p2pkh", "p2sh", "p2pkh_wit", "p2sh_wit", "p2tr", "p2pk", "nulldata", "unknown"):
            emit("c08forinfo %s:%s" % (t, hx(d)))
    for m, n in ((1, 1), (2, 3), (0, 0), (1, 0), (3, 2), (15, 16), (16, 16), (17, 17), (1, 20)):
        emit("c08forinfo multisig:%d:%s" % (m, "/".join(hx(b"\x02" + rb(32)) for _ in range(n)) or "~"))
    emit("c08forinfo multisig:1:-/%s" % hx(rb(33)))
    # 8. one parseable_str object through several networks' address parsers
    gen_history(ctx, emit, "c08history", ["address", "p2pkh", "p2sh", "p2pkh_segwit", "p2tr"])
    # 7. key objects over time: every cached attribute and copying method, in random orders
    step_names = ["hash160", "fingerprint", "address", "sec"]
    def steps_random(n):
        return [("public_copy" if rng.random() < 0.25 else "%s:%s" % (rng.choice(step_names), rng.choice("cud"))) for _ in range(n)]
    fixed_seqs = [["address:d", "public_copy", "address:u", "address:c", "hash160:u"], ["hash160:c", "public_copy", "hash160:u", "sec:u", "address:u"],
                  ["fingerprint:d", "public_copy", "fingerprint:u"], ["address:u", "public_copy", "address:c", "address:d"],
                  ["hash160:u", "hash160:c", "public_copy", "public_copy", "hash160:c", "hash160:u", "address:d"],
                  ["public_copy", "address:u", "address:c"], ["address:c", "address:u", "address:c", "address:u"]]
    def keyseq(name, kind, se, private, flag, steps):
        key = _make_key(NETS[name], kind, se, True, flag)
        emit("c08keyseq %s %s %d %d %d %s %s %s" % (name, kind, se, 1 if private else 0, 1 if flag else 0,
                                                   hx(key.sec(is_compressed=True)), hx(key.sec(is_compressed=False)), ",".join(steps)))
    for name in NAMES:
        se = rng.randrange(1, 2 ** 200)
        for flag in (True, False):
            for steps in fixed_seqs[: ctx.n(3, 7)]:
                keyseq(name, "key", se, True, flag, steps)
            keyseq(name, "key", se, False, flag, steps_random(5))
        for kind in ("bip32", "bip49", "bip84"):
            keyseq(name, kind, se, True, True, rng.choice(fixed_seqs))
    for _ in range(ctx.n(400, 8000)):
        name = rng.choice(NAMES)
        kind = rng.choice(["key", "key", "key", "bip32", "bip49", "bip84"])
        keyseq(name, kind, rng.randrange(1, 2 ** 255), rng.random() < 0.75, True if kind != "key" else rng.random() < 0.5,
               steps_random(rng.randint(1, 9)))
    # 6. keys: Key / BIP49 / BIP84 address on every network (SEC taken from real keys)
    secs = []
    for se in (1, 2, 3, rng.randrange(1, 2 ** 256 - 2 ** 33)):
        key = NETS["btc"].keys.private(se)
        secs += [key.sec(is_compressed=True), key.sec(is_compressed=False)]
    for name in NAMES:
        for sec in secs:
            emit("c08keyaddr %s key %s" % (name, hx(sec)))
            if len(sec) == 33:
                emit("c08keyaddr %s bip49 %s" % (name, hx(sec)))
                emit("c08keyaddr %s bip84 %s" % (name, hx(sec)))


def oracle(op: str, out: str):
    """the property evaluated on the implementation; on the unchanged tree no step of it raises"""
    try:
        return _oracle(op, out)
    except Exception as e:  # noqa: BLE001
        return "evaluating the property on the implementation raised %s" % type(e).__name__


def gen(ctx, emit):
    import traceback
    try:
        _gen(ctx, emit)
    except Exception as e:  # noqa: BLE001
        tb = traceback.extract_tb(e.__traceback__)
        where = next((fr for fr in reversed(tb) if "/pycoin/" in fr.filename), tb[-1])
        ctx.violation("building the inputs through the public API raised %s" % type(e).__name__,
                      "<generator> %s:%d %s" % (where.filename.split("/pycoin/")[-1], where.lineno, where.name),
                      expected="the API calls the generators use succeed", observed=repr(e)[:200], kind="oracle")
