"""Shared by c02.py / c01.py: evaluation of curve/ECDSA ops on the real pycoin objects, in worker processes per
arithmetic configuration (pycoin reads PYCOIN_NATIVE at import time), toy-curve enumeration, and independent
reference arithmetic used by the oracles.

Run as a script (`python curve_common.py`) it is the worker: one op line on stdin -> one answer line on stdout.
"""
from __future__ import annotations

import atexit
import hashlib
import hmac
import os
import subprocess
import sys

CONFIGS = ("pure", "openssl")
NAMED = ("secp256k1", "secp256r1", "bls12_381")


# ------------------------------------------------------------------ op syntax

def show_pt(P) -> str:
    if P[0] is None and P[1] is None:
        return "inf"
    return "%d,%d" % (P[0], P[1])


def parse_pt(s: str):
    if s == "inf":
        return (None, None)
    x, y = s.split(",")
    return (int(x), int(y))


def split_curve(tok: str):
    """'secp256k1/pure' -> ('secp256k1', 'pure');  toy curves have no configuration (always the pure classes)"""
    if "/" in tok:
        name, cfg = tok.split("/", 1)
    else:
        name, cfg = tok, "pure"
    return name, cfg


def toy_params(name: str):
    _, p, a, b, gx, gy, n = name.split(":")
    return int(p), int(a), int(b), int(gx), int(gy), int(n)


def op_config(op: str) -> str:
    """configuration an op must be evaluated in (second token when it names a curve)"""
    a = op.split(" ")
    if a[0] == "failed_then":
        a = a[1:]
    if len(a) > 1 and (a[1].split("/")[0] in NAMED or a[1].startswith("toy:")):
        return split_curve(a[1])[1]
    return "pure"


# ------------------------------------------------------------------ evaluation on pycoin (worker side)

_GEN_CACHE: dict = {}


def _generator(tok: str, bf=None):
    """the real generator object named by the curve token; with `bf` a fresh instance whose blinding factor is bf"""
    name, _cfg = split_curve(tok)
    key = (name, bf)
    if key in _GEN_CACHE:
        return _GEN_CACHE[key]
    from pycoin.ecdsa.Generator import Generator
    if name.startswith("toy:"):
        p, a, b, gx, gy, n = toy_params(name)
        g = Generator(p, a, b, (gx, gy), n)
    else:
        from pycoin.ecdsa.secp256k1 import secp256k1_generator
        from pycoin.ecdsa.secp256r1 import secp256r1_generator
        from pycoin.ecdsa.bls12_381_g1 import bls12_381_g1
        base = {"secp256k1": secp256k1_generator, "secp256r1": secp256r1_generator, "bls12_381": bls12_381_g1}[name]
        if bf is None:
            g = base  # the shipped object, with its own random blinding factor
        else:
            g = type(base)(base._p, base._a, base._b, (base[0], base[1]), base._order)
    if bf is not None:
        # Generator.__new__ does not accept `entropy_f`, so the constructor's entropy hook is unusable; the blinding
        # factor is installed the way __init__ does it
        g._blinding_factor = int.from_bytes((bf % (1 << 256)).to_bytes(32, "big"), "big") % g._order
        g._minus_blinding_factor_g = g.raw_mul(-g._blinding_factor)
    if len(_GEN_CACHE) > 4000:
        _GEN_CACHE.clear()
    _GEN_CACHE[key] = g
    return g


def _point(g, s: str):
    x, y = parse_pt(s)
    return g.Point(x, y)


def _toy_points(g):
    p = g._p
    pts = [(None, None)]
    for x in range(p):
        for y in range(p):
            if g.contains_point(x, y):
                pts.append((x, y))
    return pts


_KEY_CLASSES: dict = {}


def _hexb(s: str) -> bytes:
    return b"" if s == "-" else bytes.fromhex(s)


def _key_from_ctor(tok: str, ctor: str):
    """`d:<d>:<comp>` / `pair:<x>,<y>:<comp>` / `sec:<hex>` -> a real Key object: the BTC network's Key class on secp256k1 (what
    applications use), `Key.make_subclass` over the generator of the token otherwise"""
    name, _cfg = split_curve(tok)
    p = ctor.split(":")
    if name == "secp256k1":
        from pycoin.symbols.btc import network as BTC
        if p[0] == "d":
            return BTC.keys.private(int(p[1]), is_compressed=(p[2] == "1"))
        if p[0] == "pair":
            return BTC.keys.public(parse_pt(p[1]), is_compressed=(p[2] == "1"))
        return BTC.keys.public(_hexb(p[1]))
    K = _KEY_CLASSES.get(name)
    if K is None:
        from pycoin.key.Key import Key
        K = _KEY_CLASSES[name] = Key.make_subclass("T", None, _generator(tok))
    if p[0] == "d":
        return K(secret_exponent=int(p[1]), is_compressed=(p[2] == "1"))
    if p[0] == "pair":
        return K(public_pair=parse_pt(p[1]), is_compressed=(p[2] == "1"))
    return K.from_sec(_hexb(p[1]))


def _bool01(v) -> str:
    return ("1" if v else "0") if isinstance(v, bool) else "nonbool:" + type(v).__name__


def _key_history(key, steps: str) -> str:
    """a sequence of calls on ONE Key object and the objects derived from it; one answer per step"""
    last = b""
    outs = []
    for st in steps.split(","):
        q = st.split(":")
        try:
            if q[0] == "s":
                last = key.sign(_hexb(q[1]))
                outs.append(last.hex() or "-")
            elif q[0] == "v":
                outs.append(_bool01(key.verify(_hexb(q[1]), _hexb(q[2]))))
            elif q[0] == "l":
                outs.append(_bool01(key.verify(_hexb(q[1]), last)))
            elif q[0] == "p":
                key = key.public_copy()
                outs.append("pub")
            elif q[0] == "c":
                key = type(key).from_sec(key.sec())
                outs.append("sec")
            else:
                outs.append("bad-step")
        except Exception as e:  # noqa: BLE001
            outs.append("!" + type(e).__name__)
    return "ok " + ";".join(outs)


def eval_op(op: str) -> str:
    a = op.split(" ")
    k = a[0]
    try:
        if k == "c01_derdec":
            # oracle helper (never emitted as an op): pycoin's own strict sigdecode_der
            from pycoin.satoshi.der import sigdecode_der
            return "ok %d %d" % sigdecode_der(_hexb(a[1]), use_broken_open_ssl_mechanism=False)
        if k == "keysign_der":
            return "ok " + (_key_from_ctor(a[1], a[2]).sign(_hexb(a[3])).hex() or "-")
        if k == "keyverify_der":
            return "ok " + _bool01(_key_from_ctor(a[1], a[2]).verify(_hexb(a[3]), _hexb(a[4])))
        if k == "keyhist":
            return _key_history(_key_from_ctor(a[1], a[2]), a[3])
        if k == "ec_invmod":
            from pycoin.ecdsa.Curve import Curve
            return "ok %d" % Curve(7, 0, 3).inverse_mod(int(a[1]), int(a[2]))
        if k == "ec_invmodc":
            return "ok %d" % _generator(a[1]).inverse_mod(int(a[2]), int(a[3]))
        if k == "c01_hmac256":
            key = b"" if a[1] == "-" else bytes.fromhex(a[1])
            msg = b"" if a[2] == "-" else bytes.fromhex(a[2])
            return "ok " + hmac.new(key, msg, hashlib.sha256).hexdigest()
        if k == "rfc6979_spec":
            # the Lean specification is validated against the independent Python RFC 6979 of this file
            return "ok %d" % rfc6979_ref(int(a[1]), int(a[2]), bytes.fromhex(a[3]))
        if k == "rfc6979n":
            from pycoin.ecdsa.rfc6979 import deterministic_generate_k
            return "ok %d" % deterministic_generate_k(int(a[1]), int(a[2]), int(a[3]))
        if k in ("keysign", "keyverify"):
            # Key.sign / Key.verify of the BTC network's Key class (secp256k1 generator, DER wrapper)
            from pycoin.symbols.btc import network as BTC
            from pycoin.satoshi.der import sigencode_der, sigdecode_der
            if k == "keysign":
                key = BTC.keys.private(secret_exponent=int(a[2]))
                r, s = sigdecode_der(key.sign(int(a[3]).to_bytes(32, "big")), use_broken_open_ssl_mechanism=False)
                return "ok %d %d" % (r, s)
            key = BTC.keys.public(parse_pt(a[2]))
            return "ok %d" % (1 if key.verify(int(a[3]).to_bytes(32, "big"), sigencode_der(int(a[4]), int(a[5]))) else 0)
        if k == "failed_then":
            # history prefix: a call on the generator object that the library REFUSES (a scalar that is not an integer) comes
            # first; whatever it did before raising, the object must answer the operation that follows as a fresh one would
            g0 = _generator(a[2])
            gs = [g0] + ([_generator(a[2], bf=int(a[4]))] if a[1] == "ec_blindmul" else [])
            for gx in gs:
                for bad in (None, "12", 1.5):
                    for f in (lambda v: gx * v, lambda v: v * gx, gx.raw_mul):
                        try:
                            f(bad)
                        except Exception:  # noqa: BLE001
                            pass
            return eval_op(op.split(" ", 1)[1])
        g = _generator(a[1])
        if k == "ec_consts":
            return "ok %d %d %d %d %d %d" % (g._p, g._a, g._b, g[0], g[1], g._order)
        # ---- ops whose MODEL is the glue model of native/openssl.py (Lean: Ossl.* / Gen.* over Ossl.methods, libcrypto
        # played by the pure model); the implementation side is the real class of the configuration named in the token
        if k == "ec_ossl_mul":
            # the class's `multiply` handed a raw tuple: no `Point` constructor in front of the glue
            return "ok " + show_pt(g.multiply(parse_pt(a[2]), int(a[3])))
        if k == "ec_ossl_rawmul":
            return "ok " + show_pt(g.raw_mul(int(a[2])))
        if k == "ec_ossl_inv":
            return "ok %d" % g.inverse_mod(int(a[2]), int(a[3]))
        if k == "ossl_probe":
            return _ossl_probe(g, a)
        if k in ("ec_ossl_add", "ec_ossl_blindmul", "ec_ossl_shared", "ossl_sign", "ossl_verify", "ossl_recover"):
            k = k.replace("ec_ossl_", "ec_").replace("ossl_", "")
        if k == "ec_add":
            return "ok " + show_pt(_point(g, a[2]) + _point(g, a[3]))
        if k == "ec_sub":
            return "ok " + show_pt(_point(g, a[2]) - _point(g, a[3]))
        if k == "ec_assoc":
            P, Q, R = (_point(g, s) for s in a[2:5])
            return "ok %s %s" % (show_pt((P + Q) + R), show_pt(P + (Q + R)))
        if k == "ec_neg":
            return "ok " + show_pt(-_point(g, a[2]))
        if k == "ec_mul":
            # `int * Point` (Point.__rmul__ -> Curve.multiply of the active class)
            return "ok " + show_pt(int(a[3]) * _point(g, a[2]))
        if k == "ec_mulr":
            # `Point * int` (Point.__mul__ called directly)
            return "ok " + show_pt(_point(g, a[2]) * int(a[3]))
        if k == "ec_rgenmul":
            # `int * Generator` (Generator.__rmul__)
            return "ok " + show_pt(int(a[2]) * g)
        if k == "ec_mul_orderless":
            # the same curve without an order (`Curve(p, a, b)`): the ladder runs on the scalar as given
            from pycoin.ecdsa.Curve import Curve
            c0 = Curve(g._p, g._a, g._b)
            x, y = parse_pt(a[2])
            return "ok " + show_pt(c0.multiply(c0.Point(x, y), int(a[3])))
        if k == "ec_rawmul":
            return "ok " + show_pt(g.raw_mul(int(a[2])))
        if k == "ec_blindmul":
            gb = _generator(a[1], bf=int(a[3]))
            return "ok " + show_pt(gb * int(a[2]))
        if k == "ec_genmul":
            # the shipped generator object with whatever blinding factor it drew at import
            return "ok " + show_pt(g * int(a[2]))
        if k == "ec_points_for_x":
            p0, p1 = g.points_for_x(int(a[2]))
            return "ok %s %s" % (show_pt(p0), show_pt(p1))
        if k == "ec_on_curve":
            x, y = parse_pt(a[2])
            return "ok %d" % (1 if g.contains_point(x, y) else 0)
        if k == "ec_sqrt":
            return "ok %d" % g.modular_sqrt(int(a[2]))
        if k == "ec_shared":
            from pycoin.ecdsa.encrypt import generate_shared_public_key
            return "ok " + show_pt(generate_shared_public_key(int(a[2]), parse_pt(a[3]), g))
        if k == "ec_gen_init":
            _generator(a[1], bf=int(a[2]))
            return "ok 1"
        if k == "ec_toy_addtable":
            pts = _toy_points(g)
            rows = []
            for P in pts:
                PP = g.Point(*P)
                rows.append(";".join(show_pt(PP + g.Point(*Q)) for Q in pts))
            return "ok " + "|".join(rows)
        if k == "ec_toy_multable":
            pts = _toy_points(g)
            n = g.order()
            rows = []
            for P in pts:
                PP = g.Point(*P)
                rows.append(";".join(show_pt(kk * PP) for kk in range(-2 * n, 2 * n + 1)))
            return "ok " + "|".join(rows)
        if k == "ec_toy_gentable":
            n = g.order()
            bf = int(a[2])
            gb = _generator(a[1], bf=bf)
            return "ok " + ";".join(show_pt(gb * kk) + "/" + show_pt(gb.raw_mul(kk)) for kk in range(-2 * n, 2 * n + 1))
        if k == "rfc6979":
            from pycoin.ecdsa.rfc6979 import deterministic_generate_k
            return "ok %d" % deterministic_generate_k(g.order(), int(a[2]), int(a[3]))
        if k == "sign":
            r, s, recid = g.sign_with_recid(int(a[2]), int(a[3]))
            r2, s2 = g.sign(int(a[2]), int(a[3]))
            if (r, s) != (r2, s2):
                return "ok sign-and-sign_with_recid-differ"
            return "ok %d %d %d" % (r, s, recid)
        if k == "verify":
            return "ok %d" % (1 if g.verify(parse_pt(a[2]), int(a[3]), (int(a[4]), int(a[5]))) else 0)
        if k == "recover":
            par = None if a[5] == "~" else int(a[5])
            l = g.possible_public_pairs_for_signature(int(a[2]), (int(a[3]), int(a[4])), par)
            return "ok " + (";".join(show_pt(P) for P in l) if l else "~")
        if k == "toy_keys":
            # every affine curve point under which (z, r, s) verifies, and recovery at the abscissas r and r + n
            z, r, s_ = int(a[2]), int(a[3]), int(a[4])
            ver = [P for P in _toy_points(g)[1:] if g.verify(P, z, (r, s_)) is True]

            def rec(x):
                try:
                    l = g.possible_public_pairs_for_signature(z, (x, s_))
                    return ";".join(show_pt(P) for P in l) if l else "~"
                except Exception as e:  # noqa: BLE001
                    return "!" + type(e).__name__
            return "ok %s|%s|%s" % (";".join(show_pt(P) for P in ver) if ver else "~", rec(r), rec(r + g.order()))
        if k == "toy_sign":
            # every z in [1, zmax] signed with d
            d, zmax = int(a[2]), int(a[3])
            out = []
            for z in range(1, zmax + 1):
                try:
                    out.append("%d.%d.%d" % g.sign_with_recid(d, z))
                except Exception as e:  # noqa: BLE001
                    out.append(type(e).__name__)
            return "ok " + ";".join(out)
        if k == "toy_verify":
            # verify of every (r, s) in [0, n+1]^2 under Q = d*G for hash z
            d, z = int(a[2]), int(a[3])
            n = g.order()
            Q = g * d
            bits = []
            for r in range(0, n + 2):
                for s in range(0, n + 2):
                    try:
                        bits.append("1" if g.verify(Q, z, (r, s)) else "0")
                    except Exception as e:  # noqa: BLE001
                        bits.append("E")
            return "ok " + "".join(bits)
    except Exception as e:  # noqa: BLE001
        return "err " + type(e).__name__
    return "bad-op"


def _ossl_probe(g, a) -> str:
    """the libcrypto calls of the glue made directly (ctypes, pycoin's own handle and BignumType), return codes included:
    what the CONTRACT of the Lean theorems (LibCryptoOk) says about them is what the model side answers"""
    import ctypes
    from pycoin.ecdsa.native.openssl import OpenSSL
    if not OpenSSL or not hasattr(g, "openssl_group"):
        return "err NoOpenSSL"
    BN = OpenSSL.BignumType
    grp = g.openssl_group
    what = a[2]
    if what == "bn":
        b = BN(int(a[3]))
        return "ok %d %d %d" % (b.to_int(), 1 if b.neg else 0, b.top)
    ctx = OpenSSL.BN_CTX_new()
    try:
        if what == "mul":
            x, y = parse_pt(a[3])
            bx, by, bn = BN(x), BN(y), BN(int(a[4]))
            res = OpenSSL.EC_POINT_new(grp)
            pt = OpenSSL.EC_POINT_new(grp)
            r1 = OpenSSL.EC_POINT_set_affine_coordinates_GFp(grp, pt, bx, by, ctx)
            r2 = OpenSSL.EC_POINT_mul(grp, res, None, pt, bn, ctx)
            r3 = OpenSSL.EC_POINT_get_affine_coordinates_GFp(grp, res, bx, by, ctx)
            OpenSSL.EC_POINT_free(pt)
            OpenSSL.EC_POINT_free(res)
            return "ok %d %d %d %d,%d" % (1 if r1 else 0, 1 if r2 else 0, 1 if r3 else 0, bx.to_int(), by.to_int())
        if what == "inv":
            a1 = BN(int(a[3]))
            r = OpenSSL.BN_mod_inverse(a1, a1, BN(int(a[4])), ctx)
            return "ok %s %d" % ("ptr" if r else "null", a1.to_int())
        if what == "group":
            vp = ctypes.c_void_p
            f = getattr(OpenSSL, "EC_GROUP_get_curve_GFp", None) or OpenSSL.EC_GROUP_get_curve
            f.argtypes = [vp, vp, vp, vp, vp]
            f.restype = ctypes.c_int
            OpenSSL.EC_GROUP_get_order.argtypes = [vp, vp, vp]
            OpenSSL.EC_GROUP_get_order.restype = ctypes.c_int
            OpenSSL.EC_GROUP_get0_generator.argtypes = [vp]
            OpenSSL.EC_GROUP_get0_generator.restype = vp
            p, ca, cb, n, gx, gy = BN(), BN(), BN(), BN(), BN(), BN()
            ok1 = f(grp, ctypes.byref(p), ctypes.byref(ca), ctypes.byref(cb), ctx)
            ok2 = OpenSSL.EC_GROUP_get_order(grp, ctypes.byref(n), ctx)
            gen = OpenSSL.EC_GROUP_get0_generator(grp)
            ok3 = OpenSSL.EC_POINT_get_affine_coordinates_GFp(grp, gen, gx, gy, ctx)
            if not (ok1 and ok2 and ok3):
                return "err GroupQueryFailed"
            return "ok %d %d %d %d %d %d" % tuple(v.to_int() for v in (p, ca, cb, gx, gy, n))
    finally:
        OpenSSL.BN_CTX_free(ctx)
    return "bad-op"


# ------------------------------------------------------------------ worker client (harness side)

_WORKERS: dict = {}
WORKER_TIMEOUT_S = float(os.environ.get("VERIF_WORKER_TIMEOUT", "60"))
_TIMEOUTS = 0


def _spawn(cfg: str):
    env = dict(os.environ)
    env.pop("PYCOIN_NATIVE", None)
    if cfg == "pure":
        env["PYCOIN_NATIVE"] = "none"
    p = subprocess.Popen(["/venv/bin/python", os.path.abspath(__file__)], stdin=subprocess.PIPE, stdout=subprocess.PIPE,
                         env=env, bufsize=0)
    w = _Worker(p)
    hello = w.request("hello", 60.0)
    want = "worker openssl=%d" % (1 if cfg == "openssl" else 0)
    if hello.startswith("worker import-failed"):
        return w
    if not hello.startswith(want):
        from lib import Infra
        raise Infra("worker for configuration %s reports %r" % (cfg, hello))
    return w


class _Worker:
    """one request line `@@<id> <op>` -> one answer line `@@<id> <answer>`.  Raw file descriptors, own line buffer, a
    deadline per request; lines that do not carry the current id (anything pycoin might print) are discarded, so a stray
    line can neither desynchronise the dialogue nor block it."""

    def __init__(self, proc):
        self.p = proc
        self.buf = b""
        self.seq = 0
        self.stray: list = []

    def alive(self) -> bool:
        return self.p.poll() is None

    def kill(self):
        try:
            self.p.kill()
            self.p.wait(timeout=5)
        except Exception:  # noqa: BLE001
            pass

    def request(self, op: str, timeout: float) -> str:
        import select
        import time
        self.seq += 1
        tag = ("@@%d " % self.seq).encode()
        try:
            self.p.stdin.write(tag + op.encode() + b"\n")
            self.p.stdin.flush()
        except (BrokenPipeError, OSError):
            return "err WorkerDied"
        deadline = time.time() + timeout
        fd = self.p.stdout.fileno()
        while True:
            while b"\n" in self.buf:
                line, self.buf = self.buf.split(b"\n", 1)
                if line.startswith(tag):
                    return line[len(tag):].decode(errors="replace")
                if len(self.stray) < 20:
                    self.stray.append(line[:200].decode(errors="replace"))
            left = deadline - time.time()
            if left <= 0:
                return "err Timeout"
            ready, _, _ = select.select([fd], [], [], left)
            if not ready:
                return "err Timeout"
            chunk = os.read(fd, 1 << 16)
            if not chunk:
                return "err WorkerDied"
            self.buf += chunk


HELLO: dict = {}


def worker_hello(cfg: str) -> str:
    """what the worker of a configuration reports about the libraries pycoin found (`worker openssl=1 libsecp256k1=0`)"""
    if cfg not in HELLO:
        w = _WORKERS.get(cfg)
        if w is None or not w.alive():
            w = _WORKERS[cfg] = _spawn(cfg)
        HELLO[cfg] = w.request("hello", 60.0)
    return HELLO[cfg]


def call(op: str) -> str:
    """evaluate one op in the worker of its configuration; always returns one answer (`err Timeout` / `err WorkerDied`
    when the implementation does not come back), never blocks beyond the deadline"""
    global _TIMEOUTS
    cfg = op_config(op)
    if cfg not in CONFIGS:
        return "bad-op"
    w = _WORKERS.get(cfg)
    if w is None or not w.alive():
        w = _WORKERS[cfg] = _spawn(cfg)
    ans = w.request(op, WORKER_TIMEOUT_S if _TIMEOUTS < 3 else 5.0)
    if ans in ("err Timeout", "err WorkerDied"):
        _TIMEOUTS += 1
        STRAY.extend(w.stray)
        w.kill()
        _WORKERS.pop(cfg, None)
    return ans


STRAY: list = []


_CACHE: dict = {}


def impl(op: str) -> str:
    r = _CACHE.get(op)
    if r is None:
        r = call(op)
        if len(_CACHE) < 200000 and len(r) < 2000:
            _CACHE[op] = r
    return r


@atexit.register
def _close():
    stray = STRAY + [l for w in _WORKERS.values() for l in w.stray]
    if stray and os.environ.get("VERIF_DEBUG_WORKER"):
        sys.stderr.write("stray worker lines: %r\n" % stray[:10])
    for w in _WORKERS.values():
        try:
            w.p.stdin.close()
            w.p.wait(timeout=5)
        except Exception:  # noqa: BLE001
            w.kill()


# ------------------------------------------------------------------ independent reference data (harness side; no pycoin)

def is_prime(n: int) -> bool:
    if n < 2:
        return False
    i = 2
    while i * i <= n:
        if n % i == 0:
            return False
        i += 1
    return True


def curve_points(p, a, b):
    sq = {}
    for y in range(p):
        sq.setdefault(y * y % p, []).append(y)
    pts = []
    for x in range(p):
        for y in sq.get((x * x * x + a * x + b) % p, []):
            pts.append((x, y))
    return pts


_TOY_CACHE: dict = {}


def toy_curves(p: int, prime_order=True):
    """all (a, b) over F_p (p = 3 mod 4) with non-zero discriminant whose group order is prime (or: is not prime),
    as curve tokens `toy:p:a:b:gx:gy:n` with the first affine point as generator (n = its order = #E when prime)"""
    key = (p, prime_order)
    if key in _TOY_CACHE:
        return _TOY_CACHE[key]
    res = []
    for a in range(p):
        for b in range(p):
            if (4 * a * a * a + 27 * b * b) % p == 0:
                continue
            pts = curve_points(p, a, b)
            n = len(pts) + 1
            if is_prime(n) == prime_order and (prime_order and n > 2):
                gx, gy = pts[0]
                res.append("toy:%d:%d:%d:%d:%d:%d" % (p, a, b, gx, gy, n))
    _TOY_CACHE[key] = res
    return res


_FAMILY: list = []


def shared_base_family(limit=1500):
    """toy curves y^2 = x^3 + 3 with the SAME base point G = (1, 2) over different primes p = 3 mod 4 (prime group order):
    Generator is a tuple subclass, so such generators are equal and hash alike as tuples although they are different
    groups: any memo keyed by the generator object (lru_cache on a method, a dict keyed by self) confuses them"""
    if not _FAMILY:
        for p in range(7, limit):
            if p % 4 == 3 and is_prime(p) and (27 * 9) % p != 0:
                n = len(curve_points(p, 0, 3)) + 1
                if is_prime(n) and n > 2:
                    _FAMILY.append("toy:%d:0:3:1:2:%d" % (p, n))
    return _FAMILY


TOY_PRIMES_SMALL = [p for p in range(5, 64) if is_prime(p) and p % 4 == 3]
TOY_PRIMES_MID = [67, 71, 79, 83, 103, 127, 131, 199, 251, 307, 419, 503, 607, 811, 907, 991, 1019]


def toy_curve_random(rng, p):
    """one prime-order curve over F_p found by seeded search (for the larger toy primes)"""
    for _ in range(2000):
        a, b = rng.randrange(p), rng.randrange(p)
        if (4 * a * a * a + 27 * b * b) % p == 0:
            continue
        pts = curve_points(p, a, b)
        n = len(pts) + 1
        if n > 2 and is_prime(n):
            gx, gy = rng.choice(pts)
            return "toy:%d:%d:%d:%d:%d:%d" % (p, a, b, gx, gy, n)
    return None


CURVE_CONSTS: dict = {}


def consts(tok: str):
    """(p, a, b, gx, gy, n) of a curve token — named curves: from the harness process's pycoin objects"""
    name, _ = split_curve(tok)
    if name.startswith("toy:"):
        return toy_params(name)
    if name not in CURVE_CONSTS:
        # asked of the pure worker: importing the generator modules in this process would run the constructors of the
        # default (OpenSSL) classes, and a broken native glue would then crash the harness instead of failing the check
        ans = call("ec_consts %s/pure" % name)
        if not ans.startswith("ok "):
            from lib import Infra
            raise Infra("curve constants of %s unavailable: %s" % (name, ans))
        CURVE_CONSTS[name] = tuple(int(v) for v in ans[3:].split(" "))
    return CURVE_CONSTS[name]


def on_curve(tok, P) -> bool:
    if P == (None, None):
        return True
    p, a, b = consts(tok)[:3]
    x, y = P
    return (y * y - x * x * x - a * x - b) % p == 0


def reduced(tok, P) -> bool:
    if P == (None, None):
        return True
    p = consts(tok)[0]
    return 0 <= P[0] < p and 0 <= P[1] < p


def rfc6979_ref(q: int, x: int, h1: bytes, hashf=hashlib.sha256) -> int:
    """RFC 6979 section 3.2 written from the RFC text (general qlen), independent of pycoin"""
    qlen = q.bit_length()
    rolen = (qlen + 7) // 8
    hlen = hashf().digest_size

    def bits2int(b: bytes) -> int:
        v = int.from_bytes(b, "big")
        blen = len(b) * 8
        return v >> (blen - qlen) if blen > qlen else v

    def int2octets(v: int) -> bytes:
        return v.to_bytes(rolen, "big")

    def bits2octets(b: bytes) -> bytes:
        return int2octets(bits2int(b) % q)

    V = b"\x01" * hlen
    K = b"\x00" * hlen
    K = hmac.new(K, V + b"\x00" + int2octets(x) + bits2octets(h1), hashf).digest()
    V = hmac.new(K, V, hashf).digest()
    K = hmac.new(K, V + b"\x01" + int2octets(x) + bits2octets(h1), hashf).digest()
    V = hmac.new(K, V, hashf).digest()
    while True:
        T = b""
        while len(T) * 8 < qlen:
            V = hmac.new(K, V, hashf).digest()
            T += V
        k = bits2int(T)
        if 1 <= k < q:
            return k
        K = hmac.new(K, V + b"\x00", hashf).digest()
        V = hmac.new(K, V, hashf).digest()


# ------------------------------------------------------------------ worker main

def _main():
    # answers go to a private copy of stdout; fd 1 itself is pointed at stderr so that nothing pycoin (or a library)
    # prints can enter the dialogue
    out = os.fdopen(os.dup(1), "w")
    os.dup2(2, 1)
    sys.stdout = sys.stderr
    import_err = None
    try:
        from pycoin.ecdsa.secp256k1 import secp256k1_generator
        from pycoin.ecdsa.secp256r1 import secp256r1_generator  # noqa: F401
        from pycoin.ecdsa.native.secp256k1 import libsecp256k1
        has_ossl = any("openssl" in c.__module__ and c.__name__ == "Optimizations" for c in type(secp256k1_generator).__mro__)
        hello = "worker openssl=%d libsecp256k1=%d" % (1 if has_ossl else 0, 1 if libsecp256k1 else 0)
    except Exception as e:  # noqa: BLE001
        # the generator modules of this configuration cannot even be imported (their constructors run the class's own
        # raw_mul): a failure of the implementation, not of the infrastructure - every op is answered with the exception
        import_err = type(e).__name__
        hello = "worker import-failed %s" % import_err
    for line in sys.stdin:
        line = line.rstrip("\n")
        if not line:
            continue
        tag, _, op = line.partition(" ")
        try:
            ans = hello if op == "hello" else ("err " + import_err if import_err else eval_op(op))
        except BaseException as e:  # noqa: BLE001  (a worker never leaves a request unanswered)
            ans = "err " + type(e).__name__
        out.write("%s %s\n" % (tag, ans.replace("\n", " ")))
        out.flush()


if __name__ == "__main__":
    _main()
