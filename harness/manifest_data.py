"""Per-property MANIFEST text. A property appears in CHECKS only once its check passes a seed sweep on the current tree."""

COMMON_NOTE = ("Trusted: Lean 4.33 kernel; axioms ⊆ {propext, Classical.choice, Quot.sound} (audited per theorem each run); "
               "translate/gen.py; the correspondence harness; Python runtime semantics as modelled in lean/Pycoin/Py. ")

CHECKS = {
    "C13": {
        "text": "Lean theorems over the model of split_with_remainder / distribute_from_split_pool / fee / validate_unspents / Decimal conversions "
                "(sum, shape, positivity, exact error thresholds, soundness of validate_unspents, satoshi<->BTC/mBTC round trip below 10^20) for all inputs; "
                "model tied to the code by differential correspondence through create_tx, Tx.fee, validate_unspents and convention on every run.",
        "note": COMMON_NOTE + "Modelled not verified: decimal.Decimal (precision 28, half-even) and the deprecated fee='standard' estimator (excluded).",
        "technique": "Lean 4 proof (induction/omega over an executable model) + differential correspondence model vs implementation",
    },
}

NOT_YET = {("C%02d" % i): "check not built yet at this commit (work in progress; see DESIGN.md build order)" for i in range(1, 21)}
