"""Which properties MANIFEST.json claims. A property is listed in CLAIMED only once its check passes a seed sweep on the
current tree; the per-property texts live in harness/props/<id>.py as a literal MANIFEST dict."""

COMMON_NOTE = ("Trusted: Lean 4.33 kernel; axioms within {propext, Classical.choice, Quot.sound} (audited per theorem each run); "
               "translate/gen.py; the correspondence harness; Python runtime semantics as modelled in lean/Pycoin/Py. ")

CLAIMED = ["C01", "C02", "C03", "C04", "C05", "C06", "C07", "C08", "C09", "C10", "C11", "C12", "C13", "C14", "C15", "C16", "C17", "C18", "C19", "C20"]

NOT_YET = {("C%02d" % i): "check not built yet at this commit (work in progress; see DESIGN.md build order)" for i in range(1, 21)}
