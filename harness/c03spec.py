"""Support code of the C03 check that belongs to the *specification side*: the parser of Bitcoin Core's script-test
text syntax, the opcode names, the credit/spend transaction pair of Core's script_tests, the signature oracle handed to the
Lean consensus spec, and the `need …` resolution loop with the spec driver.

Nothing here decides a verdict: verdicts come from the Lean spec (`lean/Pycoin/Spec/Consensus.lean`) through the driver.

SIG-ORACLE (version 2, digest independent of the implementation): the spec takes `CheckSig(sig, pubkey, scriptCode, sigversion)` as a
parameter.  Its answers are computed here, per request of the spec, as
    lax-DER parse of the signature (own port of Core's ecdsa_signature_parse_der_lax, cross-checked against the Lean one)
  + libsecp256k1 public-key parsing rules (own code)
  + the signature hash of the spending transaction       <- harness/sighashlib.py: Core's CTransactionSignatureSerializer / BIP143
                                                            re-stated with struct + hashlib (the reference of property C04; NOT pycoin's
                                                            _signature_hash), from the fields of the spending transaction
  + ECDSA verification                                   <- pycoin's `secp256k1_generator.verify` (property C01), every answer recomputed
                                                            by the Lean spec (Spec/Secp256k1.lean) from the same digest
and passed to the driver as a table.  The generators sign with the same reference digest, so a transaction that consensus accepts is
accepted by the spec whatever pycoin's own sighash code does; pycoin's digest is sampled beside it for the evidence file only.
"""
from __future__ import annotations

import json
import os

import lib
from lib import hx, unhx, Infra
import txlib
import sighashlib

from pycoin.symbols.btc import network as BTC
from pycoin.ecdsa.secp256k1 import secp256k1_generator as G

Tx = BTC.tx
P = 2 ** 256 - 2 ** 32 - 977
N = 0xFFFFFFFFFFFFFFFFFFFFFFFFFFFFFFFEBAAEDCE6AF48A03BBFD25E8CD0364141

# ------------------------------------------------------------------ flags (Core's SCRIPT_VERIFY_* bit numbers)
FLAG_BITS = {
    "P2SH": 0, "STRICTENC": 1, "DERSIG": 2, "LOW_S": 3, "NULLDUMMY": 4, "SIGPUSHONLY": 5, "MINIMALDATA": 6,
    "DISCOURAGE_UPGRADABLE_NOPS": 7, "CLEANSTACK": 8, "CHECKLOCKTIMEVERIFY": 9, "CHECKSEQUENCEVERIFY": 10, "WITNESS": 11,
    "DISCOURAGE_UPGRADABLE_WITNESS_PROGRAM": 12, "MINIMALIF": 13, "NULLFAIL": 14, "WITNESS_PUBKEYTYPE": 15,
}
F = {k: 1 << v for k, v in FLAG_BITS.items()}


def parse_flags(s: str) -> int:
    v = 0
    for f in s.split(","):
        if f and f != "NONE":
            v |= F[f]
    return v


def flags_permitted(f: int) -> bool:
    if f & F["CLEANSTACK"] and not (f & F["P2SH"] and f & F["WITNESS"]):
        return False
    if f & F["WITNESS"] and not f & F["P2SH"]:
        return False
    return True


# ------------------------------------------------------------------ opcode names (Core's GetOpName, 0.13-0.15)
_NAMES_FROM_0x61 = """NOP VER IF NOTIF VERIF VERNOTIF ELSE ENDIF VERIFY RETURN TOALTSTACK FROMALTSTACK 2DROP 2DUP 3DUP 2OVER 2ROT
2SWAP IFDUP DEPTH DROP DUP NIP OVER PICK ROLL ROT SWAP TUCK CAT SUBSTR LEFT RIGHT SIZE INVERT AND OR XOR EQUAL EQUALVERIFY
RESERVED1 RESERVED2 1ADD 1SUB 2MUL 2DIV NEGATE ABS NOT 0NOTEQUAL ADD SUB MUL DIV MOD LSHIFT RSHIFT BOOLAND BOOLOR NUMEQUAL
NUMEQUALVERIFY NUMNOTEQUAL LESSTHAN GREATERTHAN LESSTHANOREQUAL GREATERTHANOREQUAL MIN MAX WITHIN RIPEMD160 SHA1 SHA256
HASH160 HASH256 CODESEPARATOR CHECKSIG CHECKSIGVERIFY CHECKMULTISIG CHECKMULTISIGVERIFY NOP1 CHECKLOCKTIMEVERIFY
CHECKSEQUENCEVERIFY NOP4 NOP5 NOP6 NOP7 NOP8 NOP9 NOP10""".split()
OP = {"RESERVED": 0x50, "NOP2": 0xB1, "NOP3": 0xB2}
for _i, _n in enumerate(_NAMES_FROM_0x61):
    OP[_n] = 0x61 + _i
assert OP["NOP10"] == 0xB9 and OP["CHECKSIG"] == 0xAC and OP["WITHIN"] == 0xA5 and OP["SIZE"] == 0x82
OPNAME = {v: k for k, v in OP.items() if k not in ("NOP2", "NOP3")}
OP.update({"0": 0, "PUSHDATA1": 0x4C, "PUSHDATA2": 0x4D, "PUSHDATA4": 0x4E, "1NEGATE": 0x4F})


def scriptnum(v: int) -> bytes:
    """CScriptNum::serialize"""
    if v == 0:
        return b""
    neg, a = v < 0, abs(v)
    out = bytearray()
    while a:
        out.append(a & 0xFF)
        a >>= 8
    if out[-1] & 0x80:
        out.append(0x80 if neg else 0)
    elif neg:
        out[-1] |= 0x80
    return bytes(out)


def push(data: bytes) -> bytes:
    """CScript() << vector  (by length only)"""
    n = len(data)
    if n < 0x4C:
        return bytes([n]) + data
    if n <= 0xFF:
        return b"\x4c" + bytes([n]) + data
    if n <= 0xFFFF:
        return b"\x4d" + n.to_bytes(2, "little") + data
    return b"\x4e" + n.to_bytes(4, "little") + data


def push_int(n: int) -> bytes:
    """CScript() << int64"""
    if n == -1 or 1 <= n <= 16:
        return bytes([n + 0x50])
    if n == 0:
        return b"\x00"
    return push(scriptnum(n))


def parse_core_script(text: str) -> bytes:
    """ParseScript of Core's core_read.cpp (the syntax of script_tests.json / tx_valid.json)"""
    out = bytearray()
    for w in text.replace("\t", " ").replace("\n", " ").split(" "):
        if w == "":
            continue
        if w.isdigit() or (w.startswith("-") and len(w) > 1 and w[1:].isdigit()):
            out += push_int(int(w))
        elif w.startswith("0x") and len(w) > 2:
            out += bytes.fromhex(w[2:])
        elif len(w) >= 2 and w.startswith("'") and w.endswith("'"):
            out += push(w[1:-1].encode())
        else:
            name = w[3:] if w.startswith("OP_") else w
            if name not in OP or (OP[name] < 0x61 and name != "RESERVED"):
                raise Infra("script text: unknown word %r" % w)
            out.append(OP[name])
    return bytes(out)


# ------------------------------------------------------------------ transactions
def parse_ctx(s: str):
    a = s.split(":")
    d = {"version": int(a[0]), "lock_time": int(a[1]), "sequence": int(a[2]), "amount": int(a[3]) if len(a) > 3 else 0}
    if len(a) > 5:
        d["txhex"], d["idx"] = a[4], int(a[5])
    return d


def fmt_ctx(version=1, lock_time=0, sequence=0xFFFFFFFF, amount=0, txhex=None, idx=None) -> str:
    s = "%d:%d:%d:%d" % (version & 0xFFFFFFFF, lock_time, sequence, amount)
    if txhex is not None:
        s += ":%s:%d" % (txhex, idx)
    return s


def credit_spend(script_sig: bytes, script_pubkey: bytes, witness, ctx: dict):
    """the transaction pair of Core's script_tests.cpp (BuildCreditingTransaction / BuildSpendingTransaction), with the
    version, lock time and sequence of the context; or the explicit transaction of the context"""
    if "txhex" in ctx:
        tx = Tx.from_hex(ctx["txhex"])
        idx = ctx["idx"]
        blank = Tx.Spendable(0, b"", b"\0" * 32, 0)
        us = [blank] * len(tx.txs_in)
        ti = tx.txs_in[idx]
        us[idx] = Tx.Spendable(ctx["amount"], script_pubkey, ti.previous_hash, ti.previous_index)
        tx.set_unspents(us)
        return tx, idx
    credit = Tx(1, [Tx.TxIn(b"\0" * 32, 0xFFFFFFFF, b"\0\0", sequence=0xFFFFFFFF)], [Tx.TxOut(ctx["amount"], script_pubkey)])
    spend = Tx(ctx["version"], [Tx.TxIn(credit.hash(), 0, script_sig, sequence=ctx["sequence"])],
               [Tx.TxOut(ctx["amount"], b"")], lock_time=ctx["lock_time"], unspents=credit.tx_outs_as_spendable())
    spend.txs_in[0].witness = list(witness)
    return spend, 0


# ------------------------------------------------------------------ signature oracle
def lax_der(b: bytes):
    """port of ecdsa_signature_parse_der_lax (Core, pubkey.cpp): None = failure, else (r, s); overflow -> (0, 0)"""
    n = len(b)
    pos = 0
    if pos == n or b[pos] != 0x30:
        return None
    pos += 1
    if pos == n:
        return None
    lb = b[pos]
    pos += 1
    if lb & 0x80:
        lb -= 0x80
        if lb > n - pos:
            return None
        pos += lb
    vals = []
    for _ in range(2):
        if pos == n or b[pos] != 0x02:
            return None
        pos += 1
        if pos == n:
            return None
        lb = b[pos]
        pos += 1
        if lb & 0x80:
            lb -= 0x80
            if lb > n - pos:
                return None
            while lb > 0 and b[pos] == 0:
                pos += 1
                lb -= 1
            if lb >= 4:
                return None
            ln = 0
            while lb > 0:
                ln = (ln << 8) + b[pos]
                pos += 1
                lb -= 1
        else:
            ln = lb
        if ln > n - pos:
            return None
        vals.append(b[pos:pos + ln])
        pos += ln
    over = False
    out = []
    for v in vals:
        v = v.lstrip(b"\0")
        if len(v) > 32:
            over = True
        x = int.from_bytes(v, "big")
        if x >= N:
            over = True
        out.append(x)
    return (0, 0) if over else (out[0], out[1])


def parse_pubkey(k: bytes):
    """CPubKey validity + secp256k1_ec_pubkey_parse: 33 bytes 02/03, 65 bytes 04, or 06/07 with matching parity; on the curve"""
    if len(k) == 33 and k[0] in (2, 3):
        x = int.from_bytes(k[1:], "big")
        if x >= P:
            return None
        y2 = (pow(x, 3, P) + 7) % P
        y = pow(y2, (P + 1) // 4, P)
        if y * y % P != y2:
            return None
        if (y & 1) != (k[0] & 1):
            y = P - y
        return (x, y)
    if len(k) == 65 and k[0] in (4, 6, 7):
        x = int.from_bytes(k[1:33], "big")
        y = int.from_bytes(k[33:], "big")
        if x >= P or y >= P:
            return None
        if (y * y - pow(x, 3, P) - 7) % P != 0:
            return None
        if k[0] in (6, 7) and (y & 1) != (k[0] & 1):
            return None
        return (x, y)
    return None


class TxInfo:
    """the spending transaction an evaluation happens in"""

    def __init__(self, tx, idx):
        self.tx, self.idx = tx, idx
        self.sc = tx.SolutionChecker(tx)
        self._cache: dict = {}
        self._fields = None
        self._amount = 0

    def sighash(self, script_code: bytes, hash_type: int, sv: str) -> int:
        """the consensus signature hash (Core's SignatureHash: CTransactionSignatureSerializer for the base version, BIP143 for
        witness v0), computed by the independent reference harness/sighashlib.py (struct/hashlib only) from the fields of the
        spending transaction -- NOT by pycoin's _signature_hash / _signature_for_hash_type_segwit: a wrong digest in pycoin cannot
        make a signature 'valid' on both sides"""
        k = (script_code, hash_type, sv)
        if k not in self._cache:
            if self._fields is None:
                self._fields = txlib.fields_of(self.tx)
                u = self.tx.unspents[self.idx] if self.idx < len(self.tx.unspents) else None
                self._amount = 0 if u is None else u.coin_value
            if sv == "1":
                d = sighashlib.bip143_sighash("btc", self._fields, self.idx, script_code, self._amount, hash_type)
            else:
                d = sighashlib.legacy_sighash("btc", self._fields, self.idx, script_code, hash_type)
            self._cache[k] = int.from_bytes(d, "big")
            REF_STATS[0] += 1
            if REF_STATS[0] % REF_SAMPLE[0] == 0:
                # evidence only (the verdict never looks at it; agreement is what property C04 checks): how often pycoin's own digest is the same
                try:
                    mine = (self.sc._signature_for_hash_type_segwit if sv == "1" else self.sc._signature_hash)(script_code, self.idx, hash_type)
                except Exception:  # noqa: BLE001
                    mine = None
                REF_STATS[1 if mine == self._cache[k] else 2] += 1
                if mine != self._cache[k] and sighashlib.is_complete(script_code):
                    REF_STATS[3] += 1
                if mine != self._cache[k] and len(REF_DIFF) < 12:
                    REF_DIFF.append({"script_code": hx(script_code)[:200], "hash_type": hash_type, "sigversion": sv, "input": self.idx,
                                     "script_code_complete": sighashlib.is_complete(script_code), "pycoin": None if mine is None else "%064x" % mine})
        return self._cache[k]

    def check_sig(self, sig: bytes, pubkey: bytes, script_code: bytes, sv: str) -> bool:
        """GenericTransactionSignatureChecker::CheckSig"""
        ans, digest = self._check_sig(sig, pubkey, script_code, sv)
        XCHECK[(sig, pubkey, digest)] = ans   # re-computed in Lean by cross_check_oracle()
        return ans

    def _check_sig(self, sig, pubkey, script_code, sv):
        pt = parse_pubkey(pubkey)
        if pt is None or len(sig) == 0:
            return False, b""
        rs = lax_der(sig[:-1])
        if rs is None:
            return False, b""
        r, s = rs
        h = self.sighash(script_code, sig[-1], sv)
        digest = h.to_bytes(32, "big")
        if r == 0 or s == 0:
            return False, digest
        try:
            return bool(G.verify(pt, h, (r, s))), digest
        except Exception as e:  # noqa: BLE001
            raise Infra("sig-oracle: ECDSA verify raised %r" % e)


XCHECK: dict = {}
REF_STATS = [0, 0, 0, 0]   # [3]: different although the script code decodes completely; digests computed by the reference; of a sample: pycoin's own digest equal / different (evidence only)
REF_SAMPLE = [1]
REF_DIFF: list = []
XCHECK_DONE = [0, 0]  # answers cross-checked, of which true
XCHECK_SAMPLE = [1]


def cross_check_oracle():
    """every answer the signature oracle gave, computed again by the Lean spec (Spec/Secp256k1.lean: libsecp256k1 key parsing, lax DER,
    ECDSA) from the same signature hash; a disagreement means the oracle cannot be trusted: infrastructure error"""
    if not XCHECK:
        return
    items = list(XCHECK.items())
    XCHECK.clear()
    if XCHECK_SAMPLE[0] > 1:
        # quick tier: every `true` answer and every k-th `false` one (all of them in the thorough tier)
        items = [kv for i, kv in enumerate(items) if kv[1] or i % XCHECK_SAMPLE[0] == 0]
    outs = lib.run_driver(["spec_checksig %s %s %s" % (hx(k[0]), hx(k[1]), hx(k[2])) for k, _ in items])
    for (k, v), o in zip(items, outs):
        if o != "ok %d" % (1 if v else 0):
            raise Infra("signature oracle and Lean ECDSA disagree on sig=%s pubkey=%s digest=%s: oracle %s, Lean `%s`" % (hx(k[0]), hx(k[1]), hx(k[2]), v, o))
        XCHECK_DONE[0] += 1
        XCHECK_DONE[1] += 1 if v else 0


# ------------------------------------------------------------------ driver round trips
def fmt_table(t: dict) -> str:
    return ",".join("%s/%s/%s/%s=%d" % (k[0], k[1], k[2], k[3], 1 if v else 0) for k, v in t.items()) or "~"


def fmt_stack(items) -> str:
    return lib.show_list(items, hx)


def parse_stack(s: str):
    return [] if s == "~" else [unhx(x) for x in s.split(",")]


class Case:
    """one evaluation: kind 'eval' (single script) or 'verify' (VerifyScript)"""

    __slots__ = ("kind", "flags", "a", "ctx", "sv", "table", "info", "spec", "tag", "hints")

    def __init__(self, kind, flags, a, ctx, sv="0", tag=""):
        self.kind, self.flags, self.a, self.ctx, self.sv, self.tag = kind, flags, a, ctx, sv, tag
        self.table: dict = {}
        self.info = None
        self.spec = None  # answer of the spec with error name
        self.hints = ()   # (sig, pubkey, scriptCode, sv) the generator expects the spec to ask about: answered before the first round

    def txinfo(self) -> TxInfo:
        if self.info is None:
            c = parse_ctx(self.ctx)
            if self.kind == "eval":
                tx, idx = credit_spend(b"", self.a[0], [], c)
            else:
                tx, idx = credit_spend(self.a[0], self.a[1], self.a[2], c)
            self.info = TxInfo(tx, idx)
        return self.info

    def line(self, x=False) -> str:
        if self.kind == "eval":
            return "spec_eval%s %d %s %s %s %s %s" % ("_x" if x else "", self.flags, hx(self.a[0]), fmt_stack(self.a[1]), self.ctx,
                                                  self.sv, fmt_table(self.table))
        return "spec_verify%s %d %s %s %s %s %s" % ("_x" if x else "", self.flags, hx(self.a[0]), hx(self.a[1]), fmt_stack(self.a[2]),
                                                self.ctx, fmt_table(self.table))


def case_from_op(op: str) -> Case:
    a = op.split(" ")
    if a[0] in ("spec_eval", "spec_eval_x", "spec_eval_h"):
        c = Case("eval", int(a[1]), (unhx(a[2]), parse_stack(a[3])), a[4], a[5])
        t = a[6]
    elif a[0] in ("spec_verify", "spec_verify_x", "spec_verify_h"):
        c = Case("verify", int(a[1]), (unhx(a[2]), unhx(a[3]), parse_stack(a[4])), a[5])
        t = a[6]
    else:
        raise ValueError(op)
    if t != "~":
        for e in t.split(","):
            k, v = e.split("=")
            c.table[tuple(k.split("/"))] = v == "1"
    return c


def resolve(cases: list) -> None:
    """run the spec on every case, answering its `need` requests with the signature oracle until none is left;
    afterwards case.spec is `ok …` / `fail NAME` / `precondition` and case.table is complete"""
    pending = [c for c in cases if c.spec is None]
    for c in pending:
        for sig, pk, code, sv in c.hints:
            k = (hx(sig), hx(pk), hx(code), sv)
            if k not in c.table:
                c.table[k] = c.txinfo().check_sig(sig, pk, code, sv)
    for _round in range(80):
        if not pending:
            return
        outs = lib.run_driver([c.line(x=True) for c in pending])
        nxt = []
        for c, o in zip(pending, outs):
            if o.startswith("need "):
                _, sig, pk, sc, sv = o.split(" ")
                c.table[(sig, pk, sc, sv)] = c.txinfo().check_sig(unhx(sig), unhx(pk), unhx(sc), sv)
                nxt.append(c)
            elif o == "bad-op":
                raise Infra("spec driver does not understand: " + c.line(x=True)[:300])
            else:
                c.spec = o
        pending = nxt
    raise Infra("signature oracle: more than 80 rounds of requests for " + pending[0].line()[:200])


# ------------------------------------------------------------------ Core's vectors
DATA = lib.REPO / "tests" / "btc" / "data"


def script_test_cases():
    """(case, expected error name, comment) for every entry of script_tests.json"""
    out = []
    for e in json.loads((DATA / "script_tests.json").read_text()):
        if len(e) < 4:
            continue
        witness, amount = [], 0
        if isinstance(e[0], list):
            witness, amount = [bytes.fromhex(w) for w in e[0][:-1]], int(round(e[0][-1] * 1e8))
            e = e[1:]
        sig, spk, fl, exp = e[:4]
        c = Case("verify", parse_flags(fl), (parse_core_script(sig), parse_core_script(spk), witness), fmt_ctx(amount=amount),
                 tag="script_tests")
        out.append((c, exp, " / ".join(str(x) for x in e[4:])))
    return out


def tx_test_cases(name: str):
    """[(list of per-input cases, tx, comment)] for tx_valid.json / tx_invalid.json"""
    out = []
    for tv in json.loads((DATA / name).read_text()):
        if len(tv) != 3 or not isinstance(tv[0], list):
            continue
        prevouts, txhex, fl = tv
        flags = parse_flags(fl)
        tx = Tx.from_hex(txhex)
        db = {}
        for p in prevouts:
            h = bytes.fromhex(p[0])[::-1]
            # Core reads the index as a signed int: -1 is the null index
            db[(h, p[1] & 0xFFFFFFFF)] = (parse_core_script(p[2]), p[3] if len(p) > 3 else 0)
        cases = []
        for idx, ti in enumerate(tx.txs_in):
            spk, amount = db.get((ti.previous_hash, ti.previous_index), (None, 0))
            if spk is None:
                raise Infra("%s: prevout missing for %s" % (name, txhex[:40]))
            ctx = fmt_ctx(tx.version, tx.lock_time, ti.sequence, amount, txhex, idx)
            cases.append(Case("verify", flags, (ti.script, spk, list(ti.witness)), ctx, tag=name))
        out.append((cases, tx, txhex))
    return out
