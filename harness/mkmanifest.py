"""Rewrite MANIFEST.json from harness/manifest_data.py (claimed checks = modules that exist)."""
import json
from pathlib import Path

VERIF = Path(__file__).resolve().parent.parent
import ast
from manifest_data import CLAIMED, NOT_YET, COMMON_NOTE  # noqa: E402


def module_manifest(pid):
    """the literal `MANIFEST = {...}` dict of harness/props/<pid>.py (text, note, technique)"""
    src = (VERIF / "harness" / "props" / (pid.lower() + ".py")).read_text()
    for node in ast.parse(src).body:
        if isinstance(node, ast.Assign) and any(getattr(t, "id", None) == "MANIFEST" for t in node.targets):
            return ast.literal_eval(node.value)
    raise SystemExit("no MANIFEST dict in props/%s.py" % pid.lower())


CHECKS = {}
for pid in CLAIMED:
    d = module_manifest(pid)
    d["note"] = COMMON_NOTE + d.get("note", "")
    CHECKS[pid] = d

BASE_CMD = "cd /repo && /venv/bin/python -m pytest -ra -q -p no:cacheprovider --timeout=900 --continue-on-collection-errors"

m = {
    "version": 1,
    "setup_cmd": "./check --setup",
    "hooks": {
        "guard": "PYCOIN_VERIF",
        "enable": "no source hooks: every observation goes through pycoin's public API (checks import /repo's working tree with PYTHONPATH=/repo)",
        "baseline_off_cmd": BASE_CMD,
        "source_commits": [],
        "add_only": True,
    },
    "engines": [
        {"name": "lean4-proof+correspondence", "path": "lean/ harness/ translate/",
         "serves_properties": sorted(CHECKS),
         "kind_free_text": "Lean 4 theorems about executable models (lean/Pycoin/Model, Props), tables regenerated from /repo by translate/gen.py, "
                           "and a differential correspondence check of the compiled model driver against the implementation on the same op lines"}
    ],
    "checks": [],
    "notes": "All checks: ./check <id> [--tier quick|thorough]; exit 0 ok, 1 with VIOLATION line, 2 infrastructure error/timeout. See DESIGN.md.",
    "not_applicable": [],
}
for pid in sorted(CHECKS):
    c = CHECKS[pid]
    m["checks"].append({
        "property_id": pid,
        "quick_cmd": "./check %s --tier quick" % pid,
        "thorough_cmd": "./check %s --tier thorough" % pid,
        "evidence_file": "evidence/%s.json" % pid,
        "replay_cmd_template": "./check %s --replay {path}" % pid,
        "engine": "lean4-proof+correspondence",
        "level_claimed": {"category": "proof", "text": c["text"], "design_ref": c.get("design_ref", "DESIGN.md §6 " + pid)},
        "level_note": c["note"],
        "technique": c["technique"],
    })
for pid in sorted(NOT_YET):
    if pid not in CHECKS:
        m["not_applicable"].append({"property_id": pid, "reason": NOT_YET[pid]})
(VERIF / "MANIFEST.json").write_text(json.dumps(m, indent=1) + "\n")
print("MANIFEST.json: %d checks, %d not claimed" % (len(m["checks"]), len(m["not_applicable"])))
