"""Groestlcoin family (grs, tgrs, grsrt) under the stand-in checksum hash.

`import grsenv` FIRST in every harness module (and worker script) that creates network objects, before anything imports
`pycoin.symbols.*`: it puts translate/grs_stub.py's stand-in into sys.modules["groestlcoin_hash"], so the three symbol
modules keep their real parse / address / WIF / extended-key code paths (without a `groestlcoin_hash` module they replace
four parse entry points by `none_parser` and set `network.Key = None` at import).  The stand-in also overrides a real
installation of the package: the Lean model mirrors the stand-in (Gen/PstrKeys.grsPrefix, Model/Base58Hash.lean), and
the properties' clauses depend on the structure around the checksum hash (prefixes, lengths, which hash a network uses on
which side, kinds kept apart, round trips), not on which function to 32 bytes it is.

Also here: reference Base58Check helpers that are independent of pycoin's encoders (own base58, hashlib), per hash kind.
"""
from __future__ import annotations

import hashlib
import sys
from pathlib import Path

sys.path.insert(0, str(Path(__file__).resolve().parent.parent / "translate"))
import grs_stub  # noqa: E402

_early = [m for m in ("pycoin.symbols.grs", "pycoin.symbols.tgrs", "pycoin.symbols.grsrt") if m in sys.modules]
_had = sys.modules.get("groestlcoin_hash")
grs_stub.install()
if _early and not getattr(_had, "STAND_IN", False):
    # imported before the stand-in was in place: the module-level `none_parser` patch (or the real hash) is already applied
    from lib import Infra
    raise Infra("grsenv imported after %s: the Groestlcoin family would not run under the stand-in hash" % ",".join(_early))

FAMILY = ("grs", "grsrt", "tgrs")
ALPHA = "123456789ABCDEFGHJKLMNPQRSTUVWXYZabcdefghijkmnopqrstuvwxyz"


def sha256d(b: bytes) -> bytes:
    return hashlib.sha256(hashlib.sha256(b).digest()).digest()


def groestl(b: bytes) -> bytes:
    """the stand-in, written out again (not through the installed module)"""
    return hashlib.sha256(grs_stub.PREFIX + b).digest()


HASHES = {"sha256d": sha256d, "groestl": groestl}


def b58enc(b: bytes) -> str:
    n = int.from_bytes(b, "big")
    out = ""
    while n:
        n, r = divmod(n, 58)
        out = ALPHA[r] + out
    return "1" * (len(b) - len(b.lstrip(b"\0"))) + out


def b58dec(s: str):
    n = 0
    for c in s:
        i = ALPHA.find(c)
        if i < 0 or c == "":
            return None
        n = n * 58 + i
    pad = len(s) - len(s.lstrip("1"))
    return b"\0" * pad + (n.to_bytes((n.bit_length() + 7) // 8, "big") if n else b"")


def b58c_enc(kind: str, payload: bytes) -> str:
    """Base58Check text of `payload` with the checksum hash of `kind`"""
    return b58enc(payload + HASHES[kind](payload)[:4])


def b58c_dec(kind: str, s: str):
    """payload of a Base58Check text under the checksum hash of `kind`, or None"""
    d = b58dec(s)
    if d is None or len(d) < 4 or HASHES[kind](d[:-4])[:4] != d[-4:]:
        return None
    return d[:-4]


def kind_of_text(s: str):
    """which checksum hash (if any) the Base58 text `s` carries"""
    return [k for k in HASHES if b58c_dec(k, s) is not None]


def hash_kind(name: str) -> str:
    """the checksum hash the DOCUMENTATION gives the network module `name` (Groestlcoin: groestl; all others: double SHA-256);
    deliberately not read from the network object, so that an object using another hash on some path disagrees with it"""
    return "groestl" if name in FAMILY else "sha256d"
