import Pycoin.Driver.All
open Pycoin.Driver

partial def loop (h : IO.FS.Stream) (out : IO.FS.Stream) : IO Unit := do
  let line ← h.getLine
  if line.isEmpty then return ()
  out.putStrLn (dispatch allHandlers line)
  loop h out

def main : IO Unit := do
  let stdin ← IO.getStdin
  let stdout ← IO.getStdout
  loop stdin stdout
  stdout.flush
