import Pycoin.Py.IntBits
namespace Pycoin

theorem eq_toNat_of_ofInt {v : Int} {b : BitVec w} (h0 : 0 ≤ v) (h1 : v < (2 ^ w : Nat)) (h : BitVec.ofInt w v = b) :
    v = (b.toNat : Int) := by
  subst h
  rw [BitVec.toNat_ofInt, Int.emod_eq_of_lt h0 h1]
  omega

theorem pyAnd_mask_range (x : Int) (k : Nat) :
    0 ≤ pyAnd x ((2 ^ k - 1 : Nat) : Int) ∧ pyAnd x ((2 ^ k - 1 : Nat) : Int) < (2 ^ k : Nat) := by
  have hp : 0 < 2 ^ k := Nat.two_pow_pos k
  have hlt : 2 ^ k - 1 < 2 ^ k := by omega
  cases x with
  | ofNat m =>
    show 0 ≤ ((m &&& (2 ^ k - 1) : Nat) : Int) ∧ ((m &&& (2 ^ k - 1) : Nat) : Int) < _
    have := Nat.and_lt_two_pow m hlt
    omega
  | negSucc m =>
    show 0 ≤ ((Nat.andNot (2 ^ k - 1) m : Nat) : Int) ∧ ((Nat.andNot (2 ^ k - 1) m : Nat) : Int) < _
    have h2 : (2 ^ k - 1) &&& m < 2 ^ k := by rw [Nat.and_comm]; exact Nat.and_lt_two_pow m hlt
    have := Nat.xor_lt_two_pow hlt h2
    unfold Nat.andNot
    omega

end Pycoin
