import Pycoin.Proofs.Lo32
import Pycoin.Model.Ripemd160Py
import Pycoin.Spec.Ripemd160
namespace Pycoin.Ripemd160Py
open Pycoin.Hash Pycoin.Gen.HashTables

theorem tbl_ML : ∀ j : Nat, j < 80 → pyGetItem ML (j : Int) = .ok ((Rmd.rL.getD j 0 : Nat) : Int) ∧ Rmd.rL.getD j 0 < 16 := by
  decide
theorem tbl_RL : ∀ j : Nat, j < 80 → pyGetItem RL (j : Int) = .ok ((Rmd.sL.getD j 0 : Nat) : Int) ∧ 0 < Rmd.sL.getD j 0 ∧ Rmd.sL.getD j 0 < 32 := by
  decide
theorem tbl_KL : ∀ j : Nat, j < 80 → pyGetItem KL ((j : Int) >>> 4) = .ok (((Rmd.kL.getD (j / 16) 0).toNat : Nat) : Int) := by
  decide
end Pycoin.Ripemd160Py
