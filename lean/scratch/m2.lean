import Pycoin.Py.IntBits
namespace Pycoin
#check @Nat.two_pow_add_eq_or_of_lt
#check @Nat.shiftLeft_eq
theorem or_bytes2 (a b : Nat) (ha : a < 256) : a ||| b <<< 8 = a + 256 * b := by
  have := Nat.two_pow_add_eq_or_of_lt (i := 8) (b := a) (by omega) b
  rw [Nat.shiftLeft_eq, Nat.or_comm, Nat.mul_comm]
  omega
theorem or_bytes3 (a b c : Nat) (ha : a < 256) (hb : b < 256) : a ||| b <<< 8 ||| c <<< 16 = a + 256 * (b + 256 * c) := by
  rw [or_bytes2 a b ha]
  have := Nat.two_pow_add_eq_or_of_lt (i := 16) (b := a + 256 * b) (by omega) c
  rw [Nat.shiftLeft_eq, Nat.or_comm, Nat.mul_comm]
  omega
theorem or_bytes4 (a b c d : Nat) (ha : a < 256) (hb : b < 256) (hc : c < 256) :
    a ||| b <<< 8 ||| c <<< 16 ||| d <<< 24 = a + 256 * (b + 256 * (c + 256 * d)) := by
  rw [or_bytes3 a b c ha hb]
  have := Nat.two_pow_add_eq_or_of_lt (i := 24) (b := a + 256 * (b + 256 * c)) (by omega) d
  rw [Nat.shiftLeft_eq, Nat.or_comm, Nat.mul_comm]
  omega
end Pycoin
