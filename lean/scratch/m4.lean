import Pycoin.Proofs.Lo32
namespace Pycoin
theorem and_round_mask (n : Nat) (h : n < 2 ^ 32) : n &&& 0xFFFFFFFC = 4 * (n / 4) := by
  have e : (0xFFFFFFFC : Nat) = 2 ^ 2 * (2 ^ 30 - 1) := by decide
  have e4 : 4 * (n / 4) = 2 ^ 2 * (n / 2 ^ 2) := rfl
  rw [e, e4]
  apply Nat.eq_of_testBit_eq
  intro i
  simp only [Nat.testBit_and, Nat.testBit_two_pow_mul, Nat.testBit_two_pow_sub_one, Nat.testBit_div_two_pow]
  by_cases h2 : 2 ≤ i
  · have e2 : i - 2 + 2 = i := by omega
    by_cases h3 : i < 32
    · have : i - 2 < 30 := by omega
      simp [h2, this, e2]
    · have : n.testBit i = false := Nat.testBit_lt_two_pow (Nat.lt_of_lt_of_le h (Nat.pow_le_pow_right (by decide) (by omega)))
      simp [h2, this, e2]
  · simp [h2]
end Pycoin
