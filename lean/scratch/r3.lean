#synth DecidableEq (Except Nat Nat)
#synth Decidable (∀ j : Nat, j < 80 → j = j)
