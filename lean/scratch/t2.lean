import Pycoin.Py.IntBits
namespace Pycoin

theorem ofInt_two_pow (k : Nat) : BitVec.ofInt w ((2:Int) ^ k) = BitVec.twoPow w k := by
  have : ((2:Int) ^ k) = ((2 ^ k : Nat) : Int) := by simp
  rw [this, BitVec.ofInt_natCast]
  apply BitVec.eq_of_toNat_eq
  rw [BitVec.toNat_twoPow, BitVec.toNat_ofNat]

theorem ofInt_shl (a : Int) (k : Nat) : BitVec.ofInt w (a <<< k) = BitVec.ofInt w a <<< k := by
  rw [Int.shiftLeft_eq, BitVec.ofInt_mul, BitVec.shiftLeft_eq_mul_twoPow, ofInt_two_pow]

/-- a value in `[0, 2^w)` is determined by its image -/
theorem eq_toNat_of_ofInt {v : Int} {b : BitVec w} (h0 : 0 ≤ v) (h1 : v < (2 ^ w : Nat)) (h : BitVec.ofInt w v = b) :
    v = (b.toNat : Int) := by
  subst h
  rw [BitVec.toNat_ofInt, Int.emod_eq_of_lt h0 h1]
  omega

theorem pyAnd_nonneg_right (x : Int) (n : Nat) : 0 ≤ pyAnd x (n : Int) ∧ pyAnd x (n : Int) ≤ n := by
  cases x with
  | ofNat m =>
    show 0 ≤ Int.ofNat (m &&& n) ∧ Int.ofNat (m &&& n) ≤ n
    have := @Nat.and_le_right m n
    omega
  | negSucc m =>
    show 0 ≤ Int.ofNat (Nat.andNot n m) ∧ Int.ofNat (Nat.andNot n m) ≤ n
    sorry

end Pycoin
