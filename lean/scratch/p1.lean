import Pycoin.Proofs.Lo32
namespace Pycoin
theorem andNot_low (n k : Nat) : Nat.andNot n (2 ^ k - 1) = 2 ^ k * (n / 2 ^ k) := by
  apply Nat.eq_of_testBit_eq
  intro i
  simp only [Nat.andNot, Nat.testBit_xor, Nat.testBit_and, Nat.and_two_pow_sub_one_eq_mod, Nat.testBit_mod_two_pow,
    Nat.testBit_two_pow_mul, Nat.testBit_div_two_pow]
  by_cases h : i < k
  · simp [h]; omega
  · have : k ≤ i := by omega
    simp [h, this, Nat.sub_add_cancel this]

theorem pad_start (n : Nat) : (pyAnd (n : Int) (~~~(63 : Int))).toNat = 64 * (n / 64) := by
  show (Int.ofNat (Nat.andNot n 63)).toNat = _
  exact andNot_low n 6

theorem pad_zeros (n : Nat) : (pyAnd (119 - (n : Int)) 63).toNat = (119 - n % 64) % 64 := by
  have := pyAnd_mask (119 - (n : Int)) 6
  simp only [BitVec.toNat_ofInt] at this
  have e : ((2 ^ 6 - 1 : Nat) : Int) = 63 := by decide
  rw [e] at this
  rw [this]
  omega
end Pycoin
