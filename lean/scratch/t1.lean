import Pycoin.Py.IntBits
namespace Pycoin

abbrev bv (x : Int) : BitVec 32 := BitVec.ofInt 32 x

theorem bv_ofNat (m : Nat) : BitVec.ofInt w (Int.ofNat m) = BitVec.ofNat w m := by
  simp

theorem bv_negSucc (m : Nat) : BitVec.ofInt w (Int.negSucc m) = ~~~ BitVec.ofNat w m := by
  simp

theorem ofNat_andNot (m n : Nat) : BitVec.ofNat w (Nat.andNot m n) = BitVec.ofNat w m &&& ~~~ BitVec.ofNat w n := by
  simp only [Nat.andNot, BitVec.ofNat_xor, BitVec.ofNat_and]
  ext i hi
  simp
  cases (BitVec.ofNat w m)[i] <;> cases (BitVec.ofNat w n)[i] <;> rfl

theorem ofInt_pyAnd (a b : Int) : BitVec.ofInt w (pyAnd a b) = BitVec.ofInt w a &&& BitVec.ofInt w b := by
  cases a <;> cases b <;> simp only [pyAnd, bv_ofNat, bv_negSucc, ofNat_andNot, BitVec.ofNat_and, BitVec.ofNat_or]
  · rw [BitVec.and_comm]
  · ext i hi; simp

theorem ofInt_pyOr (a b : Int) : BitVec.ofInt w (pyOr a b) = BitVec.ofInt w a ||| BitVec.ofInt w b := by
  cases a <;> cases b <;> simp only [pyOr, bv_ofNat, bv_negSucc, ofNat_andNot, BitVec.ofNat_and, BitVec.ofNat_or]
  all_goals (ext i hi; simp)
  all_goals (rename_i m n; cases (BitVec.ofNat w m)[i] <;> cases (BitVec.ofNat w n)[i] <;> rfl)

theorem ofInt_pyXor (a b : Int) : BitVec.ofInt w (pyXor a b) = BitVec.ofInt w a ^^^ BitVec.ofInt w b := by
  cases a <;> cases b <;> simp only [pyXor, bv_ofNat, bv_negSucc, BitVec.ofNat_xor]
  all_goals (ext i hi; simp)
  all_goals (rename_i m n; cases (BitVec.ofNat w m)[i] <;> cases (BitVec.ofNat w n)[i] <;> rfl)

theorem ofInt_not (a : Int) : BitVec.ofInt w (~~~a) = ~~~ BitVec.ofInt w a := by
  cases a with
  | ofNat m => show BitVec.ofInt w (Int.negSucc m) = _; simp
  | negSucc m => show BitVec.ofInt w (Int.ofNat m) = _; simp

end Pycoin
