import Pycoin.Spec.Murmur3
open Pycoin Pycoin.Hash
theorem mmBody_cons4 (h : UInt32) (a b c d : UInt8) (rest : Bytes) :
    mmBody h (a :: b :: c :: d :: rest) = mmBody (mmBlock h (UInt32.ofNat (leNat [a, b, c, d]))) rest := by
  simp only [mmBody, mmWords, mmTail, List.foldl_cons]
example (h : UInt32) (a b c : UInt8) : mmBody h [a,b,c] = h ^^^ mmMixK (UInt32.ofNat (leNat [a,b,c])) := rfl
example (h : UInt32) : mmBody h [] = h := rfl
