import Pycoin.Model.ParseText
/-! C18 — text parsing is total, faithful and keeps kinds apart. -/
namespace Pycoin.Addr
open Pycoin.Gen.Networks

/-- what produces WIF / extended-key text and what parses it use the same prefixes on every network -/
theorem C18_table_consistent :
    ∀ n ∈ all, n.outWif = (if n.b58DoubleSha then n.parseWif else none) := by
  decide +kernel

end Pycoin.Addr
