import Pycoin.Props.C08
import Pycoin.Model.ParseText
import Pycoin.Proofs.Bytes
import Pycoin.Proofs.ParseTextRt2
import Pycoin.Proofs.RealKeyEnv
/-!
C18 — text parsing is total, faithful and keeps kinds apart.

Every parser of the model is a total function `text → Except Err (Option Obj)`; `.error` is an exception escaping the
Python parser.  `C18_total` says no entry point ever takes that branch.  The table theorem `C18_kinds_apart_table` is
decided by the kernel over the whole generated network table.
-/
namespace Pycoin.Addr
open Pycoin.Gen.Networks

/-- what produces WIF / extended-key text and what parses it use the same prefix on every network — the Groestlcoin
family included — … -/
theorem C18_table_consistent :
    ∀ n ∈ all, n.outWif = n.parseWif ∧ n.outBip32Prv = n.parseBip32Prv ∧ n.outBip32Pub = n.parseBip32Pub ∧
      n.outBip49Prv = n.parseBip49Prv ∧ n.outBip49Pub = n.parseBip49Pub ∧
      n.outBip84Prv = n.parseBip84Prv ∧ n.outBip84Pub = n.parseBip84Pub := by
  decide +kernel

/-- … and the same checksum hash: every closure that writes Base58Check text (`address.b2a`, `wif_for_blob`,
`bip32_as_string`, `bip49_as_string`, `bip84_as_string`) uses the hash `parse_b58_hashed` of the same network accepts
(each found by probing the live objects; Groestl on GRS / TGRS / GRSRT, double SHA-256 elsewhere) -/
theorem C18_table_hash :
    ∀ n ∈ all, n.hashAddr = n.hashParse ∧ n.hashWif = n.hashParse ∧ n.hashBip32 = n.hashParse ∧
      n.hashBip49 = n.hashParse ∧ n.hashBip84 = n.hashParse := by
  decide +kernel

/-! ## kinds are kept apart -/

/-- the prefix-and-length gate every Base58Check parser applies to the decoded payload -/
def gate (p : Bytes) (lens : List Nat) (d : Bytes) : Bool := isPrefixOf p d && lens.contains d.length

/-- two prefixes can start the same byte string -/
def compat (p q : Bytes) : Bool := isPrefixOf p q || isPrefixOf q p

/-- Base58Check kinds of a network: entry point, prefix, admissible lengths of the decoded payload (prefix included) -/
def b58Kinds (n : Network) : List (String × Bytes × List Nat) :=
  [("p2pkh", n.parseP2pkh.map fun p => (p, [p.length + 20])),
   ("p2sh", n.parseP2sh.map fun p => (p, [p.length + 20])),
   ("wif", n.parseWif.map fun p => (p, [p.length + 32, p.length + 33])),
   ("bip32_prv", n.parseBip32Prv.map fun p => (p, [78])), ("bip32_pub", n.parseBip32Pub.map fun p => (p, [78])),
   ("bip49_prv", n.parseBip49Prv.map fun p => (p, [78])), ("bip49_pub", n.parseBip49Pub.map fun p => (p, [78])),
   ("bip84_prv", n.parseBip84Prv.map fun p => (p, [78])), ("bip84_pub", n.parseBip84Pub.map fun p => (p, [78]))].filterMap
    fun (nm, o) => o.map fun (p, l) => (nm, p, l)

def separated (k1 k2 : String × Bytes × List Nat) : Bool :=
  k1.1 = k2.1 || !(compat k1.2.1 k2.2.1 && k1.2.2.any (fun l => k2.2.2.contains l))

def kindsApart (n : Network) : Bool := (b58Kinds n).all fun k1 => (b58Kinds n).all fun k2 => separated k1 k2

/-- ★ on every network of the table, two different Base58Check kinds are separated by their prefixes or, where the
prefixes are compatible (POLIS: P2SH = WIF = `3c`; CHC: P2SH `04` starts the BIP32 prefixes), by the payload lengths the
parsers insist on -/
theorem C18_kinds_apart_table : ∀ n ∈ all, kindsApart n = true := by decide +kernel

theorem take_of_take {p q d : Bytes} (hp : d.take p.length = p) (hq : d.take q.length = q) (h : p.length ≤ q.length) :
    q.take p.length = p := by
  calc q.take p.length = (d.take q.length).take p.length := by rw [hq]
    _ = d.take (min p.length q.length) := by rw [List.take_take]
    _ = d.take p.length := by rw [Nat.min_eq_left h]
    _ = p := hp

theorem isPrefixOf_compat {p q d : Bytes} (hp : isPrefixOf p d = true) (hq : isPrefixOf q d = true) : compat p q = true := by
  simp only [isPrefixOf, compat, decide_eq_true_eq, Bool.or_eq_true] at *
  rcases Nat.le_total p.length q.length with h | h
  · left; exact take_of_take hp hq h
  · right; exact take_of_take hq hp h

theorem separated_gate {k1 k2 : String × Bytes × List Nat} (hs : separated k1 k2 = true) (hne : k1.1 ≠ k2.1) (d : Bytes)
    (h1 : gate k1.2.1 k1.2.2 d = true) (h2 : gate k2.2.1 k2.2.2 d = true) : False := by
  simp only [gate, Bool.and_eq_true] at h1 h2
  simp only [separated, Bool.or_eq_true, decide_eq_true_eq, hne, false_or, Bool.not_eq_true', Bool.and_eq_false_iff] at hs
  rcases hs with hs | hs
  · rw [isPrefixOf_compat h1.1 h2.1] at hs; cases hs
  · have : (k1.2.2.any fun l => k2.2.2.contains l) = true := by
      rw [List.any_eq_true]
      exact ⟨d.length, by simpa using h1.2, h2.2⟩
    rw [this] at hs; cases hs

theorem parseB58Addr_gate {env : Env} {net : Network} {pfx : Option Bytes} {mk : Bytes → Info} {s : String} {i : Info}
    (h : parseB58Addr env net pfx mk s = .ok (some i)) :
    ∃ p d, pfx = some p ∧ parseB58Hashed env net s = some d ∧ gate p [p.length + 20] d = true := by
  unfold parseB58Addr at h
  cases hd : parseB58Hashed env net s with
  | none => simp [hd] at h
  | some data =>
    cases pfx with
    | none => simp [hd] at h
    | some p =>
      simp only [hd] at h
      refine ⟨p, data, rfl, rfl, ?_⟩
      split at h
      · cases h
      · split at h
        · cases h
        · rename_i h1 h2
          simp only [gate, Bool.and_eq_true]
          exact ⟨by simpa using h1, by simpa using h2⟩

theorem isPrefixOf_length {p d : Bytes} (h : isPrefixOf p d = true) : p.length ≤ d.length := by
  have := congrArg List.length (show d.take p.length = p by simpa [isPrefixOf] using h)
  simp at this; omega

theorem parseWif_gate {env : Env} {ke : KeyEnv} {net : Network} {s : String} {o : Obj}
    (h : parseWif env ke net s = .ok (some o)) :
    ∃ p d, net.parseWif = some p ∧ parseB58Hashed env net s = some d ∧ gate p [p.length + 32, p.length + 33] d = true := by
  unfold parseWif at h
  cases hd : parseB58Hashed env net s with
  | none => simp [hd] at h
  | some data =>
    cases hp : net.parseWif with
    | none => simp [hd, hp] at h
    | some p =>
      simp only [hd, hp] at h
      refine ⟨p, data, rfl, rfl, ?_⟩
      split at h
      · cases h
      · rename_i h1
        have hpre : isPrefixOf p data = true := by simpa using h1
        have hlen := isPrefixOf_length hpre
        simp only [gate, Bool.and_eq_true, hpre, true_and]

        split at h
        · rename_i h2
          have := h2.1
          simp at this ⊢; omega
        · split at h
          · rename_i h3
            simp at h3 ⊢; omega
          · cases h

theorem hparse_gate {env : Env} {ke : KeyEnv} {net : Network} {kind : Nat} {prv : Bool} {s : String} {o : Obj}
    (h : hparse env ke net kind prv s = .ok (some o)) :
    ∃ p d, nodeParsePrefix net kind prv = some p ∧ parseB58Hashed env net s = some d ∧ gate p [78] d = true := by
  unfold hparse at h
  cases hd : parseB58Hashed env net s with
  | none => simp [hd] at h
  | some data =>
    cases hp : nodeParsePrefix net kind prv with
    | none => simp [hd, hp] at h
    | some p =>
      simp only [hd, hp] at h
      refine ⟨p, data, rfl, rfl, ?_⟩
      split at h
      · cases h
      · split at h
        · cases h
        · rename_i h1 h2
          simp only [gate, Bool.and_eq_true]
          exact ⟨by simpa using h1, by simpa using h2⟩


/-- acceptance of a text by a named entry point -/
def accepts (env : Env) (ke : KeyEnv) (net : Network) (entry : String) (s : String) : Prop :=
  ∃ o, parseEntry env ke net entry s = some (.ok (some o))

theorem liftContract_some {r : ParseOut} {o : Obj} (h : liftContract r = .ok (some o)) : ∃ i, r = .ok (some i) := by
  cases r with
  | error e => cases h
  | ok v => cases v with
    | none => cases h
    | some i => exact ⟨i, rfl⟩

theorem entry_gate (env : Env) (ke : KeyEnv) (net : Network) (s : String) (k : String × Bytes × List Nat)
    (hk : k ∈ b58Kinds net) (ha : accepts env ke net k.1 s) :
    ∃ d, parseB58Hashed env net s = some d ∧ gate k.2.1 k.2.2 d = true := by
  obtain ⟨o, ho⟩ := ha
  simp only [b58Kinds, List.mem_filterMap, List.mem_cons, List.not_mem_nil, or_false] at hk
  obtain ⟨⟨nm, opt⟩, hmem, hsome⟩ := hk
  cases opt with
  | none => simp at hsome
  | some pl =>
    obtain ⟨p, l⟩ := pl
    simp only [Option.map_some, Option.some.injEq] at hsome
    subst hsome
    simp only at ho ⊢
    rcases hmem with h | h | h | h | h | h | h | h | h <;>
      (simp only [Prod.mk.injEq] at h; obtain ⟨rfl, hp⟩ := h; simp only [parseEntry, Option.some.injEq] at ho)
    · obtain ⟨i, hi⟩ := liftContract_some ho
      obtain ⟨p', d, hp', hd, hg⟩ := parseB58Addr_gate hi
      cases hq : net.parseP2pkh with
      | none => simp [hq] at hp
      | some q => simp [hq] at hp hp'; obtain ⟨rfl, rfl⟩ := hp; subst hp'; exact ⟨d, hd, hg⟩
    · obtain ⟨i, hi⟩ := liftContract_some ho
      obtain ⟨p', d, hp', hd, hg⟩ := parseB58Addr_gate hi
      cases hq : net.parseP2sh with
      | none => simp [hq] at hp
      | some q => simp [hq] at hp hp'; obtain ⟨rfl, rfl⟩ := hp; subst hp'; exact ⟨d, hd, hg⟩
    · obtain ⟨p', d, hp', hd, hg⟩ := parseWif_gate ho
      simp [hp'] at hp; obtain ⟨rfl, rfl⟩ := hp; exact ⟨d, hd, hg⟩
    all_goals
      obtain ⟨p', d, hp', hd, hg⟩ := hparse_gate ho
      simp only [nodeParsePrefix] at hp'
      simp [hp'] at hp; obtain ⟨rfl, rfl⟩ := hp; exact ⟨d, hd, hg⟩

/-- ★ on every network of the table no text is accepted by two different Base58Check kinds (address kinds, WIF, the six
extended-key kinds) -/
theorem C18_kinds_apart (env : Env) (ke : KeyEnv) (net : Network) (hn : net ∈ all) (s : String)
    (k1 k2 : String × Bytes × List Nat) (h1 : k1 ∈ b58Kinds net) (h2 : k2 ∈ b58Kinds net) (hne : k1.1 ≠ k2.1) :
    ¬ (accepts env ke net k1.1 s ∧ accepts env ke net k2.1 s) := by
  intro ⟨a1, a2⟩
  obtain ⟨d1, hd1, g1⟩ := entry_gate env ke net s k1 h1 a1
  obtain ⟨d2, hd2, g2⟩ := entry_gate env ke net s k2 h2 a2
  rw [hd1] at hd2; injection hd2 with hd2; subst hd2
  have hs := C18_kinds_apart_table net hn
  simp only [kindsApart, List.all_eq_true] at hs
  exact separated_gate (hs k1 h1 k2 h2) hne d1 g1 g2


/-- the Bech32 kinds are kept apart by witness version and program length -/
theorem C18_kinds_apart_bech32 (env : Env) (net : Network) (s : String) (a b c : Info) :
    ¬ (parseP2pkhSegwit env net s = .ok (some a) ∧ parseP2shSegwit env net s = .ok (some b)) ∧
    ¬ (parseP2pkhSegwit env net s = .ok (some a) ∧ parseP2tr env net s = .ok (some c)) ∧
    ¬ (parseP2shSegwit env net s = .ok (some b) ∧ parseP2tr env net s = .ok (some c)) := by
  refine ⟨?_, ?_, ?_⟩ <;> intro ⟨h1, h2⟩
  · obtain ⟨_, d1, _, hp1, _, hl1, _⟩ := parseBech32m_some env net s 0 20 .p2pkhWit a (by simp [Info.wellSized]) h1
    obtain ⟨_, d2, _, hp2, _, hl2, _⟩ := parseBech32m_some env net s 0 32 .p2shWit b (by simp [Info.wellSized]) h2
    rw [hp1] at hp2; injection hp2 with hp2; injection hp2 with _ hp2; injection hp2 with _ hp2; injection hp2 with hd _
    subst hd; omega
  · obtain ⟨_, d1, _, hp1, _, hl1, _⟩ := parseBech32m_some env net s 0 20 .p2pkhWit a (by simp [Info.wellSized]) h1
    obtain ⟨_, d2, _, hp2, _, hl2, _⟩ := parseBech32m_some env net s 1 32 .p2tr c (by simp [Info.wellSized]) h2
    rw [hp1] at hp2; injection hp2 with hp2; injection hp2 with _ hp2; injection hp2 with hv _
    cases hv
  · obtain ⟨_, d1, _, hp1, _, hl1, _⟩ := parseBech32m_some env net s 0 32 .p2shWit b (by simp [Info.wellSized]) h1
    obtain ⟨_, d2, _, hp2, _, hl2, _⟩ := parseBech32m_some env net s 1 32 .p2tr c (by simp [Info.wellSized]) h2
    rw [hp1] at hp2; injection hp2 with hp2; injection hp2 with _ hp2; injection hp2 with hv _
    cases hv

/-! ## totality: no entry point takes an exception branch -/

/-- the parser returned normally (an object or `None`) -/
def Tot {α} (r : Except Err α) : Prop := ∃ v, r = .ok v

theorem tot_ok {α} (v : α) : Tot (Except.ok v : Except Err α) := ⟨v, rfl⟩

theorem tot_pOr {a : POut} {b : Unit → POut} (ha : Tot a) (hb : Tot (b ())) : Tot (pOr a b) := by
  obtain ⟨v, rfl⟩ := ha
  cases v with
  | none => exact hb
  | some o => exact ⟨_, rfl⟩

theorem tot_orElse {a : ParseOut} {b : Unit → ParseOut} (ha : Tot a) (hb : Tot (b ())) : Tot (orElse a b) := by
  obtain ⟨v, rfl⟩ := ha
  cases v with
  | none => exact hb
  | some o => exact ⟨_, rfl⟩

theorem tot_lift {a : ParseOut} (ha : Tot a) : Tot (liftContract a) := by
  obtain ⟨v, rfl⟩ := ha
  cases v <;> exact ⟨_, rfl⟩

theorem tot_disabled {net : Network} {name : String} {p : POut} (hp : Tot p) : Tot (disabled net name p) := by
  unfold disabled; split
  · exact ⟨_, rfl⟩
  · exact hp

theorem mkPrivateKey_err {ke : KeyEnv} {se : Int} {c : Bool} {e : Err} (h : mkPrivateKey ke se c = .error e) :
    e = .invalidSecretExponent ∨ e = .invalidPublicPair := by
  unfold mkPrivateKey at h
  split at h
  · injection h with h; exact Or.inl h.symm
  · split at h
    · cases h
    · injection h with h; exact Or.inr h.symm

theorem mkPublicKey_err {ke : KeyEnv} {x y : Int} {c : Bool} {e : Err} (h : mkPublicKey ke x y c = .error e) :
    e = .invalidPublicPair := by
  unfold mkPublicKey at h
  split at h
  · cases h
  · injection h with h; exact h.symm

theorem wifKey_total (ke : KeyEnv) (blob : Bytes) (c : Bool) : Tot (wifKey ke blob c) := by
  unfold wifKey
  cases h : mkPrivateKey ke (beNat blob) c with
  | ok k => exact ⟨_, rfl⟩
  | error e => rcases mkPrivateKey_err h with rfl | rfl <;> exact ⟨_, rfl⟩

theorem C18_total_wif (env : Env) (ke : KeyEnv) (net : Network) (s : String) : Tot (parseWif env ke net s) := by
  unfold parseWif
  split
  · split
    · exact ⟨_, rfl⟩
    · split
      · exact wifKey_total _ _ _
      · split
        · exact wifKey_total _ _ _
        · exact ⟨_, rfl⟩
  · exact ⟨_, rfl⟩

theorem C18_total_secret_exponent (ke : KeyEnv) (s : String) : Tot (parseSecretExponent ke s) := by
  unfold parseSecretExponent
  cases hn : asNumber s with
  | none => exact ⟨_, rfl⟩
  | some v =>
    simp only
    split
    · exact ⟨_, rfl⟩
    · cases h : mkPrivateKey ke v true with
      | ok k => exact ⟨_, rfl⟩
      | error e => rcases mkPrivateKey_err h with rfl | rfl <;> exact ⟨_, rfl⟩

theorem parityPoint_err {ke : KeyEnv} {v0 : Int} {s1 : String} {pt : Option Pt} {e : Err}
    (h : parityPoint ke v0 s1 pt = .error e) : e = .noSuchPoint := by
  unfold parityPoint at h
  split at h
  · split at h
    · cases h
    · injection h with h; exact h.symm
  · cases h

theorem publicPairStep_err {ke : KeyEnv} {s : String} {c : Char} {pt : Option Pt} {e : Err}
    (h : publicPairStep ke s c pt = .error e) : e = .noSuchPoint := by
  unfold publicPairStep at h
  split at h
  · cases h
  · split at h
    · cases h
    · split at h
      · cases h
      · split at h
        · rename_i heq; injection h with h; subst h; exact parityPoint_err heq
        · cases h

theorem publicPairPoint_err {ke : KeyEnv} {s : String} {e : Err} (h : publicPairPoint ke s = .error e) : e = .noSuchPoint := by
  unfold publicPairPoint at h
  split at h
  · rename_i heq; injection h with h; subst h; exact publicPairStep_err heq
  · exact publicPairStep_err h

theorem C18_total_public_pair (ke : KeyEnv) (s : String) : Tot (parsePublicPair ke s) := by
  unfold parsePublicPair
  cases hp : publicPairPoint ke s with
  | error e => rw [publicPairPoint_err hp]; exact ⟨_, rfl⟩
  | ok o =>
    cases o with
    | none => exact ⟨_, rfl⟩
    | some pt =>
      simp only
      cases h : mkPublicKey ke pt.1 pt.2 true with
      | ok k => exact ⟨_, rfl⟩
      | error e => rw [mkPublicKey_err h]; exact ⟨_, rfl⟩

theorem C18_total_sec (ke : KeyEnv) (net : Network) (s : String) : Tot (parseSec ke net s) := by
  unfold parseSec
  split
  · exact ⟨_, rfl⟩
  · split <;> exact ⟨_, rfl⟩

theorem secToPublicPair_err {ke : KeyEnv} {sec : Bytes} {e : Err} (h : secToPublicPair ke sec = .error e) :
    e = .noSuchPoint ∨ e = .encodingError := by
  unfold secToPublicPair at h
  split at h
  · split at h
    · injection h with h; exact Or.inr h.symm
    · cases h
  · split at h
    · split at h
      · injection h with h; exact Or.inr h.symm
      · split at h
        · cases h
        · injection h with h; exact Or.inl h.symm
    · injection h with h; exact Or.inr h.symm

theorem deserializeKey_err {ke : KeyEnv} {data : Bytes} {e : Err} (h : deserializeKey ke data = .error e) :
    e ≠ .typeError ∧ e ≠ .fuel := by
  unfold deserializeKey at h
  split at h
  · rcases mkPrivateKey_err h with rfl | rfl <;> exact ⟨by decide, by decide⟩
  · split at h
    · rename_i heq; injection h with h; subst h
      rcases secToPublicPair_err heq with rfl | rfl <;> exact ⟨by decide, by decide⟩
    · rw [mkPublicKey_err h]; exact ⟨by decide, by decide⟩

theorem deserialize_err {ke : KeyEnv} {kind : Nat} {data : Bytes} {e : Err} (h : deserialize ke kind data = .error e) :
    e ≠ .typeError ∧ e ≠ .fuel := by
  unfold deserialize at h
  split at h
  · injection h with h; subst h; exact ⟨by decide, by decide⟩
  · split at h
    · rename_i heq; injection h with h; subst h; exact deserializeKey_err heq
    · split at h
      · injection h with h; subst h; exact ⟨by decide, by decide⟩
      · cases h

theorem C18_total_hparse (env : Env) (ke : KeyEnv) (net : Network) (kind : Nat) (prv : Bool) (s : String) :
    Tot (hparse env ke net kind prv s) := by
  unfold hparse
  split
  · split
    · exact ⟨_, rfl⟩
    · split
      · exact ⟨_, rfl⟩
      · split
        · exact ⟨_, rfl⟩
        · rename_i heq; exact absurd rfl (deserialize_err heq).1
        · rename_i heq; exact absurd rfl (deserialize_err heq).2
        · exact ⟨_, rfl⟩
  · exact ⟨_, rfl⟩

theorem C18_total_bip (env : Env) (ke : KeyEnv) (net : Network) (kind : Nat) (s : String) : Tot (parseBip env ke net kind s) :=
  tot_pOr (C18_total_hparse ..) (C18_total_hparse ..)

theorem fromMasterSecret_err {ke : KeyEnv} {ms : Bytes} {e : Err} (h : fromMasterSecret ke ms = .error e) :
    e = .invalidSecretExponent ∨ e = .invalidPublicPair := by
  unfold fromMasterSecret at h
  split at h
  · rename_i heq; injection h with h; subst h; exact mkPrivateKey_err heq
  · cases h

theorem C18_total_bip32_seed (ke : KeyEnv) (s : String) : Tot (parseBip32Seed ke s) := by
  unfold parseBip32Seed
  split
  · exact ⟨_, rfl⟩
  · split
    · exact ⟨_, rfl⟩
    · split
      · exact ⟨_, rfl⟩
      · rename_i ms _
        cases h : fromMasterSecret ke ms with
        | ok n => exact ⟨_, rfl⟩
        | error e => rcases fromMasterSecret_err h with rfl | rfl <;> exact ⟨_, rfl⟩

theorem electrumOut_priv (ke : KeyEnv) (se : Int) (c : Bool) : Tot (electrumOut (mkPrivateKey ke se c)) := by
  cases h : mkPrivateKey ke se c with
  | ok k => exact ⟨_, rfl⟩
  | error e => rcases mkPrivateKey_err h with rfl | rfl <;> exact ⟨_, rfl⟩

theorem electrumOut_pub (ke : KeyEnv) (x y : Int) (c : Bool) : Tot (electrumOut (mkPublicKey ke x y c)) := by
  cases h : mkPublicKey ke x y c with
  | ok k => exact ⟨_, rfl⟩
  | error e => rw [mkPublicKey_err h]; exact ⟨_, rfl⟩

theorem C18_total_electrum (ke : KeyEnv) (s : String) :
    Tot (parseElectrumSeed ke s) ∧ Tot (parseElectrumPrv ke s) ∧ Tot (parseElectrumPub ke s) := by
  refine ⟨?_, ?_, ?_⟩
  · unfold parseElectrumSeed; split
    · split
      · exact electrumOut_priv ..
      · exact ⟨_, rfl⟩
    · exact ⟨_, rfl⟩
  · unfold parseElectrumPrv; split
    · split
      · exact electrumOut_priv ..
      · exact ⟨_, rfl⟩
    · exact ⟨_, rfl⟩
  · unfold parseElectrumPub; split
    · split
      · split
        · exact ⟨_, rfl⟩
        · exact electrumOut_pub ..
      · exact ⟨_, rfl⟩
    · exact ⟨_, rfl⟩

theorem C18_total_script (s : String) : Tot (parseScript s) := by
  unfold parseScript
  split
  · exact ⟨_, rfl⟩
  · split <;> exact ⟨_, rfl⟩

theorem parseB58Addr_total (env : Env) (net : Network) (pfx : Option Bytes) (mk : Bytes → Info) (s : String)
    (hmk : ∀ d, d.length = 20 → (mk d).wellSized = true) : Tot (parseB58Addr env net pfx mk s) := by
  unfold parseB58Addr
  cases hd : parseB58Hashed env net s with
  | none => exact ⟨_, rfl⟩
  | some data =>
    cases pfx with
    | none => exact ⟨_, rfl⟩
    | some p =>
      simp only
      split
      · exact ⟨_, rfl⟩
      · split
        · exact ⟨_, rfl⟩
        · rename_i hlen
          have hlen' : data.length = p.length + 20 := by simpa using hlen
          have hw := hmk (data.drop p.length) (by simp [hlen'])
          simp only [forInfo_std _ hw, infoForScript_std _ hw, bind, Except.bind, pure, Except.pure]
          exact ⟨_, rfl⟩

theorem parseBech32m_total (env : Env) (net : Network) (s : String) (ev bl : Nat) (mk : Bytes → Info)
    (hmk : ∀ d, d.length = bl → (mk d).wellSized = true) : Tot (parseBech32m env net s ev bl mk) := by
  unfold parseBech32m
  cases hp : env.bech32Parse s with
  | none => exact ⟨_, rfl⟩
  | some q =>
    obtain ⟨hrp, version, decoded, spec⟩ := q
    simp only
    split
    · exact ⟨_, rfl⟩
    · split
      · exact ⟨_, rfl⟩
      · rename_i hl
        split
        · exact ⟨_, rfl⟩
        · split
          · exact ⟨_, rfl⟩
          · split
            · exact ⟨_, rfl⟩
            · have hw := hmk decoded (by simpa using hl)
              simp only [forInfo_std _ hw, infoForScript_std _ hw, bind, Except.bind, pure, Except.pure]
              exact ⟨_, rfl⟩

theorem C18_total_address (env : Env) (net : Network) (s : String) : Tot (parseAddress env net s) := by
  unfold parseAddress
  split
  · exact ⟨_, rfl⟩
  · refine tot_orElse (parseB58Addr_total _ _ _ _ _ (by simp [Info.wellSized])) ?_
    refine tot_orElse (parseB58Addr_total _ _ _ _ _ (by simp [Info.wellSized])) ?_
    refine tot_orElse (parseBech32m_total _ _ _ _ _ _ (by simp [Info.wellSized])) ?_
    refine tot_orElse (parseBech32m_total _ _ _ _ _ _ (by simp [Info.wellSized])) ?_
    exact parseBech32m_total _ _ _ _ _ _ (by simp [Info.wellSized])

theorem C18_total_hierarchical_key (env : Env) (ke : KeyEnv) (net : Network) (s : String) :
    Tot (parseHierarchicalKey env ke net s) := by
  unfold parseHierarchicalKey
  refine tot_disabled ?_
  refine tot_pOr (C18_total_bip32_seed ..) ?_
  refine tot_pOr (C18_total_bip ..) ?_
  refine tot_pOr (C18_total_bip ..) ?_
  refine tot_pOr (C18_total_bip ..) ?_
  refine tot_pOr (C18_total_electrum ke s).1 ?_
  exact tot_pOr (C18_total_electrum ke s).2.1 (C18_total_electrum ke s).2.2

theorem C18_total_private_key (env : Env) (ke : KeyEnv) (net : Network) (s : String) : Tot (parsePrivateKey env ke net s) :=
  tot_disabled (tot_pOr (C18_total_wif ..) (C18_total_secret_exponent ..))

theorem C18_total_secret (env : Env) (ke : KeyEnv) (net : Network) (s : String) : Tot (parseSecret env ke net s) :=
  tot_pOr (C18_total_private_key ..) (C18_total_hierarchical_key ..)

theorem C18_total_payable (env : Env) (net : Network) (s : String) : Tot (parsePayable env net s) :=
  tot_pOr (tot_lift (C18_total_address ..)) (C18_total_script s)

/-- ★ totality: whatever the text and the network, every one of the 35 public entry points of `ParseAPI` (the
catch-alls and `__call__` included) returns an object or `None`; the exception branch of the model is never taken -/
theorem C18_total (env : Env) (ke : KeyEnv) (net : Network) (entry s : String) (r : POut)
    (h : parseEntry env ke net entry s = some r) : Tot r := by
  unfold parseEntry at h
  split at h
  · injection h with h; subst h; exact C18_total_bip32_seed ..
  · injection h with h; subst h; exact C18_total_bip32_seed ..
  · injection h with h; subst h; exact C18_total_hparse ..
  · injection h with h; subst h; exact C18_total_hparse ..
  · injection h with h; subst h; exact C18_total_bip ..
  · injection h with h; subst h; exact C18_total_hparse ..
  · injection h with h; subst h; exact C18_total_hparse ..
  · injection h with h; subst h; exact C18_total_bip ..
  · injection h with h; subst h; exact C18_total_hparse ..
  · injection h with h; subst h; exact C18_total_hparse ..
  · injection h with h; subst h; exact C18_total_bip ..
  · injection h with h; subst h; exact (C18_total_electrum ke s).1
  · injection h with h; subst h; exact (C18_total_electrum ke s).2.1
  · injection h with h; subst h; exact (C18_total_electrum ke s).2.2
  · injection h with h; subst h; exact tot_lift (parseB58Addr_total _ _ _ _ _ (by simp [Info.wellSized]))
  · injection h with h; subst h; exact tot_lift (parseB58Addr_total _ _ _ _ _ (by simp [Info.wellSized]))
  · injection h with h; subst h; exact tot_lift (parseBech32m_total _ _ _ _ _ _ (by simp [Info.wellSized]))
  · injection h with h; subst h; exact tot_lift (parseBech32m_total _ _ _ _ _ _ (by simp [Info.wellSized]))
  · injection h with h; subst h; exact tot_lift (parseBech32m_total _ _ _ _ _ _ (by simp [Info.wellSized]))
  · injection h with h; subst h; exact C18_total_script s
  · injection h with h; subst h; exact C18_total_wif ..
  · injection h with h; subst h; exact C18_total_secret_exponent ..
  · injection h with h; subst h; exact C18_total_public_pair ..
  · injection h with h; subst h; exact C18_total_sec ..
  · injection h with h; subst h; exact tot_lift (C18_total_address ..)
  · injection h with h; subst h; exact C18_total_payable ..
  · injection h with h; subst h; exact C18_total_hierarchical_key ..
  · injection h with h; subst h; exact C18_total_private_key ..
  · injection h with h; subst h; exact C18_total_secret ..
  · injection h with h; subst h; exact tot_disabled (tot_pOr (C18_total_public_pair ..) (C18_total_sec ..))
  · injection h with h; subst h; exact tot_ok none
  · injection h with h; subst h; exact tot_ok none
  · injection h with h; subst h; exact tot_ok none
  · injection h with h; subst h; exact tot_ok none
  · injection h with h; subst h; exact tot_pOr (C18_total_payable ..) (C18_total_secret ..)
  · cases h

/-! ## wrong lengths and out-of-range contents are refused; accepted WIF text is canonical -/

theorem gate_length {p : Bytes} {lens : List Nat} {d : Bytes} (h : gate p lens d = true) : d.length ∈ lens ∧ isPrefixOf p d = true := by
  simp only [gate, Bool.and_eq_true] at h
  exact ⟨by simpa using h.2, h.1⟩

/-- ★ a checksummed payload of the wrong length is refused by every Base58Check parser: what is accepted has the prefix
followed by exactly 20 bytes (addresses), 32 or 33 bytes (WIF), or is 78 bytes in all (extended keys) -/
theorem C18_wrong_length_refused (env : Env) (ke : KeyEnv) (net : Network) (s : String) :
    (∀ i, parseP2pkh env net s = .ok (some i) ∨ parseP2sh env net s = .ok (some i) →
        ∃ p d, parseB58Hashed env net s = some d ∧ isPrefixOf p d = true ∧ d.length = p.length + 20) ∧
    (∀ o, parseWif env ke net s = .ok (some o) →
        ∃ p d, parseB58Hashed env net s = some d ∧ isPrefixOf p d = true ∧ (d.length = p.length + 32 ∨ d.length = p.length + 33)) ∧
    (∀ kind prv o, hparse env ke net kind prv s = .ok (some o) →
        ∃ d, parseB58Hashed env net s = some d ∧ d.length = 78) := by
  refine ⟨?_, ?_, ?_⟩
  · intro i h
    rcases h with h | h <;>
      (obtain ⟨p, d, _, hd, hg⟩ := parseB58Addr_gate h
       have := gate_length hg
       exact ⟨p, d, hd, this.2, by simpa using this.1⟩)
  · intro o h
    obtain ⟨p, d, _, hd, hg⟩ := parseWif_gate h
    have := gate_length hg
    exact ⟨p, d, hd, this.2, by simpa using this.1⟩
  · intro kind prv o h
    obtain ⟨p, d, _, hd, hg⟩ := hparse_gate h
    have := gate_length hg
    exact ⟨d, hd, by simpa using this.1⟩

theorem mkPrivateKey_ok {ke : KeyEnv} {v : Int} {c : Bool} {k : KeyObj} (h : mkPrivateKey ke v c = .ok k) :
    1 ≤ v ∧ v < ke.order ∧ k.se = some v.toNat ∧ k.compressed = c := by
  unfold mkPrivateKey at h
  split at h
  · cases h
  · rename_i hr
    split at h
    · injection h with h; subst h
      exact ⟨by omega, by omega, rfl, rfl⟩
    · cases h

theorem wifKey_ok {ke : KeyEnv} {blob : Bytes} {c : Bool} {o : Obj} (h : wifKey ke blob c = .ok (some o)) :
    ∃ k, o = .key k ∧ 1 ≤ beNat blob ∧ beNat blob < ke.order ∧ k.se = some (beNat blob) ∧ k.compressed = c := by
  unfold wifKey at h
  split at h
  · rename_i k hk
    injection h with h; injection h with h; subst h
    obtain ⟨h1, h2, h3, h4⟩ := mkPrivateKey_ok hk
    exact ⟨k, rfl, by omega, by omega, by simpa using h3, h4⟩
  · cases h
  · cases h
  · cases h

/-- ★ out-of-range contents are refused and nothing is silently reinterpreted: a text accepted by `parse.wif` carries a
secret exponent in `[1, n)`, the compression flag byte is exactly `01` or absent, and — on every network of the table —
the key's own `wif()` is the very text that was parsed (so `parse.wif (key.wif()) = key`) -/
theorem C18_wif_canonical (env : Env) (laws : CodecLaws env) (ke : KeyEnv) (net : Network) (hn : net ∈ all) (s : String) (o : Obj)
    (h : parseWif env ke net s = .ok (some o)) :
    ∃ k se, o = .key k ∧ k.se = some se ∧ 1 ≤ se ∧ se < ke.order ∧ wifText env net se k.compressed = .ok s ∧
      parseWif env ke net s = .ok (some (.key k)) := by
  have htab := (C18_table_consistent net hn).1
  have hhash := (C18_table_hash net hn).2.1
  unfold parseWif at h
  cases hd : parseB58Hashed env net s with
  | none => simp [hd] at h
  | some data =>
    cases hp : net.parseWif with
    | none => simp [hd, hp] at h
    | some p =>
      simp only [hd, hp] at h
      have hb : env.b58cDec net.hashParse s = some data := hd
      have hout : net.outWif = some p := by rw [htab, hp]
      split at h
      · cases h
      · rename_i hpre
        have hpre' : isPrefixOf p data = true := by simpa using hpre
        have hsplit := isPrefixOf_split hpre'
        split at h
        · rename_i h33
          obtain ⟨k, rfl, h1, h2, h3, h4⟩ := wifKey_ok h
          refine ⟨k, _, rfl, h3, h1, h2, ?_, ?_⟩
          · have hl : ((data.drop p.length).take 32).length = 32 := by simp [h33.1]
            have hbe : beBytes (beNat ((data.drop p.length).take 32)) 32 = (data.drop p.length).take 32 := by
              have := beBytes_beNat ((data.drop p.length).take 32); rwa [hl] at this
            have hbody : (data.drop p.length).take 32 ++ [1] = data.drop p.length := by
              conv => rhs; rw [← List.take_append_drop 32 (data.drop p.length), h33.2]
            simp only [wifText, b58Text, hhash, hout, h4, if_true, hbe]
            rw [hbody, ← hsplit, laws.b58_canon _ _ _ hb]
          · unfold parseWif; simp only [hd, hp, hpre, if_false, h33, and_self, if_true]; exact h
        · split at h
          · rename_i h32
            obtain ⟨k, rfl, h1, h2, h3, h4⟩ := wifKey_ok h
            refine ⟨k, _, rfl, h3, h1, h2, ?_, ?_⟩
            · have hbe : beBytes (beNat (data.drop p.length)) 32 = data.drop p.length := by
                have := beBytes_beNat (data.drop p.length); rwa [h32] at this
              simp only [wifText, b58Text, hhash, hout, h4, hbe, Bool.false_eq_true, if_false, List.append_nil]
              rw [← hsplit, laws.b58_canon _ _ _ hb]
            · rename_i h33
              unfold parseWif; simp only [hd, hp, hpre, if_false, h33, h32, if_true]; exact h
          · cases h

/-! ## every other kind: what is returned re-serialises to text that parses to an equal object; out-of-range contents are refused

`KeyLaws ke` (Proofs/ParseKeyRt.lean) plays for the curve object the part `CodecLaws env` plays for the codecs: `points_for_x`
returns the two reduced points of an `x`, a reduced curve point is one of them, `se * G` is reduced, `p, n ≤ 2²⁵⁶`, HMAC-SHA512
yields 64 bytes.  Proofs: Proofs/ParseKeyRt.lean, ParseExtRt.lean, ParseTextRt.lean, ParseTextRt2.lean. -/

/-- ★ extended keys (`bip32_prv/pub`, `bip49_*`, `bip84_*`; every network of the table): an accepted text decodes to 78 bytes
and the node has in-range contents — one-byte depth, 4-byte fingerprint, child number < 2³², 32-byte chain code, and a key that
is either `00 ‖ se` with `1 ≤ se < n` or a compressed SEC with `x < p` having a curve point (`KeyObj.InRange`).  Unless the
text belongs to the class of the open known finding `extkey-version-marker-mismatch` (`MarkerMismatch`: private version bytes
with a public key field, or the reverse), `hwif` of the node — private for a `_prv` entry, public for a `_pub` entry — is the
very text that was parsed, hence parses to the same node. -/
theorem C18_extkey_reserialises (env : Env) (laws : CodecLaws env) (ke : KeyEnv) (kl : KeyLaws ke) (net : Network) (hn : net ∈ all)
    (kind : Nat) (prv : Bool) (s : String) (o : Obj) (h : hparse env ke net kind prv s = .ok (some o)) :
    ∃ data n, parseB58Hashed env net s = some data ∧ data.length = 78 ∧ o = .node n ∧ n.kind = kind ∧
      n.depth ≤ 255 ∧ n.fingerprint.length = 4 ∧ n.childIndex < 2 ^ 32 ∧ n.chainCode.length = 32 ∧
      n.key.InRange ke ∧ n.key.compressed = true ∧ (n.key.se.isSome ↔ slice data 45 46 = [0]) ∧
      (¬ MarkerMismatch data prv →
        hwif env net n prv = .ok s ∧ hparse env ke net kind prv s = .ok (some (.node n))) :=
  hparse_reserialises env laws ke kl net hn kind prv s o h

/-- the same through the catch-all `parse.bipNN` (`_prv` tried first, then `_pub`) -/
theorem C18_extkey_reserialises_bip (env : Env) (laws : CodecLaws env) (ke : KeyEnv) (kl : KeyLaws ke) (net : Network)
    (hn : net ∈ all) (kind : Nat) (s : String) (o : Obj) (h : parseBip env ke net kind s = .ok (some o)) :
    ∃ prv data n, parseB58Hashed env net s = some data ∧ o = .node n ∧ n.kind = kind ∧ n.key.InRange ke ∧
      (¬ MarkerMismatch data prv → hwif env net n prv = .ok s ∧ parseBip env ke net kind s = .ok (some (.node n))) := by
  unfold parseBip pOr at h
  split at h
  · cases h
  · rename_i o' h1
    injection h with h; injection h with h; subst h
    obtain ⟨data, n, a, -, b, c, -, -, -, -, d, -, -, e⟩ := hparse_reserialises env laws ke kl net hn kind true s _ h1
    exact ⟨true, data, n, a, b, c, d, fun hm => ⟨(e hm).1, by subst b; simp [parseBip, pOr, h1]⟩⟩
  · rename_i h1
    obtain ⟨data, n, a, -, b, c, -, -, -, -, d, -, -, e⟩ := hparse_reserialises env laws ke kl net hn kind false s _ h
    exact ⟨false, data, n, a, b, c, d, fun hm => ⟨(e hm).1, by subst b; simp [parseBip, pOr, h1, h]⟩⟩

/-- ★ extended keys, out-of-range contents: a Base58Check payload whose key field is `00 ‖ e` with `e = 0` or `e ≥ n`, or
whose key field does not start with `00` and is refused by the strict SEC decoder (a first byte other than `02`/`03`,
`x ≥ p`, an `x` without a curve point: `secToPublicPair_shape`, `C18_sec_refuses`), is refused by every extended-key entry
point (wrong lengths: `C18_wrong_length_refused`) -/
theorem C18_extkey_refuses (env : Env) (ke : KeyEnv) (net : Network) (kind : Nat) (prv : Bool) (s : String) (data : Bytes)
    (hd : parseB58Hashed env net s = some data)
    (h : (slice data 45 46 = [0] ∧ (beNat (data.drop 46) = 0 ∨ beNat (data.drop 46) ≥ ke.order)) ∨
         (slice data 45 46 ≠ [0] ∧ ∃ e, secToPublicPair ke (data.drop 45) = .error e)) :
    hparse env ke net kind prv s = .ok none := by
  unfold hparse
  rw [hd]
  cases nodeParsePrefix net kind prv with
  | none => rfl
  | some p =>
    simp only
    split
    · rfl
    · split
      · rfl
      · rename_i hl
        have hl' : data.length = 78 := by simpa using hl
        have h8 : (slice data 5 13).length = 8 := by rw [slice_len _ _ _ (by omega)]
        rcases h with ⟨h0, hr⟩ | ⟨h0, e, he⟩
        · have : deserialize ke kind data = .error .invalidSecretExponent := by
            unfold deserialize deserializeKey
            simp only [h8, ne_eq, not_true_eq_false, if_false, h0, if_true,
              mkPrivateKey_range (ke := ke) (v := (beNat (data.drop 46) : Nat)) true (by omega)]
          rw [this]
        · have : deserialize ke kind data = .error e := by
            unfold deserialize deserializeKey
            simp only [h8, ne_eq, not_true_eq_false, if_false, h0, he]
          rw [this]
          rcases secToPublicPair_err he with rfl | rfl <;> rfl

/-- ★ SEC text (`parse.sec`, with or without the network's `sec_prefix`): an accepted text is the hex of a blob of one of
the two strict shapes; the key is public with a reduced point on the curve (`x < p`, and `y < p` in the uncompressed form);
the key encodes — with the compression flag read off the blob — to that very blob, and `as_text()` of the key
(`sec_prefix` + hex) parses back to the same point and flag -/
theorem C18_sec_reserialises (ke : KeyEnv) (kl : KeyLaws ke) (net : Network) (hn : net ∈ all) (s : String) (o : Obj)
    (h : parseSec ke net s = .ok (some o)) :
    ∃ sec k t, h2b (secBody net s) = some sec ∧ o = .key k ∧ k.se = none ∧ k.InRange ke ∧
      k.compressed = decide (sec.take 1 = [2] ∨ sec.take 1 = [3]) ∧ secOf k k.compressed = .ok sec ∧
      secText net k = .ok t ∧ parseSec ke net t = .ok (some (.key k)) :=
  parseSec_reserialises ke kl net hn s o h

/-- ★ SEC text, out-of-range contents: hex of a blob that is neither 65 bytes starting `04` nor 33 bytes starting `02`/`03`,
or whose `x` (or, uncompressed, `y`) is not below `p`, or whose `x` has no curve point, or whose uncompressed point is not
on the curve, is refused -/
theorem C18_sec_refuses (ke : KeyEnv) (net : Network) (s : String) (sec : Bytes) (hs : h2b (secBody net s) = some sec) :
    (¬ ((sec.length = 65 ∧ sec.take 1 = [4]) ∨ (sec.length = 33 ∧ (sec.take 1 = [2] ∨ sec.take 1 = [3]))) →
      parseSec ke net s = .ok none) ∧
    (∀ b xs, sec = b :: xs → xs.length = 32 → (beNat xs ≥ ke.p ∨ ke.pointsForX (beNat xs : Int) = none) →
      parseSec ke net s = .ok none) ∧
    (∀ xs ys, sec = 4 :: (xs ++ ys) → xs.length = 32 → ys.length = 32 →
      (beNat xs ≥ ke.p ∨ beNat ys ≥ ke.p ∨ ke.containsPoint (beNat xs : Int) (beNat ys : Int) = false) →
      parseSec ke net s = .ok none) := by
  have none_of : (∀ k, keyFromSec ke sec ≠ .ok k) → parseSec ke net s = .ok none := by
    intro hno
    unfold parseSec; rw [hs]
    cases hk : keyFromSec ke sec with
    | ok k' => exact absurd hk (hno k')
    | error e => simp only [hk]
  refine ⟨fun hshape => none_of fun k hk => ?_, fun b xs hsec hx hbad => none_of fun k hk => ?_,
    fun xs ys hsec hx hy hbad => none_of fun k hk => ?_⟩
  · unfold keyFromSec at hk
    rw [secToPublicPair_shape hshape] at hk
    cases hk
  · unfold keyFromSec at hk
    cases hp : secToPublicPair ke sec with
    | error e => rw [hp] at hk; cases hk
    | ok pp =>
      subst hsec
      cases secToPublicPair_inv hp with
      | uncompressed xs' ys' hx' hy' _ _ => simp [hx', hy'] at hx
      | compressed _ _ hb _ hxp e o hpx =>
        rcases hbad with h | h
        · omega
        · rw [h] at hpx; cases hpx
  · unfold keyFromSec at hk
    cases hp : secToPublicPair ke sec with
    | error e => rw [hp] at hk; cases hk
    | ok pp =>
      rw [hp] at hk
      simp only [bind, Except.bind] at hk
      obtain ⟨-, hon⟩ := mkPublicKey_inv hk
      subst hsec
      generalize hgen : (4 : UInt8) :: (xs ++ ys) = sec' at hp
      cases secToPublicPair_inv hp with
      | uncompressed xs' ys' hx' hy' hxp hyp =>
        injection hgen with _ hgen
        obtain ⟨rfl, rfl⟩ := List.append_inj hgen (by rw [hx, hx'])
        rcases hbad with h | h | h
        · omega
        · omega
        · rw [h] at hon; cases hon
      | compressed b _ hb hxl _ _ _ _ =>
        injection hgen with hb' hgen
        subst hb'
        rcases hb with hb | hb <;> cases hb

/-- ★ public pairs (`x/y`, `x,y`, `x/even`, `x/odd`, numbers decimal or hexadecimal): what is returned is a compressed public
key whose point is on the curve with `0 < x < p`, `0 ≤ y < p` — so a coordinate from `p` upwards, `x ≤ 0`, an `x` without a
curve point or a pair off the curve is never returned (totality: it is refused with `None`) —, and `as_text()` of the key
parses back (through `parse.sec`) to the same pair and flag -/
theorem C18_public_pair_reserialises (env : Env) (ke : KeyEnv) (kl : KeyLaws ke) (net : Network) (hn : net ∈ all)
    (s : String) (o : Obj) (h : parsePublicPair ke s = .ok (some o)) :
    ∃ k t, o = .key k ∧ k.se = none ∧ k.compressed = true ∧ ReducedPt ke k.pub ∧ k.InRange ke ∧
      keyText env net k = .ok t ∧ parseSec ke net t = .ok (some (.key k)) :=
  parsePublicPair_reserialises env ke kl net hn s o h

/-- public pairs, out-of-range contents: whatever the text, an answer other than `None` is a reduced point of the curve -/
theorem C18_public_pair_refuses (ke : KeyEnv) (kl : KeyLaws ke) (s : String) :
    parsePublicPair ke s = .ok none ∨
      ∃ k, parsePublicPair ke s = .ok (some (.key k)) ∧ ReducedPt ke k.pub ∧ ke.containsPoint k.pub.1 k.pub.2 = true := by
  obtain ⟨v, hv⟩ := C18_total_public_pair ke s
  cases v with
  | none => exact Or.inl hv
  | some o =>
    obtain ⟨pt, k, hpt, hk, rfl⟩ := parsePublicPair_inv hv
    obtain ⟨rfl, hon⟩ := mkPublicKey_inv hk
    exact Or.inr ⟨_, hv, publicPairPoint_reduced kl hpt, hon⟩

/-- ★ secret exponents (decimal or hexadecimal text): an accepted text denotes an integer in `[1, n)`; the key is compressed
with public pair `se * G`; where the network has a WIF prefix, `as_text()` of the key (its WIF) parses back to the key -/
theorem C18_secret_exponent_reserialises (env : Env) (laws : CodecLaws env) (ke : KeyEnv) (kl : KeyLaws ke) (net : Network)
    (hn : net ∈ all) (s : String) (o : Obj) (h : parseSecretExponent ke s = .ok (some o)) :
    ∃ v k, asNumber s = some v ∧ 1 ≤ v ∧ v < ke.order ∧ o = .key k ∧ k.se = some v.toNat ∧ k.compressed = true ∧
      k.InRange ke ∧
      ∀ p, net.parseWif = some p → ∃ t, keyText env net k = .ok t ∧ parseWif env ke net t = .ok (some (.key k)) :=
  parseSecretExponent_reserialises env laws ke kl net hn s o h

/-- ★ secret exponents, out of range: 0, a negative number, the group order and everything above it are refused -/
theorem C18_secret_exponent_refuses (ke : KeyEnv) (s : String) (v : Int) (hv : asNumber s = some v)
    (hr : v < 1 ∨ v ≥ ke.order) : parseSecretExponent ke s = .ok none :=
  parseSecretExponent_refuses ke s v hv hr

/-- ★ seeds (`P:<text>`, `H:<hex>`; `bip32_seed` = `hd_seed`): an accepted text gives exactly the BIP32 master node of the
seed bytes — `I = HMAC-SHA512("Bitcoin seed", seed)`, secret exponent `parse256(I_L) ∈ [1, n)`, chain code `I_R`, depth 0,
parent fingerprint `00000000`, child number 0 (`C09_master_from_seed`: = the specification's master key generation) — and,
where the network has a BIP32 private prefix, the node's `hwif(as_private=True)` parses back to the node -/
theorem C18_seed_reserialises (env : Env) (laws : CodecLaws env) (ke : KeyEnv) (kl : KeyLaws ke) (net : Network)
    (hn : net ∈ all) (s : String) (o : Obj) (h : parseBip32Seed ke s = .ok (some o)) :
    ∃ tag rest ms n, parseColonPrefix s = some (tag, rest) ∧ seedBytes tag rest = some ms ∧ o = .node n ∧
      fromMasterSecret ke ms = .ok n ∧
      n.kind = 32 ∧ n.depth = 0 ∧ n.fingerprint = [0, 0, 0, 0] ∧ n.childIndex = 0 ∧
      n.chainCode = (ke.hmacSha512 "Bitcoin seed".toUTF8.toList ms).drop 32 ∧
      n.key.se = some (beNat ((ke.hmacSha512 "Bitcoin seed".toUTF8.toList ms).take 32)) ∧
      1 ≤ beNat ((ke.hmacSha512 "Bitcoin seed".toUTF8.toList ms).take 32) ∧
      beNat ((ke.hmacSha512 "Bitcoin seed".toUTF8.toList ms).take 32) < ke.order ∧
      n.key.compressed = true ∧ n.key.InRange ke ∧
      ∀ p, net.parseBip32Prv = some p →
        ∃ t, hwif env net n true = .ok t ∧ hparse env ke net 32 true t = .ok (some (.node n)) :=
  parseBip32Seed_reserialises env laws ke kl net hn s o h

/-- ★ seeds, out-of-range contents: a seed whose `I_L` is 0 or not below the group order is refused (BIP32: "the master key is
invalid"), not reduced or replaced -/
theorem C18_seed_refuses (ke : KeyEnv) (s tag rest : String) (ms : Bytes) (hc : parseColonPrefix s = some (tag, rest))
    (hms : seedBytes tag rest = some ms)
    (h : beNat ((ke.hmacSha512 "Bitcoin seed".toUTF8.toList ms).take 32) = 0 ∨
      beNat ((ke.hmacSha512 "Bitcoin seed".toUTF8.toList ms).take 32) ≥ ke.order) :
    parseBip32Seed ke s = .ok none :=
  parseBip32Seed_refuses ke s tag rest ms hc hms h

/-- ★ Electrum private forms (`E:` + 32 hex digits: a seed, stretched; `E:` + 64: the master private key): the exponent lies
in `[1, n)`, the wallet is an uncompressed key with pair `se * G`, and its `as_text()` (the uncompressed WIF) parses back through
`parse.wif` to a key with the same exponent, pair and flag (the wallet class itself has no text form of its own: Electrum
wallets re-serialise as plain keys) -/
theorem C18_electrum_prv_reserialises (env : Env) (laws : CodecLaws env) (ke : KeyEnv) (kl : KeyLaws ke) (net : Network)
    (hn : net ∈ all) (s : String) (o : Obj)
    (h : parseElectrumPrv ke s = .ok (some o) ∨ parseElectrumSeed ke s = .ok (some o)) :
    ∃ blob k se, electrumBlob s = some blob ∧ o = .electrum k ∧ k.se = some se ∧ 1 ≤ se ∧ se < ke.order ∧
      ((blob.length = 32 ∧ se = beNat blob) ∨ (blob.length = 16 ∧ se = beNat (ke.electrumStretch (b2h blob)))) ∧
      k.compressed = false ∧ k.InRange ke ∧
      ∀ p, net.parseWif = some p → ∃ t, keyText env net k = .ok t ∧ parseWif env ke net t = .ok (some (.key k)) :=
  parseElectrumPrv_reserialises env laws ke kl net hn s o h

/-- ★ Electrum public form (`E:` + 128 hex digits): 64 bytes `x ‖ y`, both coordinates below `p`, the point on the curve;
the wallet is an uncompressed public key whose `as_text()` parses back through `parse.sec` to the same pair and flag.
(Before fix b1857b7 `x + p` was accepted for small `x` and the text did not parse back: corpus.) -/
theorem C18_electrum_pub_reserialises (env : Env) (ke : KeyEnv) (kl : KeyLaws ke) (net : Network) (hn : net ∈ all)
    (s : String) (o : Obj) (h : parseElectrumPub ke s = .ok (some o)) :
    ∃ blob k t, electrumBlob s = some blob ∧ blob.length = 64 ∧ o = .electrum k ∧ k.se = none ∧ k.compressed = false ∧
      k.pub = ((beNat (blob.take 32) : Int), (beNat (blob.drop 32) : Int)) ∧ k.InRange ke ∧
      keyText env net k = .ok t ∧ parseSec ke net t = .ok (some (.key k)) :=
  parseElectrumPub_reserialises env ke kl net hn s o h

/-- ★ Electrum, wrong lengths and out-of-range contents: a payload of the wrong length, a private key 0 or ≥ n, a public
coordinate ≥ p is refused -/
theorem C18_electrum_refuses (ke : KeyEnv) (s : String) (blob : Bytes) (hb : electrumBlob s = some blob) :
    ((blob.length ≠ 32 ∨ beNat blob = 0 ∨ beNat blob ≥ ke.order) → parseElectrumPrv ke s = .ok none) ∧
    ((blob.length ≠ 64 ∨ beNat (blob.take 32) ≥ ke.p ∨ beNat (blob.drop 32) ≥ ke.p) → parseElectrumPub ke s = .ok none) :=
  ⟨parseElectrumPrv_refuses ke s blob hb, parseElectrumPub_refuses ke s blob hb⟩

/-! ## the same for the real codecs and the real curve: no hypothesis left

`realEnv` (Model/RealEnv.lean: the C11 codec models and the hash models) with `real_laws : CodecLaws realEnv`
(Proofs/RealEnv.lean), and `realKeyEnv` (Model/RealKeyEnv.lean: the C02 curve model — `raw_mul`, `points_for_x`,
`contains_point` — over the generator parameters every network shares, the HMAC-SHA512 model, the Electrum stretching
loop) with `real_key_laws : KeyLaws realKeyEnv` (Proofs/RealKeyEnv.lean: from the C02 theorems about secp256k1 —
`points_for_x` without side condition, `raw_mul(se) = se • G` reduced, `se • G ≠ ∞` for `1 ≤ se < n` by the primality of `n`).
These are the environments the C18 driver evaluates, for every network of the table. -/

/-- ★ extended keys, real codecs and curve (`C18_extkey_reserialises` with both hypotheses discharged) -/
theorem C18_extkey_reserialises_real (net : Network) (hn : net ∈ all)
    (kind : Nat) (prv : Bool) (s : String) (o : Obj) (h : hparse realEnv realKeyEnv net kind prv s = .ok (some o)) :
    ∃ data n, parseB58Hashed realEnv net s = some data ∧ data.length = 78 ∧ o = .node n ∧ n.kind = kind ∧
      n.depth ≤ 255 ∧ n.fingerprint.length = 4 ∧ n.childIndex < 2 ^ 32 ∧ n.chainCode.length = 32 ∧
      n.key.InRange realKeyEnv ∧ n.key.compressed = true ∧ (n.key.se.isSome ↔ slice data 45 46 = [0]) ∧
      (¬ MarkerMismatch data prv →
        hwif realEnv net n prv = .ok s ∧ hparse realEnv realKeyEnv net kind prv s = .ok (some (.node n))) :=
  C18_extkey_reserialises realEnv real_laws realKeyEnv real_key_laws net hn kind prv s o h

theorem C18_extkey_reserialises_bip_real (net : Network) (hn : net ∈ all) (kind : Nat) (s : String) (o : Obj)
    (h : parseBip realEnv realKeyEnv net kind s = .ok (some o)) :
    ∃ prv data n, parseB58Hashed realEnv net s = some data ∧ o = .node n ∧ n.kind = kind ∧ n.key.InRange realKeyEnv ∧
      (¬ MarkerMismatch data prv →
        hwif realEnv net n prv = .ok s ∧ parseBip realEnv realKeyEnv net kind s = .ok (some (.node n))) :=
  C18_extkey_reserialises_bip realEnv real_laws realKeyEnv real_key_laws net hn kind s o h

/-- ★ extended keys refused, real codecs and curve: exponent `0` or `≥ n` (the secp256k1 order), or a key field the strict SEC
decoder refuses -/
theorem C18_extkey_refuses_real (net : Network) (kind : Nat) (prv : Bool) (s : String) (data : Bytes)
    (hd : parseB58Hashed realEnv net s = some data)
    (h : (slice data 45 46 = [0] ∧ (beNat (data.drop 46) = 0 ∨ beNat (data.drop 46) ≥ Pycoin.Gen.Networks.genOrder)) ∨
         (slice data 45 46 ≠ [0] ∧ ∃ e, secToPublicPair realKeyEnv (data.drop 45) = .error e)) :
    hparse realEnv realKeyEnv net kind prv s = .ok none :=
  C18_extkey_refuses realEnv realKeyEnv net kind prv s data hd h

/-- ★ SEC text, real curve -/
theorem C18_sec_reserialises_real (net : Network) (hn : net ∈ all) (s : String) (o : Obj)
    (h : parseSec realKeyEnv net s = .ok (some o)) :
    ∃ sec k t, h2b (secBody net s) = some sec ∧ o = .key k ∧ k.se = none ∧ k.InRange realKeyEnv ∧
      k.compressed = decide (sec.take 1 = [2] ∨ sec.take 1 = [3]) ∧ secOf k k.compressed = .ok sec ∧
      secText net k = .ok t ∧ parseSec realKeyEnv net t = .ok (some (.key k)) :=
  C18_sec_reserialises realKeyEnv real_key_laws net hn s o h

/-- ★ SEC text refused, real curve: wrong shape; `x ≥ p` or no curve point with this `x` (`Curve.pointsForX` raises);
uncompressed with a coordinate `≥ p` or off the curve -/
theorem C18_sec_refuses_real (net : Network) (s : String) (sec : Bytes) (hs : h2b (secBody net s) = some sec) :
    (¬ ((sec.length = 65 ∧ sec.take 1 = [4]) ∨ (sec.length = 33 ∧ (sec.take 1 = [2] ∨ sec.take 1 = [3]))) →
      parseSec realKeyEnv net s = .ok none) ∧
    (∀ b xs, sec = b :: xs → xs.length = 32 →
      (beNat xs ≥ Pycoin.Gen.Networks.genP ∨ realKeyEnv.pointsForX (beNat xs : Int) = none) →
      parseSec realKeyEnv net s = .ok none) ∧
    (∀ xs ys, sec = 4 :: (xs ++ ys) → xs.length = 32 → ys.length = 32 →
      (beNat xs ≥ Pycoin.Gen.Networks.genP ∨ beNat ys ≥ Pycoin.Gen.Networks.genP ∨
        Curve.containsXY curve (beNat xs : Int) (beNat ys : Int) = false) →
      parseSec realKeyEnv net s = .ok none) :=
  C18_sec_refuses realKeyEnv net s sec hs

/-- ★ public pairs, real codecs and curve -/
theorem C18_public_pair_reserialises_real (net : Network) (hn : net ∈ all)
    (s : String) (o : Obj) (h : parsePublicPair realKeyEnv s = .ok (some o)) :
    ∃ k t, o = .key k ∧ k.se = none ∧ k.compressed = true ∧ ReducedPt realKeyEnv k.pub ∧ k.InRange realKeyEnv ∧
      keyText realEnv net k = .ok t ∧ parseSec realKeyEnv net t = .ok (some (.key k)) :=
  C18_public_pair_reserialises realEnv realKeyEnv real_key_laws net hn s o h

theorem C18_public_pair_refuses_real (s : String) :
    parsePublicPair realKeyEnv s = .ok none ∨
      ∃ k, parsePublicPair realKeyEnv s = .ok (some (.key k)) ∧ ReducedPt realKeyEnv k.pub ∧
        Curve.containsXY curve k.pub.1 k.pub.2 = true :=
  C18_public_pair_refuses realKeyEnv real_key_laws s

/-- ★ secret exponents, real codecs and curve: `1 ≤ v < n` for the secp256k1 order, public pair `v • G` -/
theorem C18_secret_exponent_reserialises_real (net : Network)
    (hn : net ∈ all) (s : String) (o : Obj) (h : parseSecretExponent realKeyEnv s = .ok (some o)) :
    ∃ v k, asNumber s = some v ∧ 1 ≤ v ∧ v < Pycoin.Gen.Networks.genOrder ∧ o = .key k ∧ k.se = some v.toNat ∧
      k.compressed = true ∧ k.InRange realKeyEnv ∧
      ∀ p, net.parseWif = some p →
        ∃ t, keyText realEnv net k = .ok t ∧ parseWif realEnv realKeyEnv net t = .ok (some (.key k)) :=
  C18_secret_exponent_reserialises realEnv real_laws realKeyEnv real_key_laws net hn s o h

theorem C18_secret_exponent_refuses_real (s : String) (v : Int) (hv : asNumber s = some v)
    (hr : v < 1 ∨ v ≥ Pycoin.Gen.Networks.genOrder) : parseSecretExponent realKeyEnv s = .ok none :=
  C18_secret_exponent_refuses realKeyEnv s v hv hr

/-- … and conversely every number in `[1, n)` IS accepted on the real curve (`se • G ≠ ∞` is on the curve: the
`contains_point` check of `Key.__init__` passes), so acceptance is exactly `1 ≤ v < n` -/
theorem C18_secret_exponent_accepts_real (s : String) (v : Int) (hv : asNumber s = some v) :
    (∃ o, parseSecretExponent realKeyEnv s = .ok (some o)) ↔ (1 ≤ v ∧ v < Pycoin.Gen.Networks.genOrder) := by
  constructor
  · rintro ⟨o, h⟩
    by_contra hr
    have := C18_secret_exponent_refuses realKeyEnv s v hv (by show v < 1 ∨ v ≥ (Pycoin.Gen.Networks.genOrder : Int); omega)
    rw [this] at h; cases h
  · rintro ⟨h1, h2⟩
    have hk := mkPrivateKey_of (ke := realKeyEnv) true h1 h2
      (real_mulG_on_curve v.toNat (by omega) (by show v.toNat < Pycoin.Gen.Networks.genOrder; omega))
    have h0 : ¬ v = 0 := by omega
    refine ⟨.key ⟨some v.toNat, realKeyEnv.mulG v.toNat, true⟩, ?_⟩
    simp only [parseSecretExponent, hv, hk, h0, if_false]

/-- ★ seeds, real codecs, curve and HMAC-SHA512 -/
theorem C18_seed_reserialises_real (net : Network)
    (hn : net ∈ all) (s : String) (o : Obj) (h : parseBip32Seed realKeyEnv s = .ok (some o)) :
    ∃ tag rest ms n, parseColonPrefix s = some (tag, rest) ∧ seedBytes tag rest = some ms ∧ o = .node n ∧
      fromMasterSecret realKeyEnv ms = .ok n ∧
      n.kind = 32 ∧ n.depth = 0 ∧ n.fingerprint = [0, 0, 0, 0] ∧ n.childIndex = 0 ∧
      n.chainCode = (Hash.hmacSha512 "Bitcoin seed".toUTF8.toList ms).drop 32 ∧
      n.key.se = some (beNat ((Hash.hmacSha512 "Bitcoin seed".toUTF8.toList ms).take 32)) ∧
      1 ≤ beNat ((Hash.hmacSha512 "Bitcoin seed".toUTF8.toList ms).take 32) ∧
      beNat ((Hash.hmacSha512 "Bitcoin seed".toUTF8.toList ms).take 32) < Pycoin.Gen.Networks.genOrder ∧
      n.key.compressed = true ∧ n.key.InRange realKeyEnv ∧
      ∀ p, net.parseBip32Prv = some p →
        ∃ t, hwif realEnv net n true = .ok t ∧ hparse realEnv realKeyEnv net 32 true t = .ok (some (.node n)) :=
  C18_seed_reserialises realEnv real_laws realKeyEnv real_key_laws net hn s o h

theorem C18_seed_refuses_real (s tag rest : String) (ms : Bytes) (hc : parseColonPrefix s = some (tag, rest))
    (hms : seedBytes tag rest = some ms)
    (h : beNat ((Hash.hmacSha512 "Bitcoin seed".toUTF8.toList ms).take 32) = 0 ∨
      beNat ((Hash.hmacSha512 "Bitcoin seed".toUTF8.toList ms).take 32) ≥ Pycoin.Gen.Networks.genOrder) :
    parseBip32Seed realKeyEnv s = .ok none :=
  C18_seed_refuses realKeyEnv s tag rest ms hc hms h

/-- ★ Electrum private forms, real codecs and curve -/
theorem C18_electrum_prv_reserialises_real (net : Network)
    (hn : net ∈ all) (s : String) (o : Obj)
    (h : parseElectrumPrv realKeyEnv s = .ok (some o) ∨ parseElectrumSeed realKeyEnv s = .ok (some o)) :
    ∃ blob k se, electrumBlob s = some blob ∧ o = .electrum k ∧ k.se = some se ∧ 1 ≤ se ∧
      se < Pycoin.Gen.Networks.genOrder ∧
      ((blob.length = 32 ∧ se = beNat blob) ∨ (blob.length = 16 ∧ se = beNat (realKeyEnv.electrumStretch (b2h blob)))) ∧
      k.compressed = false ∧ k.InRange realKeyEnv ∧
      ∀ p, net.parseWif = some p →
        ∃ t, keyText realEnv net k = .ok t ∧ parseWif realEnv realKeyEnv net t = .ok (some (.key k)) :=
  C18_electrum_prv_reserialises realEnv real_laws realKeyEnv real_key_laws net hn s o h

/-- ★ Electrum public form, real codecs and curve -/
theorem C18_electrum_pub_reserialises_real (net : Network) (hn : net ∈ all)
    (s : String) (o : Obj) (h : parseElectrumPub realKeyEnv s = .ok (some o)) :
    ∃ blob k t, electrumBlob s = some blob ∧ blob.length = 64 ∧ o = .electrum k ∧ k.se = none ∧ k.compressed = false ∧
      k.pub = ((beNat (blob.take 32) : Int), (beNat (blob.drop 32) : Int)) ∧ k.InRange realKeyEnv ∧
      keyText realEnv net k = .ok t ∧ parseSec realKeyEnv net t = .ok (some (.key k)) :=
  C18_electrum_pub_reserialises realEnv realKeyEnv real_key_laws net hn s o h

theorem C18_electrum_refuses_real (s : String) (blob : Bytes) (hb : electrumBlob s = some blob) :
    ((blob.length ≠ 32 ∨ beNat blob = 0 ∨ beNat blob ≥ Pycoin.Gen.Networks.genOrder) →
      parseElectrumPrv realKeyEnv s = .ok none) ∧
    ((blob.length ≠ 64 ∨ beNat (blob.take 32) ≥ Pycoin.Gen.Networks.genP ∨
        beNat (blob.drop 32) ≥ Pycoin.Gen.Networks.genP) → parseElectrumPub realKeyEnv s = .ok none) :=
  C18_electrum_refuses realKeyEnv s blob hb

/-- the instance is not vacuous: the laws hold of an environment in which the generator itself is a key (`1 • G = G`) -/
example : realKeyEnv.order ≤ 2 ^ 256 ∧ realKeyEnv.p ≤ 2 ^ 256 := ⟨real_key_laws.order256, real_key_laws.p256⟩

/-! ## one `parseable_str` object, several networks and entry points -/

/-- ★ the same for every one of the 35 entry points: on one shared `parseable_str` object, whatever was parsed before
and for whichever network, each call answers what it answers on a fresh string (no verdict is remembered per string
under a key that two networks could share) -/
theorem C18_parse_history_network_independent (env : Env) (ke : KeyEnv) (text : String) (steps : List (Network × String)) :
    historyRun env text (fun e (st : Network × String) => parseEntry e ke st.1 st.2 text) PsCache.empty steps =
      steps.map (fun st => parseEntry env ke st.1 st.2 text) :=
  historyRun_spec env text _ steps PsCache.empty ⟨fun _ => Or.inl rfl, Or.inl rfl⟩

/-! ## non-vacuity (evaluated in the kernel on a toy codec and curve) -/

def toyKe : KeyEnv where
  p := 23
  order := 1000
  mulG _ := (1, 1)
  pointsForX _ := none
  containsPoint _ _ := true
  hmacSha512 _ m := m
  electrumStretch _ := []

/-- non-vacuity of `C18_wif_canonical`: a compressed WIF carrying the exponent 5 is accepted on BTC -/
example : ∃ o, parseWif toyEnv toyKe net_btc (toyEnv.b58cEnc .sha256d ([128] ++ beBytes 5 32 ++ [1])) = .ok (some o) := ⟨_, rfl⟩
example : parseWif toyEnv toyKe net_btc (toyEnv.b58cEnc .sha256d ([128] ++ beBytes 0 32 ++ [1])) = .ok none := rfl
example : parseWif toyEnv toyKe net_btc (toyEnv.b58cEnc .sha256d ([128] ++ beBytes 5 32 ++ [7])) = .ok none := rfl
/-- … and on the Groestlcoin testnet (prefix `ef`, the other checksum kind); the mainnet prefix `80` is refused there -/
example : ∃ o, parseWif toyEnv toyKe net_tgrs (toyEnv.b58cEnc .groestl ([239] ++ beBytes 5 32 ++ [1])) = .ok (some o) := ⟨_, rfl⟩
example : parseWif toyEnv toyKe net_tgrs (toyEnv.b58cEnc .groestl ([128] ++ beBytes 5 32 ++ [1])) = .ok none := rfl
example : parseWif toyEnv toyKe net_tgrs (toyEnv.b58cEnc .sha256d ([239] ++ beBytes 5 32 ++ [1])) = .ok none := rfl
/-! ### non-vacuity of the re-serialisation theorems: a toy curve object satisfying `KeyLaws` -/

/-- a toy "curve": for every `x` the points `(x, 2)` (even) and `(x, 21)` (odd), field size 23, group order 1000 -/
def toyKe2 : KeyEnv where
  p := 23
  order := 1000
  mulG se := ((se % 23 : Nat), 2)
  pointsForX x := some ((x, 2), (x, 21))
  containsPoint _ y := y == 2 || y == 21
  hmacSha512 _ m := (m ++ List.replicate 64 7).take 64
  electrumStretch _ := beBytes 9 32

theorem toy_key_laws : KeyLaws toyKe2 where
  pfx_sound x e o h := by
    simp only [toyKe2, Option.some.injEq, Prod.mk.injEq] at h
    obtain ⟨rfl, rfl⟩ := h
    simp [toyKe2]
  pfx_complete x y h _ _ _ _ := by
    refine ⟨(x, 2), (x, 21), rfl, ?_⟩
    simp only [toyKe2, Bool.or_eq_true, beq_iff_eq] at h
    rcases h with rfl | rfl <;> simp
  mulG_reduced se _ _ := by
    simp only [toyKe2]
    refine ⟨by omega, ?_, by omega, by omega⟩
    have : se % 23 < 23 := Nat.mod_lt _ (by omega)
    omega
  p256 := by decide
  order256 := by decide
  hmac_len k m := by simp [toyKe2]

set_option maxRecDepth 100000

/-- an `xprv` text on BTC: private version bytes `0488ade4`, key field `00 ‖ 5` -/
def toyXprv (keyField : Bytes) : String :=
  toyEnv.b58cEnc .sha256d ([4, 136, 173, 228] ++ [3] ++ [1, 2, 3, 4] ++ [0, 0, 0, 7] ++ List.replicate 32 9 ++ keyField)

example : ∃ o, hparse toyEnv toyKe2 net_btc 32 true (toyXprv (0 :: beBytes 5 32)) = .ok (some o) := ⟨_, rfl⟩
/-- … it is not in the class of the finding, so `C18_extkey_reserialises` gives `hwif = text` -/
example : ∃ n, hwif toyEnv net_btc n true = .ok (toyXprv (0 :: beBytes 5 32)) := by
  obtain ⟨data, n, hd, -, -, -, -, -, -, -, -, -, -, h⟩ :=
    C18_extkey_reserialises toyEnv toy_laws toyKe2 toy_key_laws net_btc (by decide) 32 true (toyXprv (0 :: beBytes 5 32)) _ rfl
  have hd' : data = [4, 136, 173, 228] ++ [3] ++ [1, 2, 3, 4] ++ [0, 0, 0, 7] ++ List.replicate 32 9 ++ (0 :: beBytes 5 32) := by
    have : parseB58Hashed toyEnv net_btc (toyXprv (0 :: beBytes 5 32)) = some _ := toy_laws.b58_rt _ _ (by simp)
    rw [this] at hd; injection hd with hd; exact hd.symm
  exact ⟨n, (h (by subst hd'; unfold MarkerMismatch; decide)).1⟩
/-- exponent 0 and exponent = order are refused; so is a key field `05…` under private version bytes -/
example : hparse toyEnv toyKe2 net_btc 32 true (toyXprv (0 :: beBytes 0 32)) = .ok none := rfl
example : hparse toyEnv toyKe2 net_btc 32 true (toyXprv (0 :: beBytes 1000 32)) = .ok none := rfl
example : hparse toyEnv toyKe2 net_btc 32 true (toyXprv (5 :: beBytes 5 32)) = .ok none := rfl
/-- the class of the open finding is inhabited: private version bytes, public key field `02 ‖ x`: accepted by `bip32_prv`, and the node
has no private text at all -/
example : ∃ n, hparse toyEnv toyKe2 net_btc 32 true (toyXprv (2 :: beBytes 5 32)) = .ok (some (.node n)) ∧
    hwif toyEnv net_btc n true = .error .valueError :=
  ⟨_, rfl, rfl⟩
/-- SEC text with and without the prefix, public pair, secret exponent, seed, Electrum: accepted on the toy curve -/
example : ∃ o, parseSec toyKe2 net_btc ("BTCSEC:" ++ b2h (3 :: beBytes 5 32)) = .ok (some o) := ⟨_, rfl⟩
example : ∃ o, parseSec toyKe2 net_btc (b2h (4 :: (beBytes 5 32 ++ beBytes 21 32))) = .ok (some o) := ⟨_, rfl⟩
example : parseSec toyKe2 net_btc (b2h (4 :: (beBytes 23 32 ++ beBytes 21 32))) = .ok none := rfl
example : parseSec toyKe2 net_btc (b2h (3 :: beBytes 23 32)) = .ok none := rfl
example : ∃ o, parsePublicPair toyKe2 "5/odd" = .ok (some o) := ⟨_, rfl⟩
example : ∃ o, parsePublicPair toyKe2 "5/21" = .ok (some o) := ⟨_, rfl⟩
example : parsePublicPair toyKe2 "23/21" = .ok none := rfl
example : parsePublicPair toyKe2 "5/44" = .ok none := rfl
example : ∃ o, parseSecretExponent toyKe2 "999" = .ok (some o) := ⟨_, rfl⟩
example : parseSecretExponent toyKe2 "1000" = .ok none := rfl
example : parseSecretExponent toyKe2 "0" = .ok none := rfl
example : ∃ o, parseBip32Seed toyKe2 ("H:" ++ b2h (beBytes 77 32)) = .ok (some o) := ⟨_, rfl⟩
example : parseBip32Seed toyKe2 ("H:" ++ b2h (beBytes 0 32)) = .ok none := rfl
example : ∃ o, parseElectrumPrv toyKe2 ("E:" ++ b2h (beBytes 5 32)) = .ok (some o) := ⟨_, rfl⟩
example : ∃ o, parseElectrumPub toyKe2 ("E:" ++ b2h (beBytes 5 32 ++ beBytes 21 32)) = .ok (some o) := ⟨_, rfl⟩
example : parseElectrumPub toyKe2 ("E:" ++ b2h (beBytes (5 + 23) 32 ++ beBytes 21 32)) = .ok none := rfl
end Pycoin.Addr
