import Pycoin.Model.Value
import Pycoin.Model.TxBuild
import Pycoin.Props.C07
/-!
C13 — Transaction construction conserves value to the satoshi.
Property theorems only (core Lean, no Mathlib).
-/
namespace Pycoin.Value

/-! ## split pool -/

theorem sum_replicate (n v : Nat) : (List.replicate n v).sum = n * v := by
  induction n with
  | zero => simp
  | succ n ih => simp [List.replicate_succ, ih, Nat.succ_mul, Nat.add_comm]

/-- C13.split_sum: the shares add up to the pool exactly -/
theorem C13_split_sum (total count : Nat) (hc : 0 < count) :
    (splitWithRemainder total count).sum = total := by
  unfold splitWithRemainder
  rw [List.sum_append, sum_replicate, sum_replicate]
  have h1 := Nat.div_add_mod total count
  have h2 : total % count < count := Nat.mod_lt _ hc
  have h3 : (count - total % count) * (total / count) = count * (total / count) - total % count * (total / count) :=
    Nat.sub_mul _ _ _
  have h4 : total % count * (total / count) ≤ count * (total / count) :=
    Nat.mul_le_mul_right _ (Nat.le_of_lt h2)
  rw [h3, Nat.mul_add]
  omega

/-- C13.split_shape: `count` shares, each `q` or `q+1`, the first `total % count` get the extra satoshi -/
theorem C13_split_shape (total count : Nat) (hc : 0 < count) :
    (splitWithRemainder total count).length = count ∧
    ∀ i, i < count → (splitWithRemainder total count)[i]? =
      some (if i < total % count then total / count + 1 else total / count) := by
  have h2 : total % count < count := Nat.mod_lt _ hc
  refine ⟨by simp [splitWithRemainder]; omega, ?_⟩
  intro i hi
  unfold splitWithRemainder
  by_cases h : i < total % count
  · simp [List.getElem?_append_left, h]
  · rw [List.getElem?_append_right (by simp; omega)]
    simp only [List.length_replicate, h, if_false]
    rw [List.getElem?_replicate]
    have : i - total % count < count - total % count := by omega
    simp [this]

/-- shares differ by at most one and earlier ones are never smaller -/
theorem C13_split_sorted (total count : Nat) (hc : 0 < count) (i j : Nat) (hij : i ≤ j) (hj : j < count) :
    ∃ a b, (splitWithRemainder total count)[i]? = some a ∧ (splitWithRemainder total count)[j]? = some b ∧
      b ≤ a ∧ a ≤ b + 1 := by
  have hs := (C13_split_shape total count hc).2
  refine ⟨_, _, hs i (by omega), hs j hj, ?_, ?_⟩ <;> (split <;> split <;> omega)

/-- every share is positive when the pool covers the count -/
theorem C13_split_positive (total count : Nat) (hc : 0 < count) (h : count ≤ total) :
    ∀ v ∈ splitWithRemainder total count, 0 < v := by
  intro v hv
  have hq : 0 < total / count := Nat.div_pos h hc
  simp only [splitWithRemainder, List.mem_append, List.mem_replicate] at hv
  omega

/-! ## distribute_from_split_pool -/

theorem fill_sum (outs : List Int) (vs : List Nat) (h : zeroCount outs = vs.length) :
    (fill outs vs).sum = outs.sum + ((vs.map (fun v : Nat => (v : Int))).sum) := by
  induction outs generalizing vs with
  | nil => cases vs <;> simp_all [fill, zeroCount]
  | cons o os ih =>
    cases vs with
    | nil => simp [fill]
    | cons v vs =>
      by_cases ho : o = 0
      · subst ho
        have : zeroCount os = vs.length := by simpa [zeroCount] using h
        simp [fill, ih vs this]
        omega
      · have : zeroCount os = (v :: vs).length := by simpa [zeroCount, ho] using h
        simp [fill, ho, ih (v :: vs) this]
        omega

theorem sum_map_cast (vs : List Nat) : ((vs.map (fun v : Nat => (v : Int))).sum) = ((vs.sum : Nat) : Int) := by
  induction vs with
  | nil => rfl
  | cons v vs ih => simp [ih]

/-- C13.distribute_conserves: when a split pool exists and the call returns, outputs + fee = inputs exactly -/
theorem C13_distribute_conserves (ins outs : List Int) (f : Int) (res : List Int)
    (hz : zeroCount outs ≠ 0) (h : distribute ins outs f = .ok res) :
    res.sum + f = ins.sum := by
  unfold distribute at h
  simp only [hz, if_false] at h
  split at h
  · cases h
  · split at h
    · cases h
    · rename_i h1 h2
      injection h with h
      subst h
      have hlen : zeroCount outs = (splitWithRemainder (ins.sum - (outs.sum + f)).toNat (zeroCount outs)).length :=
        (C13_split_shape _ _ (Nat.pos_of_ne_zero hz)).1.symm
      rw [fill_sum _ _ hlen, sum_map_cast, C13_split_sum _ _ (Nat.pos_of_ne_zero hz)]
      omega

/-- the reported fee is what was requested -/
theorem C13_fee_def (ins outs : List Int) (f : Int) (res : List Int)
    (hz : zeroCount outs ≠ 0) (h : distribute ins outs f = .ok res) :
    fee ins res = f := by
  have := C13_distribute_conserves ins outs f res hz h
  unfold fee; omega

/-- C13.distribute_errors: the two `ValueError`s are raised exactly at their thresholds -/
theorem C13_distribute_errors (ins outs : List Int) (f : Int) (hz : zeroCount outs ≠ 0) :
    (distribute ins outs f = .error .insufficient ↔ ins.sum - (outs.sum + f) < 0) ∧
    (distribute ins outs f = .error .notEnough ↔
      0 ≤ ins.sum - (outs.sum + f) ∧ ins.sum - (outs.sum + f) < (zeroCount outs : Int)) := by
  unfold distribute
  simp only [hz, if_false]
  constructor
  · constructor
    · intro h; split at h
      · assumption
      · split at h <;> cases h
    · intro h; simp [h]
  · constructor
    · intro h; split at h
      · cases h
      · split at h
        · omega
        · cases h
    · intro ⟨h1, h2⟩
      have : ¬ (ins.sum - (outs.sum + f) < 0) := by omega
      simp [this, h2]

/-- no split pool: the outputs are returned untouched -/
theorem C13_distribute_nopool (ins outs : List Int) (f : Int) (hz : zeroCount outs = 0) :
    distribute ins outs f = .ok outs := by
  simp [distribute, hz]

theorem fill_mem (outs : List Int) (vs : List Nat) (x : Int) (hx : x ∈ fill outs vs) :
    x ∈ outs ∧ x ≠ 0 ∨ (∃ v ∈ vs, x = (v : Int)) ∨ (x = 0 ∧ vs.length < zeroCount outs) := by
  induction outs generalizing vs with
  | nil => simp [fill] at hx
  | cons o os ih =>
    cases vs with
    | nil =>
      simp only [fill] at hx
      by_cases hx0 : x = 0
      · right; right
        refine ⟨hx0, ?_⟩
        subst hx0
        simp only [List.length_nil, zeroCount]
        exact List.length_pos_of_mem (List.mem_filter.mpr ⟨hx, by simp⟩)
      · left; exact ⟨hx, hx0⟩
    | cons v vs =>
      by_cases ho : o = 0
      · simp only [fill, ho, if_true, List.mem_cons] at hx
        rcases hx with hx | hx
        · right; left; exact ⟨v, by simp, hx⟩
        · rcases ih vs hx with h | ⟨w, hw, h⟩ | ⟨h0, hl⟩
          · left; exact ⟨by simp [h.1], h.2⟩
          · right; left; exact ⟨w, by simp [hw], h⟩
          · right; right; refine ⟨h0, ?_⟩; simp [zeroCount, ho] at hl ⊢; simpa [zeroCount] using hl
      · simp only [fill, ho, if_false, List.mem_cons] at hx
        rcases hx with hx | hx
        · left; subst hx; exact ⟨by simp, ho⟩
        · rcases ih (v :: vs) hx with h | ⟨w, hw, h⟩ | ⟨h0, hl⟩
          · left; exact ⟨by simp [h.1], h.2⟩
          · right; left; exact ⟨w, hw, h⟩
          · right; right; refine ⟨h0, ?_⟩; simpa [zeroCount, ho] using hl

/-- C13.distribute_positive: after a successful call with a split pool no zero-valued output is left
(every unspecified output received a positive share; fixed outputs keep their value) -/
theorem C13_distribute_positive (ins outs : List Int) (f : Int) (res : List Int)
    (hz : zeroCount outs ≠ 0) (h : distribute ins outs f = .ok res) :
    ∀ x ∈ res, x ≠ 0 := by
  unfold distribute at h
  simp only [hz, if_false] at h
  split at h
  · cases h
  · split at h
    · cases h
    · rename_i h1 h2
      injection h with h
      subst h
      intro x hx
      have hpos := Nat.pos_of_ne_zero hz
      rcases fill_mem _ _ _ hx with h | ⟨v, hv, h⟩ | ⟨_, hl⟩
      · exact h.2
      · have := C13_split_positive _ _ hpos (by omega) v hv
        omega
      · have := (C13_split_shape (ins.sum - (outs.sum + f)).toNat (zeroCount outs) hpos).1
        omega

/-! ## validate_unspents: a normal return certifies every recorded amount and script -/

/-- C13.validate_unspents_sound -/
theorem C13_validate_unspents_sound (db : Bytes → Option (List Out)) (ins : List In) (us : List Out)
    (h : validateUnspents db ins us = .ok ()) :
    ∀ (k : Nat) (i : In), ins[k]? = some i → i.prevHash ≠ zero32 →
      ∃ (outs : List Out) (o : Out), db i.prevHash = some outs ∧ outs[i.prevIndex]? = some o ∧ us[k]? = some o := by
  induction ins generalizing us with
  | nil => intro k i hk; simp at hk
  | cons a as ih =>
    intro k i hk hnz
    unfold validateUnspents at h
    by_cases ha : a.prevHash = zero32
    · simp only [ha, if_true] at h
      cases k with
      | zero => simp at hk; subst hk; exact absurd ha hnz
      | succ k =>
        obtain ⟨outs, o, h1, h2, h3⟩ := ih us.tail h k i (by simpa using hk) hnz
        exact ⟨outs, o, h1, h2, by cases us <;> simp_all⟩
    · simp only [ha, if_false] at h
      split at h
      · cases h
      · rename_i outs hdb
        split at h
        · cases h
        · split at h
          · cases h
          · cases h
          · rename_i o1 o2 ho1 ho2
            split at h
            · cases h
            · split at h
              · cases h
              · rename_i hv hs
                have heq : o1 = o2 := by
                  cases o1; cases o2; simp_all
                cases k with
                | zero =>
                  simp at hk; subst hk
                  refine ⟨outs, o1, hdb, ho1, ?_⟩
                  cases us <;> simp_all
                | succ k =>
                  obtain ⟨outs', o, h1, h2, h3⟩ := ih us.tail h k i (by simpa using hk) hnz
                  exact ⟨outs', o, h1, h2, by cases us <;> simp_all⟩

/-- C13.pairing: input `i` spends exactly the outpoint of spendable `i`, and `unspents[i]` is spendable `i` -/
theorem C13_pairing (sp : List Spendable) (i : Nat) (s : Spendable) (h : sp[i]? = some s) :
    (createTxPairing sp).1[i]? = some ⟨s.txHash, s.txOutIndex⟩ ∧ (createTxPairing sp).2[i]? = some s ∧
    (createTxPairing sp).1.length = sp.length := by
  simp [createTxPairing, h, Spendable.txIn]

/-- C13.fee_history: after ANY history of reads and mutations on one transaction object, the next `fee()` is
inputs minus outputs of the fields as they are at that moment (what a fresh object with those fields reports) -/
theorem C13_fee_history (st : TxVals) (hist : List TxStep) :
    txRun st (hist ++ [.fee]) =
      txRun st hist ++ [some ((txAfter st hist).unspents.sum - (txAfter st hist).outs.sum)] := by
  induction hist generalizing st with
  | nil => simp [txRun, txStep, txAfter, fee]
  | cons s ss ih =>
    simp only [List.cons_append, txRun, txAfter, List.foldl_cons]
    rw [ih]
    rfl

/-! ## conversions -/

theorem numDigits_le {n k : Nat} (h : n < 10 ^ k) (hk : 0 < k) : numDigits n ≤ k := by
  induction k generalizing n with
  | zero => omega
  | succ k ih =>
    unfold numDigits
    split
    · omega
    · rename_i hn
      have hk' : 0 < k := by
        rcases Nat.eq_zero_or_pos k with h0 | h0
        · subst h0; simp at h; omega
        · exact h0
      have : n / 10 < 10 ^ k := by
        rw [Nat.pow_succ] at h
        omega
      have := ih this hk'
      omega

theorem roundNat_small {c : Nat} (h : c < 10 ^ 28) : roundNat c 28 = (c, 0) := by
  unfold roundNat
  simp [numDigits_le h (by decide)]

/-- C13.btc_rt: satoshi → BTC decimal → satoshi is the identity for every amount below 10^20 satoshi -/
theorem C13_btc_rt (n : Nat) (h : n < 10 ^ 20) : btcToSatoshi (satoshiToBtc (n : Int)) = n := by
  unfold satoshiToBtc
  by_cases h0 : n = 0
  · subst h0; simp [btcToSatoshi, Dec.mul, Dec.round, roundNat, numDigits, Dec.toInt, satoshiPerCoin]
  · have hn : ¬ ((n : Int) = 0) := by omega
    have h1 : n * 1 < 10 ^ 28 := by
      have : (10:Nat) ^ 20 ≤ 10 ^ 28 := by decide
      omega
    have h2 : n * 100000000 < 10 ^ 28 := by
      have : (10:Nat)^28 = 10^20 * 100000000 := by decide
      omega
    have hneg : ¬ ((n : Int) * 1 < 0) := by omega
    have hneg2 : ¬ ((n : Int) * 100000000 < 0) := by omega
    simp only [hn, if_false, Dec.mul, coinPerSatoshi, Dec.round, Int.natAbs_mul, Int.natAbs_natCast,
      Int.natAbs_one, roundNat_small h1, hneg, btcToSatoshi, satoshiPerCoin, Dec.quantize]
    simp [roundNat_small h2, Dec.toInt, hneg2]

theorem C13_mbtc_rt (n : Nat) (h : n < 10 ^ 20) : mbtcToSatoshi (satoshiToMbtc (n : Int)) = n := by
  unfold satoshiToMbtc
  by_cases h0 : n = 0
  · subst h0; simp [mbtcToSatoshi, Dec.mul, Dec.round, roundNat, numDigits, Dec.toInt]
  · have hn : ¬ ((n : Int) = 0) := by omega
    have h1 : n * 1 < 10 ^ 28 := by
      have : (10:Nat) ^ 20 ≤ 10 ^ 28 := by decide
      omega
    have h2 : n * 100000 < 10 ^ 28 := by
      have : (10:Nat)^28 = 10^20 * 100000000 := by decide
      omega
    have hneg : ¬ ((n : Int) * 1 < 0) := by omega
    have hneg2 : ¬ ((n : Int) * 100000 < 0) := by omega
    simp only [hn, if_false, Dec.mul, Dec.round, Int.natAbs_mul, Int.natAbs_natCast,
      Int.natAbs_one, roundNat_small h1, hneg, mbtcToSatoshi, Dec.quantize]
    simp [roundNat_small h2, Dec.toInt, hneg2]

/-! ## non-vacuity (evaluated; the driver prints the same values) -/
#guard distribute [100, 50] [0, 30, 0, 0] 10 matches .ok [37, 30, 37, 36]
#guard distribute [10] [0, 30] 0 matches .error .insufficient
#guard distribute [31] [0, 30, 0] 0 matches .error .notEnough
#guard btcToSatoshi (satoshiToBtc 2100000000000000) = 2100000000000000

end Pycoin.Value

/-! # second part: recommended fee, create_tx as a whole, value accessors with coinbase / missing unspents -/
namespace Pycoin.Build
open Pycoin Pycoin.Wire

/-! ## recommended_fee_for_tx -/

/-- C13.recommended_fee_exact: the estimate is the per-thousand-bytes rate times the number of started thousands
of bytes: the least `k` with `size ≤ 1000·k` -/
theorem C13_recommended_fee_exact (n : Nat) :
    ∃ k, recommendedFeeForSize n = Gen.TxFee.txFeePerThousandBytes * k ∧ n ≤ 1000 * k ∧ 1000 * k < n + 1000 := by
  refine ⟨(999 + n) / 1000, rfl, ?_, ?_⟩ <;> omega

/-- C13.recommended_fee_mono: a larger transaction is never estimated cheaper -/
theorem C13_recommended_fee_mono (m n : Nat) (h : m ≤ n) : recommendedFeeForSize m ≤ recommendedFeeForSize n := by
  unfold recommendedFeeForSize
  apply Nat.mul_le_mul_left
  omega

/-- C13.recommended_fee_step: sizes within the same started thousand cost the same; the next thousand costs one rate more -/
theorem C13_recommended_fee_step (n : Nat) :
    recommendedFeeForSize (n + 1000) = recommendedFeeForSize n + Gen.TxFee.txFeePerThousandBytes := by
  unfold recommendedFeeForSize
  have : (999 + (n + 1000)) / 1000 = (999 + n) / 1000 + 1 := by omega
  rw [this, Nat.mul_add, Nat.mul_one]

#guard recommendedFeeForSize 0 = 0
#guard recommendedFeeForSize 1 = Gen.TxFee.txFeePerThousandBytes
#guard recommendedFeeForSize 1000 = Gen.TxFee.txFeePerThousandBytes
#guard recommendedFeeForSize 1001 = 2 * Gen.TxFee.txFeePerThousandBytes

/-! ## create_tx -/

theorem setValues_values : ∀ (os : List TxOut) (vs : List Int), vs.length = os.length →
    (setValues os vs).map (·.value) = vs
  | [], [], _ => rfl
  | [], _ :: _, h => by simp at h
  | _ :: _, [], h => by simp at h
  | o :: os, v :: vs, h => by
    simp only [setValues, List.map_cons]
    rw [setValues_values os vs (by simpa using h)]

theorem fill_length : ∀ (outs : List Int) (vs : List Nat), (Value.fill outs vs).length = outs.length
  | [], _ => rfl
  | _ :: _, [] => rfl
  | o :: os, v :: vs => by
    unfold Value.fill
    split <;> simp [fill_length os]

theorem distribute_length (ins outs : List Int) (f : Int) (res : List Int)
    (h : Value.distribute ins outs f = .ok res) : res.length = outs.length := by
  unfold Value.distribute at h
  split at h
  · cases h; rfl
  · simp only at h
    split at h
    · cases h
    · split at h
      · cases h
      · cases h; exact fill_length _ _

/-- the parts `create_tx` is made of, read back from a successful result -/
theorem createTx_ok {sp : List SpForm} {pay : List Payable} {fee : Option Int} {lt v : Int} {b : Built}
    (h : createTx sp pay fee lt v = .ok b) :
    ∃ (sps : List Spendable) (f : Int) (vals : List Int),
      mapFix sp = .ok sps ∧ feeUsed (draftTx sps pay v lt) fee = .ok f ∧
      Value.distribute (sps.map (·.coinValue)) (pay.map (·.value)) f = .ok vals ∧
      b.unspents = sps ∧ b.tx.ins = sps.map txInOf ∧ b.tx.outs.map (·.value) = vals ∧
      b.tx.version = v ∧ b.tx.lockTime = lt := by
  unfold createTx at h
  split at h
  · cases h
  · rename_i sps hs
    simp only at h
    split at h
    · cases h
    · rename_i f hf
      split at h
      · cases h
      · cases h
      · rename_i vals hv
        cases h
        refine ⟨sps, f, vals, hs, hf, hv, rfl, rfl, ?_, rfl, rfl⟩
        simp only [draftTx]
        apply setValues_values
        rw [distribute_length _ _ _ _ hv]
        simp

/-- C13.create_tx_conserves: whenever some output is left unspecified, the outputs of the transaction `create_tx`
returns plus the fee set aside — the integer asked for, or with `fee="standard"` the estimate for the draft
transaction — sum exactly to the values of the spendables; and `tx.fee()` reports exactly that fee -/
theorem C13_create_tx_conserves (sp : List SpForm) (pay : List Payable) (fee : Option Int) (lt v : Int) (b : Built)
    (h : createTx sp pay fee lt v = .ok b) (hz : Value.zeroCount (pay.map (·.value)) ≠ 0) :
    ∃ f : Int, feeUsed (draftTx b.unspents pay v lt) fee = .ok f ∧
      (b.tx.outs.map (·.value)).sum + f = (b.unspents.map (·.coinValue)).sum ∧
      Value.fee (b.unspents.map (·.coinValue)) (b.tx.outs.map (·.value)) = f := by
  obtain ⟨sps, f, vals, _, hf, hv, hu, _, ho, _, _⟩ := createTx_ok h
  refine ⟨f, by rw [hu]; exact hf, ?_, ?_⟩
  · rw [hu, ho]; exact Value.C13_distribute_conserves _ _ _ _ hz hv
  · rw [hu, ho]; exact Value.C13_fee_def _ _ _ _ hz hv

/-- C13.create_tx_pairing: input `i` of the transaction spends the outpoint of spendable `i`, with an empty script,
and `unspents[i]` is that spendable; nothing is added or dropped -/
theorem C13_create_tx_pairing (sp : List SpForm) (pay : List Payable) (fee : Option Int) (lt v : Int) (b : Built)
    (h : createTx sp pay fee lt v = .ok b) :
    b.tx.ins.length = b.unspents.length ∧ mapFix sp = .ok b.unspents ∧
    ∀ (i : Nat) (s : Spendable), b.unspents[i]? = some s →
      b.tx.ins[i]? = some ⟨s.txHash, s.txOutIndex, [], 4294967295, []⟩ := by
  obtain ⟨sps, f, vals, hm, _, _, hu, hi, _, _, _⟩ := createTx_ok h
  refine ⟨by rw [hi, hu]; simp, by rw [hu]; exact hm, ?_⟩
  intro i s hs
  rw [hi, ← hu]
  simp [hs, txInOf]

/-- C13.create_tx_errors: with a pool, `create_tx` raises exactly when what is left after the fixed outputs and the
fee is less than one satoshi per unspecified output (the spendables being readable and the draft streamable) -/
theorem C13_create_tx_errors (sps : List Spendable) (pay : List Payable) (f : Int)
    (hz : Value.zeroCount (pay.map (·.value)) ≠ 0) :
    (∃ b, createTx (sps.map SpForm.obj) pay (some f) = .ok b) ↔
      (Value.zeroCount (pay.map (·.value)) : Int) ≤ (sps.map (·.coinValue)).sum - ((pay.map (·.value)).sum + f) := by
  have hm : ∀ l : List Spendable, mapFix (l.map SpForm.obj) = .ok l := by
    intro l; induction l with
    | nil => rfl
    | cons a as ih => simp [mapFix, fixSpendable, ih]
  have hd := Value.C13_distribute_errors (sps.map (·.coinValue)) (pay.map (·.value)) f hz
  unfold createTx
  simp only [hm, feeUsed]
  cases hv : Value.distribute (sps.map (·.coinValue)) (pay.map (·.value)) f with
  | ok vals =>
    refine ⟨fun _ => ?_, fun _ => ⟨_, rfl⟩⟩
    have h1 : ¬ ((sps.map (·.coinValue)).sum - ((pay.map (·.value)).sum + f) < 0) := by
      intro hlt; have := hd.1.2 hlt; rw [hv] at this; cases this
    have h2 : ¬ (0 ≤ (sps.map (·.coinValue)).sum - ((pay.map (·.value)).sum + f) ∧
        (sps.map (·.coinValue)).sum - ((pay.map (·.value)).sum + f) < (Value.zeroCount (pay.map (·.value)) : Int)) := by
      intro hlt; have := hd.2.2 hlt; rw [hv] at this; cases this
    omega
  | error e =>
    cases e with
    | insufficient =>
      have := hd.1.1 hv
      constructor
      · rintro ⟨b, hb⟩; cases hb
      · intro hle; have : (0 : Int) ≤ (Value.zeroCount (pay.map (·.value)) : Int) := Int.natCast_nonneg _; omega
    | notEnough =>
      have := hd.2.1 hv
      constructor
      · rintro ⟨b, hb⟩; cases hb
      · intro hle; omega

/-- the shape a spendable is handed over in: 0 the object, 1 its `as_text()`, anything else its `as_dict()` -/
def formOf (k : Nat) (s : Spendable) : SpForm :=
  if k = 0 then .obj s else if k = 1 then .text s.asText else .dict s.asDict

/-- C13.create_tx_form_independent: spendables handed over as `as_text()` or `as_dict()`, in any mixture, build the
same transaction as the objects themselves (spent flag 0 or 1, which is what a `bool` stores) -/
theorem C13_create_tx_form_independent (l : List (Spendable × Nat))
    (hd : ∀ p ∈ l, p.1.doesSeemSpent = 0 ∨ p.1.doesSeemSpent = 1)
    (pay : List Payable) (fee : Option Int) (lt v : Int) :
    createTx (l.map fun p => formOf p.2 p.1) pay fee lt v = createTx (l.map fun p => SpForm.obj p.1) pay fee lt v := by
  have h1 : mapFix (l.map fun p => formOf p.2 p.1) = .ok (l.map (·.1)) := by
    induction l with
    | nil => rfl
    | cons a as ih =>
      have ha : fixSpendable (formOf a.2 a.1) = .ok a.1 := by
        unfold formOf
        split
        · rfl
        · split
          · exact C07_spendable_text_rt a.1 (hd a (by simp))
          · exact C07_spendable_dict_rt a.1
      simp only [List.map_cons, mapFix, ha, ih (fun p hp => hd p (by simp [hp]))]
  have h2 : mapFix (l.map fun p => SpForm.obj p.1) = .ok (l.map (·.1)) := by
    clear hd h1
    induction l with
    | nil => rfl
    | cons a as ih => simp [mapFix, fixSpendable, ih]
  unfold createTx
  rw [h1, h2]

/-- C13.create_signed_tx: a transaction comes back only when `create_tx` succeeds with the same result and every
input's key was supplied -/
theorem C13_create_signed_tx (sp : List SpForm) (pay : List Payable) (fee : Option Int) (needed supplied : List Nat) (b : Built)
    (h : createSignedTx sp pay fee needed supplied = .ok b) :
    createTx sp pay fee = .ok b ∧ ∀ k ∈ needed, k ∈ supplied := by
  unfold createSignedTx at h
  split at h
  · cases h
  · rename_i b' hb
    split at h
    · cases h
      rename_i hall
      refine ⟨hb, ?_⟩
      intro k hk
      have := List.all_eq_true.mp hall k hk
      simpa using this
    · cases h

/-! ## total_in / fee with coinbase inputs and missing unspents; histories on one object -/

/-- C13.total_in_complete: for a transaction that is not a coinbase, `total_in()` returns normally only when there
is one recorded unspent per input and none is `None`; the answer is their sum -/
theorem C13_total_in_complete (st : TxSt) (v : Int) (hcb : st.isCoinbase = false) (h : st.totalIn = .ok v) :
    st.unspents.length = st.cb.length ∧ (∀ i, i < st.cb.length → ∃ x, st.unspents[i]? = some (some x)) ∧
    v = (st.unspents.filterMap id).sum := by
  unfold TxSt.totalIn at h
  simp only [hcb, Bool.false_eq_true, if_false] at h
  split at h
  · cases h
  · rename_i hm
    cases h
    unfold TxSt.missingUnspents at hm
    simp only [hcb, Bool.false_eq_true, if_false, Bool.or_eq_true, not_or, bne_iff_ne, ne_eq, Decidable.not_not,
      List.any_eq_true, not_exists, not_and] at hm
    refine ⟨hm.1, ?_, rfl⟩
    intro i hi
    have := hm.2 i (List.mem_range.mpr hi)
    unfold TxSt.missingUnspent at this
    simp only [hcb, Bool.false_eq_true, if_false] at this
    split at this
    · simp at this
    · split at this
      · rename_i x hx; exact ⟨x, hx⟩
      · simp at this

/-- C13.fee_is_in_minus_out: whenever `fee()` returns, it is `total_in() − total_out()` -/
theorem C13_fee_is_in_minus_out (st : TxSt) (f : Int) (h : st.fee = .ok f) :
    ∃ tin, st.totalIn = .ok tin ∧ f = tin - st.outs.sum := by
  unfold TxSt.fee at h
  split at h
  · rename_i v hv; cases h; exact ⟨v, hv, rfl⟩
  · cases h

/-- C13.value_history: after ANY history of reads and mutations (set_unspents, direct assignment,
unspents_from_db with or without ignore_missing, output changes — failed ones included) on one transaction
object, `fee()`, `total_in()` and `total_out()` answer what the stateless functions give on the fields as they are
at that moment: nothing is remembered from earlier calls -/
theorem C13_value_history (st : TxSt) (hist : List HStep) :
    hRun st (hist ++ [.fee, .totalIn, .totalOut]) =
      hRun st hist ++ [.ofExcept (hAfter st hist).fee, .ofExcept (hAfter st hist).totalIn, .val (hAfter st hist).totalOut] := by
  induction hist generalizing st with
  | nil => simp [hRun, hStep, hAfter]
  | cons s ss ih =>
    simp only [List.cons_append, hRun, hAfter, List.foldl_cons]
    rw [ih]
    rfl

/-- C13.from_db_shape: `unspents_from_db` records one entry per input, `None` exactly for coinbase inputs and (when
allowed) for inputs the db does not have -/
theorem C13_from_db_shape (ign : Bool) : ∀ (cb : List Bool) (found us : List (Option Int)),
    fromDbList ign cb found = .ok us → us.length = cb.length
  | [], _, us, h => by cases h; rfl
  | c :: cs, found, us, h => by
    unfold fromDbList at h
    simp only at h
    split at h
    · cases h
    · split at h
      · cases h
      · rename_i xs hxs
        cases h
        simp [C13_from_db_shape ign cs found.tail xs hxs]

#guard (TxSt.mk [false, false] [some 5, none] [3]).totalIn matches .error .valueError
#guard (TxSt.mk [false, false] [some 5] [3]).totalIn matches .error .valueError
#guard (TxSt.mk [true] [] [50, 1]).fee matches .ok (-1)
#guard (TxSt.mk [false, true] [some 5, some 7] [3]).fee matches .ok 9
#guard fromDbList false [false, true] [some 4, some 9] matches .ok [some 4, none]
#guard fromDbList false [false] [none] matches .error .keyError
#guard fromDbList true [false] [none] matches .ok [none]

/-! ## validate_unspents with a database that may answer with another transaction -/

/-- C13.validate_unspents_full_sound: `validate_unspents` returns normally only if, for every input that is not
the null hash, the database holds a transaction *whose own hash is the one the input names*, and the recorded
unspent equals (amount and script) the output of that transaction the input points at -/
theorem C13_validate_unspents_full_sound (db : Bytes → Option SrcTx) (ins : List Value.In) (us : List Value.Out)
    (h : validateUnspentsFull db ins us = .ok ()) :
    ∀ (k : Nat) (i : Value.In), ins[k]? = some i → i.prevHash ≠ Value.zero32 →
      ∃ (t : SrcTx) (o : Value.Out), db i.prevHash = some t ∧ t.hash = i.prevHash ∧
        t.outs[i.prevIndex]? = some o ∧ us[k]? = some o := by
  intro k i hk hnz
  unfold validateUnspentsFull at h
  split at h
  · cases h
  · rename_i hany
    obtain ⟨outs, o, h1, h2, h3⟩ := Value.C13_validate_unspents_sound _ ins us h k i hk hnz
    have hmem : i ∈ ins := List.mem_of_getElem? hk
    have hl : lookupFails db i = false := by
      cases hlf : lookupFails db i
      · rfl
      · exact absurd (List.any_eq_true.mpr ⟨i, hmem, hlf⟩) hany
    cases hdb : db i.prevHash with
    | none => simp [hdb] at h1
    | some t =>
      simp only [hdb, Option.map_some, Option.some.injEq] at h1
      refine ⟨t, o, rfl, ?_, by rw [h1]; exact h2, h3⟩
      unfold lookupFails at hl
      simp only [hdb, Bool.and_eq_false_imp, bne_iff_ne, ne_eq] at hl
      have := hl hnz
      simpa using this

#guard validateUnspentsFull (fun _ => some ⟨[9], [⟨5, []⟩]⟩) [⟨[7], 0⟩] [⟨5, []⟩] matches .error .keyError
#guard validateUnspentsFull (fun _ => some ⟨[7], [⟨5, []⟩]⟩) [⟨[7], 0⟩] [⟨5, []⟩] matches .ok ()

end Pycoin.Build
