import Pycoin.Model.Value
/-!
C13 — Transaction construction conserves value to the satoshi.
Property theorems only (core Lean, no Mathlib).
-/
namespace Pycoin.Value

/-! ## split pool -/

theorem sum_replicate (n v : Nat) : (List.replicate n v).sum = n * v := by
  induction n with
  | zero => simp
  | succ n ih => simp [List.replicate_succ, ih, Nat.succ_mul, Nat.add_comm]

/-- C13.split_sum: the shares add up to the pool exactly -/
theorem C13_split_sum (total count : Nat) (hc : 0 < count) :
    (splitWithRemainder total count).sum = total := by
  unfold splitWithRemainder
  rw [List.sum_append, sum_replicate, sum_replicate]
  have h1 := Nat.div_add_mod total count
  have h2 : total % count < count := Nat.mod_lt _ hc
  have h3 : (count - total % count) * (total / count) = count * (total / count) - total % count * (total / count) :=
    Nat.sub_mul _ _ _
  have h4 : total % count * (total / count) ≤ count * (total / count) :=
    Nat.mul_le_mul_right _ (Nat.le_of_lt h2)
  rw [h3, Nat.mul_add]
  omega

/-- C13.split_shape: `count` shares, each `q` or `q+1`, the first `total % count` get the extra satoshi -/
theorem C13_split_shape (total count : Nat) (hc : 0 < count) :
    (splitWithRemainder total count).length = count ∧
    ∀ i, i < count → (splitWithRemainder total count)[i]? =
      some (if i < total % count then total / count + 1 else total / count) := by
  have h2 : total % count < count := Nat.mod_lt _ hc
  refine ⟨by simp [splitWithRemainder]; omega, ?_⟩
  intro i hi
  unfold splitWithRemainder
  by_cases h : i < total % count
  · simp [List.getElem?_append_left, h]
  · rw [List.getElem?_append_right (by simp; omega)]
    simp only [List.length_replicate, h, if_false]
    rw [List.getElem?_replicate]
    have : i - total % count < count - total % count := by omega
    simp [this]

/-- shares differ by at most one and earlier ones are never smaller -/
theorem C13_split_sorted (total count : Nat) (hc : 0 < count) (i j : Nat) (hij : i ≤ j) (hj : j < count) :
    ∃ a b, (splitWithRemainder total count)[i]? = some a ∧ (splitWithRemainder total count)[j]? = some b ∧
      b ≤ a ∧ a ≤ b + 1 := by
  have hs := (C13_split_shape total count hc).2
  refine ⟨_, _, hs i (by omega), hs j hj, ?_, ?_⟩ <;> (split <;> split <;> omega)

/-- every share is positive when the pool covers the count -/
theorem C13_split_positive (total count : Nat) (hc : 0 < count) (h : count ≤ total) :
    ∀ v ∈ splitWithRemainder total count, 0 < v := by
  intro v hv
  have hq : 0 < total / count := Nat.div_pos h hc
  simp only [splitWithRemainder, List.mem_append, List.mem_replicate] at hv
  omega

/-! ## distribute_from_split_pool -/

theorem fill_sum (outs : List Int) (vs : List Nat) (h : zeroCount outs = vs.length) :
    (fill outs vs).sum = outs.sum + ((vs.map (fun v : Nat => (v : Int))).sum) := by
  induction outs generalizing vs with
  | nil => cases vs <;> simp_all [fill, zeroCount]
  | cons o os ih =>
    cases vs with
    | nil => simp [fill]
    | cons v vs =>
      by_cases ho : o = 0
      · subst ho
        have : zeroCount os = vs.length := by simpa [zeroCount] using h
        simp [fill, ih vs this]
        omega
      · have : zeroCount os = (v :: vs).length := by simpa [zeroCount, ho] using h
        simp [fill, ho, ih (v :: vs) this]
        omega

theorem sum_map_cast (vs : List Nat) : ((vs.map (fun v : Nat => (v : Int))).sum) = ((vs.sum : Nat) : Int) := by
  induction vs with
  | nil => rfl
  | cons v vs ih => simp [ih]

/-- C13.distribute_conserves: when a split pool exists and the call returns, outputs + fee = inputs exactly -/
theorem C13_distribute_conserves (ins outs : List Int) (f : Int) (res : List Int)
    (hz : zeroCount outs ≠ 0) (h : distribute ins outs f = .ok res) :
    res.sum + f = ins.sum := by
  unfold distribute at h
  simp only [hz, if_false] at h
  split at h
  · cases h
  · split at h
    · cases h
    · rename_i h1 h2
      injection h with h
      subst h
      have hlen : zeroCount outs = (splitWithRemainder (ins.sum - (outs.sum + f)).toNat (zeroCount outs)).length :=
        (C13_split_shape _ _ (Nat.pos_of_ne_zero hz)).1.symm
      rw [fill_sum _ _ hlen, sum_map_cast, C13_split_sum _ _ (Nat.pos_of_ne_zero hz)]
      omega

/-- the reported fee is what was requested -/
theorem C13_fee_def (ins outs : List Int) (f : Int) (res : List Int)
    (hz : zeroCount outs ≠ 0) (h : distribute ins outs f = .ok res) :
    fee ins res = f := by
  have := C13_distribute_conserves ins outs f res hz h
  unfold fee; omega

/-- C13.distribute_errors: the two `ValueError`s are raised exactly at their thresholds -/
theorem C13_distribute_errors (ins outs : List Int) (f : Int) (hz : zeroCount outs ≠ 0) :
    (distribute ins outs f = .error .insufficient ↔ ins.sum - (outs.sum + f) < 0) ∧
    (distribute ins outs f = .error .notEnough ↔
      0 ≤ ins.sum - (outs.sum + f) ∧ ins.sum - (outs.sum + f) < (zeroCount outs : Int)) := by
  unfold distribute
  simp only [hz, if_false]
  constructor
  · constructor
    · intro h; split at h
      · assumption
      · split at h <;> cases h
    · intro h; simp [h]
  · constructor
    · intro h; split at h
      · cases h
      · split at h
        · omega
        · cases h
    · intro ⟨h1, h2⟩
      have : ¬ (ins.sum - (outs.sum + f) < 0) := by omega
      simp [this, h2]

/-- no split pool: the outputs are returned untouched -/
theorem C13_distribute_nopool (ins outs : List Int) (f : Int) (hz : zeroCount outs = 0) :
    distribute ins outs f = .ok outs := by
  simp [distribute, hz]

theorem fill_mem (outs : List Int) (vs : List Nat) (x : Int) (hx : x ∈ fill outs vs) :
    x ∈ outs ∧ x ≠ 0 ∨ (∃ v ∈ vs, x = (v : Int)) ∨ (x = 0 ∧ vs.length < zeroCount outs) := by
  induction outs generalizing vs with
  | nil => simp [fill] at hx
  | cons o os ih =>
    cases vs with
    | nil =>
      simp only [fill] at hx
      by_cases hx0 : x = 0
      · right; right
        refine ⟨hx0, ?_⟩
        subst hx0
        simp only [List.length_nil, zeroCount]
        exact List.length_pos_of_mem (List.mem_filter.mpr ⟨hx, by simp⟩)
      · left; exact ⟨hx, hx0⟩
    | cons v vs =>
      by_cases ho : o = 0
      · simp only [fill, ho, if_true, List.mem_cons] at hx
        rcases hx with hx | hx
        · right; left; exact ⟨v, by simp, hx⟩
        · rcases ih vs hx with h | ⟨w, hw, h⟩ | ⟨h0, hl⟩
          · left; exact ⟨by simp [h.1], h.2⟩
          · right; left; exact ⟨w, by simp [hw], h⟩
          · right; right; refine ⟨h0, ?_⟩; simp [zeroCount, ho] at hl ⊢; simpa [zeroCount] using hl
      · simp only [fill, ho, if_false, List.mem_cons] at hx
        rcases hx with hx | hx
        · left; subst hx; exact ⟨by simp, ho⟩
        · rcases ih (v :: vs) hx with h | ⟨w, hw, h⟩ | ⟨h0, hl⟩
          · left; exact ⟨by simp [h.1], h.2⟩
          · right; left; exact ⟨w, hw, h⟩
          · right; right; refine ⟨h0, ?_⟩; simpa [zeroCount, ho] using hl

/-- C13.distribute_positive: after a successful call with a split pool no zero-valued output is left
(every unspecified output received a positive share; fixed outputs keep their value) -/
theorem C13_distribute_positive (ins outs : List Int) (f : Int) (res : List Int)
    (hz : zeroCount outs ≠ 0) (h : distribute ins outs f = .ok res) :
    ∀ x ∈ res, x ≠ 0 := by
  unfold distribute at h
  simp only [hz, if_false] at h
  split at h
  · cases h
  · split at h
    · cases h
    · rename_i h1 h2
      injection h with h
      subst h
      intro x hx
      have hpos := Nat.pos_of_ne_zero hz
      rcases fill_mem _ _ _ hx with h | ⟨v, hv, h⟩ | ⟨_, hl⟩
      · exact h.2
      · have := C13_split_positive _ _ hpos (by omega) v hv
        omega
      · have := (C13_split_shape (ins.sum - (outs.sum + f)).toNat (zeroCount outs) hpos).1
        omega

/-! ## validate_unspents: a normal return certifies every recorded amount and script -/

/-- C13.validate_unspents_sound -/
theorem C13_validate_unspents_sound (db : Bytes → Option (List Out)) (ins : List In) (us : List Out)
    (h : validateUnspents db ins us = .ok ()) :
    ∀ (k : Nat) (i : In), ins[k]? = some i → i.prevHash ≠ zero32 →
      ∃ (outs : List Out) (o : Out), db i.prevHash = some outs ∧ outs[i.prevIndex]? = some o ∧ us[k]? = some o := by
  induction ins generalizing us with
  | nil => intro k i hk; simp at hk
  | cons a as ih =>
    intro k i hk hnz
    unfold validateUnspents at h
    by_cases ha : a.prevHash = zero32
    · simp only [ha, if_true] at h
      cases k with
      | zero => simp at hk; subst hk; exact absurd ha hnz
      | succ k =>
        obtain ⟨outs, o, h1, h2, h3⟩ := ih us.tail h k i (by simpa using hk) hnz
        exact ⟨outs, o, h1, h2, by cases us <;> simp_all⟩
    · simp only [ha, if_false] at h
      split at h
      · cases h
      · rename_i outs hdb
        split at h
        · cases h
        · split at h
          · cases h
          · cases h
          · rename_i o1 o2 ho1 ho2
            split at h
            · cases h
            · split at h
              · cases h
              · rename_i hv hs
                have heq : o1 = o2 := by
                  cases o1; cases o2; simp_all
                cases k with
                | zero =>
                  simp at hk; subst hk
                  refine ⟨outs, o1, hdb, ho1, ?_⟩
                  cases us <;> simp_all
                | succ k =>
                  obtain ⟨outs', o, h1, h2, h3⟩ := ih us.tail h k i (by simpa using hk) hnz
                  exact ⟨outs', o, h1, h2, by cases us <;> simp_all⟩

/-- C13.pairing: input `i` spends exactly the outpoint of spendable `i`, and `unspents[i]` is spendable `i` -/
theorem C13_pairing (sp : List Spendable) (i : Nat) (s : Spendable) (h : sp[i]? = some s) :
    (createTxPairing sp).1[i]? = some ⟨s.txHash, s.txOutIndex⟩ ∧ (createTxPairing sp).2[i]? = some s ∧
    (createTxPairing sp).1.length = sp.length := by
  simp [createTxPairing, h, Spendable.txIn]

/-- C13.fee_history: after ANY history of reads and mutations on one transaction object, the next `fee()` is
inputs minus outputs of the fields as they are at that moment (what a fresh object with those fields reports) -/
theorem C13_fee_history (st : TxVals) (hist : List TxStep) :
    txRun st (hist ++ [.fee]) =
      txRun st hist ++ [some ((txAfter st hist).unspents.sum - (txAfter st hist).outs.sum)] := by
  induction hist generalizing st with
  | nil => simp [txRun, txStep, txAfter, fee]
  | cons s ss ih =>
    simp only [List.cons_append, txRun, txAfter, List.foldl_cons]
    rw [ih]
    rfl

/-! ## conversions -/

theorem numDigits_le {n k : Nat} (h : n < 10 ^ k) (hk : 0 < k) : numDigits n ≤ k := by
  induction k generalizing n with
  | zero => omega
  | succ k ih =>
    unfold numDigits
    split
    · omega
    · rename_i hn
      have hk' : 0 < k := by
        rcases Nat.eq_zero_or_pos k with h0 | h0
        · subst h0; simp at h; omega
        · exact h0
      have : n / 10 < 10 ^ k := by
        rw [Nat.pow_succ] at h
        omega
      have := ih this hk'
      omega

theorem roundNat_small {c : Nat} (h : c < 10 ^ 28) : roundNat c 28 = (c, 0) := by
  unfold roundNat
  simp [numDigits_le h (by decide)]

/-- C13.btc_rt: satoshi → BTC decimal → satoshi is the identity for every amount below 10^20 satoshi -/
theorem C13_btc_rt (n : Nat) (h : n < 10 ^ 20) : btcToSatoshi (satoshiToBtc (n : Int)) = n := by
  unfold satoshiToBtc
  by_cases h0 : n = 0
  · subst h0; simp [btcToSatoshi, Dec.mul, Dec.round, roundNat, numDigits, Dec.toInt, satoshiPerCoin]
  · have hn : ¬ ((n : Int) = 0) := by omega
    have h1 : n * 1 < 10 ^ 28 := by
      have : (10:Nat) ^ 20 ≤ 10 ^ 28 := by decide
      omega
    have h2 : n * 100000000 < 10 ^ 28 := by
      have : (10:Nat)^28 = 10^20 * 100000000 := by decide
      omega
    have hneg : ¬ ((n : Int) * 1 < 0) := by omega
    have hneg2 : ¬ ((n : Int) * 100000000 < 0) := by omega
    simp only [hn, if_false, Dec.mul, coinPerSatoshi, Dec.round, Int.natAbs_mul, Int.natAbs_natCast,
      Int.natAbs_one, roundNat_small h1, hneg, btcToSatoshi, satoshiPerCoin, Dec.quantize]
    simp [roundNat_small h2, Dec.toInt, hneg2]

theorem C13_mbtc_rt (n : Nat) (h : n < 10 ^ 20) : mbtcToSatoshi (satoshiToMbtc (n : Int)) = n := by
  unfold satoshiToMbtc
  by_cases h0 : n = 0
  · subst h0; simp [mbtcToSatoshi, Dec.mul, Dec.round, roundNat, numDigits, Dec.toInt]
  · have hn : ¬ ((n : Int) = 0) := by omega
    have h1 : n * 1 < 10 ^ 28 := by
      have : (10:Nat) ^ 20 ≤ 10 ^ 28 := by decide
      omega
    have h2 : n * 100000 < 10 ^ 28 := by
      have : (10:Nat)^28 = 10^20 * 100000000 := by decide
      omega
    have hneg : ¬ ((n : Int) * 1 < 0) := by omega
    have hneg2 : ¬ ((n : Int) * 100000 < 0) := by omega
    simp only [hn, if_false, Dec.mul, Dec.round, Int.natAbs_mul, Int.natAbs_natCast,
      Int.natAbs_one, roundNat_small h1, hneg, mbtcToSatoshi, Dec.quantize]
    simp [roundNat_small h2, Dec.toInt, hneg2]

/-! ## non-vacuity (evaluated; the driver prints the same values) -/
#guard distribute [100, 50] [0, 30, 0, 0] 10 matches .ok [37, 30, 37, 36]
#guard distribute [10] [0, 30] 0 matches .error .insufficient
#guard distribute [31] [0, 30, 0] 0 matches .error .notEnough
#guard btcToSatoshi (satoshiToBtc 2100000000000000) = 2100000000000000

end Pycoin.Value
