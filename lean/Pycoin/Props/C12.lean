import Pycoin.Proofs.ScriptNum
import Pycoin.Proofs.ScriptPush
import Pycoin.Proofs.ScriptPushUnique
import Pycoin.Proofs.ScriptText
/-!
C12 — Script integers, data pushes and script text encode canonically and losslessly.
Part 1: script numbers (`IntStreamer`).  Core Lean only.
-/
namespace Pycoin.ScriptNum

/-! ## shape of `int_to_script_bytes v` -/

theorem toNat_ofNat_mod (n : Nat) (h : n < 256) : (UInt8.ofNat (n % 256)).toNat = n := by
  simp [UInt8.toNat_ofNat']; omega

/-- the tail of `int_to_script_bytes` after the loop left `(lo, top)` -/
def finish (lo : Bytes) (top : Nat) (neg : Bool) : Bytes :=
  let last := UInt8.ofNat (top % 256)
  if 128 ≤ last.toNat then lo ++ [last, if neg then 0x80 else 0]
  else if neg then lo ++ [last ||| 0x80]
  else lo ++ [last]

theorem finish_shape (lo : Bytes) (top : Nat) (neg : Bool) (h1 : top < 256) (hpos : 0 < top) :
    ∃ init i, finish lo top neg = init ++ [i] ∧ magOf init i = leNat lo + 256 ^ lo.length * top ∧
      (128 ≤ i.toNat ↔ neg = true) ∧ nonMinimal init i = false := by
  have hlast := toNat_ofNat_mod _ h1
  unfold finish
  simp only [hlast]
  by_cases hbig : 128 ≤ top
  · simp only [hbig, if_true]
    refine ⟨lo ++ [UInt8.ofNat (top % 256)], if neg then 0x80 else 0, by simp, ?_, ?_, ?_⟩
    · unfold magOf
      rw [leNat_append, leNat_singleton, hlast]
      cases neg <;> simp
    · cases neg <;> simp
    · unfold nonMinimal
      have : ¬ top < 128 := by omega
      cases neg <;> simp [hlast, this]
  · simp only [hbig, if_false]
    have hlt : (UInt8.ofNat (top % 256)).toNat < 128 := by omega
    cases neg with
    | true =>
      simp only [if_true]
      have h128 : (top + 128) % 128 = top := by omega
      refine ⟨_, _, rfl, ?_, ?_, ?_⟩
      · unfold magOf; rw [or80 _ hlt, hlast, h128]
      · rw [or80 _ hlt]; simp
      · unfold nonMinimal; rw [or80 _ hlt, hlast, h128]
        have : top ≠ 0 := by omega
        simp [this]
    | false =>
      have h128 : top % 128 = top := by omega
      refine ⟨_, _, rfl, ?_, ?_, ?_⟩
      · unfold magOf; rw [hlast, h128]
      · rw [hlast]; simp; omega
      · unfold nonMinimal; rw [hlast, h128]
        have : top ≠ 0 := by omega
        simp [this]

theorem encode_eq_finish (v : Int) (hv : v ≠ 0) :
    intToScriptBytes v = finish (magLoop v.natAbs).1 (magLoop v.natAbs).2 (decide (v < 0)) := by
  unfold intToScriptBytes finish
  simp only [hv, if_false]

/-- for `v ≠ 0` the encoding is `init ++ [i]` with magnitude `|v|`, sign bit `v < 0`, and passes the minimality test -/
theorem encode_shape (v : Int) (hv : v ≠ 0) :
    ∃ init i, intToScriptBytes v = init ++ [i] ∧ magOf init i = v.natAbs ∧ (128 ≤ i.toNat ↔ v < 0) ∧
      nonMinimal init i = false := by
  obtain ⟨h1, h2, h3⟩ := magLoop_spec v.natAbs
  obtain ⟨init, i, he, hm, hs, hmin⟩ := finish_shape (magLoop v.natAbs).1 (magLoop v.natAbs).2 (decide (v < 0)) h1 (h3 (by omega))
  exact ⟨init, i, by rw [encode_eq_finish v hv, he], by rw [hm, ← h2], by simpa using hs, hmin⟩

/-- **C12.num_dec_enc** — every integer decodes back to itself, with or without `require_minimal` -/
theorem C12_num_dec_enc (v : Int) (requireMinimal : Bool) :
    intFromScriptBytes (intToScriptBytes v) requireMinimal = .ok v := by
  by_cases hv : v = 0
  · subst hv; simp [intToScriptBytes, decode_nil]
  · obtain ⟨init, i, he, hm, hs, hmin⟩ := encode_shape v hv
    rw [he, decode_snoc, hmin, hm]
    by_cases hn : v < 0
    · have : 128 ≤ i.toNat := hs.mpr hn
      simp [this]; omega
    · have : ¬ 128 ≤ i.toNat := fun h => hn (hs.mp h)
      simp [this]; omega


/-! ## uniqueness -/

theorem byte_low (i : UInt8) (h : i.toNat < 128) : UInt8.ofNat (i.toNat % 128 % 256) = i :=
  byte_all (P := fun i => i.toNat < 128 → UInt8.ofNat (i.toNat % 128 % 256) = i) (by decide +kernel) i h

theorem byte_high (i : UInt8) (h : 128 ≤ i.toNat) : UInt8.ofNat (i.toNat % 128 % 256) ||| 0x80 = i :=
  byte_all (P := fun i => 128 ≤ i.toNat → UInt8.ofNat (i.toNat % 128 % 256) ||| 0x80 = i) (by decide +kernel) i h

theorem byte_signonly (i : UInt8) (h : i.toNat % 128 = 0) : i = if 128 ≤ i.toNat then 0x80 else 0 :=
  byte_all (P := fun i => i.toNat % 128 = 0 → i = if 128 ≤ i.toNat then 0x80 else 0) (by decide +kernel) i h

theorem snoc_cases (bs : Bytes) : bs = [] ∨ ∃ init i, bs = init ++ [i] := by
  rcases List.eq_nil_or_concat bs with h | ⟨init, i, h⟩
  · exact Or.inl h
  · exact Or.inr ⟨init, i, by simpa using h⟩

/-- a minimal `init ++ [i]` is what `int_to_script_bytes` produces for its value -/
theorem encode_of_minimal (init : Bytes) (i : UInt8) (hmin : nonMinimal init i = false) :
    0 < magOf init i ∧
    intToScriptBytes (if 128 ≤ i.toNat then -(magOf init i : Int) else (magOf init i : Int)) = init ++ [i] := by
  have hi : i.toNat < 256 := i.toNat_lt
  by_cases ht : i.toNat % 128 = 0
  · -- the top byte is only a sign byte: the one before it must have its high bit set
    unfold nonMinimal at hmin
    simp only [ht, beq_self_eq_true, Bool.true_and] at hmin
    rcases snoc_cases init with hnil | ⟨init', j, hinit⟩
    · subst hnil; simp at hmin
    · subst hinit
      simp only [List.reverse_append, List.reverse_cons, List.reverse_nil, List.nil_append, List.cons_append,
        decide_eq_false_iff_not, Nat.not_lt] at hmin
      have hj : j.toNat < 256 := j.toNat_lt
      have hM : magOf (init' ++ [j]) i = leNat init' + 256 ^ init'.length * j.toNat := by
        unfold magOf; rw [leNat_append, leNat_singleton, ht]; simp
      have hpos : 0 < 256 ^ init'.length * j.toNat := Nat.mul_pos (Nat.pow_pos (by decide)) (by omega)
      refine ⟨by omega, ?_⟩
      have hne : (if 128 ≤ i.toNat then -(magOf (init' ++ [j]) i : Int) else (magOf (init' ++ [j]) i : Int)) ≠ 0 := by
        split <;> omega
      rw [encode_eq_finish _ hne]
      have habs : (if 128 ≤ i.toNat then -(magOf (init' ++ [j]) i : Int) else (magOf (init' ++ [j]) i : Int)).natAbs
          = leNat init' + 256 ^ init'.length * j.toNat := by
        split <;> omega
      rw [habs, magLoop_unique init' j.toNat (by omega) hj]
      unfold finish
      have hlast : UInt8.ofNat (j.toNat % 256) = j := by
        rw [Nat.mod_eq_of_lt hj]; simp
      simp only [hlast, hmin, if_true]
      have hsign := byte_signonly i ht
      by_cases hn : 128 ≤ i.toNat
      · have : (if 128 ≤ i.toNat then -(magOf (init' ++ [j]) i : Int) else (magOf (init' ++ [j]) i : Int)) < 0 := by
          simp [hn]; omega
        simp only [this, decide_true, if_true]
        rw [hsign]; simp [hn]
      · have : ¬ (if 128 ≤ i.toNat then -(magOf (init' ++ [j]) i : Int) else (magOf (init' ++ [j]) i : Int)) < 0 := by
          simp [hn]
        simp only [this, decide_false]
        rw [hsign]; simp [hn]
  · have htpos : 0 < i.toNat % 128 := by omega
    have hpos : 0 < 256 ^ init.length * (i.toNat % 128) := Nat.mul_pos (Nat.pow_pos (by decide)) htpos
    have hM : magOf init i = leNat init + 256 ^ init.length * (i.toNat % 128) := rfl
    refine ⟨by omega, ?_⟩
    have hne : (if 128 ≤ i.toNat then -(magOf init i : Int) else (magOf init i : Int)) ≠ 0 := by
      split <;> omega
    rw [encode_eq_finish _ hne]
    have habs : (if 128 ≤ i.toNat then -(magOf init i : Int) else (magOf init i : Int)).natAbs
        = leNat init + 256 ^ init.length * (i.toNat % 128) := by
      split <;> omega
    rw [habs, magLoop_unique init (i.toNat % 128) htpos (by omega)]
    unfold finish
    have hsmall : ¬ 128 ≤ (UInt8.ofNat (i.toNat % 128 % 256)).toNat := by
      simp [UInt8.toNat_ofNat']; omega
    simp only [hsmall, if_false]
    by_cases hn : 128 ≤ i.toNat
    · have : (if 128 ≤ i.toNat then -(magOf init i : Int) else (magOf init i : Int)) < 0 := by
        simp [hn]; omega
      simp only [this, decide_true, if_true, byte_high i hn]
    · have : ¬ (if 128 ≤ i.toNat then -(magOf init i : Int) else (magOf init i : Int)) < 0 := by
        simp [hn]
      simp only [this, decide_false, byte_low i (by omega)]
      simp

/-- **C12.num_unique** — whatever decodes under `require_minimal` is the encoding of its value -/
theorem C12_num_unique (bs : Bytes) (v : Int) (h : intFromScriptBytes bs true = .ok v) :
    intToScriptBytes v = bs := by
  rcases snoc_cases bs with hnil | ⟨init, i, hbs⟩
  · subst hnil
    rw [decode_nil] at h
    cases h; simp [intToScriptBytes]
  · subst hbs
    rw [decode_snoc] at h
    by_cases hmin : nonMinimal init i = true
    · simp [hmin] at h
    · have hmin' : nonMinimal init i = false := by simpa using hmin
      simp only [hmin', Bool.and_false, Bool.false_eq_true, if_false] at h
      cases h
      exact (encode_of_minimal init i hmin').2


/-- decoding without the flag never raises, and the flag only adds a rejection -/
theorem decode_true_imp_false (bs : Bytes) (v : Int) (h : intFromScriptBytes bs true = .ok v) :
    intFromScriptBytes bs false = .ok v := by
  rcases snoc_cases bs with hnil | ⟨init, i, hbs⟩
  · subst hnil; rw [decode_nil] at *; exact h
  · subst hbs
    rw [decode_snoc] at *
    by_cases hmin : nonMinimal init i = true
    · simp [hmin] at h
    · simpa [hmin] using h

/-- **C12.requireMinimal_iff** — decoding with minimality required accepts `bs` (with value `v`) exactly when
`bs` decodes to `v` and is the encoding of `v` -/
theorem C12_requireMinimal_iff (bs : Bytes) (v : Int) :
    intFromScriptBytes bs true = .ok v ↔ (intFromScriptBytes bs false = .ok v ∧ intToScriptBytes v = bs) := by
  constructor
  · intro h; exact ⟨decode_true_imp_false bs v h, C12_num_unique bs v h⟩
  · rintro ⟨_, h2⟩; rw [← h2]; exact C12_num_dec_enc v true

/-- the only exception is `ScriptError`, and without the flag there is none: decoding is total -/
theorem C12_decode_total (bs : Bytes) : ∃ v, intFromScriptBytes bs false = .ok v := by
  rcases snoc_cases bs with hnil | ⟨init, i, hbs⟩
  · subst hnil; exact ⟨0, decode_nil _⟩
  · subst hbs; rw [decode_snoc]; simp

/-- the model's minimality test is Bitcoin Core's `fRequireMinimal` test (`Spec.minimalNum`) -/
theorem minimalNum_snoc (init : Bytes) (i : UInt8) : Spec.minimalNum (init ++ [i]) = !nonMinimal init i := by
  unfold Spec.minimalNum nonMinimal
  rcases snoc_cases init with hnil | ⟨init', j, hinit⟩
  · subst hnil
    by_cases h : i.toNat % 128 = 0 <;> simp [h]
  · subst hinit
    have h1 : (init' ++ [j] ++ [i])[(init' ++ [j] ++ [i]).length - 1]? = some i := by simp
    have h2 : (init' ++ [j] ++ [i])[(init' ++ [j] ++ [i]).length - 2]? = some j := by
      have : (init' ++ [j] ++ [i]).length - 2 = init'.length := by simp
      rw [this, List.append_assoc, List.getElem?_append_right (Nat.le_refl _)]
      simp
    rw [h1, h2]
    have hj : j.toNat / 128 = 0 ↔ j.toNat < 128 := by omega
    by_cases h : i.toNat % 128 = 0 <;> by_cases hj' : j.toNat < 128 <;> simp [h, hj', hj]

/-- **C12.requireMinimal_spec** — `require_minimal=True` accepts exactly the byte strings Bitcoin Core's
`CScriptNum(vch, fRequireMinimal = true)` accepts (no length limit on either side) -/
theorem C12_requireMinimal_spec (bs : Bytes) :
    (∃ v, intFromScriptBytes bs true = .ok v) ↔ Spec.minimalNum bs = true := by
  rcases snoc_cases bs with hnil | ⟨init, i, hbs⟩
  · subst hnil; simp [decode_nil, Spec.minimalNum]
  · subst hbs
    rw [minimalNum_snoc, decode_snoc]
    by_cases hmin : nonMinimal init i = true <;> simp [hmin]

/-! ## minimality: length formula, shortest, unique among the shortest -/

/-- `L k = 2^(8k-1)`: magnitudes below `L k` are what `k` bytes can hold (`L 0 = 1`) -/
def L (k : Nat) : Nat := 2 ^ (8 * k - 1)

theorem L_succ (k : Nat) : L (k + 1) = 128 * 256 ^ k := by
  unfold L
  have : 8 * (k + 1) - 1 = 8 * k + 7 := by omega
  rw [this, Nat.pow_add, Nat.pow_mul]
  simp [Nat.mul_comm]

theorem L_mono {a b : Nat} (h : a ≤ b) : L a ≤ L b := by
  unfold L; exact Nat.pow_le_pow_right (by decide) (by omega)

theorem L_le_pow (k : Nat) : L k ≤ 256 ^ k := by
  cases k with
  | zero => simp [L]
  | succ k => rw [L_succ, Nat.pow_succ]; omega

/-- any `k`-byte string has magnitude below `L k` -/
theorem mag_lt (init : Bytes) (i : UInt8) : magOf init i < L (init.length + 1) := by
  rw [L_succ]; unfold magOf
  have h1 := leNat_lt init
  have h2 : 256 ^ init.length * (i.toNat % 128) ≤ 256 ^ init.length * 127 := Nat.mul_le_mul_left _ (by omega)
  omega

/-- a minimal `k`-byte string has magnitude at least `L (k-1)` -/
theorem mag_ge_of_minimal (init : Bytes) (i : UInt8) (hmin : nonMinimal init i = false) :
    L init.length ≤ magOf init i := by
  by_cases ht : i.toNat % 128 = 0
  · unfold nonMinimal at hmin
    simp only [ht, beq_self_eq_true, Bool.true_and] at hmin
    rcases snoc_cases init with hnil | ⟨init', j, hinit⟩
    · subst hnil; simp at hmin
    · subst hinit
      simp only [List.reverse_append, List.reverse_cons, List.reverse_nil, List.nil_append, List.cons_append,
        decide_eq_false_iff_not, Nat.not_lt] at hmin
      have : (init' ++ [j]).length = init'.length + 1 := by simp
      rw [this, L_succ]
      unfold magOf; rw [leNat_append, leNat_singleton]
      have : 256 ^ init'.length * 128 ≤ 256 ^ init'.length * j.toNat := Nat.mul_le_mul_left _ hmin
      omega
  · unfold magOf
    have h1 : 256 ^ init.length * 1 ≤ 256 ^ init.length * (i.toNat % 128) := Nat.mul_le_mul_left _ (by omega)
    have := L_le_pow init.length
    omega

/-- a non-minimal `k`-byte string has magnitude below `L (k-1)`: one byte fewer would do -/
theorem mag_lt_of_nonMinimal (init : Bytes) (i : UInt8) (hmin : nonMinimal init i = true) :
    magOf init i < L init.length := by
  unfold nonMinimal at hmin
  simp only [Bool.and_eq_true, beq_iff_eq] at hmin
  obtain ⟨ht, hsec⟩ := hmin
  unfold magOf; rw [ht]
  rcases snoc_cases init with hnil | ⟨init', j, hinit⟩
  · subst hnil; simp [leNat, L]
  · subst hinit
    simp only [List.reverse_append, List.reverse_cons, List.reverse_nil, List.nil_append, List.cons_append,
      decide_eq_true_eq] at hsec
    have : (init' ++ [j]).length = init'.length + 1 := by simp
    rw [this, L_succ, leNat_append, leNat_singleton]
    have h1 := leNat_lt init'
    have h2 : 256 ^ init'.length * j.toNat ≤ 256 ^ init'.length * 127 := Nat.mul_le_mul_left _ (by omega)
    omega

/-- value decoded from `init ++ [i]` has absolute value `magOf init i` -/
theorem natAbs_decoded (init : Bytes) (i : UInt8) :
    (if 128 ≤ i.toNat then -(magOf init i : Int) else (magOf init i : Int)).natAbs = magOf init i := by
  split <;> omega

/-- **C12.num_minimal** — `int_to_script_bytes v` is the minimal form: it passes Core's minimality test
(no redundant `00`/`80` top byte), its length `k` is the one with `2^(8(k-1)-1) ≤ |v| < 2^(8k-1)`
(`k = 0` exactly for `v = 0`), no byte string decoding to `v` is shorter, and any of the same length is equal to it. -/
theorem C12_num_minimal (v : Int) :
    Spec.minimalNum (intToScriptBytes v) = true ∧
    v.natAbs < 2 ^ (8 * (intToScriptBytes v).length - 1) ∧
    (0 < (intToScriptBytes v).length → 2 ^ (8 * ((intToScriptBytes v).length - 1) - 1) ≤ v.natAbs) ∧
    ∀ bs, intFromScriptBytes bs false = .ok v →
      (intToScriptBytes v).length ≤ bs.length ∧ (bs.length = (intToScriptBytes v).length → bs = intToScriptBytes v) := by
  by_cases hv : v = 0
  · subst hv
    have he : intToScriptBytes 0 = [] := by simp [intToScriptBytes]
    rw [he]
    refine ⟨by simp [Spec.minimalNum], by simp, by simp, ?_⟩
    intro bs _
    exact ⟨by simp, fun h => by simpa using h⟩
  · obtain ⟨init, i, he, hm, hs, hmin⟩ := encode_shape v hv
    have hlen : (init ++ [i]).length = init.length + 1 := by simp
    have hlow := mag_ge_of_minimal init i hmin
    have hupp := mag_lt init i
    rw [he, hlen]
    refine ⟨by rw [minimalNum_snoc, hmin]; rfl, ?_, ?_, ?_⟩
    · have : L (init.length + 1) = 2 ^ (8 * (init.length + 1) - 1) := rfl
      omega
    · intro _
      have : L init.length = 2 ^ (8 * (init.length + 1 - 1) - 1) := by simp [L]
      omega
    · intro bs hbs
      rcases snoc_cases bs with hnil | ⟨init2, i2, hbs2⟩
      · subst hnil; rw [decode_nil] at hbs; cases hbs; exact absurd rfl hv
      · subst hbs2
        rw [decode_snoc] at hbs
        simp only [Bool.false_and, Bool.false_eq_true, if_false] at hbs
        have hv2 : v.natAbs = magOf init2 i2 := by
          have := natAbs_decoded init2 i2
          cases hbs; exact this
        have hupp2 := mag_lt init2 i2
        have hlen2 : (init2 ++ [i2]).length = init2.length + 1 := by simp
        rw [hlen2]
        constructor
        · -- shorter is impossible
          apply Nat.le_of_not_lt
          intro hlt
          have := L_mono (show init2.length + 1 ≤ init.length by omega)
          omega
        · intro hsame
          have hsame' : init2.length = init.length := by omega
          -- same length: it cannot be non-minimal, so the flag accepts it and uniqueness applies
          by_cases hmin2 : nonMinimal init2 i2 = true
          · have := mag_lt_of_nonMinimal init2 i2 hmin2
            rw [hsame'] at this
            omega
          · have hacc : intFromScriptBytes (init2 ++ [i2]) true = .ok v := by
              rw [decode_snoc]
              have : nonMinimal init2 i2 = false := by simpa using hmin2
              simp only [this, Bool.and_false, Bool.false_eq_true, if_false]
              exact hbs
            have := C12_num_unique _ _ hacc
            rw [← this, he]

/-! ## non-vacuity and boundary values (evaluated) -/
#guard intToScriptBytes 127 = [0x7f]
#guard intToScriptBytes 128 = [0x80, 0x00]
#guard intToScriptBytes (-128) = [0x80, 0x80]
#guard intToScriptBytes (-255) = [0xff, 0x80]
#guard intToScriptBytes 32768 = [0x00, 0x80, 0x00]
#guard intFromScriptBytes [0x00, 0x80] true matches .error .scriptError
#guard intFromScriptBytes [0x00, 0x80] false matches .ok 0
#guard intFromScriptBytes [0xff, 0x80] true matches .ok (-255)
#guard Spec.minimalNum [0x80, 0x00] && !Spec.minimalNum [0x7f, 0x00] && !Spec.minimalNum [0x80]

end Pycoin.ScriptNum

/-!
Part 2: data pushes and the instruction decoder (`ScriptStreamer.compile_push_data`, `get_opcode`).
`Spec.getScriptOp`, `Spec.checkMinimalPush`, `Spec.pushValue` are Bitcoin Core's `GetScriptOp`,
`CheckMinimalPush` and the value the interpreter pushes; `Spec.minimalPush` is the push the rule demands.
The tables come from `Gen/Opcodes.lean` (the live `BitcoinScriptStreamer`); every fact about them used here is
re-proved by kernel evaluation of the whole table on every run (`Proofs/ScriptTables.lean`).
-/
namespace Pycoin.Script

/-- **C12.push_shortest** — for every `d` shorter than 2^32 bytes `compile_push_data d` is the push form the consensus
rule demands (`OP_0`, `OP_1..OP_16`, `OP_1NEGATE`, direct push ≤ 75, `PUSHDATA1` ≤ 255, `PUSHDATA2` ≤ 65535, else
`PUSHDATA4`): Core's `GetScriptOp` reads it back as one instruction that pushes exactly `d`, followed by whatever
follows, and Core's `CheckMinimalPush` accepts it. -/
theorem C12_push_shortest (d rest : Bytes) (h : d.length < 2 ^ 32) :
    compilePushData d = .ok (Spec.minimalPush d) ∧
    ∃ opc payload, Spec.getScriptOp (Spec.minimalPush d ++ rest) = some (opc, payload, rest) ∧
      Spec.pushValue opc payload = some d ∧ (opc ≤ 0x4e → Spec.checkMinimalPush opc payload = true) :=
  ⟨compilePushData_eq d h, getScriptOp_minimalPush d rest h⟩

/-- **C12.push_unique** — "exactly as the rule demands": any single instruction that Core reads as a push of `d`
(payload of an opcode ≤ `OP_PUSHDATA4`, or the number pushed by `OP_1NEGATE`/`OP_1..OP_16`) and that
`CheckMinimalPush` accepts is, byte for byte, `Spec.minimalPush d` — the bytes `compile_push_data d` emits. -/
theorem C12_push_unique (bs d rest : Bytes) (opc : Nat) (payload : Bytes)
    (hg : Spec.getScriptOp bs = some (opc, payload, rest)) (hv : Spec.pushValue opc payload = some d)
    (hm : opc ≤ 0x4e → Spec.checkMinimalPush opc payload = true) :
    bs = Spec.minimalPush d ++ rest := minimalPush_unique bs d rest opc payload hg hv hm

/-- the other side of the 2^32 bound: `struct.pack("<L", …)` raises `struct.error` -/
theorem C12_push_overflow (d : Bytes) (h : 2 ^ 32 ≤ d.length) : compilePushData d = .error .structError :=
  compilePushData_overflow d h

/-- **C12.getOp_refines** — for every script, every `pc` inside it and both settings of `verify_minimal_data`,
`get_opcode` answers what Core's `GetScriptOp` + `CheckMinimalPush` dictate: truncated ⇒ `(opcode, None, _, False)`;
otherwise `ScriptError` exactly when verification is on and the push is not minimal; otherwise the same data, the
same next `pc`, `is_ok = True`. (Shared with C03.) -/
theorem C12_getOp_refines (script : Bytes) (pc : Nat) (vm : Bool) (b : UInt8) (r : Bytes)
    (hd : script.drop pc = b :: r) : getOpcode script pc vm = coreAnswer script pc vm b r :=
  getOpcode_refines script pc vm b r hd

/-- **C12.getOp_push** — the decoder reads a compiled push back: same data, the right next `pc`, accepted, with
minimal-data verification on or off, wherever the push sits in a script -/
theorem C12_getOp_push (pre d rest : Bytes) (vm : Bool) (h : d.length < 2 ^ 32) :
    ∃ push op, compilePushData d = .ok push ∧ push.head? = some op ∧
      getOpcode (pre ++ push ++ rest) pre.length vm = .ok ⟨op, some d, pre.length + push.length, true⟩ := by
  obtain ⟨opc, payload, hg, hv, hm⟩ := getScriptOp_minimalPush d rest h
  have hne : Spec.minimalPush d ++ rest ≠ [] := by
    intro he; rw [he] at hg; simp [Spec.getScriptOp] at hg
  obtain ⟨b, r, hbr⟩ : ∃ b r, Spec.minimalPush d ++ rest = b :: r := by
    cases hl : Spec.minimalPush d ++ rest with
    | nil => exact absurd hl hne
    | cons b r => exact ⟨b, r, rfl⟩
  have hpne : Spec.minimalPush d ≠ [] := by
    unfold Spec.minimalPush; split <;> (try split) <;> (try split) <;> (try split) <;> simp
  have hhead : (Spec.minimalPush d).head? = some b := by
    cases hp : Spec.minimalPush d with
    | nil => exact absurd hp hpne
    | cons x xs => rw [hp] at hbr; simp at hbr; simp [hbr.1]
  refine ⟨Spec.minimalPush d, b, compilePushData_eq d h, hhead, ?_⟩
  have hd : (pre ++ Spec.minimalPush d ++ rest).drop pre.length = b :: r := by
    rw [List.append_assoc, List.drop_left, hbr]
  rw [getOpcode_refines _ _ vm b r hd]
  unfold coreAnswer
  rw [← hbr, hg]
  simp only [hv]
  have hlen : (pre ++ Spec.minimalPush d ++ rest).length - rest.length = pre.length + (Spec.minimalPush d).length := by
    simp only [List.length_append]; omega
  rw [hlen]
  by_cases ho : opc ≤ 0x4e
  · simp [hm ho]
  · simp [ho]

/-- **C12.truncated_malformed** — whenever Core's `GetScriptOp` fails at `pc` (the bytes that remain are fewer than the
direct-push opcode, the declared PUSHDATA length — any value below 2^32 — or the length field itself needs), `get_opcode`
reports `(opcode, None, _, is_ok = False)`; it never raises and never returns data, with verification on or off. -/
theorem C12_truncated_malformed (script : Bytes) (pc : Nat) (vm : Bool) (b : UInt8) (r : Bytes)
    (hd : script.drop pc = b :: r) (ht : Spec.getScriptOp (b :: r) = none) :
    ∃ npc, getOpcode script pc vm = .ok ⟨b, none, npc, false⟩ := by
  rw [getOpcode_refines script pc vm b r hd]
  unfold coreAnswer
  rw [ht]
  exact ⟨_, rfl⟩

/-- the explicit truncation shapes: a direct push, a PUSHDATA with a complete length field, and a cut length field -/
theorem C12_truncated_shapes (tail : Bytes) :
    (∀ n : Nat, 1 ≤ n → n ≤ 75 → tail.length < n → Spec.getScriptOp (UInt8.ofNat n :: tail) = none) ∧
    (∀ n : Nat, n < 256 → tail.length < n → Spec.getScriptOp (0x4c :: (leBytes n 1 ++ tail)) = none) ∧
    (∀ n : Nat, n < 65536 → tail.length < n → Spec.getScriptOp (0x4d :: (leBytes n 2 ++ tail)) = none) ∧
    (∀ n : Nat, n < 2 ^ 32 → tail.length < n → Spec.getScriptOp (0x4e :: (leBytes n 4 ++ tail)) = none) ∧
    (tail.length < 1 → Spec.getScriptOp (0x4c :: tail) = none) ∧
    (tail.length < 2 → Spec.getScriptOp (0x4d :: tail) = none) ∧
    (tail.length < 4 → Spec.getScriptOp (0x4e :: tail) = none) := by
  refine ⟨?_, ?_, ?_, ?_, ?_, ?_, ?_⟩
  · intro n h1 h75 ht
    have e := ofNat_toNat_lt (show n < 256 by omega)
    have e1 : n ≤ 78 := by omega
    have e2 : n < 76 := by omega
    simp [getScriptOp_cons, specOp, e, e1, e2, ht]
  · intro n hn ht
    have hl : leNat (leBytes n 1) = n := leNat_leBytes_of_lt (by omega)
    have e : (List.take 1 (leBytes n 1 ++ tail)) = leBytes n 1 := by rw [List.take_left' (by simp)]
    have e' : (List.drop 1 (leBytes n 1 ++ tail)) = tail := by rw [List.drop_left' (by simp)]
    simp only [getScriptOp_cons, specOp]
    simp [e, e', hl, ht]
  · intro n hn ht
    have hl : leNat (leBytes n 2) = n := leNat_leBytes_of_lt (by omega)
    have e : (List.take 2 (leBytes n 2 ++ tail)) = leBytes n 2 := by rw [List.take_left' (by simp)]
    have e' : (List.drop 2 (leBytes n 2 ++ tail)) = tail := by rw [List.drop_left' (by simp)]
    have hw : ¬ 2 + tail.length < 2 := by omega
    simp only [getScriptOp_cons, specOp]
    simp [e, e', hl, ht, hw]
  · intro n hn ht
    have hl : leNat (leBytes n 4) = n := leNat_leBytes_of_lt (by omega)
    have e : (List.take 4 (leBytes n 4 ++ tail)) = leBytes n 4 := by rw [List.take_left' (by simp)]
    have e' : (List.drop 4 (leBytes n 4 ++ tail)) = tail := by rw [List.drop_left' (by simp)]
    have hw : ¬ 4 + tail.length < 4 := by omega
    simp only [getScriptOp_cons, specOp]
    simp [e, e', hl, ht, hw]
  · intro ht; simp [getScriptOp_cons, specOp, ht]
  · intro ht; simp [getScriptOp_cons, specOp, ht]
  · intro ht; simp [getScriptOp_cons, specOp, ht]

#guard compilePushData (List.replicate 256 7) matches .ok (0x4d :: 0x00 :: 0x01 :: _)
#guard getOpcode (0x4d :: 0x00 :: 0x01 :: List.replicate 256 7) 0 true matches .ok ⟨0x4d, some _, 259, true⟩
#guard getOpcode [0x4c] 0 false matches .ok ⟨0x4c, none, 2, false⟩
#guard getOpcode [0x4c, 0x00] 0 true matches .error .scriptError
#guard getOpcode [0x05, 1, 2] 0 true matches .ok ⟨0x05, none, 2, false⟩

end Pycoin.Script

/-!
Part 3: script text (`ScriptTools.compile` / `disassemble`), token level.
A script "made of known opcodes and minimal pushes" is `assemble is` for a list of instructions `is`, each either a
known non-data opcode (`Instr.plain op`: no handler in the decoder table and a name in `int_to_opcode` — for the
shipped tables 0x50, 0x61..0xb9 and 0xff) or the minimal push of some data shorter than 2^32 bytes (`Instr.push d`).
`opcodeList'` is `ScriptTools.opcode_list` (the tokens `disassemble` joins with spaces) and `compileTokens` is the loop of
`ScriptTools.compile` over `s.split()`. The name tables come from `Gen/Opcodes.lean`; that every printed name compiles
back to its byte (aliases at 0xb1/0xb2 included) is `names_roundtrip`, a kernel evaluation over all 256 bytes.
The string layer proper (joining with `" "` and `str.split()`, `str.upper()` beyond ASCII, `int()`) is tied by
correspondence only.
-/
namespace Pycoin.Script

/-- **C12.compile_disassemble** — compiling the tokens of the disassembly of any script made of known opcodes and
minimal pushes reproduces the script byte for byte -/
theorem C12_compile_disassemble (is : List Instr) (hwf : ∀ i ∈ is, i.wf) :
    compileTokens (opcodeList' (assemble is)) = .ok (assemble is) := by
  obtain ⟨h1, h2⟩ := getOpcodes_assemble is hwf []
  simp only [List.nil_append, List.length_nil] at h1 h2
  unfold opcodeList'
  simp only [h2, h1]
  exact compileTokens_assemble is hwf

/-- the decoder recovers exactly the instruction list of an assembled script (one item per instruction, no error):
what `disassemble` prints is determined by the instructions alone -/
theorem C12_disassemble_tokens (is : List Instr) (hwf : ∀ i ∈ is, i.wf) :
    opcodeList' (assemble is) = is.map Instr.token := by
  obtain ⟨h1, h2⟩ := getOpcodes_assemble is hwf []
  simp only [List.nil_append, List.length_nil] at h1 h2
  unfold opcodeList'
  simp only [h2, h1]

/-- every name disassembly can print compiles back to the byte it was printed for (0xb1 → `OP_CHECKLOCKTIMEVERIFY`,
0xb2 → `OP_CHECKSEQUENCEVERIFY`, and the alias spellings `OP_NOP2`/`OP_NOP3` compile to the same bytes) -/
theorem C12_names_roundtrip (op : UInt8) (name : Text) (h : dictGet op intToOpcodeC = some name) :
    compileToken name = .ok [op] := nameOk_spec op name h

/-- **C12.compile_disassemble_text** — the same at the level of the text: `compile(disassemble(s)) = s`, through
joining the tokens with single spaces and `str.split()` (no printed token is empty or contains white space).
Still modelled, not proved, in the string layer: Python's `str.upper()`/`int()`/`unhexlify` as rendered in
`Model/ScriptTools.lean` (ASCII), tied to the code by correspondence. -/
theorem C12_compile_disassemble_text (is : List Instr) (hwf : ∀ i ∈ is, i.wf) :
    compile (disassemble (assemble is)) = .ok (assemble is) := by
  unfold compile disassemble
  rw [splitWs_joinSpace]
  · exact C12_compile_disassemble is hwf
  · intro t ht
    rw [C12_disassemble_tokens is hwf] at ht
    obtain ⟨i, _, rfl⟩ := List.mem_map.mp ht
    cases i <;> (unfold Instr.token; exact dfod_nospace _ _)

-- non-vacuity: P2PKH-like script with the aliases, a 1-byte small integer, an empty push and a 76-byte push
#guard (compileTokens (opcodeList' (assemble [.plain 0x76, .plain 0xa9, .push (List.replicate 20 0xab), .plain 0x88,
    .plain 0xb1, .plain 0xb2, .push [5], .push [], .push [0x81], .push (List.replicate 76 1), .plain 0xff])))
  matches .ok (0x76 :: 0xa9 :: 0x14 :: _)
#guard disassemble [0xb1, 0xb2, 0x00, 0x4f, 0x51] = "OP_CHECKLOCKTIMEVERIFY OP_CHECKSEQUENCEVERIFY OP_0 OP_1NEGATE OP_1".toList
#guard compile "OP_NOP2 OP_NOP3 NOP2 [ab] 'a' 5 -1 0x4c".toList matches .ok [0xb1, 0xb2, 0xb1, 0x01, 0xab, 0x01, 0x61, 0x55, 0x4f, 0x4c]
#guard compile "op_dup".toList matches .error .keyError

end Pycoin.Script
