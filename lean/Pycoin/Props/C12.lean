import Pycoin.Model.ScriptNum
import Pycoin.Model.ScriptStreamer
import Pycoin.Model.ScriptTools
namespace Pycoin.ScriptNum
theorem C12_placeholder : intToScriptBytes 0 = [] := by simp [intToScriptBytes]
end Pycoin.ScriptNum
