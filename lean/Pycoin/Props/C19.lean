import Pycoin.Proofs.Ripemd160
import Pycoin.Proofs.Murmur3
import Pycoin.Proofs.Bloom
import Pycoin.Proofs.HashHistory
import Pycoin.Model.HashPy
import Pycoin.Model.Bloom
import Pycoin.Spec.Murmur3
/-!
C19 — Hash primitives give standard digests in every configuration.  Property theorems only;
the layered proofs are in `Proofs/Lo32.lean`, `Proofs/Ripemd160.lean`, `Proofs/Murmur3.lean`,
`Proofs/Bloom.lean`.

The standard-spec functions (`Pycoin.Hash.sha256`, `ripemd160`, `murmur3`) are *validated* against
hashlib / an independent reference by the correspondence check, not verified.
-/
namespace Pycoin.C19
open Pycoin.Hash

/-! ## RIPEMD-160: the bundled pure-Python implementation computes the standard function -/

/-- The generated tables `ML MR RL RR KL KR` and the initial state of `contrib/ripemd160.py` are the standard's
`r r' s s' K K'` and IV (kernel-checked over all 80 steps; re-checked against the source on every run). -/
theorem C19_ripemd160_tables :
    (∀ j : Nat, j < 80 → pyGetItem Gen.HashTables.ML (j : Int) = .ok ((Rmd.rL.getD j 0 : Nat) : Int)) ∧
    (∀ j : Nat, j < 80 → pyGetItem Gen.HashTables.MR (j : Int) = .ok ((Rmd.rR.getD j 0 : Nat) : Int)) ∧
    (∀ j : Nat, j < 80 → pyGetItem Gen.HashTables.RL (j : Int) = .ok ((Rmd.sL.getD j 0 : Nat) : Int)) ∧
    (∀ j : Nat, j < 80 → pyGetItem Gen.HashTables.RR (j : Int) = .ok ((Rmd.sR.getD j 0 : Nat) : Int)) ∧
    (∀ j : Nat, j < 80 → pyGetItem Gen.HashTables.KL ((j : Int) >>> 4) = .ok (((Rmd.kL.getD (j / 16) 0).toNat : Nat) : Int)) ∧
    (∀ j : Nat, j < 80 → pyGetItem Gen.HashTables.KR ((j : Int) >>> 4) = .ok (((Rmd.kR.getD (j / 16) 0).toNat : Nat) : Int)) ∧
    Ripemd160Py.lo5 <$> Ripemd160Py.init = .ok Rmd.init :=
  ⟨fun j h => (Ripemd160Py.tbl_ML j h).1, fun j h => (Ripemd160Py.tbl_MR j h).1, fun j h => (Ripemd160Py.tbl_RL j h).1,
   fun j h => (Ripemd160Py.tbl_RR j h).1, Ripemd160Py.tbl_KL, Ripemd160Py.tbl_KR, by
    rw [Ripemd160Py.init_ok]; exact congrArg Except.ok Ripemd160Py.init_lo5⟩

/-- The compression function as coded — chaining values of any width or sign, never masked by the code — acts on
their residues mod 2^32 exactly as the standard's compression function acts on 32-bit words. -/
theorem C19_ripemd160_compress (h : Ripemd160Py.St) (block : Bytes) (hb : block.length = 64) :
    ∃ s, Ripemd160Py.compress h block = .ok s ∧
      Ripemd160Py.lo5 s = Rmd.compress (Ripemd160Py.lo5 h) (Rmd.wordsLE block) :=
  Ripemd160Py.compress_ok h block hb

/-- **C19.ripemd160_py_eq_spec** — for every byte string (no length bound other than the one the code itself
enforces through `struct.pack("<Q", 8 * len(data))`), `pycoin.contrib.ripemd160.ripemd160` returns the standard
RIPEMD-160 digest and does not raise. -/
theorem C19_ripemd160_py_eq_spec (data : Bytes) (h : data.length < 2 ^ 61) :
    Ripemd160Py.ripemd160 data = .ok (ripemd160 data) :=
  Ripemd160Py.ripemd160_py_eq_spec data h

/-- the guard of the previous theorem is exactly the code's: from 2^61 bytes on, `struct.error` is raised -/
theorem C19_ripemd160_py_overflow (data : Bytes) (h : 2 ^ 61 ≤ data.length) :
    Ripemd160Py.ripemd160 data = .error .structError :=
  Ripemd160Py.ripemd160_py_overflow data h

example : Ripemd160Py.ripemd160 [0x61, 0x62, 0x63] = .ok (ripemd160 [0x61, 0x62, 0x63]) :=
  C19_ripemd160_py_eq_spec _ (by decide)

/-- the hypothesis of the overflow theorem is satisfiable (by a list nobody can store) -/
example : 2 ^ 61 ≤ (List.replicate (2 ^ 61) (0 : UInt8)).length := by
  rw [List.length_replicate]; exact Nat.le_refl _

/-! ## MurmurHash3: the Bloom-filter hash -/

/-- **C19.murmur3_py_eq_spec** — for every byte string and every integer seed (any width, any sign),
`bloomfilter.murmur3(data, seed)` returns MurmurHash3 x86_32 of `data` under the seed reduced mod 2^32, and does
not raise.  `data.length < 2^32` is the domain of the reference algorithm (its length parameter is a 32-bit `int`);
the code's `length & 0xFFFFFFFC` agrees with it exactly there. -/
theorem C19_murmur3_py_eq_spec (data : Bytes) (seed : Int) (hlen : data.length < 2 ^ 32) :
    Murmur3Py.murmur3 data seed = .ok ((murmur3 data (lo32 seed)).toNat : Int) :=
  Murmur3Py.murmur3_py_eq_spec data seed hlen

/-- wider (or negative) seeds act mod 2^32: the seed enters only through its low word -/
theorem C19_murmur3_seed_mod (data : Bytes) (seed : Int) (hlen : data.length < 2 ^ 32) :
    Murmur3Py.murmur3 data seed = Murmur3Py.murmur3 data (seed % 2 ^ 32) := by
  rw [C19_murmur3_py_eq_spec _ _ hlen, C19_murmur3_py_eq_spec _ _ hlen]
  have : lo32 (seed % 2 ^ 32) = lo32 seed := by
    apply UInt32.toBitVec_inj.1
    apply BitVec.eq_of_toNat_eq
    simp only [lo32_toBitVec, BitVec.toNat_ofInt]
    have : ((2 ^ 32 : Nat) : Int) = 2 ^ 32 := by decide
    rw [this, Int.emod_emod_of_dvd _ (Int.dvd_refl _)]
  rw [this]

/-- the low word of a non-negative seed below 2^32 is the seed itself -/
theorem C19_murmur3_seed_u32 (s : UInt32) : lo32 (s.toNat : Int) = s := Ripemd160Py.lo32_toNat s

example : Murmur3Py.murmur3 [0x21, 0x43, 0x65] (2 ^ 64 + 1) = .ok ((murmur3 [0x21, 0x43, 0x65] 1).toNat : Int) := by
  rw [C19_murmur3_py_eq_spec _ _ (by decide)]; rfl

/-! ## compound hashes -/

theorem sha256_length (m : Bytes) : (sha256 m).length = 32 := by
  simp [sha256, u32be]

/-- **C19.hash160_def** — whichever RIPEMD-160 implementation `get_best_ripemd160` selected (native hashlib,
PyCrypto, or the bundled pure-Python fallback), `hash160(x)` is `RIPEMD-160(SHA-256(x))` and does not raise. -/
theorem C19_hash160_def (impl : HashPy.Impl) (data : Bytes) :
    HashPy.hash160 impl data = .ok (hash160 data) := by
  cases impl
  · rfl
  · rfl
  · exact C19_ripemd160_py_eq_spec _ (by rw [sha256_length]; decide)

/-- `ripemd160(x).digest()` is the standard digest under every implementation choice -/
theorem C19_ripemd160_any_impl (impl : HashPy.Impl) (data : Bytes) (h : data.length < 2 ^ 61) :
    HashPy.ripemd160 impl data = .ok (ripemd160 data) := by
  cases impl
  · rfl
  · rfl
  · exact C19_ripemd160_py_eq_spec _ h

/-- the fallback is selected exactly when native RIPEMD-160 is disabled by the environment, unlisted or not
working, and PyCrypto is absent; setting `PYCOIN_USE_PYTHON_RIPEMD160` to a non-empty value never selects native -/
theorem C19_select (e : HashPy.Env) :
    (HashPy.getBestRipemd160 e = .native ↔ (e.algListed = true ∧ HashPy.truthy e.envVar = false ∧ e.nativeWorks = true)) ∧
    (HashPy.getBestRipemd160 e = .purePython ↔
      (¬ (e.algListed = true ∧ HashPy.truthy e.envVar = false ∧ e.nativeWorks = true) ∧ e.pycrypto = false)) := by
  obtain ⟨a, v, w, p⟩ := e
  cases a <;> cases w <;> cases p <;> cases h : HashPy.truthy v <;> simp [HashPy.getBestRipemd160, h]

/-- `double_sha256(x)` is SHA-256 applied twice (definitional composition, as coded) -/
theorem C19_dsha256_def (data : Bytes) : HashPy.doubleSha256 data = dsha256 data := rfl


/-! ## Bloom filter: BIP37 bit positions, and added elements always match

`Bip37.testBit filter i` reads byte `i / 8`, bit `i % 8` (mask `1 << (i % 8)`); `Bip37.bitIndex size tweak item k` is
`MurmurHash3(item, seed = k * 0xFBA4C795 + tweak mod 2^32) mod (8 * size)`; `Bloom.WF` is the invariant `__init__`
establishes (`bit_count = 8 * len(filter_bytes)`, non-empty filter). -/

/-- `BloomFilter(size, n, tweak)` for `0 < size ≤ 36000` succeeds, is well formed and has no bit set -/
theorem C19_bloom_new (size : Nat) (h0 : 0 < size) (h1 : size ≤ 36000) (nh tweak : Int) :
    ∃ f, Bloom.new (size : Int) nh tweak = .ok f ∧ Bloom.WF f ∧ f.filterBytes = List.replicate size 0 ∧
      f.hashFunctionCount = nh ∧ f.tweak = tweak :=
  Bloom.new_ok size h0 h1 nh tweak

/-- **C19.bloom_bits** — `add_item` never raises on a well-formed filter, leaves size, tweak and hash count alone,
and afterwards a bit is set iff it was set before or it is one of the BIP37 positions of the element: for every hash
function `k < hash_function_count`, bit `murmur3(item, (k * 0xFBA4C795 + tweak) mod 2^32) mod (8 * size)`, stored in
byte `i / 8` under mask `1 << (i % 8)`.  Tweaks of any width or sign act mod 2^32 (`lo32`). -/
theorem C19_bloom_bits (f : Bloom.Filter) (hwf : Bloom.WF f) (item : Bytes) (hlen : item.length < 2 ^ 32) :
    ∃ f', Bloom.addItem f item = .ok f' ∧ Bloom.Same f f' ∧
      ∀ i, Bip37.testBit f'.filterBytes i =
        (Bip37.testBit f.filterBytes i ||
          (List.range f.hashFunctionCount.toNat).any fun k =>
            decide (i = Bip37.bitIndex f.filterBytes.length (lo32 f.tweak) item k)) :=
  Bloom.addItem_ok f hwf item hlen

/-- **C19.bloom_monotone** — after any history of adds (induction over the history) no bit has been cleared and
every element that was added matches: all of its `hash_function_count` BIP37 bits are set (`CBloomFilter::contains`). -/
theorem C19_bloom_monotone (f : Bloom.Filter) (hwf : Bloom.WF f) (items : List Bytes)
    (hlen : ∀ x ∈ items, x.length < 2 ^ 32) :
    ∃ f', items.foldlM Bloom.addItem f = .ok f' ∧ Bloom.Same f f' ∧
      (∀ i, Bip37.testBit f.filterBytes i = true → Bip37.testBit f'.filterBytes i = true) ∧
      ∀ x ∈ items, Bip37.contains f'.filterBytes f.hashFunctionCount.toNat (lo32 f.tweak) x = true :=
  Bloom.history_ok items f hwf hlen

/-- `add_hash160` is `add_item`; `add_spendable` adds `tx_hash ‖ index` (4 bytes little-endian) or raises `struct.error` -/
theorem C19_bloom_wrappers (f : Bloom.Filter) (h : Bytes) (idx : Nat) (hi : idx < 2 ^ 32) :
    Bloom.addHash160 f h = Bloom.addItem f h ∧
    Bloom.addSpendable f h (idx : Int) = Bloom.addItem f (h ++ leBytes idx 4) := by
  refine ⟨rfl, ?_⟩
  have : (0 : Int) ≤ (idx : Int) ∧ (idx : Int) < 2 ^ 32 := by omega
  simp only [Bloom.addSpendable, this, and_self, if_true, Int.toNat_natCast]

/-- non-vacuity: a fresh 3-byte filter with 5 hash functions is well formed, and adding one element to it matches -/
example : ∃ f f', Bloom.new 3 5 0 = .ok f ∧ Bloom.addItem f [1, 2, 3] = .ok f' ∧
    Bip37.contains f'.filterBytes 5 0 [1, 2, 3] = true := by
  obtain ⟨f, h1, hwf, _, hn, ht⟩ := C19_bloom_new 3 (by decide) (by decide) 5 0
  obtain ⟨f', h2, _, _, hc⟩ := C19_bloom_monotone f hwf [[1, 2, 3]] (by simp)
  refine ⟨f, f', h1, ?_, ?_⟩
  · simp only [List.foldlM_cons, List.foldlM_nil] at h2
    cases h : Bloom.addItem f [1, 2, 3] with
    | ok v => rw [h] at h2; exact h2
    | error e => rw [h] at h2; cases h2
  · have := hc [1, 2, 3] (by simp)
    rw [hn, ht] at this
    exact this


/-! ## histories on reused buffers -/

/-- **C19.digest_history** — in any history of calls (`ripemd160(buf).digest()`, `hash160(buf)`,
`contrib.ripemd160(buf)`, `double_sha256`, `murmur3`, Bloom-filter adds and queries) interleaved with rebinding and
in-place overwriting of the argument buffers, under every implementation choice, every answer is the one obtained
with the standard digest functions applied to the contents the buffer has *at that step*: nothing is remembered
from earlier calls.  `GoodStep`/`GoodState`: buffers are byte strings (`bytes`, `bytearray`) below 2^61 bytes. -/
theorem C19_digest_history (impl : HashPy.Impl) (st : HashHistory.State) (steps : List HashHistory.Step)
    (hs : HashHistory.GoodState st) (hg : ∀ s ∈ steps, HashHistory.GoodStep s) :
    HashHistory.exec (HashHistory.implFns impl) st steps = HashHistory.exec HashHistory.specFns st steps :=
  HashHistory.exec_agree impl steps st hs hg

/-- the instance the seeded memo defect violates: hash a bytearray, overwrite it in place, hash it again -/
example (impl : HashPy.Impl) (a b : Bytes) (ha : a.length < 2 ^ 61) (hb : b.length < 2 ^ 61) :
    HashHistory.exec (HashHistory.implFns impl) HashHistory.empty [.new 0 .bytearray a, .rmd 0, .set 0 b, .rmd 0] =
      [.ok .unit, .ok (.bytes (ripemd160 a)), .ok .unit, .ok (.bytes (ripemd160 b))] := by
  rw [C19_digest_history impl _ _ (by intro p hp; cases hp)
    (by intro s hs; simp only [List.mem_cons, List.mem_nil_iff, or_false] at hs
        rcases hs with rfl | rfl | rfl | rfl
        · exact ⟨by decide, ha⟩
        · trivial
        · exact hb
        · trivial)]
  rfl

end Pycoin.C19
