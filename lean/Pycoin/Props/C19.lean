import Pycoin.Model.HashPy
import Pycoin.Model.Bloom
import Pycoin.Spec.Murmur3
/-!
C19 — Hash primitives give standard digests in every configuration.
-/
namespace Pycoin.C19
open Pycoin.Hash

/-- `double_sha256(x)` is SHA-256 applied twice (definitional composition, as coded) -/
theorem C19_dsha256_def (data : Bytes) : HashPy.doubleSha256 data = dsha256 data := rfl

end Pycoin.C19
