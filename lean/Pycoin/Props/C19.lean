import Pycoin.Proofs.Ripemd160
import Pycoin.Model.HashPy
import Pycoin.Model.Bloom
import Pycoin.Spec.Murmur3
/-!
C19 — Hash primitives give standard digests in every configuration.  Property theorems only;
the layered proofs are in `Proofs/Lo32.lean`, `Proofs/Ripemd160.lean`, `Proofs/Murmur3.lean`,
`Proofs/Bloom.lean`.

The standard-spec functions (`Pycoin.Hash.sha256`, `ripemd160`, `murmur3`) are *validated* against
hashlib / an independent reference by the correspondence check, not verified.
-/
namespace Pycoin.C19
open Pycoin.Hash

/-! ## RIPEMD-160: the bundled pure-Python implementation computes the standard function -/

/-- The generated tables `ML MR RL RR KL KR` and the initial state of `contrib/ripemd160.py` are the standard's
`r r' s s' K K'` and IV (kernel-checked over all 80 steps; re-checked against the source on every run). -/
theorem C19_ripemd160_tables :
    (∀ j : Nat, j < 80 → pyGetItem Gen.HashTables.ML (j : Int) = .ok ((Rmd.rL.getD j 0 : Nat) : Int)) ∧
    (∀ j : Nat, j < 80 → pyGetItem Gen.HashTables.MR (j : Int) = .ok ((Rmd.rR.getD j 0 : Nat) : Int)) ∧
    (∀ j : Nat, j < 80 → pyGetItem Gen.HashTables.RL (j : Int) = .ok ((Rmd.sL.getD j 0 : Nat) : Int)) ∧
    (∀ j : Nat, j < 80 → pyGetItem Gen.HashTables.RR (j : Int) = .ok ((Rmd.sR.getD j 0 : Nat) : Int)) ∧
    (∀ j : Nat, j < 80 → pyGetItem Gen.HashTables.KL ((j : Int) >>> 4) = .ok (((Rmd.kL.getD (j / 16) 0).toNat : Nat) : Int)) ∧
    (∀ j : Nat, j < 80 → pyGetItem Gen.HashTables.KR ((j : Int) >>> 4) = .ok (((Rmd.kR.getD (j / 16) 0).toNat : Nat) : Int)) ∧
    Ripemd160Py.lo5 <$> Ripemd160Py.init = .ok Rmd.init :=
  ⟨fun j h => (Ripemd160Py.tbl_ML j h).1, fun j h => (Ripemd160Py.tbl_MR j h).1, fun j h => (Ripemd160Py.tbl_RL j h).1,
   fun j h => (Ripemd160Py.tbl_RR j h).1, Ripemd160Py.tbl_KL, Ripemd160Py.tbl_KR, by
    rw [Ripemd160Py.init_ok]; exact congrArg Except.ok Ripemd160Py.init_lo5⟩

/-- The compression function as coded — chaining values of any width or sign, never masked by the code — acts on
their residues mod 2^32 exactly as the standard's compression function acts on 32-bit words. -/
theorem C19_ripemd160_compress (h : Ripemd160Py.St) (block : Bytes) (hb : block.length = 64) :
    ∃ s, Ripemd160Py.compress h block = .ok s ∧
      Ripemd160Py.lo5 s = Rmd.compress (Ripemd160Py.lo5 h) (Rmd.wordsLE block) :=
  Ripemd160Py.compress_ok h block hb

/-- **C19.ripemd160_py_eq_spec** — for every byte string (no length bound other than the one the code itself
enforces through `struct.pack("<Q", 8 * len(data))`), `pycoin.contrib.ripemd160.ripemd160` returns the standard
RIPEMD-160 digest and does not raise. -/
theorem C19_ripemd160_py_eq_spec (data : Bytes) (h : data.length < 2 ^ 61) :
    Ripemd160Py.ripemd160 data = .ok (ripemd160 data) :=
  Ripemd160Py.ripemd160_py_eq_spec data h

/-- the guard of the previous theorem is exactly the code's: from 2^61 bytes on, `struct.error` is raised -/
theorem C19_ripemd160_py_overflow (data : Bytes) (h : 2 ^ 61 ≤ data.length) :
    Ripemd160Py.ripemd160 data = .error .structError :=
  Ripemd160Py.ripemd160_py_overflow data h

example : Ripemd160Py.ripemd160 [0x61, 0x62, 0x63] = .ok (ripemd160 [0x61, 0x62, 0x63]) :=
  C19_ripemd160_py_eq_spec _ (by decide)

/-! ## compound hashes -/

/-- `double_sha256(x)` is SHA-256 applied twice (definitional composition, as coded) -/
theorem C19_dsha256_def (data : Bytes) : HashPy.doubleSha256 data = dsha256 data := rfl

end Pycoin.C19
