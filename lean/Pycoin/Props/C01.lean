import Pycoin.Proofs.ECDSA
import Pycoin.Proofs.Recover
import Pycoin.Proofs.RFC6979
import Pycoin.Proofs.CurveFacts.secp256k1
import Pycoin.Proofs.CurveFacts.secp256r1
import Pycoin.Proofs.CurveFacts.Order
import Pycoin.Proofs.NativeGen
import Pycoin.Proofs.NativeFacts
import Pycoin.Proofs.NativeSecp
import Pycoin.Proofs.NativeSecpGen
import Pycoin.Proofs.VerifySets
import Pycoin.Proofs.SignCongr
import Pycoin.Proofs.KeySign
import Pycoin.Proofs.CachedGen
/-!
C01 — ECDSA: deterministic signatures verify for the signer and for nobody else.  Property theorems; helper
lemmas in `Proofs/ECDSA.lean` (on top of the C02 refinement of the group law).

Setting: `[Good c]` and `ok : ECDSAOk c` (`n` an odd prime `≤ 2²⁵⁶`, `G` a reduced curve point, `n • G = ∞`) — both
proved below for secp256k1 and secp256r1 from the generated constants.  `G c` is the generator in Mathlib's group
`(W c).Point`, `zsm c a T` the action of `a : ZMod n` on an `n`-torsion point, `xModN` the `x`-coordinate mod `n`.
-/
namespace Pycoin.Curve
open Pycoin

variable {c : CurveParams} [Good c] (ok : ECDSAOk c)
include ok

/-- `Generator.verify(Q, z, (r, s))`, `z ≠ 0`, `Q` a reduced curve point: never raises and returns `True` exactly when
`1 ≤ r, s < n` and `x((z/s)•G + (r/s)•Q) mod n = r`; in particular every `r` or `s` outside `[1, n−1]` is rejected,
and a sum equal to infinity is rejected.  PARTIAL: extra hypothesis `n • Q = ∞` (it holds for every honest key
`Q = d•G`, and for every curve point if `#E(F_p) = n`: proved for secp256k1 and secp256r1, see
`C01_verify_iff_secp256k1` / `C01_verify_iff_secp256r1` below, which carry no such hypothesis). -/
theorem C01_verify_iff_partial (bf : Int) (Q : Pt) (hQ : OnCurve c Q) (rQ : Reduced c Q)
    (hQn : (c.n : Int) • toPoint c Q = 0) (z r s : Int) (hz : z ≠ 0) :
    ∃ b, verify c bf Q z r s = .ok b ∧
      (b = true ↔ 1 ≤ r ∧ r < c.n ∧ 1 ≤ s ∧ s < c.n ∧
        xModN c (zsm c ((z : ZMod c.n) * (s : ZMod c.n)⁻¹) (G c) +
          zsm c ((r : ZMod c.n) * (s : ZMod c.n)⁻¹) (toPoint c Q)) = some r) :=
  verify_iff ok bf Q hQ rQ hQn z r s hz

omit [Good c] ok in
/-- `z = 0` is refused before anything else, as coded -/
theorem C01_verify_zero (bf : Int) (Q : Pt) (r s : Int) : verify c bf Q 0 r s = .ok false := by
  simp [verify]

/-- whatever `sign_with_recid(d, z)` returns — with the default RFC 6979 nonce or any other `gen_k`, with any
blinding factors — satisfies `1 ≤ r, s < n` and verifies under the public key `d•G` as the code computes it.
(No hypothesis on `d`: the property's `1 ≤ d < n` is not even needed.) -/
theorem C01_sign_verifies (genK : Nat → Int → Int → Except Err Int) (bf bf' bf'' d z r s v : Int)
    (h : signWithRecid c bf genK d z = .ok (r, s, v)) :
    z ≠ 0 ∧ 1 ≤ r ∧ r < c.n ∧ 1 ≤ s ∧ s < c.n ∧
    ∃ Q, mulG c bf' d = .ok Q ∧ verify c bf'' Q z r s = .ok true :=
  sign_verifies ok genK bf bf' bf'' d z r s v h

/-- the instance with the default nonce function (`Generator.sign_with_recid(d, z)` as called by `Key.sign`) -/
theorem C01_sign_verifies_rfc6979 (bf bf' bf'' d z r s v : Int)
    (h : Pycoin.RFC6979.signWithRecid c bf d z = .ok (r, s, v)) :
    z ≠ 0 ∧ 1 ≤ r ∧ r < c.n ∧ 1 ≤ s ∧ s < c.n ∧
    ∃ Q, mulG c bf' d = .ok Q ∧ verify c bf'' Q z r s = .ok true :=
  sign_verifies ok _ bf bf' bf'' d z r s v h

/-- `verify` cannot tell `s` from `n − s`: comparing backends "up to s ↔ n−s" loses nothing -/
theorem C01_verify_neg_s (bf : Int) (Q : Pt) (hQ : OnCurve c Q) (rQ : Reduced c Q)
    (hQn : (c.n : Int) • toPoint c Q = 0) (z r s : Int) (hz : z ≠ 0) :
    verify c bf Q z r ((c.n : Int) - s) = verify c bf Q z r s :=
  verify_neg_s ok bf Q hQ rQ hQn z r s hz

omit [Good c] ok in
/-- when the first nonce `k = gen_k(n, d, z)` gives `r ≠ 0` and `s ≠ 0` the signature is the textbook one for that
nonce, `r = x(k•G) mod n`, `s = k⁻¹(z + d·r) mod n`, `recid = (y & 1) + 2·[x > n]`: with `gen_k` =
`deterministic_generate_k` this is the RFC 6979 signature.  (What `gen_k` returns is compared with an independent
RFC 6979 on every run; see `Spec/RFC6979.lean`.) -/
theorem C01_sign_eq_first_nonce (genK : Nat → Int → Int → Except Err Int) (bf d z k x y ki : Int) (hz : z ≠ 0)
    (hk : genK c.n d z = .ok k) (hm : mulG c bf k = .ok (some (x, y))) (hki : inverseN c k = .ok ki)
    (hr : x % c.n ≠ 0) (hs : (ki * (z + d * (x % c.n) % c.n)) % c.n ≠ 0) :
    signWithRecid c bf genK d z =
      .ok (x % c.n, (ki * (z + d * (x % c.n) % c.n)) % c.n, y % 2 + (if x > c.n then 2 else 0)) :=
  sign_first_nonce genK bf d z k x y ki hz hk hm hki hr hs

/-- public-key recovery (`possible_public_pairs_for_signature`) for `1 ≤ r, s < n`, `z ≠ 0`, any `y_parity`: never raises
and returns only curve points under which the signature verifies.  PARTIAL: extra hypotheses `p ≡ 3 (mod 4)` (every
Generator asserts it), `r³+ar+b ≠ 0` (no 2-torsion abscissa: true on curves of odd order) and "the curve points with
abscissa `r` are annihilated by `n`" (automatic when `#E(F_p) = n`).  All three are discharged for secp256k1 and
secp256r1 in `C01_recover_sound_secp256k1` / `C01_recover_sound_secp256r1` below. -/
theorem C01_recover_sound_partial (h4 : c.p % 4 = 3) (bf bf' z r s : Int) (par : Option Int) (hz : z ≠ 0)
    (hr1 : 1 ≤ r) (hr2 : r < c.n) (hs1 : 1 ≤ s) (hs2 : s < c.n) (hα : alphaOf c r ≠ 0)
    (htors : ∀ y, containsXY c r y = true → (c.n : Int) • toPoint c (some (r, y)) = 0) :
    ∃ l, possiblePublicPairsForSignature c bf z r s par = .ok l ∧
      ∀ Q ∈ l, OnCurve c Q ∧ verify c bf' Q z r s = .ok true :=
  recover_sound ok h4 bf bf' z r s par hz hr1 hr2 hs1 hs2 hα htors

/-- recovery contains the signer: if `(r, s)` was made from the nonce point `k•G = (x, y)` with `1 ≤ x < n` (so `r = x`)
and `s = k⁻¹(z + d·r)`, then the public key `d•G` (as the code computes it) is among the recovered keys, and with
`y_parity = y & 1` it is the only one.  No torsion hypothesis is needed here: both candidates are `±k•G`. -/
theorem C01_recover_complete (h4 : c.p % 4 = 3) (bf bf' bf'' d z k x y s : Int) (hz : z ≠ 0)
    (hk : mulG c bf k = .ok (some (x, y))) (hx1 : 1 ≤ x) (hxn : x < c.n) (hs1 : 1 ≤ s) (hs2 : s < c.n)
    (hs : (s : ZMod c.n) = (k : ZMod c.n)⁻¹ * ((z : ZMod c.n) + (d : ZMod c.n) * (x : ZMod c.n))) :
    ∃ Q l, mulG c bf'' d = .ok Q ∧ possiblePublicPairsForSignature c bf' z x s none = .ok l ∧ Q ∈ l ∧
      possiblePublicPairsForSignature c bf' z x s (some (y % 2)) = .ok [Q] :=
  recover_complete ok h4 bf bf' bf'' d z k x y s hz hk hx1 hxn hs1 hs2 hs

end Pycoin.Curve

namespace Pycoin.Curve
/-! ### the retry loop can walk into infinity (known finding `sign-retry-walks-into-infinity`) -/

/-- y² = x³ + 41x + 40 over F₄₃, G = (0, 13), prime order 53 -/
def toy53 : CurveParams := { p := 43, a := 41, b := 40, gx := 0, gy := 13, n := 53 }

instance good_toy53 : Good toy53 := Good.of_int toy53 (by decide) (by decide)

theorem ecdsaOk_toy53 : ECDSAOk toy53 :=
  ⟨by decide, by decide, by decide, by decide, by unfold Reduced basis; decide,
    order_of_eval toy53 (by decide) (by decide +kernel)⟩

/-- REFUTED: "for every `d ∈ [1, n−1]` and `z ≠ 0` signing returns a signature" fails on a toy curve of prime order
satisfying every hypothesis of the other theorems: with `d = 2`, `z = 25` the RFC 6979 nonce is `k = 51` (see the
`#guard`), which gives `s = 0`; the retry `k += 1` tries `k = 52 = n − 1`, where `r = x(−G) = 0`, then `k = 53 = n`,
where `k•G = ∞` and `p1[0] % n` raises `TypeError`.  Unreachable on 256-bit curves; replayed on the implementation
by the corpus. -/
theorem C01_sign_returns_refuted :
    ¬ ∀ (c : CurveParams) [Good c], ECDSAOk c → ∀ (genK : Nat → Int → Int → Except Err Int) (d z : Int),
        (∃ k, genK c.n d z = .ok k ∧ 1 ≤ k ∧ k < c.n) → 1 ≤ d → d < c.n → z ≠ 0 →
        ∃ r s v, signWithRecid c 0 genK d z = .ok (r, s, v) := by
  intro h
  obtain ⟨r, s, v, hrs⟩ := h toy53 ecdsaOk_toy53 (fun _ _ _ => .ok 51) 2 25
    ⟨51, rfl, by norm_num, by decide⟩ (by norm_num) (by decide) (by norm_num)
  have : signWithRecid toy53 0 (fun _ _ _ => .ok 51) 2 25 = .error .type := by decide +kernel
  rw [this] at hrs
  cases hrs

#guard Pycoin.RFC6979.deterministicGenerateK 53 2 25 matches .ok 51
#guard Pycoin.RFC6979.signWithRecid toy53 0 2 25 matches .error .type

end Pycoin.Curve

namespace Pycoin.RFC6979
open Pycoin Pycoin.Curve

/-- `rfc6979.deterministic_generate_k(n, d, z)` is RFC 6979 §3.2 with HMAC-SHA256 (`Spec/RFC6979.lean`, written from
the RFC text for arbitrary `qlen`): for every group order `n ≠ 0` of any bit length, every `0 ≤ d < n` and every
32-byte hash `h1` (with `z` its big-endian integer) the two return the same nonce after the same number of retries.
So the nonce is a function of both key and hash exactly as the RFC prescribes; that distinct `(d, z)` give distinct
nonces is then a property of HMAC-SHA256 (assumption, not a theorem). -/
theorem C01_deterministicK_eq_spec (fuel n : Nat) (hn : n ≠ 0) (d : Nat) (hd : d < n) (h1 : Bytes) (hh : h1.length = 32) :
    deterministicGenerateKFuel fuel n (d : Int) (beNat h1 : Int) =
      match Spec.RFC6979.generateK fuel n d h1 with
      | some k => .ok (k : Int)
      | none => .error .outOfFuel :=
  deterministicK_eq_spec fuel n hn d hd h1 hh

/-- the signature is the RFC 6979 deterministic ECDSA signature: when the RFC's nonce `k` (specification side) gives
`r ≠ 0` and `s ≠ 0` — on the production curves always — `Generator.sign_with_recid(d, z)` returns
`(x(k•G) mod n, k⁻¹(z + d·r) mod n, recid)`; on any curve (no hypothesis on `c` at all). -/
theorem C01_sign_eq_rfc6979 (c : CurveParams) (bf : Int) (d : Nat) (hd : d < c.n) (h1 : Bytes) (hh : h1.length = 32)
    (hz : (beNat h1 : Int) ≠ 0) (k : Nat) (hk : Spec.RFC6979.generateK defaultFuel c.n d h1 = some k)
    (x y ki : Int) (hm : mulG c bf k = .ok (some (x, y))) (hki : inverseN c k = .ok ki)
    (hr : x % c.n ≠ 0) (hs : (ki * ((beNat h1 : Int) + d * (x % c.n) % c.n)) % c.n ≠ 0) :
    signWithRecid c bf d (beNat h1) =
      .ok (x % c.n, (ki * ((beNat h1 : Int) + d * (x % c.n) % c.n)) % c.n, y % 2 + (if x > c.n then 2 else 0)) := by
  have hk' : deterministicGenerateK c.n (d : Int) (beNat h1 : Int) = .ok (k : Int) := by
    unfold deterministicGenerateK
    rw [deterministicK_eq_spec defaultFuel c.n (by omega) d hd h1 hh, hk]
  exact sign_first_nonce deterministicGenerateK bf d (beNat h1) k x y ki hz hk' hm hki hr hs

/-! validation of spec and model on a published secp256k1 vector (evaluated, a test): d = 1,
h1 = SHA-256("Satoshi Nakamoto"), k = 0x8F8A276C…5D15 -/
#guard Spec.RFC6979.generateK 10 Pycoin.Gen.Curves.secp256k1.n 1 ((Pycoin.Hex.decode "a0dc65ffca799873cbea0ac274015b9526505daaaed385155425f7337704883e").getD []) == some 64924834324861491611287137376651443740140697549795241003556133838654234778901
#guard (match deterministicGenerateK Pycoin.Gen.Curves.secp256k1.n 1 72759466100064397073952777052424474334519735946222029294952053344302920927294 with | .ok k => k == 64924834324861491611287137376651443740140697549795241003556133838654234778901 | _ => false)

end Pycoin.RFC6979

namespace Pycoin.Gen.Curves
open Pycoin.Curve

/-- the hypotheses of the generic theorems hold for the curves pycoin ships for ECDSA (constants as generated from
the code now): `n` an odd prime `≤ 2²⁵⁶` (Pratt certificate), `G` reduced and on the curve, `n • G = ∞` -/
theorem C01_ecdsaOk_secp256k1 : ECDSAOk secp256k1 :=
  ⟨prime_n_secp256k1, by decide +kernel, by decide +kernel, G_on_curve_secp256k1,
    by unfold Reduced basis; decide +kernel, order_G_secp256k1⟩

theorem C01_ecdsaOk_secp256r1 : ECDSAOk secp256r1 :=
  ⟨prime_n_secp256r1, by decide +kernel, by decide +kernel, G_on_curve_secp256r1,
    by unfold Reduced basis; decide +kernel, order_G_secp256r1⟩

/-! ### the shipped ECDSA curves, without torsion hypotheses

`#E(F_p) = n` is proved for secp256k1 and secp256r1 (`Proofs/CurveCard.lean`, `Proofs/CurveFacts/Order.lean`: `E` has at
most `2p + 1 < 3n` points, `n` divides `#E` because `G` has prime order `n`, and `#E = 2n` is excluded because
`x³ + ax + b` has no root modulo `p` — a generated certificate checked in the kernel).  So `n • Q = ∞` for *every* curve
point `Q`, and no curve point has `y = 0`: the extra hypotheses of the `_partial` theorems above hold on these curves. -/

/-- `Generator.verify(Q, z, (r, s))` on secp256k1, `z ≠ 0`, `Q` **any** reduced curve point: never raises and returns
`True` exactly when `1 ≤ r, s < n` and `x((z/s)•G + (r/s)•Q) mod n = r`.  Full: no hypothesis beyond the property's. -/
theorem C01_verify_iff_secp256k1 (bf : Int) (Q : Pt) (hQ : OnCurve secp256k1 Q) (rQ : Reduced secp256k1 Q)
    (z r s : Int) (hz : z ≠ 0) :
    ∃ b, verify secp256k1 bf Q z r s = .ok b ∧
      (b = true ↔ 1 ≤ r ∧ r < secp256k1.n ∧ 1 ≤ s ∧ s < secp256k1.n ∧
        xModN secp256k1 (zsm secp256k1 ((z : ZMod secp256k1.n) * (s : ZMod secp256k1.n)⁻¹) (G secp256k1) +
          zsm secp256k1 ((r : ZMod secp256k1.n) * (s : ZMod secp256k1.n)⁻¹) (toPoint secp256k1 Q)) = some r) :=
  C01_verify_iff_partial C01_ecdsaOk_secp256k1 bf Q hQ rQ (order_all_secp256k1 _) z r s hz

/-- the same on secp256r1 -/
theorem C01_verify_iff_secp256r1 (bf : Int) (Q : Pt) (hQ : OnCurve secp256r1 Q) (rQ : Reduced secp256r1 Q)
    (z r s : Int) (hz : z ≠ 0) :
    ∃ b, verify secp256r1 bf Q z r s = .ok b ∧
      (b = true ↔ 1 ≤ r ∧ r < secp256r1.n ∧ 1 ≤ s ∧ s < secp256r1.n ∧
        xModN secp256r1 (zsm secp256r1 ((z : ZMod secp256r1.n) * (s : ZMod secp256r1.n)⁻¹) (G secp256r1) +
          zsm secp256r1 ((r : ZMod secp256r1.n) * (s : ZMod secp256r1.n)⁻¹) (toPoint secp256r1 Q)) = some r) :=
  C01_verify_iff_partial C01_ecdsaOk_secp256r1 bf Q hQ rQ (order_all_secp256r1 _) z r s hz

/-- `verify` cannot tell `s` from `n − s`, for every reduced curve point of secp256k1 (honest key or not) -/
theorem C01_verify_neg_s_secp256k1 (bf : Int) (Q : Pt) (hQ : OnCurve secp256k1 Q) (rQ : Reduced secp256k1 Q)
    (z r s : Int) (hz : z ≠ 0) :
    verify secp256k1 bf Q z r ((secp256k1.n : Int) - s) = verify secp256k1 bf Q z r s :=
  C01_verify_neg_s C01_ecdsaOk_secp256k1 bf Q hQ rQ (order_all_secp256k1 _) z r s hz

theorem C01_verify_neg_s_secp256r1 (bf : Int) (Q : Pt) (hQ : OnCurve secp256r1 Q) (rQ : Reduced secp256r1 Q)
    (z r s : Int) (hz : z ≠ 0) :
    verify secp256r1 bf Q z r ((secp256r1.n : Int) - s) = verify secp256r1 bf Q z r s :=
  C01_verify_neg_s C01_ecdsaOk_secp256r1 bf Q hQ rQ (order_all_secp256r1 _) z r s hz

/-- public-key recovery (`possible_public_pairs_for_signature`) on secp256k1 for `1 ≤ r, s < n`, `z ≠ 0`, any `y_parity`:
never raises and returns only curve points under which the signature verifies.  Full: `p ≡ 3 (mod 4)`, "no point with
`y = 0`" and "every point is annihilated by `n`" are proved for this curve. -/
theorem C01_recover_sound_secp256k1 (bf bf' z r s : Int) (par : Option Int) (hz : z ≠ 0)
    (hr1 : 1 ≤ r) (hr2 : r < secp256k1.n) (hs1 : 1 ≤ s) (hs2 : s < secp256k1.n) :
    ∃ l, possiblePublicPairsForSignature secp256k1 bf z r s par = .ok l ∧
      ∀ Q ∈ l, OnCurve secp256k1 Q ∧ verify secp256k1 bf' Q z r s = .ok true :=
  C01_recover_sound_partial C01_ecdsaOk_secp256k1 (by decide +kernel) bf bf' z r s par hz hr1 hr2 hs1 hs2
    (no_root_secp256k1 _) (fun _ _ => order_all_secp256k1 _)

/-- the same on secp256r1 -/
theorem C01_recover_sound_secp256r1 (bf bf' z r s : Int) (par : Option Int) (hz : z ≠ 0)
    (hr1 : 1 ≤ r) (hr2 : r < secp256r1.n) (hs1 : 1 ≤ s) (hs2 : s < secp256r1.n) :
    ∃ l, possiblePublicPairsForSignature secp256r1 bf z r s par = .ok l ∧
      ∀ Q ∈ l, OnCurve secp256r1 Q ∧ verify secp256r1 bf' Q z r s = .ok true :=
  C01_recover_sound_partial C01_ecdsaOk_secp256r1 (by decide +kernel) bf bf' z r s par hz hr1 hr2 hs1 hs2
    (no_root_secp256r1 _) (fun _ _ => order_all_secp256r1 _)

end Pycoin.Gen.Curves

/-! ## the native-accelerated classes ("whichever arithmetic backend is active")

`Generator.verify`, `sign_with_recid`, `sign`, `possible_public_pairs_for_signature` call `self.inverse_mod`,
`self.multiply`, `self.raw_mul` / `self.__mul__`, which the OpenSSL mixin (`native/openssl.py`) and the libsecp256k1 mixin
(`native/secp256k1.py`, which also overrides `sign` and `verify` themselves) replace.  `Model/NativeCurve.lean` is that
code over an explicit method table (`Gen.*`), with the glue of both mixins modelled statement by statement and the C
libraries as PARAMETERS.  What the libraries are assumed to do is the hypothesis `LibCryptoOk L c` / `LibSecpOk S c`
(trusted base, stated as hypotheses, never axioms).  OpenSSL: the glue model is run against the real class on every run
and the contract is probed on the real library.  libsecp256k1: ABSENT from the sandbox — model and contract are tied to
the source and to the library's documentation by reading only. -/
namespace Pycoin.Native
open Pycoin Pycoin.Curve

section generic
variable {c : CurveParams} [Good c]

/-- the generic code over a method table, with the pure methods, is the pure model the theorems above are about -/
theorem C01_methods_pure (bf : Int) (genK : Nat → Int → Int → Except Err Int) (Q : Pt) (d z r s : Int) (par : Option Int) :
    Gen.verify (pureMethods c) c bf Q z r s = Curve.verify c bf Q z r s ∧
    Gen.signWithRecid (pureMethods c) c bf genK d z = Curve.signWithRecid c bf genK d z ∧
    Gen.sign (pureMethods c) c bf genK d z = Curve.sign c bf genK d z ∧
    Gen.possiblePublicPairsForSignature (pureMethods c) c bf z r s par = Curve.possiblePublicPairsForSignature c bf z r s par :=
  ⟨Gen.verify_pure c bf Q z r s, Gen.signWithRecid_pure c bf genK d z, Gen.sign_pure c bf genK d z,
    Gen.recover_pure c bf z r s par⟩

variable {L : LibCrypto}

/-- **verify through the OpenSSL class = verify of the pure class**, for every reduced curve point `Q` of the `n`-torsion and
ALL `z`, `r`, `s` (out-of-range and `z = 0` included) — so `C01_verify_iff_*` holds verbatim for the OpenSSL class -/
theorem C01_native_openssl_verify (hL : LibCryptoOk L c) (fits : CurveFits c) (ok : ECDSAOk c) (bf : Int) (Q : Pt)
    (hQ : OnCurve c Q) (rQ : Reduced c Q) (hQn : (c.n : Int) • toPoint c Q = 0) (z r s : Int) :
    Gen.verify (Ossl.methods L c) c bf Q z r s = Curve.verify c bf Q z r s := by
  obtain ⟨den, spec⟩ := hL
  exact ossl_verify_eq spec fits ok bf Q hQ rQ hQn z r s

/-- **sign_with_recid through the OpenSSL class = that of the pure class**: same `(r, s, recid)`, same exceptions, for every
`d`, `z` and every `gen_k` whose nonce is at most `2n` in absolute value -/
theorem C01_native_openssl_sign (hL : LibCryptoOk L c) (fits : CurveFits c) (ok : ECDSAOk c) (bf : Int)
    (genK : Nat → Int → Int → Except Err Int) (d z : Int) (hk : ∀ k, genK c.n d z = .ok k → k.natAbs ≤ 2 * c.n) :
    Gen.signWithRecid (Ossl.methods L c) c bf genK d z = Curve.signWithRecid c bf genK d z ∧
    Gen.sign (Ossl.methods L c) c bf genK d z = Curve.sign c bf genK d z := by
  obtain ⟨den, spec⟩ := hL
  exact ⟨ossl_signWithRecid_eq spec fits ok bf genK d z hk, ossl_sign_eq spec fits ok bf genK d z hk⟩

/-- … with the default RFC 6979 nonce no side condition is left: the nonce lies in `[1, n)` -/
theorem C01_native_openssl_sign_rfc6979 (hL : LibCryptoOk L c) (fits : CurveFits c) (ok : ECDSAOk c) (bf d z : Int) :
    Gen.signWithRecid (Ossl.methods L c) c bf Pycoin.RFC6979.deterministicGenerateK d z =
      Pycoin.RFC6979.signWithRecid c bf d z :=
  (C01_native_openssl_sign hL fits ok bf _ d z (fun k h => by
    have := deterministicGenerateK_range c.n d z k h
    omega)).1

/-- **recovery through the OpenSSL class = recovery of the pure class**, every `z`, `s`, parity, every `r ≥ 0` (in range
or not, `r ≡ 0 (mod n)` included: `AssertionError` in both since the repair of `inverse_mod`), when the curve points with
abscissa `r` are killed by `n` -/
theorem C01_native_openssl_recover (hL : LibCryptoOk L c) (fits : CurveFits c) (ok : ECDSAOk c) (bf z r s : Int)
    (par : Option Int) (hr0 : 0 ≤ r)
    (htors : ∀ y, containsXY c r y = true → (c.n : Int) • toPoint c (some (r, y)) = 0) :
    Gen.possiblePublicPairsForSignature (Ossl.methods L c) c bf z r s par =
      Curve.possiblePublicPairsForSignature c bf z r s par := by
  obtain ⟨den, spec⟩ := hL
  exact ossl_recover_eq spec fits ok bf z r s par hr0 htors

variable {S : LibSecp256k1}

/-- **libsecp256k1 `verify` = `Generator.verify`** for an affine reduced curve point `Q` of the `n`-torsion, `1 ≤ z < 2²⁵⁶`,
`0 ≤ r, s < 2²⁵⁶` (so every `r`, `s ∉ [1, n−1]` in that range is rejected, high-S signatures are accepted like low-S ones) -/
theorem C01_native_libsecp_verify (hS : LibSecpOk S c) (ok : ECDSAOk c) (hp256 : c.p ≤ 2 ^ 256) (bf qx qy : Int)
    (hQ : containsXY c qx qy = true) (rQ : Reduced c (some (qx, qy)))
    (hQn : (c.n : Int) • toPoint c (some (qx, qy)) = 0) (z r s : Int) (hz1 : 1 ≤ z) (hz2 : z < 2 ^ 256)
    (hr0 : 0 ≤ r) (hr2 : r < 2 ^ 256) (hs0 : 0 ≤ s) (hs2 : s < 2 ^ 256) :
    Secp.verify S (some (qx, qy)) z r s = Curve.verify c bf (some (qx, qy)) z r s := by
  obtain ⟨denP, denS, spec⟩ := hS
  exact secp_verify_eq spec ok hp256 bf qx qy hQ rQ hQn z r s hz1 hz2 hr0 hr2 hs0 hs2

omit [Good c] in
/-- outside `[0, 2²⁵⁶)` the glue's `to_bytes_32` raises `OverflowError` where the pure `verify` returns `False`: the two
backends differ there (`r` negative or `≥ 2²⁵⁶` cannot come out of a DER signature of 32-byte integers, but can be passed
to `Generator.verify` directly) -/
theorem C01_native_libsecp_verify_overflow (Q : Pt) (z r s : Int) (h : r < 0 ∨ 2 ^ 256 ≤ r) :
    Secp.verify S Q z r s = .error .overflow :=
  secp_verify_overflow Q z r s h

/-- **libsecp256k1 `sign` agrees with `Generator.sign` up to `s ↔ n − s`** (explicit `gen_k`): when the nonce `k ∈ [1, n)`
gives `r ≠ 0`, `s ≠ 0`, the pure class returns `(r, s)` and the libsecp256k1 class `(r, s)` or `(r, n − s)`, whichever is
low-S — exactly the normalisation the property allows -/
theorem C01_native_libsecp_sign_genk (hS : LibSecpOk S c) (ok : ECDSAOk c)
    (g : Nat → Int → Int → Except Err Int) (bf d z k x y ki : Int) (hz1 : 1 ≤ z) (hz2 : z < 2 ^ 256)
    (hd1 : 1 ≤ d) (hd2 : d < c.n) (hk : g c.n d z = .ok k) (hk1 : 1 ≤ k) (hk2 : k < c.n)
    (hm : mulG c bf k = .ok (some (x, y))) (hki : inverseN c k = .ok ki)
    (hr : x % c.n ≠ 0) (hs : (ki * (z + d * (x % c.n) % c.n)) % c.n ≠ 0) :
    ∃ r s s', Curve.sign c bf g d z = .ok (r, s) ∧ Secp.sign S c (some g) d z = .ok (r, s') ∧
      (s' = s ∨ s' = (c.n : Int) - s) ∧ s' ≤ (c.n : Int) / 2 := by
  obtain ⟨denP, denS, spec⟩ := hS
  obtain ⟨h1, h2⟩ := secp_sign_genk spec ok g bf d z k x y ki hz1 hz2 hd1 hd2 hk hk1 hk2 hm hki hr hs
  have hnpos : (0 : Int) < c.n := by exact_mod_cast ok.nprime.pos
  have hs0 := Int.emod_nonneg (ki * (z + d * (x % c.n) % c.n)) hnpos.ne'
  obtain ⟨-, -, l3, l4⟩ := lowS_le ok (s := (ki * (z + d * (x % c.n) % c.n)) % (c.n : Int)) (by omega)
    (Int.emod_lt_of_pos _ hnpos)
  exact ⟨_, _, _, h1, h2, l4, l3⟩

/-- … and with the default nonce (`gen_k=None`: the library's RFC 6979 against pycoin's `deterministic_generate_k`), for a
32-byte hash with `1 ≤ z < n` -/
theorem C01_native_libsecp_sign_rfc6979 (hS : LibSecpOk S c) (ok : ECDSAOk c) (bf : Int) (d : Nat) (h1 : Bytes)
    (hh : h1.length = 32) (hz1 : 1 ≤ beNat h1) (hzn : beNat h1 < c.n) (hd1 : 1 ≤ d) (hd2 : d < c.n)
    (k : Nat) (hk : Spec.RFC6979.generateK Pycoin.RFC6979.defaultFuel c.n d h1 = some k)
    (x y ki : Int) (hm : mulG c bf k = .ok (some (x, y))) (hki : inverseN c k = .ok ki)
    (hr : x % c.n ≠ 0) (hs : (ki * ((beNat h1 : Int) + d * (x % c.n) % c.n)) % c.n ≠ 0) :
    ∃ r s s', Pycoin.RFC6979.sign c bf d (beNat h1) = .ok (r, s) ∧ Secp.sign S c none d (beNat h1) = .ok (r, s') ∧
      (s' = s ∨ s' = (c.n : Int) - s) ∧ s' ≤ (c.n : Int) / 2 := by
  obtain ⟨denP, denS, spec⟩ := hS
  obtain ⟨g1, g2⟩ := secp_sign_default spec ok bf d h1 hh hz1 hzn hd1 hd2 k hk x y ki hm hki hr hs
  have hnpos : (0 : Int) < c.n := by exact_mod_cast ok.nprime.pos
  have hs0 := Int.emod_nonneg (ki * ((beNat h1 : Int) + d * (x % c.n) % c.n)) hnpos.ne'
  obtain ⟨-, -, l3, l4⟩ := lowS_le ok (s := (ki * ((beNat h1 : Int) + d * (x % c.n) % c.n)) % (c.n : Int)) (by omega)
    (Int.emod_lt_of_pos _ hnpos)
  exact ⟨_, _, _, g1, g2, l4, l3⟩

/-- the methods the libsecp256k1 mixin does NOT override, in the class with both mixins
(`GeneratorWithOptimizations(LibSECP256K1Optimizations, <OpenSSL mixin>, Generator)`: `k * self` and `int * Point` go to
libsecp256k1, `inverse_mod` and hence `Curve.add` to OpenSSL): **`sign_with_recid` and recovery equal the pure class's**,
under both contracts -/
theorem C01_native_libsecp_signWithRecid (hL : LibCryptoOk L c) (hS : LibSecpOk S c) (fits : CurveFits c) (ok : ECDSAOk c)
    (hp256 : c.p ≤ 2 ^ 256) (bf : Int) (genK : Nat → Int → Int → Except Err Int) (d z : Int)
    (hk : ∀ k, genK c.n d z = .ok k → k.natAbs ≤ 2 * c.n) :
    Gen.signWithRecid (Secp.methods S c (Ossl.methods L c)) c bf genK d z = Curve.signWithRecid c bf genK d z := by
  obtain ⟨den, spec⟩ := hL
  obtain ⟨denP, denS, specS⟩ := hS
  exact secpM_signWithRecid_eq spec specS fits ok hp256 bf genK d z hk

theorem C01_native_libsecp_recover (hL : LibCryptoOk L c) (hS : LibSecpOk S c) (fits : CurveFits c) (ok : ECDSAOk c)
    (hp256 : c.p ≤ 2 ^ 256) (bf z r s : Int) (par : Option Int) (hr0 : 0 ≤ r)
    (htors : ∀ y, containsXY c r y = true → (c.n : Int) • toPoint c (some (r, y)) = 0) :
    Gen.possiblePublicPairsForSignature (Secp.methods S c (Ossl.methods L c)) c bf z r s par =
      Curve.possiblePublicPairsForSignature c bf z r s par := by
  obtain ⟨den, spec⟩ := hL
  obtain ⟨denP, denS, specS⟩ := hS
  exact secpM_recover_eq spec specS fits ok hp256 bf z r s par hr0 htors

end generic

open Pycoin.Gen.Curves

/-! ### on the shipped curves no torsion hypothesis is left (`#E(F_p) = n`) -/

theorem C01_native_openssl_verify_secp256k1 {L : LibCrypto} (hL : LibCryptoOk L secp256k1) (bf : Int) (Q : Pt)
    (hQ : OnCurve secp256k1 Q) (rQ : Reduced secp256k1 Q) (z r s : Int) :
    Gen.verify (Ossl.methods L secp256k1) secp256k1 bf Q z r s = Curve.verify secp256k1 bf Q z r s :=
  C01_native_openssl_verify hL curveFits_secp256k1 ecdsaOk_secp256k1 bf Q hQ rQ (order_all_secp256k1 _) z r s

theorem C01_native_openssl_verify_secp256r1 {L : LibCrypto} (hL : LibCryptoOk L secp256r1) (bf : Int) (Q : Pt)
    (hQ : OnCurve secp256r1 Q) (rQ : Reduced secp256r1 Q) (z r s : Int) :
    Gen.verify (Ossl.methods L secp256r1) secp256r1 bf Q z r s = Curve.verify secp256r1 bf Q z r s :=
  C01_native_openssl_verify hL curveFits_secp256r1 ecdsaOk_secp256r1 bf Q hQ rQ (order_all_secp256r1 _) z r s

theorem C01_native_openssl_sign_secp256k1 {L : LibCrypto} (hL : LibCryptoOk L secp256k1) (bf d z : Int) :
    Gen.signWithRecid (Ossl.methods L secp256k1) secp256k1 bf Pycoin.RFC6979.deterministicGenerateK d z =
      Pycoin.RFC6979.signWithRecid secp256k1 bf d z :=
  C01_native_openssl_sign_rfc6979 hL curveFits_secp256k1 ecdsaOk_secp256k1 bf d z

theorem C01_native_openssl_sign_secp256r1 {L : LibCrypto} (hL : LibCryptoOk L secp256r1) (bf d z : Int) :
    Gen.signWithRecid (Ossl.methods L secp256r1) secp256r1 bf Pycoin.RFC6979.deterministicGenerateK d z =
      Pycoin.RFC6979.signWithRecid secp256r1 bf d z :=
  C01_native_openssl_sign_rfc6979 hL curveFits_secp256r1 ecdsaOk_secp256r1 bf d z

theorem C01_native_openssl_recover_secp256k1 {L : LibCrypto} (hL : LibCryptoOk L secp256k1) (bf z r s : Int)
    (par : Option Int) (hr0 : 0 ≤ r) :
    Gen.possiblePublicPairsForSignature (Ossl.methods L secp256k1) secp256k1 bf z r s par =
      Curve.possiblePublicPairsForSignature secp256k1 bf z r s par :=
  C01_native_openssl_recover hL curveFits_secp256k1 ecdsaOk_secp256k1 bf z r s par hr0 (fun _ _ => order_all_secp256k1 _)

theorem C01_native_openssl_recover_secp256r1 {L : LibCrypto} (hL : LibCryptoOk L secp256r1) (bf z r s : Int)
    (par : Option Int) (hr0 : 0 ≤ r) :
    Gen.possiblePublicPairsForSignature (Ossl.methods L secp256r1) secp256r1 bf z r s par =
      Curve.possiblePublicPairsForSignature secp256r1 bf z r s par :=
  C01_native_openssl_recover hL curveFits_secp256r1 ecdsaOk_secp256r1 bf z r s par hr0 (fun _ _ => order_all_secp256r1 _)

/-- libsecp256k1 `verify` on secp256k1, every affine reduced curve point -/
theorem C01_native_libsecp_verify_secp256k1 {S : LibSecp256k1} (hS : LibSecpOk S secp256k1) (bf qx qy : Int)
    (hQ : containsXY secp256k1 qx qy = true) (rQ : Reduced secp256k1 (some (qx, qy)))
    (z r s : Int) (hz1 : 1 ≤ z) (hz2 : z < 2 ^ 256) (hr0 : 0 ≤ r) (hr2 : r < 2 ^ 256) (hs0 : 0 ≤ s) (hs2 : s < 2 ^ 256) :
    Secp.verify S (some (qx, qy)) z r s = Curve.verify secp256k1 bf (some (qx, qy)) z r s :=
  C01_native_libsecp_verify hS ecdsaOk_secp256k1 (by decide +kernel) bf qx qy hQ rQ (order_all_secp256k1 _) z r s
    hz1 hz2 hr0 hr2 hs0 hs2

/-- non-vacuity of the contract on libcrypto (an executable instance; the same witnesses as in C02) -/
theorem C01_native_openssl_contract_satisfiable :
    LibCryptoOk (pureLib secp256k1) secp256k1 ∧ LibCryptoOk (pureLib secp256r1) secp256r1 :=
  ⟨pureLib_ok_secp256k1, pureLib_ok_secp256r1⟩

/-- non-vacuity of the contract on libsecp256k1: an executable instance (the pure model playing the library) satisfies it -/
theorem C01_native_libsecp_contract_satisfiable : LibSecpOk (pureSecp secp256k1) secp256k1 := pureSecp_ok_secp256k1

/-! evaluated examples (tests): the libsecp256k1 glue model over the pure-model library — a signature is low-S, verifies,
its high-S twin verifies too, out-of-range `r` is an `OverflowError`, an out-of-curve key is `False` -/
section examples
def exSig := Secp.sign (pureSecp secp256k1) secp256k1 none 12345 987654321
#guard (match exSig, Pycoin.RFC6979.sign secp256k1 0 12345 987654321 with
  | .ok (r, s), .ok (r', s') => r == r' && (s == s' || s == (secp256k1.n : Int) - s') && decide (s ≤ (secp256k1.n : Int) / 2)
  | _, _ => false)
#guard (match exSig, Curve.mulG secp256k1 0 12345 with
  | .ok (r, s), .ok Q =>
      (Secp.verify (pureSecp secp256k1) Q 987654321 r s matches .ok true) &&
      (Secp.verify (pureSecp secp256k1) Q 987654321 r ((secp256k1.n : Int) - s) matches .ok true) &&
      (Secp.verify (pureSecp secp256k1) Q 987654322 r s matches .ok false) &&
      (Secp.verify (pureSecp secp256k1) Q 987654321 (r + 2 ^ 256) s matches .error .overflow) &&
      (Secp.verify (pureSecp secp256k1) (some (1, 1)) 987654321 r s matches .ok false)
  | _, _ => false)
#guard Secp.mul (pureSecp secp256k1) secp256k1 (secp256k1.n + 5) == Curve.mulG secp256k1 77 5
#guard Secp.multiply (pureSecp secp256k1) secp256k1 (some (secp256k1.gx + secp256k1.p, secp256k1.gy)) 3 matches .error .overflow
#guard Secp.multiply (pureSecp secp256k1) secp256k1 (some (1, 1)) 3 matches .ok .pyFalse
end examples

end Pycoin.Native

/-! ## "… and for nobody else": the converse of recovery, and what it does not give

`C01_recover_sound_*` says recovered keys verify.  The converse — every key that verifies is `r⁻¹(s•R − z•G)` for a curve
point `R` with `x(R) ≡ r (mod n)` — holds where `#E(F_p) = n` (every curve point is in the `n`-torsion) and is proved here for
secp256k1 and secp256r1, together with the exact list of candidates: `x(R) ∈ {r, r + n}` because `p ≤ 2n`.
`possible_public_pairs_for_signature(z, (r, s))` looks at `x = r` ONLY (`points_for_x(r)`): a key whose nonce point has
`x(R) = r + n` verifies and is NOT returned; it is returned when the caller passes `(r + n, s)` (the compact-signature code of
C17 does so for recovery ids 2 and 3).  Consequences: for a fixed `(z, r, s)` at most four keys verify; for a fixed key and
`(r, s)` at most four residue classes of `z` modulo `n` verify — and the second numbers are not "one": see
`C01_second_hash_verifies`. -/
namespace Pycoin.Curve
open Pycoin

section converse
variable {c : CurveParams} [Good c] (ok : ECDSAOk c)
include ok

/-- the verifying keys of `(z, r, s)` are exactly the keys recovery returns at the abscissas `r` and `r + n`.
PARTIAL: extra hypotheses `p ≡ 3 (mod 4)`, `p ≤ 2n` and "`n` annihilates every curve point" (`#E(F_p) = n`); all three are
proved for secp256k1 and secp256r1 below. -/
theorem C01_verifying_keys_partial (h4 : c.p % 4 = 3) (hall : ∀ P : (W c).Point, (c.n : Int) • P = 0) (hp2n : c.p ≤ 2 * c.n)
    (bf bf' : Int) (Q : Pt) (hQ : OnCurve c Q) (rQ : Reduced c Q) (z r s : Int) (hz : z ≠ 0) :
    verify c bf Q z r s = .ok true ↔
      1 ≤ r ∧ r < c.n ∧ 1 ≤ s ∧ s < c.n ∧
      ((∃ l, possiblePublicPairsForSignature c bf' z r s none = .ok l ∧ Q ∈ l) ∨
       (∃ l, possiblePublicPairsForSignature c bf' z (r + c.n) s none = .ok l ∧ Q ∈ l)) :=
  verify_iff_recovered ok h4 hall hp2n bf bf' Q hQ rQ z r s hz

/-- the same in the group: `Q` verifies `(z, r, s)` iff `Q = r⁻¹(s•R − z•G)` for a point `R` with `x(R) mod n = r`
(`keyOfNonce c z r s R = (s/r)•R − (z/r)•G`).  PARTIAL: extra hypothesis `n • Q = ∞` (every curve point on secp256k1 / secp256r1). -/
theorem C01_verifying_keys_group_partial (bf : Int) (Q : Pt) (hQ : OnCurve c Q) (rQ : Reduced c Q)
    (hQn : (c.n : Int) • toPoint c Q = 0) (z r s : Int) (hz : z ≠ 0) :
    verify c bf Q z r s = .ok true ↔
      1 ≤ r ∧ r < c.n ∧ 1 ≤ s ∧ s < c.n ∧
      ∃ R : (W c).Point, (c.n : Int) • R = 0 ∧ xModN c R = some r ∧ toPoint c Q = keyOfNonce c z r s R :=
  verify_true_iff_nonce_point ok bf Q hQ rQ hQn z r s hz

/-- `verify` sees the hash modulo `n` only: `z` and `z + n` (and `z = n`, which is `≡ 0` but not refused) verify alike.
pycoin never reduces `z`; it refuses `z = 0` only.  PARTIAL: extra hypothesis `n • Q = ∞`, discharged in
`C01_verify_hash_mod_n_secp256k1` / `_secp256r1`. -/
theorem C01_verify_hash_mod_n_partial (bf : Int) (Q : Pt) (hQ : OnCurve c Q) (rQ : Reduced c Q)
    (hQn : (c.n : Int) • toPoint c Q = 0) (z z' r s : Int) (hz : z ≠ 0) (hz' : z' ≠ 0)
    (hzz : z % (c.n : Int) = z' % (c.n : Int)) : verify c bf Q z r s = verify c bf Q z' r s :=
  verify_congr_z ok bf Q hQ rQ hQn z z' r s hz hz' hzz

/-- "rejects any other hash", what is true of it.  PARTIAL (extra hypothesis: the two verifications look at the same nonce
point): if `(r, s)` verifies under `Q` for `z` and for `z'` with `(z/s)•G + (r/s)•Q = (z'/s)•G + (r/s)•Q`, then
`z ≡ z' (mod n)` — the map `z ↦ (z/s)•G` is injective modulo `n`.  Without the hypothesis the statement is false
(`C01_second_hash_verifies`); what remains is `C01_verifying_hashes_finite_*`. -/
theorem C01_verifying_hash_unique_mod_n_partial (z z' r s : Int) (hs1 : 1 ≤ s) (hs2 : s < c.n) (Q : (W c).Point)
    (h : noncePointOf c z r s Q = noncePointOf c z' r s Q) : z % (c.n : Int) = z' % (c.n : Int) :=
  noncePointOf_inj_z ok z z' r s (intCast_ne_zero_of_range s hs1 hs2) Q h

/-- ECDSA's second hash: what verifies for `z` under `d•G` verifies for every non-zero `z' ≡ −z − 2rd (mod n)` — the nonce
point is replaced by its negative.  True of every ECDSA verifier; "rejects a signature presented with any other hash" holds
only as an assumption on the hash function (nobody can find a message with that digest). -/
theorem C01_second_hash_verifies (bf bf' d : Int) (Q : Pt) (hQ : mulG c bf' d = .ok Q) (z z' r s : Int) (hz : z ≠ 0) (hz' : z' ≠ 0)
    (hzz : (z' : ZMod c.n) = -(z : ZMod c.n) - 2 * (r : ZMod c.n) * (d : ZMod c.n))
    (h : verify c bf Q z r s = .ok true) : verify c bf Q z' r s = .ok true := by
  obtain ⟨Q', q1, q2, q3, q4, -⟩ := pubkey_spec ok bf' d
  rw [hQ] at q1; injection q1 with q1; subst q1
  exact verify_second_hash ok bf Q q2 q3 d q4 z z' r s hz hz' hzz h

end converse

/-- non-vacuity and replay witness on the toy curve of order 53 (`d = 2`, `Q = 2•G`): the signature `(r, s) = (14, 41)` (nonce `k = 2`)
verifies for `z = 1` and for `z' = 49 ≡ −1 − 2·14·2 (mod 53)`, two hashes that are not congruent modulo `n`; a third one does not -/
example : mulG toy53 0 2 = .ok (some (14, 41)) ∧ verify toy53 0 (some (14, 41)) 1 14 41 = .ok true ∧
    verify toy53 0 (some (14, 41)) 49 14 41 = .ok true ∧ verify toy53 0 (some (14, 41)) 2 14 41 = .ok false ∧
    (1 : Int) % 53 ≠ 49 % 53 := by decide +kernel

end Pycoin.Curve

namespace Pycoin.Gen.Curves
open Pycoin.Curve

theorem p_le_2n_secp256k1 : secp256k1.p ≤ 2 * secp256k1.n := by decide +kernel
theorem p_le_2n_secp256r1 : secp256r1.p ≤ 2 * secp256r1.n := by decide +kernel

/-- **the verifying keys of `(z, r, s)` on secp256k1 are exactly the recovered keys** at the abscissas `r` and `r + n`: for every
reduced curve point `Q` and `z ≠ 0`, `Generator.verify(Q, z, (r, s))` is `True` iff `1 ≤ r, s < n` and `Q` is in
`possible_public_pairs_for_signature(z, (r, s))` or in `possible_public_pairs_for_signature(z, (r + n, s))`.  Full. -/
theorem C01_verifying_keys_secp256k1 (bf bf' : Int) (Q : Pt) (hQ : OnCurve secp256k1 Q) (rQ : Reduced secp256k1 Q)
    (z r s : Int) (hz : z ≠ 0) :
    verify secp256k1 bf Q z r s = .ok true ↔
      1 ≤ r ∧ r < secp256k1.n ∧ 1 ≤ s ∧ s < secp256k1.n ∧
      ((∃ l, possiblePublicPairsForSignature secp256k1 bf' z r s none = .ok l ∧ Q ∈ l) ∨
       (∃ l, possiblePublicPairsForSignature secp256k1 bf' z (r + secp256k1.n) s none = .ok l ∧ Q ∈ l)) :=
  C01_verifying_keys_partial C01_ecdsaOk_secp256k1 (by decide +kernel) order_all_secp256k1 p_le_2n_secp256k1 bf bf' Q hQ rQ z r s hz

theorem C01_verifying_keys_secp256r1 (bf bf' : Int) (Q : Pt) (hQ : OnCurve secp256r1 Q) (rQ : Reduced secp256r1 Q)
    (z r s : Int) (hz : z ≠ 0) :
    verify secp256r1 bf Q z r s = .ok true ↔
      1 ≤ r ∧ r < secp256r1.n ∧ 1 ≤ s ∧ s < secp256r1.n ∧
      ((∃ l, possiblePublicPairsForSignature secp256r1 bf' z r s none = .ok l ∧ Q ∈ l) ∨
       (∃ l, possiblePublicPairsForSignature secp256r1 bf' z (r + secp256r1.n) s none = .ok l ∧ Q ∈ l)) :=
  C01_verifying_keys_partial C01_ecdsaOk_secp256r1 (by decide +kernel) order_all_secp256r1 p_le_2n_secp256r1 bf bf' Q hQ rQ z r s hz

/-- for `r ≥ p − n` (all but `p − n < 2¹²⁹` of the `≈ 2²⁵⁶` values) there is no abscissa `r + n`: **verifying ⇔ recovered** -/
theorem C01_verifying_keys_eq_recovered_secp256k1 (bf bf' : Int) (Q : Pt) (hQ : OnCurve secp256k1 Q) (rQ : Reduced secp256k1 Q)
    (z r s : Int) (hz : z ≠ 0) (hr : (secp256k1.p : Int) ≤ r + secp256k1.n) :
    verify secp256k1 bf Q z r s = .ok true ↔
      1 ≤ r ∧ r < secp256k1.n ∧ 1 ≤ s ∧ s < secp256k1.n ∧
      ∃ l, possiblePublicPairsForSignature secp256k1 bf' z r s none = .ok l ∧ Q ∈ l :=
  verify_iff_recovered_large_r C01_ecdsaOk_secp256k1 (by decide +kernel) order_all_secp256k1 p_le_2n_secp256k1 bf bf' Q hQ rQ z r s hz hr

theorem C01_verifying_keys_eq_recovered_secp256r1 (bf bf' : Int) (Q : Pt) (hQ : OnCurve secp256r1 Q) (rQ : Reduced secp256r1 Q)
    (z r s : Int) (hz : z ≠ 0) (hr : (secp256r1.p : Int) ≤ r + secp256r1.n) :
    verify secp256r1 bf Q z r s = .ok true ↔
      1 ≤ r ∧ r < secp256r1.n ∧ 1 ≤ s ∧ s < secp256r1.n ∧
      ∃ l, possiblePublicPairsForSignature secp256r1 bf' z r s none = .ok l ∧ Q ∈ l :=
  verify_iff_recovered_large_r C01_ecdsaOk_secp256r1 (by decide +kernel) order_all_secp256r1 p_le_2n_secp256r1 bf bf' Q hQ rQ z r s hz hr

/-- **completeness of recovery for ANY verifying key whose nonce point has `x(R) < n`** (not only the honest signer of
`C01_recover_complete`): if `(z, r, s)` verifies under `Q` and `(z/s)•G + (r/s)•Q = (x, y)` with `x < n`, recovery returns `Q` -/
theorem C01_recover_complete_of_verify_secp256k1 (bf bf' : Int) (Q : Pt) (hQ : OnCurve secp256k1 Q) (rQ : Reduced secp256k1 Q)
    (z r s : Int) (hz : z ≠ 0) (hv : verify secp256k1 bf Q z r s = .ok true) (x y : Int)
    (hc : containsXY secp256k1 x y = true) (hx0 : 0 ≤ x) (hxp : x < secp256k1.p) (hy0 : 0 ≤ y) (hyp : y < secp256k1.p)
    (hR : toPoint secp256k1 (some (x, y)) = noncePointOf secp256k1 z r s (toPoint secp256k1 Q)) (hxn : x < secp256k1.n) :
    ∃ l, possiblePublicPairsForSignature secp256k1 bf' z r s none = .ok l ∧ Q ∈ l :=
  recovered_of_verify_small_x C01_ecdsaOk_secp256k1 (by decide +kernel) order_all_secp256k1 bf bf' Q hQ rQ z r s hz hv x y hc
    hx0 hxp hy0 hyp hR hxn

theorem C01_recover_complete_of_verify_secp256r1 (bf bf' : Int) (Q : Pt) (hQ : OnCurve secp256r1 Q) (rQ : Reduced secp256r1 Q)
    (z r s : Int) (hz : z ≠ 0) (hv : verify secp256r1 bf Q z r s = .ok true) (x y : Int)
    (hc : containsXY secp256r1 x y = true) (hx0 : 0 ≤ x) (hxp : x < secp256r1.p) (hy0 : 0 ≤ y) (hyp : y < secp256r1.p)
    (hR : toPoint secp256r1 (some (x, y)) = noncePointOf secp256r1 z r s (toPoint secp256r1 Q)) (hxn : x < secp256r1.n) :
    ∃ l, possiblePublicPairsForSignature secp256r1 bf' z r s none = .ok l ∧ Q ∈ l :=
  recovered_of_verify_small_x C01_ecdsaOk_secp256r1 (by decide +kernel) order_all_secp256r1 bf bf' Q hQ rQ z r s hz hv x y hc
    hx0 hxp hy0 hyp hR hxn

/-- **at most four public keys verify a given `(z, r, s)`** on secp256k1 (two with nonce abscissa `r`, two with `r + n`): the
structural half of "rejects a signature presented with any other key" -/
theorem C01_verifying_keys_finite_secp256k1 (bf z r s : Int) (hz : z ≠ 0) (l : List Pt) (hnd : l.Nodup)
    (hl : ∀ Q ∈ l, OnCurve secp256k1 Q ∧ Reduced secp256k1 Q ∧ verify secp256k1 bf Q z r s = .ok true) : l.length ≤ 4 :=
  verifying_keys_le_four C01_ecdsaOk_secp256k1 (by decide +kernel) order_all_secp256k1 p_le_2n_secp256k1 bf z r s hz l hnd hl

theorem C01_verifying_keys_finite_secp256r1 (bf z r s : Int) (hz : z ≠ 0) (l : List Pt) (hnd : l.Nodup)
    (hl : ∀ Q ∈ l, OnCurve secp256r1 Q ∧ Reduced secp256r1 Q ∧ verify secp256r1 bf Q z r s = .ok true) : l.length ≤ 4 :=
  verifying_keys_le_four C01_ecdsaOk_secp256r1 (by decide +kernel) order_all_secp256r1 p_le_2n_secp256r1 bf z r s hz l hnd hl

/-- **at most four residue classes of hashes verify under a given key and `(r, s)`** on secp256k1: the structural half of
"rejects a signature presented with any other hash" (it is not "one class": `C01_second_hash_verifies`) -/
theorem C01_verifying_hashes_finite_secp256k1 (bf : Int) (Q : Pt) (hQ : OnCurve secp256k1 Q) (rQ : Reduced secp256k1 Q) (r s : Int)
    (l : List Int) (hpw : l.Pairwise (fun z z' => z % (secp256k1.n : Int) ≠ z' % (secp256k1.n : Int)))
    (hl : ∀ z ∈ l, z ≠ 0 ∧ verify secp256k1 bf Q z r s = .ok true) : l.length ≤ 4 :=
  verifying_hashes_le_four C01_ecdsaOk_secp256k1 (by decide +kernel) p_le_2n_secp256k1 bf Q hQ rQ (order_all_secp256k1 _) r s l hpw hl

theorem C01_verifying_hashes_finite_secp256r1 (bf : Int) (Q : Pt) (hQ : OnCurve secp256r1 Q) (rQ : Reduced secp256r1 Q) (r s : Int)
    (l : List Int) (hpw : l.Pairwise (fun z z' => z % (secp256r1.n : Int) ≠ z' % (secp256r1.n : Int)))
    (hl : ∀ z ∈ l, z ≠ 0 ∧ verify secp256r1 bf Q z r s = .ok true) : l.length ≤ 4 :=
  verifying_hashes_le_four C01_ecdsaOk_secp256r1 (by decide +kernel) p_le_2n_secp256r1 bf Q hQ rQ (order_all_secp256r1 _) r s l hpw hl

/-- `z` and `z + n` (and any two non-zero hashes congruent modulo `n`) verify alike on secp256k1, for every curve point -/
theorem C01_verify_hash_mod_n_secp256k1 (bf : Int) (Q : Pt) (hQ : OnCurve secp256k1 Q) (rQ : Reduced secp256k1 Q)
    (z z' r s : Int) (hz : z ≠ 0) (hz' : z' ≠ 0) (hzz : z % (secp256k1.n : Int) = z' % (secp256k1.n : Int)) :
    verify secp256k1 bf Q z r s = verify secp256k1 bf Q z' r s :=
  C01_verify_hash_mod_n_partial C01_ecdsaOk_secp256k1 bf Q hQ rQ (order_all_secp256k1 _) z z' r s hz hz' hzz

theorem C01_verify_hash_mod_n_secp256r1 (bf : Int) (Q : Pt) (hQ : OnCurve secp256r1 Q) (rQ : Reduced secp256r1 Q)
    (z z' r s : Int) (hz : z ≠ 0) (hz' : z' ≠ 0) (hzz : z % (secp256r1.n : Int) = z' % (secp256r1.n : Int)) :
    verify secp256r1 bf Q z r s = verify secp256r1 bf Q z' r s :=
  C01_verify_hash_mod_n_partial C01_ecdsaOk_secp256r1 bf Q hQ rQ (order_all_secp256r1 _) z z' r s hz hz' hzz

/-! evaluated (tests, non-vacuity of `C01_verifying_keys_secp256k1`): (1) an honest signature — the signer verifies and is recovered at the
abscissa `r`; (2) a constructed nonce point with `x(R) = n + 2 ≥ n` (`r = 2`): the keys recovered at the abscissa `r + n` verify
`(z, 2, s)`, and recovery at the abscissa `r = 2`, which is all `Generator` users ask for, does not return them -/
#guard (match Pycoin.RFC6979.sign secp256k1 0 12345 987654321, mulG secp256k1 0 12345 with
  | .ok (r, s), .ok Q =>
    (verify secp256k1 0 Q 987654321 r s matches .ok true) &&
    (match possiblePublicPairsForSignature secp256k1 0 987654321 r s none with | .ok l => l.contains Q && l.length == 2 | _ => false)
  | _, _ => false)
#guard (match possiblePublicPairsForSignature secp256k1 0 987654321 (2 + secp256k1.n) 777 none,
    possiblePublicPairsForSignature secp256k1 0 987654321 2 777 none with
  | .ok [K0, K1], .ok l2 =>
    (verify secp256k1 0 K0 987654321 2 777 matches .ok true) && (verify secp256k1 0 K1 987654321 2 777 matches .ok true) &&
    !(l2.contains K0) && !(l2.contains K1) && (verify secp256k1 0 K0 987654321 3 777 matches .ok false)
  | _, _ => false)

end Pycoin.Gen.Curves

/-! ## "the nonce depends on both key and hash", without cryptographic assumptions

`deterministic_generate_k(n, d, z)` is a function of `hmacSeed n d z = int2octets(d) ‖ bits2octets(z)` alone
(`C01_nonce_factors_through_seed`), the seed is the RFC's (`C01_nonce_seed_eq_spec`), and it is an INJECTIVE encoding of
`(d, bits2int(z) mod n)` (`C01_nonce_seed_injective`): two `(key, hash)` pairs reach HMAC with the same input blocks iff the keys
are equal and the hashes agree after `bits2octets`.  For a 256-bit order these are `z' ∈ {z, z ± n}`
(`C01_nonce_seed_collisions_256`) — there the nonce IS shared, as RFC 6979 prescribes, and the two signatures are the same triple
(`C01_sign_hash_plus_n`), so nothing leaks; "distinct (key, hash) pairs" of the property has to be read as distinct
`(d, z mod n)`.  That distinct seeds give distinct nonces is a property of HMAC-SHA256 (an assumption: a collision of the
HMAC-DRBG outputs on distinct inputs). -/
namespace Pycoin.RFC6979
open Pycoin Pycoin.Curve

theorem C01_nonce_factors_through_seed (fuel n : Nat) (d val : Int) :
    deterministicGenerateKFuel fuel n d val =
      match hmacSeed n d val with
      | .error e => .error e
      | .ok seed => kFromSeed fuel n seed :=
  deterministicK_factors fuel n d val

/-- the seed is `int2octets(x) ‖ bits2octets(h1)` of the RFC-text specification, for every order and 32-byte hash -/
theorem C01_nonce_seed_eq_spec (n : Nat) (hn : n ≠ 0) (d : Nat) (hd : d < n) (h1 : Bytes) (hh : h1.length = 32) :
    hmacSeed n (d : Int) (beNat h1 : Int) = .ok (Spec.RFC6979.int2octets n d ++ Spec.RFC6979.bits2octets n h1) :=
  hmacSeed_eq_spec n hn d hd h1 hh

/-- injectivity of the encoding fed to HMAC, any order, any integers: same seed ⇔ same key and same reduced hash -/
theorem C01_nonce_seed_injective (n : Nat) (d d' val val' : Int) (x : Bytes) (hx : hmacSeed n d val = .ok x) :
    hmacSeed n d' val' = .ok x ↔
      (d = d' ∧ reducedHash n val = reducedHash n val' ∧ ∃ y, hmacSeed n d' val' = .ok y) :=
  hmacSeed_eq_iff n d d' val val' x hx

/-- which `(key, hash)` pairs share their HMAC-DRBG input on a 256-bit order: same key and `z' ∈ {z, z + n, z − n}` -/
theorem C01_nonce_seed_collisions_256 (n : Nat) (hbl : bitLength n = 256) (d d' z z' : Nat) (hd : d < n) (hd' : d' < n)
    (hz : z < 2 ^ 256) (hz' : z' < 2 ^ 256) :
    hmacSeed n d z = hmacSeed n d' z' ↔ (d = d' ∧ (z = z' ∨ z = z' + n ∨ z' = z + n)) :=
  hmacSeed_eq_iff_256 n hbl d d' z z' hd hd' hz hz'

/-- `z` and `z + n` get the same nonce AND the same signature (secp256k1; `0 < z`, `z + n < 2²⁵⁶`): the shared nonce signs
the same equation twice -/
theorem C01_sign_hash_plus_n_secp256k1 (bf : Int) (d z : Nat) (hd : d < Gen.Curves.secp256k1.n) (hz0 : 0 < z)
    (hz : z + Gen.Curves.secp256k1.n < 2 ^ 256) :
    signWithRecid Gen.Curves.secp256k1 bf d ((z : Int) + Gen.Curves.secp256k1.n) = signWithRecid Gen.Curves.secp256k1 bf d z :=
  signWithRecid_add_n _ (by decide +kernel) bf d z hd hz0 hz

theorem C01_sign_hash_plus_n_secp256r1 (bf : Int) (d z : Nat) (hd : d < Gen.Curves.secp256r1.n) (hz0 : 0 < z)
    (hz : z + Gen.Curves.secp256r1.n < 2 ^ 256) :
    signWithRecid Gen.Curves.secp256r1 bf d ((z : Int) + Gen.Curves.secp256r1.n) = signWithRecid Gen.Curves.secp256r1 bf d z :=
  signWithRecid_add_n _ (by decide +kernel) bf d z hd hz0 hz

/-! evaluated (tests): the nonce of `(d, z)` and of `(d, z + n)` coincide on secp256k1, those of `(d, z + 1)` and `(d + 1, z)` differ -/
#guard (deterministicGenerateK Gen.Curves.secp256k1.n 7 5 matches .ok _)
#guard (match deterministicGenerateK Gen.Curves.secp256k1.n 7 5, deterministicGenerateK Gen.Curves.secp256k1.n 7 (5 + Gen.Curves.secp256k1.n),
    deterministicGenerateK Gen.Curves.secp256k1.n 7 6, deterministicGenerateK Gen.Curves.secp256k1.n 8 5 with
  | .ok a, .ok b, .ok c, .ok d => a == b && a != c && a != d && c != d
  | _, _, _, _ => false)

end Pycoin.RFC6979

/-! ## `Key.sign` / `Key.verify` (the DER wrapper applications use) -/
namespace Pycoin.KeySign
open Pycoin Pycoin.Curve Pycoin.KeyCtor Pycoin.Gen.Curves

section generic
variable {c : CurveParams} [Good c] (ok : ECDSAOk c)
include ok

/-- **`Key.verify` never raises**: for a key whose public pair is on the curve (the `Key` constructor refuses any other), every
hash byte string and EVERY byte string presented as signature — malformed DER, trailing bytes, negative or oversized
integers, the empty string — is answered with a Boolean -/
theorem C01_key_verify_total (bf : Int) (k : Key) (hk : containsXY c k.pub.1 k.pub.2 = true) (h sig : Bytes) :
    ∃ b, keyVerify c bf k h sig = .ok b :=
  keyVerify_total ok bf k hk h sig

/-- on a blob that strict DER decoding accepts, `Key.verify` is `Generator.verify` of the decoded pair (to which
`C01_verify_iff_*` applies); on any other blob it is `False` -/
theorem C01_key_verify_eq_verify (bf : Int) (k : Key) (hk : containsXY c k.pub.1 k.pub.2 = true) (h sig : Bytes) :
    (∀ r s, Der.sigdecodeDer sig false = .ok (r, s) →
      ∃ b, verify c bf (some k.pub) (fromBytes32 h) r s = .ok b ∧ keyVerify c bf k h sig = .ok b) ∧
    (∀ e, Der.sigdecodeDer sig false = .error e → keyVerify c bf k h sig = .ok false) :=
  ⟨fun r s hd => keyVerify_decoded ok bf k hk h sig r s hd, fun e hd => keyVerify_bad_der bf k h sig e hd⟩

/-- **`Key.verify(h, Key.sign(h)) = True`** for every private key the constructor accepts and every hash on which `Key.sign`
returns (it raises `ValueError` on the zero hash); also under `public_copy()` and under any key object with the same public pair
(`Key.from_sec(key.sec())`: C10), whatever the blinding factors.  The signature is the strict DER of `1 ≤ r, s < n`. -/
theorem C01_key_sign_verifies (bf0 bf bf' d : Int) (comp : Bool) (k : Key) (hk : keyFromSecret c bf0 d comp = .ok k)
    (h sig : Bytes) (hs : keySign c bf k h = .ok sig) :
    fromBytes32 h ≠ 0 ∧
    (∃ r s : Int, 1 ≤ r ∧ r < c.n ∧ 1 ≤ s ∧ s < c.n ∧ Der.sigencodeDer r s = .ok sig ∧ Der.sigdecodeDer sig false = .ok (r, s)) ∧
    keyVerify c bf' k h sig = .ok true ∧ keyVerify c bf' (publicCopy k) h sig = .ok true ∧
    ∀ k' : Key, k'.pub = k.pub → keyVerify c bf' k' h sig = .ok true :=
  keySign_verifies ok bf0 bf bf' d comp k hk h sig hs

end generic

/-- a public key cannot sign: `RuntimeError`, before anything else -/
theorem C01_key_sign_public (c : CurveParams) (bf : Int) (k : Key) (hse : k.se = none) (h : Bytes) :
    keySign c bf k h = .error .runtime :=
  keySign_public bf k hse h

theorem field32_secp256k1 : Sec.Field32 secp256k1 := ⟨by decide +kernel, by decide +kernel, by decide +kernel⟩

/-- **histories on one key object** (secp256k1, the generator of every `Key` class): in any sequence of `sign`, `verify`,
`public_copy()` and `Key.from_sec(key.sec())` steps, every `verify` answer equals the answer of a fresh public key built from the
initial public pair — no earlier call, copy or re-encoding influences it -/
theorem C01_key_history_fresh (bf : Int) (steps : List Step) (st : HState) (hk : KInv secp256k1 st.key) :
    answersOK secp256k1 bf st.key.pub st steps :=
  history_fresh field32_secp256k1 (by decide +kernel) bf st.key.pub steps st hk rfl

/-- non-vacuity: the keys the constructor makes from a secret exponent satisfy the invariant of the history theorem -/
theorem C01_key_history_invariant (bf d : Int) (comp : Bool) (k : Key) (hk : keyFromSecret secp256k1 bf d comp = .ok k) :
    KInv secp256k1 k := by
  have ok := C01_ecdsaOk_secp256k1
  unfold keyFromSecret keyFromSecretWith at hk
  split at hk
  · cases hk
  cases hm : mulG secp256k1 bf d with
  | error e => rw [hm] at hk; cases hk
  | ok Q =>
    rw [hm] at hk
    match Q, hm with
    | none, _ => cases hk
    | some (x, y), hm =>
      simp only at hk
      split at hk
      · rename_i hon
        injection hk with hk
        subst hk
        obtain ⟨Q', q1, q2, q3, q4, q5⟩ := pubkey_spec ok bf d
        rw [hm] at q1; injection q1 with q1; subst q1
        obtain ⟨a1, a2, a3, a4⟩ := q3
        exact ⟨hon, a1, a2, y_pos_of_torsion ok hon a3 q5, a4⟩
      · cases hk

/-! evaluated (tests): sign, verify, verify under the public copy, a flipped hash, garbage, trailing byte, on secp256k1 -/
section examples
def exKey : Except Sec.Err Key := keyFromSecret secp256k1 0 12345 true
def exHash : Bytes := List.replicate 31 0 ++ [9]
#guard (match exKey with
  | .ok k =>
    (match keySign secp256k1 0 k exHash with
     | .ok sig =>
       (keyVerify secp256k1 0 k exHash sig matches .ok true) &&
       (keyVerify secp256k1 0 (publicCopy k) exHash sig matches .ok true) &&
       (keyVerify secp256k1 0 k (List.replicate 31 0 ++ [8]) sig matches .ok false) &&
       (keyVerify secp256k1 0 k exHash (sig ++ [0]) matches .ok false) &&
       (keyVerify secp256k1 0 k exHash [] matches .ok false) &&
       (keyVerify secp256k1 0 k exHash [0x30, 0x80] matches .ok false) &&
       (keySign secp256k1 0 (publicCopy k) exHash matches .error .runtime) &&
       (keySign secp256k1 0 k (List.replicate 32 0) matches .error (.curve .value))
     | .error _ => false)
  | .error _ => false)
end examples

end Pycoin.KeySign

/-! ## what the correspondence driver evaluates is the model

For secp256k1 / secp256r1 the driver reads `Generator._powers` from a table built once (`DriverLib/CachedGen.lean`; the model's
`raw_mul` rebuilds it on every call).  The functions it evaluates for the ops `sign`, `verify`, `recover`, `keysign*`,
`keyverify*`, `keyhist` are EQUAL to the model's, with blinding factor 0. -/
namespace Pycoin.DriverLib.CachedGen
open Pycoin Pycoin.Curve

theorem C01_driver_cached_is_model (c : CurveParams) :
    signRecidF c = Pycoin.RFC6979.signWithRecid c 0 ∧ signF c = Pycoin.RFC6979.sign c 0 ∧ verifyF c = Curve.verify c 0 ∧
    recoverF c = Curve.possiblePublicPairsForSignature c 0 ∧ mulGF c = Curve.mulG c 0 ∧
    (∀ d comp, KeyCtor.keyFromSecretWith c (mulGF c) d comp = KeyCtor.keyFromSecret c 0 d comp) ∧
    KeySign.keySignWith (signF c) = KeySign.keySign c 0 ∧ KeySign.keyVerifyWith (verifyF c) = KeySign.keyVerify c 0 ∧
    KeySign.runWith c (signF c) (verifyF c) = KeySign.run c 0 := by
  refine ⟨signRecidF_eq c, signF_eq c, verifyF_eq c, recoverF_eq c, mulGF_eq c, ?_, ?_, ?_, ?_⟩
  · intro d comp; rw [mulGF_eq]; rfl
  · rw [signF_eq]; rfl
  · rw [verifyF_eq]; rfl
  · rw [signF_eq, verifyF_eq]; rfl

/-- the answers `keyhist` prints are the answers of the steps `C01_key_history_fresh` speaks about -/
theorem C01_key_history_run (c : CurveParams) (bf : Int) (st : KeySign.HState) (s : KeySign.Step) (ss : List KeySign.Step) :
    KeySign.run c bf st (s :: ss) = (KeySign.step c bf st s).2 :: KeySign.run c bf (KeySign.step c bf st s).1 ss := rfl

end Pycoin.DriverLib.CachedGen
