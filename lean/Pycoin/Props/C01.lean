import Pycoin.Model.RFC6979
namespace Pycoin.Curve

/-- `verify` rejects `z = 0` as coded -/
theorem C01_verify_zero (c : CurveParams) (bf : Int) (Q : Pt) (r s : Int) : verify c bf Q 0 r s = .ok false := by
  simp [verify]

end Pycoin.Curve
