import Pycoin.Proofs.ECDSA
import Pycoin.Proofs.CurveFacts.secp256k1
import Pycoin.Proofs.CurveFacts.secp256r1
/-!
C01 — ECDSA: deterministic signatures verify for the signer and for nobody else.  Property theorems; helper
lemmas in `Proofs/ECDSA.lean` (on top of the C02 refinement of the group law).

Setting: `[Good c]` and `ok : ECDSAOk c` (`n` an odd prime `≤ 2²⁵⁶`, `G` a reduced curve point, `n • G = ∞`) — both
proved below for secp256k1 and secp256r1 from the generated constants.  `G c` is the generator in Mathlib's group
`(W c).Point`, `zsm c a T` the action of `a : ZMod n` on an `n`-torsion point, `xModN` the `x`-coordinate mod `n`.
-/
namespace Pycoin.Curve
open Pycoin

variable {c : CurveParams} [Good c] (ok : ECDSAOk c)
include ok

/-- `Generator.verify(Q, z, (r, s))`, `z ≠ 0`, `Q` a reduced curve point: never raises and returns `True` exactly when
`1 ≤ r, s < n` and `x((z/s)•G + (r/s)•Q) mod n = r`; in particular every `r` or `s` outside `[1, n−1]` is rejected,
and a sum equal to infinity is rejected.  PARTIAL: extra hypothesis `n • Q = ∞` (it holds for every honest key
`Q = d•G`, and for every curve point if `#E(F_p) = n`, which cannot be proved here). -/
theorem C01_verify_iff_partial (bf : Int) (Q : Pt) (hQ : OnCurve c Q) (rQ : Reduced c Q)
    (hQn : (c.n : Int) • toPoint c Q = 0) (z r s : Int) (hz : z ≠ 0) :
    ∃ b, verify c bf Q z r s = .ok b ∧
      (b = true ↔ 1 ≤ r ∧ r < c.n ∧ 1 ≤ s ∧ s < c.n ∧
        xModN c (zsm c ((z : ZMod c.n) * (s : ZMod c.n)⁻¹) (G c) +
          zsm c ((r : ZMod c.n) * (s : ZMod c.n)⁻¹) (toPoint c Q)) = some r) :=
  verify_iff ok bf Q hQ rQ hQn z r s hz

omit [Good c] ok in
/-- `z = 0` is refused before anything else, as coded -/
theorem C01_verify_zero (bf : Int) (Q : Pt) (r s : Int) : verify c bf Q 0 r s = .ok false := by
  simp [verify]

/-- whatever `sign_with_recid(d, z)` returns — with the default RFC 6979 nonce or any other `gen_k`, with any
blinding factors — satisfies `1 ≤ r, s < n` and verifies under the public key `d•G` as the code computes it.
(No hypothesis on `d`: the property's `1 ≤ d < n` is not even needed.) -/
theorem C01_sign_verifies (genK : Nat → Int → Int → Except Err Int) (bf bf' bf'' d z r s v : Int)
    (h : signWithRecid c bf genK d z = .ok (r, s, v)) :
    z ≠ 0 ∧ 1 ≤ r ∧ r < c.n ∧ 1 ≤ s ∧ s < c.n ∧
    ∃ Q, mulG c bf' d = .ok Q ∧ verify c bf'' Q z r s = .ok true :=
  sign_verifies ok genK bf bf' bf'' d z r s v h

/-- the instance with the default nonce function (`Generator.sign_with_recid(d, z)` as called by `Key.sign`) -/
theorem C01_sign_verifies_rfc6979 (bf bf' bf'' d z r s v : Int)
    (h : Pycoin.RFC6979.signWithRecid c bf d z = .ok (r, s, v)) :
    z ≠ 0 ∧ 1 ≤ r ∧ r < c.n ∧ 1 ≤ s ∧ s < c.n ∧
    ∃ Q, mulG c bf' d = .ok Q ∧ verify c bf'' Q z r s = .ok true :=
  sign_verifies ok _ bf bf' bf'' d z r s v h

/-- `verify` cannot tell `s` from `n − s`: comparing backends "up to s ↔ n−s" loses nothing -/
theorem C01_verify_neg_s (bf : Int) (Q : Pt) (hQ : OnCurve c Q) (rQ : Reduced c Q)
    (hQn : (c.n : Int) • toPoint c Q = 0) (z r s : Int) (hz : z ≠ 0) :
    verify c bf Q z r ((c.n : Int) - s) = verify c bf Q z r s :=
  verify_neg_s ok bf Q hQ rQ hQn z r s hz

omit [Good c] ok in
/-- when the first nonce `k = gen_k(n, d, z)` gives `r ≠ 0` and `s ≠ 0` the signature is the textbook one for that
nonce, `r = x(k•G) mod n`, `s = k⁻¹(z + d·r) mod n`, `recid = (y & 1) + 2·[x > n]`: with `gen_k` =
`deterministic_generate_k` this is the RFC 6979 signature.  (What `gen_k` returns is compared with an independent
RFC 6979 on every run; see `Spec/RFC6979.lean`.) -/
theorem C01_sign_eq_first_nonce (genK : Nat → Int → Int → Except Err Int) (bf d z k x y ki : Int) (hz : z ≠ 0)
    (hk : genK c.n d z = .ok k) (hm : mulG c bf k = .ok (some (x, y))) (hki : inverseN c k = .ok ki)
    (hr : x % c.n ≠ 0) (hs : (ki * (z + d * (x % c.n) % c.n)) % c.n ≠ 0) :
    signWithRecid c bf genK d z =
      .ok (x % c.n, (ki * (z + d * (x % c.n) % c.n)) % c.n, y % 2 + (if x > c.n then 2 else 0)) :=
  sign_first_nonce genK bf d z k x y ki hz hk hm hki hr hs

end Pycoin.Curve

namespace Pycoin.Gen.Curves
open Pycoin.Curve

/-- the hypotheses of the generic theorems hold for the curves pycoin ships for ECDSA (constants as generated from
the code now): `n` an odd prime `≤ 2²⁵⁶` (Pratt certificate), `G` reduced and on the curve, `n • G = ∞` -/
theorem C01_ecdsaOk_secp256k1 : ECDSAOk secp256k1 :=
  ⟨prime_n_secp256k1, by decide +kernel, by decide +kernel, G_on_curve_secp256k1,
    by unfold Reduced basis; decide +kernel, order_G_secp256k1⟩

theorem C01_ecdsaOk_secp256r1 : ECDSAOk secp256r1 :=
  ⟨prime_n_secp256r1, by decide +kernel, by decide +kernel, G_on_curve_secp256r1,
    by unfold Reduced basis; decide +kernel, order_G_secp256r1⟩

end Pycoin.Gen.Curves
