import Pycoin.Model.MsgSigning
/-! C17 property theorems (first version: the generated tables agree with the model). -/
namespace Pycoin.MsgSigning
open Pycoin.Gen.MsgSigning

def headerOf (f : Nat) : Option (Bool × Nat) :=
  match decodeHeader f with
  | .ok v => some v
  | .error _ => none

/-- what `_decode_signature` does with each of the 256 first bytes, as observed by running it (generated table),
is the model's `decodeHeader` -/
theorem C17_header_table : headerDecode = (List.range 256).map headerOf := by
  decide +kernel

end Pycoin.MsgSigning
