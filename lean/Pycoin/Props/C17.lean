import Pycoin.Proofs.MsgSig
import Pycoin.Proofs.MsgArmourRt
import Pycoin.Proofs.TxWire
import Pycoin.Gen.Networks
import Pycoin.Props.C01
import Pycoin.Proofs.RecoverX
/-!
C17 — signed text messages verify for the signer only and never crash the verifier.

Theorems over `Model/MsgSigning.lean` (the model of the repaired `pycoin/contrib/msg_signing.py`).  ECDSA facts that
belong to C01/C02 appear as explicit hypotheses in the theorems named `_partial`.
-/
namespace Pycoin.MsgSigning
open Pycoin Pycoin.Curve Pycoin.Gen.MsgSigning

/-! ## generated tables and literals agree with the model -/

def headerOf (f : Nat) : Option (Bool × Nat) :=
  match decodeHeader f with
  | .ok v => some v
  | .error _ => none

/-- what `_decode_signature` does with each of the 256 first bytes, as observed by running it (generated table),
is the model's `decodeHeader`: accepted exactly for 27..34, compression flag = bit 2, recovery id = bits 0-1 of
`first - 27` -/
theorem C17_header_table : headerDecode = (List.range 256).map headerOf := by
  decide +kernel

/-- the first byte `signature_for_message_hash` writes for every (recid, is_compressed), as observed by running it,
is `27 + recid + (4 if is_compressed else 0)`, and `_decode_signature` inverts it -/
theorem C17_header_encode_table :
    headerEncode.all (fun e => ((headerByte (e.1 : Int) e.2.1).toNat == e.2.2) && (headerOf e.2.2 == some (e.2.1, e.1))) = true
      ∧ headerEncode.map (fun e => (e.1, e.2.1)) = [(0, false), (0, true), (1, false), (1, true), (2, false), (2, true), (3, false), (3, true)] := by
  decide +kernel

/-- the literals of `parse_sections` / `parse_signed_message` / `_decode_signature` the model's semantics is written for -/
theorem C17_literals :
    sectionNeedle = "SIGNED MESSAGE-----\n" ∧ sigMarkerRegex = "\n-----BEGIN [A-Z ]*SIGNATURE-----\n" ∧
    endMarker = "-----END" ∧ endPrefix = "-----END" ∧ addressLabel = "address" ∧ sigLength = 65 ∧
    signatureTemplate = "-----BEGIN {net_name} SIGNED MESSAGE-----\n{msg}\n-----BEGIN SIGNATURE-----\n{addr}\n{sig}\n-----END {net_name} SIGNED MESSAGE-----" :=
  ⟨rfl, rfl, rfl, rfl, rfl, rfl, rfl⟩

/-! ## compact signature layout -/

/-- **C17 layout clause.**  For `r, s < 2^256` and a recovery id 0..3 the signature text is the base64 (no newline)
of 65 bytes: `27 + recid + 4·compressed`, then `r` and `s` as 32-byte big-endian integers; decoding it with
`binascii.a2b_base64` gives those bytes back and `_decode_signature` returns the four fields. -/
theorem C17_sig_layout (r s recid : Nat) (comp : Bool) (hr : r < 2 ^ 256) (hs : s < 2 ^ 256) (hrec : recid < 4) :
    let raw := rawSig (27 + recid + (if comp then 4 else 0)) r s
    encodeSignature (r : Int) (s : Int) (recid : Int) comp = .ok (asciiStr (b64Groups raw)) ∧
    raw.length = 65 ∧ raw = UInt8.ofNat (27 + recid + (if comp then 4 else 0)) :: (beBytes r 32 ++ beBytes s 32) ∧
    a2bBase64Str (asciiStr (b64Groups raw)) = .ok raw ∧
    decodeSignature (asciiStr (b64Groups raw)) = .ok (comp, recid, r, s) := by
  intro raw
  refine ⟨encodeSignature_ok r s recid comp hr hs hrec, rawSig_length _ _ _, rfl, ?_, decodeSignature_encode r s recid comp hr hs hrec⟩
  have := a2bBase64Str_encode raw
  rwa [bytesStrip_b2aBase64] at this

/-- base64 round trip for byte strings of any length (the model of `binascii`) -/
theorem C17_base64_rt (b : Bytes) :
    a2bBase64 (b2aBase64 b) = .ok b ∧ a2bBase64Str (asciiStr (bytesStrip (b2aBase64 b))) = .ok b :=
  ⟨a2bBase64_b2aBase64 b, a2bBase64Str_encode b⟩


/-! ## digest -/

theorem pctFormat_cons (c : Char) (t arg : Str) (hc : c ≠ '%') :
    pctFormat (c :: t) arg = (pctFormat t arg).map (c :: ·) := by
  rw [pctFormat.eq_def]
  split <;> simp_all

theorem pctFormat_lit (l arg : Str) (h : '%' ∉ l) : pctFormat l arg = .ok l := by
  induction l with
  | nil => rfl
  | cons c t ih =>
    have hc : c ≠ '%' := fun e => h (by simp [e])
    have ht : '%' ∉ t := fun e => h (by simp [e])
    rw [pctFormat_cons c t arg hc, ih ht]; rfl

def magicSuffix : Str := " Signed Message:\n".toList

/-- `msg_magic_for_netcode()` is the network name followed by `" Signed Message:\n"` (format string read from the source) -/
theorem msgMagic_eq (name : Str) : msgMagic name = .ok (name ++ magicSuffix) := by
  unfold msgMagic
  have : magicFormat.toList = '%' :: 's' :: magicSuffix := by decide
  rw [this, pctFormat, pctFormat_lit _ _ (by decide)]
  rfl

theorem signingPreimage_eq (name msg : Str) (h1 : (utf8 (name ++ magicSuffix)).length < 2 ^ 64) (h2 : (utf8 msg).length < 2 ^ 64) :
    signingPreimage name msg
      = .ok (Spec.Wire.varBytes (utf8 (name ++ magicSuffix)) ++ Spec.Wire.varBytes (utf8 msg)) := by
  unfold signingPreimage
  simp [msgMagic_eq, bind, Except.bind, liftWire, streamSatoshiString_eq _ h1, streamSatoshiString_eq _ h2, pure, Except.pure]

/-- every shipped network name gives a magic string shorter than 253 bytes: its length prefix is one byte -/
theorem networkMagic_short :
    Pycoin.Gen.Networks.all.all (fun net => (utf8 (net.networkName.toList ++ magicSuffix)).length < 253) = true := by
  decide +kernel

/-- **C17 digest clause.**  For every network of the generated table and every message (shorter than 2^64 bytes, the
bound of the compact-size writer): the digest is the double SHA-256 of
`len(magic) ‖ magic ‖ compactSize(len(msg)) ‖ msg`, with `magic = "<network name> Signed Message:\n"` and a one-byte
length in front of the magic. -/
theorem C17_msg_hash_def (net : Pycoin.Addr.Network) (hnet : net ∈ Pycoin.Gen.Networks.all) (msg : Str)
    (hlen : (utf8 msg).length < 2 ^ 64) :
    hashForSigning net.networkName.toList msg
      = .ok (beNat (Hash.dsha256 (
          (UInt8.ofNat (utf8 (net.networkName.toList ++ magicSuffix)).length :: utf8 (net.networkName.toList ++ magicSuffix))
            ++ Spec.Wire.varBytes (utf8 msg)))) := by
  have hshort : (utf8 (net.networkName.toList ++ magicSuffix)).length < 253 := by
    have := List.all_eq_true.mp networkMagic_short net hnet
    simpa using this
  unfold hashForSigning
  rw [signingPreimage_eq _ _ (by omega) hlen]
  have : Spec.Wire.varBytes (utf8 (net.networkName.toList ++ magicSuffix))
      = UInt8.ofNat (utf8 (net.networkName.toList ++ magicSuffix)).length :: utf8 (net.networkName.toList ++ magicSuffix) := by
    unfold Spec.Wire.varBytes Spec.Wire.compactSize
    have : (utf8 (net.networkName.toList ++ magicSuffix)).length ≤ 0xFC := by omega
    simp [this]
  rw [this]
  rfl

/-- the digest depends on the network only through its name, and differs in the preimage as soon as names differ -/
theorem C17_msg_hash_total (name msg : Str) (h1 : (utf8 (name ++ magicSuffix)).length < 2 ^ 64) (h2 : (utf8 msg).length < 2 ^ 64) :
    ∃ z, hashForSigning name msg = .ok z ∧ z < 2 ^ 256 := by
  unfold hashForSigning
  rw [signingPreimage_eq _ _ h1 h2]
  refine ⟨_, rfl, ?_⟩
  have hl : (Hash.dsha256 (Spec.Wire.varBytes (utf8 (name ++ magicSuffix)) ++ Spec.Wire.varBytes (utf8 msg))).reverse.length = 32 := by
    simp [Hash.dsha256, Hash.sha256, Hash.u32be]
  have := leNat_lt (Hash.dsha256 (Spec.Wire.varBytes (utf8 (name ++ magicSuffix)) ++ Spec.Wire.varBytes (utf8 msg))).reverse
  rw [hl] at this
  have h256 : (256 : Nat) ^ 32 = 2 ^ 256 := by decide
  unfold beNat
  omega



/-- the object `verify_message` compares with -/
def keyOf (env : Env) : KeyOrAddress → KeyObj
  | .text s => env.parseAddress s
  | .obj k => k

theorem verifyMessage_of_pair (env : Env) (ka : KeyOrAddress) (sig msg : Str) (z : Nat) (P : Pt) (comp : Bool)
    (hz : hashForSigning env.networkName msg = .ok z)
    (hp : pairForMessageHash env.c env.bf sig z = .ok (P, comp)) :
    verifyMessage env ka sig (some msg) = pairMatchesKey P (keyOf env ka) comp := by
  unfold verifyMessage
  simp only [hz, Except.map, hp]
  cases ka <;> rfl

theorem verifyMessage_of_refused (env : Env) (ka : KeyOrAddress) (sig msg : Str) (z : Nat)
    (hz : hashForSigning env.networkName msg = .ok z)
    (hp : pairForMessageHash env.c env.bf sig z = .error .encodingError) :
    verifyMessage env ka sig (some msg) = .ok false := by
  unfold verifyMessage
  simp only [hz, Except.map, hp]

/-- the abscissa of the nonce point a compact signature names: `r`, or `r + n` for recovery ids 2 and 3 -/
def nonceX (c : CurveParams) (r recid : Nat) : Int := if recid > 1 then (r : Int) + (c.n : Int) else (r : Int)

theorem pairForMessageHash_encode (c : CurveParams) (bf : Int) (r s recid : Nat) (comp : Bool) (z : Int)
    (hr : 1 ≤ r ∧ r < c.n) (hs : 1 ≤ s ∧ s < c.n) (hn : c.n ≤ 2 ^ 256) (hrec : recid < 4)
    (hx : nonceX c r recid < c.p) :
    pairForMessageHash c bf (asciiStr (b64Groups (rawSig (27 + recid + (if comp then 4 else 0)) r s))) z
      = match possiblePublicPairsForSignature c bf z (nonceX c r recid) s (some ((recid &&& 1 : Nat) : Int)) with
        | .error e => .error (.curve e)
        | .ok [] => .error .encodingError
        | .ok (q :: _) => if q = none then .error .encodingError else .ok (q, comp) := by
  unfold pairForMessageHash
  rw [decodeSignature_encode r s recid comp (by omega) (by omega) hrec]
  have h1 : (1 : Int) ≤ (r : Int) ∧ (r : Int) < (c.n : Int) ∧ (1 : Int) ≤ (s : Int) ∧ (s : Int) < (c.n : Int) := by omega
  have h2 : ¬ (nonceX c r recid ≥ (c.p : Int)) := by omega
  simp only [h1, and_self, not_true_eq_false, if_false]
  unfold nonceX at h2 ⊢
  simp only [h2, if_false]
  rfl

/-- **C17 recovery clause** (partial: the ECDSA facts about the signature are hypotheses, to be discharged by
C01 `sign_verifies` (ranges) and `recover_complete` (the recovery list starts with the signer)).
If `sign_with_recid(d, z)` returns `(r, s, recid)` and recovery from the nonce abscissa with the parity bit of `recid`
yields `Q` first, then `signature_for_message_hash` produces a text from which `pair_for_message_hash` returns exactly
`(Q, is_compressed)`. -/
theorem recover_is_signer_of_recovery (c : CurveParams) (bf d z : Int) (comp : Bool) (r s recid : Nat) (Q : Int × Int)
    (rest : List Pt)
    (hsig : RFC6979.signWithRecid c bf d z = .ok ((r : Int), (s : Int), (recid : Int)))
    (hr : 1 ≤ r ∧ r < c.n) (hs : 1 ≤ s ∧ s < c.n) (hn : c.n ≤ 2 ^ 256) (hrec : recid < 4)
    (hx : nonceX c r recid < c.p)
    (hrecov : possiblePublicPairsForSignature c bf z (nonceX c r recid) s (some ((recid &&& 1 : Nat) : Int)) = .ok (some Q :: rest)) :
    ∃ sig, signatureForMessageHash c bf d z comp = .ok sig ∧ pairForMessageHash c bf sig z = .ok (some Q, comp) := by
  refine ⟨asciiStr (b64Groups (rawSig (27 + recid + (if comp then 4 else 0)) r s)), ?_, ?_⟩
  · unfold signatureForMessageHash
    simp only [hsig, liftCurve, bind, Except.bind]
    exact encodeSignature_ok r s recid comp (by omega) (by omega) hrec
  · rw [pairForMessageHash_encode c bf r s recid comp z hr hs hn hrec hx, hrecov]
    simp

theorem publicPairToSec_ok (x y : Int) (comp : Bool) (hx : 0 ≤ x ∧ x < 2 ^ 256) (hy : 0 ≤ y ∧ y < 2 ^ 256) :
    ∃ sec, publicPairToSec x y comp = .ok sec := by
  have hxn : x = ((x.toNat : Nat) : Int) := by omega
  have hyn : y = ((y.toNat : Nat) : Int) := by omega
  have h1 := toBytes32_nat x.toNat (by omega)
  have h2 := toBytes32_nat y.toNat (by omega)
  rw [← hxn] at h1
  rw [← hyn] at h2
  unfold publicPairToSec
  cases comp <;> simp [h1, h2, bind, Except.bind, pure, Except.pure]

/-- **C17 sign-then-verify** (partial, same hypotheses as `recover_is_signer_of_recovery`).  The signature
`sign_message` produces verifies (a) for a key object whose public pair is the signer's and (b) for any address text
that `parse.address` resolves to a pay-to-pubkey-hash contract carrying `hash160(sec(Q, is_compressed))`, compressed
or not. -/
theorem sign_then_verify_of_recovery (env : Env) (d : Int) (comp : Bool) (msg : Str) (z r s recid : Nat) (Q : Int × Int)
    (rest : List Pt)
    (hz : hashForSigning env.networkName msg = .ok z)
    (hsig : RFC6979.signWithRecid env.c env.bf d z = .ok ((r : Int), (s : Int), (recid : Int)))
    (hr : 1 ≤ r ∧ r < env.c.n) (hs : 1 ≤ s ∧ s < env.c.n) (hn : env.c.n ≤ 2 ^ 256) (hrec : recid < 4)
    (hx : nonceX env.c r recid < env.c.p)
    (hrecov : possiblePublicPairsForSignature env.c env.bf z (nonceX env.c r recid) s (some ((recid &&& 1 : Nat) : Int))
      = .ok (some Q :: rest)) :
    ∃ sig, signatureForMessageHash env.c env.bf d z comp = .ok sig ∧
      verifyMessage env (.obj (.key (some Q))) sig (some msg) = .ok true ∧
      ∀ addr typ sec, env.parseAddress addr = .contract typ (some (Hash.hash160 sec)) → (typ = "p2pkh" ∨ typ = "p2pkh_wit") →
        publicPairToSec Q.1 Q.2 comp = .ok sec →
        verifyMessage env (.text addr) sig (some msg) = .ok true := by
  obtain ⟨sig, h1, h2⟩ := recover_is_signer_of_recovery env.c env.bf d z comp r s recid Q rest hsig hr hs hn hrec hx hrecov
  refine ⟨sig, h1, ?_, ?_⟩
  · rw [verifyMessage_of_pair env _ sig msg z _ comp hz h2]
    simp [pairMatchesKey, keyOf]
  · intro addr typ sec hpa htyp hsec
    rw [verifyMessage_of_pair env _ sig msg z _ comp hz h2]
    simp only [keyOf, hpa, pairMatchesKey]
    have : ¬ (typ ≠ "p2pkh" ∧ typ ≠ "p2pkh_wit") := by
      rcases htyp with h | h <;> simp [h]
    simp only [this, if_false, publicPairToHash160Sec, hsec, Except.map]
    simp

/-! ## uniqueness: the recovered pair is a function of (signature text, digest) -/

/-- **C17 uniqueness clause, keys.**  For one signature text and one message, at most one public pair verifies:
`verify` compares the key with the pair recovered from `(signature, hash)`, which does not depend on the key. -/
theorem C17_verify_unique_key (env : Env) (sig msg : Str) (K K' : Option (Int × Int))
    (h : verifyMessage env (.obj (.key K)) sig (some msg) = .ok true)
    (h' : verifyMessage env (.obj (.key K')) sig (some msg) = .ok true) : K = K' := by
  unfold verifyMessage at h h'
  cases hz : (hashForSigning env.networkName msg) with
  | error e => simp [hz, Except.map] at h
  | ok z =>
    simp only [hz, Except.map] at h h'
    cases hp : pairForMessageHash env.c env.bf sig (z : Int) with
    | error e =>
      rw [hp] at h
      cases e <;> simp at h
    | ok pc =>
      obtain ⟨P, comp⟩ := pc
      rw [hp] at h h'
      simp only [pairMatchesKey, Except.ok.injEq, beq_iff_eq] at h h'
      rw [h, h']

/-- any other key object fails -/
theorem C17_verify_other_key_fails (env : Env) (sig msg : Str) (K K' : Option (Int × Int)) (hne : K' ≠ K)
    (h : verifyMessage env (.obj (.key K)) sig (some msg) = .ok true) :
    verifyMessage env (.obj (.key K')) sig (some msg) = .ok false := by
  unfold verifyMessage at h ⊢
  cases hz : (hashForSigning env.networkName msg) with
  | error e => simp [hz, Except.map] at h
  | ok z =>
    simp only [hz, Except.map] at h ⊢
    cases hp : pairForMessageHash env.c env.bf sig (z : Int) with
    | error e =>
      rw [hp] at h
      cases e <;> simp at h
    | ok pc =>
      obtain ⟨P, comp⟩ := pc
      rw [hp] at h
      simp only [pairMatchesKey, Except.ok.injEq, beq_iff_eq] at h ⊢
      subst h
      simpa using hne

/-- **C17 uniqueness clause, addresses.**  For one signature text and one message, all contracts that verify carry
the same hash160 (and are of a pay-to-pubkey-hash type): any other hash160 fails. -/
theorem C17_verify_unique_hash160 (env : Env) (sig msg : Str) (t t' : String) (h160 h160' : Option Bytes)
    (h : verifyMessage env (.obj (.contract t h160)) sig (some msg) = .ok true)
    (h' : verifyMessage env (.obj (.contract t' h160')) sig (some msg) = .ok true) :
    h160 = h160' ∧ (t = "p2pkh" ∨ t = "p2pkh_wit") := by
  unfold verifyMessage at h h'
  cases hz : (hashForSigning env.networkName msg) with
  | error e => simp [hz, Except.map] at h
  | ok z =>
    simp only [hz, Except.map] at h h'
    cases hp : pairForMessageHash env.c env.bf sig (z : Int) with
    | error e =>
      rw [hp] at h
      cases e <;> simp at h
    | ok pc =>
      obtain ⟨P, comp⟩ := pc
      rw [hp] at h h'
      simp only [pairMatchesKey] at h h'
      by_cases ht : t ≠ "p2pkh" ∧ t ≠ "p2pkh_wit"
      · simp [ht] at h
      by_cases ht' : t' ≠ "p2pkh" ∧ t' ≠ "p2pkh_wit"
      · simp [ht'] at h'
      simp only [ht, ht', if_false] at h h'
      cases P with
      | none => simp at h
      | some xy =>
        obtain ⟨x, y⟩ := xy
        simp only [publicPairToHash160Sec] at h h'
        cases hsec : publicPairToSec x y comp with
        | error e => simp [hsec, Except.map] at h
        | ok sec =>
          simp only [hsec, Except.map, Except.ok.injEq, beq_iff_eq] at h h'
          refine ⟨by rw [h, h'], ?_⟩
          by_cases h1 : t = "p2pkh"
          · exact Or.inl h1
          · by_cases h2 : t = "p2pkh_wit"
            · exact Or.inr h2
            · exact absurd ⟨h1, h2⟩ ht


/-! ## armoured text -/

/-- the property's hypotheses on a message for the armoured form: one newline style and no armour marker line.
`lf`: no line (split at `\n`) ends with `\r` — so the message contains no `\r\n` and does not end with `\r` —
and no line matches `-----BEGIN [A-Z ]*SIGNATURE-----`.
`crlf`: the message is `\r\n`.join of at least two lines without `\n`, none a marker line, the last not ending with `\r`. -/
inductive ArmourMsg : Str → Prop
  | lf (msg : Str) (hcr : ∀ l ∈ splitLines msg, endsWithCR l = false) (hmk : ∀ l ∈ splitLines msg, isSigMarker l = false) :
      ArmourMsg msg
  | crlf (ms : List Str) (h2 : 2 ≤ ms.length) (hnl : ∀ l ∈ ms, '\n' ∉ l) (hmk : ∀ l ∈ ms, isSigMarker l = false)
      (hlast : ∀ l, ms.getLast? = some l → endsWithCR l = false) : ArmourMsg (joinWith ['\r', '\n'] ms)

/-- **C17 armour clause.**  For a network name without newline, an address and a signature over the Base58 / Bech32 /
Base64 alphabets (non-empty, different from each other) and a message the property allows, the text produced from
`signature_template` parses back, through `parse_sections` and `parse_signed_message`, to exactly
`(message, address, signature)`. -/
theorem C17_armour_rt (name msg addr sig : Str) (hn : '\n' ∉ name) (ha : FieldOK addr) (hs : FieldOK sig)
    (hne : addr ≠ sig) (hm : ArmourMsg msg) :
    ∃ text, armour name msg addr sig = .ok text ∧ parseSignedMessage text = .ok (msg, addr, sig) := by
  refine ⟨armourText name msg addr sig, armour_eq name msg addr sig, ?_⟩
  cases hm with
  | lf _ hcr hmk =>
    exact parseSigned_of_sections _ msg name addr sig hn ha hs hne (parseSections_armour_lf name msg addr sig hn ha hs hcr hmk)
  | crlf ms h2 hnl hmk hlast =>
    exact parseSigned_of_sections _ _ name addr sig hn ha hs hne (parseSections_armour_crlf name addr sig ms hn ha hs h2 hnl hmk hlast)

/-- the upper-cased name of every shipped network is free of newlines (hypothesis `hn` of `C17_armour_rt`) and ASCII
(so that `asciiUpper` is `str.upper`) -/
theorem C17_network_names_ok :
    Pycoin.Gen.Networks.all.all (fun net =>
      !(net.networkName.toList.map asciiUpper).contains '\n' && net.networkName.toList.all (fun ch => ch.toNat < 128)) = true := by
  decide +kernel

-- the hypotheses are satisfiable: a two-line message in either style, a Base58 address, a Base64 signature
example : ArmourMsg "hello\nworld".toList := .lf _ (by decide) (by decide)
example : ArmourMsg "hello\r\nworld".toList := .crlf ["hello".toList, "world".toList] (by decide) (by decide) (by decide) (by decide)
example : FieldOK "1BoatSLRHtKNngkdXEeobR76b53LETtpyT".toList := ⟨by decide, by decide⟩
example : FieldOK "H2utKkquLbyEJamGwUfS9J0kKT4uuMTEr2WX2dPU9YImg4LeRpyjBelrqEqfM4QC8pJ+hVlQgZI5IPpLyRNxvK8=".toList := ⟨by decide, by decide⟩

/-! ## totality of the repaired `verify_message` -/

theorem decodeHeader_error (f : Nat) (e : Err) (h : decodeHeader f = .error e) : e = .encodingError := by
  unfold decodeHeader at h
  split at h
  · cases h
  · injection h with h; exact h.symm

/-- `_decode_signature` (repaired) raises nothing but `EncodingError` -/
theorem decodeSignature_error (sig : Str) (e : Err) (h : decodeSignature sig = .error e) : e = .encodingError := by
  unfold decodeSignature at h
  cases hraw : a2bBase64Str sig with
  | error _ => rw [hraw] at h; injection h with h; exact h.symm
  | ok raw =>
    rw [hraw] at h
    simp only at h
    by_cases hlen : raw.length ≠ 65
    · rw [if_pos hlen] at h; injection h with h; exact h.symm
    · rw [if_neg hlen] at h
      cases raw with
      | nil => simp at hlen
      | cons first rest =>
        simp only at h
        cases hh : decodeHeader first.toNat with
        | error e' =>
          rw [hh] at h
          injection h with h
          rw [← h]; exact decodeHeader_error _ _ hh
        | ok v => rw [hh] at h; cases h

/-- the C01/C02 fact the totality clause rests on: on an abscissa `x = r` or `x = r + n` with `1 ≤ r < n`, below `p`,
`possible_public_pairs_for_signature` raises nothing, and the points it returns have coordinates in `[0, 2^256)` -/
def RecoverTotal (c : CurveParams) (bf : Int) : Prop :=
  ∀ (z r x s par : Int), 1 ≤ r → r < c.n → (x = r ∨ x = r + c.n) → x < c.p →
    ∃ l, possiblePublicPairsForSignature c bf z x s (some par) = .ok l ∧
      ∀ X Y, some (X, Y) ∈ l → 0 ≤ X ∧ X < 2 ^ 256 ∧ 0 ≤ Y ∧ Y < 2 ^ 256

/-- `pair_for_message_hash` (repaired) either raises `EncodingError` or returns a finite point with coordinates in range -/
theorem pairForMessageHash_cases (c : CurveParams) (bf : Int) (hrt : RecoverTotal c bf) (sig : Str) (z : Int) :
    pairForMessageHash c bf sig z = .error .encodingError ∨
    ∃ X Y comp, pairForMessageHash c bf sig z = .ok (some (X, Y), comp) ∧ 0 ≤ X ∧ X < 2 ^ 256 ∧ 0 ≤ Y ∧ Y < 2 ^ 256 := by
  unfold pairForMessageHash
  cases hd : decodeSignature sig with
  | error e => left; rw [decodeSignature_error sig e hd]
  | ok v =>
    obtain ⟨comp, recid, r, s⟩ := v
    simp only
    by_cases hrange : (1 : Int) ≤ (r : Int) ∧ (r : Int) < (c.n : Int) ∧ (1 : Int) ≤ (s : Int) ∧ (s : Int) < (c.n : Int)
    · rw [if_neg (fun hh => hh hrange)]
      by_cases hx : (if recid > 1 then (r : Int) + (c.n : Int) else (r : Int)) ≥ (c.p : Int)
      · rw [if_pos hx]; left; rfl
      · rw [if_neg hx]
        obtain ⟨l, hl, hcoords⟩ := hrt z r (if recid > 1 then (r : Int) + (c.n : Int) else (r : Int)) s
          ((recid &&& 1 : Nat) : Int) hrange.1 hrange.2.1 (by by_cases h : recid > 1 <;> simp [h]) (by omega)
        rw [hl]
        cases l with
        | nil => left; rfl
        | cons q rest =>
          cases q with
          | none => left; simp
          | some xy =>
            obtain ⟨X, Y⟩ := xy
            right
            exact ⟨X, Y, comp, by simp, hcoords X Y (by simp)⟩
    · rw [if_pos hrange]; left; rfl

/-- **C17 totality clause** (partial: `RecoverTotal`, a C01/C02 fact, is a hypothesis).  For every signature text —
base64 or not, any length, any header byte, any `r`, `s` — every message shorter than 2^64 bytes and every key object
or address text that `parse.address` recognises, the repaired `verify_message` returns a boolean: the model has no
exception left on that domain. -/
theorem verify_total_of (env : Env) (hrt : RecoverTotal env.c env.bf) (ka : KeyOrAddress)
    (hka : keyOf env ka ≠ .pyNone) (sig msg : Str)
    (h1 : (utf8 (env.networkName ++ magicSuffix)).length < 2 ^ 64) (h2 : (utf8 msg).length < 2 ^ 64) :
    ∃ b, verifyMessage env ka sig (some msg) = .ok b := by
  obtain ⟨z, hz, _⟩ := C17_msg_hash_total env.networkName msg h1 h2
  rcases pairForMessageHash_cases env.c env.bf hrt sig z with hp | ⟨X, Y, comp, hp, hX0, hX1, hY0, hY1⟩
  · exact ⟨false, verifyMessage_of_refused env ka sig msg z hz hp⟩
  · rw [verifyMessage_of_pair env ka sig msg z _ comp hz hp]
    cases hk : keyOf env ka with
    | key pub => exact ⟨_, rfl⟩
    | pyNone => exact absurd hk hka
    | contract typ h =>
      unfold pairMatchesKey
      by_cases ht : typ ≠ "p2pkh" ∧ typ ≠ "p2pkh_wit"
      · exact ⟨false, by simp [ht]⟩
      · obtain ⟨sec, hsec⟩ := publicPairToSec_ok X Y comp ⟨hX0, hX1⟩ ⟨hY0, hY1⟩
        refine ⟨h == some (Hash.hash160 sec), ?_⟩
        simp [ht, publicPairToHash160Sec, hsec, Except.map]


/-! ## another message -/

/-- what a successful `pair_for_message_hash` went through -/
theorem pairForMessageHash_ok_inv (c : CurveParams) (bf : Int) (sig : Str) (z : Int) (P : Pt) (comp : Bool)
    (h : pairForMessageHash c bf sig z = .ok (P, comp)) :
    ∃ recid r s rest, decodeSignature sig = .ok (comp, recid, r, s) ∧ P ≠ none ∧
      (1 : Int) ≤ (r : Int) ∧ (r : Int) < (c.n : Int) ∧ nonceX c r recid < (c.p : Int) ∧
      possiblePublicPairsForSignature c bf z (nonceX c r recid) s (some ((recid &&& 1 : Nat) : Int)) = .ok (P :: rest) := by
  unfold pairForMessageHash at h
  cases hd : decodeSignature sig with
  | error e => rw [hd] at h; cases h
  | ok v =>
    obtain ⟨comp', recid, r, s⟩ := v
    rw [hd] at h
    simp only at h
    by_cases hrange : (1 : Int) ≤ (r : Int) ∧ (r : Int) < (c.n : Int) ∧ (1 : Int) ≤ (s : Int) ∧ (s : Int) < (c.n : Int)
    · rw [if_neg (fun hh => hh hrange)] at h
      by_cases hx : (if recid > 1 then (r : Int) + (c.n : Int) else (r : Int)) ≥ (c.p : Int)
      · rw [if_pos hx] at h; cases h
      · rw [if_neg hx] at h
        cases hl : possiblePublicPairsForSignature c bf z (if recid > 1 then (r : Int) + (c.n : Int) else (r : Int)) s
            (some ((recid &&& 1 : Nat) : Int)) with
        | error e => rw [hl] at h; cases h
        | ok l =>
          rw [hl] at h
          cases l with
          | nil => cases h
          | cons q tail =>
            simp only at h
            by_cases hq : q = none
            · rw [if_pos hq] at h; cases h
            · rw [if_neg hq] at h
              injection h with h
              injection h with h1 h2
              subst h1; subst h2
              exact ⟨recid, r, s, tail, rfl, hq, hrange.1, hrange.2.1, by unfold nonceX; omega, hl⟩
    · rw [if_pos hrange] at h; cases h

/-- the C01 fact the "other message" clause rests on: for a fixed `(x, s, parity)` the key recovered for a digest
determines that digest modulo `n` (recovery yields `x⁻¹(s·R − z·G)`, and `G` has order `n`) -/
def RecoverInjective (c : CurveParams) (bf : Int) : Prop :=
  ∀ (z z' r x s par : Int) (P : Pt) (rest rest' : List Pt), 1 ≤ r → r < c.n → (x = r ∨ x = r + c.n) → x < c.p →
    possiblePublicPairsForSignature c bf z x s (some par) = .ok (P :: rest) →
    possiblePublicPairsForSignature c bf z' x s (some par) = .ok (P :: rest') →
    z % (c.n : Int) = z' % (c.n : Int)

/-- **C17 other-message clause** (partial).  Two hypotheses are not proved here: `RecoverInjective` (a C01 fact) and
`hcr`, the cryptographic one — the digests of the two messages differ modulo `n`; for distinct messages this is
collision resistance of the double SHA-256 over the length-prefixed preimages (plus the 2⁻¹²⁸ event that two distinct
digests differ by `n`).  Then a signature text that verifies for a key object on `msg` does not verify for that key on
`msg'`. -/
theorem other_message_of (env : Env) (hinj : RecoverInjective env.c env.bf) (K : Option (Int × Int))
    (sig msg msg' : Str) (z z' : Nat)
    (hz : hashForSigning env.networkName msg = .ok z) (hz' : hashForSigning env.networkName msg' = .ok z')
    (hcr : (z : Int) % (env.c.n : Int) ≠ (z' : Int) % (env.c.n : Int))
    (h : verifyMessage env (.obj (.key K)) sig (some msg) = .ok true) :
    verifyMessage env (.obj (.key K)) sig (some msg') ≠ .ok true := by
  intro h'
  unfold verifyMessage at h h'
  simp only [hz, hz', Except.map] at h h'
  cases hp : pairForMessageHash env.c env.bf sig (z : Int) with
  | error e => rw [hp] at h; cases e <;> simp at h
  | ok pc =>
    cases hp' : pairForMessageHash env.c env.bf sig (z' : Int) with
    | error e => rw [hp'] at h'; cases e <;> simp at h'
    | ok pc' =>
      obtain ⟨P, comp⟩ := pc
      obtain ⟨P', comp'⟩ := pc'
      rw [hp] at h
      rw [hp'] at h'
      simp only [pairMatchesKey, Except.ok.injEq, beq_iff_eq] at h h'
      subst h
      subst h'
      obtain ⟨recid, r, s, rest, hd, hne, hr1, hr2, hxp, hrec⟩ := pairForMessageHash_ok_inv _ _ _ _ _ _ hp
      obtain ⟨recid', r', s', rest', hd', _, _, _, _, hrec'⟩ := pairForMessageHash_ok_inv _ _ _ _ _ _ hp'
      rw [hd] at hd'
      injection hd' with hd'
      injection hd' with _ hd'
      injection hd' with h1 hd'
      injection hd' with h2 h3
      subst h1; subst h2; subst h3
      exact hcr (hinj _ _ (r : Int) _ _ _ _ _ _ hr1 hr2 (by unfold nonceX; by_cases h : recid > 1 <;> simp [h]) hxp hrec hrec')


/-! ## with the C01 / C02 facts -/

variable {c : CurveParams} [Good c]

/-- C01 `recover_complete`, in the shape `sign_with_recid` hands it over: if `s = k⁻¹(z + d·r)` for the nonce point
`k•G = (x, y)`, `r = x mod n`, then recovery from the abscissa `x` with the parity of `y` yields `d•G` first -/
def RecoverComplete (c : CurveParams) [Good c] (bf : Int) : Prop :=
  ∀ (bf' d z k x y s : Int), (k : ZMod c.n) ≠ 0 → mulG c bf' k = .ok (some (x, y)) →
    (s : ZMod c.n) = (k : ZMod c.n)⁻¹ * ((z : ZMod c.n) + (d : ZMod c.n) * ((x % (c.n : Int) : Int) : ZMod c.n)) →
    1 ≤ x % (c.n : Int) → 1 ≤ s → s < c.n → (d : ZMod c.n) ≠ 0 →
    ∃ Q rest, mulG c bf d = .ok (some Q) ∧
      possiblePublicPairsForSignature c bf z x s (some (y % 2)) = .ok (some Q :: rest)

omit [Good c] in
theorem signWithRecid_inv (bf d z r s v : Int) (h : RFC6979.signWithRecid c bf d z = .ok (r, s, v)) :
    ∃ k, signLoop c bf d z (c.n + 1) k = .ok (r, s, v) := by
  unfold RFC6979.signWithRecid Curve.signWithRecid at h
  split at h
  · cases h
  · split at h
    · cases h
    · rename_i k _
      exact ⟨k, h⟩

/-- **C17 recovery clause on an ECDSA-good curve** (partial: only C01 `recover_complete` remains a hypothesis; the
ranges of `r`, `s`, the recovery id and the nonce abscissa are derived from C01's `signLoop_sound` and C02's
reducedness of `k•G`).  Holds for every nonce point, `x(R) < n` or not (`p < 2n`: recovery ids 2, 3 mean `x = r + n`). -/
theorem recover_is_signer_of_complete (ok : ECDSAOk c) (hp2n : (c.p : Int) < 2 * (c.n : Int)) (bf d z : Int)
    (comp : Bool) (hd : (d : ZMod c.n) ≠ 0) (hRC : RecoverComplete c bf) (sig : Str)
    (hsig : signatureForMessageHash c bf d z comp = .ok sig) :
    ∃ Q, mulG c bf d = .ok (some Q) ∧ pairForMessageHash c bf sig z = .ok (some Q, comp) := by
  unfold signatureForMessageHash at hsig
  cases hsw : RFC6979.signWithRecid c bf d z with
  | error e => simp [hsw, liftCurve, bind, Except.bind] at hsig
  | ok t =>
    obtain ⟨r, s, v⟩ := t
    obtain ⟨k0, hloop⟩ := signWithRecid_inv bf d z r s v hsw
    obtain ⟨hr1, hr2, hs1, hs2, k, x, y, hk, hmul, hrx, hv, hsrel⟩ := signLoop_sound ok bf d z (c.n + 1) k0 r s v hloop
    have hred := mulG_reduced c ok.gOn ok.gRed ok.nprime.pos.ne' ok.n256 ok.gOrd bf k (some (x, y)) hmul
    obtain ⟨hx0, hxp, hy0, hyp⟩ : 0 ≤ x ∧ x < c.p ∧ 0 ≤ y ∧ y < c.p := hred
    have hnpos : (0 : Int) < c.n := by exact_mod_cast ok.nprime.pos
    have hy2 : 0 ≤ y % 2 ∧ y % 2 < 2 := ⟨Int.emod_nonneg y (by norm_num), Int.emod_lt_of_pos y (by norm_num)⟩
    -- the abscissa named by (r, recid) is x
    have hxcases : (x < c.n ∧ r = x) ∨ ((c.n : Int) < x ∧ r + c.n = x) := by
      rcases lt_trichotomy x (c.n : Int) with hlt | heq | hgt
      · left; exact ⟨hlt, by rw [hrx, Int.emod_eq_of_lt hx0 hlt]⟩
      · exfalso; rw [hrx, heq, Int.emod_self] at hr1; omega
      · right
        refine ⟨hgt, ?_⟩
        have : x % (c.n : Int) = x - c.n := by
          have h1 : x = (x - c.n) + c.n := by ring
          rw [h1, Int.add_emod_right, Int.emod_eq_of_lt (by omega) (by omega)]
          ring
        omega
    have hn256 : (c.n : Int) ≤ 2 ^ 256 := by exact_mod_cast ok.n256
    -- natural-number versions of the three values
    obtain ⟨rn, hrn⟩ : ∃ rn : Nat, r = (rn : Int) := ⟨r.toNat, by omega⟩
    obtain ⟨sn, hsn⟩ : ∃ sn : Nat, s = (sn : Int) := ⟨s.toNat, by omega⟩
    have hv03 : 0 ≤ v ∧ v < 4 := by
      rw [hv]; split <;> omega
    obtain ⟨vn, hvn⟩ : ∃ vn : Nat, v = (vn : Int) := ⟨v.toNat, by omega⟩
    have hnx : nonceX c rn vn = x := by
      unfold nonceX
      rcases hxcases with ⟨hlt, hrx'⟩ | ⟨hgt, hrx'⟩
      · have : ¬ (vn > 1) := by
          have : ¬ (x > (c.n : Int)) := by omega
          rw [hv, if_neg this] at hvn; omega
        rw [if_neg this, ← hrn, hrx']
      · have : vn > 1 := by
          have : x > (c.n : Int) := hgt
          rw [hv, if_pos this] at hvn; omega
        rw [if_pos this, ← hrn, hrx']
    have hpar : ((vn &&& 1 : Nat) : Int) = y % 2 := by
      rw [Nat.and_one_is_mod]
      have : ((vn % 2 : Nat) : Int) = (vn : Int) % 2 := by omega
      rw [this, ← hvn, hv]
      split <;> omega
    obtain ⟨Q, rest, hQ, hrec⟩ := hRC bf d z k x y s hk hmul (by rw [← hrx]; exact hsrel) (by rw [← hrx]; exact hr1) hs1 hs2 hd
    refine ⟨Q, hQ, ?_⟩
    subst hrn; subst hsn; subst hvn
    have hh := recover_is_signer_of_recovery c bf d z comp rn sn vn Q rest hsw (by omega) (by omega) ok.n256 (by omega)
      (by rw [hnx]; exact hxp) (by rw [hnx, hpar]; exact hrec)
    obtain ⟨sig', hs', hp'⟩ := hh
    unfold signatureForMessageHash at hs'
    rw [hs'] at hsig
    injection hsig with hsig
    rw [← hsig]; exact hp'


/-- `sign_message(key, message, verbose=False)` is `signature_for_message_hash` of the message digest -/
theorem signMessage_inv (env : Env) (d : Int) (comp : Bool) (msg sig : Str)
    (h : signMessage env d comp msg false = .ok sig) :
    ∃ z : Nat, hashForSigning env.networkName msg = .ok z ∧
      signatureForMessageHash env.c env.bf d (z : Int) comp = .ok sig := by
  unfold signMessage at h
  by_cases hd : d = 0
  · simp [hd, bind, Except.bind] at h
  · simp only [hd, if_false, bind, Except.bind, pure, Except.pure] at h
    cases hpub : liftCurve (mulG env.c env.bf d) with
    | error e => simp [hpub] at h
    | ok pub =>
      simp only [hpub] at h
      cases pub with
      | none => simp at h
      | some xy =>
        obtain ⟨x, y⟩ := xy
        simp only at h
        cases hh : publicPairToHash160Sec x y comp with
        | error e => simp [hh] at h
        | ok h160 =>
          simp only [hh] at h
          cases ha : env.p2pkhAddress h160 with
          | error e => simp [ha] at h
          | ok addr =>
            simp only [ha] at h
            cases hz : hashForSigning env.networkName msg with
            | error e => simp [hz] at h
            | ok z =>
              simp only [hz] at h
              cases hs : signatureForMessageHash env.c env.bf d (z : Int) comp with
              | error e => simp [hs] at h
              | ok s =>
                simp only [hs] at h
                simp at h
                exact ⟨z, rfl, by rw [hs, h]⟩

/-- **C17 sign-then-verify on an ECDSA-good curve** (partial: C01 `recover_complete` is the only hypothesis about the
curve functions).  What `sign_message` returns for a key `d ≢ 0 (mod n)` — compressed or not — verifies for the key
object holding `d•G` and for every address text that `parse.address` resolves to a pay-to-pubkey-hash contract of
`hash160(sec(d•G, is_compressed))`; and `pair_for_message_hash` returns exactly `(d•G, is_compressed)`. -/
theorem sign_then_verify_of_complete (ok : ECDSAOk c) (hp2n : (c.p : Int) < 2 * (c.n : Int)) (bf d : Int)
    (comp : Bool) (hd : (d : ZMod c.n) ≠ 0) (hRC : RecoverComplete c bf)
    (name : Str) (pa : Str → KeyObj) (pp : Bytes → Except Err Str) (msg sig : Str)
    (hsign : signMessage ⟨c, bf, name, pa, pp⟩ d comp msg false = .ok sig) :
    ∃ Q, mulG c bf d = .ok (some Q) ∧
      (∃ z : Nat, hashForSigning name msg = .ok z ∧ pairForMessageHash c bf sig z = .ok (some Q, comp)) ∧
      verifyMessage ⟨c, bf, name, pa, pp⟩ (.obj (.key (some Q))) sig (some msg) = .ok true ∧
      ∀ addr typ sec, pa addr = .contract typ (some (Hash.hash160 sec)) → (typ = "p2pkh" ∨ typ = "p2pkh_wit") →
        publicPairToSec Q.1 Q.2 comp = .ok sec →
        verifyMessage ⟨c, bf, name, pa, pp⟩ (.text addr) sig (some msg) = .ok true := by
  obtain ⟨z, hz, hsig⟩ := signMessage_inv _ d comp msg sig hsign
  obtain ⟨Q, hQ, hp⟩ := recover_is_signer_of_complete ok hp2n bf d z comp hd hRC sig hsig
  refine ⟨Q, hQ, ⟨z, hz, hp⟩, ?_, ?_⟩
  · rw [verifyMessage_of_pair ⟨c, bf, name, pa, pp⟩ _ sig msg z _ comp hz hp]
    simp [pairMatchesKey, keyOf]
  · intro addr typ sec hpa htyp hsec
    rw [verifyMessage_of_pair ⟨c, bf, name, pa, pp⟩ _ sig msg z _ comp hz hp]
    simp only [keyOf, hpa, pairMatchesKey]
    have : ¬ (typ ≠ "p2pkh" ∧ typ ≠ "p2pkh_wit") := by
      rcases htyp with h | h <;> simp [h]
    simp only [this, if_false, publicPairToHash160Sec, hsec, Except.map]
    simp

omit [Good c] in
/-- `p < 2n` for the curve every bitcoin-like network signs with (recovery ids 2 and 3 mean `x = r + n`) -/
theorem C17_secp256k1_p_lt_2n :
    (Pycoin.Gen.Curves.secp256k1.p : Int) < 2 * (Pycoin.Gen.Curves.secp256k1.n : Int) := by
  decide +kernel

/-! ## the three recovery facts, proved (from `Proofs/RecoverX.lean`, which extends C01's recovery theorems to every
abscissa `x < p`, `x ≢ 0 (mod n)`, without a torsion hypothesis) -/

theorem natCast_self_zmod (n : Nat) : ((n : Int) : ZMod n) = 0 := by
  rw [Int.cast_natCast]; exact ZMod.natCast_self n

theorem abscissa_ne_zero (ok : ECDSAOk c) (r x : Int) (hr1 : 1 ≤ r) (hr2 : r < c.n) (hx : x = r ∨ x = r + c.n) :
    (x : ZMod c.n) ≠ 0 := by
  have h := intCast_ne_zero_of_range (c := c) r hr1 hr2
  rcases hx with rfl | rfl
  · exact h
  · push_cast; rw [ZMod.natCast_self, add_zero]; exact h

theorem recoverTotal_holds (ok : ECDSAOk c) (h4 : c.p % 4 = 3) (hp256 : c.p ≤ 2 ^ 256) (bf : Int) : RecoverTotal c bf := by
  intro z r x s par hr1 hr2 hx hxp
  have hx0 : 0 ≤ x := by
    have : (0 : Int) ≤ c.n := Int.natCast_nonneg _
    rcases hx with rfl | rfl <;> omega
  obtain ⟨l, hl, hall⟩ := recover_total_x ok h4 bf z x s par hx0 hxp (abscissa_ne_zero ok r x hr1 hr2 hx)
  refine ⟨l, hl, ?_⟩
  intro X Y hm
  obtain ⟨-, hred⟩ := hall _ hm
  obtain ⟨a, b, c', d⟩ : 0 ≤ X ∧ X < c.p ∧ 0 ≤ Y ∧ Y < c.p := hred
  have : (c.p : Int) ≤ 2 ^ 256 := by exact_mod_cast hp256
  omega

theorem recoverInjective_holds (ok : ECDSAOk c) (h4 : c.p % 4 = 3) (bf : Int) : RecoverInjective c bf := by
  intro z z' r x s par P rest rest' hr1 hr2 hx hxp h h'
  have hx0 : 0 ≤ x := by
    have : (0 : Int) ≤ c.n := Int.natCast_nonneg _
    rcases hx with rfl | rfl <;> omega
  exact recover_injective_x ok h4 bf z z' x s par hx0 hxp (abscissa_ne_zero ok r x hr1 hr2 hx) P rest rest' h h'

theorem recoverComplete_holds (ok : ECDSAOk c) (h4 : c.p % 4 = 3) (bf : Int) : RecoverComplete c bf := by
  intro bf' d z k x y s hk hmul hs hx1 hs1 hs2 hd
  have := ok.neZero
  have hxn : (x : ZMod c.n) ≠ 0 := by
    intro h0
    have hdvd := (ZMod.intCast_zmod_eq_zero_iff_dvd x c.n).mp h0
    have := Int.emod_eq_zero_of_dvd hdvd
    omega
  have hs' : (s : ZMod c.n) = (k : ZMod c.n)⁻¹ * ((z : ZMod c.n) + (d : ZMod c.n) * (x : ZMod c.n)) := by
    rw [hs, ZMod.intCast_mod]
  obtain ⟨Q, hQ, hrec⟩ := recover_complete_x ok h4 bf' bf bf d z k x y s hmul hxn hs'
  -- the public key of d ≢ 0 is a finite point
  obtain ⟨Q', q1, q2, q3, q4, q5⟩ := pubkey_spec ok bf d
  rw [hQ] at q1; cases q1
  cases Q with
  | some q => exact ⟨q, [], hQ, hrec⟩
  | none =>
    exfalso
    rw [toPoint_none] at q4
    exact zsm_G_ne_zero ok _ hd q4.symm

/-- what the clauses below need of the curve: C01's `ECDSAOk` (`n` prime, `G` a reduced point of order `n`), `p ≡ 3 (mod 4)`
(every `Generator` asserts it), `p < 2n` (recovery ids 2, 3 mean `x = r + n`) and `p ≤ 2^256` (32-byte coordinates) -/
structure MsgCurveOk (c : CurveParams) [Good c] : Prop where
  ok : ECDSAOk c
  h4 : c.p % 4 = 3
  hp2n : (c.p : Int) < 2 * (c.n : Int)
  hp256 : c.p ≤ 2 ^ 256

/-- all of it holds for secp256k1, the curve of every bitcoin-like network (constants as generated from the code) -/
theorem C17_curve_ok_secp256k1 : MsgCurveOk Pycoin.Gen.Curves.secp256k1 :=
  ⟨Pycoin.Gen.Curves.C01_ecdsaOk_secp256k1, by decide +kernel, C17_secp256k1_p_lt_2n, by decide +kernel⟩

/-- **C17 recovery clause.**  For every secret exponent `d ≢ 0 (mod n)`, digest `z` and compression flag: from the
text `signature_for_message_hash` returns, `pair_for_message_hash` recovers exactly `(d•G, is_compressed)` — whatever
the nonce point, `x(R) < n` or not. -/
theorem C17_recover_is_signer (mok : MsgCurveOk c) (bf d z : Int) (comp : Bool) (hd : (d : ZMod c.n) ≠ 0) (sig : Str)
    (hsig : signatureForMessageHash c bf d z comp = .ok sig) :
    ∃ Q, mulG c bf d = .ok (some Q) ∧ pairForMessageHash c bf sig z = .ok (some Q, comp) :=
  recover_is_signer_of_complete mok.ok mok.hp2n bf d z comp hd (recoverComplete_holds mok.ok mok.h4 bf) sig hsig

/-- **C17 sign-then-verify clause.**  For every key `d ≢ 0 (mod n)`, compressed or not, every network name and every
message: what `sign_message` returns verifies for the key object holding `d•G`, and for every address text that
`parse.address` resolves to a pay-to-pubkey-hash contract of `hash160(sec(d•G, is_compressed))`. -/
theorem C17_sign_then_verify (mok : MsgCurveOk c) (bf d : Int) (comp : Bool) (hd : (d : ZMod c.n) ≠ 0)
    (name : Str) (pa : Str → KeyObj) (pp : Bytes → Except Err Str) (msg sig : Str)
    (hsign : signMessage ⟨c, bf, name, pa, pp⟩ d comp msg false = .ok sig) :
    ∃ Q, mulG c bf d = .ok (some Q) ∧
      verifyMessage ⟨c, bf, name, pa, pp⟩ (.obj (.key (some Q))) sig (some msg) = .ok true ∧
      ∀ addr typ sec, pa addr = .contract typ (some (Hash.hash160 sec)) → (typ = "p2pkh" ∨ typ = "p2pkh_wit") →
        publicPairToSec Q.1 Q.2 comp = .ok sec →
        verifyMessage ⟨c, bf, name, pa, pp⟩ (.text addr) sig (some msg) = .ok true := by
  obtain ⟨Q, hQ, -, hv, ha⟩ := sign_then_verify_of_complete mok.ok mok.hp2n bf d comp hd
    (recoverComplete_holds mok.ok mok.h4 bf) name pa pp msg sig hsign
  exact ⟨Q, hQ, hv, ha⟩

/-- **C17 totality clause.**  For every signature text — base64 or not, any length, any header byte, any `r`, `s` —
every message shorter than 2^64 bytes and every key object or address text that `parse.address` recognises, the
repaired `verify_message` returns a boolean: no exception branch of the model is reachable. -/
theorem C17_verify_total (mok : MsgCurveOk c) (bf : Int) (name : Str) (pa : Str → KeyObj) (pp : Bytes → Except Err Str)
    (ka : KeyOrAddress) (hka : keyOf ⟨c, bf, name, pa, pp⟩ ka ≠ .pyNone) (sig msg : Str)
    (h1 : (utf8 (name ++ magicSuffix)).length < 2 ^ 64) (h2 : (utf8 msg).length < 2 ^ 64) :
    ∃ b, verifyMessage ⟨c, bf, name, pa, pp⟩ ka sig (some msg) = .ok b :=
  verify_total_of ⟨c, bf, name, pa, pp⟩ (recoverTotal_holds mok.ok mok.h4 mok.hp256 bf) ka hka sig msg h1 h2

/-- **C17 other-message clause** (partial: `hcr` is the cryptographic hypothesis — the digests of the two messages
differ modulo `n`; for distinct messages that is collision resistance of the double SHA-256 over the length-prefixed
preimages, plus the 2⁻¹²⁸ event that two distinct digests differ by `n`).  A signature text that verifies for a key
object on `msg` does not verify for that key on `msg'`: recovery yields `x⁻¹(s•R − z•G)`, injective in `z mod n`. -/
theorem C17_other_message_partial (mok : MsgCurveOk c) (bf : Int) (name : Str) (pa : Str → KeyObj)
    (pp : Bytes → Except Err Str) (K : Option (Int × Int)) (sig msg msg' : Str) (z z' : Nat)
    (hz : hashForSigning name msg = .ok z) (hz' : hashForSigning name msg' = .ok z')
    (hcr : (z : Int) % (c.n : Int) ≠ (z' : Int) % (c.n : Int))
    (h : verifyMessage ⟨c, bf, name, pa, pp⟩ (.obj (.key K)) sig (some msg) = .ok true) :
    verifyMessage ⟨c, bf, name, pa, pp⟩ (.obj (.key K)) sig (some msg') ≠ .ok true :=
  other_message_of ⟨c, bf, name, pa, pp⟩ (recoverInjective_holds mok.ok mok.h4 bf) K sig msg msg' z z' hz hz' hcr h

/-- `verify_message`, `sign_message`, `hash_for_signing`, `pair_for_message_hash` of the model are functions of their
arguments: there is no state a previous call could leave behind (the harness's history ops check the same of the
implementation).  Stated as congruence: equal arguments, equal answers. -/
theorem C17_stateless (env env' : Env) (ka ka' : KeyOrAddress) (sig sig' msg msg' : Str) (d d' : Int) (comp comp' v v' : Bool)
    (he : env = env') (hk : ka = ka') (hs : sig = sig') (hm : msg = msg') (hd : d = d') (hc : comp = comp') (hv : v = v') :
    verifyMessage env ka sig (some msg) = verifyMessage env' ka' sig' (some msg') ∧
    signMessage env d comp msg v = signMessage env' d' comp' msg' v' ∧
    hashForSigning env.networkName msg = hashForSigning env'.networkName msg' := by
  subst he hk hs hm hd hc hv; exact ⟨rfl, rfl, rfl⟩

/-- the digest and everything built on it depend on the network only through its *name*: two networks of the same
name (btc/xtn/xrt, ltc/xlt, …) hash alike, and sharing or not sharing a signer between them changes nothing -/
theorem C17_same_name_same_digest (n1 n2 : Pycoin.Addr.Network) (h : n1.networkName = n2.networkName) (msg : Str) :
    hashForSigning n1.networkName.toList msg = hashForSigning n2.networkName.toList msg := by rw [h]

/-! ## non-vacuity (evaluation, a test — not a theorem): on a concrete instance the model signs, the text has the
documented form, the signer's key verifies, another message and malformed texts are refused with `False` -/

def testEnv : Env :=
  ⟨Pycoin.Gen.Curves.secp256k1, 0, "Bitcoin".toList, fun _ => .contract "p2pkh" none, fun _ => .ok "addr".toList⟩

def isOkTrue : Except MsgSigning.Err Bool → Bool | .ok true => true | _ => false
def isOkFalse : Except MsgSigning.Err Bool → Bool | .ok false => true | _ => false

#guard (match signMessage testEnv 12345 true "hello".toList false, mulG testEnv.c 0 12345 with
  | .ok sig, .ok Q => isOkTrue (verifyMessage testEnv (.obj (.key Q)) sig (some "hello".toList))
      && isOkFalse (verifyMessage testEnv (.obj (.key Q)) sig (some "hellp".toList))
      && sig == "IMFV6wZUz1hALmrO1I1nyjhLo2lAXANit4a2oRaDR3+M7BfGGWyK76PXCJaZxov+ygGkyv9yCML5ZQj+W0MFycI=".toList
  | _, _ => false)

#guard ["!!!!", "abc", "a", "", "é", "IMFV6wZU", "AAAAAAAAAAAAAAAAAAAAAAAAAAAAAAAAAAAAAAAAAAAAAAAAAAAAAAAAAAAAAAAAAAAAAAAAAAAAAAAAAAAAAAAAAAAAAA=="].all
  fun t => isOkFalse (verifyMessage testEnv (.text "x".toList) t.toList (some "m".toList))

/-- C17.sign_needs_private: a key object without a secret exponent cannot sign (`ValueError`), whatever the message;
with one, signing is `sign_message` on that exponent -/
theorem C17_sign_needs_private (env : Env) (comp verbose : Bool) (message : Str) :
    signMessageWithKey env none comp message verbose = .error .valueError ∧
    ∀ d, signMessageWithKey env (some d) comp message verbose = signMessage env d comp message verbose :=
  ⟨rfl, fun _ => rfl⟩

end Pycoin.MsgSigning
