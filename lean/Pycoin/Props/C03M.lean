import Pycoin.Proofs.VMCond
import Pycoin.Proofs.VMNum
import Pycoin.Proofs.VMGetOp
import Pycoin.Proofs.VMStepFlow
import Pycoin.Proofs.VMStepPick
import Mathlib.Tactic.IntervalCases
import Pycoin.Proofs.VMEval
import Pycoin.Proofs.VMSigEnc
import Pycoin.Proofs.VMEval2
import Pycoin.Proofs.VMVerify2
import Pycoin.Proofs.VMVerify3
import Pycoin.Spec.Secp256k1
/-!
C03M — the Lean model of pycoin's script VM (`Pycoin.VM`, tied to the code by `harness/props/c03m.py`) against the
consensus specification `Pycoin.Spec.Consensus` (Bitcoin Core's interpreter, sibling builder).
Property theorems only; helper lemmas are in `Proofs/VM*.lean`.
-/
namespace Pycoin.VM
open Pycoin.Spec Pycoin.Spec.Consensus CondStack

/-! ## conditional stack -/

/-- pycoin's `(true_count, false_count)` is `absC vfExec`, and `absC` is the abstraction of DESIGN §6:
lengths of the leading run of `true`s / of what follows, seen from the outermost conditional -/
theorem C03M_condstack_abs (vf : List Bool) :
    absC vf = ⟨(vf.reverse.takeWhile id).length, (vf.reverse.dropWhile id).length⟩ := absC_eq_takeWhile vf

/-- `all_if_true()` is Core's `fExec` -/
theorem C03M_condstack_allIfTrue (vf : List Bool) : (absC vf).allIfTrue = vf.all id := absC_allIfTrue vf

/-- one IF/NOTIF/ELSE/ENDIF: the abstraction commutes, and the error cases (ELSE/ENDIF on an empty stack) coincide -/
theorem C03M_condstack_step (vf : List Bool) (op : CondOp) :
    pyStep (absC vf) op = (coreStep vf op).map absC := absC_step vf op

/-- C03.condstack_refines: for **every** sequence of conditional operations, from the empty stack -/
theorem C03M_condstack_refines (ops : List CondOp) :
    runPy {} ops = (runCore [] ops).map absC := absC_run [] ops

/-- `check_final_state` accepts exactly the empty `vfExec` -/
theorem C03M_condstack_final (vf : List Bool) : (absC vf).checkFinalState = .ok () ↔ vf = [] := absC_final vf

#guard runPy {} [.opIf true false, .opIf false false, .opElse, .opEndif] = some ⟨1, 0⟩
#guard runPy {} [.opElse] = none && runCore [] [.opElse] = none

/-! ## script numbers -/

/-- `int_from_script_bytes(s, False)` = `CScriptNum::set_vch` on inputs of any length -/
theorem C03M_scriptnum_decode (s : Bytes) : intFromScriptBytes s false = .ok (scriptNumDecode s) :=
  intFromScriptBytes_false s

/-- with `require_minimal` the code raises exactly when Core's minimal-encoding test fails -/
theorem C03M_scriptnum_minimal (s : Bytes) :
    intFromScriptBytes s true =
      if isMinimalNum s then .ok (scriptNumDecode s) else .error (scriptErr Gen.VM.errno_UNKNOWN_ERROR) :=
  intFromScriptBytes_true s

/-- where the code applies the 4-byte bound (`pop_check_bounds`: every arithmetic opcode except WITHIN, PICK, ROLL,
0NOTEQUAL and the CHECKMULTISIG counts), decoding is `CScriptNum(vch, fRequireMinimal, 4)` up to the error tag -/
theorem C03M_scriptnum_bounded (s : Bytes) (m : Bool) (h : s.length ≤ 4) :
    (intFromScriptBytes s m).toOption = (scriptNum s m 4).toOption := by
  have h' : ¬ s.length > 4 := by omega
  cases m
  · simp [intFromScriptBytes_false, scriptNum, h', Except.toOption]
  · rw [intFromScriptBytes_true]
    simp only [scriptNum, h', if_false, Bool.true_and]
    cases isMinimalNum s <;> simp [Except.toOption]

/-- `int_to_script_bytes` = `CScriptNum::serialize` -/
theorem C03M_scriptnum_encode (v : Int) : intToScriptBytes v = scriptNumEncode v := intToScriptBytes_eq v

/-- `bool_from_script_bytes(v)` (the form every opcode but 0NOTEQUAL uses) = `CastToBool` -/
theorem C03M_castToBool_eq (v : Bytes) : boolFromScriptBytes v false = .ok (castToBool v) := boolFromScriptBytes_false v

/-- `bool_from_script_bytes(v, require_minimal=True)` never returns (it compares an `int` with `bytes`, §8 row 14).
No opcode calls it this way any more since the repair b80974d (`OP_0NOTEQUAL` used to fail on every operand under
MINIMALDATA). -/
theorem C03M_boolMinimal_dead (v : Bytes) : ∃ e, boolFromScriptBytes v true = .error e := by
  unfold boolFromScriptBytes
  cases h : intFromScriptBytes v true with
  | error e => exact ⟨e, rfl⟩
  | ok n => exact ⟨_, rfl⟩

/-! ## decoder -/

/-- C03.getOp_refines: for every script, every `pc` inside it and both settings of `verify_minimal_data`, `get_opcode`
returns what `GetScriptOp` + `CheckMinimalPush` return (truncation ⇒ `is_ok = False`, whence BAD_OPCODE even in dead
branches; MINIMALDATA exactly when `CheckMinimalPush` fails; `OP_1NEGATE`/`OP_1..16` carry `CScriptNum(n).serialize()`).
Full since the repairs `fix: … length field is cut short` (bc1455a) and `fix: minimal-push check …` (fc90d57): before
them the statement was refuted by `4c` at the end of a script and by the 256-byte PUSHDATA2 (§8 row 29). -/
theorem C03M_getOp_refines (script : Bytes) (pc : Nat) (vm : Bool) (hpc : pc < script.length) :
    GetOpRefines script pc vm := getOp_refines script pc vm hpc

#guard (getOpcode [0x4c] 0 false).toOption.map (·.isOk) = some false
#guard (getOpcode ([0x4d, 0x00, 0x01] ++ List.replicate 256 0x42) 0 true).toOption.map (·.isOk) = some true

/-! ## one instruction: handler level

`HandlerAgrees chk cfg op`: the function the **generated** `INSTRUCTION_LOOKUP` holds at byte `op`, run on the pycoin state
that represents an arbitrary Core state, agrees (up to the error code) with the arm of Core's opcode switch for `op`. -/

/-- agreement of the table entry for `op` with `execOp … op`, for every Core state, `pc` and `fExec` -/
def HandlerAgrees (chk : Bytes → Bytes → Bytes → Bool → Bool) (cfg : Config) (op : Nat) : Prop :=
  ∃ h oc, Gen.VM.lookupList[op]? = some (h, oc) ∧
    ∀ (st : Consensus.State) (pc' : Nat) (f : Bool),
      Agree pc' (runHandler (stdEnv chk) cfg h (absS st pc')) (Consensus.execOp (specEnv cfg) st f op pc')

section
variable (chk : Bytes → Bytes → Bytes → Bool → Bool) (cfg : Config)

/-- C03.step_eq, stack opcodes TOALTSTACK … TUCK (IFDUP: since the repair f08f560; PICK/ROLL: 4-byte operand since 09cb70c) -/
theorem C03M_step_eq_stack : ∀ op ∈ [0x6b, 0x6c, 0x6d, 0x6e, 0x6f, 0x70, 0x71, 0x72, 0x73, 0x74, 0x75, 0x76, 0x77, 0x78, 0x79, 0x7a, 0x7b, 0x7c, 0x7d], HandlerAgrees chk cfg op := by
  intro op hop
  simp only [List.mem_cons, List.mem_nil_iff, or_false] at hop
  rcases hop with rfl | rfl | rfl | rfl | rfl | rfl | rfl | rfl | rfl | rfl | rfl | rfl | rfl | rfl | rfl | rfl | rfl | rfl | rfl
  · exact ⟨.misc_TOALTSTACK, false, by decide +kernel, fun st pc' f => h_TOALTSTACK cfg st pc' f⟩
  · exact ⟨.misc_FROMALTSTACK, false, by decide +kernel, fun st pc' f => h_FROMALTSTACK cfg st pc' f⟩
  · exact ⟨.stack_2DROP, false, by decide +kernel, fun st pc' f => h_2DROP cfg st pc' f⟩
  · exact ⟨.stack_2DUP, false, by decide +kernel, fun st pc' f => h_2DUP cfg st pc' f⟩
  · exact ⟨.stack_3DUP, false, by decide +kernel, fun st pc' f => h_3DUP cfg st pc' f⟩
  · exact ⟨.stack_2OVER, false, by decide +kernel, fun st pc' f => h_2OVER cfg st pc' f⟩
  · exact ⟨.stack_2ROT, false, by decide +kernel, fun st pc' f => h_2ROT cfg st pc' f⟩
  · exact ⟨.stack_2SWAP, false, by decide +kernel, fun st pc' f => h_2SWAP cfg st pc' f⟩
  · exact ⟨.misc_IFDUP, false, by decide +kernel, fun st pc' f => h_IFDUP cfg st pc' f⟩
  · exact ⟨.int_DEPTH, false, by decide +kernel, fun st pc' f => h_DEPTH cfg st pc' f⟩
  · exact ⟨.stack_DROP, false, by decide +kernel, fun st pc' f => h_DROP cfg st pc' f⟩
  · exact ⟨.stack_DUP, false, by decide +kernel, fun st pc' f => h_DUP cfg st pc' f⟩
  · exact ⟨.stack_NIP, false, by decide +kernel, fun st pc' f => h_NIP cfg st pc' f⟩
  · exact ⟨.stack_OVER, false, by decide +kernel, fun st pc' f => h_OVER cfg st pc' f⟩
  · exact ⟨.int_PICK, false, by decide +kernel, fun st pc' f => h_PICK cfg st pc' f⟩
  · exact ⟨.int_ROLL, false, by decide +kernel, fun st pc' f => h_ROLL cfg st pc' f⟩
  · exact ⟨.stack_ROT, false, by decide +kernel, fun st pc' f => h_ROT cfg st pc' f⟩
  · exact ⟨.stack_SWAP, false, by decide +kernel, fun st pc' f => h_SWAP cfg st pc' f⟩
  · exact ⟨.stack_TUCK, false, by decide +kernel, fun st pc' f => h_TUCK cfg st pc' f⟩

/-- C03.step_eq, SIZE, EQUAL, EQUALVERIFY (the disabled splice/bitwise opcodes: `C03M_step_eq_disabled`) -/
theorem C03M_step_eq_splice : ∀ op ∈ [0x82, 0x87, 0x88], HandlerAgrees chk cfg op := by
  intro op hop
  simp only [List.mem_cons, List.mem_nil_iff, or_false] at hop
  rcases hop with rfl | rfl | rfl
  · exact ⟨.int_SIZE, false, by decide +kernel, fun st pc' f => h_SIZE cfg st pc' f⟩
  · exact ⟨.int_EQUAL, false, by decide +kernel, fun st pc' f => h_EQUAL cfg st pc' f⟩
  · exact ⟨.int_EQUALVERIFY, false, by decide +kernel, fun st pc' f => h_EQUALVERIFY cfg st pc' f⟩

/-- C03.step_eq, numeric opcodes 1ADD … WITHIN: 4-byte `CScriptNum` operands, minimal-encoding flag, results re-encoded (0NOTEQUAL: since b80974d; WITHIN: since 09cb70c) -/
theorem C03M_step_eq_arith : ∀ op ∈ [0x8b, 0x8c, 0x8f, 0x90, 0x91, 0x92, 0x93, 0x94, 0x9a, 0x9b, 0x9c, 0x9d, 0x9e, 0x9f, 0xa0, 0xa1, 0xa2, 0xa3, 0xa4, 0xa5], HandlerAgrees chk cfg op := by
  intro op hop
  simp only [List.mem_cons, List.mem_nil_iff, or_false] at hop
  rcases hop with rfl | rfl | rfl | rfl | rfl | rfl | rfl | rfl | rfl | rfl | rfl | rfl | rfl | rfl | rfl | rfl | rfl | rfl | rfl | rfl
  · exact ⟨.int_1ADD, false, by decide +kernel, fun st pc' f => h_1ADD cfg st pc' f⟩
  · exact ⟨.int_1SUB, false, by decide +kernel, fun st pc' f => h_1SUB cfg st pc' f⟩
  · exact ⟨.int_NEGATE, false, by decide +kernel, fun st pc' f => h_NEGATE cfg st pc' f⟩
  · exact ⟨.int_ABS, false, by decide +kernel, fun st pc' f => h_ABS cfg st pc' f⟩
  · exact ⟨.int_NOT, false, by decide +kernel, fun st pc' f => h_NOT cfg st pc' f⟩
  · exact ⟨.int_0NOTEQUAL, false, by decide +kernel, fun st pc' f => h_0NOTEQUAL cfg st pc' f⟩
  · exact ⟨.int_ADD, false, by decide +kernel, fun st pc' f => h_ADD cfg st pc' f⟩
  · exact ⟨.int_SUB, false, by decide +kernel, fun st pc' f => h_SUB cfg st pc' f⟩
  · exact ⟨.int_BOOLAND, false, by decide +kernel, fun st pc' f => h_BOOLAND cfg st pc' f⟩
  · exact ⟨.int_BOOLOR, false, by decide +kernel, fun st pc' f => h_BOOLOR cfg st pc' f⟩
  · exact ⟨.int_NUMEQUAL, false, by decide +kernel, fun st pc' f => h_NUMEQUAL cfg st pc' f⟩
  · exact ⟨.int_NUMEQUALVERIFY, false, by decide +kernel, fun st pc' f => h_NUMEQUALVERIFY cfg st pc' f⟩
  · exact ⟨.int_NUMNOTEQUAL, false, by decide +kernel, fun st pc' f => h_NUMNOTEQUAL cfg st pc' f⟩
  · exact ⟨.int_LESSTHAN, false, by decide +kernel, fun st pc' f => h_LESSTHAN cfg st pc' f⟩
  · exact ⟨.int_GREATERTHAN, false, by decide +kernel, fun st pc' f => h_GREATERTHAN cfg st pc' f⟩
  · exact ⟨.int_LESSTHANOREQUAL, false, by decide +kernel, fun st pc' f => h_LESSTHANOREQUAL cfg st pc' f⟩
  · exact ⟨.int_GREATERTHANOREQUAL, false, by decide +kernel, fun st pc' f => h_GREATERTHANOREQUAL cfg st pc' f⟩
  · exact ⟨.int_MIN, false, by decide +kernel, fun st pc' f => h_MIN cfg st pc' f⟩
  · exact ⟨.int_MAX, false, by decide +kernel, fun st pc' f => h_MAX cfg st pc' f⟩
  · exact ⟨.int_WITHIN, false, by decide +kernel, fun st pc' f => h_WITHIN cfg st pc' f⟩

/-- C03.step_eq, RIPEMD160, SHA1, SHA256, HASH160, HASH256 (hash functions shared with the specification) and CODESEPARATOR -/
theorem C03M_step_eq_crypto : ∀ op ∈ [0xa6, 0xa7, 0xa8, 0xa9, 0xaa, 0xab], HandlerAgrees chk cfg op := by
  intro op hop
  simp only [List.mem_cons, List.mem_nil_iff, or_false] at hop
  rcases hop with rfl | rfl | rfl | rfl | rfl | rfl
  · exact ⟨.stack_RIPEMD160, false, by decide +kernel, fun st pc' f => h_RIPEMD160 cfg st pc' f chk⟩
  · exact ⟨.stack_SHA1, false, by decide +kernel, fun st pc' f => h_SHA1 cfg st pc' f chk⟩
  · exact ⟨.stack_SHA256, false, by decide +kernel, fun st pc' f => h_SHA256 cfg st pc' f chk⟩
  · exact ⟨.stack_HASH160, false, by decide +kernel, fun st pc' f => h_HASH160 cfg st pc' f chk⟩
  · exact ⟨.stack_HASH256, false, by decide +kernel, fun st pc' f => h_HASH256 cfg st pc' f chk⟩
  · exact ⟨.misc_CODESEPARATOR, false, by decide +kernel, fun st pc' f => h_CODESEPARATOR cfg st pc' f⟩

/-- C03.step_eq, CHECKLOCKTIMEVERIFY / CHECKSEQUENCEVERIFY for every transaction context and flag setting (operand left untouched since b47cae5) -/
theorem C03M_step_eq_locktime : ∀ op ∈ [0xb1, 0xb2], HandlerAgrees chk cfg op := by
  intro op hop
  simp only [List.mem_cons, List.mem_nil_iff, or_false] at hop
  rcases hop with rfl | rfl
  · exact ⟨.misc_CHECKLOCKTIMEVERIFY, false, by decide +kernel, fun st pc' f => h_CLTV cfg st pc' f⟩
  · exact ⟨.misc_CHECKSEQUENCEVERIFY, false, by decide +kernel, fun st pc' f => h_CSV cfg st pc' f⟩

/-- C03.step_eq, flow control: IF / NOTIF in executed **and** dead branches (`f` is Core's `fExec`), with the flag
pre-condition under which pycoin builds its VMs (MINIMALIF only in witness scripts) -/
theorem C03M_step_eq_if (rev : Bool) (hw : hasFlag cfg.flags Gen.VM.VERIFY_MINIMALIF = true → cfg.witness = true) :
    ∃ h, Gen.VM.lookupList[if rev then 0x64 else 0x63]? = some (h, true) ∧
      ∀ (st : Consensus.State) (pc' : Nat),
        Agree pc' (runHandler (stdEnv chk) cfg h (absS st pc'))
          (Consensus.execOp (specEnv cfg) st (st.vfExec.all id) (if rev then 0x64 else 0x63) pc') := by
  cases rev
  · exact ⟨.mkIf false, by decide +kernel, fun st pc' => h_IF cfg st pc' false hw⟩
  · exact ⟨.mkIf true, by decide +kernel, fun st pc' => h_IF cfg st pc' true hw⟩

/-- ELSE / ENDIF / VERIFY / RETURN / NOP -/
theorem C03M_step_eq_flow : ∀ op ∈ [0x61, 0x67, 0x68, 0x69, 0x6a], HandlerAgrees chk cfg op := by
  intro op hop
  simp only [List.mem_cons, List.mem_nil_iff, or_false] at hop
  rcases hop with rfl | rfl | rfl | rfl | rfl
  · exact ⟨.stack_NOP, false, by decide +kernel, fun st pc' f => h_NOP cfg st pc' f⟩
  · exact ⟨.misc_ELSE, true, by decide +kernel, fun st pc' f => h_ELSE cfg st pc' f⟩
  · exact ⟨.misc_ENDIF, true, by decide +kernel, fun st pc' f => h_ENDIF cfg st pc' f⟩
  · exact ⟨.int_VERIFY, false, by decide +kernel, fun st pc' f => h_VERIFY cfg st pc' f⟩
  · exact ⟨.stack_RETURN, false, by decide +kernel, fun st pc' f => h_RETURN cfg st pc' f⟩

/-- the upgradable NOPs (NOP1, NOP4 … NOP10) -/
theorem C03M_step_eq_nops : ∀ op ∈ [0xb0, 0xb3, 0xb4, 0xb5, 0xb6, 0xb7, 0xb8, 0xb9], HandlerAgrees chk cfg op := by
  intro op hop
  simp only [List.mem_cons, List.mem_nil_iff, or_false] at hop
  rcases hop with rfl | rfl | rfl | rfl | rfl | rfl | rfl | rfl <;>
  exact ⟨.discourageNops, false, by decide +kernel, fun st pc' f => h_NOPn cfg st pc' f _ (by omega)⟩

/-- reserved and undefined opcodes: the generated table holds a BAD_OPCODE-raising function exactly where Core's switch
falls through to `SCRIPT_ERR_BAD_OPCODE`: OP_RESERVED, OP_VER, OP_VERIF, OP_VERNOTIF, OP_RESERVED1/2, 0xba … 0xff -/
theorem C03M_step_eq_bad (op : Nat)
    (hop : op = 0x50 ∨ op = 0x62 ∨ op = 0x65 ∨ op = 0x66 ∨ op = 0x89 ∨ op = 0x8a ∨ (0xba ≤ op ∧ op < 256)) :
    (∃ h oc, Gen.VM.lookupList[op]? = some (h, oc) ∧
      ∀ s, op ≠ 0x50 ∨ s.cond.allIfTrue = true → ∃ e, runHandler (stdEnv chk) cfg h s = .error e) ∧
    ∀ (st : Consensus.State) (pc' : Nat) (f : Bool), (Consensus.execOp (specEnv cfg) st f op pc').toOption = none := by
  constructor
  · rcases hop with rfl | rfl | rfl | rfl | rfl | rfl | ⟨h1, h2⟩
    · refine ⟨.misc_RESERVED, true, by decide +kernel, fun s hs => ?_⟩
      rcases hs with hs | hs
      · exact absurd rfl hs
      · exact ⟨scriptErr Gen.VM.errno_BAD_OPCODE, by simp [runHandler, do_RESERVED, hs]⟩
    · exact ⟨.stack_VER, false, by decide +kernel, fun s _ => ⟨_, rfl⟩⟩
    · exact ⟨.badOpcode 15, true, by decide +kernel, fun s _ => ⟨_, rfl⟩⟩
    · exact ⟨.badOpcode 15, true, by decide +kernel, fun s _ => ⟨_, rfl⟩⟩
    · exact ⟨.stack_RESERVED1, false, by decide +kernel, fun s _ => ⟨_, rfl⟩⟩
    · exact ⟨.stack_RESERVED2, false, by decide +kernel, fun s _ => ⟨_, rfl⟩⟩
    · by_cases h255 : op = 255
      · subst h255; exact ⟨.badOpcode 15, false, by decide +kernel, fun s _ => ⟨_, rfl⟩⟩
      · have hall : ∀ n, n < 255 → 0xba ≤ n → Gen.VM.lookupList[n]? = some (.badInstruction n, false) := by decide +kernel
        exact ⟨.badInstruction op, false, hall op (by omega) h1, fun s _ => ⟨_, rfl⟩⟩
  · intro st pc' f
    have := h_bad cfg st pc' f op hop (.py "x")
    simpa [Agree, Except.toOption] using this.symm

/-- disabled opcodes: the table holds `make_bad_opcode(…, even_outside_conditional=True, err=DISABLED_OPCODE)` exactly
at the opcodes `EvalScript` rejects wherever they occur -/
theorem C03M_step_eq_disabled : ∀ op, op < 256 →
    (Consensus.isDisabledOpcode op = true ↔
      Gen.VM.lookupList[op]? = some (.badOpcode Gen.VM.errno_DISABLED_OPCODE, true)) := by decide +kernel

/-- the `outside_conditional` attribute is set exactly on the opcodes Core's loop looks at in dead branches:
`OP_IF … OP_ENDIF`, the disabled opcodes, and OP_RESERVED (whose handler then only un-counts itself) -/
theorem C03M_outside_conditional : ∀ op, op < 256 →
    ((Gen.VM.lookupList[op]?).map (·.2) =
      some ((Consensus.OP_IF ≤ op && op ≤ Consensus.OP_ENDIF) || Consensus.isDisabledOpcode op || op == 0x50)) := by
  decide +kernel

end

/-! ## one whole instruction, and the whole script -/

section
variable (chk : Bytes → Bytes → Bytes → Bool → Bool) (cfg : Config)

/-- C03.step_eq at the level of `VM.eval_instruction`: for **every** Core state `st`, every position `pc` inside the
script and every opcode outside the CHECKSIG family, one `eval_instruction` on the pycoin state representing `st`
(decode through the generated decoder table, push-size limit, op count incl. OP_RESERVED un-counting itself, dispatch
through the generated `INSTRUCTION_LOOKUP`, `outside_conditional`, op-count and stack-size limits) and one iteration of
Core's `EvalScript` loop (`GetScriptOp` + `stepM`) both fail or both succeed with corresponding states.
Extra hypotheses (hence `_partial`): the opcode is not CHECKSIG(VERIFY)/CHECKMULTISIG(VERIFY) (the model of those is
tied to the code by correspondence only), and MINIMALIF is only given to witness VMs (`check_solution` strips it
otherwise).  An undecodable instruction is an error on both sides. -/
theorem C03M_step_eq_partial (st : Consensus.State) (pc : Nat) (hpc : pc < cfg.script.length)
    (hw : hasFlag cfg.flags Gen.VM.VERIFY_MINIMALIF = true → cfg.witness = true) :
    match getScriptOp (cfg.script.drop pc) with
    | none => (evalInstruction (stdEnv chk) cfg (absS st pc)).toOption = none
    | some (op, data, _, size) =>
      ¬ (0xac ≤ op ∧ op ≤ 0xaf) →
        Agree (pc + size) (evalInstruction (stdEnv chk) cfg (absS st pc)) (specStep chk cfg st op data (pc + size)) :=
  instr_eq chk cfg st pc hpc hw

/-- C03.eval_eq: `VM(script, …, initial_stack).eval_script()` and Core's `EvalScript` give the same verdict and, on
success, the same final stack — script-size limit, op-count, stack-size, conditional balance at the end included;
by induction on the loop (`pc` strictly increases).  For all scripts of any length whose instructions are outside the
CHECKSIG family (`noSigOps`), all initial stacks, flags, transaction contexts and both signature versions. -/
theorem C03M_eval_eq_partial (hw : hasFlag cfg.flags Gen.VM.VERIFY_MINIMALIF = true → cfg.witness = true)
    (hns : noSigOps cfg.script.length cfg.script = true) (stack : List Bytes) :
    (evalScript (stdEnv chk) cfg stack).toOption.map (·.stack) =
      (Consensus.evalScript (specChk chk) stack cfg.script (Flags.ofBits cfg.flags)
        ⟨cfg.ctx.version, cfg.ctx.lockTime, cfg.ctx.sequence⟩ (if cfg.witness then .witnessV0 else .base)).toOption :=
  evalScript_eq chk cfg hw hns stack

end

-- the hypotheses are satisfiable, and the conclusion is about non-trivial runs
example : noSigOps 9 [0x51, 0x63, 0x52, 0x53, 0x93, 0x67, 0x00, 0x68, 0x76] = true := by decide
#guard ((evalScript (stdEnv fun _ _ _ _ => false) ⟨[0x51, 0x63, 0x52, 0x53, 0x93, 0x67, 0x00, 0x68, 0x76], ⟨0, 0, 1⟩, 0, false⟩ []).toOption.map
  (·.stack)) = some [[5], [5]]
#guard (Consensus.evalScript (fun _ _ _ _ => false) [] [0x51, 0x63, 0x52, 0x53, 0x93, 0x67, 0x00, 0x68, 0x76] (Flags.ofBits 0) ⟨1, 0, 0⟩
  .base).toOption = some [[5], [5]]

/-! ## signature, hash-type and public-key encoding rules (the checks around CHECKSIG) -/

/-- `check_valid_signature` is `IsValidSignatureEncoding` (BIP66 strict DER incl. the hash-type byte) on **every** byte string:
SIG_DER is raised exactly when Core's predicate is false -/
theorem C03M_sigenc_der (sig : Bytes) :
    checkValidSignature sig = if isValidSignatureEncoding sig then .ok () else .error sigDer := validSignature_eq sig

/-- `check_defined_hashtype_signature` is `IsDefinedHashtypeSignature` (non-empty signature: the only way it is called) -/
theorem C03M_sigenc_hashtype (sig : Bytes) (h : sig ≠ []) :
    checkDefinedHashtypeSignature sig =
      if isDefinedHashtypeSignature sig then .ok () else .error (scriptErr Gen.VM.errno_SIG_HASHTYPE) :=
  definedHashtype_eq sig h

/-- `check_public_key_encoding` (STRICTENC) is `IsCompressedOrUncompressedPubKey` -/
theorem C03M_pubkey_encoding (blob : Bytes) :
    checkPublicKeyEncoding blob =
      if isCompressedOrUncompressedPubKey blob then .ok () else .error (scriptErr Gen.VM.errno_PUBKEYTYPE) :=
  pubkeyEncoding_eq blob

/-- the WITNESS_PUBKEYTYPE test of `checksig` is `!IsCompressedPubKey` -/
theorem C03M_pubkey_compressed (blob : Bytes) :
    (decide (blob.length ≠ 33) || !(decide (blob.head? = some 2) || decide (blob.head? = some 3))) = !isCompressedPubKey blob :=
  compressedKey_eq blob


/-! ## the CHECKSIG family

The signature check proper (`generator.verify` of the sighash closure's digest; Core: `CheckSig`) is the shared
parameter `chk`.  All the theorems below ask of it is `ChkWF chk`: an empty signature, a signature the lax DER parser
rejects and a key whose length does not fit its first byte never verify (the early exits of Core's `CheckSig`,
`C03M_chk_wf_core`).  Where the base signature version hashes a script code with the signatures removed, the agreement
of pycoin's `_delete_signature` with Core's `FindAndDelete` is the hypothesis `DelAgrees` / `SigDelShared`, which
`C03M_sigdel_eq` proves for every script code and signatures within 520 bytes; witness VMs delete nothing. -/

/-- `der.sigdecode_der_lax` (index based port) = `ecdsa_signature_parse_der_lax` of the specification on **every** byte
string: same failures, same `(r, s)` — up to libsecp256k1 overwriting an out-of-range signature with `(0, 0)` -/
theorem C03M_sigenc_lax (sig : Bytes) : laxDerParse sig = (sigdecodeDerLax sig).map normSig := sigdecodeDerLax_spec sig

/-- every signature that passes `IsValidSignatureEncoding` is read by the lax parser (so LOW_S never meets an
unparseable signature) -/
theorem C03M_sigenc_valid_parses (sig : Bytes) (hv : isValidSignatureEncoding sig = true) :
    ∃ r s, sigdecodeDerLax sig.dropLast = some (r, s) := valid_decodes sig hv

/-- `parse_and_check_signature_blob(sig, flags)` = `CheckSignatureEncoding(sig, flags)` for every byte string and flag
set: it raises exactly when Core rejects (DERSIG/LOW_S/STRICTENC ⇒ strict DER; LOW_S ⇒ low S on the lax-parsed pair;
STRICTENC ⇒ defined hash type), and otherwise yields a pair exactly when the blob is non-empty and lax-parsable -/
theorem C03M_sigenc_blob (sig : Bytes) (n : Nat) :
    (∃ e, parseAndCheckSignatureBlob sig n = .error e ∧ (checkSignatureEncoding sig (Flags.ofBits n)).isSome = true) ∨
    (∃ p, parseAndCheckSignatureBlob sig n = .ok p ∧ checkSignatureEncoding sig (Flags.ofBits n) = none ∧
        (p == .parsed) = (!sig.isEmpty && (laxDerParse sig.dropLast).isSome)) := parse_cases sig n

#guard parseAndCheckSignatureBlob [0x30, 0x06, 0x02, 0x01, 0x01, 0x02, 0x01, 0x01, 0x01] 14 = .ok .parsed
#guard (parseAndCheckSignatureBlob [0x30, 0x06, 0x02, 0x01, 0x01, 0x02, 0x01, 0x01, 0x00] 2).toOption = none

section
variable (chk : Bytes → Bytes → Bytes → Bool → Bool) (cfg : Config)

/-- Core's `CheckSig` (`Spec/Secp256k1.checkSigWith`: key parse, empty signature, lax DER, ECDSA) has the early exits
`ChkWF` asks for, whatever the signature hash: the hypothesis of the theorems below is satisfied by the real thing -/
theorem C03M_chk_wf_core (sighash : Bytes → Bool → Nat → Bytes) :
    ChkWF (fun sig pk code w => Spec.Secp256k1.checkSigWith (sighash code w) sig pk) := by
  intro sig pk code w h
  simp only [Spec.Secp256k1.checkSigWith] at h
  cases hk : Spec.Secp256k1.parsePubKey pk with
  | none => rw [hk] at h; cases h
  | some Q =>
    rw [hk] at h
    cases hl : sig.getLast? with
    | none => rw [hl] at h; cases h
    | some ht =>
      rw [hl] at h
      cases hp : laxDerParse sig.dropLast with
      | none => rw [hp] at h; cases h
      | some rs =>
        refine ⟨(by intro hs; subst hs; cases hl), rfl, ?_⟩
        cases pk with
        | nil => cases hk
        | cons pre rest =>
          simp only [Spec.Secp256k1.parsePubKey] at hk
          unfold pubkeyShapeOk
          split_ifs at hk with h1 h2
          all_goals simp_all [← UInt8.toNat_inj]

/-- **checksigs_eq**: the two nested `while` loops of `checksigs` (pycoin pops signatures and keys from the end, parses
a signature once, tries it on keys while more keys than signatures remain) give the verdict of Core's
`while (fSuccess && nSigsCount > 0)` loop, for **all** signature and key lists with `#sigs ≤ #keys` (no bound of 20
needed), every flag set; both encodings are checked for every pair either side examines. Induction on the signature
list, inner induction on the key list. -/
theorem C03M_checksigs_eq (hwp : hasFlag cfg.flags Gen.VM.VERIFY_WITNESS_PUBKEYTYPE = true → cfg.witness = true)
    (hchk : ChkWF chk) (code : Bytes) (sigs pubs : List Bytes) (h : sigs.length ≤ pubs.length) :
    (checksigsLoop (stdEnv chk) cfg (.ok code) sigs pubs).toOption = (specMulti chk cfg code sigs pubs).toOption :=
  checksigsLoop_spec chk cfg hwp hchk code sigs pubs h

/-- C03.step_eq, OP_CHECKSIG / OP_CHECKSIGVERIFY at handler level, for every Core state: stack depth, both encodings,
the check, NULLFAIL, the VERIFY suffix -/
theorem C03M_step_eq_checksig (hwp : hasFlag cfg.flags Gen.VM.VERIFY_WITNESS_PUBKEYTYPE = true → cfg.witness = true)
    (hchk : ChkWF chk) : ∀ op ∈ [0xac, 0xad],
    ∃ h, Gen.VM.lookupList[op]? = some (h, false) ∧
      ∀ (st : Consensus.State) (pc' : Nat), (∀ sigs, (∀ x ∈ sigs, x ∈ st.stack) → DelAgrees cfg st sigs) →
        Agree pc' (runHandler (stdEnv chk) cfg h (absS st pc')) (specCheckSig chk cfg st op) := by
  intro op hop
  simp only [List.mem_cons, List.mem_nil_iff, or_false] at hop
  rcases hop with rfl | rfl
  · exact ⟨.sig_CHECKSIG, sig_table.1, fun st pc' hd => h_CHECKSIG chk cfg hwp hchk st pc' hd⟩
  · exact ⟨.sig_CHECKSIGVERIFY, sig_table.2.1, fun st pc' hd => h_CHECKSIGVERIFY chk cfg hwp hchk st pc' hd⟩

/-- C03.step_eq, OP_CHECKMULTISIG / OP_CHECKMULTISIGVERIFY at handler level, for every Core state and all `m ≤ n ≤ 20`:
4-byte minimal counts and their ranges, stack depth, NULLDUMMY, the matching loops, NULLFAIL, the VERIFY suffix, and the
op-count contribution of the key count — Core adds it and tests the limit before looking at the keys, pycoin
(`vm.op_count += key_count` at the very end) only afterwards, so the comparison is made through `cntCheck`, the test
`eval_instruction` applies right after the handler -/
theorem C03M_step_eq_checkmultisig (hwp : hasFlag cfg.flags Gen.VM.VERIFY_WITNESS_PUBKEYTYPE = true → cfg.witness = true)
    (hchk : ChkWF chk) : ∀ op ∈ [0xae, 0xaf],
    ∃ h, Gen.VM.lookupList[op]? = some (h, false) ∧
      ∀ (st : Consensus.State) (pc' : Nat), (∀ sigs, (∀ x ∈ sigs, x ∈ st.stack) → DelAgrees cfg st sigs) →
        ((runHandler (stdEnv chk) cfg h (absS st pc')).bind cntCheck).toOption =
          (specCheckMultiSig chk cfg st op).toOption.map (absS · pc') := by
  intro op hop
  simp only [List.mem_cons, List.mem_nil_iff, or_false] at hop
  rcases hop with rfl | rfl
  · exact ⟨.sig_CHECKMULTISIG, sig_table.2.2.1, fun st pc' hd => do_CHECKMULTISIG_spec chk cfg hwp hchk st pc' hd⟩
  · exact ⟨.sig_CHECKMULTISIGVERIFY, sig_table.2.2.2, fun st pc' hd => do_CHECKMULTISIGVERIFY_spec chk cfg hwp hchk st pc' hd⟩

/-- C03.step_eq at the level of `VM.eval_instruction`, **all 256 opcode values**: for every Core state `st` and every
position `pc` inside the script, one `eval_instruction` on the pycoin state representing `st` and one iteration of
Core's `EvalScript` loop both fail or both succeed with corresponding states.  Hypotheses: MINIMALIF and
WITNESS_PUBKEYTYPE are only given to witness VMs (`check_solution` strips them otherwise: discharged in
`C03M_verify_eq`), `ChkWF chk`, and signature deletion agrees for the signatures on this stack (trivial for witness VMs). -/
theorem C03M_step_eq (st : Consensus.State) (pc : Nat) (hpc : pc < cfg.script.length)
    (hw : hasFlag cfg.flags Gen.VM.VERIFY_MINIMALIF = true → cfg.witness = true)
    (hwp : hasFlag cfg.flags Gen.VM.VERIFY_WITNESS_PUBKEYTYPE = true → cfg.witness = true) (hchk : ChkWF chk)
    (hdel : ∀ sigs, (∀ x ∈ sigs, x ∈ st.stack) → DelAgrees cfg st sigs) :
    match getScriptOp (cfg.script.drop pc) with
    | none => (evalInstruction (stdEnv chk) cfg (absS st pc)).toOption = none
    | some (op, data, _, size) =>
        Agree (pc + size) (evalInstruction (stdEnv chk) cfg (absS st pc)) (specStep chk cfg st op data (pc + size)) :=
  instr_eq_all chk cfg st pc hpc hw hwp hchk hdel

/-- `C03M_step_eq` with the deletion hypothesis discharged: all it takes is that the stack items are within 520 bytes
(any script code: `C03M_sigdel_eq`) -/
theorem C03M_step_eq_items (st : Consensus.State) (pc : Nat) (hpc : pc < cfg.script.length)
    (hw : hasFlag cfg.flags Gen.VM.VERIFY_MINIMALIF = true → cfg.witness = true)
    (hwp : hasFlag cfg.flags Gen.VM.VERIFY_WITNESS_PUBKEYTYPE = true → cfg.witness = true) (hchk : ChkWF chk)
    (hok : okL st.stack) :
    match getScriptOp (cfg.script.drop pc) with
    | none => (evalInstruction (stdEnv chk) cfg (absS st pc)).toOption = none
    | some (op, data, _, size) =>
        Agree (pc + size) (evalInstruction (stdEnv chk) cfg (absS st pc)) (specStep chk cfg st op data (pc + size)) :=
  instr_eq_all chk cfg st pc hpc hw hwp hchk (fun sigs hm => delAgrees_all cfg st sigs (fun s hs => hok s (hm s hs)))

/-- C03.eval_eq for arbitrary initial stacks, under the hypothesis that signature deletion is shared along the run
(`SigDelShared`; by `C03M_sigdel_eq` it holds whenever the initial items are within 520 bytes, which is `C03M_eval_eq`): same verdict, and on success the same final stack -/
theorem C03M_eval_eq_shared (hw : hasFlag cfg.flags Gen.VM.VERIFY_MINIMALIF = true → cfg.witness = true)
    (hwp : hasFlag cfg.flags Gen.VM.VERIFY_WITNESS_PUBKEYTYPE = true → cfg.witness = true) (hchk : ChkWF chk)
    (stack : List Bytes) (hdel : SigDelShared chk cfg stack) :
    (evalScript (stdEnv chk) cfg stack).toOption.map (·.stack) =
      (Consensus.evalScript (specChk chk) stack cfg.script (Flags.ofBits cfg.flags)
        ⟨cfg.ctx.version, cfg.ctx.lockTime, cfg.ctx.sequence⟩ (if cfg.witness then .witnessV0 else .base)).toOption :=
  evalScript_eq_all chk cfg hw hwp hchk stack hdel

/-- **signature deletion agrees**: pycoin's `_delete_signature` (instruction walk dropping the instructions equal to the
canonical push of the signature and keeping an undecodable tail verbatim — since the repair a9b3b8d; signatures taken
bottom-most first) and Core's `FindAndDelete(scriptCode, CScript() << sig)` (top-most first) give the same script code for
**every** script code and every list of signatures of at most 520 bytes; and along Core's run of any script on items
within 520 bytes this is always so (items never exceed 520 bytes: `specStep_items`) -/
theorem C03M_sigdel_eq :
    (∀ (st : Consensus.State) (sigs : List Bytes), (∀ s ∈ sigs, s.length ≤ 520) → DelAgrees cfg st sigs) ∧
    (∀ stack0, okL stack0 → SigDelShared chk cfg stack0) :=
  ⟨fun st sigs hl => delAgrees_all cfg st sigs hl, fun stack0 hok => sigDelShared_items chk cfg stack0 hok⟩

/-- a script with an undecodable instruction fails its evaluation on both sides (BAD_OPCODE at the latest when the loop
gets there, even in a dead branch), whatever happened before — no assumption on signature deletion -/
theorem C03M_eval_unwalkable (hw : hasFlag cfg.flags Gen.VM.VERIFY_MINIMALIF = true → cfg.witness = true)
    (hnw : ¬ Walkable cfg.script) (stack : List Bytes) :
    (evalScript (stdEnv chk) cfg stack).toOption = none ∧
      (Consensus.evalScript (specChk chk) stack cfg.script (Flags.ofBits cfg.flags)
        ⟨cfg.ctx.version, cfg.ctx.lockTime, cfg.ctx.sequence⟩ (if cfg.witness then .witnessV0 else .base)).toOption = none :=
  evalScript_unwalkable chk cfg hw hnw stack

/-- C03.eval_eq, **every script**: `VM(script, …, initial_stack).eval_script()` and Core's `EvalScript` give the same
verdict and, on success, the same final stack, for all scripts (decodable or not, CHECKSIG family included), all initial
stacks whose items are within `MAX_SCRIPT_ELEMENT_SIZE` (as every stack `check_solution` builds: `compile_push_data` of a
≥ 4 GiB signature raises `struct.error`, which Core has no counterpart for), all flag sets, transaction contexts and both
signature versions.  Remaining hypotheses: MINIMALIF / WITNESS_PUBKEYTYPE only in witness VMs (discharged in
`C03M_verify_eq`) and `ChkWF`. -/
theorem C03M_eval_eq (hw : hasFlag cfg.flags Gen.VM.VERIFY_MINIMALIF = true → cfg.witness = true)
    (hwp : hasFlag cfg.flags Gen.VM.VERIFY_WITNESS_PUBKEYTYPE = true → cfg.witness = true) (hchk : ChkWF chk)
    (stack : List Bytes) (hok : okL stack) :
    (evalScript (stdEnv chk) cfg stack).toOption.map (·.stack) =
      (Consensus.evalScript (specChk chk) stack cfg.script (Flags.ofBits cfg.flags)
        ⟨cfg.ctx.version, cfg.ctx.lockTime, cfg.ctx.sequence⟩ (if cfg.witness then .witnessV0 else .base)).toOption :=
  evalScript_eq_full chk cfg hw hwp hchk stack hok

/-- C03.eval_eq for witness (BIP143) VMs: no hypothesis beyond `ChkWF` — every witness script, every initial stack,
every flag set -/
theorem C03M_eval_eq_witness (hchk : ChkWF chk) (hwit : cfg.witness = true) (stack : List Bytes) :
    (evalScript (stdEnv chk) cfg stack).toOption.map (·.stack) =
      (Consensus.evalScript (specChk chk) stack cfg.script (Flags.ofBits cfg.flags)
        ⟨cfg.ctx.version, cfg.ctx.lockTime, cfg.ctx.sequence⟩ .witnessV0).toOption := by
  have := evalScript_eq_all chk cfg (fun _ => hwit) (fun _ => hwit) hchk stack (sigDelShared_witness chk cfg hwit stack)
  rw [hwit] at this
  exact this

end

-- `ChkWF` is satisfiable by checkers that accept something, and the conclusions are about non-trivial runs:
-- 1-of-2 CHECKMULTISIG whose signature matches the second (deeper) key, then the same under NULLFAIL with a wrong signature
def demoSig : Bytes := [0x30, 0x06, 0x02, 0x01, 0x01, 0x02, 0x01, 0x01, 0x01]
def demoKey (b : UInt8) : Bytes := 0x02 :: List.replicate 32 b
def demoChk : Bytes → Bytes → Bytes → Bool → Bool := fun sig pk _ _ => sig == demoSig && pk == demoKey 7
example : ChkWF demoChk := by
  intro sig pk code w h
  simp only [demoChk, Bool.and_eq_true, beq_iff_eq] at h
  obtain ⟨rfl, rfl⟩ := h
  exact ⟨by decide, by decide, by decide⟩
#guard ((evalScript (stdEnv demoChk) ⟨[0xae], ⟨0, 0, 1⟩, 0, true⟩ [[2], demoKey 9, demoKey 7, [1], demoSig, []]).toOption.map
  (·.stack)) = some [[1]]
#guard (Consensus.evalScript (specChk demoChk) [[2], demoKey 9, demoKey 7, [1], demoSig, []] [0xae] (Flags.ofBits 0) ⟨1, 0, 0⟩
  .witnessV0).toOption = some [[1]]
#guard ((evalScript (stdEnv demoChk) ⟨[0xae], ⟨0, 0, 1⟩, 16384, true⟩ [[2], demoKey 9, demoKey 8, [1], demoSig, []]).toOption.map
  (·.stack)) = none
#guard (Consensus.evalScript (specChk demoChk) [[2], demoKey 9, demoKey 8, [1], demoSig, []] [0xae] (Flags.ofBits 16384) ⟨1, 0, 0⟩
  .witnessV0).toOption = none

/-- why `ChkWF` is asked: a checker that "verifies" an empty signature separates the two sides (pycoin never asks it) -/
theorem C03M_chk_wf_needed :
    (evalScript (stdEnv fun _ _ _ _ => true) ⟨[0xac], ⟨0, 0, 1⟩, 0, true⟩ [demoKey 7, []]).toOption.map (·.stack) ≠
      (Consensus.evalScript (specChk fun _ _ _ _ => true) [demoKey 7, []] [0xac] (Flags.ofBits 0) ⟨1, 0, 0⟩ .witnessV0).toOption := by
  decide


/-! ## the whole spend check: `check_solution` = `VerifyScript` -/

section
variable (chk : Bytes → Bytes → Bytes → Bool → Bool)

/-- `_check_script_push_only` (walks `get_opcode`, ignores decode failures; `data_opcodes` leaves OP_RESERVED out) and
`CScript::IsPushOnly` accept the same scripts among those `EvalScript` runs to the end — a script on which they differ
(truncated push, OP_RESERVED) fails its own evaluation, on both sides -/
theorem C03M_verify_pushonly (cfg : Config) (stack : List Bytes) (st' : Consensus.State)
    (h : specLoop chk cfg cfg.script.length cfg.script 0 { stack := stack } = .ok st') :
    (checkScriptPushOnly cfg.script = .ok ()) ↔ isPushOnly cfg.script = true := pushonly_agree chk cfg stack st' h

/-- `EvalScript` looks at the flags in `evalPart` only: stripping MINIMALIF / WITNESS_PUBKEYTYPE / P2SH from the flags of a
base-version VM, or adding CLEANSTACK to those of a witness VM, as `check_solution` does, changes no evaluation -/
theorem C03M_verify_flags (sc : Bytes → Bytes → Bytes → SigVersion → Bool) (stack : List Bytes) (script : Bytes)
    (F G : Flags) (tx : Consensus.TxCtx) (sv : SigVersion) (h : evalPart sv F = evalPart sv G) :
    Consensus.evalScript sc stack script F tx sv = Consensus.evalScript sc stack script G tx sv :=
  evalScript_congr sc stack script F G tx sv h

/-- witness-program detection: `_witness_program_version` + `puzzle_script[2:]` = `CScript::IsWitnessProgram`;
`is_pay_to_script_hash` = `CScript::IsPayToScriptHash` -/
theorem C03M_verify_detect (s : Bytes) :
    isWitnessProgram s = (witnessProgramVersion s).map (fun v => (v, s.drop 2)) ∧
      isPayToScriptHash s = Consensus.isPayToScriptHash s := ⟨witnessProgram_eq s, isP2SH_eq s⟩

/-- the end of the pipeline, for the script `puzzle` to be tested (scriptPubKey, or redeem script when `isP2sh`):
`witness_program_tuple` (malleation rule on the scriptSig bytes, v0 20/32-byte rules, 520-byte item limit, P2WPKH script,
DISCOURAGE_UPGRADABLE_WITNESS_PROGRAM, WITNESS_UNEXPECTED), the witness VM, and the CLEANSTACK rule with the flags of the
last tuple = the rest of `VerifyScript` (`VerifyWitnessProgram`, `stack.resize(1)`, CLEANSTACK, WITNESS_UNEXPECTED) -/
theorem C03M_verify_tail (hchk : ChkWF chk) (c : SolCtx) (puzzle : Bytes) (flags : Nat) (isP2sh : Bool) (lastFlags : Nat)
    (stackPy : List Bytes) (hcl : hasFlag lastFlags Gen.VM.VERIFY_CLEANSTACK = (Flags.ofBits flags).cleanstack) :
    (witnessTail (stdEnv chk) c puzzle flags isP2sh lastFlags stackPy).toOption.isSome =
      (specTail (specChk chk) c.solutionScript c.witnessPy (Flags.ofBits flags) (specTx c.tx) puzzle isP2sh stackPy.length).isNone :=
  witnessTail_spec chk hchk c puzzle flags isP2sh lastFlags stackPy hcl

/-- `C03M_verify_eq` from the agreement of its (up to) three base-version VMs with `EvalScript` (stage form) -/
theorem C03M_verify_eq_stages (hchk : ChkWF chk) (c : SolCtx) (flags : Nat) (hag : VerifyAgree chk c flags) :
    (checkSolution (stdEnv chk) c flags).toOption.isSome =
      (verifyScript (specChk chk) c.solutionScript c.puzzleScript c.witnessPy (Flags.ofBits flags) (specTx c.tx)).isNone :=
  verify_eq chk hchk c flags hag

/-- **C03.verify_eq**: `BitcoinSolutionChecker.check_solution(tx_context, flags)` succeeds exactly when Core's
`VerifyScript(scriptSig, scriptPubKey, witness, flags)` does — for **every** scriptSig, scriptPubKey, witness stack, flag
set (no restriction to the combinations Core permits) and transaction context, with no hypothesis other than `ChkWF`:
SIGPUSHONLY, scriptSig evaluation, stack copy, scriptPubKey evaluation, truth test, P2SH detection / push-only rule /
redeem script, witness-program detection (native and P2SH-wrapped), malleation rules on the scriptSig bytes, v0 20/32-byte
rules, P2WPKH script, 520-byte items, upgradable versions / DISCOURAGE flag, CLEANSTACK, WITNESS_UNEXPECTED.  The
MINIMALIF / WITNESS_PUBKEYTYPE hypothesis of `C03M_eval_eq` is discharged from how `check_solution` builds its VMs, the
item-size hypothesis from the invariant of Core's run (`spec_eval_items`). -/
theorem C03M_verify_eq (hchk : ChkWF chk) (c : SolCtx) (flags : Nat) :
    (checkSolution (stdEnv chk) c flags).toOption.isSome =
      (verifyScript (specChk chk) c.solutionScript c.puzzleScript c.witnessPy (Flags.ofBits flags) (specTx c.tx)).isNone :=
  verify_eq_full chk hchk c flags

end

-- non-trivial runs of both sides of `C03M_verify_eq` (the checker `demoChk` satisfies `ChkWF`, see above):
-- a pay-to-pubkey spend with a matching signature; the same with a key the signature does not match under NULLFAIL;
-- a native P2WSH spend of the witness script `OP_1`; the same with a non-empty scriptSig (WITNESS_MALLEATED)
def demoPush (d : Bytes) : Bytes := UInt8.ofNat d.length :: d
#guard (checkSolution (stdEnv demoChk) ⟨demoPush demoSig, demoPush (demoKey 7) ++ [0xac], [], ⟨0, 0, 1⟩⟩ 2049).toOption.isSome
#guard (verifyScript (specChk demoChk) (demoPush demoSig) (demoPush (demoKey 7) ++ [0xac]) [] (Flags.ofBits 2049) ⟨1, 0, 0⟩).isNone
#guard !(checkSolution (stdEnv demoChk) ⟨demoPush demoSig, demoPush (demoKey 8) ++ [0xac], [], ⟨0, 0, 1⟩⟩ (2049 + 16384)).toOption.isSome
#guard !(verifyScript (specChk demoChk) (demoPush demoSig) (demoPush (demoKey 8) ++ [0xac]) [] (Flags.ofBits (2049 + 16384)) ⟨1, 0, 0⟩).isNone
#guard (checkSolution (stdEnv demoChk) ⟨[], [0x00, 0x20] ++ Hash.sha256 [0x51], [[0x51]], ⟨0, 0, 1⟩⟩ 2049).toOption.isSome
#guard (verifyScript (specChk demoChk) [] ([0x00, 0x20] ++ Hash.sha256 [0x51]) [[0x51]] (Flags.ofBits 2049) ⟨1, 0, 0⟩).isNone
#guard !(checkSolution (stdEnv demoChk) ⟨[0x00], [0x00, 0x20] ++ Hash.sha256 [0x51], [[0x51]], ⟨0, 0, 1⟩⟩ 2049).toOption.isSome
#guard !(verifyScript (specChk demoChk) [0x00] ([0x00, 0x20] ++ Hash.sha256 [0x51]) [[0x51]] (Flags.ofBits 2049) ⟨1, 0, 0⟩).isNone

end Pycoin.VM
