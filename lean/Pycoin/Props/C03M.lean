import Pycoin.Proofs.VMCond
import Pycoin.Proofs.VMNum
import Pycoin.Proofs.VMGetOp
/-!
C03M — the Lean model of pycoin's script VM (`Pycoin.VM`, tied to the code by `harness/props/c03m.py`) against the
consensus specification `Pycoin.Spec.Consensus` (Bitcoin Core's interpreter, sibling builder).
Property theorems only; helper lemmas are in `Proofs/VM*.lean`.
-/
namespace Pycoin.VM
open Pycoin.Spec.Consensus CondStack

/-! ## conditional stack -/

/-- pycoin's `(true_count, false_count)` is `absC vfExec`, and `absC` is the abstraction of DESIGN §6:
lengths of the leading run of `true`s / of what follows, seen from the outermost conditional -/
theorem C03M_condstack_abs (vf : List Bool) :
    absC vf = ⟨(vf.reverse.takeWhile id).length, (vf.reverse.dropWhile id).length⟩ := absC_eq_takeWhile vf

/-- `all_if_true()` is Core's `fExec` -/
theorem C03M_condstack_allIfTrue (vf : List Bool) : (absC vf).allIfTrue = vf.all id := absC_allIfTrue vf

/-- one IF/NOTIF/ELSE/ENDIF: the abstraction commutes, and the error cases (ELSE/ENDIF on an empty stack) coincide -/
theorem C03M_condstack_step (vf : List Bool) (op : CondOp) :
    pyStep (absC vf) op = (coreStep vf op).map absC := absC_step vf op

/-- C03.condstack_refines: for **every** sequence of conditional operations, from the empty stack -/
theorem C03M_condstack_refines (ops : List CondOp) :
    runPy {} ops = (runCore [] ops).map absC := absC_run [] ops

/-- `check_final_state` accepts exactly the empty `vfExec` -/
theorem C03M_condstack_final (vf : List Bool) : (absC vf).checkFinalState = .ok () ↔ vf = [] := absC_final vf

#guard runPy {} [.opIf true false, .opIf false false, .opElse, .opEndif] = some ⟨1, 0⟩
#guard runPy {} [.opElse] = none && runCore [] [.opElse] = none

/-! ## script numbers -/

/-- `int_from_script_bytes(s, False)` = `CScriptNum::set_vch` on inputs of any length -/
theorem C03M_scriptnum_decode (s : Bytes) : intFromScriptBytes s false = .ok (scriptNumDecode s) :=
  intFromScriptBytes_false s

/-- with `require_minimal` the code raises exactly when Core's minimal-encoding test fails -/
theorem C03M_scriptnum_minimal (s : Bytes) :
    intFromScriptBytes s true =
      if isMinimalNum s then .ok (scriptNumDecode s) else .error (scriptErr Gen.VM.errno_UNKNOWN_ERROR) :=
  intFromScriptBytes_true s

/-- where the code applies the 4-byte bound (`pop_check_bounds`: every arithmetic opcode except WITHIN, PICK, ROLL,
0NOTEQUAL and the CHECKMULTISIG counts), decoding is `CScriptNum(vch, fRequireMinimal, 4)` up to the error tag -/
theorem C03M_scriptnum_bounded (s : Bytes) (m : Bool) (h : s.length ≤ 4) :
    (intFromScriptBytes s m).toOption = (scriptNum s m 4).toOption := by
  have h' : ¬ s.length > 4 := by omega
  cases m
  · simp [intFromScriptBytes_false, scriptNum, h', Except.toOption]
  · rw [intFromScriptBytes_true]
    simp only [scriptNum, h', if_false, Bool.true_and]
    cases isMinimalNum s <;> simp [Except.toOption]

/-- `int_to_script_bytes` = `CScriptNum::serialize` -/
theorem C03M_scriptnum_encode (v : Int) : intToScriptBytes v = scriptNumEncode v := intToScriptBytes_eq v

/-- `bool_from_script_bytes(v)` (the form every opcode but 0NOTEQUAL uses) = `CastToBool` -/
theorem C03M_castToBool_eq (v : Bytes) : boolFromScriptBytes v false = .ok (castToBool v) := boolFromScriptBytes_false v

/-- `bool_from_script_bytes(v, require_minimal=True)` never returns (§8 row 14): under MINIMALDATA `OP_0NOTEQUAL`
fails on every operand -/
theorem C03M_boolMinimal_refuted (v : Bytes) : ∃ e, boolFromScriptBytes v true = .error e := by
  unfold boolFromScriptBytes
  cases h : intFromScriptBytes v true with
  | error e => exact ⟨e, rfl⟩
  | ok n => exact ⟨_, rfl⟩

/-! ## decoder -/

/-- C03.getOp_refines: for every script, every `pc` inside it and both settings of `verify_minimal_data`, `get_opcode`
returns what `GetScriptOp` + `CheckMinimalPush` return (truncation ⇒ `is_ok = False`, whence BAD_OPCODE even in dead
branches; MINIMALDATA exactly when `CheckMinimalPush` fails; `OP_1NEGATE`/`OP_1..16` carry `CScriptNum(n).serialize()`).
Full since the repairs `fix: … length field is cut short` (bc1455a) and `fix: minimal-push check …` (fc90d57): before
them the statement was refuted by `4c` at the end of a script and by the 256-byte PUSHDATA2 (§8 row 29). -/
theorem C03M_getOp_refines (script : Bytes) (pc : Nat) (vm : Bool) (hpc : pc < script.length) :
    GetOpRefines script pc vm := getOp_refines script pc vm hpc

#guard (getOpcode [0x4c] 0 false).toOption.map (·.isOk) = some false
#guard (getOpcode ([0x4d, 0x00, 0x01] ++ List.replicate 256 0x42) 0 true).toOption.map (·.isOk) = some true

end Pycoin.VM
