import Pycoin.Model.VM.Verify
/-!
C03M — theorems relating the model of pycoin's VM to the consensus rules (work in progress).
-/
namespace Pycoin.VM

theorem C03M_condstack_allIfTrue (c : CondStack) : c.allIfTrue = true ↔ c.falseCount = 0 := by
  simp [CondStack.allIfTrue]

end Pycoin.VM
