import Pycoin.Model.Der
import Pycoin.Model.PyErr
import Pycoin.Model.Wif
import Pycoin.Gen.Curves
import Pycoin.Gen.Networks
set_option exponentiation.threshold 4096
/-!
C10 — key and signature encodings (WIF, SEC, DER) are lossless and strict.  Property theorems.
-/
namespace Pycoin.C10
open Pycoin Pycoin.Gen.Networks

/-- every network's key class uses one generator, and it is secp256k1 as `Gen/Curves.lean` has it -/
theorem C10_network_generator :
    generatorShared = true ∧ genP = Gen.Curves.secp256k1.p ∧ (genA : Int) = Gen.Curves.secp256k1.a ∧
    (genB : Int) = Gen.Curves.secp256k1.b ∧ genOrder = Gen.Curves.secp256k1.n ∧
    (genGx : Int) = Gen.Curves.secp256k1.gx ∧ (genGy : Int) = Gen.Curves.secp256k1.gy := by
  decide +kernel

end Pycoin.C10
