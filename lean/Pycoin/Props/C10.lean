import Pycoin.Proofs.Der
import Pycoin.Model.PyErr
import Pycoin.Model.Wif
import Pycoin.Gen.Curves
import Pycoin.Gen.Networks
set_option exponentiation.threshold 4096
/-!
C10 — key and signature encodings (WIF, SEC, DER) are lossless and strict.  Property theorems.
-/
namespace Pycoin.C10
open Pycoin Pycoin.Gen.Networks

/-- every network's key class uses one generator, and it is secp256k1 as `Gen/Curves.lean` has it -/
theorem C10_network_generator :
    generatorShared = true ∧ genP = Gen.Curves.secp256k1.p ∧ (genA : Int) = Gen.Curves.secp256k1.a ∧
    (genB : Int) = Gen.Curves.secp256k1.b ∧ genOrder = Gen.Curves.secp256k1.n ∧
    (genGx : Int) = Gen.Curves.secp256k1.gx ∧ (genGy : Int) = Gen.Curves.secp256k1.gy := by
  decide +kernel

/-! ## DER (`pycoin/satoshi/der.py`) -/
section der
open Pycoin.Der

/-- C10.der_rt — `sigdecode_der(sigencode_der(r, s)) = (r, s)` in both modes, for all `r, s ≥ 0` (short and long
form lengths alike).  The bound "shorter than 2^64 bytes" is beyond any addressable memory; it keeps every length
field below the 127 length bytes DER can express. -/
theorem C10_der_rt (r s : Int) (hr : 0 ≤ r) (hs : 0 ≤ s)
    (hrs : byteLen r.toNat < 2 ^ 64) (hss : byteLen s.toNat < 2 ^ 64) (broken : Bool) :
    ∃ blob, sigencodeDer r s = .ok blob ∧ sigdecodeDer blob broken = .ok (r, s) := by
  obtain ⟨er, her, hler⟩ := encodeInteger_ok r hr hrs
  obtain ⟨es, hes, hles⟩ := encodeInteger_ok s hs hss
  have h66 : (2 : Nat) ^ 65 + 2 ^ 65 < 2 ^ 70 := by decide
  have h64 : (2 : Nat) ^ 64 + 2 < 2 ^ 70 := by decide
  have htot : (er ++ es).length < 2 ^ 70 := by simp; omega
  obtain ⟨l, hl, -⟩ := encodeLength_ok htot
  have hsmall : ∀ (v : Int), byteLen v.toNat < 2 ^ 64 →
      ∀ n, n ≤ (hexBytes v.toNat).length + 1 → (hexBytes n).length < 128 := by
    intro v hv n hn
    apply hexBytes_small
    have : (hexBytes v.toNat).length < 2 ^ 64 + 1 := by rw [hexBytes_length]; split <;> omega
    omega
  have henc : sigencodeDer r s = .ok ((0x30 : UInt8) :: (l ++ (er ++ es)) ++ []) := by
    have hsum : ([er, es].map List.length).sum = (er ++ es).length := by simp
    simp only [sigencodeDer, her, hes, encodeSequence, hsum, hl]
    simp
  refine ⟨_, henc, ?_⟩
  unfold sigdecodeDer
  rw [removeSequence_encode (er ++ es) l [] hl (hexBytes_small htot)]
  simp only [ne_eq, not_true_eq_false, false_and, if_false]
  rw [removeInteger_encodeInteger r hr er es broken her (hsmall r hrs)]
  simp only
  have : removeInteger es broken = .ok (s, []) := by
    have := removeInteger_encodeInteger s hs es [] broken hes (hsmall s hss)
    simpa using this
  rw [this]
  simp

/-- C10.der_strict_trailing — what strict decoding accepts: the sequence ends the input and the second integer
ends the sequence.  (`remove_sequence` returns as remainder everything after the announced length.) -/
theorem C10_der_strict_trailing (sig : Bytes) (r s : Int) (h : sigdecodeDer sig false = .ok (r, s)) :
    ∃ content rest, removeSequence sig = .ok (content, []) ∧ removeInteger content false = .ok (r, rest) ∧
      removeInteger rest false = .ok (s, []) := by
  unfold sigdecodeDer at h
  split at h
  · cases h
  · rename_i content remainder hseq
    split at h
    · cases h
    · rename_i hrem
      split at h
      · cases h
      · rename_i r' rest hr
        split at h
        · cases h
        · rename_i s' remainder' hs
          split at h
          · cases h
          · rename_i hrem'
            injection h with h
            injection h with h1 h2
            subst h1; subst h2
            have e1 : remainder = [] := by simpa using hrem
            have e2 : remainder' = [] := by simpa using hrem'
            subst e1; subst e2
            exact ⟨content, rest, hseq, hr, hs⟩

/-- strict decoding refuses bytes after the sequence; the non-strict mode ignores them (as coded) -/
theorem C10_der_strict_trailing_after_sequence (r s : Int) (hr : 0 ≤ r) (hs : 0 ≤ s)
    (hrs : byteLen r.toNat < 2 ^ 64) (hss : byteLen s.toNat < 2 ^ 64) (blob t : Bytes) (ht : t ≠ [])
    (h : sigencodeDer r s = .ok blob) :
    sigdecodeDer (blob ++ t) false = .error .unexpectedDER ∧ sigdecodeDer (blob ++ t) true = .ok (r, s) := by
  obtain ⟨er, her, hler⟩ := encodeInteger_ok r hr hrs
  obtain ⟨es, hes, hles⟩ := encodeInteger_ok s hs hss
  have h66 : (2 : Nat) ^ 65 + 2 ^ 65 < 2 ^ 70 := by decide
  have h64 : (2 : Nat) ^ 64 + 2 < 2 ^ 70 := by decide
  have htot : (er ++ es).length < 2 ^ 70 := by simp; omega
  obtain ⟨l, hl, -⟩ := encodeLength_ok htot
  have hsmall : ∀ (v : Int), byteLen v.toNat < 2 ^ 64 →
      ∀ n, n ≤ (hexBytes v.toNat).length + 1 → (hexBytes n).length < 128 := by
    intro v hv n hn
    apply hexBytes_small
    have : (hexBytes v.toNat).length < 2 ^ 64 + 1 := by rw [hexBytes_length]; split <;> omega
    omega
  have henc : sigencodeDer r s = .ok ((0x30 : UInt8) :: (l ++ (er ++ es))) := by
    have hsum : ([er, es].map List.length).sum = (er ++ es).length := by simp
    simp only [sigencodeDer, her, hes, encodeSequence, hsum, hl]
    simp
  rw [henc] at h
  injection h with h
  subst h
  have hseq := removeSequence_encode (er ++ es) l t hl (hexBytes_small htot)
  constructor
  · unfold sigdecodeDer
    rw [hseq]
    simp [ht]
  · unfold sigdecodeDer
    rw [hseq]
    simp only [ne_eq, not_true_eq_false, and_false, if_false]
    rw [removeInteger_encodeInteger r hr er es true her (hsmall r hrs)]
    simp only
    have : removeInteger es true = .ok (s, []) := by
      have := removeInteger_encodeInteger s hs es [] true hes (hsmall s hss)
      simpa using this
    rw [this]

/-- strict decoding refuses bytes after the second integer inside a sequence whose length covers them -/
theorem C10_der_strict_trailing_after_integers (r s : Int) (hr : 0 ≤ r) (hs : 0 ≤ s)
    (hrs : byteLen r.toNat < 2 ^ 64) (hss : byteLen s.toNat < 2 ^ 64) (er es l t : Bytes) (ht : t ≠ [])
    (her : encodeInteger r = .ok er) (hes : encodeInteger s = .ok es) (htl : t.length < 2 ^ 64)
    (hl : encodeLength (er ++ es ++ t).length = .ok l) :
    sigdecodeDer ((0x30 : UInt8) :: (l ++ (er ++ es ++ t))) false = .error .unexpectedDER ∧
    sigdecodeDer ((0x30 : UInt8) :: (l ++ (er ++ es ++ t))) true = .ok (r, s) := by
  obtain ⟨er', her', hler⟩ := encodeInteger_ok r hr hrs
  obtain ⟨es', hes', hles⟩ := encodeInteger_ok s hs hss
  rw [her] at her'; injection her' with e1; subst e1
  rw [hes] at hes'; injection hes' with e2; subst e2
  have h66 : (2 : Nat) ^ 65 + 2 ^ 65 + 2 ^ 64 < 2 ^ 70 := by decide
  have h64 : (2 : Nat) ^ 64 + 2 < 2 ^ 70 := by decide
  have htot : (er ++ es ++ t).length < 2 ^ 70 := by simp; omega
  have hsmall : ∀ (v : Int), byteLen v.toNat < 2 ^ 64 →
      ∀ n, n ≤ (hexBytes v.toNat).length + 1 → (hexBytes n).length < 128 := by
    intro v hv n hn
    apply hexBytes_small
    have : (hexBytes v.toNat).length < 2 ^ 64 + 1 := by rw [hexBytes_length]; split <;> omega
    omega
  have hseq := removeSequence_encode (er ++ es ++ t) l [] hl (hexBytes_small htot)
  simp only [List.append_nil] at hseq
  have h1 : ∀ b, removeInteger (er ++ es ++ t) b = .ok (r, es ++ t) := by
    intro b
    have := removeInteger_encodeInteger r hr er (es ++ t) b her (hsmall r hrs)
    simpa using this
  have h2 : ∀ b, removeInteger (es ++ t) b = .ok (s, t) :=
    fun b => removeInteger_encodeInteger s hs es t b hes (hsmall s hss)
  constructor
  · unfold sigdecodeDer
    rw [hseq]
    simp only [ne_eq, not_true_eq_false, false_and, if_false, h1, h2]
    simp [ht]
  · unfold sigdecodeDer
    rw [hseq]
    simp only [ne_eq, not_true_eq_false, and_false, if_false, h1, h2]

/-- C10.der_minimal — `encode_integer` writes the shortest big-endian form of `r` (no leading zero byte unless
`r = 0`), preceded by one `00` exactly when its top bit is set -/
theorem C10_der_minimal (r : Int) (hr : 0 ≤ r) (e : Bytes) (h : encodeInteger r = .ok e) :
    ∃ l c t, hexBytes r.toNat = c :: t ∧ (r ≠ 0 → c ≠ 0) ∧ beNat (c :: t) = r.toNat ∧
      e = 0x02 :: (l ++ (if 128 ≤ c.toNat then 0 :: c :: t else c :: t)) ∧
      encodeLength (if 128 ≤ c.toNat then t.length + 2 else t.length + 1) = .ok l := by
  obtain ⟨l, b, body, he, hl, hb, hv, hform⟩ := encodeInteger_shape r hr e h
  have hmin : ∀ c t, hexBytes r.toNat = c :: t → r ≠ 0 → c ≠ 0 := by
    intro c t hct hr0
    obtain ⟨b', rest', h1, h2⟩ := hexBytes_head_ne_zero (n := r.toNat) (by omega)
    rw [hct] at h1
    injection h1 with h1 _
    rw [h1]; exact h2
  rcases hform with h1 | ⟨h0, h2, c, t, h3, h4⟩
  · refine ⟨l, b, body, h1.symm, hmin b body h1.symm, ?_, ?_, ?_⟩
    · rw [h1, beNat_hexBytes]
    · have : ¬ (128 ≤ b.toNat) := by omega
      simp [this, he]
    · have : ¬ (128 ≤ b.toNat) := by omega
      simpa [this] using hl
  · subst h0
    refine ⟨l, c, t, by rw [← h2, h3], hmin c t (by rw [← h2, h3]), ?_, ?_, ?_⟩
    · rw [← h3, h2, beNat_hexBytes]
    · simp [h4, he, h3]
    · simpa [h4, h3] using hl

#guard sigencodeDer 1 128 matches .ok [0x30, 0x07, 0x02, 0x01, 0x01, 0x02, 0x02, 0x00, 0x80]
#guard sigdecodeDer [0x30, 0x07, 0x02, 0x01, 0x01, 0x02, 0x02, 0x00, 0x80, 0x00] false matches .error .unexpectedDER
#guard sigdecodeDer [0x30, 0x07, 0x02, 0x01, 0x01, 0x02, 0x02, 0x00, 0x80] false matches .ok (1, 128)

end der

end Pycoin.C10
