import Pycoin.Model.Der
import Pycoin.Model.PyErr
import Pycoin.Model.Wif
import Pycoin.Gen.Curves
import Pycoin.Gen.Networks
set_option exponentiation.threshold 4096
/-!
C10 — key and signature encodings (WIF, SEC, DER) are lossless and strict.  Property theorems.
-/
namespace Pycoin.C10
open Pycoin Pycoin.Gen.Networks

/-- every network's key class uses one generator, and it is secp256k1 as `Gen/Curves.lean` has it -/
theorem C10_network_generator :
    generatorShared = true ∧ genP = Gen.Curves.secp256k1.p ∧ (genA : Int) = Gen.Curves.secp256k1.a ∧
    (genB : Int) = Gen.Curves.secp256k1.b ∧ genOrder = Gen.Curves.secp256k1.n ∧
    (genGx : Int) = Gen.Curves.secp256k1.gx ∧ (genGy : Int) = Gen.Curves.secp256k1.gy := by
  decide +kernel

/-! ## what the code accepts today (before the `fix:` commits) -/

def k1 := Gen.Curves.secp256k1

/-- the blob `04 ‖ (p+1) ‖ y` with `y² ≡ 8`: a second encoding of the point with `x = 1` -/
def witnessXGeP : Bytes :=
  4 :: (beBytes (k1.p + 1) 32 ++ beBytes 29896722852569046015560700294576055776214335159245303116488692907525646231534 32)

/-- `sec_strict` is false for the code as it stands: a blob whose x field is `p + 1` is accepted by
`Key.from_sec` as a key (a second encoding, with another hash160 and address, of the point with `x = 1`). -/
theorem C10_sec_strict_refuted :
    ¬ (∀ blob k, KeyCtor.keyFromSec k1 blob = .ok k → k.pub.1 < k1.p ∧ k.pub.2 < k1.p) := by
  intro h
  have h1 : KeyCtor.keyFromSec k1 witnessXGeP =
      .ok ⟨none, ((k1.p : Int) + 1, 29896722852569046015560700294576055776214335159245303116488692907525646231534), false⟩ := by
    decide +kernel
  have := (h _ _ h1).1
  exact absurd this (by decide +kernel)

/-- `der_rt` is false for the code as it stands: an integer of 127 bytes with the top bit set is written with
the one-byte length `0x80`, which the reader takes for a long-form length of zero bytes. -/
theorem C10_der_rt_refuted :
    ¬ (∀ r s : Int, 0 ≤ r → 0 ≤ s → ∀ blob, Der.sigencodeDer r s = .ok blob → Der.sigdecodeDer blob false = .ok (r, s)) := by
  intro h
  have h1 : (match Der.sigencodeDer (2 ^ 1015) 1 with
      | .ok blob => Der.sigdecodeDer blob false
      | .error _ => .ok (0, 0)) = .error .valueError := by
    decide +kernel
  cases hh : Der.sigencodeDer (2 ^ 1015) 1 with
  | error e => rw [hh] at h1; cases h1
  | ok blob =>
    simp only [hh] at h1
    have := h _ _ (by decide) (by decide) blob hh
    rw [this] at h1
    cases h1

end Pycoin.C10
