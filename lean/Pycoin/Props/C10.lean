import Pycoin.Proofs.Der
import Pycoin.Proofs.SecRt
import Pycoin.Proofs.CurveFacts.secp256k1
import Pycoin.Proofs.KeyOrder
import Pycoin.Proofs.Reduced
import Pycoin.Proofs.DriverC10
import Pycoin.Props.C11
import Pycoin.Proofs.Base58Hash
import Pycoin.Model.PyErr
import Pycoin.Model.Wif
import Pycoin.Model.KeyOps
import Pycoin.Gen.Curves
import Pycoin.Gen.Networks
set_option exponentiation.threshold 4096
/-!
C10 — key and signature encodings (WIF, SEC, DER) are lossless and strict.  Property theorems.
-/
namespace Pycoin.C10
open Pycoin Pycoin.Gen.Networks

/-- every network's key class uses one generator, and it is secp256k1 as `Gen/Curves.lean` has it -/
theorem C10_network_generator :
    generatorShared = true ∧ genP = Gen.Curves.secp256k1.p ∧ (genA : Int) = Gen.Curves.secp256k1.a ∧
    (genB : Int) = Gen.Curves.secp256k1.b ∧ genOrder = Gen.Curves.secp256k1.n ∧
    (genGx : Int) = Gen.Curves.secp256k1.gx ∧ (genGy : Int) = Gen.Curves.secp256k1.gy := by
  decide +kernel

/-! ## the field of the shipped generator -/

/-- the curve every network's keys live on -/
abbrev k1 : Curve.CurveParams := Gen.Curves.secp256k1

/-- secp256k1 meets the side conditions of the SEC theorems: 32-byte coordinates, `p` odd, `p ≡ 3 (mod 4)` -/
theorem C10_field_secp256k1 : Sec.Field32 k1 ∧ k1.p % 4 = 3 ∧ k1.n ≤ 2 ^ 256 ∧ 0 < k1.n :=
  ⟨⟨by decide +kernel, by decide +kernel, by decide +kernel⟩, by decide +kernel, by decide +kernel, by decide +kernel⟩

/-! ## SEC (`pycoin/encoding/sec.py`, `Key.from_sec`, `Key.sec/hash160/address`) -/
section sec
open Pycoin.Sec Pycoin.KeyCtor Pycoin.Curve

/-- C10.sec_strict — a blob accepted by `Key.from_sec` is the unique encoding of its point: coordinates in
`[0, p)`, point on the curve, length and prefix of one of the two forms, and encoding the point again (with the
compression flag read off the blob) gives the blob back, byte for byte. -/
theorem C10_sec_strict (c : CurveParams) (hc : Field32 c) (blob : Bytes) (k : Key) (h : keyFromSec c blob = .ok k) :
    k.se = none ∧ 0 ≤ k.pub.1 ∧ k.pub.1 < c.p ∧ 0 ≤ k.pub.2 ∧ k.pub.2 < c.p ∧
    containsXY c k.pub.1 k.pub.2 = true ∧ k.compressed = isSecCompressed blob ∧
    publicPairToSec k.pub.1 k.pub.2 (isSecCompressed blob) = .ok blob ∧
    ((blob.length = 33 ∧ (blob.take 1 = [2] ∨ blob.take 1 = [3])) ∨ (blob.length = 65 ∧ blob.take 1 = [4])) :=
  keyFromSec_strict c hc blob k h

/-- two accepted blobs of the same form that give the same point are the same blob (hence one hash160, one address) -/
theorem C10_sec_unique (c : CurveParams) (hc : Field32 c) (b1 b2 : Bytes) (k1' k2' : Key)
    (h1 : keyFromSec c b1 = .ok k1') (h2 : keyFromSec c b2 = .ok k2') (hp : k1'.pub = k2'.pub)
    (hf : isSecCompressed b1 = isSecCompressed b2) : b1 = b2 := by
  have e1 := (C10_sec_strict c hc b1 k1' h1).2.2.2.2.2.2.2.1
  have e2 := (C10_sec_strict c hc b2 k2' h2).2.2.2.2.2.2.2.1
  rw [hp, hf, e2] at e1
  injection e1 with e1
  exact e1.symm

/-- C10.sec_strict on the shipped curve -/
theorem C10_sec_strict_secp256k1 (blob : Bytes) (k : Key) (h : keyFromSec k1 blob = .ok k) :
    0 ≤ k.pub.1 ∧ k.pub.1 < k1.p ∧ 0 ≤ k.pub.2 ∧ k.pub.2 < k1.p ∧ containsXY k1 k.pub.1 k.pub.2 = true ∧
    k.sec none = .ok blob := by
  obtain ⟨-, a, b, c', d, e, f, g, -⟩ := C10_sec_strict k1 C10_field_secp256k1.1 blob k h
  refine ⟨a, b, c', d, e, ?_⟩
  unfold Key.sec
  simp only [Option.getD_none, f]
  exact g

/-- C10.sec_prefix_rules, strict mode: anything but `04` with 65 bytes or `02`/`03` with 33 bytes is refused with
`EncodingError` (prefixes 0, 1, 5, 6, 7, wrong lengths, the empty string) -/
theorem C10_sec_prefix_rules_strict (c : CurveParams) (hc : Field32 c) (sec : Bytes)
    (h : ¬ ((sec.length = 65 ∧ sec.take 1 = [4]) ∨ (sec.length = 33 ∧ (sec.take 1 = [2] ∨ sec.take 1 = [3])))) :
    secToPublicPair c sec true = .error .encodingError := by
  unfold secToPublicPair
  simp only [hc.bc]
  by_cases h65 : sec.length = 1 + 32 * 2
  · rw [if_pos h65]
    have : ¬ (sec.take 1 = [4]) := fun h4 => h (Or.inl ⟨by omega, h4⟩)
    simp [this]
  · rw [if_neg h65]
    by_cases h33 : sec.length = 1 + 32
    · rw [if_pos h33]
      have : ¬ (sec.take 1 = [2] ∨ sec.take 1 = [3]) := fun h23 => h (Or.inr ⟨by omega, h23⟩)
      simp [this]
    · rw [if_neg h33]

/-- C10.sec_prefix_rules, non-strict mode, exactly as coded: `EncodingError` unless the blob has 65 bytes, prefix
`04`/`06`/`07` and both coordinates below `p`, or has 33 bytes (ANY prefix) and `x < p` — in which case the result
is whatever `points_for_x` gives for the parity "odd unless the prefix is `02`" -/
theorem C10_sec_prefix_rules_nonstrict (c : CurveParams) (hc : Field32 c) (sec : Bytes) :
    secToPublicPair c sec false = .error .encodingError ↔
    ¬ ((sec.length = 65 ∧ (sec.take 1 = [4] ∨ sec.take 1 = [6] ∨ sec.take 1 = [7]) ∧
          fromBytes32 (slice sec 1 33) < c.p ∧ fromBytes32 (slice sec 33 65) < c.p) ∨
       (sec.length = 33 ∧ fromBytes32 (slice sec 1 33) < c.p)) := by
  unfold secToPublicPair
  simp only [hc.bc, show (1 + 32 : Nat) = 33 from rfl, show (1 + 2 * 32 : Nat) = 65 from rfl,
    show (1 + 32 * 2 : Nat) = 65 from rfl]
  by_cases h65 : sec.length = 65
  · rw [if_pos h65]
    have h65' : sec.length = 65 := by omega
    have hn33 : ¬ sec.length = 33 := by omega
    by_cases hp : sec.take 1 = [4] ∨ sec.take 1 = [6] ∨ sec.take 1 = [7]
    · have : sec.take 1 = [4] ∨ ¬ (false = true) ∧ (sec.take 1 = [6] ∨ sec.take 1 = [7]) := by
        rcases hp with h | h | h <;> simp [h]
      rw [if_pos this]
      by_cases hr : fromBytes32 (slice sec 1 33) ≥ c.p ∨ fromBytes32 (slice sec 33 65) ≥ c.p
      · rw [if_pos hr]
        simp only [true_iff]
        intro hh
        rcases hh with ⟨-, -, ha, hb⟩ | ⟨h33, -⟩
        · rcases hr with hr | hr <;> omega
        · exact hn33 h33
      · rw [if_neg hr]
        constructor
        · intro h; cases h
        · intro hh
          exfalso; apply hh
          left
          exact ⟨h65', hp, by omega, by omega⟩
    · have : ¬ (sec.take 1 = [4] ∨ ¬ (false = true) ∧ (sec.take 1 = [6] ∨ sec.take 1 = [7])) := by
        intro h
        rcases h with h | ⟨-, h | h⟩
        · exact hp (Or.inl h)
        · exact hp (Or.inr (Or.inl h))
        · exact hp (Or.inr (Or.inr h))
      rw [if_neg this]
      simp only [true_iff]
      intro hh
      rcases hh with ⟨-, hq, -, -⟩ | ⟨h33, -⟩
      · exact hp hq
      · exact hn33 h33
  · rw [if_neg h65]
    have hn65 : ¬ sec.length = 65 := by omega
    by_cases h33 : sec.length = 33
    · rw [if_pos h33]
      have h33' : sec.length = 33 := by omega
      have : ¬ (false = true) ∨ sec.take 1 = [2] ∨ sec.take 1 = [3] := Or.inl (by decide)
      rw [if_pos this]
      by_cases hr : fromBytes32 (slice sec 1 33) ≥ c.p
      · rw [if_pos hr]
        simp only [true_iff]
        intro hh
        rcases hh with ⟨h, -⟩ | ⟨-, hb⟩
        · exact hn65 h
        · omega
      · rw [if_neg hr]
        constructor
        · intro h
          split at h
          · cases h
          · split at h <;> cases h
        · intro hh
          exfalso; apply hh
          right
          exact ⟨h33', by omega⟩
    · rw [if_neg h33]
      simp only [true_iff]
      intro hh
      rcases hh with ⟨h, -⟩ | ⟨h, -⟩
      · exact hn65 h
      · omega

/-- C10.sec_rt, uncompressed form: `04 ‖ x ‖ y` of a reduced curve point decodes (both modes) to the point, and
`Key.from_sec` gives a key with the same point, the uncompressed flag, the same blob, hash160 and address -/
theorem C10_sec_rt_uncompressed (c : CurveParams) (hc : Field32 c) (net : Addr.Network) (k : Key)
    (hx0 : 0 ≤ k.pub.1) (hx : k.pub.1 < c.p) (hy0 : 0 ≤ k.pub.2) (hy : k.pub.2 < c.p)
    (hon : containsXY c k.pub.1 k.pub.2 = true) :
    ∃ blob k', k.sec (some false) = .ok blob ∧
      secToPublicPair c blob true = .ok k.pub ∧ secToPublicPair c blob false = .ok k.pub ∧
      keyFromSec c blob = .ok k' ∧ k'.pub = k.pub ∧ k'.compressed = false ∧ k'.se = none ∧
      k'.sec none = .ok blob ∧ k'.hash160 none = k.hash160 (some false) ∧
      Key.address net k' none = Key.address net k (some false) := by
  obtain ⟨blob, henc, -, -, hcomp, hdec⟩ := secToPublicPair_uncompressed c hc k.pub.1 k.pub.2 hx0 hx hy0 hy true
  obtain ⟨blob', henc', -, -, -, hdec'⟩ := secToPublicPair_uncompressed c hc k.pub.1 k.pub.2 hx0 hx hy0 hy false
  rw [henc] at henc'; injection henc' with e; subst e
  refine ⟨blob, ⟨none, k.pub, false⟩, ?_, hdec, hdec', ?_, rfl, rfl, rfl, ?_, ?_, ?_⟩
  · simpa [Key.sec] using henc
  · unfold keyFromSec
    rw [hdec]
    simp [keyFromPair, hon, hcomp]
  · simpa [Key.sec] using henc
  · simp [Key.hash160, Key.sec]
  · simp [Key.address, Key.hash160, Key.sec]

/-- C10.sec_rt, compressed form: `(02|03) ‖ x` of a reduced curve point with `y ≠ 0` decodes (both modes) to the
point, and `Key.from_sec` gives a key with the same point, the compressed flag, the same blob, hash160 and
address.  (`y = 0` would be a point of order two; `C10_sec_rt_secp256k1` shows secp256k1 has none.) -/
theorem C10_sec_rt_compressed (c : CurveParams) [Good c] (hc : Field32 c) (h4 : c.p % 4 = 3) (net : Addr.Network)
    (k : Key) (hx0 : 0 ≤ k.pub.1) (hx : k.pub.1 < c.p) (hy0 : 0 < k.pub.2) (hy : k.pub.2 < c.p)
    (hon : containsXY c k.pub.1 k.pub.2 = true) :
    ∃ blob k', k.sec (some true) = .ok blob ∧
      secToPublicPair c blob true = .ok k.pub ∧ secToPublicPair c blob false = .ok k.pub ∧
      keyFromSec c blob = .ok k' ∧ k'.pub = k.pub ∧ k'.compressed = true ∧ k'.se = none ∧
      k'.sec none = .ok blob ∧ k'.hash160 none = k.hash160 (some true) ∧
      Key.address net k' none = Key.address net k (some true) := by
  obtain ⟨blob, henc, -, -, hcomp, hdec⟩ := secToPublicPair_compressed c hc h4 k.pub.1 k.pub.2 hx0 hx hy0 hy hon true
  obtain ⟨blob', henc', -, -, -, hdec'⟩ := secToPublicPair_compressed c hc h4 k.pub.1 k.pub.2 hx0 hx hy0 hy hon false
  rw [henc] at henc'; injection henc' with e; subst e
  refine ⟨blob, ⟨none, k.pub, true⟩, ?_, hdec, hdec', ?_, rfl, rfl, rfl, ?_, ?_, ?_⟩
  · simpa [Key.sec] using henc
  · unfold keyFromSec
    rw [hdec]
    simp [keyFromPair, hon, hcomp]
  · simpa [Key.sec] using henc
  · simp [Key.hash160, Key.sec]
  · simp [Key.address, Key.hash160, Key.sec]

end sec

/-! ## `Key.__init__` -/
section ctor
open Pycoin.Sec Pycoin.KeyCtor Pycoin.Curve

/-- C10.key_ctor_range — a secret exponent outside `[1, n−1]` is refused with `InvalidSecretExponentError`,
before anything is computed -/
theorem C10_key_ctor_range (c : CurveParams) (mul : Int → Except Curve.Err Pt) (d : Int) (comp : Bool)
    (h : d < 1 ∨ d ≥ c.n) : keyFromSecretWith c mul d comp = .error .invalidSecretExponent := by
  unfold keyFromSecretWith
  rw [if_pos h]

/-- the named boundary exponents on secp256k1: `0`, `n`, `n + 1`, `2²⁵⁶ − 1`, `−1` -/
theorem C10_key_ctor_range_secp256k1 (bf : Int) (comp : Bool) :
    keyFromSecret k1 bf 0 comp = .error .invalidSecretExponent ∧
    keyFromSecret k1 bf k1.n comp = .error .invalidSecretExponent ∧
    keyFromSecret k1 bf (k1.n + 1) comp = .error .invalidSecretExponent ∧
    keyFromSecret k1 bf (2 ^ 256 - 1) comp = .error .invalidSecretExponent ∧
    keyFromSecret k1 bf (-1) comp = .error .invalidSecretExponent := by
  refine ⟨?_, ?_, ?_, ?_, ?_⟩ <;> (apply C10_key_ctor_range; decide +kernel)

/-- an off-curve pair, and the pair `(None, None)`, are refused with `InvalidPublicPairError` -/
theorem C10_key_ctor_offcurve (c : CurveParams) (comp : Bool) :
    (∀ x y : Int, containsXY c x y = false → keyFromPair c (some (x, y)) comp = .error .invalidPublicPair) ∧
    keyFromPair c none comp = .error .invalidPublicPair := by
  refine ⟨?_, rfl⟩
  intro x y h
  simp [keyFromPair, h]

/-- what a constructed key satisfies: exponent in `[1, n−1]`, public pair on the curve; the only errors the two
checks raise are the documented ones -/
theorem C10_key_ctor_sound (c : CurveParams) (mul : Int → Except Curve.Err Pt) (d : Int) (comp : Bool) (k : Key) :
    (keyFromSecretWith c mul d comp = .ok k →
      1 ≤ d ∧ d < c.n ∧ k.se = some d ∧ k.compressed = comp ∧ mul d = .ok (some k.pub) ∧
      containsXY c k.pub.1 k.pub.2 = true) ∧
    (∀ P, keyFromPair c P comp = .ok k → P = some k.pub ∧ k.se = none ∧ containsXY c k.pub.1 k.pub.2 = true) := by
  constructor
  · intro h
    unfold keyFromSecretWith at h
    split at h
    · cases h
    · rename_i hr
      split at h
      · cases h
      · cases h
      · rename_i x y hm
        split at h
        · rename_i hon
          injection h with h; subst h
          exact ⟨by omega, by omega, rfl, rfl, hm, hon⟩
        · cases h
  · intro P h
    unfold keyFromPair at h
    split at h
    · cases h
    · rename_i x y
      split at h
      · rename_i hon
        injection h with h; subst h
        exact ⟨rfl, rfl, hon⟩
      · cases h

end ctor

/-! ## WIF (`Key.wif`, `wif_for_blob`, `ParseAPI.wif`) -/
section wif
open Pycoin.Sec Pycoin.KeyCtor Pycoin.Wif Pycoin.Curve

/-- the table: on EVERY network (the Groestlcoin family included) the prefix `wif_for_blob` writes is the prefix
`ParseAPI.wif` expects, and there is one (1 byte, or 2 bytes on DCR/DCRT); and the checksum hash `wif_for_blob` writes
with is the one `parse_b58_hashed` accepts (both probed by the translator) -/
theorem C10_wif_table :
    ∀ net ∈ Gen.Networks.all,
      net.parseWif = net.outWif ∧ net.hashWif = net.hashParse ∧
      ∃ pfx, net.outWif = some pfx ∧ 1 ≤ pfx.length ∧ pfx.length ≤ 2 := by
  decide +kernel

/-- GRS, TGRS and GRSRT are in the table with the Groestl checksum hash (so that case of the round trip is not vacuous) -/
theorem C10_wif_table_groestl :
    (∃ net ∈ Gen.Networks.all, net.hashWif = .groestl ∧ net.symbol = "GRS") ∧
    (∃ net ∈ Gen.Networks.all, net.hashWif = .groestl ∧ net.symbol = "TGRS") ∧
    (∃ net ∈ Gen.Networks.all, net.hashWif = .groestl ∧ net.symbol = "GRSRT") := by
  decide +kernel

/-- DCR and DCRT are in the table with 2-byte prefixes (so the 2-byte case of the round trip is not vacuous) -/
theorem C10_wif_table_two_byte :
    ∃ net ∈ Gen.Networks.all, ∃ pfx, net.outWif = some pfx ∧ pfx.length = 2 := by
  decide +kernel

theorem isPrefixOf_append (p d : Bytes) : p.isPrefixOf (p ++ d) = true := by
  induction p with
  | nil => simp
  | cons a p ih => simp [List.isPrefixOf, ih]

/-- the round trip for one prefix, any multiplication function: what `key.wif(flag)` prints, `parse.wif` reads
back as the same exponent, the same public pair and the flag that was written -/
theorem wif_rt_prefix (c : CurveParams) (hn : c.n ≤ 2 ^ 256) (mul : Int → Except Curve.Err Pt)
    (net : Addr.Network) (pfx : Bytes) (hout : net.outWif = some pfx) (hparse : net.parseWif = some pfx)
    (hhash : net.hashWif = net.hashParse)
    (d : Int) (comp : Bool) (k : Key) (hk : keyFromSecretWith c mul d comp = .ok k) (flag : Option Bool) :
    ∃ t, Key.wif net k flag = .ok (some t) ∧
      parseWifWith c mul net t = .ok (some ⟨some d, k.pub, flag.getD comp⟩) := by
  obtain ⟨hd1, hdn, hse, hcomp, hmul, hon⟩ := (C10_key_ctor_sound c mul d comp k).1 hk
  have hd0 : 0 ≤ d := by omega
  have hd256 : d < 2 ^ 256 := by omega
  -- the key that the parser rebuilds
  have hk' : ∀ f, keyFromSecretWith c mul d f = .ok ⟨some d, k.pub, f⟩ := by
    intro f
    unfold keyFromSecretWith
    have : ¬ (d < 1 ∨ d ≥ c.n) := by omega
    rw [if_neg this, hmul]
    simp [hon]
  have hfrom : fromBytes32 (beBytes d.toNat 32) = d := by
    rw [fromBytes32_beBytes (by omega)]; omega
  -- the text
  let blob : Bytes := if flag.getD comp then beBytes d.toNat 32 ++ [1] else beBytes d.toNat 32
  obtain ⟨t, ht1, -, ht2⟩ := Base58.parseK_b2aK net.hashWif (pfx ++ blob)
  refine ⟨t, ?_, ?_⟩
  · unfold Key.wif
    rw [hse]
    simp only [toBytes32_ok hd0 hd256, hcomp]
    unfold wifForBlob
    rw [hout]
    simp only
    rw [show (if flag.getD comp = true then beBytes d.toNat 32 ++ [1] else beBytes d.toNat 32) = blob from rfl, ht1]
    rfl
  · unfold parseWifWith
    rw [← hhash, ht2, hparse]
    simp only [isPrefixOf_append, if_true, List.drop_left]
    by_cases hf : flag.getD comp = true
    · have hb : blob = beBytes d.toNat 32 ++ [1] := by simp [blob, hf]
      rw [hb]
      have h1 : (beBytes d.toNat 32 ++ [1]).length = 33 := by simp
      have h2 : (beBytes d.toNat 32 ++ [(1 : UInt8)]).drop 32 = [1] := by
        rw [List.drop_append_of_le_length (by simp)]
        simp
      have h3 : (beBytes d.toNat 32 ++ [(1 : UInt8)]).take 32 = beBytes d.toNat 32 := by
        rw [List.take_append_of_le_length (by simp)]
        simp
      rw [if_pos ⟨h1, h2⟩, h3, hfrom, hk' true, hf]
    · have hb : blob = beBytes d.toNat 32 := by simp [blob, hf]
      rw [hb]
      have h1 : ¬ ((beBytes d.toNat 32).length = 33 ∧ (beBytes d.toNat 32).drop 32 = [1]) := by simp
      have h2 : (beBytes d.toNat 32).length = 32 := by simp
      rw [if_neg h1, if_pos h2, hfrom, hk' false]
      have : flag.getD comp = false := by simpa using hf
      rw [this]

/-- C10.wif_rt — on EVERY network of the generated table (Groestlcoin family included: the checksum hash is the
network's own, `C10_wif_table`; of the hash only its 32-byte length is used), for both compression flags,
with either arithmetic configuration (`mul`): `network.parse.wif(key.wif())` is a key with the same secret exponent,
public pair and compression flag.  `flag = none` is `key.wif()`, `some f` is `key.wif(is_compressed=f)`. -/
theorem C10_wif_rt (c : CurveParams) (hn : c.n ≤ 2 ^ 256) (mul : Int → Except Curve.Err Pt)
    (net : Addr.Network) (hnet : net ∈ Gen.Networks.all)
    (d : Int) (comp : Bool) (k : Key) (hk : keyFromSecretWith c mul d comp = .ok k) (flag : Option Bool) :
    ∃ t, Key.wif net k flag = .ok (some t) ∧
      parseWifWith c mul net t = .ok (some ⟨some d, k.pub, flag.getD comp⟩) := by
  obtain ⟨heq, hhash, pfx, hout, -, -⟩ := C10_wif_table net hnet
  exact wif_rt_prefix c hn mul net pfx hout (by rw [heq, hout]) hhash d comp k hk flag

/-- with the flag the key was built with, the parsed key is the key itself -/
theorem C10_wif_rt_same (c : CurveParams) (hn : c.n ≤ 2 ^ 256) (mul : Int → Except Curve.Err Pt)
    (net : Addr.Network) (hnet : net ∈ Gen.Networks.all)
    (d : Int) (comp : Bool) (k : Key) (hk : keyFromSecretWith c mul d comp = .ok k) :
    ∃ t, Key.wif net k none = .ok (some t) ∧ parseWifWith c mul net t = .ok (some k) := by
  obtain ⟨t, h1, h2⟩ := C10_wif_rt c hn mul net hnet d comp k hk none
  obtain ⟨-, -, hse, hcomp, -, -⟩ := (C10_key_ctor_sound c mul d comp k).1 hk
  refine ⟨t, h1, ?_⟩
  rw [h2]
  cases k
  simp_all

/-- `parse.wif` never returns a key whose exponent is outside `[1, n−1]` -/
theorem C10_wif_parse_range (c : CurveParams) (mul : Int → Except Curve.Err Pt) (net : Addr.Network) (t : Bytes)
    (k : Key) (h : parseWifWith c mul net t = .ok (some k)) : ∃ d, k.se = some d ∧ 1 ≤ d ∧ d < c.n := by
  unfold parseWifWith at h
  split at h
  · rename_i data pfx _ _
    split at h
    · simp only at h
      split at h
      · split at h
        · rename_i k' hk'
          injection h with h; injection h with h; subst h
          obtain ⟨h1, h2, h3, -⟩ := (C10_key_ctor_sound c mul _ _ _).1 hk'
          exact ⟨_, h3, h1, h2⟩
        · split at h <;> cases h
      · split at h
        · split at h
          · rename_i k' hk'
            injection h with h; injection h with h; subst h
            obtain ⟨h1, h2, h3, -⟩ := (C10_key_ctor_sound c mul _ _ _).1 hk'
            exact ⟨_, h3, h1, h2⟩
          · split at h <;> cases h
        · cases h
    · cases h
  · cases h

end wif

/-! ## the shipped curve: every clause without side conditions -/
section shipped
open Pycoin.Sec Pycoin.KeyCtor Pycoin.Wif Pycoin.Curve Pycoin.Gen.Curves

/-- `Key(secret_exponent=d)` succeeds for every `d` in `[1, n−1]`, whatever blinding factor the generator drew
(C02: the blinded fixed-base multiplication computes `d • G`; `n` is prime and `n • G = ∞`, so `d • G ≠ ∞`) -/
theorem C10_key_ctor_accepts_secp256k1 (bf d : Int) (comp : Bool) (h1 : 1 ≤ d) (h2 : d < k1.n) :
    ∃ k, keyFromSecret k1 bf d comp = .ok k ∧ k.se = some d ∧ k.compressed = comp ∧
      containsXY k1 k.pub.1 k.pub.2 = true := by
  obtain ⟨x, y, hm, hon⟩ := mulG_some secp256k1 G_on_curve_secp256k1 prime_n_secp256k1
    C10_field_secp256k1.2.2.1 order_G_secp256k1 bf d h1 h2
  refine ⟨⟨some d, (x, y), comp⟩, ?_, rfl, rfl, hon⟩
  unfold keyFromSecret keyFromSecretWith
  have : ¬ (d < 1 ∨ d ≥ k1.n) := by omega
  rw [if_neg this, hm]
  simp [hon]

/-- C10.wif_rt, end to end on the shipped curve: for every network of the table, every exponent in `[1, n−1]`,
both flags, any blinding factor: the key exists, `key.wif()` is a text, and `network.parse.wif` of that text is
the key -/
theorem C10_wif_rt_secp256k1 (bf : Int) (net : Addr.Network) (hnet : net ∈ Gen.Networks.all)
    (d : Int) (comp : Bool) (h1 : 1 ≤ d) (h2 : d < k1.n) :
    ∃ k t, keyFromSecret k1 bf d comp = .ok k ∧ k.se = some d ∧ k.compressed = comp ∧
      Key.wif net k none = .ok (some t) ∧ parseWif k1 bf net t = .ok (some k) := by
  obtain ⟨k, hk, hse, hc, -⟩ := C10_key_ctor_accepts_secp256k1 bf d comp h1 h2
  obtain ⟨t, ht1, ht2⟩ := C10_wif_rt_same k1 C10_field_secp256k1.2.2.1 (mulG k1 bf) net hnet d comp k hk
  exact ⟨k, t, hk, hse, hc, ht1, ht2⟩

/-- C10.sec_rt on the shipped curve, both forms, no side condition: every reduced curve point encodes, the blob
decodes (strict and non-strict) to the point, and `Key.from_sec` gives back the point, the compression flag, the
blob, and therefore the same hash160 and address on every network -/
theorem C10_sec_rt_secp256k1 (net : Addr.Network) (k : Key) (comp : Bool)
    (hx0 : 0 ≤ k.pub.1) (hx : k.pub.1 < k1.p) (hy0 : 0 ≤ k.pub.2) (hy : k.pub.2 < k1.p)
    (hon : containsXY k1 k.pub.1 k.pub.2 = true) :
    ∃ blob k', k.sec (some comp) = .ok blob ∧
      secToPublicPair k1 blob true = .ok k.pub ∧ secToPublicPair k1 blob false = .ok k.pub ∧
      keyFromSec k1 blob = .ok k' ∧ k'.pub = k.pub ∧ k'.compressed = comp ∧ k'.se = none ∧
      k'.sec none = .ok blob ∧ k'.hash160 none = k.hash160 (some comp) ∧
      Key.address net k' none = Key.address net k (some comp) := by
  cases comp with
  | false => exact C10_sec_rt_uncompressed k1 C10_field_secp256k1.1 net k hx0 hx hy0 hy hon
  | true =>
    have hy1 : 0 < k.pub.2 := by
      rcases Int.lt_or_eq_of_le hy0 with h | h
      · exact h
      · exfalso
        have := no_y_zero_secp256k1 k.pub.1
        rw [← h] at hon
        rw [hon] at this
        cases this
    exact C10_sec_rt_compressed k1 C10_field_secp256k1.1 C10_field_secp256k1.2.1 net k hx0 hx hy1 hy hon

/-- the public pair of a private key is a reduced curve point, so the key round-trips through SEC in both forms:
`Key.from_sec(key.sec(f))` has the same point, the flag `f`, the same blob, hash160 and address (every network) -/
theorem C10_key_sec_rt_secp256k1 (bf d : Int) (comp f : Bool) (h1 : 1 ≤ d) (h2 : d < k1.n) (net : Addr.Network) :
    ∃ k blob k', keyFromSecret k1 bf d comp = .ok k ∧ k.sec (some f) = .ok blob ∧
      keyFromSec k1 blob = .ok k' ∧ k'.pub = k.pub ∧ k'.compressed = f ∧ k'.sec none = .ok blob ∧
      k'.hash160 none = k.hash160 (some f) ∧ Key.address net k' none = Key.address net k (some f) := by
  obtain ⟨k, hk, -, -, hon⟩ := C10_key_ctor_accepts_secp256k1 bf d comp h1 h2
  obtain ⟨-, -, -, -, hmul, -⟩ := (C10_key_ctor_sound k1 (mulG k1 bf) d comp k).1 hk
  have rG : Reduced secp256k1 (basis secp256k1) := by
    show 0 ≤ secp256k1.gx ∧ secp256k1.gx < secp256k1.p ∧ 0 ≤ secp256k1.gy ∧ secp256k1.gy < secp256k1.p
    decide +kernel
  have hred := mulG_reduced secp256k1 G_on_curve_secp256k1 rG prime_n_secp256k1.ne_zero
    C10_field_secp256k1.2.2.1 order_G_secp256k1 bf d _ hmul
  obtain ⟨hx0, hx, hy0, hy⟩ : 0 ≤ k.pub.1 ∧ k.pub.1 < k1.p ∧ 0 ≤ k.pub.2 ∧ k.pub.2 < k1.p := hred
  obtain ⟨blob, k', e1, -, -, e2, e3, e4, -, e5, e6, e7⟩ := C10_sec_rt_secp256k1 net k f hx0 hx hy0 hy hon
  exact ⟨k, blob, k', hk, e1, e2, e3, e4, e5, e6, e7⟩

/-- the correspondence driver's multiplication (fixed-base loop over the table built once) is the model's
`Generator.__mul__` with blinding factor 0; by C02 (`C02_blindedMul_eq`) the group element does not depend on the
blinding factor -/
theorem C10_driver_mul_is_model (e : Int) : Driver.C10.mulFast e = Curve.mulG k1 0 e :=
  Driver.C10.mulFast_eq e

/-! ### non-vacuity (evaluated; the driver prints the same values) -/

/-- `02 ‖ Gx`: the generator, compressed -/
def secG : Bytes := 2 :: beBytes 55066263022277343669578718895168534326250603453777594175500187360389116729240 32

#guard (keyFromSec k1 secG).toOption.map (·.pub) ==
  some (55066263022277343669578718895168534326250603453777594175500187360389116729240,
        32670510020758816978083085130507043184471273380659243275938904335757337482424)
#guard (keyFromSec k1 secG).toOption.map (·.sec none) == some (.ok secG)
-- the witness of the fixed defect: `02 ‖ (p+1)` is refused, `02 ‖ 1` is the point's only compressed encoding
#guard keyFromSec k1 (2 :: beBytes (k1.p + 1) 32) == .error .encodingError
#guard (keyFromSec k1 (2 :: beBytes 1 32)).toOption.map (·.pub.1) == some 1
-- hybrid prefix: refused in strict mode, read in non-strict mode; prefix 05 with 33 bytes is read as "odd" (as coded)
#guard secToPublicPair k1 (6 :: (beBytes 1 32 ++ beBytes 2 32)) true == .error .encodingError
#guard secToPublicPair k1 (6 :: (beBytes 1 32 ++ beBytes 2 32)) false == .ok (1, 2)
#guard (secToPublicPair k1 (5 :: beBytes 1 32) false).toOption.map (fun P => P.2 % 2) == some 1
-- exponent 1 on Bitcoin mainnet, compressed: the well-known WIF, and it parses back
#guard (keyFromSecretWith k1 Driver.C10.mulFast 1 true).toOption.bind
    (fun k => (Key.wif Gen.Networks.net_btc k none).toOption) ==
  some (some "KwDiBf89QgGbjEhKnhXJuH7LrciVrZi3qYjgd9M7rFU73sVHnoWn".toUTF8.toList)
#guard (parseWifWith k1 Driver.C10.mulFast Gen.Networks.net_btc
    "KwDiBf89QgGbjEhKnhXJuH7LrciVrZi3qYjgd9M7rFU73sVHnoWn".toUTF8.toList).toOption.map
      (fun o => o.map (fun k => (k.se, k.compressed))) == some (some (some 1, true))
-- a 2-byte prefix network
#guard Gen.Networks.net_dcr.outWif.map List.length == some 2

end shipped

/-! ## DER (`pycoin/satoshi/der.py`) -/
section der
open Pycoin.Der

/-- C10.der_rt — `sigdecode_der(sigencode_der(r, s)) = (r, s)` in both modes, for all `r, s ≥ 0` (short and long
form lengths alike).  The bound "shorter than 2^64 bytes" is beyond any addressable memory; it keeps every length
field below the 127 length bytes DER can express. -/
theorem C10_der_rt (r s : Int) (hr : 0 ≤ r) (hs : 0 ≤ s)
    (hrs : byteLen r.toNat < 2 ^ 64) (hss : byteLen s.toNat < 2 ^ 64) (broken : Bool) :
    ∃ blob, sigencodeDer r s = .ok blob ∧ sigdecodeDer blob broken = .ok (r, s) := by
  obtain ⟨er, her, hler⟩ := encodeInteger_ok r hr hrs
  obtain ⟨es, hes, hles⟩ := encodeInteger_ok s hs hss
  have h66 : (2 : Nat) ^ 65 + 2 ^ 65 < 2 ^ 70 := by decide
  have h64 : (2 : Nat) ^ 64 + 2 < 2 ^ 70 := by decide
  have htot : (er ++ es).length < 2 ^ 70 := by simp; omega
  obtain ⟨l, hl, -⟩ := encodeLength_ok htot
  have hsmall : ∀ (v : Int), byteLen v.toNat < 2 ^ 64 →
      ∀ n, n ≤ (hexBytes v.toNat).length + 1 → (hexBytes n).length < 128 := by
    intro v hv n hn
    apply hexBytes_small
    have : (hexBytes v.toNat).length < 2 ^ 64 + 1 := by rw [hexBytes_length]; split <;> omega
    omega
  have henc : sigencodeDer r s = .ok ((0x30 : UInt8) :: (l ++ (er ++ es)) ++ []) := by
    have hsum : ([er, es].map List.length).sum = (er ++ es).length := by simp
    simp only [sigencodeDer, her, hes, encodeSequence, hsum, hl]
    simp
  refine ⟨_, henc, ?_⟩
  unfold sigdecodeDer
  rw [removeSequence_encode (er ++ es) l [] hl (hexBytes_small htot)]
  simp only [ne_eq, not_true_eq_false, false_and, if_false]
  rw [removeInteger_encodeInteger r hr er es broken her (hsmall r hrs)]
  simp only
  have : removeInteger es broken = .ok (s, []) := by
    have := removeInteger_encodeInteger s hs es [] broken hes (hsmall s hss)
    simpa using this
  rw [this]
  simp

/-- C10.der_strict_trailing — what strict decoding accepts: the sequence ends the input and the second integer
ends the sequence.  (`remove_sequence` returns as remainder everything after the announced length.) -/
theorem C10_der_strict_trailing (sig : Bytes) (r s : Int) (h : sigdecodeDer sig false = .ok (r, s)) :
    ∃ content rest, removeSequence sig = .ok (content, []) ∧ removeInteger content false = .ok (r, rest) ∧
      removeInteger rest false = .ok (s, []) := by
  unfold sigdecodeDer at h
  split at h
  · cases h
  · rename_i content remainder hseq
    split at h
    · cases h
    · rename_i hrem
      split at h
      · cases h
      · rename_i r' rest hr
        split at h
        · cases h
        · rename_i s' remainder' hs
          split at h
          · cases h
          · rename_i hrem'
            injection h with h
            injection h with h1 h2
            subst h1; subst h2
            have e1 : remainder = [] := by simpa using hrem
            have e2 : remainder' = [] := by simpa using hrem'
            subst e1; subst e2
            exact ⟨content, rest, hseq, hr, hs⟩

/-- strict decoding refuses bytes after the sequence; the non-strict mode ignores them (as coded) -/
theorem C10_der_strict_trailing_after_sequence (r s : Int) (hr : 0 ≤ r) (hs : 0 ≤ s)
    (hrs : byteLen r.toNat < 2 ^ 64) (hss : byteLen s.toNat < 2 ^ 64) (blob t : Bytes) (ht : t ≠ [])
    (h : sigencodeDer r s = .ok blob) :
    sigdecodeDer (blob ++ t) false = .error .unexpectedDER ∧ sigdecodeDer (blob ++ t) true = .ok (r, s) := by
  obtain ⟨er, her, hler⟩ := encodeInteger_ok r hr hrs
  obtain ⟨es, hes, hles⟩ := encodeInteger_ok s hs hss
  have h66 : (2 : Nat) ^ 65 + 2 ^ 65 < 2 ^ 70 := by decide
  have h64 : (2 : Nat) ^ 64 + 2 < 2 ^ 70 := by decide
  have htot : (er ++ es).length < 2 ^ 70 := by simp; omega
  obtain ⟨l, hl, -⟩ := encodeLength_ok htot
  have hsmall : ∀ (v : Int), byteLen v.toNat < 2 ^ 64 →
      ∀ n, n ≤ (hexBytes v.toNat).length + 1 → (hexBytes n).length < 128 := by
    intro v hv n hn
    apply hexBytes_small
    have : (hexBytes v.toNat).length < 2 ^ 64 + 1 := by rw [hexBytes_length]; split <;> omega
    omega
  have henc : sigencodeDer r s = .ok ((0x30 : UInt8) :: (l ++ (er ++ es))) := by
    have hsum : ([er, es].map List.length).sum = (er ++ es).length := by simp
    simp only [sigencodeDer, her, hes, encodeSequence, hsum, hl]
    simp
  rw [henc] at h
  injection h with h
  subst h
  have hseq := removeSequence_encode (er ++ es) l t hl (hexBytes_small htot)
  constructor
  · unfold sigdecodeDer
    rw [hseq]
    simp [ht]
  · unfold sigdecodeDer
    rw [hseq]
    simp only [ne_eq, not_true_eq_false, and_false, if_false]
    rw [removeInteger_encodeInteger r hr er es true her (hsmall r hrs)]
    simp only
    have : removeInteger es true = .ok (s, []) := by
      have := removeInteger_encodeInteger s hs es [] true hes (hsmall s hss)
      simpa using this
    rw [this]

/-- strict decoding refuses bytes after the second integer inside a sequence whose length covers them -/
theorem C10_der_strict_trailing_after_integers (r s : Int) (hr : 0 ≤ r) (hs : 0 ≤ s)
    (hrs : byteLen r.toNat < 2 ^ 64) (hss : byteLen s.toNat < 2 ^ 64) (er es l t : Bytes) (ht : t ≠ [])
    (her : encodeInteger r = .ok er) (hes : encodeInteger s = .ok es) (htl : t.length < 2 ^ 64)
    (hl : encodeLength (er ++ es ++ t).length = .ok l) :
    sigdecodeDer ((0x30 : UInt8) :: (l ++ (er ++ es ++ t))) false = .error .unexpectedDER ∧
    sigdecodeDer ((0x30 : UInt8) :: (l ++ (er ++ es ++ t))) true = .ok (r, s) := by
  obtain ⟨er', her', hler⟩ := encodeInteger_ok r hr hrs
  obtain ⟨es', hes', hles⟩ := encodeInteger_ok s hs hss
  rw [her] at her'; injection her' with e1; subst e1
  rw [hes] at hes'; injection hes' with e2; subst e2
  have h66 : (2 : Nat) ^ 65 + 2 ^ 65 + 2 ^ 64 < 2 ^ 70 := by decide
  have h64 : (2 : Nat) ^ 64 + 2 < 2 ^ 70 := by decide
  have htot : (er ++ es ++ t).length < 2 ^ 70 := by simp; omega
  have hsmall : ∀ (v : Int), byteLen v.toNat < 2 ^ 64 →
      ∀ n, n ≤ (hexBytes v.toNat).length + 1 → (hexBytes n).length < 128 := by
    intro v hv n hn
    apply hexBytes_small
    have : (hexBytes v.toNat).length < 2 ^ 64 + 1 := by rw [hexBytes_length]; split <;> omega
    omega
  have hseq := removeSequence_encode (er ++ es ++ t) l [] hl (hexBytes_small htot)
  simp only [List.append_nil] at hseq
  have h1 : ∀ b, removeInteger (er ++ es ++ t) b = .ok (r, es ++ t) := by
    intro b
    have := removeInteger_encodeInteger r hr er (es ++ t) b her (hsmall r hrs)
    simpa using this
  have h2 : ∀ b, removeInteger (es ++ t) b = .ok (s, t) :=
    fun b => removeInteger_encodeInteger s hs es t b hes (hsmall s hss)
  constructor
  · unfold sigdecodeDer
    rw [hseq]
    simp only [ne_eq, not_true_eq_false, false_and, if_false, h1, h2]
    simp [ht]
  · unfold sigdecodeDer
    rw [hseq]
    simp only [ne_eq, not_true_eq_false, and_false, if_false, h1, h2]

/-- C10.der_minimal — `encode_integer` writes the shortest big-endian form of `r` (no leading zero byte unless
`r = 0`), preceded by one `00` exactly when its top bit is set -/
theorem C10_der_minimal (r : Int) (hr : 0 ≤ r) (e : Bytes) (h : encodeInteger r = .ok e) :
    ∃ l c t, hexBytes r.toNat = c :: t ∧ (r ≠ 0 → c ≠ 0) ∧ beNat (c :: t) = r.toNat ∧
      e = 0x02 :: (l ++ (if 128 ≤ c.toNat then 0 :: c :: t else c :: t)) ∧
      encodeLength (if 128 ≤ c.toNat then t.length + 2 else t.length + 1) = .ok l := by
  obtain ⟨l, b, body, he, hl, hb, hv, hform⟩ := encodeInteger_shape r hr e h
  have hmin : ∀ c t, hexBytes r.toNat = c :: t → r ≠ 0 → c ≠ 0 := by
    intro c t hct hr0
    obtain ⟨b', rest', h1, h2⟩ := hexBytes_head_ne_zero (n := r.toNat) (by omega)
    rw [hct] at h1
    injection h1 with h1 _
    rw [h1]; exact h2
  rcases hform with h1 | ⟨h0, h2, c, t, h3, h4⟩
  · refine ⟨l, b, body, h1.symm, hmin b body h1.symm, ?_, ?_, ?_⟩
    · rw [h1, beNat_hexBytes]
    · have : ¬ (128 ≤ b.toNat) := by omega
      simp [this, he]
    · have : ¬ (128 ≤ b.toNat) := by omega
      simpa [this] using hl
  · subst h0
    refine ⟨l, c, t, by rw [← h2, h3], hmin c t (by rw [← h2, h3]), ?_, ?_, ?_⟩
    · rw [← h3, h2, beNat_hexBytes]
    · simp [h4, he, h3]
    · simpa [h4, h3] using hl

#guard sigencodeDer 1 128 matches .ok [0x30, 0x07, 0x02, 0x01, 0x01, 0x02, 0x02, 0x00, 0x80]
#guard sigdecodeDer [0x30, 0x07, 0x02, 0x01, 0x01, 0x02, 0x02, 0x00, 0x80, 0x00] false matches .error .unexpectedDER
#guard sigdecodeDer [0x30, 0x07, 0x02, 0x01, 0x01, 0x02, 0x02, 0x00, 0x80] false matches .ok (1, 128)

end der


/-! ## `Key.verify` on raw DER, `Key.sign` on a public key, `override_network`, `keys.public` -/
section keyops
open Pycoin.KeyOps Pycoin.KeyCtor Pycoin.Der

/-- C10.key_verify_strict: `Key.verify(h, sig)` answers `True` only when strict DER decoding accepts `sig` — the
sequence ends the input and the second integer ends the sequence — and the decoded `(r, s)` verifies; input that the
decoder refuses as malformed (`UnexpectedDER`, `ValueError`) is `False`, never an exception -/
theorem C10_key_verify_strict (c : Curve.CurveParams) (bf : Int) (Q : Curve.Pt) (h sig : Bytes) :
    (keyVerify c bf Q h sig = .ok true →
      ∃ r s content rest, sigdecodeDer sig false = .ok (r, s) ∧ removeSequence sig = .ok (content, []) ∧
        removeInteger content false = .ok (r, rest) ∧ removeInteger rest false = .ok (s, []) ∧
        Curve.verify c bf Q (Sec.fromBytes32 h) r s = .ok true) ∧
    (∀ e, sigdecodeDer sig false = .error e → e = .unexpectedDER ∨ e = .valueError →
      keyVerify c bf Q h sig = .ok false) := by
  constructor
  · intro hv
    unfold keyVerify at hv
    split at hv
    · cases hv
    · cases hv
    · cases hv
    · rename_i r s hd
      obtain ⟨content, rest, h1, h2, h3⟩ := C10_der_strict_trailing sig r s hd
      refine ⟨r, s, content, rest, hd, h1, h2, h3, ?_⟩
      split at hv
      · rename_i b hb; cases hv; exact hb
      · split at hv <;> cases hv
  · intro e he hcase
    unfold keyVerify
    rw [he]
    rcases hcase with rfl | rfl <;> rfl

/-- C10.key_sign_needs_secret: only a key holding a secret exponent gets past the guard of `Key.sign` -/
theorem C10_key_sign_needs_secret (k : Key) : keySignGuard k = .ok () ↔ k.se ≠ none := by
  unfold keySignGuard
  cases k.se <;> simp

/-- C10.override_network: the key rebuilt on the other network holds the same secret exponent (hence the same
public pair, by `C10_key_ctor_sound`); as coded it is always marked compressed; a public key is refused -/
theorem C10_override_network (c : Curve.CurveParams) (mul : Int → Except Curve.Err Curve.Pt) (k k' : Key)
    (h : overrideNetwork c mul k = .ok k') :
    ∃ d, k.se = some d ∧ d ≠ 0 ∧ keyFromSecretWith c mul d true = .ok k' := by
  unfold overrideNetwork at h
  split at h
  · rename_i d hd
    split at h
    · rename_i hne
      split at h
      · rename_i k'' hk; cases h; exact ⟨d, hd, hne, hk⟩
      · cases h
    · cases h
  · cases h

/-- C10.keys_public_flag: SEC bytes decide the compression flag themselves: passing one is refused; a public pair
takes the flag given (compressed by default) -/
theorem C10_keys_public_flag (c : Curve.CurveParams) (b : Bytes) (f : Bool) (P : Curve.Pt) (fl : Option Bool) (k : Key) :
    keysPublic c (.sec b) (some f) = .error .valueError ∧
    (keysPublic c (.sec b) none = .ok k ↔ keyFromSec c b = .ok k) ∧
    (keysPublic c (.pair P) fl = .ok k ↔ keyFromPair c P (fl.getD true) = .ok k) := by
  refine ⟨rfl, ?_, ?_⟩
  · unfold keysPublic
    cases hk : keyFromSec c b <;> simp [hk]
  · unfold keysPublic
    cases hk : keyFromPair c P (fl.getD true) <;> simp [hk]

/-- C10.is_sec: the shape test holds of every blob `Key.from_sec` accepts (32-byte fields), and of nothing with another
length or prefix -/
theorem C10_is_sec (c : Curve.CurveParams) (hc : Sec.Field32 c) (blob : Bytes) :
    (∀ k, keyFromSec c blob = .ok k → isSec blob = true) ∧
    (isSec blob = true ↔
      (blob.length = 33 ∧ (blob.take 1 = [2] ∨ blob.take 1 = [3])) ∨ (blob.length = 65 ∧ blob.take 1 = [4])) := by
  have hiff : isSec blob = true ↔
      (blob.length = 33 ∧ (blob.take 1 = [2] ∨ blob.take 1 = [3])) ∨ (blob.length = 65 ∧ blob.take 1 = [4]) := by
    unfold isSec
    by_cases h1 : (blob.take 1 = [2] ∨ blob.take 1 = [3]) ∧ blob.length = 33
    · rw [if_pos h1]
      exact ⟨fun _ => Or.inl ⟨h1.2, h1.1⟩, fun _ => rfl⟩
    · rw [if_neg h1]
      simp only [decide_eq_true_eq]
      constructor
      · intro h; exact Or.inr ⟨h.2, h.1⟩
      · rintro (h | h)
        · exact absurd ⟨h.2, h.1⟩ h1
        · exact ⟨h.2, h.1⟩
  refine ⟨?_, hiff⟩
  intro k hk
  exact hiff.mpr (C10_sec_strict c hc blob k hk).2.2.2.2.2.2.2.2

end keyops

end Pycoin.C10
