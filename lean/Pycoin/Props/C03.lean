import Pycoin.Spec.Consensus
import Pycoin.Proofs.SpecScriptNum
/-!
C03 — spec-side sanity theorems (builder "vm").  The refinement theorems (model of pycoin's VM = this spec) are written by the
"vmmodel" builder; on merge that file replaces/absorbs this one.  These few facts are about the consensus specification alone.
-/
namespace Pycoin.Spec.Consensus

/-- a vector of zero bytes is false whatever its length (`CastToBool`) -/
theorem C03_spec_castToBool_zeros (n : Nat) : castToBool (List.replicate n 0) = false := by
  induction n with
  | zero => rfl
  | succ k ih =>
    cases k with
    | zero => decide
    | succ j => simpa [List.replicate_succ, castToBool] using ih

/-- "negative zero" of any length is false -/
theorem C03_spec_castToBool_negzero (n : Nat) : castToBool (List.replicate n 0 ++ [0x80]) = false := by
  induction n with
  | zero => decide
  | succ k ih =>
    cases k with
    | zero => decide
    | succ j => simpa [List.replicate_succ, castToBool] using ih

/-- `GetScriptOp` consumes at least one byte: the fuel `script.length` of `evalLoop` is enough -/
theorem C03_spec_getScriptOp_progress (s : Bytes) (op : Nat) (d r : Bytes) (n : Nat)
    (h : getScriptOp s = some (op, d, r, n)) : r.length < s.length := by
  cases s with
  | nil => simp [getScriptOp] at h
  | cons b rest =>
    simp only [getScriptOp] at h
    repeat' split at h
    all_goals simp at h
    all_goals
      obtain ⟨_, _, hr, _⟩ := h
      subst hr
      simp only [List.length_drop, List.length_cons]
      omega

/-- one unit of fuel more than the length of the remaining script changes nothing: the fuel of `evalLoop` never runs out -/
theorem C03_spec_evalLoop_fuel (chk : SigChecker Id) (env : Env) :
    ∀ (fuel : Nat) (rest : Bytes) (pc : Nat) (st : State), rest.length ≤ fuel →
      evalLoop chk env (fuel + 1) rest pc st = evalLoop chk env fuel rest pc st := by
  intro fuel
  induction fuel with
  | zero =>
    intro rest pc st h
    have : rest = [] := List.eq_nil_of_length_eq_zero (Nat.le_zero.mp h)
    subst this
    simp [evalLoop]
  | succ k ih =>
    intro rest pc st h
    rw [evalLoop, evalLoop]
    by_cases he : rest.isEmpty
    · simp [he]
    · simp only [he]
      cases hg : getScriptOp rest with
      | none => rfl
      | some v =>
        obtain ⟨opcode, data, rest', size⟩ := v
        have hlt := C03_spec_getScriptOp_progress rest opcode data rest' size hg
        have hle : rest'.length ≤ k := by omega
        simp only [bind]
        cases hs : stepM chk env st opcode data (pc + size) with
        | error e => rfl
        | ok st' => simp only [Bool.false_eq_true, if_false]; exact ih rest' (pc + size) st' hle

/-- any fuel at least as large as the remaining script gives the same result (the `UNKNOWN_ERROR` of the exhausted-fuel branch is unreachable
from `evalScript`, which starts with fuel = script length) -/
theorem C03_spec_evalLoop_fuel_irrelevant (chk : SigChecker Id) (env : Env) (rest : Bytes) (pc : Nat) (st : State) (extra : Nat) :
    evalLoop chk env (rest.length + extra) rest pc st = evalLoop chk env rest.length rest pc st := by
  induction extra with
  | zero => rfl
  | succ k ih =>
    rw [← ih]
    exact C03_spec_evalLoop_fuel chk env (rest.length + k) rest pc st (by omega)

/-- scripts over 10000 bytes fail before anything is decoded -/
theorem C03_spec_evalScript_script_size (chk : Bytes → Bytes → Bytes → SigVersion → Bool) (stack : List Bytes) (script : Bytes) (flags : Flags)
    (tx : TxCtx) (sv : SigVersion) (h : script.length > MAX_SCRIPT_SIZE) :
    evalScript chk stack script flags tx sv = .error .SCRIPT_SIZE := by
  simp [evalScript, evalScriptM, h, Id.run]
  rfl

/-- the empty script leaves the stack as it is, whatever its size -/
theorem C03_spec_evalScript_empty (chk : Bytes → Bytes → Bytes → SigVersion → Bool) (stack : List Bytes) (flags : Flags) (tx : TxCtx)
    (sv : SigVersion) : evalScript chk stack [] flags tx sv = .ok stack := by
  simp [evalScript, evalScriptM, evalLoop, MAX_SCRIPT_SIZE, Id.run]
  rfl

/-- `CScriptNum` round trip: decoding the serialisation of a number gives the number back (all integers, no size bound) -/
theorem C03_spec_scriptNum_roundtrip (v : Int) : scriptNumDecode (scriptNumEncode v) = v := scriptNum_roundtrip v

/-- `CScriptNum::serialize` always produces a minimal encoding (what `fRequireMinimal` accepts) -/
theorem C03_spec_scriptNumEncode_minimal (v : Int) : isMinimalNum (scriptNumEncode v) = true := scriptNumEncode_minimal v

/-- a serialised number that fits the size bound is read back by the `CScriptNum(vch, fRequireMinimal, nMaxNumSize)` constructor,
with or without the minimal-encoding requirement -/
theorem C03_spec_scriptNum_encode (v : Int) (requireMinimal : Bool) (maxSize : Nat) (h : (scriptNumEncode v).length ≤ maxSize) :
    scriptNum (scriptNumEncode v) requireMinimal maxSize = .ok v := by
  have h' : ¬ (scriptNumEncode v).length > maxSize := by omega
  simp [scriptNum, h', scriptNumEncode_minimal, scriptNum_roundtrip]

/-- SIGPUSHONLY is decided on the bytes of the scriptSig before anything runs -/
theorem C03_spec_verifyScript_sigpushonly (chk : Bytes → Bytes → Bytes → SigVersion → Bool) (scriptSig spk : Bytes) (wit : List Bytes) (flags : Flags) (tx : TxCtx)
    (h1 : flags.sigpushonly = true) (h2 : isPushOnly scriptSig = false) :
    verifyScript chk scriptSig spk wit flags tx = some .SIG_PUSHONLY := by
  simp [verifyScript, verifyScriptM, h1, h2, Id.run]
  rfl

/-- what `IsWitnessProgram` recognises: version 0..16, a program of 2..40 bytes, nothing else in the script -/
theorem C03_spec_witnessProgram_shape (s prog : Bytes) (v : Nat) (h : isWitnessProgram s = some (v, prog)) :
    s.length = prog.length + 2 ∧ v ≤ 16 ∧ 2 ≤ prog.length ∧ prog.length ≤ 40 := by
  unfold isWitnessProgram at h
  split at h
  · simp at h
  · next hlen =>
    match s, h with
    | a :: l :: p, h =>
      simp only at h
      split at h
      · simp at h
      · split at h
        · next hne hl =>
          simp only [Option.some.injEq, Prod.mk.injEq] at h
          obtain ⟨hv, hp⟩ := h
          subst hp
          simp only [List.length_cons, Bool.or_eq_true, decide_eq_true_eq, not_or, Nat.not_lt] at hlen
          have hv' : v ≤ 16 := by
            subst hv
            simp only [OP_0, OP_1, OP_16] at hne ⊢
            simp at hne
            by_cases h0 : a.toNat = 0
            · simp [h0]
            · simp [h0]; omega
          simp only [beq_iff_eq] at hl
          refine ⟨by simp only [List.length_cons], hv', by omega, by omega⟩
        · simp at h

/-- the flag sets Core's `VerifyScript` accepts: everything on, and nothing on -/
theorem C03_spec_flags_permitted_examples :
    (Flags.ofBits 0xffff).permitted = true ∧ (Flags.ofBits 0).permitted = true ∧ (Flags.ofBits 0x100).permitted = false := by
  decide

end Pycoin.Spec.Consensus
