import Pycoin.Spec.Consensus
/-!
C03 — spec-side sanity theorems (builder "vm").  The refinement theorems (model of pycoin's VM = this spec) are written by the
"vmmodel" builder; on merge that file replaces/absorbs this one.  These few facts are about the consensus specification alone.
-/
namespace Pycoin.Spec.Consensus

/-- a vector of zero bytes is false whatever its length (`CastToBool`) -/
theorem C03_spec_castToBool_zeros (n : Nat) : castToBool (List.replicate n 0) = false := by
  induction n with
  | zero => rfl
  | succ k ih =>
    cases k with
    | zero => decide
    | succ j => simpa [List.replicate_succ, castToBool] using ih

/-- "negative zero" of any length is false -/
theorem C03_spec_castToBool_negzero (n : Nat) : castToBool (List.replicate n 0 ++ [0x80]) = false := by
  induction n with
  | zero => decide
  | succ k ih =>
    cases k with
    | zero => decide
    | succ j => simpa [List.replicate_succ, castToBool] using ih

/-- `GetScriptOp` consumes at least one byte: the fuel `script.length` of `evalLoop` is enough -/
theorem C03_spec_getScriptOp_progress (s : Bytes) (op : Nat) (d r : Bytes) (n : Nat)
    (h : getScriptOp s = some (op, d, r, n)) : r.length < s.length := by
  cases s with
  | nil => simp [getScriptOp] at h
  | cons b rest =>
    simp only [getScriptOp] at h
    repeat' split at h
    all_goals simp at h
    all_goals
      obtain ⟨_, _, hr, _⟩ := h
      subst hr
      simp only [List.length_drop, List.length_cons, List.length_tail]
      omega

/-- the flag sets Core's `VerifyScript` accepts: everything on, and nothing on -/
theorem C03_spec_flags_permitted_examples :
    (Flags.ofBits 0xffff).permitted = true ∧ (Flags.ofBits 0).permitted = true ∧ (Flags.ofBits 0x100).permitted = false := by
  decide

end Pycoin.Spec.Consensus
