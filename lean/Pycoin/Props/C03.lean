import Pycoin.Spec.Consensus
import Pycoin.Props.C03M
import Pycoin.Proofs.SpecScriptNum
/-!
C03 — spec-side sanity theorems (builder "vm").  These few facts (`C03_spec_*`) are about the consensus specification alone.
The refinement theorems (model of pycoin's VM = this spec, builder "vmmodel") are proved in `Props/C03M.lean` + `Proofs/VM*.lean` and
re-stated at the end of this file as `C03_model_*` (same statements, proved by the originals).
-/
namespace Pycoin.Spec.Consensus

/-- a vector of zero bytes is false whatever its length (`CastToBool`) -/
theorem C03_spec_castToBool_zeros (n : Nat) : castToBool (List.replicate n 0) = false := by
  induction n with
  | zero => rfl
  | succ k ih =>
    cases k with
    | zero => decide
    | succ j => simpa [List.replicate_succ, castToBool] using ih

/-- "negative zero" of any length is false -/
theorem C03_spec_castToBool_negzero (n : Nat) : castToBool (List.replicate n 0 ++ [0x80]) = false := by
  induction n with
  | zero => decide
  | succ k ih =>
    cases k with
    | zero => decide
    | succ j => simpa [List.replicate_succ, castToBool] using ih

/-- `GetScriptOp` consumes at least one byte: the fuel `script.length` of `evalLoop` is enough -/
theorem C03_spec_getScriptOp_progress (s : Bytes) (op : Nat) (d r : Bytes) (n : Nat)
    (h : getScriptOp s = some (op, d, r, n)) : r.length < s.length := by
  cases s with
  | nil => simp [getScriptOp] at h
  | cons b rest =>
    simp only [getScriptOp] at h
    repeat' split at h
    all_goals simp at h
    all_goals
      obtain ⟨_, _, hr, _⟩ := h
      subst hr
      simp only [List.length_drop, List.length_cons]
      omega

/-- one unit of fuel more than the length of the remaining script changes nothing: the fuel of `evalLoop` never runs out -/
theorem C03_spec_evalLoop_fuel (chk : SigChecker Id) (env : Env) :
    ∀ (fuel : Nat) (rest : Bytes) (pc : Nat) (st : State), rest.length ≤ fuel →
      evalLoop chk env (fuel + 1) rest pc st = evalLoop chk env fuel rest pc st := by
  intro fuel
  induction fuel with
  | zero =>
    intro rest pc st h
    have : rest = [] := List.eq_nil_of_length_eq_zero (Nat.le_zero.mp h)
    subst this
    simp [evalLoop]
  | succ k ih =>
    intro rest pc st h
    rw [evalLoop, evalLoop]
    by_cases he : rest.isEmpty
    · simp [he]
    · simp only [he]
      cases hg : getScriptOp rest with
      | none => rfl
      | some v =>
        obtain ⟨opcode, data, rest', size⟩ := v
        have hlt := C03_spec_getScriptOp_progress rest opcode data rest' size hg
        have hle : rest'.length ≤ k := by omega
        simp only [bind]
        cases hs : stepM chk env st opcode data (pc + size) with
        | error e => rfl
        | ok st' => simp only [Bool.false_eq_true, if_false]; exact ih rest' (pc + size) st' hle

/-- any fuel at least as large as the remaining script gives the same result (the `UNKNOWN_ERROR` of the exhausted-fuel branch is unreachable
from `evalScript`, which starts with fuel = script length) -/
theorem C03_spec_evalLoop_fuel_irrelevant (chk : SigChecker Id) (env : Env) (rest : Bytes) (pc : Nat) (st : State) (extra : Nat) :
    evalLoop chk env (rest.length + extra) rest pc st = evalLoop chk env rest.length rest pc st := by
  induction extra with
  | zero => rfl
  | succ k ih =>
    rw [← ih]
    exact C03_spec_evalLoop_fuel chk env (rest.length + k) rest pc st (by omega)

/-- scripts over 10000 bytes fail before anything is decoded -/
theorem C03_spec_evalScript_script_size (chk : Bytes → Bytes → Bytes → SigVersion → Bool) (stack : List Bytes) (script : Bytes) (flags : Flags)
    (tx : TxCtx) (sv : SigVersion) (h : script.length > MAX_SCRIPT_SIZE) :
    evalScript chk stack script flags tx sv = .error .SCRIPT_SIZE := by
  simp [evalScript, evalScriptM, h, Id.run]
  rfl

/-- the empty script leaves the stack as it is, whatever its size -/
theorem C03_spec_evalScript_empty (chk : Bytes → Bytes → Bytes → SigVersion → Bool) (stack : List Bytes) (flags : Flags) (tx : TxCtx)
    (sv : SigVersion) : evalScript chk stack [] flags tx sv = .ok stack := by
  simp [evalScript, evalScriptM, evalLoop, MAX_SCRIPT_SIZE, Id.run]
  rfl

/-- `CScriptNum` round trip: decoding the serialisation of a number gives the number back (all integers, no size bound) -/
theorem C03_spec_scriptNum_roundtrip (v : Int) : scriptNumDecode (scriptNumEncode v) = v := scriptNum_roundtrip v

/-- `CScriptNum::serialize` always produces a minimal encoding (what `fRequireMinimal` accepts) -/
theorem C03_spec_scriptNumEncode_minimal (v : Int) : isMinimalNum (scriptNumEncode v) = true := scriptNumEncode_minimal v

/-- a serialised number that fits the size bound is read back by the `CScriptNum(vch, fRequireMinimal, nMaxNumSize)` constructor,
with or without the minimal-encoding requirement -/
theorem C03_spec_scriptNum_encode (v : Int) (requireMinimal : Bool) (maxSize : Nat) (h : (scriptNumEncode v).length ≤ maxSize) :
    scriptNum (scriptNumEncode v) requireMinimal maxSize = .ok v := by
  have h' : ¬ (scriptNumEncode v).length > maxSize := by omega
  simp [scriptNum, h', scriptNumEncode_minimal, scriptNum_roundtrip]

/-- SIGPUSHONLY is decided on the bytes of the scriptSig before anything runs -/
theorem C03_spec_verifyScript_sigpushonly (chk : Bytes → Bytes → Bytes → SigVersion → Bool) (scriptSig spk : Bytes) (wit : List Bytes) (flags : Flags) (tx : TxCtx)
    (h1 : flags.sigpushonly = true) (h2 : isPushOnly scriptSig = false) :
    verifyScript chk scriptSig spk wit flags tx = some .SIG_PUSHONLY := by
  simp [verifyScript, verifyScriptM, h1, h2, Id.run]
  rfl

/-- what `IsWitnessProgram` recognises: version 0..16, a program of 2..40 bytes, nothing else in the script -/
theorem C03_spec_witnessProgram_shape (s prog : Bytes) (v : Nat) (h : isWitnessProgram s = some (v, prog)) :
    s.length = prog.length + 2 ∧ v ≤ 16 ∧ 2 ≤ prog.length ∧ prog.length ≤ 40 := by
  unfold isWitnessProgram at h
  split at h
  · simp at h
  · next hlen =>
    match s, h with
    | a :: l :: p, h =>
      simp only at h
      split at h
      · simp at h
      · split at h
        · next hne hl =>
          simp only [Option.some.injEq, Prod.mk.injEq] at h
          obtain ⟨hv, hp⟩ := h
          subst hp
          simp only [List.length_cons, Bool.or_eq_true, decide_eq_true_eq, not_or, Nat.not_lt] at hlen
          have hv' : v ≤ 16 := by
            subst hv
            simp only [OP_0, OP_1, OP_16] at hne ⊢
            simp at hne
            by_cases h0 : a.toNat = 0
            · simp [h0]
            · simp [h0]; omega
          simp only [beq_iff_eq] at hl
          refine ⟨by simp only [List.length_cons], hv', by omega, by omega⟩
        · simp at h

/-- the flag sets Core's `VerifyScript` accepts: everything on, and nothing on -/
theorem C03_spec_flags_permitted_examples :
    (Flags.ofBits 0xffff).permitted = true ∧ (Flags.ofBits 0).permitted = true ∧ (Flags.ofBits 0x100).permitted = false := by
  decide

end Pycoin.Spec.Consensus

/-! ## the model of pycoin's VM refines this specification (`Props/C03M.lean`) -/
namespace Pycoin.VM
open Pycoin.Spec Pycoin.Spec.Consensus CondStack

/-- pycoin's `(true_count, false_count)` is `absC vfExec`, and `absC` is the abstraction of DESIGN §6:
lengths of the leading run of `true`s / of what follows, seen from the outermost conditional -/
theorem C03_model_condstack_abs (vf : List Bool) :
    absC vf = ⟨(vf.reverse.takeWhile id).length, (vf.reverse.dropWhile id).length⟩ := by
  first | exact C03M_condstack_abs .. | (apply C03M_condstack_abs <;> assumption)

/-- `all_if_true()` is Core's `fExec` -/
theorem C03_model_condstack_allIfTrue (vf : List Bool) : (absC vf).allIfTrue = vf.all id := by
  first | exact C03M_condstack_allIfTrue .. | (apply C03M_condstack_allIfTrue <;> assumption)

/-- one IF/NOTIF/ELSE/ENDIF: the abstraction commutes, and the error cases (ELSE/ENDIF on an empty stack) coincide -/
theorem C03_model_condstack_step (vf : List Bool) (op : CondOp) :
    pyStep (absC vf) op = (coreStep vf op).map absC := by
  first | exact C03M_condstack_step .. | (apply C03M_condstack_step <;> assumption)

/-- C03.condstack_refines: for **every** sequence of conditional operations, from the empty stack -/
theorem C03_model_condstack_refines (ops : List CondOp) :
    runPy {} ops = (runCore [] ops).map absC := by
  first | exact C03M_condstack_refines .. | (apply C03M_condstack_refines <;> assumption)

/-- `check_final_state` accepts exactly the empty `vfExec` -/
theorem C03_model_condstack_final (vf : List Bool) : (absC vf).checkFinalState = .ok () ↔ vf = [] := by
  first | exact C03M_condstack_final .. | (apply C03M_condstack_final <;> assumption)

/-- `int_from_script_bytes(s, False)` = `CScriptNum::set_vch` on inputs of any length -/
theorem C03_model_scriptnum_decode (s : Bytes) : intFromScriptBytes s false = .ok (scriptNumDecode s) := by
  first | exact C03M_scriptnum_decode .. | (apply C03M_scriptnum_decode <;> assumption)

/-- with `require_minimal` the code raises exactly when Core's minimal-encoding test fails -/
theorem C03_model_scriptnum_minimal (s : Bytes) :
    intFromScriptBytes s true =
      if isMinimalNum s then .ok (scriptNumDecode s) else .error (scriptErr Gen.VM.errno_UNKNOWN_ERROR) := by
  first | exact C03M_scriptnum_minimal .. | (apply C03M_scriptnum_minimal <;> assumption)

/-- where the code applies the 4-byte bound (`pop_check_bounds`: every arithmetic opcode except WITHIN, PICK, ROLL,
0NOTEQUAL and the CHECKMULTISIG counts), decoding is `CScriptNum(vch, fRequireMinimal, 4)` up to the error tag -/
theorem C03_model_scriptnum_bounded (s : Bytes) (m : Bool) (h : s.length ≤ 4) :
    (intFromScriptBytes s m).toOption = (scriptNum s m 4).toOption := by
  first | exact C03M_scriptnum_bounded .. | (apply C03M_scriptnum_bounded <;> assumption)

/-- `int_to_script_bytes` = `CScriptNum::serialize` -/
theorem C03_model_scriptnum_encode (v : Int) : intToScriptBytes v = scriptNumEncode v := by
  first | exact C03M_scriptnum_encode .. | (apply C03M_scriptnum_encode <;> assumption)

/-- `bool_from_script_bytes(v)` (the form every opcode but 0NOTEQUAL uses) = `CastToBool` -/
theorem C03_model_castToBool_eq (v : Bytes) : boolFromScriptBytes v false = .ok (castToBool v) := by
  first | exact C03M_castToBool_eq .. | (apply C03M_castToBool_eq <;> assumption)

/-- `bool_from_script_bytes(v, require_minimal=True)` never returns (it compares an `int` with `bytes`, §8 row 14).
No opcode calls it this way any more since the repair b80974d (`OP_0NOTEQUAL` used to fail on every operand under
MINIMALDATA). -/
theorem C03_model_boolMinimal_dead (v : Bytes) : ∃ e, boolFromScriptBytes v true = .error e := by
  first | exact C03M_boolMinimal_dead .. | (apply C03M_boolMinimal_dead <;> assumption)

/-- C03.getOp_refines: for every script, every `pc` inside it and both settings of `verify_minimal_data`, `get_opcode`
returns what `GetScriptOp` + `CheckMinimalPush` return (truncation ⇒ `is_ok = False`, whence BAD_OPCODE even in dead
branches; MINIMALDATA exactly when `CheckMinimalPush` fails; `OP_1NEGATE`/`OP_1..16` carry `CScriptNum(n).serialize()`).
Full since the repairs `fix: … length field is cut short` (bc1455a) and `fix: minimal-push check …` (fc90d57): before
them the statement was refuted by `4c` at the end of a script and by the 256-byte PUSHDATA2 (§8 row 29). -/
theorem C03_model_getOp_refines (script : Bytes) (pc : Nat) (vm : Bool) (hpc : pc < script.length) :
    GetOpRefines script pc vm := by
  first | exact C03M_getOp_refines .. | (apply C03M_getOp_refines <;> assumption)

section
variable (chk : Bytes → Bytes → Bytes → Bool → Bool) (cfg : Config)
/-- C03.step_eq, stack opcodes TOALTSTACK … TUCK (IFDUP: since the repair f08f560; PICK/ROLL: 4-byte operand since 09cb70c) -/
theorem C03_model_step_eq_stack : ∀ op ∈ [0x6b, 0x6c, 0x6d, 0x6e, 0x6f, 0x70, 0x71, 0x72, 0x73, 0x74, 0x75, 0x76, 0x77, 0x78, 0x79, 0x7a, 0x7b, 0x7c, 0x7d], HandlerAgrees chk cfg op := by
  first | exact C03M_step_eq_stack .. | (apply C03M_step_eq_stack <;> assumption)

/-- C03.step_eq, SIZE, EQUAL, EQUALVERIFY (the disabled splice/bitwise opcodes: `C03M_step_eq_disabled`) -/
theorem C03_model_step_eq_splice : ∀ op ∈ [0x82, 0x87, 0x88], HandlerAgrees chk cfg op := by
  first | exact C03M_step_eq_splice .. | (apply C03M_step_eq_splice <;> assumption)

/-- C03.step_eq, numeric opcodes 1ADD … WITHIN: 4-byte `CScriptNum` operands, minimal-encoding flag, results re-encoded (0NOTEQUAL: since b80974d; WITHIN: since 09cb70c) -/
theorem C03_model_step_eq_arith : ∀ op ∈ [0x8b, 0x8c, 0x8f, 0x90, 0x91, 0x92, 0x93, 0x94, 0x9a, 0x9b, 0x9c, 0x9d, 0x9e, 0x9f, 0xa0, 0xa1, 0xa2, 0xa3, 0xa4, 0xa5], HandlerAgrees chk cfg op := by
  first | exact C03M_step_eq_arith .. | (apply C03M_step_eq_arith <;> assumption)

/-- C03.step_eq, RIPEMD160, SHA1, SHA256, HASH160, HASH256 (hash functions shared with the specification) and CODESEPARATOR -/
theorem C03_model_step_eq_crypto : ∀ op ∈ [0xa6, 0xa7, 0xa8, 0xa9, 0xaa, 0xab], HandlerAgrees chk cfg op := by
  first | exact C03M_step_eq_crypto .. | (apply C03M_step_eq_crypto <;> assumption)

/-- C03.step_eq, CHECKLOCKTIMEVERIFY / CHECKSEQUENCEVERIFY for every transaction context and flag setting (operand left untouched since b47cae5) -/
theorem C03_model_step_eq_locktime : ∀ op ∈ [0xb1, 0xb2], HandlerAgrees chk cfg op := by
  first | exact C03M_step_eq_locktime .. | (apply C03M_step_eq_locktime <;> assumption)

/-- C03.step_eq, flow control: IF / NOTIF in executed **and** dead branches (`f` is Core's `fExec`), with the flag
pre-condition under which pycoin builds its VMs (MINIMALIF only in witness scripts) -/
theorem C03_model_step_eq_if (rev : Bool) (hw : hasFlag cfg.flags Gen.VM.VERIFY_MINIMALIF = true → cfg.witness = true) :
    ∃ h, Gen.VM.lookupList[if rev then 0x64 else 0x63]? = some (h, true) ∧
      ∀ (st : Consensus.State) (pc' : Nat),
        Agree pc' (runHandler (stdEnv chk) cfg h (absS st pc'))
          (Consensus.execOp (specEnv cfg) st (st.vfExec.all id) (if rev then 0x64 else 0x63) pc') := by
  first | exact C03M_step_eq_if .. | (apply C03M_step_eq_if <;> assumption)

/-- ELSE / ENDIF / VERIFY / RETURN / NOP -/
theorem C03_model_step_eq_flow : ∀ op ∈ [0x61, 0x67, 0x68, 0x69, 0x6a], HandlerAgrees chk cfg op := by
  first | exact C03M_step_eq_flow .. | (apply C03M_step_eq_flow <;> assumption)

/-- the upgradable NOPs (NOP1, NOP4 … NOP10) -/
theorem C03_model_step_eq_nops : ∀ op ∈ [0xb0, 0xb3, 0xb4, 0xb5, 0xb6, 0xb7, 0xb8, 0xb9], HandlerAgrees chk cfg op := by
  first | exact C03M_step_eq_nops .. | (apply C03M_step_eq_nops <;> assumption)

/-- reserved and undefined opcodes: the generated table holds a BAD_OPCODE-raising function exactly where Core's switch
falls through to `SCRIPT_ERR_BAD_OPCODE`: OP_RESERVED, OP_VER, OP_VERIF, OP_VERNOTIF, OP_RESERVED1/2, 0xba … 0xff -/
theorem C03_model_step_eq_bad (op : Nat)
    (hop : op = 0x50 ∨ op = 0x62 ∨ op = 0x65 ∨ op = 0x66 ∨ op = 0x89 ∨ op = 0x8a ∨ (0xba ≤ op ∧ op < 256)) :
    (∃ h oc, Gen.VM.lookupList[op]? = some (h, oc) ∧
      ∀ s, op ≠ 0x50 ∨ s.cond.allIfTrue = true → ∃ e, runHandler (stdEnv chk) cfg h s = .error e) ∧
    ∀ (st : Consensus.State) (pc' : Nat) (f : Bool), (Consensus.execOp (specEnv cfg) st f op pc').toOption = none := by
  first | exact C03M_step_eq_bad .. | (apply C03M_step_eq_bad <;> assumption)

/-- disabled opcodes: the table holds `make_bad_opcode(…, even_outside_conditional=True, err=DISABLED_OPCODE)` exactly
at the opcodes `EvalScript` rejects wherever they occur -/
theorem C03_model_step_eq_disabled : ∀ op, op < 256 →
    (Consensus.isDisabledOpcode op = true ↔
      Gen.VM.lookupList[op]? = some (.badOpcode Gen.VM.errno_DISABLED_OPCODE, true)) := by
  first | exact C03M_step_eq_disabled .. | (apply C03M_step_eq_disabled <;> assumption)

/-- the `outside_conditional` attribute is set exactly on the opcodes Core's loop looks at in dead branches:
`OP_IF … OP_ENDIF`, the disabled opcodes, and OP_RESERVED (whose handler then only un-counts itself) -/
theorem C03_model_outside_conditional : ∀ op, op < 256 →
    ((Gen.VM.lookupList[op]?).map (·.2) =
      some ((Consensus.OP_IF ≤ op && op ≤ Consensus.OP_ENDIF) || Consensus.isDisabledOpcode op || op == 0x50)) := by
  first | exact C03M_outside_conditional .. | (apply C03M_outside_conditional <;> assumption)

end
section
variable (chk : Bytes → Bytes → Bytes → Bool → Bool) (cfg : Config)
/-- C03.step_eq at the level of `VM.eval_instruction`: for **every** Core state `st`, every position `pc` inside the
script and every opcode outside the CHECKSIG family, one `eval_instruction` on the pycoin state representing `st`
(decode through the generated decoder table, push-size limit, op count incl. OP_RESERVED un-counting itself, dispatch
through the generated `INSTRUCTION_LOOKUP`, `outside_conditional`, op-count and stack-size limits) and one iteration of
Core's `EvalScript` loop (`GetScriptOp` + `stepM`) both fail or both succeed with corresponding states.
Extra hypotheses (hence `_partial`): the opcode is not CHECKSIG(VERIFY)/CHECKMULTISIG(VERIFY) (the model of those is
tied to the code by correspondence only), and MINIMALIF is only given to witness VMs (`check_solution` strips it
otherwise).  An undecodable instruction is an error on both sides. -/
theorem C03_model_step_eq_partial (st : Consensus.State) (pc : Nat) (hpc : pc < cfg.script.length)
    (hw : hasFlag cfg.flags Gen.VM.VERIFY_MINIMALIF = true → cfg.witness = true) :
    match getScriptOp (cfg.script.drop pc) with
    | none => (evalInstruction (stdEnv chk) cfg (absS st pc)).toOption = none
    | some (op, data, _, size) =>
      ¬ (0xac ≤ op ∧ op ≤ 0xaf) →
        Agree (pc + size) (evalInstruction (stdEnv chk) cfg (absS st pc)) (specStep chk cfg st op data (pc + size)) := by
  first | exact C03M_step_eq_partial .. | (apply C03M_step_eq_partial <;> assumption)

/-- C03.eval_eq: `VM(script, …, initial_stack).eval_script()` and Core's `EvalScript` give the same verdict and, on
success, the same final stack — script-size limit, op-count, stack-size, conditional balance at the end included;
by induction on the loop (`pc` strictly increases).  For all scripts of any length whose instructions are outside the
CHECKSIG family (`noSigOps`), all initial stacks, flags, transaction contexts and both signature versions. -/
theorem C03_model_eval_eq_partial (hw : hasFlag cfg.flags Gen.VM.VERIFY_MINIMALIF = true → cfg.witness = true)
    (hns : noSigOps cfg.script.length cfg.script = true) (stack : List Bytes) :
    (evalScript (stdEnv chk) cfg stack).toOption.map (·.stack) =
      (Consensus.evalScript (specChk chk) stack cfg.script (Flags.ofBits cfg.flags)
        ⟨cfg.ctx.version, cfg.ctx.lockTime, cfg.ctx.sequence⟩ (if cfg.witness then .witnessV0 else .base)).toOption := by
  first | exact C03M_eval_eq_partial .. | (apply C03M_eval_eq_partial <;> assumption)

end
/-- `check_valid_signature` is `IsValidSignatureEncoding` (BIP66 strict DER incl. the hash-type byte) on **every** byte string:
SIG_DER is raised exactly when Core's predicate is false -/
theorem C03_model_sigenc_der (sig : Bytes) :
    checkValidSignature sig = if isValidSignatureEncoding sig then .ok () else .error sigDer := by
  first | exact C03M_sigenc_der .. | (apply C03M_sigenc_der <;> assumption)

/-- `check_defined_hashtype_signature` is `IsDefinedHashtypeSignature` (non-empty signature: the only way it is called) -/
theorem C03_model_sigenc_hashtype (sig : Bytes) (h : sig ≠ []) :
    checkDefinedHashtypeSignature sig =
      if isDefinedHashtypeSignature sig then .ok () else .error (scriptErr Gen.VM.errno_SIG_HASHTYPE) := by
  first | exact C03M_sigenc_hashtype .. | (apply C03M_sigenc_hashtype <;> assumption)

/-- `check_public_key_encoding` (STRICTENC) is `IsCompressedOrUncompressedPubKey` -/
theorem C03_model_pubkey_encoding (blob : Bytes) :
    checkPublicKeyEncoding blob =
      if isCompressedOrUncompressedPubKey blob then .ok () else .error (scriptErr Gen.VM.errno_PUBKEYTYPE) := by
  first | exact C03M_pubkey_encoding .. | (apply C03M_pubkey_encoding <;> assumption)

/-- the WITNESS_PUBKEYTYPE test of `checksig` is `!IsCompressedPubKey` -/
theorem C03_model_pubkey_compressed (blob : Bytes) :
    (decide (blob.length ≠ 33) || !(decide (blob.head? = some 2) || decide (blob.head? = some 3))) = !isCompressedPubKey blob := by
  first | exact C03M_pubkey_compressed .. | (apply C03M_pubkey_compressed <;> assumption)

/-! ## the CHECKSIG family, every opcode, every script (twins of `C03M_*`) -/

section
variable (chk : Bytes → Bytes → Bytes → Bool → Bool) (cfg : Config)

/-- `der.sigdecode_der_lax` (index based port) = `ecdsa_signature_parse_der_lax` of the specification on **every** byte
string: same failures, same `(r, s)` — up to libsecp256k1 overwriting an out-of-range signature with `(0, 0)` -/
theorem C03_model_sigenc_lax (sig : Bytes) : laxDerParse sig = (sigdecodeDerLax sig).map normSig := by
  first | exact C03M_sigenc_lax .. | (apply C03M_sigenc_lax <;> assumption)

/-- every signature that passes `IsValidSignatureEncoding` is read by the lax parser (so LOW_S never meets an
unparseable signature) -/
theorem C03_model_sigenc_valid_parses (sig : Bytes) (hv : isValidSignatureEncoding sig = true) :
    ∃ r s, sigdecodeDerLax sig.dropLast = some (r, s) := by
  first | exact C03M_sigenc_valid_parses .. | (apply C03M_sigenc_valid_parses <;> assumption)

/-- `parse_and_check_signature_blob(sig, flags)` = `CheckSignatureEncoding(sig, flags)` for every byte string and flag
set: it raises exactly when Core rejects (DERSIG/LOW_S/STRICTENC ⇒ strict DER; LOW_S ⇒ low S on the lax-parsed pair;
STRICTENC ⇒ defined hash type), and otherwise yields a pair exactly when the blob is non-empty and lax-parsable -/
theorem C03_model_sigenc_blob (sig : Bytes) (n : Nat) :
    (∃ e, parseAndCheckSignatureBlob sig n = .error e ∧ (checkSignatureEncoding sig (Flags.ofBits n)).isSome = true) ∨
    (∃ p, parseAndCheckSignatureBlob sig n = .ok p ∧ checkSignatureEncoding sig (Flags.ofBits n) = none ∧
        (p == .parsed) = (!sig.isEmpty && (laxDerParse sig.dropLast).isSome)) := by
  first | exact C03M_sigenc_blob .. | (apply C03M_sigenc_blob <;> assumption)

/-- Core's `CheckSig` (`Spec/Secp256k1.checkSigWith`: key parse, empty signature, lax DER, ECDSA) has the early exits
`ChkWF` asks for, whatever the signature hash: the hypothesis of the theorems below is satisfied by the real thing -/
theorem C03_model_chk_wf_core (sighash : Bytes → Bool → Nat → Bytes) :
    ChkWF (fun sig pk code w => Spec.Secp256k1.checkSigWith (sighash code w) sig pk) := by
  first | exact C03M_chk_wf_core .. | (apply C03M_chk_wf_core <;> assumption)

/-- **checksigs_eq**: the two nested `while` loops of `checksigs` (pycoin pops signatures and keys from the end, parses
a signature once, tries it on keys while more keys than signatures remain) give the verdict of Core's
`while (fSuccess && nSigsCount > 0)` loop, for **all** signature and key lists with `#sigs ≤ #keys` (no bound of 20
needed), every flag set; both encodings are checked for every pair either side examines. Induction on the signature
list, inner induction on the key list. -/
theorem C03_model_checksigs_eq (hwp : hasFlag cfg.flags Gen.VM.VERIFY_WITNESS_PUBKEYTYPE = true → cfg.witness = true)
    (hchk : ChkWF chk) (code : Bytes) (sigs pubs : List Bytes) (h : sigs.length ≤ pubs.length) :
    (checksigsLoop (stdEnv chk) cfg (.ok code) sigs pubs).toOption = (specMulti chk cfg code sigs pubs).toOption := by
  first | exact C03M_checksigs_eq .. | (apply C03M_checksigs_eq <;> assumption)

/-- C03.step_eq, OP_CHECKSIG / OP_CHECKSIGVERIFY at handler level, for every Core state: stack depth, both encodings,
the check, NULLFAIL, the VERIFY suffix -/
theorem C03_model_step_eq_checksig (hwp : hasFlag cfg.flags Gen.VM.VERIFY_WITNESS_PUBKEYTYPE = true → cfg.witness = true)
    (hchk : ChkWF chk) : ∀ op ∈ [0xac, 0xad],
    ∃ h, Gen.VM.lookupList[op]? = some (h, false) ∧
      ∀ (st : Consensus.State) (pc' : Nat), (∀ sigs, (∀ x ∈ sigs, x ∈ st.stack) → DelAgrees cfg st sigs) →
        Agree pc' (runHandler (stdEnv chk) cfg h (absS st pc')) (specCheckSig chk cfg st op) := by
  first | exact C03M_step_eq_checksig .. | (apply C03M_step_eq_checksig <;> assumption)

/-- C03.step_eq, OP_CHECKMULTISIG / OP_CHECKMULTISIGVERIFY at handler level, for every Core state and all `m ≤ n ≤ 20`:
4-byte minimal counts and their ranges, stack depth, NULLDUMMY, the matching loops, NULLFAIL, the VERIFY suffix, and the
op-count contribution of the key count — Core adds it and tests the limit before looking at the keys, pycoin
(`vm.op_count += key_count` at the very end) only afterwards, so the comparison is made through `cntCheck`, the test
`eval_instruction` applies right after the handler -/
theorem C03_model_step_eq_checkmultisig (hwp : hasFlag cfg.flags Gen.VM.VERIFY_WITNESS_PUBKEYTYPE = true → cfg.witness = true)
    (hchk : ChkWF chk) : ∀ op ∈ [0xae, 0xaf],
    ∃ h, Gen.VM.lookupList[op]? = some (h, false) ∧
      ∀ (st : Consensus.State) (pc' : Nat), (∀ sigs, (∀ x ∈ sigs, x ∈ st.stack) → DelAgrees cfg st sigs) →
        ((runHandler (stdEnv chk) cfg h (absS st pc')).bind cntCheck).toOption =
          (specCheckMultiSig chk cfg st op).toOption.map (absS · pc') := by
  first | exact C03M_step_eq_checkmultisig .. | (apply C03M_step_eq_checkmultisig <;> assumption)

/-- C03.step_eq at the level of `VM.eval_instruction`, **all 256 opcode values**: for every Core state `st` and every
position `pc` inside the script, one `eval_instruction` on the pycoin state representing `st` and one iteration of
Core's `EvalScript` loop both fail or both succeed with corresponding states.  Hypotheses: MINIMALIF and
WITNESS_PUBKEYTYPE are only given to witness VMs (`check_solution` strips them otherwise: discharged in
`C03M_verify_eq`), `ChkWF chk`, and signature deletion agrees for the signatures on this stack (trivial for witness VMs). -/
theorem C03_model_step_eq (st : Consensus.State) (pc : Nat) (hpc : pc < cfg.script.length)
    (hw : hasFlag cfg.flags Gen.VM.VERIFY_MINIMALIF = true → cfg.witness = true)
    (hwp : hasFlag cfg.flags Gen.VM.VERIFY_WITNESS_PUBKEYTYPE = true → cfg.witness = true) (hchk : ChkWF chk)
    (hdel : ∀ sigs, (∀ x ∈ sigs, x ∈ st.stack) → DelAgrees cfg st sigs) :
    match getScriptOp (cfg.script.drop pc) with
    | none => (evalInstruction (stdEnv chk) cfg (absS st pc)).toOption = none
    | some (op, data, _, size) =>
        Agree (pc + size) (evalInstruction (stdEnv chk) cfg (absS st pc)) (specStep chk cfg st op data (pc + size)) := by
  first | exact C03M_step_eq .. | (apply C03M_step_eq <;> assumption)

/-- `C03M_step_eq` with the deletion hypothesis discharged: all it takes is that the stack items are within 520 bytes
(any script code: `C03M_sigdel_eq`) -/
theorem C03_model_step_eq_items (st : Consensus.State) (pc : Nat) (hpc : pc < cfg.script.length)
    (hw : hasFlag cfg.flags Gen.VM.VERIFY_MINIMALIF = true → cfg.witness = true)
    (hwp : hasFlag cfg.flags Gen.VM.VERIFY_WITNESS_PUBKEYTYPE = true → cfg.witness = true) (hchk : ChkWF chk)
    (hok : okL st.stack) :
    match getScriptOp (cfg.script.drop pc) with
    | none => (evalInstruction (stdEnv chk) cfg (absS st pc)).toOption = none
    | some (op, data, _, size) =>
        Agree (pc + size) (evalInstruction (stdEnv chk) cfg (absS st pc)) (specStep chk cfg st op data (pc + size)) := by
  first | exact C03M_step_eq_items .. | (apply C03M_step_eq_items <;> assumption)

/-- C03.eval_eq for arbitrary initial stacks, under the hypothesis that signature deletion is shared along the run
(`SigDelShared`; by `C03M_sigdel_eq` it holds whenever the initial items are within 520 bytes, which is `C03M_eval_eq`): same verdict, and on success the same final stack -/
theorem C03_model_eval_eq_shared (hw : hasFlag cfg.flags Gen.VM.VERIFY_MINIMALIF = true → cfg.witness = true)
    (hwp : hasFlag cfg.flags Gen.VM.VERIFY_WITNESS_PUBKEYTYPE = true → cfg.witness = true) (hchk : ChkWF chk)
    (stack : List Bytes) (hdel : SigDelShared chk cfg stack) :
    (evalScript (stdEnv chk) cfg stack).toOption.map (·.stack) =
      (Consensus.evalScript (specChk chk) stack cfg.script (Flags.ofBits cfg.flags)
        ⟨cfg.ctx.version, cfg.ctx.lockTime, cfg.ctx.sequence⟩ (if cfg.witness then .witnessV0 else .base)).toOption := by
  first | exact C03M_eval_eq_shared .. | (apply C03M_eval_eq_shared <;> assumption)

/-- **signature deletion agrees**: pycoin's `_delete_signature` (instruction walk dropping the instructions equal to the
canonical push of the signature and keeping an undecodable tail verbatim — since the repair a9b3b8d; signatures taken
bottom-most first) and Core's `FindAndDelete(scriptCode, CScript() << sig)` (top-most first) give the same script code for
**every** script code and every list of signatures of at most 520 bytes; and along Core's run of any script on items
within 520 bytes this is always so (items never exceed 520 bytes: `specStep_items`) -/
theorem C03_model_sigdel_eq :
    (∀ (st : Consensus.State) (sigs : List Bytes), (∀ s ∈ sigs, s.length ≤ 520) → DelAgrees cfg st sigs) ∧
    (∀ stack0, okL stack0 → SigDelShared chk cfg stack0) := by
  first | exact C03M_sigdel_eq .. | (apply C03M_sigdel_eq <;> assumption)

/-- a script with an undecodable instruction fails its evaluation on both sides (BAD_OPCODE at the latest when the loop
gets there, even in a dead branch), whatever happened before — no assumption on signature deletion -/
theorem C03_model_eval_unwalkable (hw : hasFlag cfg.flags Gen.VM.VERIFY_MINIMALIF = true → cfg.witness = true)
    (hnw : ¬ Walkable cfg.script) (stack : List Bytes) :
    (evalScript (stdEnv chk) cfg stack).toOption = none ∧
      (Consensus.evalScript (specChk chk) stack cfg.script (Flags.ofBits cfg.flags)
        ⟨cfg.ctx.version, cfg.ctx.lockTime, cfg.ctx.sequence⟩ (if cfg.witness then .witnessV0 else .base)).toOption = none := by
  first | exact C03M_eval_unwalkable .. | (apply C03M_eval_unwalkable <;> assumption)

/-- C03.eval_eq, **every script**: `VM(script, …, initial_stack).eval_script()` and Core's `EvalScript` give the same
verdict and, on success, the same final stack, for all scripts (decodable or not, CHECKSIG family included), all initial
stacks whose items are within `MAX_SCRIPT_ELEMENT_SIZE` (as every stack `check_solution` builds: `compile_push_data` of a
≥ 4 GiB signature raises `struct.error`, which Core has no counterpart for), all flag sets, transaction contexts and both
signature versions.  Remaining hypotheses: MINIMALIF / WITNESS_PUBKEYTYPE only in witness VMs (discharged in
`C03M_verify_eq`) and `ChkWF`. -/
theorem C03_model_eval_eq (hw : hasFlag cfg.flags Gen.VM.VERIFY_MINIMALIF = true → cfg.witness = true)
    (hwp : hasFlag cfg.flags Gen.VM.VERIFY_WITNESS_PUBKEYTYPE = true → cfg.witness = true) (hchk : ChkWF chk)
    (stack : List Bytes) (hok : okL stack) :
    (evalScript (stdEnv chk) cfg stack).toOption.map (·.stack) =
      (Consensus.evalScript (specChk chk) stack cfg.script (Flags.ofBits cfg.flags)
        ⟨cfg.ctx.version, cfg.ctx.lockTime, cfg.ctx.sequence⟩ (if cfg.witness then .witnessV0 else .base)).toOption := by
  first | exact C03M_eval_eq .. | (apply C03M_eval_eq <;> assumption)

/-- C03.eval_eq for witness (BIP143) VMs: no hypothesis beyond `ChkWF` — every witness script, every initial stack,
every flag set -/
theorem C03_model_eval_eq_witness (hchk : ChkWF chk) (hwit : cfg.witness = true) (stack : List Bytes) :
    (evalScript (stdEnv chk) cfg stack).toOption.map (·.stack) =
      (Consensus.evalScript (specChk chk) stack cfg.script (Flags.ofBits cfg.flags)
        ⟨cfg.ctx.version, cfg.ctx.lockTime, cfg.ctx.sequence⟩ .witnessV0).toOption := by
  first | exact C03M_eval_eq_witness .. | (apply C03M_eval_eq_witness <;> assumption)

end

/-! ## the whole spend check (twins of `C03M_verify_*`) -/

section
variable (chk : Bytes → Bytes → Bytes → Bool → Bool)

/-- `_check_script_push_only` (walks `get_opcode`, ignores decode failures; `data_opcodes` leaves OP_RESERVED out) and
`CScript::IsPushOnly` accept the same scripts among those `EvalScript` runs to the end — a script on which they differ
(truncated push, OP_RESERVED) fails its own evaluation, on both sides -/
theorem C03_model_verify_pushonly (cfg : Config) (stack : List Bytes) (st' : Consensus.State)
    (h : specLoop chk cfg cfg.script.length cfg.script 0 { stack := stack } = .ok st') :
    (checkScriptPushOnly cfg.script = .ok ()) ↔ isPushOnly cfg.script = true := by
  first | exact C03M_verify_pushonly .. | (apply C03M_verify_pushonly <;> assumption)

/-- `EvalScript` looks at the flags in `evalPart` only: stripping MINIMALIF / WITNESS_PUBKEYTYPE / P2SH from the flags of a
base-version VM, or adding CLEANSTACK to those of a witness VM, as `check_solution` does, changes no evaluation -/
theorem C03_model_verify_flags (sc : Bytes → Bytes → Bytes → SigVersion → Bool) (stack : List Bytes) (script : Bytes)
    (F G : Flags) (tx : Consensus.TxCtx) (sv : SigVersion) (h : evalPart sv F = evalPart sv G) :
    Consensus.evalScript sc stack script F tx sv = Consensus.evalScript sc stack script G tx sv := by
  first | exact C03M_verify_flags .. | (apply C03M_verify_flags <;> assumption)

/-- witness-program detection: `_witness_program_version` + `puzzle_script[2:]` = `CScript::IsWitnessProgram`;
`is_pay_to_script_hash` = `CScript::IsPayToScriptHash` -/
theorem C03_model_verify_detect (s : Bytes) :
    isWitnessProgram s = (witnessProgramVersion s).map (fun v => (v, s.drop 2)) ∧
      isPayToScriptHash s = Consensus.isPayToScriptHash s := by
  first | exact C03M_verify_detect .. | (apply C03M_verify_detect <;> assumption)

/-- the end of the pipeline, for the script `puzzle` to be tested (scriptPubKey, or redeem script when `isP2sh`):
`witness_program_tuple` (malleation rule on the scriptSig bytes, v0 20/32-byte rules, 520-byte item limit, P2WPKH script,
DISCOURAGE_UPGRADABLE_WITNESS_PROGRAM, WITNESS_UNEXPECTED), the witness VM, and the CLEANSTACK rule with the flags of the
last tuple = the rest of `VerifyScript` (`VerifyWitnessProgram`, `stack.resize(1)`, CLEANSTACK, WITNESS_UNEXPECTED) -/
theorem C03_model_verify_tail (hchk : ChkWF chk) (c : SolCtx) (puzzle : Bytes) (flags : Nat) (isP2sh : Bool) (lastFlags : Nat)
    (stackPy : List Bytes) (hcl : hasFlag lastFlags Gen.VM.VERIFY_CLEANSTACK = (Flags.ofBits flags).cleanstack) :
    (witnessTail (stdEnv chk) c puzzle flags isP2sh lastFlags stackPy).toOption.isSome =
      (specTail (specChk chk) c.solutionScript c.witnessPy (Flags.ofBits flags) (specTx c.tx) puzzle isP2sh stackPy.length).isNone := by
  first | exact C03M_verify_tail .. | (apply C03M_verify_tail <;> assumption)

/-- `C03M_verify_eq` from the agreement of its (up to) three base-version VMs with `EvalScript` (stage form) -/
theorem C03_model_verify_eq_stages (hchk : ChkWF chk) (c : SolCtx) (flags : Nat) (hag : VerifyAgree chk c flags) :
    (checkSolution (stdEnv chk) c flags).toOption.isSome =
      (verifyScript (specChk chk) c.solutionScript c.puzzleScript c.witnessPy (Flags.ofBits flags) (specTx c.tx)).isNone := by
  first | exact C03M_verify_eq_stages .. | (apply C03M_verify_eq_stages <;> assumption)

/-- **C03.verify_eq**: `BitcoinSolutionChecker.check_solution(tx_context, flags)` succeeds exactly when Core's
`VerifyScript(scriptSig, scriptPubKey, witness, flags)` does — for **every** scriptSig, scriptPubKey, witness stack, flag
set (no restriction to the combinations Core permits) and transaction context, with no hypothesis other than `ChkWF`:
SIGPUSHONLY, scriptSig evaluation, stack copy, scriptPubKey evaluation, truth test, P2SH detection / push-only rule /
redeem script, witness-program detection (native and P2SH-wrapped), malleation rules on the scriptSig bytes, v0 20/32-byte
rules, P2WPKH script, 520-byte items, upgradable versions / DISCOURAGE flag, CLEANSTACK, WITNESS_UNEXPECTED.  The
MINIMALIF / WITNESS_PUBKEYTYPE hypothesis of `C03M_eval_eq` is discharged from how `check_solution` builds its VMs, the
item-size hypothesis from the invariant of Core's run (`spec_eval_items`). -/
theorem C03_model_verify_eq (hchk : ChkWF chk) (c : SolCtx) (flags : Nat) :
    (checkSolution (stdEnv chk) c flags).toOption.isSome =
      (verifyScript (specChk chk) c.solutionScript c.puzzleScript c.witnessPy (Flags.ofBits flags) (specTx c.tx)).isNone := by
  first | exact C03M_verify_eq .. | (apply C03M_verify_eq <;> assumption)

end

end Pycoin.VM
