import Pycoin.Proofs.BIP32Basic
import Pycoin.Proofs.BIP32Cache
import Pycoin.Proofs.BIP32Family
import Pycoin.Proofs.BIP32Commute
import Pycoin.Proofs.ElectrumCommute
import Pycoin.Proofs.BIP32Secp
import Pycoin.Proofs.BIP32Text
import Pycoin.Proofs.BIP32Coords
import Pycoin.Proofs.BIP32Path
import Pycoin.Proofs.SubpathsSpec
import Pycoin.Proofs.BIP32Master
import Pycoin.Proofs.BIP32MasterComplete
/-!
C09 — Hierarchical key derivation follows BIP32 and commutes with going public.  Property theorems
(helper lemmas: `Proofs/BIP32*.lean`).
-/
namespace Pycoin.BIP32

/-! ## child metadata, refusal of hardened derivation from a public node -/

/-- **metadata.** Whenever `_subkey(i, is_hardened, as_private)` returns a child: `0 ≤ i < 2³¹`; the child has the
parent's class, depth + 1, the fingerprint **of the parent** (`hash160(parent.sec())[:4]`), child number `i` with
bit 31 set exactly when hardened; it is public when `as_private` is false and has a secret exactly when the parent
has one otherwise. -/
theorem C09_metadata (g : Gen) (fuel : Nat) (n child : Node) (i : Int) (hardened asPrivate : Bool)
    (h : subkeyRaw g fuel n i hardened asPrivate = .ok child) :
    0 ≤ i ∧ i < 2 ^ 31 ∧
    child.kind = n.kind ∧ child.depth = n.depth + 1 ∧
    (∃ sec, n.sec = .ok sec ∧ child.parentFingerprint = (Hash.hash160 sec).take 4) ∧
    (child.childIndex : Int) = (if hardened then i + 2 ^ 31 else i) ∧
    (asPrivate = false → child.secretExponent = none) ∧
    (asPrivate = true → child.secretExponent.isSome = n.secretExponent.isSome) := by
  obtain ⟨h0, h1, h2, h3, h4, h5, h6, h7, -⟩ := subkeyRaw_meta h
  refine ⟨h0, h1, h2, h3, ?_, h5, h6, h7⟩
  unfold Node.fingerprint at h4
  cases hs : n.sec with
  | error e => simp [hs] at h4
  | ok sec =>
    simp only [hs, Except.ok.injEq] at h4
    exact ⟨sec, rfl, h4.symm⟩

/-- **hardened_from_public_refused.** On a public-only node `_subkey(i, is_hardened=True, …)` raises
`PublicPrivateMismatchError` for every admissible index, whatever `as_private`, before any arithmetic
(`fp` is the node's fingerprint: `sec()` of a node built by the constructor never fails). -/
theorem C09_hardened_from_public_refused (g : Gen) (fuel : Nat) (n : Node) (i : Int) (asPrivate : Bool)
    (hpub : n.secretExponent = none) (h0 : 0 ≤ i) (h1 : i < 2 ^ 31) (fp : Bytes) (hfp : n.fingerprint = .ok fp) :
    subkeyRaw g fuel n i true asPrivate = .error .mismatch := by
  unfold subkeyRaw
  rw [if_neg (by omega), if_neg (by omega)]
  simp [hfp, subkeyChild, hpub]

/-- … and no child of a public-only node is ever hardened -/
theorem C09_public_children_not_hardened (g : Gen) (fuel : Nat) (n child : Node) (i : Int) (hardened asPrivate : Bool)
    (hpub : n.secretExponent = none) (h : subkeyRaw g fuel n i hardened asPrivate = .ok child) :
    hardened = false ∧ child.childIndex < 2 ^ 31 ∧ child.secretExponent = none := by
  obtain ⟨h0, h1, -, -, -, h5, h6, h7, h8⟩ := subkeyRaw_meta h
  have hh := h8 hpub
  subst hh
  simp only [Bool.false_eq_true, if_false] at h5
  refine ⟨rfl, by omega, ?_⟩
  cases asPrivate with
  | false => exact h6 rfl
  | true => have := h7 rfl; simp [hpub] at this; exact this

/-! ## CKDpriv / CKDpub are the BIP's, and commute with going public

`g : Gen` is a generator object with `[Good g.c]` (p prime, non-zero discriminant) and `S : Setting g` (built by the
constructor; `G` on the curve with reduced coordinates; `0 < n ≤ 2²⁵⁶`, `n • G = ∞`; `p ≤ 2²⁵⁶`).  The shipped
secp256k1 generator satisfies all of it for every blinding factor (`C09_setting_secp256k1`).  `mathCrypto g.c` reads
the BIP's `point`, `+`, `serP` over Mathlib's group `(W g.c).Point`; HMAC-SHA512 and HASH160 are function symbols. -/

section ckd
open Pycoin.Curve WeierstrassCurve
variable {g : Gen} [Good g.c]

/-- **ckd_matches_bip32 (CKDpriv).** For a constructed private key `(s, pp)` (`pp = s * generator`), any chain code
and every child number `j < 2³²` — hardened exactly when `j ≥ 2³¹`; data `0x00 ‖ ser256(s) ‖ ser32(j)` resp.
`serP(s•G) ‖ ser32(j)` with `ser32` big-endian — `subkey_secret_exponent_chain_code_pair` returns the BIP's
`(k_j, c_j) = ((I_L + s) mod n, I_R)` on its first iteration whenever the BIP declares the key valid
(`I_L < n`, `k_j ≠ 0`). -/
theorem C09_ckd_matches_bip32 (S : Setting g) {s j : Nat} {pp : Int × Int} (hs : s < g.c.n)
    (hpub : g.mul (s : Int) = .ok (some pp)) (cc : Bytes) (hj : j < 2 ^ 32) (fuel : Nat) (x : Spec.BIP32.XPrv)
    (hspec : Spec.BIP32.CKDpriv (mathCrypto g.c) ⟨s, cc⟩ j = .ok x) :
    subkeySecretExponentChainCodePair g (fuel + 1) s cc j (decide ((2 : Int) ^ 31 ≤ j)) pp = .ok ((x.k : Int), x.c) := by
  rw [ckdPriv_matches S hs hpub cc hj fuel, hspec]

/-- **the complementary branch** (`I_L ≥ n` or child `0`): the BIP declares the key invalid ("proceed with the next
value for i"); the code instead *retries* with data `0x01 ‖ I_R ‖ ser32(j)` — the rest of the loop, with the fuel
that is left.  On the public side nothing is retried: `subkey_public_pair_chain_code_pair` reduces `I_L` modulo `n`
(`C09_ckd_public_general`), so for such an `I_L` the two sides need not agree.  Reaching this branch takes an
HMAC-SHA512 output with `I_L ≥ n` (probability ≈ 2⁻¹²⁷): no input can be exhibited; it is a hypothesis of
`C09_ckd_commute`, not a finding. -/
theorem C09_ckd_retry_branch (S : Setting g) {s j : Nat} {pp : Int × Int} (hs : s < g.c.n)
    (hpub : g.mul (s : Int) = .ok (some pp)) (cc : Bytes) (hj : j < 2 ^ 32) (fuel : Nat)
    (hspec : Spec.BIP32.CKDpriv (mathCrypto g.c) ⟨s, cc⟩ j = .invalid) :
    subkeySecretExponentChainCodePair g (fuel + 1) s cc j (decide ((2 : Int) ^ 31 ≤ j)) pp =
      let data := if Spec.BIP32.isHardened j then (0 : UInt8) :: (Spec.BIP32.ser256 s ++ Spec.BIP32.ser32 j)
        else (mathCrypto g.c).serP ((mathCrypto g.c).point s) ++ Spec.BIP32.ser32 j
      ckdLoop g.c.n s cc (Spec.BIP32.ser32 j) fuel (1 :: ((Hash.hmacSha512 cc data).drop 32 ++ Spec.BIP32.ser32 j)) := by
  rw [ckdPriv_matches S hs hpub cc hj fuel, hspec]

open Classical in
/-- **ckd_matches_bip32 (CKDpub).** For a reduced on-curve public pair, any chain code and every non-hardened child
number `j < 2³¹`: when the BIP's CKDpub yields `(K_j, c_j)` (`I_L < n`, `K_j ≠ ∞`), `subkey_public_pair_chain_code_pair`
returns the reduced coordinates of `K_j = I_L • G + K` and `c_j = I_R`. -/
theorem C09_ckd_public_matches_bip32 (S : Setting g) {pp : Int × Int} (hon : containsXY g.c pp.1 pp.2 = true)
    (hred : Reduced g.c (some pp)) (cc : Bytes) {j : Nat} (hj : j < 2 ^ 31) {x : Spec.BIP32.XPub (W g.c).Point}
    (hspec : Spec.BIP32.CKDpub (mathCrypto g.c) ⟨toPoint g.c (some pp), cc⟩ j = .ok x) :
    ∃ q : Int × Int, subkeyPublicPairChainCodePair g pp cc j = .ok (q, x.c) ∧ containsXY g.c q.1 q.2 = true ∧
      Reduced g.c (some q) ∧ toPoint g.c (some q) = x.K :=
  ckdPub_matches S hon hred cc hj hspec

/-- `subkey_public_pair_chain_code_pair` for *every* `I_L`: it reduces `I_L` modulo `n`, never raises anything but
`DerivationError`, and raises that exactly when `(I_L mod n) • G + K` is the point at infinity. -/
theorem C09_ckd_public_general (S : Setting g) {pp : Int × Int} (hon : containsXY g.c pp.1 pp.2 = true)
    (hred : Reduced g.c (some pp)) (cc : Bytes) {j : Nat} (hj : j < 2 ^ 31) :
    let I := Hash.hmacSha512 cc ((mathCrypto g.c).serP (toPoint g.c (some pp)) ++ Spec.BIP32.ser32 j)
    ∃ R : Pt, OnCurve g.c R ∧ Reduced g.c R ∧
      toPoint g.c R = ((Spec.BIP32.parse256 (I.take 32) % g.c.n : Nat) : Int) • toPoint g.c (basis g.c) + toPoint g.c (some pp) ∧
      subkeyPublicPairChainCodePair g pp cc j =
        (match R with
         | none => .error .derivation
         | some q => .ok (q, I.drop 32)) :=
  ckdPub_general S hon hred cc hj

/-- **ckd_commute.** A constructed private node `n` with exponent `se`, a non-hardened index `i`, the BIP's CKDpriv
valid for it (`I_L < n`, child `≠ 0`), `child = n._subkey(i, False, True)`: then the public copy of `n` derives, for
either value of `as_private`, exactly `child` without its exponent — same public pair, same chain code, same depth,
fingerprint and child number.  Group algebra: `((I_L + se) mod n) • G = I_L • G + se • G` because `n • G = ∞`. -/
theorem C09_ckd_commute (S : Setting g) (n child : Node) (i : Int) (fuel fuel' : Nat) (asPrivate : Bool)
    (hv : n.Valid g) (se : Int) (hse : n.secretExponent = some se)
    (hfirst : ∃ x, Spec.BIP32.CKDpriv (mathCrypto g.c) ⟨se.toNat, n.chainCode⟩ i.toNat = .ok x)
    (hchild : subkeyRaw g (fuel + 1) n i false true = .ok child) :
    n.publicCopy g = .ok { n with secretExponent := none } ∧
    child.publicCopy g = .ok { child with secretExponent := none } ∧
    subkeyRaw g fuel' { n with secretExponent := none } i false asPrivate = .ok { child with secretExponent := none } := by
  refine ⟨publicCopy_of_valid hv, ?_, ckd_commute_node S n child i fuel fuel' asPrivate hv se hse hfirst hchild⟩
  have := ckd_commute_node S n child i fuel 0 false hv se hse hfirst hchild
  -- the child was returned by the constructor
  unfold subkeyRaw at hchild
  split at hchild
  · cases hchild
  · split at hchild
    · cases hchild
    · split at hchild
      · cases hchild
      · split at hchild
        · cases hchild
        · rename_i key hk
          simp only [if_true, Except.ok.injEq] at hchild
          subst hchild
          unfold subkeyChild at hk
          rw [hse] at hk
          simp only at hk
          split at hk
          · cases hk
          · exact publicCopy_of_valid (mkNode_valid hk)

/-- the shipped generator: the side conditions hold for every blinding factor the constructor may draw -/
theorem C09_setting_secp256k1 (bf : Int) :
    ∃ tbl m, Gen.new Pycoin.Gen.Curves.secp256k1 bf = .ok ⟨Pycoin.Gen.Curves.secp256k1, bf, tbl, m⟩ ∧
      Setting (⟨Pycoin.Gen.Curves.secp256k1, bf, tbl, m⟩ : Gen) := by
  obtain ⟨tbl, m, h⟩ := gen_new_secp256k1 bf
  exact ⟨tbl, m, h, setting_secp256k1 bf tbl m h⟩

/-- … and it is the generator of every network (`network.generator` has the parameters of the generated `secp256k1`) -/
theorem C09_networks_use_secp256k1 :
    Pycoin.Gen.Networks.generatorShared = true ∧
    Pycoin.Gen.Networks.genP = Pycoin.Gen.Curves.secp256k1.p ∧ (Pycoin.Gen.Networks.genA : Int) = Pycoin.Gen.Curves.secp256k1.a ∧
    (Pycoin.Gen.Networks.genB : Int) = Pycoin.Gen.Curves.secp256k1.b ∧ Pycoin.Gen.Networks.genOrder = Pycoin.Gen.Curves.secp256k1.n ∧
    (Pycoin.Gen.Networks.genGx : Int) = Pycoin.Gen.Curves.secp256k1.gx ∧ (Pycoin.Gen.Networks.genGy : Int) = Pycoin.Gen.Curves.secp256k1.gy :=
  networks_use_secp256k1

/-- `Generator.__mul__` of a constructed generator object is the blinded multiplication of the C02 model -/
theorem C09_generator_object (g : Gen) (h : g.WF) (e : Int) : g.mul e = Curve.mulG g.c g.bf e := Gen.mul_eq h e

end ckd

/-! ## Electrum -/

section electrum
open Pycoin.Curve Pycoin.Electrum
variable {g : Gen} [Good g.c]

/-- **electrum_commute.** For a constructed private Electrum wallet `w` (exponent `k`, public pair `k * generator`)
and every path text: if `w.subkey(path)` returns `w'`, then the public copy of `w` derives the public copy of `w'`
(`offset • G + k • G = ((k + offset) mod n) • G`); the master public key — hence the offset — is the same on both sides. -/
theorem C09_electrum_commute (S : Setting g) (w w' : Wallet) (k : Int) (hk : w.secretExponent = some k)
    (hvalid : keyInit g (.priv k) = .ok (some k, w.publicPair)) (path : List Char)
    (h : w.subkey g path = .ok w') :
    w.publicCopy g = .ok { w with secretExponent := none } ∧
    ({ w with secretExponent := none } : Wallet).masterPublicKey = w.masterPublicKey ∧
    ({ w with secretExponent := none } : Wallet).subkey g path = .ok { w' with secretExponent := none } := by
  refine ⟨?_, rfl, electrum_commute S w w' k hk hvalid path h⟩
  obtain ⟨-, -, -, -, hon⟩ := keyInit_priv_ok hvalid
  have hmp : ∀ q : Pt, mkWallet g (.publicPair q) =
      (match keyInit g (.pub q) with
       | .error e => .error e
       | .ok (se, pp) => .ok ⟨se, pp⟩) := fun _ => rfl
  unfold Wallet.publicCopy
  rw [hk]
  simp only [hmp, keyInit, hon, if_true]


/-- **electrum_one_arg.** The constructor accepts exactly one of its four arguments: with none or several it raises
`ValueError`, with one it is the single-argument constructor -/
theorem C09_electrum_one_arg (args : List Arg) (w : Wallet) (h : mkWalletArgs g args = .ok w) :
    ∃ a, args = [a] ∧ mkWallet g a = .ok w := by
  match args, h with
  | [a], h => exact ⟨a, rfl, h⟩

/-- **electrum_serialize_rt (private).** A wallet built from a master private key serialises to 32 bytes (the
exponent, big-endian) and `deserialize` of those bytes builds the same wallet (curve order below 2^256) -/
theorem C09_electrum_serialize_rt (k : Int) (w : Wallet) (hn : (g.c.n : Int) ≤ 2 ^ 256)
    (h : mkWallet g (.masterPrivateKey k) = .ok w) :
    w.serialize = .ok (beBytes k.toNat 32) ∧ Electrum.deserialize g (beBytes k.toNat 32) = .ok (some w) := by
  have hk : keyInit g (.priv k) = .ok (w.secretExponent, w.publicPair) := by
    unfold mkWallet at h
    cases hki : keyInit g (.priv k) with
    | error e => simp [hki] at h
    | ok r => simp only [hki] at h; cases h; rfl
  obtain ⟨hse, h1, h2, -, -⟩ := keyInit_priv_ok hk
  have h256 : k < 2 ^ 256 := by omega
  have hfrom : fromBytes32 (beBytes k.toNat 32) = k := by
    unfold fromBytes32
    rw [beNat_beBytes_of_lt (by
      have : (k.toNat : Int) < 2 ^ 256 := by rw [Int.toNat_of_nonneg (by omega)]; exact h256
      exact_mod_cast this)]
    exact Int.toNat_of_nonneg (by omega)
  constructor
  · unfold Wallet.serialize
    rw [hse]
    have : k ≠ 0 := by omega
    simp only [this, ne_eq, not_false_eq_true, if_true]
    exact toBytes32_ok (by omega) h256
  · unfold Electrum.deserialize
    simp only [beBytes_length, if_true, hfrom, h]

/-- **electrum_deserialize_lengths.** Blobs of any other length than 32 or 64 bytes are not a wallet (`None`), never an error -/
theorem C09_electrum_deserialize_lengths (blob : Bytes) (h32 : blob.length ≠ 32) (h64 : blob.length ≠ 64) :
    Electrum.deserialize g blob = .ok none := by
  simp [Electrum.deserialize, h32, h64]

end electrum

/-! ## serialisation and text form -/

section ser
open Pycoin.Curve WeierstrassCurve Pycoin.Addr
variable {g : Gen} [Good g.c]

/-- **serialize_rt (private form).** A constructed private node with depth ≤ 255 and child number < 2³² serialises
(`as_private=True` or `None`) to 74 bytes — with any 4 version bytes in front, exactly the BIP's 78-byte format
`version ‖ depth ‖ parent fingerprint ‖ ser32(child number) ‖ chain code ‖ 0x00 ‖ ser256(k)` — and `deserialize`
of those 78 bytes is the node itself: every field preserved. -/
theorem C09_serialize_rt (n : Node) (se : Int) (hv : n.Valid g) (hse : n.secretExponent = some se)
    (hd : n.depth ≤ 255) (hi : n.childIndex < 2 ^ 32) (hn : g.c.n ≤ 2 ^ 256) (ver : Bytes) (hver : ver.length = 4)
    (p : Option Bool) (hp : p = some true ∨ p = none) :
    ∃ blob, n.serialize p = .ok blob ∧ blob.length = 74 ∧ (ver ++ blob).length = 78 ∧
      ver ++ blob = Spec.BIP32.serialize (mathCrypto g.c) ver
        ⟨n.depth, n.parentFingerprint, n.childIndex, n.chainCode, .inl se.toNat⟩ ∧
      deserialize g n.kind (ver ++ blob) = .ok n := by
  obtain ⟨blob, h1, h2, h3, h4⟩ := serialize_rt_private g n se hv hse hd hi hn ver hver p hp
  refine ⟨blob, h1, h2, by simp [hver, h2], ?_, h4⟩
  rw [h3]
  simp [Spec.BIP32.serialize, Spec.BIP32.ser32, Spec.BIP32.ser256]

/-- **serialize_rt (public form)** of any constructed node whose public pair has `0 ≤ x < p`, `0 < y < p` (true of
every key `k • G`: `C09_public_pair_coords`): 74 bytes, the BIP's format with `serP(K)`, and `deserialize` gives the
node without its exponent — the compressed key is decompressed through `points_for_x` to the same pair. -/
theorem C09_serialize_rt_public (S : Setting g) (h4 : g.c.p % 4 = 3) (hbc : byteCount g.c.p = 32) (n : Node) (hv : n.Valid g)
    (hd : n.depth ≤ 255) (hi : n.childIndex < 2 ^ 32)
    (hx0 : 0 ≤ n.publicPair.1) (hx1 : n.publicPair.1 < g.c.p) (hy0 : 0 < n.publicPair.2) (hy1 : n.publicPair.2 < g.c.p)
    (ver : Bytes) (hver : ver.length = 4) :
    ∃ blob, n.serialize (some false) = .ok blob ∧ blob.length = 74 ∧
      ver ++ blob = Spec.BIP32.serialize (mathCrypto g.c) ver
        ⟨n.depth, n.parentFingerprint, n.childIndex, n.chainCode, .inr (toPoint g.c (some n.publicPair))⟩ ∧
      deserialize g n.kind (ver ++ blob) = .ok { n with secretExponent := none } := by
  have hx256 : n.publicPair.1 < 2 ^ 256 := by
    have : (g.c.p : Int) ≤ 2 ^ 256 := by exact_mod_cast S.hp256
    omega
  obtain ⟨blob, h1, h2, h3, h5⟩ := serialize_rt_public h4 hbc n hv hd hi hx0 hx256 hx1 hy0 hy1 ver hver
  refine ⟨blob, h1, h2, ?_, h5⟩
  have hon : containsXY g.c n.publicPair.1 n.publicPair.2 = true := by
    have hv' := hv
    unfold Node.Valid at hv'
    obtain ⟨-, -, -, -, -, -, -, hk⟩ := mkNode_ok hv'
    cases hse : n.secretExponent with
    | none => rw [hse] at hk; exact (keyInit_pub_ok hk).2.2
    | some se => rw [hse] at hk; exact (keyInit_priv_ok hk).2.2.2.2
  have hsec := publicPairToSec_eq g.c (x := n.publicPair.1) (y := n.publicPair.2) hon ⟨hx0, hx1, hy0.le, hy1⟩ S.hp256
  have hsec' : publicPairToSec n.publicPair =
      .ok ((if fmod n.publicPair.2 2 = 1 then 3 else 2) :: beBytes n.publicPair.1.toNat 32) := by
    unfold publicPairToSec; rw [toBytes32_ok hx0 hx256]
  rw [show (n.publicPair.1, n.publicPair.2) = n.publicPair from rfl] at hsec
  rw [hsec'] at hsec
  injection hsec with hsec
  rw [h3, hsec]
  simp [Spec.BIP32.serialize, Spec.BIP32.ser32, mathCrypto]

/-- the public pair of every constructed private key (`pp = s * generator`, odd order): `0 ≤ x < p`, `0 < y < p` -/
theorem C09_public_pair_coords (S : Setting g) (hodd : g.c.n % 2 = 1) {s : Nat} {pp : Int × Int}
    (hpub : g.mul (s : Int) = .ok (some pp)) : 0 ≤ pp.1 ∧ pp.1 < g.c.p ∧ 0 < pp.2 ∧ pp.2 < g.c.p :=
  pub_coords S hodd hpub

/-- the prefix table, whole: on EVERY network of `Gen/Networks` (the Groestlcoin family with its own checksum hash
included) and for each of bip32 / bip49 / bip84, either the network defines neither prefix, or `bipNN_as_string` prepends
exactly the prefixes `ParseAPI` tests for, both are 4 bytes long, and the closure writes its text under the checksum hash
the network's `parse_b58_hashed` accepts (`decide` over the table regenerated from the source on every run; the hash of
each closure and of the parser is found by probing).
That the private and the public prefix differ is not needed: `deserialize` tells the two by byte 45. -/
theorem C09_prefix_table : ∀ net ∈ Pycoin.Gen.Networks.all,
    prefixesOk net .bip32 = true ∧ prefixesOk net .bip49 = true ∧ prefixesOk net .bip84 = true :=
  prefix_table

/-- the three Groestlcoin networks are in the table, define all three prefix kinds, and use the Groestl checksum hash for
each (so the Groestl case of `C09_hwif_rt` is not vacuous) -/
theorem C09_prefix_table_groestl :
    ∀ sym ∈ ["GRS", "TGRS", "GRSRT"], ∃ net ∈ Pycoin.Gen.Networks.all, net.symbol = sym ∧ net.hashParse = .groestl ∧
      ∀ k ∈ [Kind.bip32, Kind.bip49, Kind.bip84], outHash net k = .groestl ∧ (parsePrefix net k true).isSome = true := by
  decide +kernel

/-- **hwif_rt.** EVERY network of the generated table (whatever its checksum hash) and every prefix kind it
defines — bip32, bip49, bip84; `a` is its private prefix —, every constructed private node of that class with
depth ≤ 255 and child number < 2³²:
* `hwif(as_private=True)` is a text that `network.parse.bipNN` maps back to the node, every field preserved;
* `hwif(as_private=False)` is a text that `network.parse.bipNN` maps to the node without its exponent
  (the private prefix is tried first; equally long, it either does not match or — were the two prefixes equal — the
  private attempt itself returns the public node, byte 45 deciding).
Uses the Base58Check round trip for the network's checksum hash (`Proofs/Base58Hash.lean`: C11's Base58 round trip; of
the hash only that it yields 32 bytes). -/
theorem C09_hwif_rt (S : Setting g) (hodd : g.c.n % 2 = 1) (h4 : g.c.p % 4 = 3) (hbc : byteCount g.c.p = 32)
    (net : Network) (hmem : net ∈ Pycoin.Gen.Networks.all)
    (n : Node) (se : Int) (hv : n.Valid g) (hse : n.secretExponent = some se)
    (hd : n.depth ≤ 255) (hi : n.childIndex < 2 ^ 32) {a : Bytes} (ha : parsePrefix net n.kind true = some a) :
    (∃ text, hwif net n true = .ok text ∧ parseBip g net n.kind text = .ok (some n)) ∧
    (∃ text, hwif net n false = .ok text ∧
      parseBip g net n.kind text = .ok (some { n with secretExponent := none })) := by
  have hok : prefixesOk net n.kind = true := by
    obtain ⟨t1, t2, t3⟩ := prefix_table net hmem
    cases hk : n.kind <;> assumption
  have hv' := hv
  unfold Node.Valid at hv'
  rw [hse] at hv'
  obtain ⟨-, -, -, -, -, -, -, hk⟩ := mkNode_ok hv'
  obtain ⟨-, s1, s2, hpub, -⟩ := keyInit_priv_ok hk
  obtain ⟨s, rfl⟩ := Int.eq_ofNat_of_zero_le (show (0 : Int) ≤ se by omega)
  obtain ⟨x0, x1, y0, y1⟩ := pub_coords S hodd hpub
  have hx256 : n.publicPair.1 < 2 ^ 256 := by
    have : (g.c.p : Int) ≤ 2 ^ 256 := by exact_mod_cast S.hp256
    omega
  exact ⟨hwif_rt_private net n s hv hse hd hi S.hn256 hok ha,
    hwif_rt_public h4 hbc net n hv hd hi x0 hx256 x1 y0 y1 hok ha⟩

/-- **hwif_rt for a public-only node** with coordinates as in `C09_public_pair_coords` -/
theorem C09_hwif_rt_public_node (S : Setting g) (h4 : g.c.p % 4 = 3) (hbc : byteCount g.c.p = 32)
    (net : Network) (hmem : net ∈ Pycoin.Gen.Networks.all)
    (n : Node) (hv : n.Valid g) (hpubn : n.secretExponent = none) (hd : n.depth ≤ 255) (hi : n.childIndex < 2 ^ 32)
    (hx0 : 0 ≤ n.publicPair.1) (hx1 : n.publicPair.1 < g.c.p) (hy0 : 0 < n.publicPair.2) (hy1 : n.publicPair.2 < g.c.p)
    {a : Bytes} (ha : parsePrefix net n.kind true = some a) :
    ∃ text, hwif net n false = .ok text ∧ parseBip g net n.kind text = .ok (some n) := by
  have hok : prefixesOk net n.kind = true := by
    obtain ⟨t1, t2, t3⟩ := prefix_table net hmem
    cases hk : n.kind <;> assumption
  have hx256 : n.publicPair.1 < 2 ^ 256 := by
    have : (g.c.p : Int) ≤ 2 ^ 256 := by exact_mod_cast S.hp256
    omega
  obtain ⟨text, t1, t2⟩ := hwif_rt_public h4 hbc net n hv hd hi hx0 hx256 hx1 hy0 hy1 hok ha
  refine ⟨text, t1, ?_⟩
  rw [t2]
  cases n
  simp_all

/-- the serialised depth is one byte: beyond 255 `serialize` raises `ValueError` (and so does `hwif`) -/
theorem C09_serialize_depth_limit (n : Node) (p : Option Bool) (hd : 255 < n.depth)
    (hm : ¬ (n.secretExponent.isNone ∧ p.getD n.secretExponent.isSome = true)) :
    n.serialize p = .error .value := by
  unfold Node.serialize
  simp only
  rw [if_neg hm, if_pos hd]

/-- the side conditions on the shipped curve: odd order, `p ≡ 3 (mod 4)`, 32-byte coordinates -/
theorem C09_secp256k1_side_conditions :
    Pycoin.Gen.Curves.secp256k1.n % 2 = 1 ∧ Pycoin.Gen.Curves.secp256k1.p % 4 = 3 ∧
      byteCount Pycoin.Gen.Curves.secp256k1.p = 32 := by
  decide +kernel


/-! ### the constructor's argument check, `override_network`, `children` -/

/-- **ctor_exactly_one.** `BIP32Node(...)` returns only when exactly one of `secret_exponent` and `public_pair` is
given, and is then the constructor on that argument -/
theorem C09_ctor_exactly_one (kind : Kind) (cc : Bytes) (depth : Nat) (fp : Bytes) (idx : Nat)
    (se : Option Int) (pp : Option Curve.Pt) (n : Node) (h : mkNodeArgs g kind cc depth fp idx se pp = .ok n) :
    (∃ k, se = some k ∧ pp = none ∧ mkNode g kind cc depth fp idx (.priv k) = .ok n) ∨
    (∃ q, se = none ∧ pp = some q ∧ mkNode g kind cc depth fp idx (.pub q) = .ok n) := by
  unfold mkNodeArgs at h
  split at h
  · rename_i k; exact Or.inl ⟨k, rfl, rfl, h⟩
  · rename_i q; exact Or.inr ⟨q, rfl, rfl, h⟩
  · cases h

theorem deserialize_kind (k k' : Kind) (data : Bytes) :
    deserialize g k data = (deserialize g k' data).map (fun n => { n with kind := k }) := by
  have hmk : ∀ cc d fp idx key, mkNode g k cc d fp idx key =
      (mkNode g k' cc d fp idx key).map (fun n => { n with kind := k }) := by
    intro cc d fp idx key
    unfold mkNode
    cases keyInit g key with
    | error e => rfl
    | ok r =>
      simp only
      split
      · rfl
      · split <;> rfl
  unfold deserialize
  split
  · rfl
  · split
    · split
      · exact hmk _ _ _ _ _
      · cases secToPublicPair g.c (data.drop 45) with
        | error e => rfl
        | ok pp => exact hmk _ _ _ _ _
    · rfl

/-- **override_network (private node).** Moving a constructed private node to another network keeps depth, parent
fingerprint, child number, chain code, exponent and public pair; the result is a plain BIP32 node there -/
theorem C09_override_network (n : Node) (se : Int) (hv : n.Valid g) (hse : n.secretExponent = some se)
    (hd : n.depth ≤ 255) (hi : n.childIndex < 2 ^ 32) (hn : g.c.n ≤ 2 ^ 256) :
    n.overrideNetwork g = .ok { n with kind := .bip32 } := by
  obtain ⟨blob, h1, -, -, -, h5⟩ := C09_serialize_rt n se hv hse hd hi hn [0, 0, 0, 0] rfl none (Or.inr rfl)
  unfold Node.overrideNetwork
  rw [h1]
  simp only
  rw [deserialize_kind .bip32 n.kind, h5]
  rfl

theorem mapMExcept_ok {α β : Type} (f : α → Except Err β) : ∀ (xs : List α) (ys : List β),
    mapMExcept f xs = .ok ys →
    ys.length = xs.length ∧ ∀ (j : Nat) (x : α), xs[j]? = some x → ∃ y, ys[j]? = some y ∧ f x = .ok y
  | [], ys, h => by
    simp only [mapMExcept] at h
    cases h
    exact ⟨rfl, by intro j x hx; simp at hx⟩
  | a :: as, ys, h => by
    unfold mapMExcept at h
    cases hfa : f a with
    | error e => simp [hfa] at h
    | ok b =>
      cases hr : mapMExcept f as with
      | error e => simp [hfa, hr] at h
      | ok bs =>
        simp only [hfa, hr] at h
        cases h
        obtain ⟨hl, hall⟩ := mapMExcept_ok f as bs hr
        refine ⟨by simp [hl], ?_⟩
        intro j x hx
        cases j with
        | zero => simp at hx; subst hx; exact ⟨b, by simp, hfa⟩
        | succ j => simpa using hall j x (by simpa using hx)

/-- **children.** `children(max_level, start_index, include_hardened)` yields, in order, `subkey(i)` and (when asked)
`subkey(i, is_hardened=True)` for `i = start_index … start_index + max_level`: nothing else, nothing twice -/
theorem C09_children (fuel : Nat) (n : Node) (m s : Nat) (hard : Bool) (l : List Node)
    (h : n.children g fuel m s hard = .ok l) :
    l.length = (m + 1) * (if hard then 2 else 1) ∧
    ∀ d, d ≤ m →
      (if hard then
        (∃ a b, l[2 * d]? = some a ∧ l[2 * d + 1]? = some b ∧ subkey0 g fuel n ((s + d : Nat) : Int) false none = .ok a ∧
          subkey0 g fuel n ((s + d : Nat) : Int) true none = .ok b)
       else ∃ a, l[d]? = some a ∧ subkey0 g fuel n ((s + d : Nat) : Int) false none = .ok a) := by
  unfold Node.children at h
  obtain ⟨hl, hall⟩ := mapMExcept_ok _ _ _ h
  have hcalls : ∀ (m : Nat), (childrenCalls m s hard).length = (m + 1) * (if hard then 2 else 1) ∧
      ∀ d, d ≤ m → (if hard then
          (childrenCalls m s hard)[2 * d]? = some (s + d, false) ∧ (childrenCalls m s hard)[2 * d + 1]? = some (s + d, true)
        else (childrenCalls m s hard)[d]? = some (s + d, false)) := by
    intro m
    cases hard with
    | false =>
      have : childrenCalls m s false = (List.range (m + 1)).map (fun d => (s + d, false)) := by
        simp [childrenCalls, List.flatMap, List.map]
        induction (List.range (m + 1)) with
        | nil => rfl
        | cons a as ih => simp [ih]
      rw [this]
      refine ⟨by simp, ?_⟩
      intro d hd
      simp only [Bool.false_eq_true, if_false]
      rw [List.getElem?_map, List.getElem?_range (by omega)]
      rfl
    | true =>
      have key : ∀ (r : List Nat), (r.flatMap fun d => [(s + d, false), (s + d, true)]).length = r.length * 2 ∧
          ∀ j x, r[j]? = some x →
            (r.flatMap fun d => [(s + d, false), (s + d, true)])[2 * j]? = some (s + x, false) ∧
            (r.flatMap fun d => [(s + d, false), (s + d, true)])[2 * j + 1]? = some (s + x, true) := by
        intro r
        induction r with
        | nil => exact ⟨rfl, by intro j x hx; simp at hx⟩
        | cons a as ih =>
          refine ⟨by simp [ih.1]; omega, ?_⟩
          intro j x hx
          cases j with
          | zero => simp at hx; subst hx; simp
          | succ j =>
            have := ih.2 j x (by simpa using hx)
            have e1 : 2 * (j + 1) = (2 * j) + 2 := by omega
            have e2 : 2 * (j + 1) + 1 = (2 * j + 1) + 2 := by omega
            simp only [List.flatMap_cons, e1, e2]
            simpa using this
      have hk := key (List.range (m + 1))
      simp only [childrenCalls, if_true]
      refine ⟨by simp [hk.1], ?_⟩
      intro d hd
      exact hk.2 d d (List.getElem?_range (by omega))
  obtain ⟨hc1, hc2⟩ := hcalls m
  refine ⟨by rw [hl, hc1], ?_⟩
  intro d hd
  have := hc2 d hd
  cases hard with
  | false =>
    simp only [Bool.false_eq_true, if_false] at this ⊢
    obtain ⟨y, hy1, hy2⟩ := hall d _ this
    exact ⟨y, hy1, hy2⟩
  | true =>
    simp only [if_true] at this ⊢
    obtain ⟨a, ha1, ha2⟩ := hall _ _ this.1
    obtain ⟨b, hb1, hb2⟩ := hall _ _ this.2
    exact ⟨a, b, ha1, hb1, ha2, hb2⟩

end ser

/-! ## paths -/

/-- **path_fold.** For a path `e₁/e₂/…/e_k` (elements without `/`, each of the form `int-literal` optionally followed
by `'`, `p` or `H`, parsed to `steps`) that does not end in `.pub`: `subkey_for_path` is the left fold of
`subkey(i, is_hardened)` over the steps, starting at the node. -/
theorem C09_path_fold (g : Gen) (fuel : Nat) (n : Node) (vs : List (List Char)) (hne : vs ≠ [])
    (hsep : ∀ v ∈ vs, '/' ∉ v) (steps : List (Int × Bool)) (hparse : mapMExcept parseStep vs = .ok steps)
    (hnopub : (Subpaths.join '/' vs).drop ((Subpaths.join '/' vs).length - 4) ≠ ".pub".toList) :
    subkeyForPath g fuel n (Subpaths.join '/' vs) = foldSteps g fuel n steps :=
  subkeyForPath_plain n vs hne hsep steps hparse hnopub

/-- … and with the `.pub` suffix it is the same fold followed by `public_copy()` when the result is private -/
theorem C09_path_fold_pub (g : Gen) (fuel : Nat) (n : Node) (vs : List (List Char)) (hne : vs ≠ [])
    (hsep : ∀ v ∈ vs, '/' ∉ v) (steps : List (Int × Bool)) (hparse : mapMExcept parseStep vs = .ok steps) :
    subkeyForPath g fuel n (Subpaths.join '/' vs ++ ".pub".toList) =
      (match foldSteps g fuel n steps with
       | .error e => .error e
       | .ok key => if key.secretExponent.isSome then key.publicCopy g else .ok key) :=
  subkeyForPath_pub n vs hne hsep steps hparse

/-- the empty path is the node itself; `".pub"` alone is its public copy -/
theorem C09_path_empty (g : Gen) (fuel : Nat) (n : Node) :
    subkeyForPath g fuel n [] = .ok n ∧
    subkeyForPath g fuel n ".pub".toList = (if n.secretExponent.isSome then n.publicCopy g else .ok n) := by
  constructor
  · rfl
  · unfold subkeyForPath
    simp

/-- **path spellings.** Replacing the hardening mark of any elements by another of `'`, `p`, `H` changes nothing:
the loop of `subkey_for_path` gives the same answer (same node or same exception) on the respelled elements. -/
theorem C09_path_spelling (g : Gen) (fuel : Nat) (c : Char) (hc : c = 'H' ∨ c = 'p' ∨ c = '\'')
    (vs : List (List Char)) (key : Node) :
    pathLoop g fuel key (vs.map (respell c)) = pathLoop g fuel key vs :=
  pathLoop_respell c (by rcases hc with rfl | rfl | rfl <;> decide) vs key

/-- one element: `i'`, `ip`, `iH` parse to the same `(i, hardened)`; an element without mark is not hardened -/
theorem C09_path_element (digits : List Char) :
    parseStep (digits ++ ['H']) = parseStep (digits ++ ['p']) ∧ parseStep (digits ++ ['p']) = parseStep (digits ++ ['\'']) ∧
    parseStep (digits ++ ['H']) = (match Subpaths.pyInt digits with | none => .error .value | some i => .ok (i, true)) := by
  refine ⟨?_, ?_, ?_⟩ <;> simp [parseStep_snoc, Subpaths.hardeningChars] <;> rfl

/-! ## path ranges -/

section subpaths
open Pycoin.Subpaths

/-- **subpaths_spec.** A path range written as components (joined by `/`) of elements (joined by `,`), each element
either a plain text or a range `a-b` of decimal numbers, optionally followed by one of `'`, `p`, `H` (`Elem`,
`Elem.text`, well-formedness `Elem.WF`): `list(subpaths_for_path_range(text))` is the `itertools.product` of the
components' expansions, each tuple joined by `/`, where a plain element expands to itself, `a-b` to the decimal texts
of `a, a+1, …, b` in order (nothing when `b < a`), and any hardening mark to `H`. -/
theorem C09_subpaths_spec (comps : List (List Elem)) (hne : comps ≠ []) (hne' : ∀ es ∈ comps, es ≠ [])
    (hwf : ∀ es ∈ comps, ∀ e ∈ es, e.WF) :
    subpathsForPathRange (join '/' (comps.map compText)) =
      .ok ((product (comps.map fun es => es.flatMap Elem.expand)).map (join '/')) :=
  subpaths_spec comps hne hne' hwf

/-- `itertools.product` is the cartesian product: a tuple is listed iff it picks one element of each pool, in order;
the number of tuples is the product of the pool sizes -/
theorem C09_subpaths_product_mem {α} (pools : List (List α)) (l : List α) :
    (l ∈ product pools ↔ Chooses l pools) ∧
    (product pools).length = (pools.map List.length).foldr (· * ·) 1 :=
  ⟨mem_product pools l, length_product pools⟩

/-- … **in order**: the tuple at position `i·m + j` (`m` = number of tuples of the remaining pools) is the `i`-th
element of the first pool followed by the `j`-th tuple of the rest — the last component varies fastest -/
theorem C09_subpaths_product_order {α} (xs : List α) (rest : List (List α)) (i j : Nat) (hi : i < xs.length)
    (hj : j < (product rest).length) :
    (product (xs :: rest))[i * (product rest).length + j]? =
      (match xs[i]?, (product rest)[j]? with
       | some x, some t => some (x :: t)
       | _, _ => none) :=
  product_order xs rest i j hi hj

/-- the empty range is the empty path; `int("%d" % n) = n` (what makes `a-b` mean the numbers `a … b`) -/
theorem C09_subpaths_basics (n : Nat) :
    subpathsForPathRange [] = .ok [[]] ∧ pyInt (showInt (n : Int)) = some (n : Int) :=
  ⟨rfl, pyInt_showInt n⟩

example : subpathsForPathRange "5-6/7-8p,15/1-2".toList =
    .ok (["5/7H/1", "5/7H/2", "5/8H/1", "5/8H/2", "5/15/1", "5/15/2", "6/7H/1", "6/7H/2", "6/8H/1", "6/8H/2", "6/15/1",
      "6/15/2"].map String.toList) := by decide

end subpaths

/-! ## the sub-key cache is transparent -/

/-- **cache_transparent.** For every sequence of `subkey(i, is_hardened, as_private)` calls on one node object — any
indices, any order, repetitions, calls that raise — starting from the empty cache the constructor installs, the list
of answers is the list of uncached derivations. -/
theorem C09_cache_transparent (g : Gen) (fuel : Nat) (n : Node) (calls : List (Int × Bool × Option Bool)) :
    subkeyRun g fuel n [] calls = calls.map fun q => subkey0 g fuel n q.1 q.2.1 q.2.2 :=
  subkeyRun_eq calls [] (fun _ _ h => by cases h)

/-- the same from any cache state reachable by earlier calls (the invariant: every entry is `_subkey` of its key) -/
theorem C09_cache_transparent_from (g : Gen) (fuel : Nat) (n : Node) (c : Cache) (hc : c.Sound g fuel n)
    (calls : List (Int × Bool × Option Bool)) :
    subkeyRun g fuel n c calls = calls.map fun q => subkey0 g fuel n q.1 q.2.1 q.2.2 :=
  subkeyRun_eq calls c hc

/-- the invariant is kept by every call, and a call answers with the uncached derivation -/
theorem C09_cache_invariant (g : Gen) (fuel : Nat) (n : Node) (c : Cache) (hc : c.Sound g fuel n)
    (i : Int) (hardened : Bool) (asPrivate : Option Bool) :
    (subkey g fuel n c i hardened asPrivate).1 = subkey0 g fuel n i hardened asPrivate ∧
      (subkey g fuel n c i hardened asPrivate).2.Sound g fuel n :=
  subkey_sound hc i hardened asPrivate

/-- **cache_transparent along paths.** For every sequence of `subkey_for_path` calls on one root object — whose
descendants each keep their own cache — the answers are those of the uncached fold. -/
theorem C09_cache_transparent_paths (g : Gen) (fuel : Nat) (root : Node) (paths : List (List Char)) :
    pathRun g fuel root [] paths = paths.map (subkeyForPath g fuel root) :=
  pathRun_eq paths [] (fun _ _ h => by cases h)

/-! ## a family of objects derived from one root: one cache per object -/

/-- **cache_transparent_family.** A history over the family of objects derived from one root — each step is
`public_copy()`, `subkey(i, is_hardened, as_private)` or `subkey_for_path(text)` on *any object created so far* (the
root, a public copy, a child handed out by an earlier step: children are shared objects that keep their own cache;
`public_copy()` builds a fresh object with an empty cache) — gives, step by step, the answers of the same history run
without any cache, where every step derives afresh from the node value of the object it names. -/
theorem C09_cache_transparent_family (g : Gen) (fuel : Nat) (root : Node) (steps : List FStep) :
    famRun g fuel (Fam.root root) steps = famRun0 g fuel [some root] steps :=
  famRun_eq steps (Fam.root root) [some root]
    (by
      intro pid n c h k j hm
      cases pid with
      | zero => simp [Fam.root] at h; obtain ⟨_, rfl⟩ := h; cases hm
      | succ q => simp [Fam.root] at h)
    ⟨⟨[], rfl⟩, trivial⟩

/-- … and in the cache-free semantics a public-only object never yields a secret exponent or a hardened child:
its public copy, every `subkey` answer and every `subkey_for_path` answer are public-only, and a `subkey` call that
succeeds was not hardened.  With `C09_cache_transparent_family`: no object whose lineage passed through
`public_copy()` ever exposes a secret, whatever was memoised before on any other object. -/
theorem C09_family_public_stays_public (g : Gen) (fuel : Nat) (n : Node) (hn : n.secretExponent = none) :
    (∀ m, n.publicCopy g = .ok m → m.secretExponent = none) ∧
    (∀ i hardened p m, subkey0 g fuel n i hardened p = .ok m → m.secretExponent = none ∧ hardened = false) ∧
    (∀ path m, subkeyForPath g fuel n path = .ok m → m.secretExponent = none) := by
  refine ⟨?_, fun i hd p m h => subkey0_public hn h, fun path m h => subkeyForPath_public hn h⟩
  intro m h
  rw [publicCopy_ok h]

/-! ## the shipped generator, instantiated -/

section shipped
open Pycoin.Curve Pycoin.Gen.Curves Pycoin.Addr

/-- **the shipped generator, instantiated.** Every generator object `Generator.__init__` can build over secp256k1 (any
blinding factor): commutation of public and private derivation … -/
theorem C09_ckd_commute_secp256k1 (bf : Int) (tbl : List Pt) (m : Pt)
    (hg : Gen.new secp256k1 bf = .ok ⟨secp256k1, bf, tbl, m⟩)
    (n child : Node) (i : Int) (fuel fuel' : Nat) (asPrivate : Bool)
    (hv : n.Valid ⟨secp256k1, bf, tbl, m⟩) (se : Int) (hse : n.secretExponent = some se)
    (hfirst : ∃ x, Spec.BIP32.CKDpriv (mathCrypto secp256k1) ⟨se.toNat, n.chainCode⟩ i.toNat = .ok x)
    (hchild : subkeyRaw ⟨secp256k1, bf, tbl, m⟩ (fuel + 1) n i false true = .ok child) :
    subkeyRaw ⟨secp256k1, bf, tbl, m⟩ fuel' { n with secretExponent := none } i false asPrivate =
      .ok { child with secretExponent := none } :=
  (C09_ckd_commute (g := ⟨secp256k1, bf, tbl, m⟩) (setting_secp256k1 bf tbl m hg) n child i fuel fuel' asPrivate hv se hse
    hfirst hchild).2.2

/-- … and the text round trip on every network of the table, for every prefix kind it defines -/
theorem C09_hwif_rt_secp256k1 (bf : Int) (tbl : List Pt) (m : Pt)
    (hg : Gen.new secp256k1 bf = .ok ⟨secp256k1, bf, tbl, m⟩)
    (net : Network) (hmem : net ∈ Pycoin.Gen.Networks.all)
    (n : Node) (se : Int) (hv : n.Valid ⟨secp256k1, bf, tbl, m⟩) (hse : n.secretExponent = some se)
    (hd : n.depth ≤ 255) (hi : n.childIndex < 2 ^ 32) {a : Bytes} (ha : parsePrefix net n.kind true = some a) :
    (∃ text, hwif net n true = .ok text ∧ parseBip ⟨secp256k1, bf, tbl, m⟩ net n.kind text = .ok (some n)) ∧
    (∃ text, hwif net n false = .ok text ∧
      parseBip ⟨secp256k1, bf, tbl, m⟩ net n.kind text = .ok (some { n with secretExponent := none })) :=
  C09_hwif_rt (g := ⟨secp256k1, bf, tbl, m⟩) (setting_secp256k1 bf tbl m hg) C09_secp256k1_side_conditions.1
    C09_secp256k1_side_conditions.2.1 C09_secp256k1_side_conditions.2.2 net hmem n se hv hse hd hi ha

end shipped

/-! ## master key generation; the invalid case of CKD, counted -/

section master
open Pycoin.Curve WeierstrassCurve
variable {g : Gen} [Good g.c]

/-- **master_from_seed.** Whatever `BIP32Node.from_master_secret(seed)` (= `network.keys.bip32_seed`, for the BIP32, BIP49
and BIP84 classes alike) returns is the BIP's master key generation for that seed, of any length:
`I = HMAC-SHA512(Key = "Bitcoin seed", Data = seed)`, master secret key `parse256(I_L)`, master chain code `I_R`, depth 0,
parent fingerprint `0x00000000`, child number 0 (`Spec.BIP32.masterKey`), public pair `k • G`.  In particular where the BIP
declares the master key invalid (`parse256(I_L) = 0` or `≥ n`) no node is returned (the code raises; the differential op
`bip32_master` and C18's `C18_seed_refuses` over the parser model show the exception is `InvalidSecretExponentError`,
which `parse.bip32_seed` turns into `None`). -/
theorem C09_master_from_seed (kind : Kind) (seed : Bytes) :
    (∀ n, fromMasterSecret g kind seed = .ok n →
      ∃ x, Spec.BIP32.master (mathCrypto g.c) seed = some x ∧ n.kind = kind ∧ n.secretExponent = some (x.k : Int) ∧
        n.chainCode = x.c ∧ n.depth = 0 ∧ n.parentFingerprint = [0, 0, 0, 0] ∧ n.childIndex = 0 ∧
        g.mul (x.k : Int) = .ok (some n.publicPair) ∧ 1 ≤ x.k ∧ x.k < g.c.n) ∧
    (Spec.BIP32.master (mathCrypto g.c) seed = none → ∀ n, fromMasterSecret g kind seed ≠ .ok n) := by
  refine ⟨fun n h => master_sound kind seed n h, fun hnone n h => ?_⟩
  obtain ⟨x, hx, -⟩ := master_sound kind seed n h
  rw [hnone] at hx; cases hx

/-- **master_from_seed, the converse.**  For every seed (of any length) and each node class: where the BIP's master key
generation is valid — `I = HMAC-SHA512(Key = "Bitcoin seed", Data = seed)`, `1 ≤ parse256(I_L) < n`, i.e.
`Spec.BIP32.master` returns a key `x` — `BIP32Node.from_master_secret(seed)` does return a node (no exception), and that
node is the BIP's master: secret key `x.k`, chain code `x.c`, depth 0, parent fingerprint `0x00000000`, child number 0,
public pair `x.k • G`; it is what its own constructor returns on its fields (`Node.Valid`).  Needs the order `n` prime
(so that `k • G ≠ ∞` for `1 ≤ k < n`: `Key.__init__` refuses `(None, None)`) besides the `Setting`; both are proved for
the shipped generator (`C09_master_from_seed_complete_secp256k1`). -/
theorem C09_master_from_seed_complete (S : Setting g) (hnp : Nat.Prime g.c.n) (kind : Kind) (seed : Bytes)
    (x : Spec.BIP32.XPrv) (hx : Spec.BIP32.master (mathCrypto g.c) seed = some x) :
    ∃ n, fromMasterSecret g kind seed = .ok n ∧ n.kind = kind ∧ n.secretExponent = some (x.k : Int) ∧
      n.chainCode = x.c ∧ n.depth = 0 ∧ n.parentFingerprint = [0, 0, 0, 0] ∧ n.childIndex = 0 ∧
      g.mul (x.k : Int) = .ok (some n.publicPair) ∧ n.Valid g := by
  obtain ⟨n, hn⟩ := master_complete S hnp kind seed x hx
  obtain ⟨x', hx', a1, a2, a3, a4, a5, a6, a7, -, -⟩ := master_sound kind seed n hn
  rw [hx] at hx'
  injection hx' with hx'
  subst hx'
  refine ⟨n, hn, a1, a2, a3, a4, a5, a6, a7, ?_⟩
  unfold fromMasterSecret at hn
  exact mkNode_valid hn

/-- … so the code returns a node exactly where the BIP's master key is valid -/
theorem C09_master_from_seed_iff (S : Setting g) (hnp : Nat.Prime g.c.n) (kind : Kind) (seed : Bytes) :
    (∃ n, fromMasterSecret g kind seed = .ok n) ↔ (Spec.BIP32.master (mathCrypto g.c) seed).isSome = true := by
  constructor
  · rintro ⟨n, hn⟩
    obtain ⟨x, hx, -⟩ := (C09_master_from_seed kind seed).1 n hn
    rw [hx]; rfl
  · intro h
    obtain ⟨x, hx⟩ := Option.isSome_iff_exists.mp h
    obtain ⟨n, hn, -⟩ := C09_master_from_seed_complete S hnp kind seed x hx
    exact ⟨n, hn⟩

/-- the validity test of master key generation reads only the order `n` and HMAC-SHA512 of the `Crypto` it is given (so it
can be evaluated: `Demo.hashCrypto` below) -/
theorem C09_master_reads_n_and_hmac {P Q : Type} (C : Spec.BIP32.Crypto P) (D : Spec.BIP32.Crypto Q) (hn : C.n = D.n)
    (hh : C.hmacSha512 = D.hmacSha512) (seed : Bytes) : Spec.BIP32.master C seed = Spec.BIP32.master D seed :=
  master_congr C D hn hh seed

end master

/-- the converse of master key generation on every generator object `Generator.__init__` can build over secp256k1 (any
blinding factor), hypothesis-free apart from "the object was constructed": `n` prime is `prime_n_secp256k1` (Pratt
certificate), `n • G = ∞` and the rest of the `Setting` are `setting_secp256k1` -/
theorem C09_master_from_seed_complete_secp256k1 (bf : Int) (tbl : List Pycoin.Curve.Pt) (m : Pycoin.Curve.Pt)
    (hg : Gen.new Pycoin.Gen.Curves.secp256k1 bf = .ok ⟨Pycoin.Gen.Curves.secp256k1, bf, tbl, m⟩)
    (kind : Kind) (seed : Bytes) (x : Spec.BIP32.XPrv)
    (hx : Spec.BIP32.master (mathCrypto Pycoin.Gen.Curves.secp256k1) seed = some x) :
    ∃ n, fromMasterSecret ⟨Pycoin.Gen.Curves.secp256k1, bf, tbl, m⟩ kind seed = .ok n ∧ n.kind = kind ∧
      n.secretExponent = some (x.k : Int) ∧ n.chainCode = x.c ∧ n.depth = 0 ∧ n.parentFingerprint = [0, 0, 0, 0] ∧
      n.childIndex = 0 ∧
      Gen.mul ⟨Pycoin.Gen.Curves.secp256k1, bf, tbl, m⟩ (x.k : Int) = .ok (some n.publicPair) ∧
      n.Valid ⟨Pycoin.Gen.Curves.secp256k1, bf, tbl, m⟩ :=
  C09_master_from_seed_complete (g := ⟨Pycoin.Gen.Curves.secp256k1, bf, tbl, m⟩) (setting_secp256k1 bf tbl m hg)
    Pycoin.Gen.Curves.prime_n_secp256k1 kind seed x hx

/-- **the retry branch, counted** (consequence (b) of `C09_ckd_retry_branch`).  Among the 2²⁵⁶ possible left halves `I_L` of
an HMAC-SHA512 output, those for which CKD's first test `parse256(I_L) ≥ n` fires are exactly the images under `ser256` of the
numbers `n ≤ v < 2²⁵⁶` — `ser256` is injective there, so there are exactly `2²⁵⁶ − n` of them.  For secp256k1
`2²⁵⁶ − n < 2¹²⁹`, i.e. a fraction below `2⁻¹²⁷` of all `I_L`: under the ASSUMPTION that HMAC-SHA512 outputs are uniformly
distributed (a property of the hash, not provable here) the retry branch — the only place where the code deviates from the
BIP's "proceed with the next value for i", and where private and public derivation may disagree — is taken with probability
below `2⁻¹²⁷` per derivation (the other trigger, child key 0, is one value of `I_L` in 2²⁵⁶ per parent key). -/
theorem C09_ckd_invalid_count (n : Nat) :
    (∀ IL : Bytes, IL.length = 32 →
      (n ≤ Spec.BIP32.parse256 IL ↔ ∃ v, n ≤ v ∧ v < 2 ^ 256 ∧ IL = Spec.BIP32.ser256 v)) ∧
    (∀ a b, a < 2 ^ 256 → b < 2 ^ 256 → Spec.BIP32.ser256 a = Spec.BIP32.ser256 b → a = b) ∧
    (List.range' n (2 ^ 256 - n)).length = 2 ^ 256 - n ∧
    (∀ v, v ∈ List.range' n (2 ^ 256 - n) ↔ n ≤ v ∧ v < n + (2 ^ 256 - n)) :=
  ⟨fun IL hl => invalid_IL_iff n IL hl, fun _ _ ha hb h => ser256_injective ha hb h,
    List.length_range', fun v => by simp [List.mem_range'_1]⟩

/-- on secp256k1: fewer than 2¹²⁹ of the 2²⁵⁶ values of `I_L` are invalid — a fraction below 2⁻¹²⁷ -/
theorem C09_ckd_invalid_count_secp256k1 :
    2 ^ 256 - Pycoin.Gen.Curves.secp256k1.n < 2 ^ 129 ∧ (2 ^ 256 - Pycoin.Gen.Curves.secp256k1.n) * 2 ^ 127 < 2 ^ 256 := by
  decide +kernel


/-! ## non-vacuity: the hypotheses of the implications above hold on concrete inputs

`#guard`s are evaluations (tests), not theorems.  BIP32 test vector 1 (seed `000102…0f`) over the shipped curve, blinding
factor 0: the generator constructs; the master node is `Valid`; for index 1 the first loop iteration succeeds
(fuel 1 is enough: `I_L < n`, child `≠ 0` — the hypothesis of `C09_ckd_commute`); public and private derivation
commute; a hardened child of the public copy is refused; the text form is the vector's and parses back. -/
namespace Demo
open Pycoin.Electrum

def seed1 : Bytes := [0x00, 0x01, 0x02, 0x03, 0x04, 0x05, 0x06, 0x07, 0x08, 0x09, 0x0a, 0x0b, 0x0c, 0x0d, 0x0e, 0x0f]

def withMaster (f : Gen → Node → Bool) : Bool :=
  match Gen.new Pycoin.Gen.Curves.secp256k1 0 with
  | .error _ => false
  | .ok g =>
    match fromMasterSecret g .bip32 seed1 with
    | .error _ => false
    | .ok m => f g m

def isOk {ε α} : Except ε α → Bool
  | .ok _ => true
  | .error _ => false

-- the master node is what its constructor returns on its own fields (`Node.Valid`), private, depth 0
#guard withMaster fun g m =>
  m.secretExponent.isSome && m.depth == 0 &&
  (match m.secretExponent with
   | some se => mkNode g m.kind m.chainCode m.depth m.parentFingerprint m.childIndex (.priv se) == .ok m
   | none => false)

-- first iteration succeeds (fuel 1), hardened and not, at the 2^24 boundary; commutation with going public
#guard withMaster fun g m =>
  match subkeyRaw g 1 m 16777216 false true, subkeyRaw g 1 m 16777216 true true, m.publicCopy g with
  | .ok child, .ok hchild, .ok mpub =>
    child.childIndex == 16777216 && hchild.childIndex == 16777216 + 2 ^ 31 && child.depth == 1 &&
    subkeyRaw g 1 mpub 16777216 false false == child.publicCopy g &&
    subkeyRaw g 1 mpub 16777216 true false == .error .mismatch
  | _, _, _ => false

-- text form: BIP32 test vector 1, chain m; round trip on BTC
#guard withMaster fun g m =>
  match hwif Pycoin.Gen.Networks.net_btc m true, hwif Pycoin.Gen.Networks.net_btc m false with
  | .ok prv, .ok pub =>
    prv == "xprv9s21ZrQH143K3QTDL4LXw2F7HEK3wJUD2nW2nRk4stbPy6cq3jPPqjiChkVvvNKmPGJxWUtg6LnF5kejMRNNU3TGtRBeJgk33yuGBxrMPHi".toUTF8.toList &&
    pub == "xpub661MyMwAqRbcFtXgS5sYJABqqG9YLmC4Q1Rdap9gSE8NqtwybGhePY2gZ29ESFjqJoCu1Rupje8YtGqsefD265TMg7usUDFdp6W1EGMcet8".toUTF8.toList &&
    parseBip g Pycoin.Gen.Networks.net_btc .bip32 prv == .ok (some m) &&
    parseBip g Pycoin.Gen.Networks.net_btc .bip32 pub == (m.publicCopy g).map some
  | _, _ => false

-- the same node on Groestlcoin mainnet (same 4-byte versions as BTC, the other checksum hash): round trip there, and
-- each network refuses the other's text
#guard withMaster fun g m =>
  match hwif Pycoin.Gen.Networks.net_grs m true, hwif Pycoin.Gen.Networks.net_grs m false, hwif Pycoin.Gen.Networks.net_btc m true with
  | .ok prv, .ok pub, .ok btcPrv =>
    parseBip g Pycoin.Gen.Networks.net_grs .bip32 prv == .ok (some m) &&
    parseBip g Pycoin.Gen.Networks.net_grs .bip32 pub == (m.publicCopy g).map some &&
    parseBip g Pycoin.Gen.Networks.net_btc .bip32 prv == .ok none &&
    parseBip g Pycoin.Gen.Networks.net_grs .bip32 btcPrv == .ok none && prv != btcPrv
  | _, _, _ => false

-- a call history on one node: answers equal the uncached ones
#guard withMaster fun g m =>
  let calls : List (Int × Bool × Option Bool) := [(0, false, some false), (0, false, some true), (0, false, none), (0, true, some false), (0, false, some false)]
  subkeyRun g 1 m [] calls == calls.map fun q => subkey0 g 1 m q.1 q.2.1 q.2.2

-- Electrum: a private wallet, its subkey, and the public copy's subkey
#guard
  match Gen.new Pycoin.Gen.Curves.secp256k1 0 with
  | .error _ => false
  | .ok g =>
    match mkWallet g (.masterPrivateKey 12345) with
    | .error _ => false
    | .ok w =>
      match w.subkey g "7/1".toList, w.publicCopy g with
      | .ok w', .ok wp => wp.subkey g "7/1".toList == w'.publicCopy g && w'.secretExponent.isSome
      | _, _ => false

-- the hypothesis of `C09_master_from_seed_complete` holds on test vector 1's seed: the BIP's master key generation is valid
-- (`master` evaluated over a `Crypto` with the same `n` and HMAC-SHA512 as `mathCrypto secp256k1`, the only fields it reads:
-- `C09_master_reads_n_and_hmac`), and the node the code returns has that key, for each of the three classes
def hashCrypto : Spec.BIP32.Crypto Unit :=
  ⟨Pycoin.Gen.Curves.secp256k1.n, fun _ => (), fun _ _ => (), (), fun _ => [], Hash.hmacSha512, Hash.hash160⟩

example (seed : Bytes) : Spec.BIP32.master (mathCrypto Pycoin.Gen.Curves.secp256k1) seed = Spec.BIP32.master hashCrypto seed :=
  C09_master_reads_n_and_hmac _ _ rfl rfl seed

#guard
  match Spec.BIP32.master hashCrypto seed1, Gen.new Pycoin.Gen.Curves.secp256k1 0 with
  | some x, .ok g =>
    1 ≤ x.k && x.k < Pycoin.Gen.Curves.secp256k1.n && x.c.length == 32 &&
    [Kind.bip32, Kind.bip49, Kind.bip84].all fun kind =>
      match fromMasterSecret g kind seed1 with
      | .ok n => n.kind == kind && n.secretExponent == some (x.k : Int) && n.chainCode == x.c && n.depth == 0 &&
          n.parentFingerprint == [0, 0, 0, 0] && n.childIndex == 0
      | .error _ => false
  | _, _ => false

end Demo

/-- **path elements in any Unicode digit block.**  Python's `int()` — through which `subkey_for_path` and
`subpaths_for_path_range` read every path element — accepts the ten digits of each of the 67 non-ASCII decimal-digit blocks of
Unicode (Arabic-Indic, Devanagari, full-width, mathematical …; `Subpaths.uniZeros`, compared with the interpreter on every run).
For every such block and every digit string: the model of `int()` reads the numeral written in that block exactly as it reads
the ASCII spelling (same value, same refusal of the empty numeral) — so such a spelling names the same child index, and
`C09_path_spelling` / `C09_path_element` extend to it.  Table facts: every block digit has its value, is not an ASCII digit and is
not white space (`decide +kernel` over the 670 characters). -/
theorem C09_path_unicode_digits (z : Nat) (hz : z ∈ Pycoin.Subpaths.uniZeros) (ds : List Nat) (h : ∀ d ∈ ds, d < 10) :
    Pycoin.Subpaths.digitsVal (ds.map fun d => Char.ofNat (z + d)) false 0 =
      Pycoin.Subpaths.digitsVal (ds.map fun d => Char.ofNat (48 + d)) false 0 ∧
    (∀ d < 10, Pycoin.Subpaths.pyDigit (Char.ofNat (z + d)) = some d ∧
      Pycoin.Subpaths.isPySpace (Char.ofNat (z + d)) = false) :=
  ⟨Pycoin.Subpaths.digitsVal_uni_block z hz ds h false 0,
   fun d hd => ⟨(Pycoin.Subpaths.uniDigit_table z hz d hd).2.2.1, (Pycoin.Subpaths.uniDigit_table z hz d hd).2.2.2⟩⟩

/-- non-vacuity: Arabic-Indic "٤٢" is read as 42; superscript two and the zero-width space are refused -/
example : Pycoin.Subpaths.pyInt "٤٢".toList = some 42 ∧ Pycoin.Subpaths.pyInt "\u00a0４_２\u3000".toList = some 42 ∧
    Pycoin.Subpaths.pyInt "²".toList = none ∧ Pycoin.Subpaths.pyInt "1\u200b".toList = none ∧ 1632 ∈ Pycoin.Subpaths.uniZeros := by
  decide +kernel

end Pycoin.BIP32
