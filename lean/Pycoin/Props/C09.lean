import Pycoin.Proofs.BIP32Basic
import Pycoin.Proofs.BIP32Cache
import Pycoin.Proofs.BIP32Commute
import Pycoin.Proofs.ElectrumCommute
import Pycoin.Proofs.BIP32Secp
/-!
C09 — Hierarchical key derivation follows BIP32 and commutes with going public.  Property theorems
(helper lemmas: `Proofs/BIP32*.lean`).
-/
namespace Pycoin.BIP32

/-! ## child metadata, refusal of hardened derivation from a public node -/

/-- **metadata.** Whenever `_subkey(i, is_hardened, as_private)` returns a child: `0 ≤ i < 2³¹`; the child has the
parent's class, depth + 1, the fingerprint **of the parent** (`hash160(parent.sec())[:4]`), child number `i` with
bit 31 set exactly when hardened; it is public when `as_private` is false and has a secret exactly when the parent
has one otherwise. -/
theorem C09_metadata (g : Gen) (fuel : Nat) (n child : Node) (i : Int) (hardened asPrivate : Bool)
    (h : subkeyRaw g fuel n i hardened asPrivate = .ok child) :
    0 ≤ i ∧ i < 2 ^ 31 ∧
    child.kind = n.kind ∧ child.depth = n.depth + 1 ∧
    (∃ sec, n.sec = .ok sec ∧ child.parentFingerprint = (Hash.hash160 sec).take 4) ∧
    (child.childIndex : Int) = (if hardened then i + 2 ^ 31 else i) ∧
    (asPrivate = false → child.secretExponent = none) ∧
    (asPrivate = true → child.secretExponent.isSome = n.secretExponent.isSome) := by
  obtain ⟨h0, h1, h2, h3, h4, h5, h6, h7, -⟩ := subkeyRaw_meta h
  refine ⟨h0, h1, h2, h3, ?_, h5, h6, h7⟩
  unfold Node.fingerprint at h4
  cases hs : n.sec with
  | error e => simp [hs] at h4
  | ok sec =>
    simp only [hs, Except.ok.injEq] at h4
    exact ⟨sec, rfl, h4.symm⟩

/-- **hardened_from_public_refused.** On a public-only node `_subkey(i, is_hardened=True, …)` raises
`PublicPrivateMismatchError` for every admissible index, whatever `as_private`, before any arithmetic
(`fp` is the node's fingerprint: `sec()` of a node built by the constructor never fails). -/
theorem C09_hardened_from_public_refused (g : Gen) (fuel : Nat) (n : Node) (i : Int) (asPrivate : Bool)
    (hpub : n.secretExponent = none) (h0 : 0 ≤ i) (h1 : i < 2 ^ 31) (fp : Bytes) (hfp : n.fingerprint = .ok fp) :
    subkeyRaw g fuel n i true asPrivate = .error .mismatch := by
  unfold subkeyRaw
  rw [if_neg (by omega), if_neg (by omega)]
  simp [hfp, subkeyChild, hpub]

/-- … and no child of a public-only node is ever hardened -/
theorem C09_public_children_not_hardened (g : Gen) (fuel : Nat) (n child : Node) (i : Int) (hardened asPrivate : Bool)
    (hpub : n.secretExponent = none) (h : subkeyRaw g fuel n i hardened asPrivate = .ok child) :
    hardened = false ∧ child.childIndex < 2 ^ 31 ∧ child.secretExponent = none := by
  obtain ⟨h0, h1, -, -, -, h5, h6, h7, h8⟩ := subkeyRaw_meta h
  have hh := h8 hpub
  subst hh
  simp only [Bool.false_eq_true, if_false] at h5
  refine ⟨rfl, by omega, ?_⟩
  cases asPrivate with
  | false => exact h6 rfl
  | true => have := h7 rfl; simp [hpub] at this; exact this

/-! ## CKDpriv / CKDpub are the BIP's, and commute with going public

`g : Gen` is a generator object with `[Good g.c]` (p prime, non-zero discriminant) and `S : Setting g` (built by the
constructor; `G` on the curve with reduced coordinates; `0 < n ≤ 2²⁵⁶`, `n • G = ∞`; `p ≤ 2²⁵⁶`).  The shipped
secp256k1 generator satisfies all of it for every blinding factor (`C09_setting_secp256k1`).  `mathCrypto g.c` reads
the BIP's `point`, `+`, `serP` over Mathlib's group `(W g.c).Point`; HMAC-SHA512 and HASH160 are function symbols. -/

section ckd
open Pycoin.Curve WeierstrassCurve
variable {g : Gen} [Good g.c]

/-- **ckd_matches_bip32 (CKDpriv).** For a constructed private key `(s, pp)` (`pp = s * generator`), any chain code
and every child number `j < 2³²` — hardened exactly when `j ≥ 2³¹`; data `0x00 ‖ ser256(s) ‖ ser32(j)` resp.
`serP(s•G) ‖ ser32(j)` with `ser32` big-endian — `subkey_secret_exponent_chain_code_pair` returns the BIP's
`(k_j, c_j) = ((I_L + s) mod n, I_R)` on its first iteration whenever the BIP declares the key valid
(`I_L < n`, `k_j ≠ 0`). -/
theorem C09_ckd_matches_bip32 (S : Setting g) {s j : Nat} {pp : Int × Int} (hs : s < g.c.n)
    (hpub : g.mul (s : Int) = .ok (some pp)) (cc : Bytes) (hj : j < 2 ^ 32) (fuel : Nat) (x : Spec.BIP32.XPrv)
    (hspec : Spec.BIP32.CKDpriv (mathCrypto g.c) ⟨s, cc⟩ j = .ok x) :
    subkeySecretExponentChainCodePair g (fuel + 1) s cc j (decide ((2 : Int) ^ 31 ≤ j)) pp = .ok ((x.k : Int), x.c) := by
  rw [ckdPriv_matches S hs hpub cc hj fuel, hspec]

/-- **the complementary branch** (`I_L ≥ n` or child `0`): the BIP declares the key invalid ("proceed with the next
value for i"); the code instead *retries* with data `0x01 ‖ I_R ‖ ser32(j)` — the rest of the loop, with the fuel
that is left.  On the public side nothing is retried: `subkey_public_pair_chain_code_pair` reduces `I_L` modulo `n`
(`C09_ckd_public_general`), so for such an `I_L` the two sides need not agree.  Reaching this branch takes an
HMAC-SHA512 output with `I_L ≥ n` (probability ≈ 2⁻¹²⁷): no input can be exhibited; it is a hypothesis of
`C09_ckd_commute`, not a finding. -/
theorem C09_ckd_retry_branch (S : Setting g) {s j : Nat} {pp : Int × Int} (hs : s < g.c.n)
    (hpub : g.mul (s : Int) = .ok (some pp)) (cc : Bytes) (hj : j < 2 ^ 32) (fuel : Nat)
    (hspec : Spec.BIP32.CKDpriv (mathCrypto g.c) ⟨s, cc⟩ j = .invalid) :
    subkeySecretExponentChainCodePair g (fuel + 1) s cc j (decide ((2 : Int) ^ 31 ≤ j)) pp =
      let data := if Spec.BIP32.isHardened j then (0 : UInt8) :: (Spec.BIP32.ser256 s ++ Spec.BIP32.ser32 j)
        else (mathCrypto g.c).serP ((mathCrypto g.c).point s) ++ Spec.BIP32.ser32 j
      ckdLoop g.c.n s cc (Spec.BIP32.ser32 j) fuel (1 :: ((Hash.hmacSha512 cc data).drop 32 ++ Spec.BIP32.ser32 j)) := by
  rw [ckdPriv_matches S hs hpub cc hj fuel, hspec]

open Classical in
/-- **ckd_matches_bip32 (CKDpub).** For a reduced on-curve public pair, any chain code and every non-hardened child
number `j < 2³¹`: when the BIP's CKDpub yields `(K_j, c_j)` (`I_L < n`, `K_j ≠ ∞`), `subkey_public_pair_chain_code_pair`
returns the reduced coordinates of `K_j = I_L • G + K` and `c_j = I_R`. -/
theorem C09_ckd_public_matches_bip32 (S : Setting g) {pp : Int × Int} (hon : containsXY g.c pp.1 pp.2 = true)
    (hred : Reduced g.c (some pp)) (cc : Bytes) {j : Nat} (hj : j < 2 ^ 31) {x : Spec.BIP32.XPub (W g.c).Point}
    (hspec : Spec.BIP32.CKDpub (mathCrypto g.c) ⟨toPoint g.c (some pp), cc⟩ j = .ok x) :
    ∃ q : Int × Int, subkeyPublicPairChainCodePair g pp cc j = .ok (q, x.c) ∧ containsXY g.c q.1 q.2 = true ∧
      Reduced g.c (some q) ∧ toPoint g.c (some q) = x.K :=
  ckdPub_matches S hon hred cc hj hspec

/-- `subkey_public_pair_chain_code_pair` for *every* `I_L`: it reduces `I_L` modulo `n`, never raises anything but
`DerivationError`, and raises that exactly when `(I_L mod n) • G + K` is the point at infinity. -/
theorem C09_ckd_public_general (S : Setting g) {pp : Int × Int} (hon : containsXY g.c pp.1 pp.2 = true)
    (hred : Reduced g.c (some pp)) (cc : Bytes) {j : Nat} (hj : j < 2 ^ 31) :
    let I := Hash.hmacSha512 cc ((mathCrypto g.c).serP (toPoint g.c (some pp)) ++ Spec.BIP32.ser32 j)
    ∃ R : Pt, OnCurve g.c R ∧ Reduced g.c R ∧
      toPoint g.c R = ((Spec.BIP32.parse256 (I.take 32) % g.c.n : Nat) : Int) • toPoint g.c (basis g.c) + toPoint g.c (some pp) ∧
      subkeyPublicPairChainCodePair g pp cc j =
        (match R with
         | none => .error .derivation
         | some q => .ok (q, I.drop 32)) :=
  ckdPub_general S hon hred cc hj

/-- **ckd_commute.** A constructed private node `n` with exponent `se`, a non-hardened index `i`, the BIP's CKDpriv
valid for it (`I_L < n`, child `≠ 0`), `child = n._subkey(i, False, True)`: then the public copy of `n` derives, for
either value of `as_private`, exactly `child` without its exponent — same public pair, same chain code, same depth,
fingerprint and child number.  Group algebra: `((I_L + se) mod n) • G = I_L • G + se • G` because `n • G = ∞`. -/
theorem C09_ckd_commute (S : Setting g) (n child : Node) (i : Int) (fuel fuel' : Nat) (asPrivate : Bool)
    (hv : n.Valid g) (se : Int) (hse : n.secretExponent = some se)
    (hfirst : ∃ x, Spec.BIP32.CKDpriv (mathCrypto g.c) ⟨se.toNat, n.chainCode⟩ i.toNat = .ok x)
    (hchild : subkeyRaw g (fuel + 1) n i false true = .ok child) :
    n.publicCopy g = .ok { n with secretExponent := none } ∧
    child.publicCopy g = .ok { child with secretExponent := none } ∧
    subkeyRaw g fuel' { n with secretExponent := none } i false asPrivate = .ok { child with secretExponent := none } := by
  refine ⟨publicCopy_of_valid hv, ?_, ckd_commute_node S n child i fuel fuel' asPrivate hv se hse hfirst hchild⟩
  have := ckd_commute_node S n child i fuel 0 false hv se hse hfirst hchild
  -- the child was returned by the constructor
  unfold subkeyRaw at hchild
  split at hchild
  · cases hchild
  · split at hchild
    · cases hchild
    · split at hchild
      · cases hchild
      · split at hchild
        · cases hchild
        · rename_i key hk
          simp only [if_true, Except.ok.injEq] at hchild
          subst hchild
          unfold subkeyChild at hk
          rw [hse] at hk
          simp only at hk
          split at hk
          · cases hk
          · exact publicCopy_of_valid (mkNode_valid hk)

/-- the shipped generator: the side conditions hold for every blinding factor the constructor may draw -/
theorem C09_setting_secp256k1 (bf : Int) :
    ∃ tbl m, Gen.new Pycoin.Gen.Curves.secp256k1 bf = .ok ⟨Pycoin.Gen.Curves.secp256k1, bf, tbl, m⟩ ∧
      Setting (⟨Pycoin.Gen.Curves.secp256k1, bf, tbl, m⟩ : Gen) := by
  obtain ⟨tbl, m, h⟩ := gen_new_secp256k1 bf
  exact ⟨tbl, m, h, setting_secp256k1 bf tbl m h⟩

/-- … and it is the generator of every network (`network.generator` has the parameters of the generated `secp256k1`) -/
theorem C09_networks_use_secp256k1 :
    Pycoin.Gen.Networks.generatorShared = true ∧
    Pycoin.Gen.Networks.genP = Pycoin.Gen.Curves.secp256k1.p ∧ (Pycoin.Gen.Networks.genA : Int) = Pycoin.Gen.Curves.secp256k1.a ∧
    (Pycoin.Gen.Networks.genB : Int) = Pycoin.Gen.Curves.secp256k1.b ∧ Pycoin.Gen.Networks.genOrder = Pycoin.Gen.Curves.secp256k1.n ∧
    (Pycoin.Gen.Networks.genGx : Int) = Pycoin.Gen.Curves.secp256k1.gx ∧ (Pycoin.Gen.Networks.genGy : Int) = Pycoin.Gen.Curves.secp256k1.gy :=
  networks_use_secp256k1

/-- `Generator.__mul__` of a constructed generator object is the blinded multiplication of the C02 model -/
theorem C09_generator_object (g : Gen) (h : g.WF) (e : Int) : g.mul e = Curve.mulG g.c g.bf e := Gen.mul_eq h e

end ckd

/-! ## Electrum -/

section electrum
open Pycoin.Curve Pycoin.Electrum
variable {g : Gen} [Good g.c]

/-- **electrum_commute.** For a constructed private Electrum wallet `w` (exponent `k`, public pair `k * generator`)
and every path text: if `w.subkey(path)` returns `w'`, then the public copy of `w` derives the public copy of `w'`
(`offset • G + k • G = ((k + offset) mod n) • G`); the master public key — hence the offset — is the same on both sides. -/
theorem C09_electrum_commute (S : Setting g) (w w' : Wallet) (k : Int) (hk : w.secretExponent = some k)
    (hvalid : keyInit g (.priv k) = .ok (some k, w.publicPair)) (path : List Char)
    (h : w.subkey g path = .ok w') :
    w.publicCopy g = .ok { w with secretExponent := none } ∧
    ({ w with secretExponent := none } : Wallet).masterPublicKey = w.masterPublicKey ∧
    ({ w with secretExponent := none } : Wallet).subkey g path = .ok { w' with secretExponent := none } := by
  refine ⟨?_, rfl, electrum_commute S w w' k hk hvalid path h⟩
  obtain ⟨-, -, -, -, hon⟩ := keyInit_priv_ok hvalid
  have hmp : ∀ q : Pt, mkWallet g (.publicPair q) =
      (match keyInit g (.pub q) with
       | .error e => .error e
       | .ok (se, pp) => .ok ⟨se, pp⟩) := fun _ => rfl
  unfold Wallet.publicCopy
  rw [hk]
  simp only [hmp, keyInit, hon, if_true]

end electrum

/-! ## the sub-key cache is transparent -/

/-- **cache_transparent.** For every sequence of `subkey(i, is_hardened, as_private)` calls on one node object — any
indices, any order, repetitions, calls that raise — starting from the empty cache the constructor installs, the list
of answers is the list of uncached derivations. -/
theorem C09_cache_transparent (g : Gen) (fuel : Nat) (n : Node) (calls : List (Int × Bool × Option Bool)) :
    subkeyRun g fuel n [] calls = calls.map fun q => subkey0 g fuel n q.1 q.2.1 q.2.2 :=
  subkeyRun_eq calls [] (fun _ _ h => by cases h)

/-- the same from any cache state reachable by earlier calls (the invariant: every entry is `_subkey` of its key) -/
theorem C09_cache_transparent_from (g : Gen) (fuel : Nat) (n : Node) (c : Cache) (hc : c.Sound g fuel n)
    (calls : List (Int × Bool × Option Bool)) :
    subkeyRun g fuel n c calls = calls.map fun q => subkey0 g fuel n q.1 q.2.1 q.2.2 :=
  subkeyRun_eq calls c hc

/-- the invariant is kept by every call, and a call answers with the uncached derivation -/
theorem C09_cache_invariant (g : Gen) (fuel : Nat) (n : Node) (c : Cache) (hc : c.Sound g fuel n)
    (i : Int) (hardened : Bool) (asPrivate : Option Bool) :
    (subkey g fuel n c i hardened asPrivate).1 = subkey0 g fuel n i hardened asPrivate ∧
      (subkey g fuel n c i hardened asPrivate).2.Sound g fuel n :=
  subkey_sound hc i hardened asPrivate

/-- **cache_transparent along paths.** For every sequence of `subkey_for_path` calls on one root object — whose
descendants each keep their own cache — the answers are those of the uncached fold. -/
theorem C09_cache_transparent_paths (g : Gen) (fuel : Nat) (root : Node) (paths : List (List Char)) :
    pathRun g fuel root [] paths = paths.map (subkeyForPath g fuel root) :=
  pathRun_eq paths [] (fun _ _ h => by cases h)

end Pycoin.BIP32
