import Pycoin.Proofs.BIP32Basic
import Pycoin.Proofs.BIP32Cache
/-!
C09 — Hierarchical key derivation follows BIP32 and commutes with going public.  Property theorems
(helper lemmas: `Proofs/BIP32*.lean`).
-/
namespace Pycoin.BIP32

/-! ## child metadata, refusal of hardened derivation from a public node -/

/-- **metadata.** Whenever `_subkey(i, is_hardened, as_private)` returns a child: `0 ≤ i < 2³¹`; the child has the
parent's class, depth + 1, the fingerprint **of the parent** (`hash160(parent.sec())[:4]`), child number `i` with
bit 31 set exactly when hardened; it is public when `as_private` is false and has a secret exactly when the parent
has one otherwise. -/
theorem C09_metadata (g : Gen) (fuel : Nat) (n child : Node) (i : Int) (hardened asPrivate : Bool)
    (h : subkeyRaw g fuel n i hardened asPrivate = .ok child) :
    0 ≤ i ∧ i < 2 ^ 31 ∧
    child.kind = n.kind ∧ child.depth = n.depth + 1 ∧
    (∃ sec, n.sec = .ok sec ∧ child.parentFingerprint = (Hash.hash160 sec).take 4) ∧
    (child.childIndex : Int) = (if hardened then i + 2 ^ 31 else i) ∧
    (asPrivate = false → child.secretExponent = none) ∧
    (asPrivate = true → child.secretExponent.isSome = n.secretExponent.isSome) := by
  obtain ⟨h0, h1, h2, h3, h4, h5, h6, h7, -⟩ := subkeyRaw_meta h
  refine ⟨h0, h1, h2, h3, ?_, h5, h6, h7⟩
  unfold Node.fingerprint at h4
  cases hs : n.sec with
  | error e => simp [hs] at h4
  | ok sec =>
    simp only [hs, Except.ok.injEq] at h4
    exact ⟨sec, rfl, h4.symm⟩

/-- **hardened_from_public_refused.** On a public-only node `_subkey(i, is_hardened=True, …)` raises
`PublicPrivateMismatchError` for every admissible index, whatever `as_private`, before any arithmetic
(`fp` is the node's fingerprint: `sec()` of a node built by the constructor never fails). -/
theorem C09_hardened_from_public_refused (g : Gen) (fuel : Nat) (n : Node) (i : Int) (asPrivate : Bool)
    (hpub : n.secretExponent = none) (h0 : 0 ≤ i) (h1 : i < 2 ^ 31) (fp : Bytes) (hfp : n.fingerprint = .ok fp) :
    subkeyRaw g fuel n i true asPrivate = .error .mismatch := by
  unfold subkeyRaw
  rw [if_neg (by omega), if_neg (by omega)]
  simp [hfp, subkeyChild, hpub]

/-- … and no child of a public-only node is ever hardened -/
theorem C09_public_children_not_hardened (g : Gen) (fuel : Nat) (n child : Node) (i : Int) (hardened asPrivate : Bool)
    (hpub : n.secretExponent = none) (h : subkeyRaw g fuel n i hardened asPrivate = .ok child) :
    hardened = false ∧ child.childIndex < 2 ^ 31 ∧ child.secretExponent = none := by
  obtain ⟨h0, h1, -, -, -, h5, h6, h7, h8⟩ := subkeyRaw_meta h
  have hh := h8 hpub
  subst hh
  simp only [Bool.false_eq_true, if_false] at h5
  refine ⟨rfl, by omega, ?_⟩
  cases asPrivate with
  | false => exact h6 rfl
  | true => have := h7 rfl; simp [hpub] at this; exact this

/-! ## the sub-key cache is transparent -/

/-- **cache_transparent.** For every sequence of `subkey(i, is_hardened, as_private)` calls on one node object — any
indices, any order, repetitions, calls that raise — starting from the empty cache the constructor installs, the list
of answers is the list of uncached derivations. -/
theorem C09_cache_transparent (g : Gen) (fuel : Nat) (n : Node) (calls : List (Int × Bool × Option Bool)) :
    subkeyRun g fuel n [] calls = calls.map fun q => subkey0 g fuel n q.1 q.2.1 q.2.2 :=
  subkeyRun_eq calls [] (fun _ _ h => by cases h)

/-- the same from any cache state reachable by earlier calls (the invariant: every entry is `_subkey` of its key) -/
theorem C09_cache_transparent_from (g : Gen) (fuel : Nat) (n : Node) (c : Cache) (hc : c.Sound g fuel n)
    (calls : List (Int × Bool × Option Bool)) :
    subkeyRun g fuel n c calls = calls.map fun q => subkey0 g fuel n q.1 q.2.1 q.2.2 :=
  subkeyRun_eq calls c hc

/-- the invariant is kept by every call, and a call answers with the uncached derivation -/
theorem C09_cache_invariant (g : Gen) (fuel : Nat) (n : Node) (c : Cache) (hc : c.Sound g fuel n)
    (i : Int) (hardened : Bool) (asPrivate : Option Bool) :
    (subkey g fuel n c i hardened asPrivate).1 = subkey0 g fuel n i hardened asPrivate ∧
      (subkey g fuel n c i hardened asPrivate).2.Sound g fuel n :=
  subkey_sound hc i hardened asPrivate

/-- **cache_transparent along paths.** For every sequence of `subkey_for_path` calls on one root object — whose
descendants each keep their own cache — the answers are those of the uncached fold. -/
theorem C09_cache_transparent_paths (g : Gen) (fuel : Nat) (root : Node) (paths : List (List Char)) :
    pathRun g fuel root [] paths = paths.map (subkeyForPath g fuel root) :=
  pathRun_eq paths [] (fun _ _ h => by cases h)

end Pycoin.BIP32
