import Pycoin.Model.BIP32
import Pycoin.Model.Electrum
/-!
C09 — Hierarchical key derivation follows BIP32 and commutes with going public.  Property theorems.
-/
namespace Pycoin.BIP32

/-- **hardened_from_public_refused.** On a public-only node `_subkey(i, is_hardened=True, …)` raises
`PublicPrivateMismatchError` for every admissible index (whatever `as_private`), before any arithmetic. -/
theorem C09_hardened_from_public_refused (g : Gen) (fuel : Nat) (n : Node) (i : Int) (asPrivate : Bool)
    (hpub : n.secretExponent = none) (h0 : 0 ≤ i) (h1 : i < 0x80000000) (fp : Bytes) (hfp : n.fingerprint = .ok fp) :
    subkeyRaw g fuel n i true asPrivate = .error .mismatch := by
  unfold subkeyRaw
  rw [if_neg (by omega), if_neg (by omega)]
  simp [hfp, hpub]

end Pycoin.BIP32
