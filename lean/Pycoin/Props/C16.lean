import Pycoin.Proofs.Message
import Pycoin.Props.C14
import Pycoin.Model.P2PObjects
/-!
C16 — Peer-to-peer messages round-trip through pack and parse for every message type, and the packed bytes are the
Bitcoin wire encoding.  Property theorems (helpers without the `C16_` prefix).
-/
namespace Pycoin.C16
open Pycoin Pycoin.Msg Pycoin.Wire

/-! ## the standard codecs obey the prefix-parser law -/

/-- the values each classified codec carries faithfully ("field values of the declared type") -/
def CodecWF (c : Coin) : Codec → MVal → Prop
  | .prim k, v => ∃ w, toWire v = some w ∧ LetterWF k w
  | .int6, v => ∃ x, v = .int x
  | .optBool, v => v = .none ∨ ∃ b, v = .bool b
  | .peerAddress, v => ∃ s ip p, v = .addr s ip p ∧ ip.length = 16
  | .invItem, v => ∃ t d, v = .inv t d ∧ d.length = 32
  | .tx, v => ∃ t : Tx, v = .tx t ∧ t.WF ∧ 1 ≤ t.ins.length
  | .block, v => ∃ b : Block, v = .block b ∧ b.WF ∧ b.hdr.merkleRoot = C14.specRoot c b.txs
  | .header, v => ∃ h : Header, v = .block ⟨h, []⟩ ∧ h.prev.length = 32 ∧ h.merkleRoot.length = 32
  | _, _ => False

/-- codecs for which the prefix law is proved -/
def Codec.good : Codec → Bool
  | .prim _ | .int6 | .peerAddress | .invItem | .tx | .block | .header => true
  | _ => false

/-- codecs that may close a message (end-of-stream law) -/
def Codec.goodFinal : Codec → Bool
  | .optBool => true
  | k => Codec.good k

theorem ofWire_toWire {v : MVal} {w : Val} (h : toWire v = some w) : ofWire w = v := by
  cases v <;> simp [toWire] at h <;> subst h <;> rfl

theorem liftW_ok {α : Type} {x : Except Wire.Err α} {a : α} (h : liftW x = .ok a) : x = .ok a := by
  cases x with
  | error e => simp [liftW] at h
  | ok y => simp only [liftW] at h; rw [Except.ok.inj h]

theorem prim_law (k : Kind) : CodecLaw (primImpl k) (fun v => ∃ w, toWire v = some w ∧ LetterWF k w) := by
  intro v b rest ⟨w, hw, hwf⟩ hs
  simp only [primImpl, hw] at hs
  have hs := liftW_ok hs
  simp [primImpl, parseLetter_streamLetter k w b rest hwf hs, ofWire_toWire hw]


theorem tbl_at : tbl '@' = some (.fixedBytes 16) := by decide
theorem tbl_h : tbl 'h' = some (.uintBE 2) := by decide

theorem peerAddress_law (c : Coin) : CodecLaw (codecImpl c .peerAddress) (CodecWF c .peerAddress) := by
  intro v b rest ⟨s, ip, p, hv, hip⟩ hs
  subst hv
  simp only [codecImpl, peerAddressSer, Gen.Messages.peerAddress_stream_packs] at hs
  cases h1 : structPack ['<', 'Q'] s with
  | error e => simp [h1] at hs
  | ok a =>
    cases h2 : structPack ['!', 'H'] p with
    | error e => simp [h1, h2] at hs
    | ok d =>
      simp only [h1, h2] at hs
      have hs := Except.ok.inj hs
      subst hs
      have h1' : packLE 8 s = .ok a := liftW_ok (by simpa [structPack] using h1)
      have h2' : packBE 2 p = .ok d := liftW_ok (by simpa [structPack] using h2)
      have hst : streamStruct tbl Gen.Messages.peerAddress_parse_parse [.int s, .bytes ip, .int p] = .ok (a ++ (ip ++ d)) := by
        have ht : List.take 16 ip = ip := List.take_of_length_le (by omega)
        simp [Gen.Messages.peerAddress_parse_parse, Wire.streamStruct, tbl_Q, tbl_at, tbl_h, streamLetter, h1', h2', ht]
      have hwf : StructWF tbl Gen.Messages.peerAddress_parse_parse [.int s, .bytes ip, .int p] := by
        simp [Gen.Messages.peerAddress_parse_parse, StructWF, tbl_Q, tbl_at, tbl_h, LetterWF, hip]
      have := parseStruct_streamStruct tbl _ _ _ rest hwf hst
      have h4 : ¬ ip.length = 4 := by omega
      simp only [List.append_assoc] at this
      simp [codecImpl, peerAddressParse, this, h4, hip]

theorem invItem_law (c : Coin) : CodecLaw (codecImpl c .invItem) (CodecWF c .invItem) := by
  intro v b rest ⟨t, d, hv, hd⟩ hs
  subst hv
  simp only [codecImpl, invItemSer] at hs
  have hs := liftW_ok hs
  have hst : streamStruct tbl Gen.Messages.invItem_parse_parse [.int t, .bytes d] = .ok b := by
    simpa [Gen.Messages.invItem_parse_parse, Gen.Messages.invItem_stream_stream] using hs
  have hwf : StructWF tbl Gen.Messages.invItem_parse_parse [.int t, .bytes d] := by
    simp [Gen.Messages.invItem_parse_parse, StructWF, tbl_hash, tbl_L, LetterWF, hd]
  have := parseStruct_streamStruct tbl _ _ _ rest hwf hst
  simp [codecImpl, invItemParse, this, hd]

theorem tx_codec_law (c : Coin) : CodecLaw (codecImpl c .tx) (CodecWF c .tx) := by
  intro v b rest ⟨t, hv, hwf, hne⟩ hs
  subst hv
  simp only [codecImpl] at hs
  have hs := liftW_ok hs
  simp [codecImpl, tx_law c t b rest ⟨hwf, hne⟩ hs]

theorem block_codec_law (c : Coin) : CodecLaw (codecImpl c .block) (CodecWF c .block) := by
  intro v b rest ⟨blk, hv, hwf, hroot⟩ hs
  subst hv
  simp only [codecImpl] at hs
  have hs := liftW_ok hs
  have h1 := C14.C14_block_rt c blk hwf hroot rest
  rw [h1.1] at hs
  have hs := Except.ok.inj hs
  subst hs
  simp [codecImpl, h1.2]

theorem header_codec_law (c : Coin) : CodecLaw (codecImpl c .header) (CodecWF c .header) := by
  intro v b rest ⟨h, hv, hp, hr⟩ hs
  subst hv
  simp only [codecImpl] at hs
  have hs := liftW_ok hs
  simp [codecImpl, Block.header_law h b rest ⟨hp, hr⟩ hs]

theorem int6_law (c : Coin) : CodecLaw (codecImpl c .int6) (CodecWF c .int6) := by
  intro v b rest ⟨x, hv⟩ hs
  subst hv
  exact prim_law (.uintLE 6) (.int x) b rest ⟨.int x, rfl, trivial⟩ hs

/-- C16.codec_law: every codec classified `good` obeys the prefix-parser law on the values of its type -/
theorem C16_codec_law (c : Coin) (k : Codec) (hk : Codec.good k = true) : CodecLaw (codecImpl c k) (CodecWF c k) := by
  cases k <;> simp [Codec.good] at hk
  · exact prim_law _
  · exact int6_law c
  · exact peerAddress_law c
  · exact invItem_law c
  · exact tx_codec_law c
  · exact block_codec_law c
  · exact header_codec_law c

/-- the optional boolean: nothing for `None`, one byte otherwise; correct only when nothing follows -/
theorem optBool_final (c : Coin) : CodecFinalLaw (codecImpl c .optBool) (CodecWF c .optBool) := by
  intro v b hw hs
  rcases hw with rfl | ⟨x, rfl⟩
  · simp only [codecImpl] at hs
    have hs := Except.ok.inj hs
    subst hs
    rfl
  · simp only [codecImpl] at hs
    have hs := Except.ok.inj hs
    subst hs
    cases x <;> simp [codecImpl]

/-- C16.codec_final_law -/
theorem C16_codec_final_law (c : Coin) (k : Codec) (hk : Codec.goodFinal k = true) :
    CodecFinalLaw (codecImpl c k) (CodecWF c k) := by
  by_cases ho : k = .optBool
  · subst ho; exact optBool_final c
  · have : Codec.good k = true := by
      cases k <;> simp_all [Codec.goodFinal, Codec.good]
    exact (C16_codec_law c k this).final


/-! ## the generated table of layouts -/

/-- a field type string as a `FieldTy`: one non-bracket letter, or `[` letters `]` with no bracket inside -/
def readTy : List Char → Option FieldTy
  | [c] => if c ≠ '[' ∧ c ≠ ']' then some (.scalar c) else none
  | '[' :: rest =>
    if rest.getLast? = some ']' ∧ rest.dropLast ≠ [] ∧ rest.dropLast.all (fun c => c ≠ '[' ∧ c ≠ ']')
    then some (.array rest.dropLast) else none
  | _ => none

/-- the fields of a layout string, when every `name:type` item is well formed -/
def analyze (layout : List Char) : Option (List (List Char × FieldTy)) :=
  if layout = [] then some []
  else match packPairs layout with
    | .ok pairs => pairs.mapM (fun p => (readTy p.2).map (fun t => (p.1, t)))
    | .error _ => none

/-- every letter registered with a codec whose law is proved; only the last field may use an end-of-stream codec -/
def fieldsGood (letters : List (Char × Codec)) : List (List Char × FieldTy) → Bool
  | [] => true
  | (_, .scalar ch) :: fs =>
    decide (ch ≠ '[') && (match findLetter ch letters with
     | some k => Codec.good k || (fs.isEmpty && Codec.goodFinal k)
     | none => false) && fieldsGood letters fs
  | (_, .array sub) :: fs =>
    sub.all (fun ch => decide (ch ≠ '[') && decide (ch ≠ ']') &&
      (match findLetter ch letters with | some k => Codec.good k | none => false)) && fieldsGood letters fs

def namesDistinct : List (List Char) → Bool
  | [] => true
  | n :: ns => !ns.contains n && namesDistinct ns

instance exceptDecEq {ε α : Type} [DecidableEq ε] [DecidableEq α] : DecidableEq (Except ε α)
  | .ok a, .ok b => if h : a = b then isTrue (by rw [h]) else isFalse (fun h' => h (Except.ok.inj h'))
  | .error a, .error b => if h : a = b then isTrue (by rw [h]) else isFalse (fun h' => h (Except.error.inj h'))
  | .ok _, .error _ => isFalse (fun h => by cases h)
  | .error _, .ok _ => isFalse (fun h => by cases h)

/-- the whole check of one layout string: both ways Python splits it (`split(" ")` when packing, `split()` when the
parser is made) give the same well-formed fields, names are distinct, every letter is good -/
def layoutGood (letters : List (Char × Codec)) (layout : List Char) : Bool :=
  match analyze layout with
  | none => false
  | some fields =>
    (layout = [] || decide (packPairs layout = .ok (fieldPairs fields))) &&
    decide (parserNamesTypes layout = .ok (fields.map (·.1), fieldTypes fields)) &&
    namesDistinct (fields.map (·.1)) && fieldsGood letters fields

/-- C16.layouts_ok: a kernel-checked decision over the WHOLE generated table — every message layout of
`STANDARD_P2P_MESSAGES` (and the alert sub-layout) is well formed and uses only codec letters whose round-trip law
is proved; the array count is the compact-size codec.  Re-checked against the source on every run. -/
theorem C16_layouts_ok :
    (Gen.Messages.layouts.all (fun p => layoutGood Gen.Messages.letters p.2)) = true ∧
    layoutGood Gen.Messages.letters Gen.Messages.alertLayout = true ∧
    Gen.Messages.packCountLetter = ['I'] ∧
    findLetter 'I' Gen.Messages.letters = some (.prim .compactInt) := by
  decide +kernel


/-! ## every message round-trips -/

/-- "a value of the declared type" of a letter of the standard table -/
def stdWF (c : Coin) (ch : Char) (v : MVal) : Prop :=
  match findLetter ch Gen.Messages.letters with
  | some k => CodecWF c k v
  | none => False

/-- keyword arguments carrying, for every field of the layout, a value of the declared type -/
def ValsTyped (c : Coin) (kwargs : Kwargs) : List (List Char × FieldTy) → List MVal → Prop
  | [], [] => True
  | (n, .scalar ch) :: fs, v :: vs => lookup n kwargs = some v ∧ stdWF c ch v ∧ ValsTyped c kwargs fs vs
  | (n, .array sub) :: fs, v :: vs =>
    lookup n kwargs = some v ∧ (∃ items, v = .seq items ∧ ∀ i ∈ items, ElemOK (stdWF c) sub i) ∧ ValsTyped c kwargs fs vs
  | _, _ => False

theorem stdTable_of_find {c : Coin} {ch : Char} {k : Codec} (h : findLetter ch Gen.Messages.letters = some k) :
    stdTable c ch = some (codecImpl c k) ∧ stdWF c ch = CodecWF c k := by
  constructor
  · simp [stdTable, h]
  · funext v; simp [stdWF, h]

theorem fieldsOK_of_good (c : Coin) (kwargs : Kwargs) :
    ∀ (fields : List (List Char × FieldTy)) (vals : List MVal), fieldsGood Gen.Messages.letters fields = true →
      ValsTyped c kwargs fields vals → FieldsOK (stdTable c) (stdWF c) kwargs fields vals
  | [], [] => fun _ _ => trivial
  | [], _ :: _ => by intro _ h; simp [ValsTyped] at h
  | _ :: _, [] => by intro _ h; cases ‹List Char × FieldTy› with | mk n t => cases t <;> simp [ValsTyped] at h
  | (n, .scalar ch) :: fs, v :: vs => by
    intro hg ht
    obtain ⟨hl, hw, hrest⟩ := ht
    simp only [fieldsGood, Bool.and_eq_true, decide_eq_true_eq] at hg
    obtain ⟨⟨hch, hk⟩, hgs⟩ := hg
    refine ⟨hl, ?_, fieldsOK_of_good c kwargs fs vs hgs hrest⟩
    cases hf : findLetter ch Gen.Messages.letters with
    | none => simp [hf] at hk
    | some k =>
      obtain ⟨ht, hwf⟩ := stdTable_of_find (c := c) hf
      simp only [hf, Bool.or_eq_true, Bool.and_eq_true] at hk
      refine ⟨hch, _, ht, hw, ?_⟩
      rw [hwf]
      rcases hk with hk | ⟨he, hk⟩
      · exact Or.inl (C16_codec_law c k hk)
      · exact Or.inr ⟨he, C16_codec_final_law c k hk⟩
  | (n, .array sub) :: fs, v :: vs => by
    intro hg ht
    obtain ⟨hl, hitems, hrest⟩ := ht
    simp only [fieldsGood, Bool.and_eq_true, List.all_eq_true, decide_eq_true_eq] at hg
    obtain ⟨hsub, hgs⟩ := hg
    refine ⟨hl, ⟨?_, hitems⟩, fieldsOK_of_good c kwargs fs vs hgs hrest⟩
    intro ch hch
    obtain ⟨⟨h1, h2⟩, hk⟩ := hsub ch hch
    cases hf : findLetter ch Gen.Messages.letters with
    | none => simp [hf] at hk
    | some k =>
      obtain ⟨ht, hwf⟩ := stdTable_of_find (c := c) hf
      simp only [hf] at hk
      exact ⟨h1, h2, _, ht, by rw [hwf]; exact C16_codec_law c k hk⟩

theorem stdCount_law (c : Coin) : CountLaw (stdTable c) Gen.Messages.packCountLetter stdCount := by
  intro n nb rest h
  rw [C16_layouts_ok.2.2.1] at h
  obtain ⟨ht, _⟩ := stdTable_of_find (c := c) C16_layouts_ok.2.2.2
  simp only [Msg.streamStruct, ht] at h
  cases hs : (codecImpl c (.prim .compactInt)).ser (.int n) with
  | error e => simp [hs] at h
  | ok x =>
    simp only [hs, List.append_nil] at h
    have h := Except.ok.inj h
    subst h
    simp only [codecImpl, primImpl, toWire, streamLetter] at hs
    have hs := liftW_ok hs
    have := (parseSatoshiInt_streamSatoshiInt n x rest hs).1
    simp [stdCount, this, liftW]

theorem findLayout_mem {name layout : List Char} : ∀ {l : List (List Char × List Char)},
    findLayout name l = some layout → (name, layout) ∈ l
  | [], h => by simp [findLayout] at h
  | (n, x) :: rest, h => by
    simp only [findLayout] at h
    split at h
    · rename_i hn
      cases h
      simp [hn]
    · exact List.mem_cons_of_mem _ (findLayout_mem h)

/-- C16.struct_rt (generic, any letter table): for every layout whose letters obey the prefix-parser law (the last
scalar field may obey only the end-of-stream law) and keyword arguments of the declared types, `parse_struct` over the
concatenated field types undoes `pack_from_data` — arrays with a compact-size count, tuples, optional trailing field -/
theorem C16_struct_rt {tbl : Table} {wf : Char → MVal → Prop} {countLetter : List Char}
    {count : Bytes → Except Msg.Err (Nat × Bytes)} (hcount : CountLaw tbl countLetter count) (kwargs : Kwargs)
    (fields : List (List Char × FieldTy)) (vals : List MVal) (b : Bytes) (hok : FieldsOK tbl wf kwargs fields vals)
    (hpack : packFields tbl countLetter kwargs (fieldPairs fields) = .ok b) :
    Msg.parseStruct tbl count (fieldTypes fields) b = .ok (vals, []) :=
  parseStruct_packFields hcount kwargs fields vals b hok hpack

/-- C16.message_rt: for every message name of the generated table and keyword arguments of the declared types, what
`network.message.pack` produces is parsed back by the message's parser into exactly those values, field by field, with
no byte left (post-processors of alert and merkleblock then only add keys, or validate: C14) -/
theorem C16_message_rt (c : Coin) (name layout : List Char) (hfind : findLayout name Gen.Messages.layouts = some layout) :
    ∃ fields, analyze layout = some fields ∧
      ∀ (kwargs : Kwargs) (vals : List MVal) (b : Bytes), ValsTyped c kwargs fields vals →
        Msg.pack c name kwargs = .ok b →
        parseLayout (stdTable c) stdCount layout b = .ok (zipDict (fields.map (·.1)) vals, []) := by
  have hmem := findLayout_mem hfind
  have hgood := List.all_eq_true.mp C16_layouts_ok.1 _ hmem
  simp only [layoutGood] at hgood
  cases ha : analyze layout with
  | none => simp [ha] at hgood
  | some fields =>
    simp only [ha, Bool.and_eq_true, Bool.or_eq_true, decide_eq_true_eq] at hgood
    obtain ⟨⟨⟨hpairs, hparser⟩, _⟩, hfg⟩ := hgood
    refine ⟨fields, rfl, ?_⟩
    intro kwargs vals b hty hpack
    have hok := fieldsOK_of_good c kwargs fields vals hfg hty
    simp only [Msg.pack, hfind, packLayout] at hpack
    have hp : packFields (stdTable c) Gen.Messages.packCountLetter kwargs (fieldPairs fields) = .ok b := by
      by_cases he : layout = []
      · subst he
        simp only [analyze, if_true] at ha
        have ha := Option.some.inj ha
        subst ha
        simpa [fieldPairs, packFields] using hpack
      · simp only [he, if_false] at hpack
        rcases hpairs with hpairs | hpairs
        · exact absurd hpairs he
        · simpa [hpairs] using hpack
    have := C16_struct_rt (stdCount_law c) kwargs fields vals b hok hp
    simp [parseLayout, hparser, this]


/-! ## the packed bytes are the Bitcoin wire encoding (independent `Spec/Wire.lean`, `Spec/Block.lean`) -/

section wire
open Pycoin.Spec.Wire (le compactSize varBytes)

/-- the letters of the generated table the wire statements are about (re-checked on every build) -/
theorem C16_wire_letters :
    findLetter 'L' Gen.Messages.letters = some (.prim (.uintLE 4)) ∧
    findLetter 'Q' Gen.Messages.letters = some (.prim (.uintLE 8)) ∧
    findLetter '1' Gen.Messages.letters = some (.prim (.uintLE 1)) ∧
    findLetter '6' Gen.Messages.letters = some .int6 ∧
    findLetter 'I' Gen.Messages.letters = some (.prim .compactInt) ∧
    findLetter 'S' Gen.Messages.letters = some (.prim .compactString) ∧
    findLetter '#' Gen.Messages.letters = some (.prim (.fixedBytes 32)) ∧
    findLetter 'b' Gen.Messages.letters = some (.prim .bool) ∧
    findLetter 'O' Gen.Messages.letters = some .optBool ∧
    findLetter 'A' Gen.Messages.letters = some .peerAddress ∧
    findLetter 'v' Gen.Messages.letters = some .invItem ∧
    findLetter 'T' Gen.Messages.letters = some .tx ∧
    findLetter 'B' Gen.Messages.letters = some .block ∧
    findLetter 'z' Gen.Messages.letters = some .header := by
  decide +kernel

/-- C16.wire_int: `1`, `L`, `Q` (and any `k`-byte little-endian integer codec) write the value least significant byte first -/
theorem C16_wire_int (k : Nat) (v : Int) (h0 : 0 ≤ v) (h1 : v < ((256 ^ k : Nat) : Int)) :
    (primImpl (.uintLE k)).ser (.int v) = .ok (le k v.toNat) := by
  simp [primImpl, toWire, streamLetter, packLE_eq k v h0 h1, liftW]

/-- C16.wire_short_id: the `6` codec writes exactly six bytes, least significant first -/
theorem C16_wire_short_id (c : Coin) (v : Int) (h0 : 0 ≤ v) (h1 : v < 281474976710656) :
    (codecImpl c .int6).ser (.int v) = .ok (le 6 v.toNat) ∧ (le 6 v.toNat).length = 6 :=
  ⟨C16_wire_int 6 v h0 (by simpa using h1), le_length 6 _⟩

/-- C16.wire_compact: the `I` codec (array counts, `prefilled_txs` indices) is the compactSize encoding -/
theorem C16_wire_compact (n : Nat) (h : n < 2 ^ 64) : (primImpl .compactInt).ser (.int n) = .ok (compactSize n) := by
  simp [primImpl, toWire, streamLetter, streamSatoshiInt_eq n h, liftW]

/-- C16.wire_string: `S` is a compactSize length followed by the bytes -/
theorem C16_wire_string (s : Bytes) (h : s.length < 2 ^ 64) : (primImpl .compactString).ser (.bytes s) = .ok (varBytes s) := by
  simp [primImpl, toWire, streamLetter, streamSatoshiString_eq s h, liftW]

/-- C16.wire_hash: `#` writes the 32 bytes as they are -/
theorem C16_wire_hash (h : Bytes) (hl : h.length = 32) : (primImpl (.fixedBytes 32)).ser (.bytes h) = .ok h := by
  have : List.take 32 h = h := List.take_of_length_le (by omega)
  simp [primImpl, toWire, streamLetter, this, liftW]

/-- C16.wire_bool: `b` writes one byte, 1 or 0; the optional `O` writes nothing for None -/
theorem C16_wire_bool (c : Coin) (x : Bool) :
    (primImpl .bool).ser (.bool x) = .ok [if x then 1 else 0] ∧
    (codecImpl c .optBool).ser (.bool x) = .ok [if x then 1 else 0] ∧
    (codecImpl c .optBool).ser .none = .ok [] := by
  simp [primImpl, toWire, streamLetter, liftW, codecImpl]

theorem packBE2_eq (p : Int) (h0 : 0 ≤ p) (h1 : p < 65536) : packBE 2 p = .ok (Spec.Block.be 2 p.toNat) := by
  unfold packBE
  rw [if_pos ⟨h0, by simpa using h1⟩]
  simp [Spec.Block.be, beBytes, le_eq_leBytes]

/-- C16.wire_net_addr: services little-endian, the 16 address bytes, the port in network byte order -/
theorem C16_wire_net_addr (c : Coin) (s : Int) (ip : Bytes) (p : Int) (hs : U64 s) (hp0 : 0 ≤ p) (hp1 : p < 65536) :
    (codecImpl c .peerAddress).ser (.addr s ip p) = .ok (Spec.Block.netAddr s.toNat ip p.toNat) := by
  simp [codecImpl, peerAddressSer, Gen.Messages.peerAddress_stream_packs, structPack, packLE8_eq s hs,
    packBE2_eq p hp0 hp1, liftW, Spec.Block.netAddr]

/-- C16.wire_inv: type little-endian, then the 32-byte hash -/
theorem C16_wire_inv (c : Coin) (t : Int) (d : Bytes) (ht : U32 t) (hd : d.length = 32) :
    (codecImpl c .invItem).ser (.inv t d) = .ok (Spec.Block.invVect t.toNat d) := by
  have : List.take 32 d = d := List.take_of_length_le (by omega)
  simp [codecImpl, invItemSer, Gen.Messages.invItem_stream_stream, Wire.streamStruct, tbl_L, tbl_hash, streamLetter,
    packLE4_eq t ht, this, liftW, Spec.Block.invVect]

/-- C16.wire_embedded: embedded transactions, headers and blocks are written in their own wire format -/
theorem C16_wire_embedded (c : Coin) :
    (∀ t : Tx, t.WF → (codecImpl c .tx).ser (.tx t) = .ok (Spec.Wire.ser t)) ∧
    (∀ h : Header, h.WF → (codecImpl c .header).ser (.block ⟨h, []⟩) = .ok (Spec.Block.header h)) ∧
    (∀ b : Block, b.WF → (codecImpl c .block).ser (.block b) = .ok (Spec.Block.block b)) := by
  refine ⟨?_, ?_, ?_⟩
  · intro t hwf; simp [codecImpl, C07_ser_is_wire t hwf, liftW]
  · intro h hwf; simp [codecImpl, Block.streamHeader_eq h hwf, liftW]
  · intro b hwf; simp [codecImpl, C14.Block.stream_eq b hwf, liftW]

/-- C16.wire_array: an array field is the compactSize of the element count followed by the elements, each written
letter by letter; a scalar field is its letter's encoding; a message is its fields in layout order (`packFields`) -/
theorem C16_wire_array (c : Coin) (kwargs : Kwargs) (n sub : List Char) (items : List MVal) (body : Bytes)
    (hl : lookup n kwargs = some (.seq items)) (hn : items.length < 2 ^ 64)
    (hb : streamItems (stdTable c) sub items = .ok body) :
    packField (stdTable c) Gen.Messages.packCountLetter kwargs n ('[' :: (sub ++ [']'])) =
      .ok (compactSize items.length ++ body) := by
  obtain ⟨ht, _⟩ := stdTable_of_find (c := c) C16_layouts_ok.2.2.2
  have hdrop : (sub ++ [']']).dropLast = sub := by simp
  simp [packField, hl, iterItems, C16_layouts_ok.2.2.1, Msg.streamStruct, ht, codecImpl, C16_wire_compact _ hn, hdrop, hb]

end wire

/-! ## several networks in one process -/

/-- C16.parse_network_independent: in any process history over any networks, the answer of each call is the answer
the same call gives alone — it depends only on that call's network, message name and bytes / values -/
theorem C16_parse_network_independent (st : ProcState) (pre : List Call) (c : Call) (post : List Call) :
    (runHistory st (pre ++ c :: post))[pre.length]? = some c.alone := by
  induction pre generalizing st with
  | nil => simp [runHistory, Call.run]
  | cons p ps ih => simpa [runHistory] using ih (p.run st).2

/-- the `Streamer` class declares no mutable container: nothing a streamer learns while parsing for one network can
reach the streamer of another (re-checked against the class on every build) -/
theorem C16_streamer_stateless : Gen.Messages.streamerClassState = [] := by decide

/-- networks differ only in the `T`, `B`, `z` codecs -/
theorem C16_net_codecs (n : Net) (k : Codec) (hk : k ≠ .block ∧ k ≠ .header) :
    codecImplNet n k = codecImpl n.coin k := by
  unfold codecImplNet
  split
  · cases k <;> simp_all
  · rfl

theorem tbl_S' : tbl 'S' = some .compactString := by decide

def BtgHeaderWF (h : BtgHeader) : Prop :=
  h.prev.length = 32 ∧ h.merkleRoot.length = 32 ∧ h.nonce.length = 32 ∧ h.solution.length < 2 ^ 63

theorem BtgBlock.header_law : PrefixLaw BtgBlock.streamHeader BtgBlock.parseAsHeader BtgHeaderWF := by
  intro h b rest ⟨hp, hr, hn, hs⟩ hser
  unfold BtgBlock.streamHeader at hser
  cases h1 : Wire.streamStruct tbl Gen.Messages.btgBlock_stream_header_stream
      [.int h.version, .bytes h.prev, .bytes h.merkleRoot, .int h.height] with
  | error e => simp [h1] at hser
  | ok a =>
    cases h2 : Wire.streamStruct tbl Gen.Messages.btgBlock_stream_header_stream_2
        [.int h.timestamp, .int h.difficulty, .bytes h.nonce, .bytes h.solution] with
    | error e => simp [h1, h2] at hser
    | ok c =>
      simp only [h1, h2] at hser
      have hser := Except.ok.inj hser
      subst hser
      have w1 : StructWF tbl Gen.Messages.btgBlock_parse_as_header_parse
          [.int h.version, .bytes h.prev, .bytes h.merkleRoot, .int h.height] := by
        simp [Gen.Messages.btgBlock_parse_as_header_parse, StructWF, tbl_hash, tbl_L, LetterWF, hp, hr]
      have w2 : StructWF tbl Gen.Messages.btgBlock_parse_as_header_parse_2
          [.int h.timestamp, .int h.difficulty, .bytes h.nonce, .bytes h.solution] := by
        simp [Gen.Messages.btgBlock_parse_as_header_parse_2, StructWF, tbl_hash, tbl_L, tbl_S', LetterWF, hn]
        exact hs
      have p1 := parseStruct_streamStruct tbl _ _ a (List.replicate Gen.Messages.btgReserved.2 0 ++ c ++ rest) w1
        (by simpa [Gen.Messages.btgBlock_parse_as_header_parse, Gen.Messages.btgBlock_stream_header_stream] using h1)
      have p2 := parseStruct_streamStruct tbl _ _ c rest w2
        (by simpa [Gen.Messages.btgBlock_parse_as_header_parse_2, Gen.Messages.btgBlock_stream_header_stream_2] using h2)
      have hd : List.drop Gen.Messages.btgReserved.1 (List.replicate Gen.Messages.btgReserved.2 (0 : UInt8) ++ (c ++ rest)) = c ++ rest := by
        have : Gen.Messages.btgReserved = (28, 28) := by decide
        rw [this]
        exact List.drop_left' (by simp)
      cases h
      simp only [BtgBlock.parseAsHeader, List.append_assoc] at p1 ⊢
      simp only [p1, hd, p2]

/-- C16.btg_header_law: the Bitcoin Gold header codec (`z` on BTG) obeys the prefix-parser law: 32-byte hashes and nonce,
a solution a parser can read back; the 28 reserved bytes are written as zeros and skipped -/
theorem C16_btg_header_law : CodecLaw btgHeaderImpl (fun v => ∃ h : BtgHeader, v = .blockBtg ⟨h, []⟩ ∧ BtgHeaderWF h) := by
  intro v b rest ⟨h, hv, hwf⟩ hser
  subst hv
  simp only [btgHeaderImpl] at hser
  have hser := liftW_ok hser
  simp [btgHeaderImpl, BtgBlock.header_law h b rest hwf hser]

/-- C16.btg_block_law: the Bitcoin Gold block codec (`B` on BTG): header as above, ≥ 1 transaction in range, the header
carrying the merkle root of the transactions -/
theorem C16_btg_block_law (c : Coin) : CodecLaw (btgBlockImpl c)
    (fun v => ∃ b : BtgBlock, v = .blockBtg b ∧ BtgHeaderWF b.hdr ∧ 1 ≤ b.txs.length ∧
      (∀ t ∈ b.txs, t.WF ∧ 1 ≤ t.ins.length) ∧ b.hdr.merkleRoot = C14.specRoot c b.txs) := by
  intro v b rest ⟨blk, hv, hh, hne, htx, hroot⟩ hser
  subst hv
  simp only [btgBlockImpl] at hser
  have hser := liftW_ok hser
  unfold BtgBlock.stream at hser
  cases h1 : BtgBlock.streamHeader blk.hdr with
  | error e => simp [h1] at hser
  | ok hb =>
    simp only [h1] at hser
    unfold Block.streamTransactions at hser
    have hne' : blk.txs.isEmpty = false := by
      cases hx : blk.txs with
      | nil => rw [hx] at hne; simp at hne
      | cons a as => rfl
    simp only [hne', Bool.false_eq_true, if_false, Gen.Messages.block_stream_transactions_stream_count] at hser
    cases h2 : Wire.streamStruct tbl ['I'] [.int blk.txs.length] with
    | error e => simp [h2] at hser
    | ok nb =>
      simp only [h2] at hser
      cases h3 : streamList (fun t : Tx => t.stream) blk.txs with
      | error e => simp [h3] at hser
      | ok body =>
        simp only [h3] at hser
        have hser := Except.ok.inj hser
        subst hser
        have l1 := BtgBlock.header_law blk.hdr hb ((nb ++ body) ++ rest) hh h1
        have l2 := parseStruct_streamStruct tbl ['I'] [.int blk.txs.length] nb (body ++ rest)
          (by simp [StructWF, tbl_I, LetterWF]) h2
        have l3 := parseN_streamList (tx_law c) blk.txs body rest htx h3
        have hids := C14.txHashes_eq c blk.txs (fun t ht => (htx t ht).1)
        have hne2 : C14.txids c blk.txs ≠ [] := by
          intro h
          have h' := congrArg List.length h
          simp only [C14.txids, List.length_map, List.length_nil] at h'
          omega
        have hm := C14.C14_merkle_eq_spec_list Pycoin.Hash.dsha256 (C14.txids c blk.txs) hne2
        have hl : (C14.txids c blk.txs).length = blk.txs.length := by simp [C14.txids]
        rw [hl] at hm
        simp only [List.append_assoc] at l1 l2 ⊢
        simp only [btgBlockImpl, BtgBlock.parse, l1, Gen.Messages.block_parse_parse_count, l2, Int.toNat_natCast, l3, hne',
          Bool.false_eq_true, if_false, hids, hm]
        simp [C14.specRoot] at hroot
        simp [hroot]

/-! ## non-vacuity (evaluated on the real table) -/
private def pingKw : Kwargs := [("nonce".toList, .int 0x0102030405060708)]
#guard (match Msg.pack .btc "ping".toList pingKw with | .ok b => b == [8, 7, 6, 5, 4, 3, 2, 1] | _ => false)
#guard (match Msg.pack .btc "cmpctblock".toList [("header_hash".toList, .bytes (List.replicate 32 9)), ("nonce".toList, .int 1),
    ("short_ids".toList, .seq [.int 0x060504030201]), ("prefilled_txs".toList, .seq [])] with
  | .ok b => b.drop 40 == [1, 1, 2, 3, 4, 5, 6, 0] | _ => false)
#guard (match Msg.parse .btc "version".toList (List.replicate 85 0 ++ [0]) with
  | .ok d => (match lookup "relay".toList d with | some (.bool false) => true | _ => false) | _ => false)

end Pycoin.C16

/-! # the helper objects as objects: equality, ordering, hashing key, IPv4 embedding -/
namespace Pycoin.P2P
open Pycoin.Gen.P2PObjects (ip4Header checkedItemTypes)

theorem bytesLt_irrefl : ∀ a : Bytes, bytesLt a a = false
  | [] => rfl
  | a :: as => by simp [bytesLt, bytesLt_irrefl as]

theorem u8_lt_trichotomy (a b : UInt8) : a < b ∨ a = b ∨ b < a := by
  rcases Nat.lt_trichotomy a.toNat b.toNat with h | h | h
  · exact Or.inl (UInt8.lt_iff_toNat_lt.mpr h)
  · exact Or.inr (Or.inl (UInt8.toNat_inj.mp h))
  · exact Or.inr (Or.inr (UInt8.lt_iff_toNat_lt.mpr h))

theorem u8_lt_asymm {a b : UInt8} (h : a < b) : ¬ b < a := by
  have := UInt8.lt_iff_toNat_lt.mp h
  intro h2
  have := UInt8.lt_iff_toNat_lt.mp h2
  omega

theorem u8_lt_irrefl (a : UInt8) : ¬ a < a := fun h => u8_lt_asymm h h

/-- exactly one of `a < b`, `a = b`, `b < a` -/
theorem bytesLt_trichotomy : ∀ a b : Bytes,
    (bytesLt a b = true ∧ a ≠ b ∧ bytesLt b a = false) ∨ (bytesLt a b = false ∧ a = b ∧ bytesLt b a = false) ∨
    (bytesLt a b = false ∧ a ≠ b ∧ bytesLt b a = true)
  | [], [] => by simp [bytesLt]
  | [], _ :: _ => by simp [bytesLt]
  | _ :: _, [] => by simp [bytesLt]
  | a :: as, b :: bs => by
    rcases u8_lt_trichotomy a b with h | h | h
    · have h2 := u8_lt_asymm h
      have hne : a ≠ b := fun e => u8_lt_irrefl b (e ▸ h)
      simp [bytesLt, h, h2, hne]
    · subst h
      have := bytesLt_trichotomy as bs
      simp only [bytesLt, u8_lt_irrefl a, if_false, List.cons.injEq, true_and, ne_eq]
      exact this
    · have h2 := u8_lt_asymm h
      have hne : a ≠ b := fun e => u8_lt_irrefl b (e ▸ h)
      simp [bytesLt, h, h2, hne]

theorem bytesLt_trans : ∀ a b c : Bytes, bytesLt a b = true → bytesLt b c = true → bytesLt a c = true
  | [], [], _, h, _ => by simp [bytesLt] at h
  | [], _ :: _, [], _, h => by simp [bytesLt] at h
  | [], _ :: _, _ :: _, _, _ => by simp [bytesLt]
  | _ :: _, [], _, h, _ => by simp [bytesLt] at h
  | _ :: _, _ :: _, [], _, h => by simp [bytesLt] at h
  | a :: as, b :: bs, c :: cs, h1, h2 => by
    simp only [bytesLt] at h1 h2 ⊢
    by_cases hab : a < b
    · by_cases hbc : b < c
      · have : a < c := UInt8.lt_iff_toNat_lt.mpr (Nat.lt_trans (UInt8.lt_iff_toNat_lt.mp hab) (UInt8.lt_iff_toNat_lt.mp hbc))
        simp [this]
      · simp only [hbc, if_false] at h2
        by_cases hcb : c < b
        · simp [hcb] at h2
        · have : b = c := by rcases u8_lt_trichotomy b c with h | h | h <;> first | exact absurd h hbc | exact h | exact absurd h hcb
          subst this; simp [hab]
    · simp only [hab, if_false] at h1
      by_cases hba : b < a
      · simp [hba] at h1
      · have : a = b := by rcases u8_lt_trichotomy a b with h | h | h <;> first | exact absurd h hab | exact h | exact absurd h hba
        subst this
        simp only [hba, if_false] at h1
        by_cases hbc : a < c
        · simp [hbc]
        · simp only [hbc, if_false] at h2 ⊢
          by_cases hcb : c < a
          · simp [hcb] at h2
          · simp only [hcb, if_false] at h2 ⊢
            exact bytesLt_trans as bs cs h1 h2

/-- C16.peer_eq_iff: two `PeerAddress` objects compare equal exactly when services, address and port all agree -/
theorem C16_peer_eq_iff (a b : PeerAddress) : a.eq b = true ↔ a = b := by
  cases a; cases b
  simp [PeerAddress.eq, and_assoc]

/-- C16.peer_order_total: `<` on `PeerAddress` is a strict total order compatible with `==`: exactly one of
`a < b`, `a == b`, `b < a` holds -/
theorem C16_peer_order_total (a b : PeerAddress) :
    (a.lt b = true ∧ a.eq b = false ∧ b.lt a = false) ∨ (a.lt b = false ∧ a.eq b = true ∧ b.lt a = false) ∨
    (a.lt b = false ∧ a.eq b = false ∧ b.lt a = true) := by
  obtain ⟨s1, i1, p1⟩ := a
  obtain ⟨s2, i2, p2⟩ := b
  simp only [PeerAddress.lt, PeerAddress.eq, ne_eq]
  by_cases hi : i1 = i2
  · subst hi
    by_cases hp : p1 = p2
    · subst hp
      by_cases hs : s1 = s2
      · subst hs; simp
      · rcases Int.lt_trichotomy s1 s2 with h | h | h
        · have : ¬ s2 < s1 := by omega
          simp [h, this, hs]
        · exact absurd h hs
        · have : ¬ s1 < s2 := by omega
          have hs' : ¬ s2 = s1 := fun e => hs e.symm
          simp [h, this, hs, hs']
    · have hp' : ¬ p2 = p1 := fun e => hp e.symm
      rcases Int.lt_trichotomy p1 p2 with h | h | h
      · have : ¬ p2 < p1 := by omega
        simp [h, this, hp, hp']
      · exact absurd h hp
      · have : ¬ p1 < p2 := by omega
        simp [h, this, hp, hp']
  · have hi' : ¬ i2 = i1 := fun e => hi e.symm
    rcases bytesLt_trichotomy i1 i2 with ⟨h1, _, h3⟩ | ⟨_, h2, _⟩ | ⟨h1, _, h3⟩
    · simp [hi, hi', h1, h3]
    · exact absurd h2 hi
    · simp [hi, hi', h1, h3]

/-- C16.peer_lt_trans -/
theorem C16_peer_lt_trans (a b c : PeerAddress) (h1 : a.lt b = true) (h2 : b.lt c = true) : a.lt c = true := by
  obtain ⟨s1, i1, p1⟩ := a
  obtain ⟨s2, i2, p2⟩ := b
  obtain ⟨s3, i3, p3⟩ := c
  simp only [PeerAddress.lt, ne_eq] at h1 h2 ⊢
  by_cases h12 : i1 = i2
  · subst h12
    by_cases h23 : i1 = i3
    · subst h23
      simp only [not_true_eq_false, if_false] at h1 h2 ⊢
      by_cases q12 : p1 = p2
      · subst q12
        simp only [not_true_eq_false, if_false] at h1
        by_cases q23 : p1 = p3
        · subst q23; simp only [not_true_eq_false, if_false] at h2 ⊢
          simp only [decide_eq_true_eq] at h1 h2 ⊢; omega
        · simpa [q23] using h2
      · simp only [q12, not_false_eq_true, if_true, decide_eq_true_eq] at h1
        by_cases q23 : p2 = p3
        · subst q23; simp [q12, h1]
        · simp only [q23, not_false_eq_true, if_true, decide_eq_true_eq] at h2
          have : ¬ p1 = p3 := by omega
          simp only [this, not_false_eq_true, if_true, decide_eq_true_eq]; omega
    · simpa [h23] using h2
  · simp only [h12, not_false_eq_true, if_true] at h1
    by_cases h23 : i2 = i3
    · subst h23; simp [h12, h1]
    · simp only [h23, not_false_eq_true, if_true] at h2
      have ht := bytesLt_trans _ _ _ h1 h2
      have : ¬ i1 = i3 := by
        intro e; subst e
        rw [bytesLt_irrefl] at ht; cases ht
      simp [this, ht]

/-- C16.peer_ip4_embedding: a 4-byte address is stored as the 16-byte IPv4-mapped address (`IP4_HEADER` then the four
bytes) and `host()` prints those four bytes in dotted decimal; any other length than 4 or 16 is refused -/
theorem C16_peer_ip4_embedding (s p : Int) (b0 b1 b2 b3 : UInt8) :
    PeerAddress.new s [b0, b1, b2, b3] p = some ⟨s, ip4Header ++ [b0, b1, b2, b3], p⟩ ∧
    (PeerAddress.mk s (ip4Header ++ [b0, b1, b2, b3]) p).host =
      natToDec b0.toNat ++ '.' :: (natToDec b1.toNat ++ '.' :: (natToDec b2.toNat ++ '.' :: natToDec b3.toNat)) ∧
    (∀ ip : Bytes, ip.length ≠ 4 → ip.length ≠ 16 → PeerAddress.new s ip p = none) ∧
    (∀ ip : Bytes, ip.length = 16 → PeerAddress.new s ip p = some ⟨s, ip, p⟩) := by
  refine ⟨by simp [PeerAddress.new, ip4Header], ?_, ?_, ?_⟩
  · have h1 : ip4Header.isPrefixOf (ip4Header ++ [b0, b1, b2, b3]) = true := by
      simp [ip4Header, List.isPrefixOf]
    simp only [PeerAddress.host, h1, if_true]
    simp [ip4Text, ip4Header, joinWith]
  · intro ip h4 h16
    simp [PeerAddress.new, h4, h16]
  · intro ip h16
    have : ip.length ≠ 4 := by omega
    simp [PeerAddress.new, this, h16]

/-- C16.inv_eq_iff / hash: `InvItem`s compare equal exactly when type and hash agree, and equal items hash the same key -/
theorem C16_inv_eq_iff (a b : InvItem) : (a.eq b = true ↔ a = b) ∧ (a.eq b = true → a.hashKey = b.hashKey) := by
  cases a; cases b
  simp [InvItem.eq, InvItem.hashKey]

/-- C16.inv_order_total: exactly one of `a < b`, `a == b`, `b < a` -/
theorem C16_inv_order_total (a b : InvItem) :
    (a.lt b = true ∧ a.eq b = false ∧ b.lt a = false) ∨ (a.lt b = false ∧ a.eq b = true ∧ b.lt a = false) ∨
    (a.lt b = false ∧ a.eq b = false ∧ b.lt a = true) := by
  obtain ⟨t1, d1⟩ := a
  obtain ⟨t2, d2⟩ := b
  simp only [InvItem.lt, InvItem.eq, ne_eq]
  by_cases ht : t1 = t2
  · subst ht
    rcases bytesLt_trichotomy d1 d2 with ⟨h1, h2, h3⟩ | ⟨h1, h2, h3⟩ | ⟨h1, h2, h3⟩
    · simp [h1, h2, h3]
    · subst h2; simp [h1]
    · simp [h1, h2, h3]
  · have ht' : ¬ t2 = t1 := fun e => ht e.symm
    rcases Int.lt_trichotomy t1 t2 with h | h | h
    · have : ¬ t2 < t1 := by omega
      simp [h, this, ht, ht']
    · exact absurd h ht
    · have : ¬ t1 < t2 := by omega
      simp [h, this, ht, ht']

/-- C16.inv_type_checked: without `dont_check` only the three item types of the table are accepted; with it (the
parser's path) any type is; the hash must be 32 bytes either way -/
theorem C16_inv_type_checked (t : Int) (d : Bytes) :
    (InvItem.new t d false = some ⟨t, d⟩ ↔ t ∈ checkedItemTypes ∧ d.length = 32) ∧
    (InvItem.new t d true = some ⟨t, d⟩ ↔ d.length = 32) := by
  constructor
  · by_cases hm : checkedItemTypes.contains t = true <;> by_cases hl : d.length = 32 <;>
      simp_all [InvItem.new]
  · by_cases hl : d.length = 32 <;> simp [InvItem.new, hl]

#guard (PeerAddress.mk 1 (List.replicate 15 0 ++ [1]) 8333).host = "0:0:0:0:0:0:0:1".toList
#guard (PeerAddress.mk 1 (ip4Header ++ [127, 0, 0, 1]) 8333).host = "127.0.0.1".toList
#guard bytesLt [1, 2] [1, 2, 0] && !bytesLt [1, 2, 0] [1, 2] && bytesLt [1, 255] [2]

end Pycoin.P2P
