import Pycoin.Model.Message
namespace Pycoin.C16
theorem C16_placeholder : True := trivial
end Pycoin.C16
