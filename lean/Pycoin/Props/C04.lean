import Pycoin.Proofs.SighashBip143
/-!
C04 — Signature hashes equal the consensus definition for every hash type.

Model: `Model/Sighash.lean` (mirrors `_signature_hash`, `delete_subscript`, `_delete_signature`, the BIP143 functions
of `SegwitChecker`, the Bcash/Bgold/Groestlcoin overrides).  Spec: `Spec/Sighash.lean` (Core's
`CTransactionSignatureSerializer`, `FindAndDelete`, BIP143, the fork-id variants), written independently.
SHA-256 is a function symbol: digests are equal because the digested bytes are.
`Tx.WF` = every field in its wire range; `Complete s` = every push of `s` is complete; `LenOk s` = `|s| < 2^63`.
-/
namespace Pycoin.Sighash
open Pycoin Pycoin.Wire Pycoin.Spec.Sighash Pycoin.Spec.Wire

/-! ## legacy -/

/-- C04.legacy_preimage_eq: for every transaction with fields in range, every input index, every script code whose
pushes are complete and every 32-bit hash-type word, the bytes `_signature_hash` digests are the bytes Core's
`CTransactionSignatureSerializer` writes (every NONE/SINGLE/ANYONECANPAY combination, any value of the unused bits),
and the early return happens exactly when consensus returns the constant one -/
theorem C04_legacy_preimage_eq (c : Coin) (tx : Tx) (hwf : tx.WF) (idx : Nat) (hidx : idx < tx.ins.length)
    (script : Bytes) (hc : Complete script) (hlen : LenOk script) (ht : Nat) (hht : ht < 2 ^ 32) :
    Sighash.legacyPreimage c tx script idx ht =
      .ok (if fHashSingle ht && decide (idx ≥ tx.outs.length) then none
           else some (Spec.Sighash.legacyPreimage tx idx script ht)) :=
  legacyPreimage_eq c tx hwf idx hidx script hc hlen ht hht

theorem beNat_one : beNat Spec.Sighash.one = Gen.Sighash.singleBugValue := by decide +kernel

/-- C04.legacy_digest_eq: `_signature_hash` of the Bitcoin, Litecoin and Groestlcoin classes returns consensus'
`SignatureHash` (as the big-endian integer of its 32 bytes), including the constant `0x01‖0^31` for SIGHASH_SINGLE
without a matching output -/
theorem C04_legacy_digest_eq (c : Coin) (hc' : requiresForkId c = false) (tx : Tx) (us : List (Option TxOut)) (hwf : tx.WF)
    (idx : Nat) (hidx : idx < tx.ins.length) (script : Bytes) (hc : Complete script) (hlen : LenOk script)
    (ht : Nat) (hht : ht < 2 ^ 32) :
    signatureHash c tx us script idx ht =
      .ok (beNat (signatureHashLegacy (sha (legacySingleSha c)) tx idx script ht)) := by
  unfold signatureHash legacySignatureHash signatureHashLegacy
  simp only [hc', Bool.false_eq_true, if_false, legacyPreimage_eq c tx hwf idx hidx script hc hlen ht hht]
  cases h : (fHashSingle ht && decide (idx ≥ tx.outs.length)) with
  | true => simp [beNat_one]
  | false => simp

/-! ## OP_CODESEPARATOR stripping and signature removal -/

/-- C04.codeseparator_strip: `delete_subscript(script, OP_CODESEPARATOR)` followed by the length-prefixed write is
`SerializeScriptCode`, for every script whose pushes are complete -/
theorem C04_codeseparator_strip (code : Bytes) (hc : Complete code) :
    ∃ stripped, deleteSubscript code Gen.Sighash.strippedSubscript = .ok stripped ∧
      serializeScriptCode code = varBytes stripped := by
  obtain ⟨s, h1, _, h2⟩ := strip_is_serializeScriptCode code hc
  exact ⟨s, h1, h2⟩

/-- C04.findAndDelete_eq (partial: the extra hypothesis is `Complete script`, i.e. no truncated push): removing a
signature as `_delete_signature` does equals Core's `FindAndDelete(script, CScript() << sig)` -/
theorem C04_findAndDelete_eq_partial (script sig : Bytes) (hc : Complete script) (hl : sig.length < 2 ^ 32) :
    deleteSignature script sig = .ok (findAndDelete script (pushData sig)) :=
  deleteSignature_eq_findAndDelete script sig hc hl

theorem filter_flatten_le (l : List Bytes) (p : Bytes → Bool) : (l.filter p).flatten.length ≤ l.flatten.length := by
  induction l with
  | nil => simp
  | cons a as ih =>
    simp only [List.filter_cons]
    split <;> simp only [List.flatten_cons, List.length_append] <;> omega

theorem sha_false : sha false = Pycoin.Hash.dsha256 := by
  funext b; simp [sha]

/-- C04.closure_eq (partial: the extra hypothesis `hc2` — the script left by FindAndDelete has complete pushes —
follows from `hc` but is not derived here): the closure of `_make_sighash_f` with one signature to remove (CHECKSIG)
is FindAndDelete followed by the legacy digest -/
theorem C04_closure_eq_partial (c : Coin) (hc' : requiresForkId c = false) (hd : closureDeletesSigs c = true) (tx : Tx)
    (us : List (Option TxOut)) (hwf : tx.WF) (idx : Nat) (hidx : idx < tx.ins.length) (script sig : Bytes)
    (hc : Complete script) (hc2 : Complete (findAndDelete script (pushData sig))) (hlen : LenOk script)
    (hl : sig.length < 2 ^ 32) (ht : Nat) (hht : ht < 2 ^ 32) :
    sighashF c tx us script [sig] idx ht =
      .ok (beNat (signatureHashLegacy (sha (legacySingleSha c)) tx idx (scriptCodeFor script [sig]) ht)) := by
  have hlen2 : LenOk (findAndDelete script (pushData sig)) := by
    have h1 := deleteSignature_eq_findAndDelete script sig hc hl
    obtain ⟨h2, h3⟩ := deleteSignature_subscript sig hl
    unfold deleteSignature at h1
    rw [h2] at h1
    simp only [h3] at h1
    rw [deleteSubscript_complete script _ hc] at h1
    have h4 := Except.ok.inj h1
    rw [← h4]
    have h5 := instrSections_flatten script hc
    have := filter_flatten_le (instrSections script) (fun s => decide (s ≠ pushData sig))
    rw [h5] at this
    unfold LenOk at hlen ⊢
    omega
  unfold sighashF
  simp only [hd, if_true, deleteSignatures, deleteSignature_eq_findAndDelete script sig hc hl]
  rw [C04_legacy_digest_eq c hc' tx us hwf idx hidx _ hc2 hlen2 ht hht]
  rfl

/-- the witness of DESIGN.md §8 row 23: `05 ab ab` (a push of 5 bytes cut short after 2) -/
def truncWitness : Bytes := [0x05, 0xab, 0xab]

theorem truncWitness_model : deleteSubscript truncWitness Gen.Sighash.strippedSubscript = .ok [0x05, 0xab] := by
  have h0 := getOpcodes_step_trunc truncWitness 0 0x05 [0xab, 0xab] rfl (by decide)
  have h2 := getOpcodes_step truncWitness 2 0xab [] rfl 0xab [] [] (by decide)
  have h3 := getOpcodes_end truncWitness 3 (by decide)
  have e1 : Script.truncPc 0 (0x05 : UInt8).toNat [0xab, 0xab] = 2 := by decide
  have e2 : truncWitness.length - ([] : Bytes).length = 3 := by decide
  rw [e1] at h0
  rw [e2, h3] at h2
  rw [h2] at h0
  unfold deleteSubscript sections
  rw [h0]
  rfl

/-- C04.findAndDelete_eq (refuted without the completeness hypothesis): on the script code `05 ab ab` pycoin's
instruction walker resynchronises inside the truncated push and strips the second `ab`; `SerializeScriptCode` does not.
(Such a script can never validate: execution fails at the truncated push.) -/
theorem C04_findAndDelete_eq_refuted :
    ¬ ∀ code : Bytes, ∃ stripped, deleteSubscript code Gen.Sighash.strippedSubscript = .ok stripped ∧
      serializeScriptCode code = varBytes stripped := by
  intro h
  obtain ⟨s, h1, h2⟩ := h truncWitness
  rw [truncWitness_model] at h1
  have := Except.ok.inj h1
  subst this
  revert h2
  decide

/-! ## BIP143 -/

/-- C04.bip143_preimage_eq: `_segwit_signature_preimage` writes the ten items of the BIP143 message -/
theorem C04_bip143_preimage_eq (c : Coin) (tx : Tx) (hwf : tx.WF) (us : List (Option TxOut)) (idx : Nat)
    (hidx : idx < tx.ins.length) (o : TxOut) (hu : us[idx]? = some (some o)) (hamt : U64 o.value) (script : Bytes)
    (hlen : LenOk script) (ht : Nat) (hht : ht < 2 ^ 32) :
    segwitPreimage c tx us script idx ht =
      .ok (bip143Preimage (sha (segwitPartsSingleSha c)) tx idx script o.value.toNat ht) :=
  segwitPreimage_eq c tx hwf us idx hidx o hu hamt script hlen ht hht

theorem sha_parts (c : Coin) : segwitSingleSha c = segwitPartsSingleSha c := by cases c <;> rfl

/-- C04.bip143_digest_eq: `_signature_for_hash_type_segwit` of the Bitcoin, Litecoin, Groestlcoin and Bitcoin Cash
classes is the BIP143 digest -/
theorem C04_bip143_digest_eq (c : Coin) (hc : c ≠ .btg) (tx : Tx) (hwf : tx.WF) (us : List (Option TxOut)) (idx : Nat)
    (hidx : idx < tx.ins.length) (o : TxOut) (hu : us[idx]? = some (some o)) (hamt : U64 o.value) (script : Bytes)
    (hlen : LenOk script) (ht : Nat) (hht : ht < 2 ^ 32) :
    segwitSignatureHash c tx us script idx ht =
      .ok (beNat (signatureHashBip143 (sha (segwitSingleSha c)) tx idx script o.value.toNat ht)) := by
  have h1 : segwitRequiresForkId c = false := by cases c <;> first | rfl | exact absurd rfl hc
  have h2 : forkId c = 0 := by cases c <;> first | rfl | exact absurd rfl hc
  unfold segwitSignatureHash signatureHashBip143
  simp only [h1, Bool.false_and, Bool.false_eq_true, if_false, h2, Nat.zero_shiftLeft, Nat.or_zero,
    segwitPreimage_eq c tx hwf us idx hidx o hu hamt script hlen ht hht, sha_parts]

/-! ## fork-id coins -/

theorem or_forkid_lt (ht : Nat) (hht : ht < 2 ^ 32) : ht ||| (79 <<< 8) < 2 ^ 32 :=
  Nat.or_lt_two_pow hht (by decide)

theorem forkid_flag (ht : Nat) : (ht &&& 0x40 ≠ 0x40) ↔ (ht &&& SIGHASH_FORKID == 0) = true := by
  have h : ht &&& 0x40 = 0 ∨ ht &&& 0x40 = 0x40 := by
    have h1 : ht &&& 0x40 ≤ 0x40 := Nat.and_le_right
    have h2 : (ht &&& 0x40) &&& 0x3f = 0 := by
      rw [Nat.and_assoc]; simp
    by_cases h0 : ht &&& 0x40 = 0
    · exact Or.inl h0
    · right
      have hlt : (ht &&& 0x40) < 0x80 := by omega
      -- the only number ≤ 0x40 whose low six bits are zero, other than 0, is 0x40
      have := Nat.and_two_pow_sub_one_eq_mod (ht &&& 0x40) 6
      simp only [show (2:Nat)^6 - 1 = 0x3f from rfl] at this
      rw [h2] at this
      omega
  rcases h with h | h <;> simp [h, SIGHASH_FORKID]

/-- C04.forkid_eq (Bitcoin Cash): `_signature_hash` refuses a hash type without the fork-id bit and otherwise returns the
BIP143 digest with the hash-type word as it is (fork value 0) -/
theorem C04_forkid_eq_bch (tx : Tx) (hwf : tx.WF) (us : List (Option TxOut)) (idx : Nat)
    (hidx : idx < tx.ins.length) (o : TxOut) (hu : us[idx]? = some (some o)) (hamt : U64 o.value) (script : Bytes)
    (hlen : LenOk script) (ht : Nat) (hht : ht < 2 ^ 32) :
    signatureHash .bch tx us script idx ht =
      match signatureHashForkId BCH_FORK_VALUE Pycoin.Hash.dsha256 tx idx script o.value.toNat ht with
      | none => .error .scriptError
      | some d => .ok (beNat d) := by
  unfold signatureHash signatureHashForkId
  have hr : requiresForkId .bch = true := rfl
  simp only [hr, if_true, c_forkid]
  by_cases h : ht &&& 0x40 ≠ 0x40
  · simp [h, (forkid_flag ht).mp h]
  · have h' : ¬ ((ht &&& SIGHASH_FORKID == 0) = true) := fun hh => h ((forkid_flag ht).mpr hh)
    simp only [h, if_false, h']
    rw [C04_bip143_digest_eq .bch (by decide) tx hwf us idx hidx o hu hamt script hlen ht hht]
    simp [BCH_FORK_VALUE, segwitSingleSha, Gen.Sighash.bch_segwitSingleSha, sha_false]

/-- C04.forkid_eq (Bitcoin Gold): both `_signature_hash` and `_signature_for_hash_type_segwit` refuse a hash type
without the fork-id bit and otherwise return the BIP143 digest of the hash-type word `ht | 79·256` -/
theorem C04_forkid_eq_btg (tx : Tx) (hwf : tx.WF) (us : List (Option TxOut)) (idx : Nat)
    (hidx : idx < tx.ins.length) (o : TxOut) (hu : us[idx]? = some (some o)) (hamt : U64 o.value) (script : Bytes)
    (hlen : LenOk script) (ht : Nat) (hht : ht < 2 ^ 32) :
    (signatureHash .btg tx us script idx ht =
      match signatureHashForkId BTG_FORK_ID Pycoin.Hash.dsha256 tx idx script o.value.toNat ht with
      | none => .error .scriptError
      | some d => .ok (beNat d)) ∧
    segwitSignatureHash .btg tx us script idx ht = signatureHash .btg tx us script idx ht := by
  have hseg : segwitSignatureHash .btg tx us script idx ht =
      match signatureHashForkId BTG_FORK_ID Pycoin.Hash.dsha256 tx idx script o.value.toNat ht with
      | none => .error .scriptError
      | some d => .ok (beNat d) := by
    unfold segwitSignatureHash signatureHashForkId signatureHashBip143
    have hr : segwitRequiresForkId .btg = true := rfl
    have hf : forkId .btg = 79 := rfl
    simp only [hr, Bool.true_and, c_forkid, hf]
    by_cases h : ht &&& 0x40 ≠ 0x40
    · simp [h, (forkid_flag ht).mp h]
    · have h' : ¬ ((ht &&& SIGHASH_FORKID == 0) = true) := fun hh => h ((forkid_flag ht).mpr hh)
      simp only [h, decide_false, Bool.false_eq_true, if_false, h',
        segwitPreimage_eq .btg tx hwf us idx hidx o hu hamt script hlen _ (or_forkid_lt ht hht)]
      simp [BTG_FORK_ID, segwitSingleSha, segwitPartsSingleSha, Gen.Sighash.btg_segwitSingleSha,
        Gen.Sighash.btg_segwitPartsSingleSha, sha_false]
  refine ⟨?_, ?_⟩
  · unfold signatureHash
    have hr : requiresForkId .btg = true := rfl
    simp only [hr, if_true, c_forkid]
    by_cases h : ht &&& 0x40 ≠ 0x40
    · simp [h, signatureHashForkId, (forkid_flag ht).mp h]
    · simp only [h, if_false]
      exact hseg
  · unfold signatureHash
    have hr : requiresForkId .btg = true := rfl
    simp only [hr, if_true, c_forkid]
    by_cases h : ht &&& 0x40 ≠ 0x40
    · rw [hseg]
      simp [h, signatureHashForkId, (forkid_flag ht).mp h]
    · simp only [h, if_false]

/-! ## Groestlcoin -/

/-- C04.grs_single_sha: the Groestlcoin class computes the same preimages and applies SHA-256 once everywhere:
to the legacy message, to the BIP143 message and to its three part hashes -/
theorem C04_grs_single_sha :
    sha (legacySingleSha .grs) = Pycoin.Hash.sha256 ∧ sha (segwitSingleSha .grs) = Pycoin.Hash.sha256 ∧
    sha (segwitPartsSingleSha .grs) = Pycoin.Hash.sha256 ∧
    (∀ c : Coin, c ≠ .grs → sha (legacySingleSha c) = Pycoin.Hash.dsha256 ∧ sha (segwitSingleSha c) = Pycoin.Hash.dsha256 ∧
      sha (segwitPartsSingleSha c) = Pycoin.Hash.dsha256) := by
  refine ⟨rfl, rfl, rfl, ?_⟩
  intro c hc
  cases c <;> first | exact absurd rfl hc | exact ⟨rfl, rfl, rfl⟩

/-! ## purity -/

/-- C04.sighash_pure: the call returns a digest (or raises) and leaves the transaction and its unspents as they were;
the model builds a new temporary transaction and never returns it -/
theorem C04_sighash_pure (c : Coin) (tx : Tx) (us : List (Option TxOut)) (script : Bytes) (idx ht : Nat) :
    (signatureHashSt c tx us script idx ht).1 = (tx, us) := rfl

/-! ## non-vacuity: a concrete instance of the hypotheses, evaluated -/

def exIn (n : UInt8) (q : Int) : TxIn := ⟨List.replicate 32 n, 3, [0x51], q, [[1, 2]]⟩
def exTx : Tx := ⟨2, [exIn 1 0xFFFFFFFF, exIn 2 5, exIn 3 0], [⟨5000, [0x76, 0xa9]⟩, ⟨0, []⟩], 500000⟩
def exCode : Bytes := [0x76, 0xab, 0x02, 0xab, 0xab, 0xac, 0xab]
def exUs : List (Option TxOut) := [some ⟨7, [0x51]⟩, some ⟨8, []⟩, some ⟨9, [0x52]⟩]

#guard decide (Complete exCode)
#guard (match Sighash.legacyPreimage .btc exTx exCode 1 0x83 with
  | .ok (some p) => p == Spec.Sighash.legacyPreimage exTx 1 exCode 0x83 | _ => false)
#guard (match Sighash.legacyPreimage .btc exTx exCode 2 0x03 with | .ok none => true | _ => false)
#guard (match segwitPreimage .btc exTx exUs exCode 1 0x42 with
  | .ok p => p == bip143Preimage Pycoin.Hash.dsha256 exTx 1 exCode 8 0x42 | _ => false)
#guard (match signatureHash .bch exTx exUs exCode 0 0x01 with | .error .scriptError => true | _ => false)
#guard (match segwitSignatureHash .btg exTx exUs exCode 0 0x01 with | .error .scriptError => true | _ => false)
#guard (match deleteSignature [0x51, 0x02, 0x30, 0x01, 0xac] [0x30, 0x01] with | .ok b => b == [0x51, 0xac] | _ => false)

end Pycoin.Sighash
