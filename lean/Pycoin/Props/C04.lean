import Pycoin.Proofs.SighashBip143
/-!
C04 — Signature hashes equal the consensus definition for every hash type.

Model: `Model/Sighash.lean` (mirrors `_signature_hash`, `delete_subscript`, `_delete_signature`, the BIP143 functions
of `SegwitChecker`, the Bcash/Bgold/Groestlcoin overrides).  Spec: `Spec/Sighash.lean` (Core's
`CTransactionSignatureSerializer`, `FindAndDelete`, BIP143, the fork-id variants), written independently.
SHA-256 is a function symbol: digests are equal because the digested bytes are.
`Tx.WF` = every field in its wire range; `Complete s` = every push of `s` is complete; `TailWritten s` = Core's
`SerializeScriptCode` writes the whole undecodable rest of `s` (implied by `Complete s`); `LenOk s` = `|s| < 2^63`.
-/
namespace Pycoin.Sighash
open Pycoin Pycoin.Wire Pycoin.Spec.Sighash Pycoin.Spec.Wire

/-! ## legacy -/

/-- C04.legacy_preimage_eq (widest scope): for every transaction with fields in range, every input index, every 32-bit
hash-type word and every script code of which Core's `SerializeScriptCode` writes the whole undecodable rest
(`TailWritten`: every script whose pushes are complete, and those that end in a push opcode without any payload byte),
the bytes `_signature_hash` digests are the bytes Core's `CTransactionSignatureSerializer` writes (every
NONE/SINGLE/ANYONECANPAY combination, any value of the unused bits), and the early return happens exactly when
consensus returns the constant one.  For the remaining script codes see `C04_codeseparator_strip` (what the two
serialisations share) and `C04_codeseparator_strip_refuted`. -/
theorem C04_legacy_preimage_eq_tailWritten (c : Coin) (tx : Tx) (hwf : tx.WF) (idx : Nat) (hidx : idx < tx.ins.length)
    (script : Bytes) (hc : TailWritten script) (hlen : LenOk script) (ht : Nat) (hht : ht < 2 ^ 32) :
    Sighash.legacyPreimage c tx script idx ht =
      .ok (if fHashSingle ht && decide (idx ≥ tx.outs.length) then none
           else some (Spec.Sighash.legacyPreimage tx idx script ht)) :=
  legacyPreimage_eq_tw c tx hwf idx hidx script hc hlen ht hht

/-- every script whose pushes are complete is in the scope of the legacy theorems -/
theorem C04_complete_in_scope (script : Bytes) (hc : Complete script) : TailWritten script := tailWritten_of_complete hc

/-- C04.legacy_preimage_eq: the same for every script code whose pushes are complete (every script that can validate) -/
theorem C04_legacy_preimage_eq (c : Coin) (tx : Tx) (hwf : tx.WF) (idx : Nat) (hidx : idx < tx.ins.length)
    (script : Bytes) (hc : Complete script) (hlen : LenOk script) (ht : Nat) (hht : ht < 2 ^ 32) :
    Sighash.legacyPreimage c tx script idx ht =
      .ok (if fHashSingle ht && decide (idx ≥ tx.outs.length) then none
           else some (Spec.Sighash.legacyPreimage tx idx script ht)) :=
  legacyPreimage_eq c tx hwf idx hidx script hc hlen ht hht

theorem beNat_one : beNat Spec.Sighash.one = Gen.Sighash.singleBugValue := by decide +kernel

/-- C04.legacy_digest_eq (widest scope): `_signature_hash` of the Bitcoin, Litecoin and Groestlcoin classes returns
consensus' `SignatureHash` (as the big-endian integer of its 32 bytes), including the constant `0x01‖0^31` for
SIGHASH_SINGLE without a matching output -/
theorem C04_legacy_digest_eq_tailWritten (c : Coin) (hc' : requiresForkId c = false) (tx : Tx) (us : List (Option TxOut)) (hwf : tx.WF)
    (idx : Nat) (hidx : idx < tx.ins.length) (script : Bytes) (hc : TailWritten script) (hlen : LenOk script)
    (ht : Nat) (hht : ht < 2 ^ 32) :
    signatureHash c tx us script idx ht =
      .ok (beNat (signatureHashLegacy (sha (legacySingleSha c)) tx idx script ht)) := by
  unfold signatureHash legacySignatureHash signatureHashLegacy
  simp only [hc', Bool.false_eq_true, if_false, legacyPreimage_eq_tw c tx hwf idx hidx script hc hlen ht hht]
  cases h : (fHashSingle ht && decide (idx ≥ tx.outs.length)) with
  | true => simp [beNat_one]
  | false => simp

/-- C04.legacy_digest_eq: the same for every script code whose pushes are complete -/
theorem C04_legacy_digest_eq (c : Coin) (hc' : requiresForkId c = false) (tx : Tx) (us : List (Option TxOut)) (hwf : tx.WF)
    (idx : Nat) (hidx : idx < tx.ins.length) (script : Bytes) (hc : Complete script) (hlen : LenOk script)
    (ht : Nat) (hht : ht < 2 ^ 32) :
    signatureHash c tx us script idx ht =
      .ok (beNat (signatureHashLegacy (sha (legacySingleSha c)) tx idx script ht)) :=
  C04_legacy_digest_eq_tailWritten c hc' tx us hwf idx hidx script (tailWritten_of_complete hc) hlen ht hht

/-! ## OP_CODESEPARATOR stripping and signature removal -/

/-- C04.codeseparator_strip, for **every** script code: `delete_subscript(script, OP_CODESEPARATOR)` drops the
one-byte `ab` instructions of the part Core's `GetScriptOp` decodes and keeps the undecodable rest `T` (empty, or
starting with a push cut short by the end of the script) as it is; the result has the length `SerializeScriptCode`
announces (`size − #OP_CODESEPARATOR`); and `SerializeScriptCode` writes the same bytes, except that of `T` it writes
only the `failAdvance T` bytes the failed `GetScriptOp` moved over -/
theorem C04_codeseparator_strip (code : Bytes) :
    ∃ body, deleteSubscript code Gen.Sighash.strippedSubscript = .ok (body ++ instrTail code) ∧
      (body ++ instrTail code).length ≤ code.length ∧
      serializeScriptCode code =
        compactSize (body ++ instrTail code).length ++ (body ++ (instrTail code).take (failAdvance (instrTail code))) :=
  ⟨strippedBody code, strip_serializeScriptCode_all code⟩

/-- C04.codeseparator_strip (exact scope): the length-prefixed write of the stripped script is `SerializeScriptCode`
**iff** Core writes the whole undecodable rest -/
theorem C04_codeseparator_strip_iff (code : Bytes) :
    (∃ stripped, deleteSubscript code Gen.Sighash.strippedSubscript = .ok stripped ∧
      serializeScriptCode code = varBytes stripped) ↔ TailWritten code := by
  constructor
  · rintro ⟨s, h1, h2⟩
    rw [(strip_serializeScriptCode_all code).1] at h1
    rw [← Except.ok.inj h1] at h2
    exact (strip_serializeScriptCode_iff code).mp h2
  · intro h
    obtain ⟨s, h1, _, h2⟩ := strip_is_serializeScriptCode_tw code h
    exact ⟨s, h1, h2⟩

/-- C04.codeseparator_strip for scripts whose pushes are complete (the form the property needs for every script that
can validate) -/
theorem C04_codeseparator_strip_complete (code : Bytes) (hc : Complete code) :
    ∃ stripped, deleteSubscript code Gen.Sighash.strippedSubscript = .ok stripped ∧
      serializeScriptCode code = varBytes stripped :=
  (C04_codeseparator_strip_iff code).mpr (tailWritten_of_complete hc)

/-- C04.findAndDelete_eq, for **every** script: removing a signature as `_delete_signature` does equals Core's
`FindAndDelete(script, CScript() << sig)` (the walk stops at a push cut short by the end of the script and the rest is
kept as it is) -/
theorem C04_findAndDelete_eq (script sig : Bytes) (hl : sig.length < 2 ^ 32) :
    deleteSignature script sig = .ok (findAndDelete script (pushData sig)) :=
  deleteSignature_eq_findAndDelete script sig hl

/-- C04.findAndDelete_eq for the signature list of a CHECKMULTISIG -/
theorem C04_findAndDelete_list_eq (script : Bytes) (sigs : List Bytes) (hl : ∀ s ∈ sigs, s.length < 2 ^ 32) :
    deleteSignatures script sigs = .ok (scriptCodeFor script sigs) :=
  deleteSignatures_eq_scriptCodeFor sigs script hl

/-- C04.findAndDelete_complete: removing signature pushes keeps complete pushes complete, leaves the undecodable rest of
the script alone, and never lengthens the script -/
theorem C04_findAndDelete_complete (script : Bytes) (sigs : List Bytes) (hl : ∀ s ∈ sigs, s.length < 2 ^ 32) :
    (Complete script → Complete (scriptCodeFor script sigs)) ∧
    (TailWritten script → TailWritten (scriptCodeFor script sigs)) ∧
    (scriptCodeFor script sigs).length ≤ script.length :=
  scriptCodeFor_facts sigs script hl

theorem sha_false : sha false = Pycoin.Hash.dsha256 := by
  funext b; simp [sha]

/-- C04.closure_scriptcode, for **every** script: the closure of `_make_sighash_f` hands `_signature_hash` the script
code consensus computes (`FindAndDelete` of every signature push; Bitcoin Cash: the script as it stands) -/
theorem C04_closure_scriptcode (c : Coin) (tx : Tx) (us : List (Option TxOut)) (script : Bytes) (sigs : List Bytes)
    (hl : ∀ s ∈ sigs, s.length < 2 ^ 32) (idx ht : Nat) :
    sighashF c tx us script sigs idx ht =
      signatureHash c tx us (if closureDeletesSigs c then scriptCodeFor script sigs else script) idx ht := by
  unfold sighashF
  cases closureDeletesSigs c with
  | true => simp [deleteSignatures_eq_scriptCodeFor sigs script hl]
  | false => simp

/-- C04.closure_eq: the closure of `_make_sighash_f` with the signatures of a CHECKSIG / CHECKMULTISIG to remove is
FindAndDelete followed by the legacy digest (no hypothesis about the script left by FindAndDelete: it inherits
`TailWritten`, `Complete` and the length bound from the script) -/
theorem C04_closure_eq (c : Coin) (hc' : requiresForkId c = false) (hd : closureDeletesSigs c = true) (tx : Tx)
    (us : List (Option TxOut)) (hwf : tx.WF) (idx : Nat) (hidx : idx < tx.ins.length) (script : Bytes) (sigs : List Bytes)
    (hc : TailWritten script) (hlen : LenOk script)
    (hl : ∀ s ∈ sigs, s.length < 2 ^ 32) (ht : Nat) (hht : ht < 2 ^ 32) :
    sighashF c tx us script sigs idx ht =
      .ok (beNat (signatureHashLegacy (sha (legacySingleSha c)) tx idx (scriptCodeFor script sigs) ht)) := by
  obtain ⟨_, h2, h3⟩ := scriptCodeFor_facts sigs script hl
  have hlen2 : LenOk (scriptCodeFor script sigs) := by unfold LenOk at hlen ⊢; omega
  rw [C04_closure_scriptcode c tx us script sigs hl idx ht, hd, if_pos rfl]
  exact C04_legacy_digest_eq_tailWritten c hc' tx us hwf idx hidx _ (h2 hc) hlen2 ht hht

/-- the witness of DESIGN.md §8 row 23: `05 ab ab` (a push of 5 bytes cut short after 2) -/
def truncWitness : Bytes := [0x05, 0xab, 0xab]

/-- regression (fixed: the walker stepped into the truncated push, resynchronised there and stripped the second `ab`):
the repaired `delete_subscript` keeps `05 ab ab` as it is, and signature removal on a script ending so is FindAndDelete -/
example : deleteSubscript truncWitness Gen.Sighash.strippedSubscript = .ok [0x05, 0xab, 0xab] := by
  rw [(strip_serializeScriptCode_all truncWitness).1]; exact congrArg Except.ok (by decide)
example : deleteSignature (0x01 :: 0x30 :: truncWitness) [0x30] = .ok truncWitness := by
  rw [C04_findAndDelete_eq _ _ (by decide)]; exact congrArg Except.ok (by decide)
example : ¬ Complete truncWitness ∧ ¬ TailWritten truncWitness ∧ TailWritten [0x51, 0x05] ∧ ¬ Complete [0x51, 0x05] := by decide

/-- C04.codeseparator_strip (refuted as an equality of serialisations without `TailWritten`): for the script code
`05 ab ab` pycoin serialises `03 05 ab ab`; Core's `SerializeScriptCode` announces three bytes and writes one, `03 05`
(its last `write` ends where the failed `GetScriptOp` left the iterator).  No value of a `TxIn.script` serialises to
that; such a script can never validate (execution fails at the truncated push). Recorded as known finding
`truncated-push-short-write`. -/
theorem C04_codeseparator_strip_refuted :
    ¬ ∀ code : Bytes, ∃ stripped, deleteSubscript code Gen.Sighash.strippedSubscript = .ok stripped ∧
      serializeScriptCode code = varBytes stripped := by
  intro h
  have := (C04_codeseparator_strip_iff truncWitness).mp (h truncWitness)
  revert this
  decide

/-! ## BIP143 -/

/-- C04.bip143_preimage_eq: `_segwit_signature_preimage` writes the ten items of the BIP143 message -/
theorem C04_bip143_preimage_eq (c : Coin) (tx : Tx) (hwf : tx.WF) (us : List (Option TxOut)) (idx : Nat)
    (hidx : idx < tx.ins.length) (o : TxOut) (hu : us[idx]? = some (some o)) (hamt : U64 o.value) (script : Bytes)
    (hlen : LenOk script) (ht : Nat) (hht : ht < 2 ^ 32) :
    segwitPreimage c tx us script idx ht =
      .ok (bip143Preimage (sha (segwitPartsSingleSha c)) tx idx script o.value.toNat ht) :=
  segwitPreimage_eq c tx hwf us idx hidx o hu hamt script hlen ht hht

theorem sha_parts (c : Coin) : segwitSingleSha c = segwitPartsSingleSha c := by cases c <;> rfl

/-- C04.bip143_digest_eq: `_signature_for_hash_type_segwit` of the Bitcoin, Litecoin, Groestlcoin and Bitcoin Cash
classes is the BIP143 digest -/
theorem C04_bip143_digest_eq (c : Coin) (hc : c ≠ .btg) (tx : Tx) (hwf : tx.WF) (us : List (Option TxOut)) (idx : Nat)
    (hidx : idx < tx.ins.length) (o : TxOut) (hu : us[idx]? = some (some o)) (hamt : U64 o.value) (script : Bytes)
    (hlen : LenOk script) (ht : Nat) (hht : ht < 2 ^ 32) :
    segwitSignatureHash c tx us script idx ht =
      .ok (beNat (signatureHashBip143 (sha (segwitSingleSha c)) tx idx script o.value.toNat ht)) := by
  have h1 : segwitRequiresForkId c = false := by cases c <;> first | rfl | exact absurd rfl hc
  have h2 : forkId c = 0 := by cases c <;> first | rfl | exact absurd rfl hc
  unfold segwitSignatureHash signatureHashBip143
  simp only [h1, Bool.false_and, Bool.false_eq_true, if_false, h2, Nat.zero_shiftLeft, Nat.or_zero,
    segwitPreimage_eq c tx hwf us idx hidx o hu hamt script hlen ht hht, sha_parts]

/-! ## fork-id coins -/

theorem or_forkid_lt (ht : Nat) (hht : ht < 2 ^ 32) : ht ||| (79 <<< 8) < 2 ^ 32 :=
  Nat.or_lt_two_pow hht (by decide)

theorem forkid_flag (ht : Nat) : (ht &&& 0x40 ≠ 0x40) ↔ (ht &&& SIGHASH_FORKID == 0) = true := by
  have h : ht &&& 0x40 = 0 ∨ ht &&& 0x40 = 0x40 := by
    have h1 : ht &&& 0x40 ≤ 0x40 := Nat.and_le_right
    have h2 : (ht &&& 0x40) &&& 0x3f = 0 := by
      rw [Nat.and_assoc]; simp
    by_cases h0 : ht &&& 0x40 = 0
    · exact Or.inl h0
    · right
      have hlt : (ht &&& 0x40) < 0x80 := by omega
      -- the only number ≤ 0x40 whose low six bits are zero, other than 0, is 0x40
      have := Nat.and_two_pow_sub_one_eq_mod (ht &&& 0x40) 6
      simp only [show (2:Nat)^6 - 1 = 0x3f from rfl] at this
      rw [h2] at this
      omega
  rcases h with h | h <;> simp [h, SIGHASH_FORKID]

/-- C04.forkid_eq (Bitcoin Cash): `_signature_hash` refuses a hash type without the fork-id bit and otherwise returns the
BIP143 digest with the hash-type word as it is (fork value 0) -/
theorem C04_forkid_eq_bch (tx : Tx) (hwf : tx.WF) (us : List (Option TxOut)) (idx : Nat)
    (hidx : idx < tx.ins.length) (o : TxOut) (hu : us[idx]? = some (some o)) (hamt : U64 o.value) (script : Bytes)
    (hlen : LenOk script) (ht : Nat) (hht : ht < 2 ^ 32) :
    signatureHash .bch tx us script idx ht =
      match signatureHashForkId BCH_FORK_VALUE Pycoin.Hash.dsha256 tx idx script o.value.toNat ht with
      | none => .error .scriptError
      | some d => .ok (beNat d) := by
  unfold signatureHash signatureHashForkId
  have hr : requiresForkId .bch = true := rfl
  simp only [hr, if_true, c_forkid]
  by_cases h : ht &&& 0x40 ≠ 0x40
  · simp [h, (forkid_flag ht).mp h]
  · have h' : ¬ ((ht &&& SIGHASH_FORKID == 0) = true) := fun hh => h ((forkid_flag ht).mpr hh)
    simp only [h, if_false, h']
    rw [C04_bip143_digest_eq .bch (by decide) tx hwf us idx hidx o hu hamt script hlen ht hht]
    simp [BCH_FORK_VALUE, segwitSingleSha, Gen.Sighash.bch_segwitSingleSha, sha_false]

/-- C04.forkid_eq (Bitcoin Gold): both `_signature_hash` and `_signature_for_hash_type_segwit` refuse a hash type
without the fork-id bit and otherwise return the BIP143 digest of the hash-type word `ht | 79·256` -/
theorem C04_forkid_eq_btg (tx : Tx) (hwf : tx.WF) (us : List (Option TxOut)) (idx : Nat)
    (hidx : idx < tx.ins.length) (o : TxOut) (hu : us[idx]? = some (some o)) (hamt : U64 o.value) (script : Bytes)
    (hlen : LenOk script) (ht : Nat) (hht : ht < 2 ^ 32) :
    (signatureHash .btg tx us script idx ht =
      match signatureHashForkId BTG_FORK_ID Pycoin.Hash.dsha256 tx idx script o.value.toNat ht with
      | none => .error .scriptError
      | some d => .ok (beNat d)) ∧
    segwitSignatureHash .btg tx us script idx ht = signatureHash .btg tx us script idx ht := by
  have hseg : segwitSignatureHash .btg tx us script idx ht =
      match signatureHashForkId BTG_FORK_ID Pycoin.Hash.dsha256 tx idx script o.value.toNat ht with
      | none => .error .scriptError
      | some d => .ok (beNat d) := by
    unfold segwitSignatureHash signatureHashForkId signatureHashBip143
    have hr : segwitRequiresForkId .btg = true := rfl
    have hf : forkId .btg = 79 := rfl
    simp only [hr, Bool.true_and, c_forkid, hf]
    by_cases h : ht &&& 0x40 ≠ 0x40
    · simp [h, (forkid_flag ht).mp h]
    · have h' : ¬ ((ht &&& SIGHASH_FORKID == 0) = true) := fun hh => h ((forkid_flag ht).mpr hh)
      simp only [h, decide_false, Bool.false_eq_true, if_false, h',
        segwitPreimage_eq .btg tx hwf us idx hidx o hu hamt script hlen _ (or_forkid_lt ht hht)]
      simp [BTG_FORK_ID, segwitSingleSha, segwitPartsSingleSha, Gen.Sighash.btg_segwitSingleSha,
        Gen.Sighash.btg_segwitPartsSingleSha, sha_false]
  refine ⟨?_, ?_⟩
  · unfold signatureHash
    have hr : requiresForkId .btg = true := rfl
    simp only [hr, if_true, c_forkid]
    by_cases h : ht &&& 0x40 ≠ 0x40
    · simp [h, signatureHashForkId, (forkid_flag ht).mp h]
    · simp only [h, if_false]
      exact hseg
  · unfold signatureHash
    have hr : requiresForkId .btg = true := rfl
    simp only [hr, if_true, c_forkid]
    by_cases h : ht &&& 0x40 ≠ 0x40
    · rw [hseg]
      simp [h, signatureHashForkId, (forkid_flag ht).mp h]
    · simp only [h, if_false]

/-! ## Groestlcoin -/

/-- C04.grs_single_sha: the Groestlcoin class computes the same preimages and applies SHA-256 once everywhere:
to the legacy message, to the BIP143 message and to its three part hashes -/
theorem C04_grs_single_sha :
    sha (legacySingleSha .grs) = Pycoin.Hash.sha256 ∧ sha (segwitSingleSha .grs) = Pycoin.Hash.sha256 ∧
    sha (segwitPartsSingleSha .grs) = Pycoin.Hash.sha256 ∧
    (∀ c : Coin, c ≠ .grs → sha (legacySingleSha c) = Pycoin.Hash.dsha256 ∧ sha (segwitSingleSha c) = Pycoin.Hash.dsha256 ∧
      sha (segwitPartsSingleSha c) = Pycoin.Hash.dsha256) := by
  refine ⟨rfl, rfl, rfl, ?_⟩
  intro c hc
  cases c <;> first | exact absurd rfl hc | exact ⟨rfl, rfl, rfl⟩

/-! ## every coin class, by name -/

/-- C04.tx_hash_hashtype: `Tx.hash(hash_type)` of each of the five transaction classes digests the witness-free
serialisation of the transaction followed by the hash type as four little-endian bytes … -/
theorem C04_tx_hash_hashtype (c : Coin) (tx : Tx) (hwf : tx.WF) (ht : Nat) (hht : ht < 2 ^ 32) :
    hashTypePreimage c tx ht = .ok (Spec.Wire.legacy tx ++ le 4 ht) := by
  have hstream := stream_eq_spec tx hwf false
  simp only [Bool.false_and, Bool.false_eq_true, if_false] at hstream
  have hU : U32 (ht : Int) := ⟨by omega, by omega⟩
  have hL := streamStruct_L_eq (ht : Int) hU
  unfold hashTypePreimage
  rw [hstream, c_fmt c, hL]
  simp only [Int.toNat_natCast]

/-- … with the digest the class uses for `Tx.hash()` (transaction ids): double SHA-256, single for Groestlcoin -/
theorem C04_tx_hash_digest (c : Coin) :
    legacySingleSha c = c.singleSha ∧ (c.singleSha = true ↔ c = .grs) := by cases c <;> exact ⟨rfl, by decide⟩

theorem hashTypePreimage_ltc (tx : Tx) (ht : Nat) : hashTypePreimage .ltc tx ht = hashTypePreimage .btc tx ht := by
  simp only [hashTypePreimage, c_fmt]

theorem legacyPreimage_ltc (tx : Tx) (script : Bytes) (idx ht : Nat) :
    Sighash.legacyPreimage .ltc tx script idx ht = Sighash.legacyPreimage .btc tx script idx ht := by
  unfold Sighash.legacyPreimage
  simp only [hashTypePreimage_ltc]

/-- C04.ltc_eq_btc: the Litecoin class runs the Bitcoin algorithm, on every path and for every input (in scope or not) -/
theorem C04_ltc_eq_btc (tx : Tx) (us : List (Option TxOut)) (script : Bytes) (sigs : List Bytes) (idx ht : Nat) :
    signatureHash .ltc tx us script idx ht = signatureHash .btc tx us script idx ht ∧
    segwitSignatureHash .ltc tx us script idx ht = segwitSignatureHash .btc tx us script idx ht ∧
    sighashF .ltc tx us script sigs idx ht = sighashF .btc tx us script sigs idx ht ∧
    witnessSighashF .ltc tx us script sigs idx ht = witnessSighashF .btc tx us script sigs idx ht := by
  have h1 : ∀ script, signatureHash .ltc tx us script idx ht = signatureHash .btc tx us script idx ht := by
    intro script
    unfold signatureHash legacySignatureHash
    simp only [legacyPreimage_ltc]
    rfl
  refine ⟨h1 script, rfl, ?_, rfl⟩
  unfold sighashF
  simp only [h1]
  rfl

/-- C04.btc_ltc_legacy: Bitcoin and Litecoin, pre-segwit: consensus' `SignatureHash` with double SHA-256 -/
theorem C04_btc_ltc_legacy (c : Coin) (hc : c = .btc ∨ c = .ltc) (tx : Tx) (us : List (Option TxOut)) (hwf : tx.WF)
    (idx : Nat) (hidx : idx < tx.ins.length) (script : Bytes) (hs : TailWritten script) (hlen : LenOk script)
    (ht : Nat) (hht : ht < 2 ^ 32) :
    signatureHash c tx us script idx ht =
      .ok (beNat (signatureHashLegacy Pycoin.Hash.dsha256 tx idx script ht)) := by
  rcases hc with rfl | rfl
  · rw [C04_legacy_digest_eq_tailWritten .btc rfl tx us hwf idx hidx script hs hlen ht hht]
    simp [legacySingleSha, Gen.Sighash.btc_legacySingleSha, sha_false]
  · rw [C04_legacy_digest_eq_tailWritten .ltc rfl tx us hwf idx hidx script hs hlen ht hht]
    simp [legacySingleSha, Gen.Sighash.ltc_legacySingleSha, sha_false]

theorem sha_true : sha true = Pycoin.Hash.sha256 := by
  funext b; simp [sha]

/-- C04.grs_legacy: Groestlcoin, pre-segwit, for every hash type: the bytes digested are consensus' legacy message, the
digest is one SHA-256 of it, and SIGHASH_SINGLE without a matching output gives the constant one -/
theorem C04_grs_legacy (tx : Tx) (us : List (Option TxOut)) (hwf : tx.WF)
    (idx : Nat) (hidx : idx < tx.ins.length) (script : Bytes) (hs : TailWritten script) (hlen : LenOk script)
    (ht : Nat) (hht : ht < 2 ^ 32) :
    Sighash.legacyPreimage .grs tx script idx ht =
      .ok (if fHashSingle ht && decide (idx ≥ tx.outs.length) then none
           else some (Spec.Sighash.legacyPreimage tx idx script ht)) ∧
    signatureHash .grs tx us script idx ht =
      .ok (beNat (signatureHashLegacy Pycoin.Hash.sha256 tx idx script ht)) := by
  refine ⟨legacyPreimage_eq_tw .grs tx hwf idx hidx script hs hlen ht hht, ?_⟩
  rw [C04_legacy_digest_eq_tailWritten .grs rfl tx us hwf idx hidx script hs hlen ht hht]
  simp [legacySingleSha, Gen.Sighash.grs_legacySingleSha, sha_true]

/-- C04.grs_segwit: Groestlcoin, witness v0, for every hash type: the BIP143 message with its three part hashes taken
with one SHA-256, digested with one SHA-256 -/
theorem C04_grs_segwit (tx : Tx) (hwf : tx.WF) (us : List (Option TxOut)) (idx : Nat)
    (hidx : idx < tx.ins.length) (o : TxOut) (hu : us[idx]? = some (some o)) (hamt : U64 o.value) (script : Bytes)
    (hlen : LenOk script) (ht : Nat) (hht : ht < 2 ^ 32) :
    segwitPreimage .grs tx us script idx ht =
      .ok (bip143Preimage Pycoin.Hash.sha256 tx idx script o.value.toNat ht) ∧
    segwitSignatureHash .grs tx us script idx ht =
      .ok (beNat (signatureHashBip143 Pycoin.Hash.sha256 tx idx script o.value.toNat ht)) := by
  constructor
  · rw [segwitPreimage_eq .grs tx hwf us idx hidx o hu hamt script hlen ht hht]
    simp [segwitPartsSingleSha, Gen.Sighash.grs_segwitPartsSingleSha, sha_true]
  · rw [C04_bip143_digest_eq .grs (by decide) tx hwf us idx hidx o hu hamt script hlen ht hht]
    simp [segwitSingleSha, Gen.Sighash.grs_segwitSingleSha, sha_true]

/-- C04.btc_ltc_bch_segwit: Bitcoin, Litecoin and Bitcoin Cash, `_signature_for_hash_type_segwit`: BIP143 with double
SHA-256 (for Bitcoin Cash this is the function behind its fork-id digest, `C04_forkid_eq_bch`) -/
theorem C04_btc_ltc_bch_segwit (c : Coin) (hc : c = .btc ∨ c = .ltc ∨ c = .bch) (tx : Tx) (hwf : tx.WF)
    (us : List (Option TxOut)) (idx : Nat)
    (hidx : idx < tx.ins.length) (o : TxOut) (hu : us[idx]? = some (some o)) (hamt : U64 o.value) (script : Bytes)
    (hlen : LenOk script) (ht : Nat) (hht : ht < 2 ^ 32) :
    segwitSignatureHash c tx us script idx ht =
      .ok (beNat (signatureHashBip143 Pycoin.Hash.dsha256 tx idx script o.value.toNat ht)) := by
  have hne : c ≠ .btg := by rcases hc with rfl | rfl | rfl <;> decide
  rw [C04_bip143_digest_eq c hne tx hwf us idx hidx o hu hamt script hlen ht hht]
  rcases hc with rfl | rfl | rfl <;>
    simp [segwitSingleSha, Gen.Sighash.btc_segwitSingleSha, Gen.Sighash.ltc_segwitSingleSha, Gen.Sighash.bch_segwitSingleSha,
      sha_false]

/-! ## SIGHASH_SINGLE without a matching output, under each class -/

/-- C04.single_out_of_range (legacy; Bitcoin, Litecoin, Groestlcoin): with base type SIGHASH_SINGLE and no output at the
input's position `_signature_hash` returns `1 << 248` — the integer of consensus' `uint256::ONE` bytes — for **every**
transaction, script code and value of the other hash-type bits, in range or not: nothing is digested -/
theorem C04_single_out_of_range (c : Coin) (hc : requiresForkId c = false) (tx : Tx) (us : List (Option TxOut))
    (script : Bytes) (idx ht : Nat) (hs : fHashSingle ht = true) (hidx : idx ≥ tx.outs.length) :
    signatureHash c tx us script idx ht = .ok (2 ^ 248) ∧ (2 ^ 248 : Nat) = beNat Spec.Sighash.one := by
  refine ⟨?_, by rw [beNat_one]; decide⟩
  have h3 : ht &&& 0x1f = 3 := by simpa [fHashSingle, SIGHASH_SINGLE] using hs
  have hnone : tx.outs[idx]? = none := List.getElem?_eq_none hidx
  unfold signatureHash legacySignatureHash Sighash.legacyPreimage
  simp only [hc, Bool.false_eq_true, if_false, (strip_serializeScriptCode_all script).1]
  unfold legacyTmpTx blank
  have hv : Gen.Sighash.singleBugValue = 2 ^ 248 := by decide
  simp [c_mask, c_none, c_single, h3, hnone, hv]

/-- C04.single_out_of_range (BIP143: witness inputs of every class, every input of Bitcoin Cash and Bitcoin Gold): no
constant; the message is built as usual with hashOutputs = 32 zero bytes, in pycoin (`_hash_outputs`) as in BIP143 -/
theorem C04_single_out_of_range_bip143 (c : Coin) (H : Bytes → Bytes) (tx : Tx) (idx ht : Nat)
    (hs : fHashSingle ht = true) (hidx : idx ≥ tx.outs.length) :
    Sighash.hashOutputs c tx ht idx = .ok zero32 ∧ Spec.Sighash.hashOutputs H tx idx ht = Spec.Sighash.zero32 := by
  have h3 : ht &&& 0x1f = 3 := by simpa [fHashSingle, SIGHASH_SINGLE] using hs
  have hnone : tx.outs[idx]? = none := List.getElem?_eq_none hidx
  constructor
  · unfold Sighash.hashOutputs
    simp [parts_eq, h3, c_single, hidx]
  · unfold Spec.Sighash.hashOutputs
    simp [hs, hnone]

/-! ## purity -/

/-- C04.sighash_pure: the call returns a digest (or raises) and leaves the transaction and its unspents as they were;
the model builds a new temporary transaction and never returns it -/
theorem C04_sighash_pure (c : Coin) (tx : Tx) (us : List (Option TxOut)) (script : Bytes) (idx ht : Nat) :
    (signatureHashSt c tx us script idx ht).1 = (tx, us) := rfl

/-! ## non-vacuity: a concrete instance of the hypotheses, evaluated -/

def exIn (n : UInt8) (q : Int) : TxIn := ⟨List.replicate 32 n, 3, [0x51], q, [[1, 2]]⟩
def exTx : Tx := ⟨2, [exIn 1 0xFFFFFFFF, exIn 2 5, exIn 3 0], [⟨5000, [0x76, 0xa9]⟩, ⟨0, []⟩], 500000⟩
def exCode : Bytes := [0x76, 0xab, 0x02, 0xab, 0xab, 0xac, 0xab]
def exUs : List (Option TxOut) := [some ⟨7, [0x51]⟩, some ⟨8, []⟩, some ⟨9, [0x52]⟩]

#guard decide (Complete exCode)
#guard (match Sighash.legacyPreimage .btc exTx exCode 1 0x83 with
  | .ok (some p) => p == Spec.Sighash.legacyPreimage exTx 1 exCode 0x83 | _ => false)
#guard (match Sighash.legacyPreimage .btc exTx exCode 2 0x03 with | .ok none => true | _ => false)
#guard (match segwitPreimage .btc exTx exUs exCode 1 0x42 with
  | .ok p => p == bip143Preimage Pycoin.Hash.dsha256 exTx 1 exCode 8 0x42 | _ => false)
#guard (match signatureHash .bch exTx exUs exCode 0 0x01 with | .error .scriptError => true | _ => false)
#guard (match segwitSignatureHash .btg exTx exUs exCode 0 0x01 with | .error .scriptError => true | _ => false)
#guard (match deleteSignature [0x51, 0x02, 0x30, 0x01, 0xac] [0x30, 0x01] with | .ok b => b == [0x51, 0xac] | _ => false)

#guard decide (TailWritten exCode) && decide (TailWritten [0x51, 0x4c]) && !decide (TailWritten [0x51, 0x4d, 0x05])
#guard (match signatureHash .grs exTx exUs exCode 2 0x03, signatureHash .ltc exTx exUs exCode 2 0xc3 with
  | .ok a, .ok b => a == 2 ^ 248 && b == 2 ^ 248 | _, _ => false)
#guard (match deleteSignatures [0x51, 0x01, 0x30, 0x01, 0x31, 0x05, 0x01, 0x30] [[0x30], [0x31]] with
  | .ok b => b == [0x51, 0x05, 0x01, 0x30] && b == scriptCodeFor [0x51, 0x01, 0x30, 0x01, 0x31, 0x05, 0x01, 0x30] [[0x30], [0x31]] | _ => false)

end Pycoin.Sighash
