import Pycoin.Model.Sighash
import Pycoin.Spec.Sighash
/-!
C04 — Signature hashes equal the consensus definition for every hash type.
-/
namespace Pycoin.Sighash
open Pycoin Pycoin.Wire

/-- C04.sighash_pure: the call returns a digest (or raises) and leaves the transaction and its unspents as they were -/
theorem C04_sighash_pure (c : Coin) (tx : Tx) (us : List (Option TxOut)) (script : Bytes) (idx ht : Nat) :
    (signatureHashSt c tx us script idx ht).1 = (tx, us) := rfl

end Pycoin.Sighash
