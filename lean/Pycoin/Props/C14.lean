import Pycoin.Model.BlockOffsets
import Pycoin.Proofs.MerkleBlock
import Pycoin.Proofs.Block
import Pycoin.Model.Sha256
/-!
C14 — Blocks round-trip, ids and merkle roots follow the Bitcoin definition.
Property theorems only.  Part 1: merkle roots and BIP37 merkleblock proofs.

`H` is the node hash (`double_sha256` in pycoin), a function symbol here.  `leaf p` is the txid at block
position `p`, `n` the number of transactions, `mtch p` whether transaction `p` is matched.
-/
namespace Pycoin.C14
open Pycoin.Merkle Pycoin.MerkleBlock Pycoin.Spec.Merkle

/-! ## merkle root -/

/-- C14.merkle_eq_spec: the `while` loop of `merkle()` computes the recursive Bitcoin definition
(Core's `CalcHash(nHeight, 0)`), for every `n ≥ 1` and every hash function -/
theorem C14_merkle_eq_spec (H : Bytes → Bytes) (leaf : Nat → Bytes) (n : Nat) (hn : 0 < n) :
    merkle H ((List.range n).map leaf) = .ok (root H leaf n) := by
  have h0 : (List.range n).map leaf = level H leaf n 0 := by
    simp only [level, treeWidth_zero, List.range_eq_range']
    rfl
  have hl := merkleLoop_level H leaf n n 0
  have hw := treeWidth_height hn
  unfold merkle
  simp only [List.length_map, List.length_range]
  rw [h0, hl]
  show (match level H leaf n (height n) with | [] => _ | h :: _ => _) = _
  simp [level, hw, root]

/-- the same for an arbitrary non-empty Python list -/
theorem C14_merkle_eq_spec_list (H : Bytes → Bytes) (hs : List Bytes) (hne : hs ≠ []) :
    merkle H hs = .ok (root H (fun i => hs[i]?.getD []) hs.length) := by
  have hn : 0 < hs.length := List.length_pos_iff.mpr hne
  rw [← C14_merkle_eq_spec H _ _ hn]
  congr 1
  apply List.ext_getElem?
  intro i
  by_cases hi : i < hs.length
  · simp [hi]
  · simp [hi, List.getElem?_eq_none (Nat.le_of_not_lt hi)]

/-- `merkle([])` raises `IndexError` -/
theorem C14_merkle_empty (H : Bytes → Bytes) : merkle H [] = .error .indexError := rfl

/-- the fuel of the model's loop is never exhausted: the loop ends with at most one element -/
theorem C14_merkle_terminates (H : Bytes → Bytes) (hs : List Bytes) : (merkleLoop H hs.length hs).length ≤ 1 := by
  by_cases hne : hs = []
  · subst hne; simp [merkleLoop]
  · have hn : 0 < hs.length := List.length_pos_iff.mpr hne
    have h0 : hs = level H (fun i => hs[i]?.getD []) hs.length 0 := by
      simp only [level, treeWidth_zero]
      apply List.ext_getElem?
      intro i
      by_cases hi : i < hs.length
      · simp [hi, calcHash]
      · simp [hi, List.getElem?_eq_none (Nat.le_of_not_lt hi)]
    have hl := merkleLoop_level H (fun i => hs[i]?.getD []) hs.length hs.length 0
    rw [← h0] at hl
    rw [hl]
    have hw := treeWidth_height hn
    simp only [height] at hw
    simp [level, hw]

/-! ## BIP37 merkleblock proofs -/

/-- flag bytes that agree with `bits` on the first `bits.length` positions, have exactly the needed number of
bytes and no bit above the last consumed one in the last byte, are the packed bits -/
theorem flags_eq_packBits (bits : List Bool) (hL : 0 < bits.length) (flags : Bytes)
    (hbits : ∀ j, j < bits.length → flagBit flags j = bits[j]?)
    (hlen : (bits.length - 1) / 8 = flags.length - 1)
    (b : UInt8) (hb : flags[(bits.length - 1) / 8]? = some b)
    (hle : ¬ (1 <<< ((bits.length - 1) % 8 + 1)) - 1 < b.toNat) : flags = packBits bits := by
  have hflen : flags.length = (bits.length + 7) / 8 := by
    have : (bits.length - 1) / 8 < flags.length := by
      have := List.getElem?_eq_some_iff.mp hb
      exact this.1
    omega
  apply List.ext_getElem?
  intro i
  by_cases hi : i < flags.length
  · rw [packBits_get bits (by omega), List.getElem?_eq_getElem hi]
    congr 1
    apply UInt8.toNat_inj.mp
    apply Nat.eq_of_testBit_eq
    intro k
    by_cases hk : k < 8
    · rw [flagByte_testBit bits i k hk]
      by_cases hj : 8 * i + k < bits.length
      · have h1 := hbits (8 * i + k) hj
        rw [flagBit_eq, show (8 * i + k) / 8 = i by omega, show (8 * i + k) % 8 = k by omega,
          List.getElem?_eq_getElem hi, List.getElem?_eq_getElem hj] at h1
        simp only [Option.map_some, Option.some.injEq] at h1
        simp [h1, bitAt, hj]
      · have hi' : i = (bits.length - 1) / 8 := by omega
        have hb' : flags[i] = b := by
          rw [List.getElem?_eq_getElem (by omega)] at hb
          subst hi'
          exact Option.some.inj hb
        rw [hb']
        have : bitAt bits (8 * i + k) = false := by
          simp [bitAt, List.getElem?_eq_none (Nat.le_of_not_lt hj)]
        rw [this]
        apply Nat.testBit_lt_two_pow
        rw [Nat.one_shiftLeft] at hle
        have h2 : 2 ^ ((bits.length - 1) % 8 + 1) ≤ 2 ^ k := Nat.pow_le_pow_right (by decide) (by omega)
        have h3 : 0 < 2 ^ ((bits.length - 1) % 8 + 1) := Nat.pow_pos (by decide)
        omega
    · have h2 : 2 ^ 8 ≤ 2 ^ k := Nat.pow_le_pow_right (by decide) (by omega)
      rw [Nat.testBit_lt_two_pow (x := flags[i].toNat) (by have := flags[i].toNat_lt; omega),
        Nat.testBit_lt_two_pow (x := (flagByte bits i).toNat) (by have := (flagByte bits i).toNat_lt; omega)]
  · rw [List.getElem?_eq_none (by omega), List.getElem?_eq_none (by simp; omega)]


section proofs
variable (H : Bytes → Bytes) (leaf : Nat → Bytes) (mtch : Nat → Bool) (n : Nat)

theorem honest_flag_checks (bits : List Bool) (hL : 0 < bits.length) :
    (bits.length - 1) / 8 = (packBits bits).length - 1 ∧
    (packBits bits)[(bits.length - 1) / 8]? = some (flagByte bits ((bits.length - 1) / 8)) := by
  refine ⟨by simp; omega, packBits_get bits (by omega)⟩

/-- C14.proof_accepts: for every `n ≥ 1` and every subset of matched transactions, the proof produced by the
BIP37 builder (spec, after Core) is accepted by pycoin's verifier against the block's merkle root and yields
exactly the matched txids in block order.  Hypothesis: no node of the block's tree has two equal children
(pycoin raises on equal siblings; honest blocks have distinct txids and, short of a hash collision, distinct nodes). -/
theorem C14_proof_accepts (hn : 0 < n) (hsib : NoEqualSiblings H leaf n) :
    verify H n (proof H leaf mtch n).2 (proof H leaf mtch n).1 (root H leaf n) = .ok (matched leaf mtch n) := by
  have hL := build_bits_pos H leaf mtch n (height n) 0
  obtain ⟨h1, h2⟩ := honest_flag_checks _ hL
  have h3 := flagByte_last_le _ hL
  simp only [proof]
  rw [verify_honest_bits H leaf mtch n hn hsib _ _ (fun j hj => flagBit_packBits _ hj)]
  dsimp only
  rw [if_pos h1]
  simp only [h2, Nat.not_lt.mpr h3, if_false, if_true]

/-- C14.padding_rejected: any flag bytes that carry the honest bits but differ from the honest serialisation
(a set bit above the last consumed one, extra bytes whether zero or not, a missing byte) are rejected -/
theorem C14_padding_rejected (hn : 0 < n) (hsib : NoEqualSiblings H leaf n) (flags : Bytes)
    (hbits : ∀ j, j < (build H leaf mtch n (height n) 0).1.length →
      flagBit flags j = (build H leaf mtch n (height n) 0).1[j]?)
    (hne : flags ≠ (proof H leaf mtch n).1) :
    verify H n (proof H leaf mtch n).2 flags (root H leaf n) = .error .notEnoughFlags ∨
    verify H n (proof H leaf mtch n).2 flags (root H leaf n) = .error .unconsumedBits := by
  have hL := build_bits_pos H leaf mtch n (height n) 0
  simp only [proof] at hne ⊢
  rw [verify_honest_bits H leaf mtch n hn hsib _ _ hbits]
  dsimp only
  split
  · rename_i hlen
    split
    · rename_i hnone
      -- the last consumed bit was read from that byte, so it exists
      have := hbits ((build H leaf mtch n (height n) 0).1.length - 1) (by omega)
      rw [flagBit_eq, hnone, List.getElem?_eq_getElem (by omega)] at this
      simp at this
    · rename_i b hb
      split
      · right; rfl
      · rename_i hle
        exact absurd (flags_eq_packBits _ hL flags hbits hlen b hb hle) hne
  · left; rfl

/-- C14.root_mismatch_rejected: the honest proof against any other merkle root is rejected -/
theorem C14_root_mismatch_rejected (hn : 0 < n) (hsib : NoEqualSiblings H leaf n) (root' : Bytes)
    (hne : root' ≠ root H leaf n) :
    verify H n (proof H leaf mtch n).2 (proof H leaf mtch n).1 root' = .error .rootMismatch := by
  have hL := build_bits_pos H leaf mtch n (height n) 0
  obtain ⟨h1, h2⟩ := honest_flag_checks _ hL
  have h3 := flagByte_last_le _ hL
  simp only [proof]
  rw [verify_honest_bits H leaf mtch n hn hsib _ _ (fun j hj => flagBit_packBits _ hj)]
  dsimp only
  rw [if_pos h1]
  simp only [h2, Nat.not_lt.mpr h3, if_false, Ne.symm hne]

end proofs

/-! ## corrupted proofs: statements about *every* accepted input (no honesty assumption on the proof at hand) -/

section corrupt
variable (H : Bytes → Bytes)

/-- C14.extra_or_missing_rejected: the number of hashes an accepted proof carries is determined by the transaction
count and the flag bytes; hence adding or removing hashes (any number, anywhere) to an accepted proof gets it
rejected, whatever root it is checked against -/
theorem C14_extra_or_missing_rejected (n : Nat) (flags : Bytes) (hs hs' : List Bytes) (root root' : Bytes)
    (r : List Bytes) (hok : verify H n hs flags root = .ok r) (hlen : hs'.length ≠ hs.length) :
    ∃ e, verify H n hs' flags root' = .error e := by
  cases hv : verify H n hs' flags root' with
  | error e => exact ⟨e, rfl⟩
  | ok r' => exact absurd (verify_count H flags hok hv).symm hlen

/-- C14.altered_hash_collision: if a proof is accepted and a proof with different hashes (same count, flags and
root — e.g. one supplied hash altered) is accepted too, the two runs exhibit an explicit collision of the node hash
on 64-byte inputs.  No idealisation: this is the reduction itself. -/
theorem C14_altered_hash_collision (hH : ∀ x, (H x).length = 32) (n : Nat) (flags : Bytes) (hs hs' : List Bytes)
    (root : Bytes) (r r' : List Bytes) (h32 : ∀ x ∈ hs, x.length = 32) (h32' : ∀ x ∈ hs', x.length = 32)
    (hok : verify H n hs flags root = .ok r) (hok' : verify H n hs' flags root = .ok r') (hne : hs' ≠ hs) :
    Collision H := by
  obtain ⟨f, h1⟩ := verify_ok_inv H flags hok
  obtain ⟨f', h2⟩ := verify_ok_inv H flags hok'
  obtain ⟨g1, g2, e1, e2, _, _, _, imp⟩ := recurse_two H _ flags hH _ _ _ _ _ _ _ _ _ _ _ _ _ _ _ _
    (by simpa using h32) (by simpa using h32') h1 h2
  rcases imp rfl with h | h
  · simp only [List.nil_append] at e1 e2
    rw [← e1, ← e2] at h
    exact absurd (List.reverse_inj.mp h).symm hne
  · exact h

/-- C14.altered_hash_rejected: under the idealised-hash hypothesis (the node hash has no collision on 64-byte
inputs) an accepted proof with any supplied hash altered is rejected.  The hypothesis cannot hold for a real
32-byte hash (pigeonhole); `C14_altered_hash_collision` is the unconditional form. -/
theorem C14_altered_hash_rejected (hH : ∀ x, (H x).length = 32)
    (hinj : ∀ x y : Bytes, x.length = 64 → y.length = 64 → H x = H y → x = y)
    (n : Nat) (flags : Bytes) (hs hs' : List Bytes) (root : Bytes) (r : List Bytes)
    (h32 : ∀ x ∈ hs, x.length = 32) (h32' : ∀ x ∈ hs', x.length = 32)
    (hok : verify H n hs flags root = .ok r) (hne : hs' ≠ hs) :
    ∃ e, verify H n hs' flags root = .error e := by
  cases hv : verify H n hs' flags root with
  | error e => exact ⟨e, rfl⟩
  | ok r' =>
    obtain ⟨x, y, hx, hy, hxy, he⟩ := C14_altered_hash_collision H hH n flags hs hs' root r r' h32 h32' hok hv hne
    exact absurd (hinj x y hx hy he) hxy

end corrupt

/-- the length hypothesis holds for pycoin's node hash -/
theorem dsha256_length (x : Bytes) : (Pycoin.Hash.dsha256 x).length = 32 := by
  simp [Pycoin.Hash.dsha256, Pycoin.Hash.sha256, Pycoin.Hash.u32be]


/-! ## headers and blocks (part 2) -/

section blocks
open Pycoin.Wire Pycoin.Msg

/-- C14.header_rt: a header in range streams to exactly the 80 bytes of the wire format, and parsing those bytes
(followed by anything) gives the header back and leaves what followed -/
theorem C14_header_rt (h : Header) (hwf : h.WF) (rest : Bytes) :
    Block.streamHeader h = .ok (Spec.Block.header h) ∧ (Spec.Block.header h).length = 80 ∧
    Block.parseAsHeader (Spec.Block.header h ++ rest) = .ok (h, rest) :=
  ⟨Block.streamHeader_eq h hwf, Spec.Block.header_length h hwf.prev hwf.root,
   Block.header_law h _ rest ⟨hwf.prev, hwf.root⟩ (Block.streamHeader_eq h hwf)⟩

/-- the byte direction: any 80 bytes (followed by anything) parse as a header that streams back to those 80 bytes -/
theorem C14_header_bytes_rt (data : Bytes) (hlen : 80 ≤ data.length) :
    ∃ h : Header, Block.parseAsHeader data = .ok (h, data.drop 80) ∧ Block.streamHeader h = .ok (data.take 80) :=
  Block.parseAsHeader_of_80 data hlen

/-- C14.block_id_def: `hash()` is the double SHA-256 of the 80-byte header and `id()` its reversed hex — for a header
object in range, and for the header parsed from any bytes (the digest of the first 80 bytes read) -/
theorem C14_block_id_def :
    (∀ h : Header, h.WF → Block.hash h = .ok (Spec.Block.blockHash h) ∧
      Block.id h = .ok (Tx.b2hRev (Spec.Block.blockHash h))) ∧
    (∀ data : Bytes, 80 ≤ data.length → ∃ h : Header, Block.parseAsHeader data = .ok (h, data.drop 80) ∧
      Block.hash h = .ok (Pycoin.Hash.dsha256 (data.take 80))) := by
  constructor
  · intro h hwf
    simp [Block.hash, Block.id, Block.streamHeader_eq h hwf, Except.map, Spec.Block.blockHash]
  · intro data hlen
    obtain ⟨h, h1, h2⟩ := Block.parseAsHeader_of_80 data hlen
    exact ⟨h, h1, by simp [Block.hash, h2, Except.map]⟩

/-- the transaction hashes a block's merkle tree is built over (`tx.hash()`: legacy serialisation, the coin's digest) -/
def txids (c : Coin) (txs : List Tx) : List Bytes := txs.map (fun t => Tx.idDigest c (Spec.Wire.legacy t))

theorem txHashes_eq (c : Coin) : ∀ (txs : List Tx), (∀ t ∈ txs, t.WF) → Block.txHashes c txs = .ok (txids c txs)
  | [], _ => rfl
  | t :: ts, h => by
    simp [Block.txHashes, (C07_txid_def c t (h t (by simp))).1, txHashes_eq c ts (fun x hx => h x (by simp [hx])), txids]

/-- the merkle root the Bitcoin definition assigns to the block's transactions -/
def specRoot (c : Coin) (txs : List Tx) : Bytes :=
  root Pycoin.Hash.dsha256 (fun i => (txids c txs)[i]?.getD []) txs.length

/-- `check_merkle_hash` compares the header field with the recursive Bitcoin definition over the txids -/
theorem checkMerkleHash_eq (c : Coin) (blk : Block) (hwf : blk.WF) :
    Block.checkMerkleHash c blk.hdr blk.txs =
      if specRoot c blk.txs ≠ blk.hdr.merkleRoot then .error .badMerkleRootError else .ok () := by
  have hne : txids c blk.txs ≠ [] := by
    intro h
    have h1 := congrArg List.length h
    have h2 := hwf.nonempty
    simp only [txids, List.length_map, List.length_nil] at h1
    omega
  have hm := C14_merkle_eq_spec_list Pycoin.Hash.dsha256 (txids c blk.txs) hne
  have hl : (txids c blk.txs).length = blk.txs.length := by simp [txids]
  rw [hl] at hm
  simp only [Block.checkMerkleHash, txHashes_eq c blk.txs (fun t ht => (hwf.txs t ht).1), hm, specRoot]
  rfl

theorem Block.stream_eq (blk : Block) (hwf : blk.WF) : Block.stream blk = .ok (Spec.Block.block blk) := by
  have h1 := streamList_eq (fun t : Tx => t.stream) Spec.Wire.ser blk.txs (fun t ht => C07_ser_is_wire t (hwf.txs t ht).1)
  simp [Block.stream, Block.streamTransactions, Block.streamHeader_eq _ hwf.hdr, txs_ne_nil hwf.nonempty,
    Gen.Messages.block_stream_transactions_stream_count, streamStruct, tbl_I, streamLetter,
    streamSatoshiInt_eq _ hwf.count, h1, Spec.Block.block]

/-- C14.block_rt: a block with ≥ 1 transaction, all fields in range, whose header carries the merkle root of its
transactions, streams to the wire format and parses back (whatever follows is left unread), for every coin class -/
theorem C14_block_rt (c : Coin) (blk : Block) (hwf : blk.WF) (hroot : blk.hdr.merkleRoot = specRoot c blk.txs)
    (rest : Bytes) :
    Block.stream blk = .ok (Spec.Block.block blk) ∧
    Block.parse c true true (Spec.Block.block blk ++ rest) = .ok (blk, rest) := by
  refine ⟨Block.stream_eq blk hwf, ?_⟩
  rw [Block.parse_stream_core c blk hwf _ rest true (Block.stream_eq blk hwf)]
  simp [Block.setTxs, txs_ne_nil hwf.nonempty, checkMerkleHash_eq c blk hwf, hroot]

/-- C14.bad_root_rejected: the same block with any other value in the header's merkle-root field is rejected with
`BadMerkleRootError` (when parsed with the default `check_merkle_hash=True`) -/
theorem C14_bad_root_rejected (c : Coin) (blk : Block) (hwf : blk.WF) (hroot : blk.hdr.merkleRoot ≠ specRoot c blk.txs)
    (rest : Bytes) :
    Block.parse c true true (Spec.Block.block blk ++ rest) = .error .badMerkleRootError := by
  rw [Block.parse_stream_core c blk hwf _ rest true (Block.stream_eq blk hwf)]
  simp [Block.setTxs, txs_ne_nil hwf.nonempty, checkMerkleHash_eq c blk hwf, Ne.symm hroot]

/-- with `check_merkle_hash=False` the root is not looked at -/
theorem C14_block_rt_nocheck (c : Coin) (blk : Block) (hwf : blk.WF) (rest : Bytes) :
    Block.parse c true false (Spec.Block.block blk ++ rest) = .ok (blk, rest) := by
  rw [Block.parse_stream_core c blk hwf _ rest false (Block.stream_eq blk hwf)]
  simp [Block.setTxs, txs_ne_nil hwf.nonempty]


/-! ### `include_offsets=True`: the recorded `offset_in_block` of every transaction -/

theorem offsetsFrom_snd {α : Type} (s : α → Except Wire.Err Bytes) : ∀ (l : List α) (start : Nat),
    (Block.offsetsFrom s start l).map (·.2) = l
  | [], _ => rfl
  | a :: as, start => by simp [Block.offsetsFrom, offsetsFrom_snd s as]

theorem parseNOff_streamList {α : Type} {s : α → Except Wire.Err Bytes} {p : Parser α} {WF : α → Prop}
    (law : PrefixLaw s p WF) (total : Nat) :
    ∀ (l : List α) (b rest : Bytes) (start : Nat), (∀ a ∈ l, WF a) → streamList s l = .ok b →
      total = start + (b ++ rest).length →
      Block.parseNOff p total l.length (b ++ rest) = .ok (Block.offsetsFrom s start l, rest)
  | [], b, rest, start => by
    intro _ h _
    simp only [streamList] at h
    injection h with h
    subst h
    simp [Block.parseNOff, Block.offsetsFrom]
  | a :: as, b, rest, start => by
    intro hwf h htot
    unfold streamList at h
    cases hx : s a with
    | error e => simp [hx] at h
    | ok x =>
      cases hr : streamList s as with
      | error e => simp [hx, hr] at h
      | ok r =>
        simp only [hx, hr] at h
        injection h with h
        subst h
        have h1 := law a x (r ++ rest) (hwf a (by simp)) hx
        have h2 := parseNOff_streamList law total as r rest (start + x.length) (fun y hy => hwf y (by simp [hy])) hr
          (by simp only [List.length_append] at htot ⊢; omega)
        have h3 : total - (x ++ (r ++ rest)).length = start := by
          simp only [List.length_append] at htot ⊢; omega
        simp only [List.length_cons, Block.parseNOff, List.append_assoc, h1, h2, h3, Block.offsetsFrom, hx]

/-- C14.block_offsets: parsing a streamed block with `include_offsets=True` gives the same block as without, and
records for transaction `i` the position the wire format gives it: 80 header bytes, the compact-size count, and the
serialisations of the transactions before it -/
theorem C14_block_offsets (c : Coin) (blk : Block) (hwf : blk.WF) (rest : Bytes) (check : Bool) :
    Block.parseWithOffsets c check (Spec.Block.block blk ++ rest) =
      (match Block.setTxs c blk.hdr blk.txs check with
       | .error e => .error e
       | .ok blk' => .ok (blk', (Block.offsetsFrom (fun t : Tx => t.stream)
           (80 + (Spec.Wire.compactSize blk.txs.length).length) blk.txs).map (·.1), rest)) := by
  have hs := Block.stream_eq blk hwf
  obtain ⟨hb, nb, body, h1, h2, h3, hbeq⟩ := Block.stream_parts blk _ hwf.nonempty hs
  have hhb : hb = Spec.Block.header blk.hdr := by
    have := Block.streamHeader_eq blk.hdr hwf.hdr
    rw [h1] at this; exact Except.ok.inj this
  have hlen : hb.length = 80 := by rw [hhb]; exact Spec.Block.header_length blk.hdr hwf.hdr.prev hwf.hdr.root
  have hnb : nb = Spec.Wire.compactSize blk.txs.length := by
    have : streamStruct tbl ['I'] [.int blk.txs.length] = .ok (Spec.Wire.compactSize blk.txs.length) := by
      simp [streamStruct, tbl_I, streamLetter, streamSatoshiInt_eq _ hwf.count]
    rw [h2] at this; exact Except.ok.inj this
  have l1 := Block.header_law blk.hdr hb ((nb ++ body) ++ rest) ⟨hwf.hdr.prev, hwf.hdr.root⟩ h1
  have l2 := parseStruct_streamStruct tbl ['I'] [.int blk.txs.length] nb (body ++ rest)
    (by simp [StructWF, tbl_I, LetterWF]) h2
  have l3 := parseNOff_streamList (tx_law c) (hb ++ (nb ++ (body ++ rest))).length blk.txs body rest
    (80 + (Spec.Wire.compactSize blk.txs.length).length) hwf.txs h3
    (by simp only [List.length_append, hlen, hnb]; omega)
  unfold Block.parseWithOffsets
  rw [hbeq]
  simp only [List.append_assoc] at l1 l2 ⊢
  simp only [l1, Gen.Messages.block_parse_parse_count, l2, Int.toNat_natCast, l3, offsetsFrom_snd]
  rfl

end blocks

/-! ## the header-hash cache is transparent -/

section cache
open Pycoin.Wire

/-- `hash()` of a `Block` object in ANY state of its attributes (whatever an earlier `hash()` left in the cache
attribute) is the double SHA-256 of the header it streams now.  Holds because `hash()` tests a name under which
nothing is ever stored (re-checked against the generated names on every build). -/
theorem C14_block_hash_transparent (o : BlockObj) : (o.hash).map (·.1) = Block.hash o.hdr := by
  have hname : (Gen.Messages.block_hash_hasattr == Gen.Messages.block_hash_attr) = false := by decide +kernel
  unfold BlockObj.hash BlockObj.hasattrHash
  simp only [hname, Bool.false_and, Bool.not_false, if_true]
  cases Block.hash o.hdr <;> rfl

/-- C14.block_id_after_mutation: after any sequence of `hash()`/`id()`/`as_bin()`/`stream_header()` calls, `set_nonce`,
direct reassignment of any header attribute and `as_blockheader()`, `hash()` is the double SHA-256 of the 80 bytes
`stream_header()` emits at that moment and `id()` its reversed hex -/
theorem C14_block_id_after_mutation (o : BlockObj) (steps : List ObjStep) :
    ((o.run steps).hash).map (·.1) = (Block.streamHeader (o.run steps).hdr).map Pycoin.Hash.dsha256 ∧
    ((o.run steps).hash).map (fun r => Tx.b2hRev r.1) = Block.id (o.run steps).hdr := by
  have h := C14_block_hash_transparent (o.run steps)
  refine ⟨h, ?_⟩
  unfold Block.id
  rw [← h]
  cases (o.run steps).hash <;> rfl

end cache

/-! ## non-vacuity: the hypotheses are satisfiable, and the statements are exercised on real double-SHA256 (evaluated) -/

example : NoEqualSiblings (fun x => x) (fun i => [UInt8.ofNat i]) 2 := by
  intro h pos hlt
  rw [lt_treeWidth] at hlt
  cases h with
  | zero =>
    have : pos = 0 := by simp at hlt; omega
    subst this
    simp [calcHash]
  | succ h =>
    exfalso
    have h2 : 2 ≤ 2 ^ (h + 1) := by
      rw [Nat.pow_succ]; have := Nat.pow_pos (n := h) (show 0 < 2 by decide); omega
    have : 2 ^ (h + 1) ≤ (2 * pos + 1) * 2 ^ (h + 1) := Nat.le_mul_of_pos_left _ (by omega)
    omega

private def leaf5 : Nat → Bytes := fun i => Pycoin.Hash.dsha256 [UInt8.ofNat i]
private def m5 : Nat → Bool := fun i => i == 1 || i == 4
private def okEq (r : Except MerkleBlock.Err (List Bytes)) (v : List Bytes) : Bool :=
  match r with | .ok x => x == v | .error _ => false
private def isErr (r : Except MerkleBlock.Err (List Bytes)) : Bool :=
  match r with | .ok _ => false | .error _ => true

-- 5 transactions (odd levels at two depths), the last leaf and an inner one matched
#guard okEq (verify Pycoin.Hash.dsha256 5 (proof Pycoin.Hash.dsha256 leaf5 m5 5).2 (proof Pycoin.Hash.dsha256 leaf5 m5 5).1
  (root Pycoin.Hash.dsha256 leaf5 5)) [leaf5 1, leaf5 4]
#guard isErr (verify Pycoin.Hash.dsha256 5 ((proof Pycoin.Hash.dsha256 leaf5 m5 5).2.drop 1) (proof Pycoin.Hash.dsha256 leaf5 m5 5).1
  (root Pycoin.Hash.dsha256 leaf5 5))
#guard isErr (verify Pycoin.Hash.dsha256 5 (proof Pycoin.Hash.dsha256 leaf5 m5 5).2 ((proof Pycoin.Hash.dsha256 leaf5 m5 5).1 ++ [0])
  (root Pycoin.Hash.dsha256 leaf5 5))
#guard merkle Pycoin.Hash.dsha256 ((List.range 5).map leaf5) matches .ok _

-- a one-transaction block satisfying the hypotheses of C14_block_rt
private def tx0 : Tx := ⟨1, [⟨List.replicate 32 0, 0xFFFFFFFF, [0x51], 0xFFFFFFFF, []⟩], [⟨50, [0x51]⟩], 0⟩
private def blk0 : Block := ⟨⟨1, List.replicate 32 0, specRoot .btc [tx0], 0, 0x1d00ffff, 7⟩, [tx0]⟩

private theorem tx0_wf : tx0.WF := by
  refine ⟨by decide, by decide, by decide, by decide, ?_, ?_⟩
  · intro t ht
    simp [tx0] at ht
    subst ht
    exact ⟨by decide, by decide, by decide, by decide, by decide, by simp⟩
  · intro o ho
    simp [tx0] at ho
    subst ho
    exact ⟨by decide, by decide⟩

example : blk0.WF ∧ blk0.hdr.merkleRoot = specRoot .btc blk0.txs := by
  refine ⟨⟨⟨by decide, by decide, ?_, by decide, by decide, by decide⟩, by decide, by decide, ?_⟩, rfl⟩
  · show (specRoot .btc [tx0]).length = 32
    simp [specRoot, root, height, heightLoop, treeWidth, calcHash, txids, Tx.idDigest, Coin.singleSha, Gen.TxLimits.btc_singleSha, dsha256_length]
  · intro t ht
    simp [blk0] at ht
    subst ht
    exact ⟨tx0_wf, by decide⟩

end Pycoin.C14
