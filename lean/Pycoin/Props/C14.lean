import Pycoin.Model.Merkle
namespace Pycoin.Merkle
theorem C14_placeholder : True := trivial
end Pycoin.Merkle
