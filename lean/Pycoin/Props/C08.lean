import Pycoin.Proofs.AddressLemmas
import Pycoin.Proofs.RealEnv
import Pycoin.Model.TxInAddr
/-!
C08 — addresses and output scripts are in one-to-one correspondence on every network.

The theorems are generic in the codecs and hashes (`Env`); what they need of them is collected in `CodecLaws`
(the C11 round-trip theorems, instantiated by the driver's `realEnv`).  Everything that depends on a network is
quantified over the *generated* table `Gen.Networks.all`; the side conditions on prefixes are decided by the kernel
over the whole table (`decide +kernel`), so a changed symbol file re-checks them.
-/
namespace Pycoin.Addr
open Pycoin.Gen.Networks

/-- every HRP of the table is one BIP173 allows -/
theorem C08_table_hrp : ∀ n ∈ all, ∀ hrp, n.addrHrp = some hrp → hrpOk hrp = true := by decide +kernel

/-! ## the generated table -/

/-- the producing side and the parsing side of every network hold the same address prefixes and HRP -/
theorem C08_table_consistent :
    ∀ n ∈ all, n.addrP2pkh = n.parseP2pkh ∧ n.addrP2sh = n.parseP2sh ∧ n.addrHrp = n.parseHrp := by
  decide +kernel

/-- ★ every network — the Groestlcoin family with its own checksum hash included — writes its addresses under the
checksum hash its parser accepts (`address.b2a` vs `parse.parse_b58_hashed`, each found by probing) -/
theorem C08_table_hash : ∀ n ∈ all, n.hashAddr = n.hashParse := by decide +kernel

/-- the table has networks of both checksum kinds (so the quantifier `∀ n ∈ all` is not about one hash only) -/
theorem C08_table_hash_kinds : (∃ n ∈ all, n.hashParse = .sha256d) ∧ (∃ n ∈ all, n.hashParse = .groestl) := by
  decide +kernel

/-- on no network can a P2SH payload pass the P2PKH gate (same length and the P2PKH prefix in front) or the reverse,
and no address prefix is empty -/
def prefixesOk (n : Network) : Bool :=
  (match n.parseP2pkh, n.parseP2sh with
   | some p, some q => !(p.length = q.length && p = q)
   | _, _ => true) &&
  (match n.parseP2pkh with | some p => !p.isEmpty | none => true) &&
  (match n.parseP2sh with | some p => !p.isEmpty | none => true)

theorem C08_table_prefixes : ∀ n ∈ all, prefixesOk n = true := by decide +kernel

/-- which networks lack which kinds (evaluated on the table; a test of the translator's output, shown in evidence) -/
def kindsDefined (n : Network) : List String :=
  (if n.addrP2pkh.isSome then ["p2pkh"] else []) ++ (if n.addrP2sh.isSome then ["p2sh"] else []) ++
  (if n.addrHrp.isSome then ["p2pkh_wit", "p2sh_wit", "p2tr"] else [])

/-! ## classification is faithful -/

/-- ★ a script is reported as something other than `unknown` only if `for_info` rebuilds exactly its bytes -/
theorem C08_classification_faithful (s : Bytes) (i : Info) (h : infoForScript s = .ok i) :
    i = .unknown s ∨ forInfo i = .ok s := by
  unfold infoForScript at h
  cases hc : classify s with
  | error e => simp [hc, bind, Except.bind] at h
  | ok info =>
    cases hf : forInfo info with
    | error e => simp [hc, hf, bind, Except.bind] at h
    | ok rebuilt =>
      simp only [hc, hf, bind, Except.bind, pure, Except.pure] at h
      split at h
      · injection h with h; left; exact h.symm
      · rename_i hne
        injection h with h; subst h
        right; rw [hf]; simp at hne; rw [hne]

/-- … and in either case `for_info (info_for_script s)` is `s`: classification never loses the script -/
theorem C08_classification_lossless (s : Bytes) (i : Info) (h : infoForScript s = .ok i) : forInfo i = .ok s := by
  rcases C08_classification_faithful s i h with rfl | h
  · rfl
  · exact h

/-- the five standard scripts are recognised as their kind -/
theorem C08_classification_complete (i : Info) (hw : i.wellSized = true) : infoForScript (stdScript i) = .ok i :=
  infoForScript_std i hw

/-! ## address round trip -/

def Info.isB58 : Info → Bool | .p2pkh _ => true | .p2sh _ => true | _ => false

theorem isPrefixOf_append (p d : Bytes) : isPrefixOf p (p ++ d) = true := by simp [isPrefixOf]

theorem drop_prefix (p d : Bytes) : (p ++ d).drop p.length = d := by simp

theorem parseB58Addr_hit (env : Env) (laws : B58Laws env) (net : Network)
    (p : Bytes) (hp : p ≠ []) (mk : Bytes → Info) (h : Bytes) (hl : h.length = 20) (hw : (mk h).wellSized = true) :
    parseB58Addr env net (some p) mk (env.b58cEnc net.hashParse (p ++ h)) = .ok (some (mk h)) := by
  unfold parseB58Addr parseB58Hashed
  have hne : p ++ h ≠ [] := by simp [hp]
  simp only [laws.b58_rt _ _ hne, isPrefixOf_append, Bool.not_true, Bool.false_eq_true, if_false,
    List.length_append, hl, ne_eq, not_true_eq_false, drop_prefix, forInfo_std _ hw, infoForScript_std _ hw, bind, Except.bind,
    pure, Except.pure]

theorem parseB58Addr_miss (env : Env) (laws : B58Laws env) (net : Network)
    (p q : Bytes) (mk : Bytes → Info) (h : Bytes) (hl : h.length = 20) (hq : q ++ h ≠ [])
    (hsep : ¬ (p.length = q.length ∧ p = q)) :
    parseB58Addr env net (some p) mk (env.b58cEnc net.hashParse (q ++ h)) = .ok none := by
  unfold parseB58Addr parseB58Hashed
  simp only [laws.b58_rt _ _ hq]
  by_cases hpre : isPrefixOf p (q ++ h) = true
  · by_cases hlen : (q ++ h).length = p.length + 20
    · exfalso
      have hpq : p.length = q.length := by simp [hl] at hlen; omega
      apply hsep
      refine ⟨hpq, ?_⟩
      have : (q ++ h).take p.length = p := by simpa [isPrefixOf] using hpre
      rw [hpq] at this
      simpa using this.symm
    · have hlen' : ¬ (q.length + h.length = p.length + 20) := by simpa using hlen
      simp [hpre, hlen']
  · simp [hpre]

/-- ★ address round trip, Base58 kinds: on every network of the table that defines the prefix, the address of the
standard P2PKH / P2SH script of any 20-byte hash parses back, on that network, to exactly that script.  EVERY network
of the table: the checksum hash is the network's own (`C08_table_hash`), double SHA-256 or Groestl. -/
theorem C08_addr_rt_b58 (env : Env) (laws : B58Laws env) (net : Network) (hn : net ∈ all)
    (hdis : net.disabled.contains "address" = false)
    (i : Info) (hk : i.isB58 = true) (hw : i.wellSized = true) (addr : String)
    (ha : forScriptInfo env net i = .ok (some addr)) :
    forScript env net (stdScript i) = .ok (some addr) ∧
    parseAddress env net addr = .ok (some i) ∧ forInfo i = .ok (stdScript i) := by
  have htab := C08_table_consistent net hn
  have hpre := C08_table_prefixes net hn
  have hhash := C08_table_hash net hn
  refine ⟨?_, ?_, forInfo_std i hw⟩
  · simp only [forScript, infoForScript_std i hw, bind, Except.bind, ha]
  · cases i with
    | p2pkh h =>
      simp only [Info.wellSized, decide_eq_true_eq] at hw
      simp only [forScriptInfo, forP2pkh, b58Out] at ha
      cases hp : net.addrP2pkh with
      | none => simp [hp] at ha
      | some p =>
        simp only [hp, hhash, Except.ok.injEq, Option.some.injEq] at ha
        subst ha
        have hpp : net.parseP2pkh = some p := by rw [← htab.1, hp]
        have hne : p ≠ [] := by
          intro h0; subst h0
          simp [prefixesOk, hpp] at hpre
        unfold parseAddress
        simp only [hdis, Bool.false_eq_true, if_false, parseP2pkh, hpp]
        rw [parseB58Addr_hit env laws net p hne .p2pkh h hw (by simp [Info.wellSized, hw])]
        rfl
    | p2sh h =>
      simp only [Info.wellSized, decide_eq_true_eq] at hw
      simp only [forScriptInfo, forP2sh, b58Out] at ha
      cases hq : net.addrP2sh with
      | none => simp [hq] at ha
      | some q =>
        simp only [hq, hhash, Except.ok.injEq, Option.some.injEq] at ha
        subst ha
        have hqq : net.parseP2sh = some q := by rw [← htab.2.1, hq]
        have hne : q ≠ [] := by
          intro h0; subst h0
          simp [prefixesOk, hqq] at hpre
        have hfirst : parseP2pkh env net (env.b58cEnc net.hashParse (q ++ h)) = .ok none := by
          unfold parseP2pkh
          cases hp : net.parseP2pkh with
          | none => simp [parseB58Addr]
          | some p =>
            apply parseB58Addr_miss env laws net p q .p2pkh h hw (by simp [hne])
            intro ⟨h1, h2⟩
            simp [prefixesOk, hp, hqq, h2] at hpre
        unfold parseAddress
        simp only [hdis, Bool.false_eq_true, if_false, hfirst, orElse, parseP2sh, hqq]
        rw [parseB58Addr_hit env laws net q hne .p2sh h hw (by simp [Info.wellSized, hw])]
    | _ => simp [Info.isB58] at hk

def Info.isSegwit : Info → Bool | .p2pkhWit _ => true | .p2shWit _ => true | .p2tr _ => true | _ => false

theorem parseB58Addr_none_of_dec (env : Env) (net : Network) (pfx : Option Bytes) (mk : Bytes → Info) (s : String)
    (h : env.b58cDec net.hashParse s = none) : parseB58Addr env net pfx mk s = .ok none := by
  unfold parseB58Addr parseB58Hashed
  split <;> simp_all

/-- ◐ address round trip, segwit kinds.  Extra hypothesis `hx`: the Bech32 string is not *also* a valid Base58Check
string (the Base58 parsers are tried first).  This is a hash-coincidence hypothesis, not a structural one: `1` and most
Bech32 data characters are Base58 characters and HRPs such as `bc`, `tb`, `grs` consist of Base58 characters only (only
`ltc`/`tltc` contain the non-Base58 `l`), so a Bech32 address can be a string over the Base58 alphabet; it is then
refused by Base58Check only because the last four decoded bytes would have to equal the network's checksum hash (double
SHA-256, or Groestl on the Groestlcoin family) of the rest. -/
theorem C08_addr_rt_segwit_partial (env : Env) (laws : CodecLaws env) (net : Network) (hn : net ∈ all)
    (hdis : net.disabled.contains "address" = false)
    (i : Info) (hk : i.isSegwit = true) (hw : i.wellSized = true) (addr : String)
    (ha : forScriptInfo env net i = .ok (some addr)) (hx : env.b58cDec net.hashParse addr = none) :
    forScript env net (stdScript i) = .ok (some addr) ∧
    parseAddress env net addr = .ok (some i) ∧ forInfo i = .ok (stdScript i) := by
  have htab := C08_table_consistent net hn
  refine ⟨?_, ?_, forInfo_std i hw⟩
  · simp only [forScript, infoForScript_std i hw, bind, Except.bind, ha]
  · have h1 : parseP2pkh env net addr = .ok none := parseB58Addr_none_of_dec env net _ _ _ hx
    have h2 : parseP2sh env net addr = .ok none := parseB58Addr_none_of_dec env net _ _ _ hx
    unfold parseAddress
    simp only [hdis, Bool.false_eq_true, if_false, h1, h2, orElse]
    cases hh : net.addrHrp with
    | none => cases i <;> simp [forScriptInfo, forP2pkhWit, forP2shWit, forP2tr, hh, Info.isSegwit] at ha hk
    | some hrp =>
      have hph : net.parseHrp = some hrp := by rw [← htab.2.2, hh]
      have hok := C08_table_hrp net hn hrp hh
      cases i with
      | p2pkhWit h =>
        simp only [Info.wellSized, decide_eq_true_eq] at hw
        simp only [forScriptInfo, forP2pkhWit, hh, hw, ne_eq, not_true_eq_false, if_false, Except.ok.injEq] at ha
        have hp := laws.seg_rt _ _ _ _ hok (by omega) (by omega) ha
        simp only [parseP2pkhSegwit, parseBech32m, hp, hph, if_true, hw, ne_eq, not_true_eq_false, if_false, and_false,
          forInfo_std (.p2pkhWit h) (by simp [Info.wellSized, hw]), infoForScript_std (.p2pkhWit h) (by simp [Info.wellSized, hw]),
          bind, Except.bind, pure, Except.pure, and_self, false_and]
      | p2shWit h =>
        simp only [Info.wellSized, decide_eq_true_eq] at hw
        simp only [forScriptInfo, forP2shWit, hh, hw, ne_eq, not_true_eq_false, if_false, Except.ok.injEq] at ha
        have hp := laws.seg_rt _ _ _ _ hok (by omega) (by omega) ha
        have h20 : ¬ (h.length = 20) := by omega
        simp only [parseP2pkhSegwit, parseP2shSegwit, parseBech32m, hp, hph, if_true, hw, h20, ne_eq, not_true_eq_false, if_false,
          not_false_eq_true, and_false,
          forInfo_std (.p2shWit h) (by simp [Info.wellSized, hw]), infoForScript_std (.p2shWit h) (by simp [Info.wellSized, hw]),
          bind, Except.bind, pure, Except.pure, and_self, false_and]
        simp
      | p2tr h =>
        simp only [Info.wellSized, decide_eq_true_eq] at hw
        simp only [forScriptInfo, forP2tr, hh, Except.ok.injEq] at ha
        have hp := laws.seg_rt _ _ _ _ hok (by omega) (by omega) ha
        have h20 : ¬ (h.length = 20) := by omega
        simp only [parseP2pkhSegwit, parseP2shSegwit, parseP2tr, parseBech32m, hp, hph, if_true, hw, h20, ne_eq, not_true_eq_false,
          if_false, not_false_eq_true, and_false, Nat.zero_ne_one, Nat.one_ne_zero,
          forInfo_std (.p2tr h) (by simp [Info.wellSized, hw]), infoForScript_std (.p2tr h) (by simp [Info.wellSized, hw]),
          bind, Except.bind, pure, Except.pure, and_self, false_and, true_and, and_true]
        simp
      | _ => simp [Info.isSegwit] at hk

/-! ## accepted strings re-encode to themselves -/

theorem isPrefixOf_split {p d : Bytes} (h : isPrefixOf p d = true) : d = p ++ d.drop p.length := by
  have : d.take p.length = p := by simpa [isPrefixOf] using h
  conv => lhs; rw [← List.take_append_drop p.length d, this]

theorem parseB58Addr_some (env : Env) (net : Network) (pfx : Option Bytes) (mk : Bytes → Info) (s : String) (i : Info)
    (hmk : ∀ d, d.length = 20 → (mk d).wellSized = true)
    (h : parseB58Addr env net pfx mk s = .ok (some i)) :
    ∃ p hsh, pfx = some p ∧ env.b58cDec net.hashParse s = some (p ++ hsh) ∧ hsh.length = 20 ∧ i = mk hsh := by
  unfold parseB58Addr at h
  cases hd : parseB58Hashed env net s with
  | none => simp [hd] at h
  | some data =>
    cases pfx with
    | none => simp [hd] at h
    | some p =>
      simp only [hd] at h
      have hb : env.b58cDec net.hashParse s = some data := hd
      split at h
      · cases h
      · rename_i hpre
        split at h
        · cases h
        · rename_i hlen
          have hpre' : isPrefixOf p data = true := by simpa using hpre
          have hlen' : data.length = p.length + 20 := by simpa using hlen
          have hdl : (data.drop p.length).length = 20 := by simp [hlen']
          have hw := hmk _ hdl
          simp only [forInfo_std _ hw, infoForScript_std _ hw, bind, Except.bind, pure, Except.pure, Except.ok.injEq,
            Option.some.injEq] at h
          refine ⟨p, data.drop p.length, rfl, ?_, hdl, h.symm⟩
          rw [← isPrefixOf_split hpre']; exact hb

theorem parseBech32m_some (env : Env) (net : Network) (s : String) (ev bl : Nat) (mk : Bytes → Info) (i : Info)
    (hmk : ∀ d, d.length = bl → (mk d).wellSized = true)
    (h : parseBech32m env net s ev bl mk = .ok (some i)) :
    ∃ hrp dec spec, env.bech32Parse s = some (hrp, ev, dec, spec) ∧ net.parseHrp = some hrp ∧ dec.length = bl ∧
      (ev = 0 → spec = .bech32) ∧ (ev ≠ 0 → spec = .bech32m) ∧ i = mk dec := by
  unfold parseBech32m at h
  cases hp : env.bech32Parse s with
  | none => simp [hp] at h
  | some q =>
    obtain ⟨hrp, version, decoded, spec⟩ := q
    simp only [hp] at h
    split at h
    · cases h
    · rename_i h1
      split at h
      · cases h
      · rename_i h2
        split at h
        · cases h
        · rename_i h3
          split at h
          · cases h
          · rename_i h4
            split at h
            · cases h
            · rename_i h5
              have hl : decoded.length = bl := by simpa using h2
              have hv : ev = version := by simpa using h3
              subst hv
              have hw := hmk _ hl
              simp only [forInfo_std _ hw, infoForScript_std _ hw, bind, Except.bind, pure, Except.pure, Except.ok.injEq,
                Option.some.injEq] at h
              refine ⟨hrp, decoded, spec, rfl, (by simpa using h1 : some hrp = net.parseHrp).symm, hl, ?_, ?_, h.symm⟩
              · intro h0; simpa [h0] using h4
              · intro h0; simpa [h0] using h5

/-- ★ any string a network of the table accepts as an address denotes one of the five standard kinds with a payload of
exactly the kind's length, and that network's own address for the denoted script is the string itself (its lower-case
form for Bech32, which is case-insensitive) -/
theorem C08_accepted_reencodes (env : Env) (laws : CodecLaws env) (net : Network) (hn : net ∈ all) (t : String) (i : Info)
    (h : parseAddress env net t = .ok (some i)) :
    i.wellSized = true ∧ forInfo i = .ok (stdScript i) ∧
    ∃ a, forScriptInfo env net i = .ok (some a) ∧ forScript env net (stdScript i) = .ok (some a) ∧ (a = t ∨ a = asciiLower t) := by
  have htab := C08_table_consistent net hn
  have hhash := C08_table_hash net hn
  have finish : ∀ a, i.wellSized = true → forScriptInfo env net i = .ok (some a) → (a = t ∨ a = asciiLower t) →
      i.wellSized = true ∧ forInfo i = .ok (stdScript i) ∧
      ∃ a, forScriptInfo env net i = .ok (some a) ∧ forScript env net (stdScript i) = .ok (some a) ∧ (a = t ∨ a = asciiLower t) := by
    intro a hw ha hor
    refine ⟨hw, forInfo_std i hw, a, ha, ?_, hor⟩
    simp only [forScript, infoForScript_std i hw, bind, Except.bind, ha]
  unfold parseAddress at h
  split at h
  · cases h
  · -- P2PKH
    cases h1 : parseP2pkh env net t with
    | error e => simp [h1, orElse] at h
    | ok o1 =>
      cases o1 with
      | some i1 =>
        simp only [h1, orElse, Except.ok.injEq, Option.some.injEq] at h
        subst h
        obtain ⟨p, hsh, hp, hdec, hl, rfl⟩ := parseB58Addr_some env net _ .p2pkh t i1 (by simp [Info.wellSized]) h1
        refine finish t (by simp [Info.wellSized, hl]) ?_ (Or.inl rfl)
        simp only [forScriptInfo, forP2pkh, b58Out, htab.1, hp, hhash, laws.b58_canon _ _ _ hdec]
      | none =>
        simp only [h1, orElse] at h
        cases h2 : parseP2sh env net t with
        | error e => simp [h2] at h
        | ok o2 =>
          cases o2 with
          | some i2 =>
            simp only [h2, Except.ok.injEq, Option.some.injEq] at h
            subst h
            obtain ⟨p, hsh, hp, hdec, hl, rfl⟩ := parseB58Addr_some env net _ .p2sh t i2 (by simp [Info.wellSized]) h2
            refine finish t (by simp [Info.wellSized, hl]) ?_ (Or.inl rfl)
            simp only [forScriptInfo, forP2sh, b58Out, htab.2.1, hp, hhash, laws.b58_canon _ _ _ hdec]
          | none =>
            simp only [h2] at h
            cases h3 : parseP2pkhSegwit env net t with
            | error e => simp [h3] at h
            | ok o3 =>
              cases o3 with
              | some i3 =>
                simp only [h3, Except.ok.injEq, Option.some.injEq] at h
                subst h
                obtain ⟨hrp, dec, spec, hpar, hh, hl, hs0, hs1, rfl⟩ :=
                  parseBech32m_some env net t 0 20 .p2pkhWit i3 (by simp [Info.wellSized]) h3
                refine finish (asciiLower t) (by simp [Info.wellSized, hl]) ?_ (Or.inr rfl)
                simp only [forScriptInfo, forP2pkhWit, htab.2.2, hh, hl, ne_eq, not_true_eq_false, if_false]
                rw [laws.seg_canon _ _ _ _ _ hpar hs0 hs1 (Or.inl hl) (by omega)]
              | none =>
                simp only [h3] at h
                cases h4 : parseP2shSegwit env net t with
                | error e => simp [h4] at h
                | ok o4 =>
                  cases o4 with
                  | some i4 =>
                    simp only [h4, Except.ok.injEq, Option.some.injEq] at h
                    subst h
                    obtain ⟨hrp, dec, spec, hpar, hh, hl, hs0, hs1, rfl⟩ :=
                      parseBech32m_some env net t 0 32 .p2shWit i4 (by simp [Info.wellSized]) h4
                    refine finish (asciiLower t) (by simp [Info.wellSized, hl]) ?_ (Or.inr rfl)
                    simp only [forScriptInfo, forP2shWit, htab.2.2, hh, hl, ne_eq, not_true_eq_false, if_false]
                    rw [laws.seg_canon _ _ _ _ _ hpar hs0 hs1 (Or.inr hl) (by omega)]
                  | none =>
                    simp only [h4] at h
                    obtain ⟨hrp, dec, spec, hpar, hh, hl, hs0, hs1, rfl⟩ :=
                      parseBech32m_some env net t 1 32 .p2tr i (by simp [Info.wellSized]) h
                    refine finish (asciiLower t) (by simp [Info.wellSized, hl]) ?_ (Or.inr rfl)
                    simp only [forScriptInfo, forP2tr, htab.2.2, hh]
                    rw [laws.seg_canon _ _ _ _ _ hpar hs0 hs1 (Or.inr hl) (by omega)]

/-- ★ cross-network acceptance, all ordered pairs of the table at once: a string produced on network `n₁` for a script is
accepted by network `n₂` only as a string `n₂` itself produces for the script it reads from it -/
theorem C08_cross_network (env : Env) (laws : CodecLaws env) (n₁ n₂ : Network) (_h₁ : n₁ ∈ all) (h₂ : n₂ ∈ all)
    (script : Bytes) (addr : String) (_hmade : forScript env n₁ script = .ok (some addr)) (i : Info)
    (hacc : parseAddress env n₂ addr = .ok (some i)) :
    ∃ a, forScript env n₂ (stdScript i) = .ok (some a) ∧ (a = addr ∨ a = asciiLower addr) := by
  obtain ⟨_, _, a, _, ha, hor⟩ := C08_accepted_reencodes env laws n₂ h₂ addr i hacc
  exact ⟨a, ha, hor⟩

/-! ## keys -/

/-- ★ `Key.address()` is the address of the script paying to the key's hash; BIP84 is the P2WPKH address of that hash;
BIP49 is the P2SH address of the P2WPKH script.  (`hash160` yields 20 bytes: a fact of the hash model.) -/
theorem C08_key_address (env : Env) (net : Network) (sec : Bytes) (h20 : ∀ m, (env.hash160 m).length = 20) :
    keyAddress env net sec = forScript env net (stdScript (.p2pkh (env.hash160 sec))) ∧
    bip84Address env net sec = forScript env net (stdScript (.p2pkhWit (env.hash160 sec))) ∧
    bip49Address env net sec =
      forScript env net (stdScript (.p2sh (env.hash160 (stdScript (.p2pkhWit (env.hash160 sec)))))) := by
  have w1 : (Info.p2pkh (env.hash160 sec)).wellSized = true := by simp [Info.wellSized, h20]
  have w2 : (Info.p2pkhWit (env.hash160 sec)).wellSized = true := by simp [Info.wellSized, h20]
  have w3 : (Info.p2sh (env.hash160 (stdScript (.p2pkhWit (env.hash160 sec))))).wellSized = true := by simp [Info.wellSized, h20]
  refine ⟨?_, ?_, ?_⟩
  · simp only [keyAddress, forScript, infoForScript_std _ w1, bind, Except.bind, forScriptInfo]
  · simp only [bip84Address, forScript, infoForScript_std _ w2, bind, Except.bind, forScriptInfo]
  · simp only [bip49Address, forInfo_std _ w2, forP2s, forScript, infoForScript_std _ w3, bind, Except.bind, forScriptInfo]

/-! ## the same theorems about the real codecs: no codec hypothesis left

`real_laws : CodecLaws realEnv` (Proofs/RealEnv.lean) instantiates the hypotheses with the C11 theorems
(`C11_b58_dec_enc`, `C11_b58_enc_dec`, `C11_b58_rejects`, `C11_segwit_rt`, `C11_segwit_rt_conv`; the Base58Check round
trips for either checksum hash are `Proofs/Base58Hash.lean`, which uses of the hash only that it yields 32 bytes)
for the very `Env` the driver evaluates. -/

/-- ★ address round trip for P2PKH / P2SH on every network of the table, with the modelled Base58Check -/
theorem C08_addr_rt_b58_real (net : Network) (hn : net ∈ all)
    (hdis : net.disabled.contains "address" = false)
    (i : Info) (hk : i.isB58 = true) (hw : i.wellSized = true) (addr : String)
    (ha : forScriptInfo realEnv net i = .ok (some addr)) :
    forScript realEnv net (stdScript i) = .ok (some addr) ∧
    parseAddress realEnv net addr = .ok (some i) ∧ forInfo i = .ok (stdScript i) :=
  C08_addr_rt_b58 realEnv real_b58_laws net hn hdis i hk hw addr ha

/-- ★ accepted strings re-encode to themselves, with the modelled Base58Check and Bech32/Bech32m -/
theorem C08_accepted_reencodes_real (net : Network) (hn : net ∈ all) (t : String) (i : Info)
    (h : parseAddress realEnv net t = .ok (some i)) :
    i.wellSized = true ∧ forInfo i = .ok (stdScript i) ∧
    ∃ a, forScriptInfo realEnv net i = .ok (some a) ∧ forScript realEnv net (stdScript i) = .ok (some a) ∧
      (a = t ∨ a = asciiLower t) :=
  C08_accepted_reencodes realEnv real_laws net hn t i h

/-- ★ cross-network acceptance for all ordered pairs of the table, with the modelled codecs -/
theorem C08_cross_network_real (n₁ n₂ : Network) (h₁ : n₁ ∈ all) (h₂ : n₂ ∈ all)
    (script : Bytes) (addr : String) (hmade : forScript realEnv n₁ script = .ok (some addr)) (i : Info)
    (hacc : parseAddress realEnv n₂ addr = .ok (some i)) :
    ∃ a, forScript realEnv n₂ (stdScript i) = .ok (some a) ∧ (a = addr ∨ a = asciiLower addr) :=
  C08_cross_network realEnv real_laws n₁ n₂ h₁ h₂ script addr hmade i hacc

/-- ★ cross-network acceptance ACROSS the two checksum hashes (a Groestlcoin-family network and any other, either way):
a Base58 address one of them produces is accepted by the other — as anything at all — only if, for the very payload the
text carries, the first four bytes of double SHA-256 and of the Groestl hash coincide.  So a GRS address is refused by
BTC (same P2SH version byte) and a BTC address by GRS unless the two hashes collide on 32 bits for that payload; nothing
else about the hashes enters (for the real Groestl hash as for the stand-in: probability 2⁻³² per payload). -/
theorem C08_cross_hash_real (n₁ n₂ : Network) (h₁ : n₁ ∈ all) (hk : n₁.hashParse ≠ n₂.hashParse)
    (i₁ : Info) (hb₁ : i₁.isB58 = true) (addr : String) (hmade : forScriptInfo realEnv n₁ i₁ = .ok (some addr))
    (i₂ : Info) (hb₂ : i₂.isB58 = true) (hacc : parseAddress realEnv n₂ addr = .ok (some i₂)) :
    ∃ d : Bytes, d ≠ [] ∧ realEnv.b58cDec n₁.hashParse addr = some d ∧ realEnv.b58cDec n₂.hashParse addr = some d ∧
      (Base58.hashFn .sha256d d).take 4 = (Base58.hashFn .groestl d).take 4 := by
  have hhash := C08_table_hash n₁ h₁
  have hpre := C08_table_prefixes n₁ h₁
  have htab := C08_table_consistent n₁ h₁
  -- what n₁ wrote: Base58Check of a non-empty payload under its own hash
  obtain ⟨d₁, hd₁ne, haddr⟩ : ∃ d, d ≠ [] ∧ addr = realEnv.b58cEnc n₁.hashParse d := by
    cases i₁ with
    | p2pkh h =>
      simp only [forScriptInfo, forP2pkh, b58Out] at hmade
      cases hp : n₁.addrP2pkh with
      | none => simp [hp] at hmade
      | some p =>
        simp only [hp, hhash, Except.ok.injEq, Option.some.injEq] at hmade
        refine ⟨p ++ h, ?_, hmade.symm⟩
        intro h0
        have : p = [] := (List.append_eq_nil_iff.mp h0).1
        subst this
        simp [prefixesOk, ← htab.1, hp] at hpre
    | p2sh h =>
      simp only [forScriptInfo, forP2sh, b58Out] at hmade
      cases hp : n₁.addrP2sh with
      | none => simp [hp] at hmade
      | some p =>
        simp only [hp, hhash, Except.ok.injEq, Option.some.injEq] at hmade
        refine ⟨p ++ h, ?_, hmade.symm⟩
        intro h0
        have : p = [] := (List.append_eq_nil_iff.mp h0).1
        subst this
        simp [prefixesOk, ← htab.2.1, hp] at hpre
    | _ => simp [Info.isB58] at hb₁
  have hdec₁ : realEnv.b58cDec n₁.hashParse addr = some d₁ := by rw [haddr]; exact real_b58_rt _ _ hd₁ne
  -- what n₂ read: a Base58Check payload under ITS hash
  obtain ⟨d₂, hdec₂⟩ : ∃ d, realEnv.b58cDec n₂.hashParse addr = some d := by
    unfold parseAddress at hacc
    split at hacc
    · cases hacc
    · cases hd : realEnv.b58cDec n₂.hashParse addr with
      | some d => exact ⟨d, rfl⟩
      | none =>
        exfalso
        have e1 : parseP2pkh realEnv n₂ addr = .ok none := parseB58Addr_none_of_dec realEnv n₂ _ _ _ hd
        have e2 : parseP2sh realEnv n₂ addr = .ok none := parseB58Addr_none_of_dec realEnv n₂ _ _ _ hd
        simp only [e1, e2, orElse] at hacc
        -- only the segwit parsers are left, and they never return a Base58 kind
        cases h3 : parseP2pkhSegwit realEnv n₂ addr with
        | error e => simp [h3] at hacc
        | ok o3 =>
          cases o3 with
          | some i3 =>
            simp only [h3, Except.ok.injEq, Option.some.injEq] at hacc
            subst hacc
            obtain ⟨_, _, _, _, _, _, _, _, rfl⟩ := parseBech32m_some realEnv n₂ addr 0 20 .p2pkhWit i3 (by simp [Info.wellSized]) h3
            simp [Info.isB58] at hb₂
          | none =>
            simp only [h3] at hacc
            cases h4 : parseP2shSegwit realEnv n₂ addr with
            | error e => simp [h4] at hacc
            | ok o4 =>
              cases o4 with
              | some i4 =>
                simp only [h4, Except.ok.injEq, Option.some.injEq] at hacc
                subst hacc
                obtain ⟨_, _, _, _, _, _, _, _, rfl⟩ := parseBech32m_some realEnv n₂ addr 0 32 .p2shWit i4 (by simp [Info.wellSized]) h4
                simp [Info.isB58] at hb₂
              | none =>
                simp only [h4] at hacc
                obtain ⟨_, _, _, _, _, _, _, _, rfl⟩ := parseBech32m_some realEnv n₂ addr 1 32 .p2tr i₂ (by simp [Info.wellSized]) hacc
                simp [Info.isB58] at hb₂
  -- both decodings of one text: one payload, and the two checksums coincide on it
  have key : ∀ a b, realEnv.b58cDec .sha256d addr = some a → realEnv.b58cDec .groestl addr = some b →
      a = b ∧ (Base58.hashFn .sha256d a).take 4 = (Base58.hashFn .groestl a).take 4 := by
    intro a b ha hb
    simp only [realEnv] at ha hb
    split at ha
    · rename_i hasc
      rw [if_pos hasc] at hb
      exact Base58.parse_both_collision _ _ _ ha hb
    · cases ha
  cases hk₁ : n₁.hashParse <;> cases hk₂ : n₂.hashParse <;> simp only [hk₁, hk₂] at hk hdec₁ hdec₂ ⊢
  · exact absurd rfl hk
  · obtain ⟨e, c⟩ := key _ _ hdec₁ hdec₂
    subst e
    exact ⟨d₁, hd₁ne, hdec₁, hdec₂, c⟩
  · obtain ⟨e, c⟩ := key _ _ hdec₂ hdec₁
    subst e
    exact ⟨d₂, hd₁ne, hdec₁, hdec₂, c⟩
  · exact absurd rfl hk

/-- ◐ segwit round trip with the modelled codecs.  The one hypothesis left, `hx`, says the Bech32 string is not *also*
accepted by the Base58Check decoder (the Base58 parsers run first).  It cannot be discharged from the table: `1` and
most Bech32 data characters are Base58 characters, and HRPs such as `bc`, `tb`, `ltc` consist of Base58 characters
only, so a Bech32 address may well be a string over the Base58 alphabet; what then keeps it from being accepted is
that the last four decoded bytes would have to equal the network's checksum hash of the rest — a hash-coincidence statement
(probability 2⁻³² per string), not a structural one. -/
theorem C08_addr_rt_segwit_real_partial (net : Network) (hn : net ∈ all)
    (hdis : net.disabled.contains "address" = false)
    (i : Info) (hk : i.isSegwit = true) (hw : i.wellSized = true) (addr : String)
    (ha : forScriptInfo realEnv net i = .ok (some addr)) (hx : realEnv.b58cDec net.hashParse addr = none) :
    forScript realEnv net (stdScript i) = .ok (some addr) ∧
    parseAddress realEnv net addr = .ok (some i) ∧ forInfo i = .ok (stdScript i) :=
  C08_addr_rt_segwit_partial realEnv real_laws net hn hdis i hk hw addr ha hx

/-! ## one `parseable_str` object, several networks -/

/-- a slot is absent or holds the decoder's own answer -/
def PsCache.Ok (env : Env) (text : String) (c : PsCache) : Prop :=
  (∀ k, c.b58 k = none ∨ c.b58 k = some (env.b58cDec k text)) ∧ (c.bech = none ∨ c.bech = some (env.bech32Parse text))

theorem cachedEnv_eq (env : Env) (text : String) (c : PsCache) (h : c.Ok env text) : cachedEnv env text c = env := by
  obtain ⟨h1, h2⟩ := h
  cases env with
  | mk enc dec seg bech h160 sha =>
    simp only [cachedEnv, Env.mk.injEq, true_and, and_true]
    constructor
    · funext k s
      split
      · rename_i hs; subst hs
        rcases h1 k with h1 | h1 <;> simp [h1]
      · rfl
    · funext s
      split
      · rename_i hs; subst hs
        rcases h2 with h2 | h2 <;> simp [h2]
      · rfl

theorem fill_ok (env : Env) (text : String) (c : PsCache) (h : c.Ok env text) : (c.fill env text).Ok env text := by
  obtain ⟨h1, h2⟩ := h
  constructor
  · intro k; right; rcases h1 k with h1 | h1 <;> simp [PsCache.fill, h1]
  · right; rcases h2 with h2 | h2 <;> simp [PsCache.fill, h2]

theorem historyRun_spec {σ α : Type} (env : Env) (text : String) (step : Env → σ → α) (steps : List σ) :
    ∀ c : PsCache, c.Ok env text → historyRun env text step c steps = steps.map (step env) := by
  induction steps with
  | nil => intro c _; rfl
  | cons s ss ih =>
    intro c h
    simp only [historyRun, List.map_cons, cachedEnv_eq env text c h, ih _ (fill_ok env text c h)]

/-- ★ a parser's answer does not depend on which networks (or which other entry points) were asked about the same
`parseable_str` object before: whatever sequence of address-family calls, on whatever networks, is made on one shared
object, each answer is the answer the same call gives on a fresh string -/
theorem C08_parse_history_network_independent (env : Env) (text : String) (steps : List (Network × String)) :
    historyRun env text (fun e (st : Network × String) => parseAddrEntry e st.1 st.2 text) PsCache.empty steps =
      steps.map (fun st => parseAddrEntry env st.1 st.2 text) :=
  historyRun_spec env text _ steps PsCache.empty ⟨fun _ => Or.inl rfl, Or.inl rfl⟩

/-! ## key objects over time: the caches are transparent -/

/-- a cache slot is empty or holds the hash of the matching SEC form -/
def CacheOk (env : Env) (secC secU : Bytes) (st : KeyState) : Prop :=
  (st.hashC = none ∨ st.hashC = some (env.hash160 secC)) ∧ (st.hashU = none ∨ st.hashU = some (env.hash160 secU))

theorem resolveFlag_fresh (kind : KeyKind) (st : KeyState) (b : Bool) (c : Option Bool) :
    resolveFlag kind st b c = resolveFlag kind (freshKey true st.compressed) b c := by
  cases c <;> rfl

theorem keyHash160_spec (env : Env) (secC secU : Bytes) (st : KeyState) (h : CacheOk env secC secU st) (c : Bool) :
    (keyHash160 env secC secU st c).1 = env.hash160 (if c then secC else secU) ∧
    CacheOk env secC secU (keyHash160 env secC secU st c).2 ∧
    (keyHash160 env secC secU st c).2.compressed = st.compressed := by
  obtain ⟨hc, hu⟩ := h
  unfold keyHash160
  cases c with
  | true =>
    simp only [if_true]
    cases hcv : st.hashC with
    | none => exact ⟨rfl, ⟨Or.inr rfl, hu⟩, rfl⟩
    | some v =>
      have hv : v = env.hash160 secC := by
        rcases hc with hc | hc
        · rw [hcv] at hc; cases hc
        · rw [hcv] at hc; injection hc
      exact ⟨hv, ⟨Or.inr (by rw [hcv, hv]), hu⟩, rfl⟩
  | false =>
    simp only [Bool.false_eq_true, if_false]
    cases huv : st.hashU with
    | none => exact ⟨rfl, ⟨hc, Or.inr rfl⟩, rfl⟩
    | some v =>
      have hv : v = env.hash160 secU := by
        rcases hu with hu | hu
        · rw [huv] at hu; cases hu
        · rw [huv] at hu; injection hu
      exact ⟨hv, ⟨hc, Or.inr (by rw [huv, hv])⟩, rfl⟩

theorem keyStep_spec (env : Env) (net : Network) (kind : KeyKind) (secC secU : Bytes) (st : KeyState)
    (h : CacheOk env secC secU st) (s : KeyStep) :
    (keyStep env net kind secC secU st s).1 = keyStepFresh env net kind secC secU st.compressed s ∧
    CacheOk env secC secU (keyStep env net kind secC secU st s).2 ∧
    (keyStep env net kind secC secU st s).2.compressed = st.compressed := by
  cases s with
  | hash160 c =>
    have := keyHash160_spec env secC secU st h (resolveFlag kind st false c)
    simp only [keyStep, keyStepFresh, this.1, ← resolveFlag_fresh]
    exact ⟨trivial, this.2⟩
  | fingerprint c =>
    have := keyHash160_spec env secC secU st h (resolveFlag kind st false c)
    simp only [keyStep, keyStepFresh, this.1, ← resolveFlag_fresh]
    exact ⟨trivial, this.2⟩
  | address c =>
    have := keyHash160_spec env secC secU st h (resolveFlag kind st true c)
    simp only [keyStep, keyStepFresh, this.1, ← resolveFlag_fresh]
    exact ⟨trivial, this.2⟩
  | sec c =>
    simp only [keyStep, keyStepFresh, ← resolveFlag_fresh]
    exact ⟨trivial, h, trivial⟩
  | publicCopy =>
    simp only [keyStep, keyStepFresh]
    refine ⟨trivial, ?_, ?_⟩
    · split
      · exact ⟨Or.inl rfl, Or.inl rfl⟩
      · exact h
    · split <;> rfl

theorem keyRun_spec (env : Env) (net : Network) (kind : KeyKind) (secC secU : Bytes) (steps : List KeyStep) :
    ∀ st, CacheOk env secC secU st →
      keyRun env net kind secC secU st steps = steps.map (keyStepFresh env net kind secC secU st.compressed) := by
  induction steps with
  | nil => intro st _; rfl
  | cons s ss ih =>
    intro st h
    have hs := keyStep_spec env net kind secC secU st h s
    simp only [keyRun, List.map_cons, hs.1, ih _ hs.2.1, hs.2.2]

/-- ★ the `hash160` caches and the copying methods are transparent: after any sequence of `hash160` / `fingerprint` /
`address` / `sec` / `public_copy` calls (any `is_compressed` arguments, any key class) on a newly made key, every answer
is what a fresh computation from the key's SEC encodings gives — in particular `address(is_compressed=c)` is always the
address of the script paying to `hash160(sec(c))` -/
theorem C08_key_cache_transparent (env : Env) (net : Network) (kind : KeyKind) (secC secU : Bytes) (isPrivate compressed : Bool)
    (steps : List KeyStep) :
    keyRun env net kind secC secU (freshKey isPrivate compressed) steps =
      steps.map (keyStepFresh env net kind secC secU compressed) :=
  keyRun_spec env net kind secC secU steps (freshKey isPrivate compressed) ⟨Or.inl rfl, Or.inl rfl⟩

/-! ## non-vacuity: the hypotheses are satisfiable -/

def toyMark : HashKind → Char | .sha256d => 'x' | .groestl => 'g'

/-- a toy codec (hex behind a marker character that depends on the checksum kind, no Bech32) that satisfies `CodecLaws` -/
def toyEnv : Env where
  b58cEnc k d := String.ofList (toyMark k :: Hex.encodeChars d)
  b58cDec k s := match s.toList with
    | c :: cs => if c = toyMark k then (match Hex.decodeChars cs with
      | some d => if Hex.encodeChars d = cs ∧ d ≠ [] then some d else none
      | none => none) else none
    | _ => none
  segwitEnc _ _ _ := none
  bech32Parse _ := none
  hash160 m := m.take 20 ++ List.replicate (20 - (m.take 20).length) 0
  sha256 m := m.take 32 ++ List.replicate (32 - (m.take 32).length) 0

theorem toy_laws : CodecLaws toyEnv where
  b58_rt k d hd := by
    simp [toyEnv, String.toList_ofList, decode_encode, hd]
  b58_canon k s d h := by
    simp only [toyEnv] at h ⊢
    split at h
    · rename_i c cs hs
      split at h
      · rename_i hck
        split at h
        · split at h
          · rename_i d' _ hc
            injection h with h; subst h
            rw [hc.1, ← hck, ← hs, String.ofList_toList]
          · cases h
        · cases h
      · cases h
    · cases h
  seg_rt _ _ _ _ _ _ _ h := by simp [toyEnv] at h
  seg_canon _ _ _ _ _ h := by simp [toyEnv] at h

/-- the round-trip theorem applies to a concrete network, kind and hash -/
example : parseAddress toyEnv net_btc (toyEnv.b58cEnc .sha256d ([0] ++ List.replicate 20 7)) = .ok (some (.p2pkh (List.replicate 20 7))) :=
  (C08_addr_rt_b58 toyEnv toy_laws.toB58Laws net_btc (by decide) (by decide) (.p2pkh (List.replicate 20 7)) rfl (by decide) _
    (by rfl)).2.1

/-- … and to a network of the other checksum kind (Groestlcoin mainnet, P2SH) -/
example : parseAddress toyEnv net_grs (toyEnv.b58cEnc .groestl ([5] ++ List.replicate 20 7)) = .ok (some (.p2sh (List.replicate 20 7))) :=
  (C08_addr_rt_b58 toyEnv toy_laws.toB58Laws net_grs (by decide) (by decide) (.p2sh (List.replicate 20 7)) rfl (by decide) _
    (by rfl)).2.1

/-- (tests, by evaluation of the real codec models) BTC and GRS share the P2SH version byte 5: each network's own text
parses on it, and the text under the other network's checksum hash is refused both ways -/
def isNone : ParseOut → Bool | .ok none => true | _ => false
def isP2sh : ParseOut → Bool | .ok (some (.p2sh _)) => true | _ => false
#guard isP2sh (parseAddress realEnv net_btc (realEnv.b58cEnc .sha256d ([5] ++ List.replicate 20 7)))
#guard isP2sh (parseAddress realEnv net_grs (realEnv.b58cEnc .groestl ([5] ++ List.replicate 20 7)))
#guard isNone (parseAddress realEnv net_btc (realEnv.b58cEnc .groestl ([5] ++ List.replicate 20 7)))
#guard isNone (parseAddress realEnv net_grs (realEnv.b58cEnc .sha256d ([5] ++ List.replicate 20 7)))


/-! ## the rest of the contract API, `Contract.override_network`, the registry -/

/-- C08.contract_p2s: the script `contract.for_p2s(u)` builds is the P2SH script of `hash160(u)`: it classifies as
P2SH with that hash, rebuilds byte for byte, and its address on any network is `address.for_p2s(u)`; likewise
`for_p2s_wit` with SHA-256 and P2WSH -/
theorem C08_contract_p2s (env : Env) (net : Network) (u : Bytes)
    (h20 : (env.hash160 u).length = 20) (h32 : (env.sha256 u).length = 32) :
    (∃ s, contractForP2s env u = .ok s ∧ infoForScript s = .ok (.p2sh (env.hash160 u)) ∧
      forScript env net s = forP2s env net u) ∧
    (∃ s, contractForP2sWit env u = .ok s ∧ infoForScript s = .ok (.p2shWit (env.sha256 u)) ∧
      forScript env net s = forP2sWit env net u) := by
  constructor
  · have hc := C08_classification_complete (.p2sh (env.hash160 u)) (by simp [Info.wellSized, h20])
    have hl := C08_classification_lossless _ _ hc
    refine ⟨stdScript (.p2sh (env.hash160 u)), hl, hc, ?_⟩
    simp [forScript, hc, forScriptInfo, forP2s, bind, Except.bind]
  · have hc := C08_classification_complete (.p2shWit (env.sha256 u)) (by simp [Info.wellSized, h32])
    have hl := C08_classification_lossless _ _ hc
    refine ⟨stdScript (.p2shWit (env.sha256 u)), hl, hc, ?_⟩
    simp [forScript, hc, forScriptInfo, forP2sWit, bind, Except.bind]

/-- C08.override_network: moving a `Contract` to another network keeps its script (the info is handed over as it is)
and gives it the address that network produces for that info -/
theorem C08_override_network (env : Env) (n₁ n₂ : Network) (i : Info) :
    (overrideContract env n₂ i).1 = contractScript i ∧ (overrideContract env n₂ i).2 = contractAddress env n₂ i ∧
    (overrideContract env n₂ i).1 = (overrideContract env n₁ i).1 := ⟨rfl, rfl, rfl⟩

/-- C08.registry_table: every module under `pycoin/symbols/` is found by its own name and by its network's symbol in
any letter case the lookup folds (re-decided over the generated table on every run); `network_codes()` therefore lists
one symbol per module -/
theorem C08_registry_table :
    (∀ n ∈ all, networkForNetcode n.module = some n ∧ networkForNetcode (upperAscii n.symbol) = some n) ∧
    networkCodes.length = all.length ∧ networkCodes.Nodup := by
  refine ⟨by decide +kernel, by simp [networkCodes], by decide +kernel⟩

/-- C08.registry_sound: what the registry returns for a symbol is a registered network carrying that symbol -/
theorem C08_registry_sound (t : String) (n : Network) (h : networkForNetcode t = some n) :
    n ∈ all ∧ upperAscii n.symbol = upperAscii t ∧ n.module = lowerAscii t := by
  unfold networkForNetcode at h
  have hm := List.mem_of_find?_eq_some h
  have hp := List.find?_some h
  simp only [Bool.and_eq_true, decide_eq_true_eq] at hp
  exact ⟨hm, hp.2, hp.1⟩

/-- C08.txin_address: the address `TxIn.address` reports is the address of the key the input's script reveals
(`key.address()` of that SEC on that network); an input that reveals none reports `(unknown)`, the coinbase input
`(coinbase)` — never another key's address -/
theorem C08_txin_address (env : Env) (net : Network) (script : Bytes) :
    (∀ sec, txInPublicKeySec false script = .ok (some sec) → sec ≠ [] →
      txInAddress env net false script = keyAddress env net sec) ∧
    (txInPublicKeySec false script = .ok none → txInAddress env net false script = .ok (some "(unknown)")) ∧
    txInAddress env net true script = .ok (some "(coinbase)") ∧ txInPublicKeySec true script = .ok none := by
  refine ⟨?_, ?_, rfl, rfl⟩
  · intro sec h hne
    have : sec.isEmpty = false := by cases sec <;> simp_all
    simp [txInAddress, h, this]
  · intro h
    simp [txInAddress, h]

end Pycoin.Addr
