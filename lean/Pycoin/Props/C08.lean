import Pycoin.Model.Address
/-! C08 — addresses and output scripts are in one-to-one correspondence on every network. -/
namespace Pycoin.Addr
open Pycoin.Gen.Networks

/-- the producing side and the parsing side of every network hold the same address prefixes and HRP -/
theorem C08_table_consistent :
    ∀ n ∈ all, n.addrP2pkh = n.parseP2pkh ∧ n.addrP2sh = n.parseP2sh ∧ n.addrHrp = n.parseHrp := by
  decide +kernel

end Pycoin.Addr
