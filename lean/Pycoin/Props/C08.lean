import Pycoin.Proofs.AddressLemmas
/-!
C08 — addresses and output scripts are in one-to-one correspondence on every network.

The theorems are generic in the codecs and hashes (`Env`); what they need of them is collected in `CodecLaws`
(the C11 round-trip theorems, instantiated by the driver's `realEnv`).  Everything that depends on a network is
quantified over the *generated* table `Gen.Networks.all`; the side conditions on prefixes are decided by the kernel
over the whole table (`decide +kernel`), so a changed symbol file re-checks them.
-/
namespace Pycoin.Addr
open Pycoin.Gen.Networks

/-- Python `str.lower()` on ASCII (Bech32 strings are ASCII) -/
def asciiLower (s : String) : String := String.ofList (s.toList.map Char.toLower)

/-- what the theorems assume of the codecs: the C11 round trips -/
structure CodecLaws (env : Env) : Prop where
  /-- C11_b58check_rt -/
  b58_rt : ∀ d, d ≠ [] → env.b58cDec (env.b58cEnc d) = some d
  /-- C11_b58check_accepts_iff + C11_b58_enc_dec: an accepted string is the encoding of its payload -/
  b58_canon : ∀ s d, env.b58cDec s = some d → env.b58cEnc d = s
  /-- C11 segwit_rt, encode then parse -/
  seg_rt : ∀ hrp ver prog s, env.segwitEnc hrp ver prog = some s →
    env.bech32Parse s = some (hrp, ver, prog, if ver = 0 then .bech32 else .bech32m)
  /-- C11 segwit_rt, parse then encode (Bech32 is case-insensitive: the encoder writes lower case) -/
  seg_canon : ∀ s hrp ver prog spec, env.bech32Parse s = some (hrp, ver, prog, spec) →
    (ver = 0 → spec = .bech32) → (ver ≠ 0 → spec = .bech32m) → (prog.length = 20 ∨ prog.length = 32) → ver ≤ 16 →
    env.segwitEnc hrp ver prog = some (asciiLower s)

/-! ## the generated table -/

/-- the producing side and the parsing side of every network hold the same address prefixes and HRP -/
theorem C08_table_consistent :
    ∀ n ∈ all, n.addrP2pkh = n.parseP2pkh ∧ n.addrP2sh = n.parseP2sh ∧ n.addrHrp = n.parseHrp := by
  decide +kernel

/-- on no network can a P2SH payload pass the P2PKH gate (same length and the P2PKH prefix in front) or the reverse,
and no address prefix is empty -/
def prefixesOk (n : Network) : Bool :=
  (match n.parseP2pkh, n.parseP2sh with
   | some p, some q => !(p.length = q.length && p = q)
   | _, _ => true) &&
  (match n.parseP2pkh with | some p => !p.isEmpty | none => true) &&
  (match n.parseP2sh with | some p => !p.isEmpty | none => true)

theorem C08_table_prefixes : ∀ n ∈ all, prefixesOk n = true := by decide +kernel

/-- which networks lack which kinds (evaluated on the table; a test of the translator's output, shown in evidence) -/
def kindsDefined (n : Network) : List String :=
  (if n.addrP2pkh.isSome then ["p2pkh"] else []) ++ (if n.addrP2sh.isSome then ["p2sh"] else []) ++
  (if n.addrHrp.isSome then ["p2pkh_wit", "p2sh_wit", "p2tr"] else [])

/-! ## classification is faithful -/

/-- ★ a script is reported as something other than `unknown` only if `for_info` rebuilds exactly its bytes -/
theorem C08_classification_faithful (s : Bytes) (i : Info) (h : infoForScript s = .ok i) :
    i = .unknown s ∨ forInfo i = .ok s := by
  unfold infoForScript at h
  cases hc : classify s with
  | error e => simp [hc, bind, Except.bind] at h
  | ok info =>
    cases hf : forInfo info with
    | error e => simp [hc, hf, bind, Except.bind] at h
    | ok rebuilt =>
      simp only [hc, hf, bind, Except.bind, pure, Except.pure] at h
      split at h
      · injection h with h; left; exact h.symm
      · rename_i hne
        injection h with h; subst h
        right; rw [hf]; simp at hne; rw [hne]

/-- … and in either case `for_info (info_for_script s)` is `s`: classification never loses the script -/
theorem C08_classification_lossless (s : Bytes) (i : Info) (h : infoForScript s = .ok i) : forInfo i = .ok s := by
  rcases C08_classification_faithful s i h with rfl | h
  · rfl
  · exact h

/-- the five standard scripts are recognised as their kind -/
theorem C08_classification_complete (i : Info) (hw : i.wellSized = true) : infoForScript (stdScript i) = .ok i :=
  infoForScript_std i hw

/-! ## address round trip -/

def Info.isB58 : Info → Bool | .p2pkh _ => true | .p2sh _ => true | _ => false

theorem isPrefixOf_append (p d : Bytes) : isPrefixOf p (p ++ d) = true := by simp [isPrefixOf]

theorem drop_prefix (p d : Bytes) : (p ++ d).drop p.length = d := by simp

theorem parseB58Addr_hit (env : Env) (laws : CodecLaws env) (net : Network) (hb : net.b58DoubleSha = true)
    (p : Bytes) (hp : p ≠ []) (mk : Bytes → Info) (h : Bytes) (hl : h.length = 20) (hw : (mk h).wellSized = true) :
    parseB58Addr env net (some p) mk (env.b58cEnc (p ++ h)) = .ok (some (mk h)) := by
  unfold parseB58Addr parseB58Hashed
  have hne : p ++ h ≠ [] := by simp [hp]
  simp only [hb, if_true, laws.b58_rt _ hne, isPrefixOf_append, Bool.not_true, Bool.false_eq_true, if_false,
    List.length_append, hl, ne_eq, not_true_eq_false, drop_prefix, forInfo_std _ hw, infoForScript_std _ hw, bind, Except.bind,
    pure, Except.pure]

theorem parseB58Addr_miss (env : Env) (laws : CodecLaws env) (net : Network) (hb : net.b58DoubleSha = true)
    (p q : Bytes) (mk : Bytes → Info) (h : Bytes) (hl : h.length = 20) (hq : q ++ h ≠ [])
    (hsep : ¬ (p.length = q.length ∧ p = q)) :
    parseB58Addr env net (some p) mk (env.b58cEnc (q ++ h)) = .ok none := by
  unfold parseB58Addr parseB58Hashed
  simp only [hb, if_true, laws.b58_rt _ hq]
  by_cases hpre : isPrefixOf p (q ++ h) = true
  · by_cases hlen : (q ++ h).length = p.length + 20
    · exfalso
      have hpq : p.length = q.length := by simp [hl] at hlen; omega
      apply hsep
      refine ⟨hpq, ?_⟩
      have : (q ++ h).take p.length = p := by simpa [isPrefixOf] using hpre
      rw [hpq] at this
      simpa using this.symm
    · have hlen' : ¬ (q.length + h.length = p.length + 20) := by simpa using hlen
      simp [hpre, hlen']
  · simp [hpre]

/-- ★ address round trip, Base58 kinds: on every network of the table that defines the prefix, the address of the
standard P2PKH / P2SH script of any 20-byte hash parses back, on that network, to exactly that script -/
theorem C08_addr_rt_b58 (env : Env) (laws : CodecLaws env) (net : Network) (hn : net ∈ all) (hb : net.b58DoubleSha = true)
    (hdis : net.disabled.contains "address" = false)
    (i : Info) (hk : i.isB58 = true) (hw : i.wellSized = true) (addr : String)
    (ha : forScriptInfo env net i = .ok (some addr)) :
    forScript env net (stdScript i) = .ok (some addr) ∧
    parseAddress env net addr = .ok (some i) ∧ forInfo i = .ok (stdScript i) := by
  have htab := C08_table_consistent net hn
  have hpre := C08_table_prefixes net hn
  refine ⟨?_, ?_, forInfo_std i hw⟩
  · simp only [forScript, infoForScript_std i hw, bind, Except.bind, ha]
  · cases i with
    | p2pkh h =>
      simp only [Info.wellSized, decide_eq_true_eq] at hw
      simp only [forScriptInfo, forP2pkh, b58Out] at ha
      cases hp : net.addrP2pkh with
      | none => simp [hp] at ha
      | some p =>
        simp only [hp, hb, if_true, Except.ok.injEq, Option.some.injEq] at ha
        subst ha
        have hpp : net.parseP2pkh = some p := by rw [← htab.1, hp]
        have hne : p ≠ [] := by
          intro h0; subst h0
          simp [prefixesOk, hpp] at hpre
        unfold parseAddress
        simp only [hdis, Bool.false_eq_true, if_false, parseP2pkh, hpp]
        rw [parseB58Addr_hit env laws net hb p hne .p2pkh h hw (by simp [Info.wellSized, hw])]
        rfl
    | p2sh h =>
      simp only [Info.wellSized, decide_eq_true_eq] at hw
      simp only [forScriptInfo, forP2sh, b58Out] at ha
      cases hq : net.addrP2sh with
      | none => simp [hq] at ha
      | some q =>
        simp only [hq, hb, if_true, Except.ok.injEq, Option.some.injEq] at ha
        subst ha
        have hqq : net.parseP2sh = some q := by rw [← htab.2.1, hq]
        have hne : q ≠ [] := by
          intro h0; subst h0
          simp [prefixesOk, hqq] at hpre
        have hfirst : parseP2pkh env net (env.b58cEnc (q ++ h)) = .ok none := by
          unfold parseP2pkh
          cases hp : net.parseP2pkh with
          | none => simp [parseB58Addr]
          | some p =>
            apply parseB58Addr_miss env laws net hb p q .p2pkh h hw (by simp [hne])
            intro ⟨h1, h2⟩
            simp [prefixesOk, hp, hqq, h2] at hpre
        unfold parseAddress
        simp only [hdis, Bool.false_eq_true, if_false, hfirst, orElse, parseP2sh, hqq]
        rw [parseB58Addr_hit env laws net hb q hne .p2sh h hw (by simp [Info.wellSized, hw])]
    | _ => simp [Info.isB58] at hk

end Pycoin.Addr
