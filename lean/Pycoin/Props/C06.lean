import Pycoin.Model.Validate
import Pycoin.Proofs.SighashCommit
/-!
C06 — Validation is tamper-evident: signatures bind what their hash type commits.

The commitment of a legacy signature is the temporary transaction `_signature_hash` builds (`committedLegacy`): two
preimages are equal exactly when these blanked transactions (and the hash-type words) are.  For BIP143 and the fork-id
variants the commitment is the list of the ten items of the message.  The interpreter is a parameter (`VM`).
-/
namespace Pycoin.Validate
open Pycoin Pycoin.Wire Pycoin.Sighash Pycoin.Spec.Sighash Pycoin.Spec.Wire

/-! ## unknown spent output -/

/-- C06.missing_unspent_false: `is_solution_ok(idx)` is `False`, without running the checker, whenever the spent output of
input `idx` is unknown — the `unspents` list is too short or holds `None` at `idx` — whatever the interpreter would say
and whatever the other unspents are -/
theorem C06_missing_unspent_false (V : VM) (c : Coin) (s : State) (idx : Nat) (h : s.us[idx]?.join = none) :
    isSolutionOk V c s idx = .ok false := by
  unfold isSolutionOk
  by_cases h1 : s.us.length ≤ idx
  · simp [h1]
  · simp [h1, h]

/-- the guards agree: when `is_solution_ok` gets past its guard, `tx_context_for_idx` uses the recorded script unless the
transaction is a coinbase -/
theorem C06_guard_consistent (s : State) (idx : Nat) (o : TxOut) (h : s.us[idx]?.join = some o) (hcb : s.tx.isCoinbase = false) :
    missingUnspent s idx = false := by
  unfold missingUnspent
  have hlt : ¬ s.us.length ≤ idx := by
    intro hle
    rw [List.getElem?_eq_none hle] at h
    cases h
  simp [hcb, hlt, h]

/-! ## how the unspents get populated -/

/-- C06.unspents_from_db_sound: when `unspents_from_db` returns, the list has one entry per input, and entry `k` is
exactly the output the database holds for input `k` (`dbOutput`: the stored transaction reports the hash it is filed
under and has an output at `previous_index`) — `None` for a coinbase input and whenever the database has no such
output.  No other value (in particular no placeholder output) is ever recorded. -/
theorem C06_unspents_from_db_sound (db : TxDb) (ign : Bool) :
    ∀ (ins : List TxIn) (us : List (Option TxOut)), unspentsFromDb db ign ins = .ok us →
      us.length = ins.length ∧
      ∀ (k : Nat) (t : TxIn), ins[k]? = some t → us[k]? = some (if t.isCoinbase then none else dbOutput db t) := by
  intro ins
  induction ins with
  | nil =>
    intro us h
    simp only [unspentsFromDb] at h
    cases h
    exact ⟨rfl, by intro k t hk; simp at hk⟩
  | cons a as ih =>
    intro us h
    unfold unspentsFromDb at h
    -- the head entry
    have hhead : ∀ u, (if a.isCoinbase then (.ok none : Except PopErr (Option TxOut))
        else match db a.prevHash with
          | some (h', outs) =>
            if h' = a.prevHash then
              match pyIndex outs a.prevIndex with
              | some o => .ok (some o)
              | none => .error .indexError
            else if ign then .ok none else .error .keyError
          | none => if ign then .ok none else .error .keyError) = .ok u →
        u = (if a.isCoinbase then none else dbOutput db a) := by
      intro u hu
      by_cases hc : a.isCoinbase = true
      · simp only [hc, if_true] at hu ⊢
        cases hu; rfl
      · simp only [hc, Bool.false_eq_true, if_false] at hu ⊢
        unfold dbOutput
        cases hd : db a.prevHash with
        | none =>
          simp only [hd] at hu
          split at hu
          · cases hu; rfl
          · cases hu
        | some p =>
          obtain ⟨h', outs⟩ := p
          simp only [hd] at hu ⊢
          by_cases hh : h' = a.prevHash
          · simp only [hh, if_true] at hu ⊢
            cases hp : pyIndex outs a.prevIndex with
            | none => simp [hp] at hu
            | some o => simp only [hp] at hu; cases hu; rfl
          · simp only [hh, if_false] at hu ⊢
            split at hu
            · cases hu; rfl
            · cases hu
    simp only at h
    split at h
    · cases h
    · rename_i u hu
      split at h
      · cases h
      · rename_i us' hus
        cases h
        obtain ⟨hl, hk⟩ := ih us' hus
        have hu' := hhead u hu
        refine ⟨by simp [hl], ?_⟩
        intro k t hkt
        cases k with
        | zero =>
          simp only [List.getElem?_cons_zero, Option.some.injEq] at hkt ⊢
          subst hkt
          exact hu'
        | succ k =>
          simp only [List.getElem?_cons_succ] at hkt ⊢
          exact hk k t hkt

/-- C06.unknown_output_never_valid: after `unspents_from_db`, an input whose spent output does not exist in the source
data — no transaction under that hash, a transaction reporting another hash, or an index at or beyond its outputs — is
refused by `is_solution_ok` whatever its scriptSig and whatever the interpreter would say -/
theorem C06_unknown_output_never_valid (V : VM) (c : Coin) (db : TxDb) (ign : Bool) (tx : Tx) (us : List (Option TxOut))
    (h : unspentsFromDb db ign tx.ins = .ok us) (idx : Nat) (t : TxIn) (ht : tx.ins[idx]? = some t)
    (hno : dbOutput db t = none) :
    isSolutionOk V c ⟨tx, us⟩ idx = .ok false := by
  apply C06_missing_unspent_false
  have := (C06_unspents_from_db_sound db ign tx.ins us h).2 idx t ht
  show us[idx]?.join = none
  rw [this]
  cases t.isCoinbase <;> simp [hno]

/-- C06.from_db_index_error: a source transaction that is present under the right hash but has no output at
`previous_index` makes `unspents_from_db` raise for the first such input (nothing is recorded), even with `ignore_missing` -/
theorem C06_from_db_index_error (db : TxDb) (ign : Bool) (t : TxIn) (ts : List TxIn) (outs : List TxOut)
    (hc : t.isCoinbase = false) (hd : db t.prevHash = some (t.prevHash, outs)) (hi : pyIndex outs t.prevIndex = none) :
    unspentsFromDb db ign (t :: ts) = .error .indexError := by
  unfold unspentsFromDb
  simp [hc, hd, hi]

/-- C06.set_unspents_length: `set_unspents` refuses a list of the wrong length, and otherwise records it as given: a
`None` entry stays unknown -/
theorem C06_set_unspents (V : VM) (c : Coin) (s : State) (us : List (Option TxOut)) :
    (us.length ≠ s.tx.ins.length → setUnspents s us = .error .valueError) ∧
    (∀ s', setUnspents s us = .ok s' → s'.us = us ∧ ∀ idx, us[idx]?.join = none → isSolutionOk V c s' idx = .ok false) := by
  constructor
  · intro h; simp [setUnspents, h]
  · intro s' h
    unfold setUnspents at h
    split at h
    · cases h
    · cases h
      exact ⟨rfl, fun idx hn => C06_missing_unspent_false V c _ idx hn⟩

/-! ## the per-call cache -/

theorem runCached_inv {α : Type} (f : Nat → α) : ∀ (hts : List Nat) (cache : List (Nat × α)),
    (∀ p ∈ cache, p.2 = f p.1) → runCached f cache hts = hts.map f := by
  intro hts
  induction hts with
  | nil => intro cache _; rfl
  | cons ht hts ih =>
    intro cache hinv
    unfold runCached cachedLookup
    cases hfind : cache.find? (fun p => p.1 == ht) with
    | none =>
      simp only [List.map_cons]
      congr 1
      apply ih
      intro p hp
      simp only [List.mem_cons] at hp
      rcases hp with rfl | hp
      · rfl
      · exact hinv p hp
    | some p =>
      have hmem := List.mem_of_find?_eq_some hfind
      have hk := List.find?_some hfind
      simp only [beq_iff_eq] at hk
      simp only [List.map_cons]
      congr 1
      · rw [hinv p hmem, hk]
      · exact ih cache hinv

/-- C06.cache_transparent: within one `checksigs` execution (the only lifetime the `sighash_cache` dict has: it is created
empty by every call and keyed by the hash type alone, while the script code and the signature list are fixed), every
message handed to `generator.verify` is what recomputing the closure for that hash type returns -/
theorem C06_cache_transparent {α : Type} (f : Nat → α) (hts : List Nat) : runCached f [] hts = hts.map f :=
  runCached_inv f hts [] (by intro p hp; cases hp)

/-! ## the verdict depends on the input's context and on the closure answers only -/

theorem isSolutionOk_eq (V : VM) (c : Coin) (s : State) (idx : Nat) :
    isSolutionOk V c s idx =
      if (s.us[idx]?.join).isSome then
        (match checkSolution V c s idx with
          | .ok => .ok true
          | .scriptError => .ok false
          | .raised t => .error t)
      else .ok false := by
  unfold isSolutionOk
  by_cases h1 : s.us.length ≤ idx
  · simp [h1, List.getElem?_eq_none h1]
  · cases hj : s.us[idx]?.join with
    | none => simp [h1]
    | some o =>
      simp [h1]
      cases checkSolution V c s idx <;> rfl

/-- C06.verdict_frame: let `Q` be the closure calls the interpreter may make (those of the signatures in the input's
unlocking data).  If two states give input `idx` the same context (unlocking script and witness, spent script, sequence,
version, lock time), have its spent output known in both, and the closures answer every query of `Q` alike — which is
the case when what the hash types of `Q` commit to is the same in both (`C06_committed_iff_*`) — then `is_solution_ok`
returns the same verdict.  Every other edit of the transaction or of the unspents is invisible to it. -/
theorem C06_verdict_frame (V : VM) (c : Coin) (Q : Query → Prop)
    (hV : ∀ ctx f g, (∀ q, Q q → f q = g q) → V ctx f = V ctx g)
    (s s' : State) (idx : Nat)
    (hctx : txContextForIdx s idx = txContextForIdx s' idx)
    (hknown : (s.us[idx]?.join).isSome = (s'.us[idx]?.join).isSome)
    (hq : ∀ q, Q q → oracle c s idx q = oracle c s' idx q) :
    isSolutionOk V c s idx = isSolutionOk V c s' idx := by
  have hcs : checkSolution V c s idx = checkSolution V c s' idx := by
    unfold checkSolution
    rw [hctx]
    cases txContextForIdx s' idx with
    | none => rfl
    | some ctx => exact hV ctx _ _ hq
  rw [isSolutionOk_eq, isSolutionOk_eq, hknown, hcs]

/-- the closures answer alike when the digested bytes are the same: a legacy query depends on the transaction only
through the temporary transaction (`legacyTmpTx`), whatever else differs -/
theorem legacy_closure_congr (c : Coin) (tx tx' : Tx) (script : Bytes) (idx ht : Nat)
    (h : ∀ s', legacyTmpTx tx s' idx ht = legacyTmpTx tx' s' idx ht) :
    Sighash.legacyPreimage c tx script idx ht = Sighash.legacyPreimage c tx' script idx ht := by
  unfold Sighash.legacyPreimage
  cases deleteSubscript script Gen.Sighash.strippedSubscript with
  | error e => rfl
  | ok s' => simp only [h s']

/-! ## what a legacy signature commits to -/

/-- the hypotheses under which a (transaction, input, script code) triple is in the property's quantifier -/
structure InScope (tx : Tx) (idx : Nat) (script : Bytes) : Prop where
  wf : tx.WF
  idx : idx < tx.ins.length
  complete : Complete script
  len : LenOk script

/-- C06.committed_iff (legacy): for the same hash-type word, two legacy preimages — of any two transactions, input
positions and script codes in scope — are equal **iff** the committed projections are equal, where the projection is the
blanked temporary transaction (`committedLegacy`: version, lock time, the kept inputs with outpoint, sequence-or-zero and
the stripped script code at the signed position, the kept outputs).  "⇐" is congruence, "⇒" is unique decoding of the
wire format. -/
theorem C06_committed_iff_legacy (c : Coin) (tx tx' : Tx) (idx idx' : Nat) (script script' : Bytes)
    (hx : InScope tx idx script) (hy : InScope tx' idx' script') (ht : Nat) (hht : ht < 2 ^ 32) :
    Sighash.legacyPreimage c tx script idx ht = Sighash.legacyPreimage c tx' script' idx' ht ↔
      committedLegacy tx script idx ht = committedLegacy tx' script' idx' ht := by
  obtain ⟨st, hdel, hsl, _⟩ := strip_is_serializeScriptCode script hx.complete
  obtain ⟨st', hdel', hsl', _⟩ := strip_is_serializeScriptCode script' hy.complete
  have hs : LenOk st := by have := hx.len; unfold LenOk at this ⊢; omega
  have hs' : LenOk st' := by have := hy.len; unfold LenOk at this ⊢; omega
  rw [legacyPreimage_tmp c tx hx.wf idx hx.idx script st hdel hs ht hht,
    legacyPreimage_tmp c tx' hy.wf idx' hy.idx script' st' hdel' hs' ht hht,
    committedLegacy_eq tx idx hx.idx script st hdel ht, committedLegacy_eq tx' idx' hy.idx script' st' hdel' ht]
  cases hb : isBug tx idx ht <;> cases hb' : isBug tx' idx' ht
  · -- neither is the SINGLE-bug case: unique decoding
    simp only [Bool.false_eq_true, if_false]
    have nb : ¬ (fHashSingle ht = true ∧ idx ≥ tx.outs.length) := by
      intro h; simp [isBug, h.1, h.2] at hb
    have nb' : ¬ (fHashSingle ht = true ∧ idx' ≥ tx'.outs.length) := by
      intro h; simp [isBug, h.1, h.2] at hb'
    constructor
    · intro h
      have h1 := Option.some.inj (Except.ok.inj h)
      have h2 := List.append_cancel_right h1
      have := legacy_injective _ _ (tmp_wf tx hx.wf st hs idx ht hx.idx nb) (tmp_wf tx' hy.wf st' hs' idx' ht hy.idx nb')
        (tmp_ins_pos tx st idx ht hx.idx) (tmp_ins_pos tx' st' idx' ht hy.idx) (tmp_nowit tx st idx ht) (tmp_nowit tx' st' idx' ht) h2
      have this : tmpOf tx st idx ht = tmpOf tx' st' idx' ht := this
      rw [this]
    · intro h
      have h1 := Option.some.inj (Except.ok.inj h)
      rw [h1]
  · simp
  · simp
  · simp

/-- C06.committed_all: with SIGHASH_ALL (no NONE/SINGLE/ANYONECANPAY bit pattern) the projection keeps the version, the
lock time, every outpoint and sequence, every output, and the (stripped) script code at the signed position; the
scriptSigs and witnesses of all inputs are dropped -/
theorem C06_committed_all (tx : Tx) (stripped : Bytes) (idx ht : Nat)
    (h1 : fHashNone ht = false) (h2 : fHashSingle ht = false) (h3 : fAnyoneCanPay ht = false) :
    tmpOf tx stripped idx ht =
      ⟨tx.version, tx.ins.mapIdx (fun i t => ⟨t.prevHash, t.prevIndex, if i = idx then stripped else [], t.sequence, []⟩),
       tx.outs, tx.lockTime⟩ := by
  simp [tmpOf, insOf, ins1, ins0, outsOf, zFlag, h1, h2, h3, txInForIdx]

/-- C06.none_frees_outputs: under SIGHASH_NONE the projection does not depend on the outputs at all -/
theorem C06_none_frees_outputs (tx : Tx) (outs' : List TxOut) (stripped : Bytes) (idx ht : Nat) (h : fHashNone ht = true) :
    tmpOf { tx with outs := outs' } stripped idx ht = tmpOf tx stripped idx ht := by
  simp [tmpOf, insOf, ins1, ins0, outsOf, h]

/-- C06.unlocking_data_free: no hash type commits to any input's scriptSig or witness -/
theorem C06_unlocking_data_free (tx : Tx) (f : TxIn → Bytes) (g : TxIn → List Bytes) (stripped : Bytes) (idx ht : Nat) :
    tmpOf { tx with ins := tx.ins.map (fun t => { t with script := f t, witness := g t }) } stripped idx ht =
      tmpOf tx stripped idx ht := by
  have : List.mapIdx (fun i t => txInForIdx i idx t stripped) (tx.ins.map (fun t => { t with script := f t, witness := g t })) =
      List.mapIdx (fun i t => txInForIdx i idx t stripped) tx.ins := by
    apply List.ext_getElem?
    intro i
    simp [List.getElem?_mapIdx, txInForIdx]
    cases tx.ins[i]? <;> rfl
  simp only [tmpOf, insOf, ins1, ins0, outsOf, this]

/-- C06.acp_frees_other_inputs: under ANYONECANPAY the projection keeps a single input, the signed one -/
theorem C06_acp_single_input (tx : Tx) (stripped : Bytes) (idx ht : Nat) (h : fAnyoneCanPay ht = true)
    (hidx : idx < tx.ins.length) :
    (tmpOf tx stripped idx ht).ins =
      [⟨tx.ins[idx].prevHash, tx.ins[idx].prevIndex, stripped, tx.ins[idx].sequence, []⟩] := by
  have hl := ins1_length tx stripped idx ht
  have hlt : idx < (ins1 tx stripped idx ht).length := by omega
  show insOf tx stripped idx ht = _
  unfold insOf
  simp only [h, if_true, List.getElem?_eq_getElem hlt, Option.toList]
  congr 1
  unfold ins1 zeroOtherSequences ins0
  split <;> simp [txInForIdx]

/-! ## what a BIP143 / fork-id signature commits to -/

theorem sha256_len (b : Bytes) : (Pycoin.Hash.sha256 b).length = 32 := by
  simp [Pycoin.Hash.sha256, Pycoin.Hash.u32be]

theorem sha_len (single : Bool) (b : Bytes) : (sha single b).length = 32 := by
  cases single <;> simp [sha, Pycoin.Hash.dsha256, sha256_len]

/-- C06.committed_iff (BIP143, and with `ht | forkid·256` the Bitcoin Cash / Bitcoin Gold variants): two messages are
equal **iff** their ten items are — version, hashPrevouts, hashSequence, the outpoint, the script code, the spent amount,
the sequence, hashOutputs, lock time, hash-type word (`committed143`).  The three part hashes stand for the outpoints,
sequences and outputs they digest (or are zero when the hash type leaves those free); going from equal part hashes to
equal lists is collision resistance (`C06_tamper_fails_partial`). -/
theorem C06_committed_iff_bip143 (single : Bool)
    (tx tx' : Tx) (hwf : tx.WF) (hwf' : tx'.WF) (idx idx' : Nat) (hidx : idx < tx.ins.length) (hidx' : idx' < tx'.ins.length)
    (code code' : Bytes) (hc : LenOk code) (hc' : LenOk code') (amt amt' : Nat) (ha : amt < 2 ^ 64) (ha' : amt' < 2 ^ 64)
    (ht ht' : Nat) (hht : ht < 2 ^ 32) (hht' : ht' < 2 ^ 32) :
    bip143Preimage (sha single) tx idx code amt ht = bip143Preimage (sha single) tx' idx' code' amt' ht' ↔
      committed143 (sha single) tx idx code amt ht = committed143 (sha single) tx' idx' code' amt' ht' :=
  bip143_items_iff (sha single) (sha_len single) tx tx' hwf hwf' idx idx' hidx hidx' code code' hc hc' amt amt' ha ha' ht ht' hht hht'

/-- C06.amount_committed: for witness and fork-id inputs the spent amount is one of the items: changing it alone
changes the message, for every hash type -/
theorem C06_amount_committed (single : Bool) (tx : Tx) (hwf : tx.WF) (idx : Nat) (hidx : idx < tx.ins.length)
    (code : Bytes) (hc : LenOk code) (amt amt' : Nat) (ha : amt < 2 ^ 64) (ha' : amt' < 2 ^ 64) (hne : amt ≠ amt')
    (ht : Nat) (hht : ht < 2 ^ 32) :
    bip143Preimage (sha single) tx idx code amt ht ≠ bip143Preimage (sha single) tx idx code amt' ht := by
  intro h
  have := (C06_committed_iff_bip143 single tx tx hwf hwf idx idx hidx hidx code code hc hc amt amt' ha ha' ht ht hht hht).mp h
  unfold committed143 at this
  rw [List.getElem?_eq_getElem hidx] at this
  injection this with this
  injection this with _ _ _ _ _ _ h7
  exact hne h7

/-- C06.bip143_none_frees_outputs: under SIGHASH_NONE hashOutputs is zero whatever the outputs are -/
theorem C06_bip143_none_frees_outputs (H : Bytes → Bytes) (tx : Tx) (outs' : List TxOut) (idx : Nat) (code : Bytes)
    (amt ht : Nat) (h : fHashNone ht = true) :
    committed143 H { tx with outs := outs' } idx code amt ht = committed143 H tx idx code amt ht := by
  have hs : fHashSingle ht = false := flags_excl ht h
  simp [committed143, Spec.Sighash.hashOutputs, Spec.Sighash.hashPrevouts, Spec.Sighash.hashSequence, h, hs]

/-! ## tampering -/

/-- C06.tamper_fails (partial: the two extra hypotheses are cryptographic assumptions, not facts about the code —
`hCR`: the digest function has no collision on the two messages; `hUF`: the signature, valid for the digest it was made
over, is not valid for any other digest under the same key).  If the committed bytes differ, verification of the old
signature against the new message fails. -/
theorem C06_tamper_fails_partial (H : Bytes → Bytes) (verify : Bytes → Bool) (p p' : Bytes)
    (hne : p ≠ p')
    (hCR : H p = H p' → p = p')
    (hUF : ∀ d', d' ≠ H p → verify d' = false) :
    verify (H p') = false :=
  hUF (H p') (fun h => hne (hCR h.symm))

/-! ## non-vacuity (evaluated) -/

def exIn (n : UInt8) (q : Int) : TxIn := ⟨List.replicate 32 n, 3, [0x51], q, [[1, 2]]⟩
def exTx : Tx := ⟨2, [exIn 1 0xFFFFFFFF, exIn 2 5, exIn 3 0], [⟨5000, [0x76, 0xa9]⟩, ⟨0, []⟩], 500000⟩
def exCode : Bytes := [0x76, 0xab, 0x02, 0xab, 0xab, 0xac]

-- an output changed: the projection under ALL differs, under NONE it does not; a scriptSig changed: never
#guard (match committedLegacy exTx exCode 1 0x01, committedLegacy { exTx with outs := [⟨5001, [0x76, 0xa9]⟩, ⟨0, []⟩] } exCode 1 0x01 with
  | .ok (some a), .ok (some b) => a != b | _, _ => false)
#guard (match committedLegacy exTx exCode 1 0x02, committedLegacy { exTx with outs := [⟨5001, [0x76, 0xa9]⟩] } exCode 1 0x02 with
  | .ok (some a), .ok (some b) => a == b | _, _ => false)
#guard (match committedLegacy exTx exCode 1 0x01, committedLegacy { exTx with ins := exTx.ins.map fun t => { t with script := [] } } exCode 1 0x01 with
  | .ok (some a), .ok (some b) => a == b | _, _ => false)
#guard (unspentsFromDb (fun h => if h == List.replicate 32 1 then some (h, [⟨5, [0x51]⟩]) else none) true
    [⟨List.replicate 32 1, 0, [], 0, []⟩, ⟨List.replicate 32 2, 0, [], 0, []⟩] matches .ok [some _, none])
#guard (unspentsFromDb (fun h => some (h, [⟨5, [0x51]⟩])) true [⟨List.replicate 32 1, 1, [0x51], 0, []⟩] matches .error .indexError)
#guard runCached (fun ht => ht * 7 + 1) [] [1, 2, 1, 3, 2] = [8, 15, 8, 22, 15]
#guard (isSolutionOk (fun _ _ => .ok) .btc ⟨exTx, [none, some ⟨1, []⟩]⟩ 0 matches .ok false)
#guard (isSolutionOk (fun _ _ => .ok) .btc ⟨exTx, [none, some ⟨1, []⟩]⟩ 2 matches .ok false)
#guard (isSolutionOk (fun _ _ => .ok) .btc ⟨exTx, [none, some ⟨1, []⟩]⟩ 1 matches .ok true)

end Pycoin.Validate
